import Tfv.Proofs.VocabType
import Tfv.Proofs.VocabReach
/-!
# `add_taxonomy`: the triples after the first loop (descriptions + direct links) and after the closure loop
-/
namespace Tfv.Voc
open Tfv Tfv.Tax

/-- every triple describes a registered type or is a link triple -/
def VSound (G : GLang) (c : GCfg) (g : GState) : Prop := ∀ tr, tr ∈ g.triples → Described G c g tr ∨ LinkTr G tr

theorem VSound.step {G : GLang} {c : GCfg} {g g' : GState} (h : VSound G c g) (hl : ∀ x n, g.L x = some n → g'.L x = some n)
    (hn : NewOk G c g g' (fun _ => False)) : VSound G c g' := by
  intro tr htr
  rcases hn tr htr with h' | h' | h' | h'
  · rcases h tr h' with h' | h'
    · exact .inl (h'.mono hl)
    · exact .inr h'
  · exact .inl h'
  · exact .inr h'
  · exact h'.elim

/-- `add_subtypes(t)` -/
theorem addSubtypes_voc (G : GLang) (g : GState) (t : Ty) (g' : GState) (h : addSubtypes G g t = .ok g') :
    t ∈ G.canon ∧ TExt G g g' ∧ g'.supertyped = g.supertyped ∧
      ∀ s a b, GLink G false t s → typeUri G t.toTerm = .ok a → typeUri G s.toTerm = .ok b → (b, subClassOf, a) ∈ g'.triples := by
  unfold addSubtypes at h
  split at h
  · cases h
  · rename_i ref href
    split at h
    · cases h
    · rename_i hcan
      simp only [Bool.not_eq_true', Bool.not_eq_false] at hcan
      have htc : t ∈ G.canon := mem_of_memTy hcan
      have hf := foldlM_inv _ (fun ga gb => TExt G ga gb ∧ gb.supertyped = ga.supertyped)
        (fun (s : Ty) (gg : GState) => ∀ sn, typeUri G s.toTerm = .ok sn → (sn, subClassOf, ref) ∈ gg.triples)
        (fun _ => True) (fun g => ⟨TExt.refl G g, rfl⟩)
        (fun _ _ _ h1 h2 => ⟨h1.1.trans h2.1, by rw [h2.2, h1.2]⟩)
        (fun s ga gb hd hr sn hsn => hr.1.old _ (hd sn hsn)) _ (by
          intro ga s gb hs _ hstep
          split at hstep
          · cases hstep
          · rename_i sn hsn
            simp only [Except.ok.injEq] at hstep
            subst hstep
            refine ⟨trivial, ⟨TExt.add ga _ (.down htc hs href hsn), add_supertyped _ _⟩, ?_⟩
            intro sn' hsn'
            rw [hsn] at hsn'; cases hsn'
            exact mem_add.2 (.inr rfl)) g g' trivial h
      obtain ⟨_, ⟨r1, r2⟩, d1⟩ := hf
      refine ⟨htc, r1, r2, ?_⟩
      intro s a b hs ha hb
      rw [href] at ha; cases ha
      exact d1 s hs b hb

/-- `add_supertypes(t)` -/
theorem addSupertypes_voc (G : GLang) (c : GCfg) (g : GState) (t : Ty) (g' : GState) (h : addSupertypes G g t = .ok g')
    (hi : VInv G c g) (htc : t ∈ G.canon) :
    TExt G g g' ∧ g'.supertyped = g.supertyped ∧
      ∀ u a b, GLink G true t u → typeUri G t.toTerm = .ok a → typeUri G u.toTerm = .ok b → (a, subClassOf, b) ∈ g'.triples := by
  unfold addSupertypes at h
  split at h
  · rename_i hsup
    simp only [Except.ok.injEq] at h
    subst h
    exact ⟨TExt.refl G g, rfl, hi.sup t (mem_of_memTy hsup)⟩
  · split at h
    · cases h
    · rename_i ref href
      split at h
      · cases h
      · have hf := foldlM_inv _ (fun ga gb => TExt G ga gb ∧ gb.supertyped = ga.supertyped)
          (fun (s : Ty) (gg : GState) => ∀ sn, typeUri G s.toTerm = .ok sn → (ref, subClassOf, sn) ∈ gg.triples)
          (fun _ => True) (fun g => ⟨TExt.refl G g, rfl⟩)
          (fun _ _ _ h1 h2 => ⟨h1.1.trans h2.1, by rw [h2.2, h1.2]⟩)
          (fun s ga gb hd hr sn hsn => hr.1.old _ (hd sn hsn)) _ (by
            intro ga s gb hs _ hstep
            split at hstep
            · cases hstep
            · rename_i sn hsn
              simp only [Except.ok.injEq] at hstep
              subst hstep
              refine ⟨trivial, ⟨TExt.add ga _ (.up htc hs href hsn), add_supertyped _ _⟩, ?_⟩
              intro sn' hsn'
              rw [hsn] at hsn'; cases hsn'
              exact mem_add.2 (.inr rfl)) g g' trivial h
        obtain ⟨_, ⟨r1, r2⟩, d1⟩ := hf
        refine ⟨r1, r2, ?_⟩
        intro u a b hu ha hb
        rw [href] at ha; cases ha
        exact d1 u hu b hb

/-- the result of one round of the first loop for `t` -/
structure TaxDone (G : GLang) (t : Ty) (g : GState) : Prop where
  canon : t ∈ G.canon
  reg : ∃ n, typeUri G t.toTerm = .ok n ∧ g.L t.toTerm = some n
  up : ∀ u a b, GLink G true t u → typeUri G t.toTerm = .ok a → typeUri G u.toTerm = .ok b → (a, subClassOf, b) ∈ g.triples
  down : ∀ s a b, GLink G false t s → typeUri G t.toTerm = .ok a → typeUri G s.toTerm = .ok b → (b, subClassOf, a) ∈ g.triples

/-- registered types and triples stay -/
def Grows (g g' : GState) : Prop := (∀ x n, g.L x = some n → g'.L x = some n) ∧ ∀ tr, tr ∈ g.triples → tr ∈ g'.triples

theorem Grows.refl (g : GState) : Grows g g := ⟨fun _ _ h => h, fun _ h => h⟩
theorem Grows.trans {g1 g2 g3 : GState} (h1 : Grows g1 g2) (h2 : Grows g2 g3) : Grows g1 g3 :=
  ⟨fun x n h => h2.1 x n (h1.1 x n h), fun tr h => h2.2 tr (h1.2 tr h)⟩
theorem Ext.grows {g g' : GState} {b : Nat} (h : Ext g g' b) : Grows g g' := ⟨h.look, h.triples⟩

theorem TaxDone.grows {G : GLang} {t : Ty} {g g' : GState} (h : TaxDone G t g) (hg : Grows g g') : TaxDone G t g' := by
  obtain ⟨n, h1, h2⟩ := h.reg
  exact ⟨h.canon, ⟨n, h1, hg.1 _ _ h2⟩, fun u a b hu ha hb => hg.2 _ (h.up u a b hu ha hb),
    fun s a b hs ha hb => hg.2 _ (h.down s a b hs ha hb)⟩

theorem nodeOk_canonical {G : GLang} {c : GCfg} {t : Ty} {n : Node} (ht : t ∈ G.canon) (h : NodeOk G c t.toTerm n) :
    typeUri G t.toTerm = .ok n := by
  rcases h with h | ⟨h, _⟩
  · exact h
  · obtain ⟨u, hu⟩ := typeUri_canonical G t ((memTy_iff _ _).2 ht)
    rw [hu] at h; cases h

theorem taxonomyStep_voc (G : GLang) (c : GCfg) (g : GState) (t : Ty) (g' : GState) (h : taxonomyStep G c g t = .ok g')
    (hi : VInv G c g) (hs : VSound G c g) : (VInv G c g' ∧ VSound G c g') ∧ Grows g g' ∧ TaxDone G t g' := by
  unfold taxonomyStep at h
  split at h
  · cases h
  · rename_i g1 n hadd
    split at h
    · cases h
    · rename_i g2 hsub
      obtain ⟨htc, r2, s2, d2⟩ := addSubtypes_voc G g1 t g2 hsub
      have hfc : FromCanon G c t.toTerm := ⟨t, htc, .refl _⟩
      obtain ⟨i1, e1, n1, l1⟩ := (addType_voc G c typeFuel).1 _ _ _ _ hadd hi hfc
      have i2 : VInv G c g2 := i1.more r2.nodes r2.old s2
      obtain ⟨r3, _, d3⟩ := addSupertypes_voc G c g2 t g' h i2 htc
      have r23 : TExt G g1 g' := r2.trans r3
      have i3 : VInv G c g' := by
        refine ⟨?_, ?_, ?_, ?_⟩
        · intro x m hl; rw [r3.L] at hl; exact i2.node x m hl
        · intro x m hl tr hd; rw [r3.L] at hl hd; exact r3.old _ (i2.complete x m hl tr hd)
        · intro x m hl; rw [r3.L] at hl ⊢; exact i2.params x m hl
        · intro t' ht' u a b hu ha hb
          rename_i s3
          rw [s3] at ht'
          exact r3.old _ (i2.sup t' ht' u a b hu ha hb)
      have s1 : VSound G c g1 := hs.step e1.look n1
      have s3 : VSound G c g' := s1.step (fun x m hx => by rw [r23.L]; exact hx) r23.newOk
      have hreg : typeUri G t.toTerm = .ok n := nodeOk_canonical htc (i1.node _ _ l1).1
      refine ⟨⟨i3, s3⟩, e1.grows.trans (r23.ext 0).grows, ⟨htc, ⟨n, hreg, by rw [r23.L]; exact l1⟩, d3, ?_⟩⟩
      intro s a b hs' ha hb
      exact r3.old _ (d2 s a b hs' ha hb)

/-- the first loop of `add_taxonomy` -/
theorem taxonomyLoop_voc (G : GLang) (c : GCfg) (order : List Ty) (g g' : GState)
    (h : order.foldlM (taxonomyStep G c) g = .ok g') (hi : VInv G c g) (hs : VSound G c g) :
    (VInv G c g' ∧ VSound G c g') ∧ Grows g g' ∧ ∀ t ∈ order, TaxDone G t g' :=
  foldlM_inv (taxonomyStep G c) Grows (TaxDone G) (fun g => VInv G c g ∧ VSound G c g) Grows.refl
    (fun _ _ _ => Grows.trans) (fun _ _ _ hd hr => hd.grows hr) order
    (fun ga t gb _ hia hstep => taxonomyStep_voc G c ga t gb hstep hia.1 hia.2) g g' ⟨hi, hs⟩ h

theorem vinv_empty (G : GLang) (c : GCfg) : VInv G c {} := by
  refine ⟨?_, ?_, ?_, ?_⟩
  · intro x n h; cases h
  · intro x n h; cases h
  · intro x n h; cases h
  · intro t h; cases h

theorem vsound_empty (G : GLang) (c : GCfg) : VSound G c {} := by
  intro tr h; cases h

/-- what the first loop leaves, started on the empty graph, when `order` covers the canon -/
structure Phase1 (G : GLang) (c : GCfg) (g : GState) : Prop where
  inv : VInv G c g
  sound : VSound G c g
  done : ∀ t ∈ G.canon, TaxDone G t g

/-- **the triples after the first loop**: exactly the descriptions of the registered types and the link triples -/
theorem Phase1.triples_iff {G : GLang} {c : GCfg} {g : GState} (h : Phase1 G c g) (tr : Triple) :
    tr ∈ g.triples ↔ Described G c g tr ∨ LinkTr G tr := by
  constructor
  · exact h.sound tr
  · rintro (⟨x, n, hl, hd⟩ | hl)
    · exact h.inv.complete x n hl tr hd
    · cases hl with
      | up ht hu ha hb => exact (h.done _ ht).up _ _ _ hu ha hb
      | down ht hs ha hb => exact (h.done _ ht).down _ _ _ hs ha hb

/-- **the registered types** are exactly those `add_type` reaches from a canonical type -/
theorem Phase1.registered_iff {G : GLang} {c : GCfg} {g : GState} (h : Phase1 G c g) (x : Term) :
    (∃ n, g.L x = some n) ↔ FromCanon G c x := by
  constructor
  · rintro ⟨n, hn⟩; exact (h.inv.node x n hn).2
  · rintro ⟨t, ht, hr⟩
    induction hr with
    | refl =>
      obtain ⟨n, _, hn⟩ := (h.done t ht).reg
      exact ⟨n, hn⟩
    | param _ ha htp hp ih =>
      obtain ⟨m, hm⟩ := ih
      exact h.inv.params _ m hm _ _ rfl ha htp _ hp

/-! ## the closure loop -/

theorem foldl_add_triples {α : Type} (f : α → Triple) (l : List α) : ∀ (g : GState),
    (l.foldl (fun (g : GState) s => g.add (f s)) g).typeNodes = g.typeNodes ∧
    ∀ tr, tr ∈ (l.foldl (fun (g : GState) s => g.add (f s)) g).triples ↔ tr ∈ g.triples ∨ ∃ s ∈ l, tr = f s := by
  induction l with
  | nil => intro g; simp
  | cons a l ih =>
    intro g
    simp only [List.foldl_cons]
    obtain ⟨h1, h2⟩ := ih (g.add (f a))
    refine ⟨by rw [h1, add_typeNodes], ?_⟩
    intro tr
    rw [h2 tr, mem_add]
    simp only [List.mem_cons, exists_eq_or_imp]
    constructor
    · rintro ((h | h) | h)
      · exact .inl h
      · exact .inr (.inl h)
      · exact .inr (.inr h)
    · rintro (h | h | h)
      · exact .inl (.inl h)
      · exact .inl (.inr h)
      · exact .inr h

/-- the closure triples for the canonical types in `done`, over the edge relation `E` -/
def ClTr (G : GLang) (E : Node → Node → Prop) (done : List Ty) (tr : Triple) : Prop :=
  ∃ t ∈ done, ∃ ref s, typeUri G t.toTerm = .ok ref ∧ NReach E s ref ∧ tr = (s, subClassOf, ref)

theorem closureStep_voc (G : GLang) (g : GState) (t : Ty) (g' : GState) (h : closureStep G g t = .ok g') :
    g'.typeNodes = g.typeNodes ∧ ∃ ref, typeUri G t.toTerm = .ok ref ∧
      ∀ tr, tr ∈ g'.triples ↔ tr ∈ g.triples ∨ ∃ s, NReach (SubEdge g.triples) s ref ∧ tr = (s, subClassOf, ref) := by
  unfold closureStep at h
  split at h
  · cases h
  · rename_i ref href
    simp only [Except.ok.injEq] at h
    subst h
    obtain ⟨h1, h2⟩ := foldl_add_triples (fun s => (s, subClassOf, ref)) (transitiveSubjects g.triples ref) g
    refine ⟨h1, ref, href, ?_⟩
    intro tr
    rw [h2 tr]
    constructor
    · rintro (h | ⟨s, hs, rfl⟩)
      · exact .inl h
      · exact .inr ⟨s, (mem_transitiveSubjects _ _ _).1 hs, rfl⟩
    · rintro (h | ⟨s, hs, rfl⟩)
      · exact .inl h
      · exact .inr ⟨s, (mem_transitiveSubjects _ _ _).2 hs, rfl⟩

/-- the second loop of `add_taxonomy`, relative to the graph `g0` it started on -/
theorem closureLoop_voc (G : GLang) (g0 : GState) : ∀ (order : List Ty) (done : List Ty) (g g' : GState),
    order.foldlM (closureStep G) g = .ok g' →
    (∀ tr, tr ∈ g.triples ↔ tr ∈ g0.triples ∨ ClTr G (SubEdge g0.triples) done tr) →
    g'.typeNodes = g.typeNodes ∧
      ∀ tr, tr ∈ g'.triples ↔ tr ∈ g0.triples ∨ ClTr G (SubEdge g0.triples) (done ++ order) tr := by
  intro order
  induction order with
  | nil =>
    intro done g g' h hinv
    simp only [List.foldlM_nil, pure, Except.pure, Except.ok.injEq] at h
    subst h
    simpa using hinv
  | cons t order ih =>
    intro done g g' h hinv
    simp only [List.foldlM_cons] at h
    cases hx : closureStep G g t with
    | error e => rw [hx] at h; cases h
    | ok g1 =>
      rw [hx] at h
      obtain ⟨hn, ref, href, htr⟩ := closureStep_voc G g t g1 hx
      -- reachability over the current graph is reachability over the start graph
      have hreach : ∀ s, NReach (SubEdge g.triples) s ref ↔ NReach (SubEdge g0.triples) s ref := by
        intro s
        constructor
        · intro hr
          refine NReach.of_paths ?_ hr
          intro a b hab
          rcases (hinv _).1 hab with h0 | ⟨t', _, ref', s', _, hs', he⟩
          · exact .one h0
          · cases he; exact hs'
        · exact NReach.mono (fun a b hab => (hinv _).2 (.inl hab))
      have hinv1 : ∀ tr, tr ∈ g1.triples ↔ tr ∈ g0.triples ∨ ClTr G (SubEdge g0.triples) (done ++ [t]) tr := by
        intro tr
        rw [htr tr, hinv tr]
        constructor
        · rintro ((h0 | ⟨t', ht', hc⟩) | ⟨s, hs, rfl⟩)
          · exact .inl h0
          · exact .inr ⟨t', List.mem_append.2 (.inl ht'), hc⟩
          · exact .inr ⟨t, by simp, ref, s, href, (hreach s).1 hs, rfl⟩
        · rintro (h0 | ⟨t', ht', ref', s, href', hs, rfl⟩)
          · exact .inl (.inl h0)
          · rcases List.mem_append.1 ht' with ht' | ht'
            · exact .inl (.inr ⟨t', ht', ref', s, href', hs, rfl⟩)
            · rw [List.mem_singleton.1 ht', href] at href'
              cases href'
              exact .inr ⟨s, (hreach s).2 hs, rfl⟩
      obtain ⟨h1, h2⟩ := ih (done ++ [t]) g1 g' h hinv1
      refine ⟨by rw [h1, hn], ?_⟩
      intro tr
      rw [h2 tr, List.append_assoc]
      rfl

end Tfv.Voc
