import Tfv.Proofs.GraphAbsCore
/-!
# C08 on expanded composite operators, part 2: `addExprA` on abstraction-free expressions is `addExpr`

`AExpr.ofT` drops `shared` marks, so the correspondence is with `addExpr` on the expression without the marks
(`TExpr.unshare`); on an expression that has none, that is the expression itself.
-/
namespace Tfv.C08P
open Tfv

/-- no `shared` mark anywhere in the expression -/
def noShared : TExpr → Bool
  | .src _ _ _ => true
  | .op _ _ => true
  | .app f x _ => noShared f && noShared x
  | .shared _ _ => false

/-- the expression without its `shared` marks -/
def unshare : TExpr → TExpr
  | .src i l t => .src i l t
  | .op n t => .op n t
  | .app f x t => .app (unshare f) (unshare x) t
  | .shared _ e => unshare e

/-- the result of `addExpr` with the parameter table carried along -/
def carry (ps : List (Nat × Nat)) (r : Except GErr (GState × Nat)) : Except GErr (AState × Nat) :=
  r.map (fun r => ({ g := r.1, params := ps }, r.2))

@[simp] theorem carry_error (ps : List (Nat × Nat)) (e : GErr) : carry ps (.error e) = .error e := rfl
@[simp] theorem carry_ok (ps : List (Nat × Nat)) (g : GState) (n : Nat) :
    carry ps (.ok (g, n)) = .ok ({ g := g, params := ps }, n) := rfl

theorem ofT_ty : ∀ e : TExpr, (AExpr.ofT e).ty = e.ty
  | .src _ _ _ => rfl
  | .op _ _ => rfl
  | .app _ _ _ => rfl
  | .shared _ e => ofT_ty e

theorem ofT_not_lam : ∀ e : TExpr, AExpr.isLam (AExpr.ofT e) = false
  | .src _ _ _ => rfl
  | .op _ _ => rfl
  | .app _ _ _ => rfl
  | .shared _ e => ofT_not_lam e

theorem ofT_unshare : ∀ e : TExpr, AExpr.ofT (unshare e) = AExpr.ofT e
  | .src _ _ _ => rfl
  | .op _ _ => rfl
  | .app f x t => by simp only [unshare, AExpr.ofT, ofT_unshare f, ofT_unshare x]
  | .shared _ e => ofT_unshare e

theorem unshare_noShared : ∀ e : TExpr, noShared (unshare e) = true
  | .src _ _ _ => rfl
  | .op _ _ => rfl
  | .app f x t => by simp only [unshare, noShared, unshare_noShared f, unshare_noShared x, Bool.and_self]
  | .shared _ e => unshare_noShared e

theorem unshare_of_noShared : ∀ e : TExpr, noShared e = true → unshare e = e
  | .src _ _ _, _ => rfl
  | .op _ _, _ => rfl
  | .app f x t, h => by
    simp only [noShared, Bool.and_eq_true] at h
    simp only [unshare, unshare_of_noShared f h.1, unshare_of_noShared x h.2]
  | .shared _ e, h => by cases h

/-- On an expression without `shared` marks `addExprA` is `addExpr`, and the parameter table is not touched. -/
theorem addExprA_embed {G : GLang} {c : GCfg} {root : Node} {origin : Option Node} :
    ∀ (e : TExpr), noShared e = true → ∀ (g : GState) (ps : List (Nat × Nat)) (cur : Option Nat) (im : Bool),
      addExprA G c root origin { g := g, params := ps } (AExpr.ofT e) cur im =
        carry ps (addExpr G c root origin g e cur im)
  | .src id l t, _, g, ps, cur, im => by
    simp only [AExpr.ofT]
    rw [addExprA_src]
    cases addExpr G c root origin g (.src id l t) cur im with
    | error e => rfl
    | ok r => rfl
  | .op name t, _, g, ps, cur, im => by
    simp only [AExpr.ofT]
    rw [addExprA_op]
    cases addExpr G c root origin g (.op name t) cur im with
    | error e => rfl
    | ok r => rfl
  | .shared _ e, h, _, _, _, _ => by cases h
  | .app f x t, h, g, ps, cur, im => by
    simp only [noShared, Bool.and_eq_true] at h
    simp only [AExpr.ofT]
    rw [addExprA_app _ _ _ _ _ _ _ _ _ _ (ofT_not_lam x), addExpr_app]
    simp only []
    rw [addExprA_embed f h.1]
    cases addExpr G c root origin (curG g cur).1 f (some (curG g cur).2) im with
    | error e => rfl
    | ok r1 =>
      obtain ⟨g1, fnode⟩ := r1
      simp only [carry_ok, ofT_ty]
      rw [addExprA_embed x h.2]
      cases addExpr G c root origin (mkInternalG g1.fresh.1 fnode x.ty.isFunction).1 x (some g1.fresh.2) true with
      | error e => rfl
      | ok r2 => rfl

/-- With `shared` marks: `addExprA` on the embedding is `addExpr` on the expression without the marks. -/
theorem addExprA_embed_unshare {G : GLang} {c : GCfg} {root : Node} {origin : Option Node}
    (e : TExpr) (g : GState) (ps : List (Nat × Nat)) (cur : Option Nat) (im : Bool) :
    addExprA G c root origin { g := g, params := ps } (AExpr.ofT e) cur im =
      carry ps (addExpr G c root origin g (unshare e) cur im) := by
  rw [← ofT_unshare e]
  exact addExprA_embed (unshare e) (unshare_noShared e) g ps cur im

end Tfv.C08P
