import Tfv.Model
import Tfv.Spec.Sub
/-!
# Helper lemmas for C01: `matchC`/`opSub` decide the declared order `Sub`,
and `Sub` is a partial order on well-formed types.
-/
namespace Tfv

/-! ## 1. `wfLangB` implies `WF` -/

theorem parentOf_lt_length {L : Lang} {a p : Nat} (hp : parentOf L a = some p) : a < L.length := by
  unfold parentOf at hp
  cases hget : L[a]? with
  | none => rw [hget] at hp; cases hp
  | some d =>
    have := (List.getElem?_eq_some_iff.mp hget)
    exact this.1

theorem wf_of_wfLangB (L : Lang) (h : wfLangB L = true) : WF L := by
  unfold wfLangB at h
  simp only [Bool.and_eq_true, List.all_eq_true, List.mem_range, beq_iff_eq] at h
  obtain ⟨hb, hall⟩ := h
  have key : ∀ a p, parentOf L a = some p →
      p < a ∧ arityOf L a = 0 ∧ arityOf L p = 0 ∧ p ≠ TOP ∧ p ≠ BOT ∧ 5 ≤ a := by
    intro a p hp
    have h1 := hall a (parentOf_lt_length hp)
    rw [hp] at h1
    simpa [and_assoc] using h1
  exact
    { builtins := hb
      parent_lt := fun a p hp => (key a p hp).1
      child_nullary := fun a p hp => (key a p hp).2.1
      parent_nullary := fun a p hp => (key a p hp).2.2.1
      parent_not_top := fun a p hp => (key a p hp).2.2.2.1
      parent_not_bot := fun a p hp => (key a p hp).2.2.2.2.1
      builtin_orphan := fun a p hp => (key a p hp).2.2.2.2.2 }

/-! ## 2. the ancestor relation and `opSub` -/

theorem wf_get {L : Lang} (wf : WF L) {i : Nat} (hi : i < 5) : L[i]? = builtinDecls[i]? := by
  rw [← wf.builtins, List.getElem?_take, if_pos hi]

theorem arity_top {L : Lang} (wf : WF L) : arityOf L TOP = 0 := by
  unfold arityOf varianceOf TOP
  rw [wf_get wf (by decide)]; rfl

theorem arity_bot {L : Lang} (wf : WF L) : arityOf L BOT = 0 := by
  unfold arityOf varianceOf BOT
  rw [wf_get wf (by decide)]; rfl

theorem anc_trans {L : Lang} {a b c : Nat} (h1 : Anc L a b) (h2 : Anc L b c) : Anc L a c := by
  induction h1 with
  | refl _ => exact h2
  | step hp _ ih => exact Anc.step hp (ih h2)

theorem anc_le {L : Lang} (wf : WF L) {a b : Nat} (h : Anc L a b) : b ≤ a := by
  induction h with
  | refl _ => exact Nat.le_refl _
  | step hp _ ih => have := wf.parent_lt _ _ hp; omega

theorem anc_antisymm {L : Lang} (wf : WF L) {a b : Nat} (h1 : Anc L a b) (h2 : Anc L b a) : a = b := by
  have := anc_le wf h1; have := anc_le wf h2; omega

theorem anc_top_left {L : Lang} (wf : WF L) {b : Nat} (h : Anc L TOP b) : b = TOP := by
  cases h with
  | refl _ => rfl
  | step hp _ => have := wf.builtin_orphan _ _ hp; simp [TOP] at this

theorem anc_bot_left {L : Lang} (wf : WF L) {b : Nat} (h : Anc L BOT b) : b = BOT := by
  cases h with
  | refl _ => rfl
  | step hp _ => have := wf.builtin_orphan _ _ hp; simp [BOT] at this

theorem anc_bot_right {L : Lang} (wf : WF L) {a b : Nat} (h : Anc L a b) (hb : b = BOT) : a = BOT := by
  induction h with
  | refl _ => exact hb
  | step hp _ ih => exact absurd (ih hb) (wf.parent_not_bot _ _ hp)

theorem anc_top_right {L : Lang} (wf : WF L) {a b : Nat} (h : Anc L a b) (hb : b = TOP) : a = TOP := by
  induction h with
  | refl _ => exact hb
  | step hp _ ih => exact absurd (ih hb) (wf.parent_not_top _ _ hp)

/-- a proper ancestor step only happens between nullary operators -/
theorem anc_nullary {L : Lang} (wf : WF L) {a b : Nat} (h : Anc L a b) :
    a = b ∨ (arityOf L a = 0 ∧ arityOf L b = 0) := by
  induction h with
  | refl _ => exact Or.inl rfl
  | @step x q y hp _ ih =>
    right
    refine ⟨wf.child_nullary _ _ hp, ?_⟩
    rcases ih with heq | ⟨_, h0⟩
    · rw [← heq]; exact wf.parent_nullary _ _ hp
    · exact h0

theorem chainSub_iff {L : Lang} (wf : WF L) : ∀ (fuel p b : Nat), p < fuel →
    (chainSub L fuel p b = true ↔ (p = BOT ∨ b = TOP ∨ Anc L p b))
  | 0, p, b, hlt => by omega
  | fuel+1, p, b, hlt => by
    unfold chainSub
    simp only [Bool.or_eq_true, beq_iff_eq]
    constructor
    · rintro (((h | h) | h) | h)
      · exact Or.inr (Or.inr (h ▸ Anc.refl p))
      · exact Or.inl h
      · exact Or.inr (Or.inl h)
      · cases hp : parentOf L p with
        | none => rw [hp] at h; cases h
        | some q =>
          rw [hp] at h
          have hq := wf.parent_lt _ _ hp
          rcases (chainSub_iff wf fuel q b (by omega)).mp h with h' | h' | h'
          · exact absurd h' (wf.parent_not_bot _ _ hp)
          · exact Or.inr (Or.inl h')
          · exact Or.inr (Or.inr (Anc.step hp h'))
    · rintro (h | h | h)
      · exact Or.inl (Or.inl (Or.inr h))
      · exact Or.inl (Or.inr h)
      · cases h with
        | refl _ => exact Or.inl (Or.inl (Or.inl rfl))
        | @step _ q _ hp h' =>
          right
          rw [hp]
          have hq := wf.parent_lt _ _ hp
          exact (chainSub_iff wf fuel q b (by omega)).mpr (Or.inr (Or.inr h'))

theorem opSub_iff {L : Lang} (wf : WF L) (a b : Nat) :
    opSub L a b false = true ↔ (a = BOT ∨ b = TOP ∨ Anc L a b) := by
  unfold opSub
  simp only [Bool.not_false, Bool.true_and, Bool.or_eq_true, beq_iff_eq]
  constructor
  · rintro (((h | h) | h) | h)
    · exact Or.inr (Or.inr (h ▸ Anc.refl a))
    · exact Or.inl h
    · exact Or.inr (Or.inl h)
    · cases hp : parentOf L a with
      | none => rw [hp] at h; cases h
      | some q =>
        rw [hp] at h
        have hq := wf.parent_lt _ _ hp
        rcases (chainSub_iff wf (a+1) q b (by omega)).mp h with h' | h' | h'
        · exact absurd h' (wf.parent_not_bot _ _ hp)
        · exact Or.inr (Or.inl h')
        · exact Or.inr (Or.inr (Anc.step hp h'))
  · rintro (h | h | h)
    · exact Or.inl (Or.inl (Or.inr h))
    · exact Or.inl (Or.inr h)
    · cases h with
      | refl _ => exact Or.inl (Or.inl (Or.inl rfl))
      | @step _ q _ hp h' =>
        right
        rw [hp]
        have hq := wf.parent_lt _ _ hp
        exact (chainSub_iff wf (a+1) q b (by omega)).mpr (Or.inr (Or.inr h'))

/-! ## 3. inversion of `Sub` / `SubArgs`, well-formed types -/

theorem wfTy_app {L : Lang} {o : Nat} {args : List Ty} (h : wfTy L (.app o args) = true) :
    args.length = arityOf L o ∧ wfTyL L args = true := by
  unfold wfTy at h
  simp only [Bool.and_eq_true, beq_iff_eq] at h
  exact ⟨h.1.2, h.2⟩

theorem wfTyL_cons {L : Lang} {t : Ty} {ts : List Ty} (h : wfTyL L (t :: ts) = true) :
    wfTy L t = true ∧ wfTyL L ts = true := by
  unfold wfTyL at h
  simpa using h

theorem wfTy_nullary {L : Lang} {o : Nat} {args : List Ty} (h : wfTy L (.app o args) = true)
    (h0 : arityOf L o = 0) : args = [] :=
  List.eq_nil_of_length_eq_zero ((wfTy_app h).1.trans h0)

theorem sub_inv {L : Lang} {a b : Nat} {as bs : List Ty} (h : Sub L (.app a as) (.app b bs)) :
    (a = BOT ∧ as = []) ∨ (b = TOP ∧ bs = []) ∨
    (as = [] ∧ bs = [] ∧ arityOf L a = 0 ∧ arityOf L b = 0 ∧ Anc L a b) ∨
    (a = b ∧ arityOf L a ≠ 0 ∧ SubArgs L (varianceOf L a) as bs) := by
  cases h with
  | bot _ => exact Or.inl ⟨rfl, rfl⟩
  | top _ => exact Or.inr (Or.inl ⟨rfl, rfl⟩)
  | base h1 h2 h3 => exact Or.inr (Or.inr (Or.inl ⟨rfl, rfl, h1, h2, h3⟩))
  | cong h1 h2 => exact Or.inr (Or.inr (Or.inr ⟨rfl, h1, h2⟩))

theorem subArgs_cons_true {L : Lang} {vs : List Bool} {s t : Ty} {ss ts : List Ty} :
    SubArgs L (true :: vs) (s :: ss) (t :: ts) ↔ (Sub L s t ∧ SubArgs L vs ss ts) := by
  constructor
  · intro h; cases h with | co h1 h2 => exact ⟨h1, h2⟩
  · rintro ⟨h1, h2⟩; exact SubArgs.co h1 h2

theorem subArgs_cons_false {L : Lang} {vs : List Bool} {s t : Ty} {ss ts : List Ty} :
    SubArgs L (false :: vs) (s :: ss) (t :: ts) ↔ (Sub L t s ∧ SubArgs L vs ss ts) := by
  constructor
  · intro h; cases h with | contra h1 h2 => exact ⟨h1, h2⟩
  · rintro ⟨h1, h2⟩; exact SubArgs.contra h1 h2

/-- shape of a `SubArgs` fact whose left list is a cons -/
theorem subArgs_cons_left {L : Lang} {vs : List Bool} {s : Ty} {ss us : List Ty}
    (h : SubArgs L vs (s :: ss) us) :
    ∃ v vs' t ts, vs = v :: vs' ∧ us = t :: ts ∧
      (if v then Sub L s t else Sub L t s) ∧ SubArgs L vs' ss ts := by
  cases h with
  | co h1 h2 => exact ⟨true, _, _, _, rfl, rfl, h1, h2⟩
  | contra h1 h2 => exact ⟨false, _, _, _, rfl, rfl, h1, h2⟩

theorem subArgs_cons_right {L : Lang} {vs : List Bool} {t : Ty} {ts us : List Ty}
    (h : SubArgs L vs us (t :: ts)) :
    ∃ v vs' s ss, vs = v :: vs' ∧ us = s :: ss ∧
      (if v then Sub L s t else Sub L t s) ∧ SubArgs L vs' ss ts := by
  cases h with
  | co h1 h2 => exact ⟨true, _, _, _, rfl, rfl, h1, h2⟩
  | contra h1 h2 => exact ⟨false, _, _, _, rfl, rfl, h1, h2⟩

theorem subArgs_nil_left {L : Lang} {vs : List Bool} {us : List Ty}
    (h : SubArgs L vs [] us) : vs = [] ∧ us = [] := by
  cases h; exact ⟨rfl, rfl⟩

theorem subArgs_nil_right {L : Lang} {vs : List Bool} {us : List Ty}
    (h : SubArgs L vs us []) : vs = [] ∧ us = [] := by
  cases h; exact ⟨rfl, rfl⟩

/-- nothing but `Top` is above `Top` -/
theorem sub_top_left {L : Lang} (wf : WF L) {as : List Ty} {b : Nat} {bs : List Ty}
    (h : Sub L (.app TOP as) (.app b bs)) : b = TOP ∧ bs = [] := by
  rcases sub_inv h with ⟨h1, _⟩ | ⟨h1, h2⟩ | ⟨_, h2, _, _, h5⟩ | ⟨_, h2, _⟩
  · simp [TOP, BOT] at h1
  · exact ⟨h1, h2⟩
  · exact ⟨anc_top_left wf h5, h2⟩
  · exact absurd (arity_top wf) h2

/-- nothing but `Bottom` is below `Bottom` -/
theorem sub_bot_right {L : Lang} (wf : WF L) {a : Nat} {as bs : List Ty}
    (h : Sub L (.app a as) (.app BOT bs)) : a = BOT ∧ as = [] := by
  rcases sub_inv h with ⟨h1, h2⟩ | ⟨h1, _⟩ | ⟨h1, _, _, _, h5⟩ | ⟨h1, h2, _⟩
  · exact ⟨h1, h2⟩
  · simp [TOP, BOT] at h1
  · exact ⟨anc_bot_right wf h5 rfl, h1⟩
  · rw [h1] at h2; exact absurd (arity_bot wf) h2

/-! ## 4. `Sub` is a partial order -/

mutual
theorem sub_refl {L : Lang} : ∀ (s : Ty), wfTy L s = true → Sub L s s
  | .app o args, hs => by
    by_cases h0 : arityOf L o = 0
    · rw [wfTy_nullary hs h0]
      exact Sub.base h0 h0 (Anc.refl o)
    · exact Sub.cong h0 (subArgs_refl args (varianceOf L o) (wfTy_app hs).2 (wfTy_app hs).1)
theorem subArgs_refl {L : Lang} : ∀ (ss : List Ty) (vs : List Bool), wfTyL L ss = true →
    ss.length = vs.length → SubArgs L vs ss ss
  | [], [], _, _ => SubArgs.nil
  | [], _ :: _, _, hl => by simp at hl
  | _ :: _, [], _, hl => by simp at hl
  | s :: ss, true :: vs, hs, hl =>
    SubArgs.co (sub_refl s (wfTyL_cons hs).1)
      (subArgs_refl ss vs (wfTyL_cons hs).2 (by simpa using hl))
  | s :: ss, false :: vs, hs, hl =>
    SubArgs.contra (sub_refl s (wfTyL_cons hs).1)
      (subArgs_refl ss vs (wfTyL_cons hs).2 (by simpa using hl))
end

mutual
theorem sub_trans {L : Lang} (wf : WF L) : ∀ (t s u : Ty), Sub L s t → Sub L t u → Sub L s u
  | .app b bs, .app a as, .app c cs, h1, h2 => by
    rcases sub_inv h1 with ⟨e1, e2⟩ | ⟨e1, e2⟩ | ⟨e1, e2, n1, n2, a1⟩ | ⟨e1, n1, r1⟩
    · rw [e1, e2]; exact Sub.bot _
    · rw [e1] at h2
      obtain ⟨e3, e4⟩ := sub_top_left wf h2
      rw [e3, e4]; exact Sub.top _
    · rcases sub_inv h2 with ⟨f1, f2⟩ | ⟨f1, f2⟩ | ⟨f1, f2, m1, m2, a2⟩ | ⟨f1, m1, r2⟩
      · rw [e1, anc_bot_right wf a1 f1]; exact Sub.bot _
      · rw [f1, f2]; exact Sub.top _
      · rw [e1, f2]; exact Sub.base n1 m2 (anc_trans a1 a2)
      · exact absurd n2 m1
    · rcases sub_inv h2 with ⟨f1, f2⟩ | ⟨f1, f2⟩ | ⟨f1, f2, m1, m2, a2⟩ | ⟨f1, m1, r2⟩
      · rw [e1, f1] at n1; exact absurd (arity_bot wf) n1
      · rw [f1, f2]; exact Sub.top _
      · rw [e1] at n1; exact absurd m1 n1
      · rw [← f1, ← e1]
        rw [← e1] at r2
        exact Sub.cong n1 (subArgs_trans wf bs (varianceOf L a) as cs r1 r2)
theorem subArgs_trans {L : Lang} (wf : WF L) : ∀ (ts : List Ty) (vs : List Bool) (ss us : List Ty),
    SubArgs L vs ss ts → SubArgs L vs ts us → SubArgs L vs ss us
  | [], vs, ss, us, h1, h2 => by
    obtain ⟨e1, e2⟩ := subArgs_nil_right h1
    obtain ⟨_, e3⟩ := subArgs_nil_left h2
    rw [e1, e2, e3]; exact SubArgs.nil
  | t :: ts, vs, ss, us, h1, h2 => by
    obtain ⟨v, vs', s, ss', e1, e2, p1, q1⟩ := subArgs_cons_right h1
    obtain ⟨v2, vs2, u, us', f1, f2, p2, q2⟩ := subArgs_cons_left h2
    rw [e1] at f1
    injection f1 with f1a f1b
    rw [← f1a] at p2; rw [← f1b] at q2
    rw [e1, e2, f2]
    cases v with
    | true =>
      exact SubArgs.co (sub_trans wf t s u (by simpa using p1) (by simpa using p2))
        (subArgs_trans wf ts vs' ss' us' q1 q2)
    | false =>
      exact SubArgs.contra (sub_trans wf t u s (by simpa using p2) (by simpa using p1))
        (subArgs_trans wf ts vs' ss' us' q1 q2)
end

mutual
theorem sub_antisymm {L : Lang} (wf : WF L) : ∀ (s t : Ty), Sub L s t → Sub L t s → s = t
  | .app a as, .app b bs, h1, h2 => by
    rcases sub_inv h1 with ⟨e1, e2⟩ | ⟨e1, e2⟩ | ⟨e1, e2, n1, n2, a1⟩ | ⟨e1, n1, r1⟩
    · rw [e1] at h2
      obtain ⟨e3, e4⟩ := sub_bot_right wf h2
      rw [e1, e2, e3, e4]
    · rw [e1] at h2
      obtain ⟨e3, e4⟩ := sub_top_left wf h2
      rw [e1, e2, e3, e4]
    · rcases sub_inv h2 with ⟨f1, f2⟩ | ⟨f1, f2⟩ | ⟨f1, f2, m1, m2, a2⟩ | ⟨f1, m1, r2⟩
      · rw [e1, e2, f1, anc_bot_right wf a1 f1]
      · rw [f1] at a1
        rw [e1, e2, f1, anc_top_left wf a1]
      · rw [e1, e2, anc_antisymm wf a1 a2]
      · exact absurd n2 m1
    · rcases sub_inv h2 with ⟨f1, f2⟩ | ⟨f1, f2⟩ | ⟨f1, f2, m1, m2, a2⟩ | ⟨f1, m1, r2⟩
      · rw [e1, f1] at n1; exact absurd (arity_bot wf) n1
      · rw [f1] at n1; exact absurd (arity_top wf) n1
      · exact absurd m2 n1
      · rw [← e1] at r2
        rw [e1, subArgs_antisymm wf as (varianceOf L a) bs r1 r2]
theorem subArgs_antisymm {L : Lang} (wf : WF L) : ∀ (ss : List Ty) (vs : List Bool) (ts : List Ty),
    SubArgs L vs ss ts → SubArgs L vs ts ss → ss = ts
  | [], vs, ts, h1, _ => (subArgs_nil_left h1).2.symm
  | s :: ss, vs, ts, h1, h2 => by
    obtain ⟨v, vs', t, ts', e1, e2, p1, q1⟩ := subArgs_cons_left h1
    rw [e1, e2] at h2
    rw [e2]
    cases v with
    | true =>
      obtain ⟨p2, q2⟩ := subArgs_cons_true.mp h2
      rw [sub_antisymm wf s t (by simpa using p1) p2, subArgs_antisymm wf ss vs' ts' q1 q2]
    | false =>
      obtain ⟨p2, q2⟩ := subArgs_cons_false.mp h2
      rw [sub_antisymm wf s t p2 (by simpa using p1), subArgs_antisymm wf ss vs' ts' q1 q2]
end

/-! ## 5. `matchC … true` decides `Sub` -/

/-- root-level characterisation of `Sub` on well-formed types, in the shape of `matchC` -/
theorem sub_app_iff {L : Lang} (wf : WF L) {a b : Nat} {as bs : List Ty}
    (hs : wfTy L (.app a as) = true) (ht : wfTy L (.app b bs) = true) :
    Sub L (.app a as) (.app b bs) ↔
      ((a = BOT ∨ b = TOP) ∨
       (¬(a = BOT ∨ b = TOP) ∧ arityOf L a = 0 ∧ (a = b ∨ opSub L a b = true)) ∨
       (¬(a = BOT ∨ b = TOP) ∧ arityOf L a ≠ 0 ∧ a = b ∧ SubArgs L (varianceOf L a) as bs)) := by
  constructor
  · intro h
    by_cases hbt : a = BOT ∨ b = TOP
    · exact Or.inl hbt
    · right
      rcases sub_inv h with ⟨e1, _⟩ | ⟨e1, _⟩ | ⟨_, _, n1, _, a1⟩ | ⟨e1, n1, r1⟩
      · exact absurd (Or.inl e1) hbt
      · exact absurd (Or.inr e1) hbt
      · exact Or.inl ⟨hbt, n1, Or.inr ((opSub_iff wf a b).mpr (Or.inr (Or.inr a1)))⟩
      · exact Or.inr ⟨hbt, n1, e1, r1⟩
  · rintro (hbt | ⟨hbt, n1, h⟩ | ⟨hbt, n1, e1, r1⟩)
    · rcases hbt with e1 | e1
      · subst e1; rw [wfTy_nullary hs (arity_bot wf)]; exact Sub.bot _
      · subst e1; rw [wfTy_nullary ht (arity_top wf)]; exact Sub.top _
    · have hanc : Anc L a b := by
        rcases h with e1 | h
        · rw [e1]; exact Anc.refl b
        · rcases (opSub_iff wf a b).mp h with e | e | e
          · exact absurd (Or.inl e) hbt
          · exact absurd (Or.inr e) hbt
          · exact e
      have n2 : arityOf L b = 0 := by
        rcases anc_nullary wf hanc with e | ⟨_, e⟩
        · rw [← e]; exact n1
        · exact e
      rw [wfTy_nullary hs n1, wfTy_nullary ht n2]
      exact Sub.base n1 n2 hanc
    · subst e1; exact Sub.cong n1 r1

theorem arity_eq_length (L : Lang) (a : Nat) : arityOf L a = (varianceOf L a).length := rfl

mutual
theorem matchC_true_iff {L : Lang} (wf : WF L) : ∀ (pol : Bool) (s t : Ty),
    wfTy L s = true → wfTy L t = true →
    (matchC L true pol s t = true ↔ (if pol then Sub L s t else Sub L t s))
  | true, .app a as, .app b bs, hs, ht => by
    have IH := fun (hl1 : as.length = (varianceOf L a).length)
        (hl2 : bs.length = (varianceOf L a).length) =>
      matchCs_true_iff wf true (varianceOf L a) as bs (wfTy_app hs).2 (wfTy_app ht).2 hl1 hl2
    rw [if_pos rfl, sub_app_iff wf hs ht]
    unfold matchC
    simp only [if_true, Bool.true_and]
    by_cases hbt : a = BOT ∨ b = TOP
    · simp [hbt]
    · by_cases n1 : arityOf L a = 0
      · simp [hbt, n1]
      · by_cases e1 : a = b
        · subst e1
          have := IH (wfTy_app hs).1 (wfTy_app ht).1
          simp only [if_true] at this
          simp [hbt, n1, this]
        · simp [hbt, n1, e1]
  | false, .app a as, .app b bs, hs, ht => by
    have IH := fun (hl1 : as.length = (varianceOf L b).length)
        (hl2 : bs.length = (varianceOf L b).length) =>
      matchCs_true_iff wf false (varianceOf L b) as bs (wfTy_app hs).2 (wfTy_app ht).2 hl1 hl2
    rw [if_neg (by simp), sub_app_iff wf ht hs]
    unfold matchC
    simp only [Bool.false_eq_true, if_false, Bool.true_and]
    by_cases hbt : b = BOT ∨ a = TOP
    · simp [hbt]
    · by_cases n1 : arityOf L b = 0
      · simp [hbt, n1]
      · by_cases e1 : b = a
        · subst e1
          have := IH (wfTy_app hs).1 (wfTy_app ht).1
          simp only [Bool.false_eq_true, if_false] at this
          simp [hbt, n1, this]
        · simp [hbt, n1, e1]
theorem matchCs_true_iff {L : Lang} (wf : WF L) : ∀ (pol : Bool) (vs : List Bool) (ss ts : List Ty),
    wfTyL L ss = true → wfTyL L ts = true → ss.length = vs.length → ts.length = vs.length →
    (matchCs L true pol vs ss ts = true ↔ (if pol then SubArgs L vs ss ts else SubArgs L vs ts ss))
  | pol, [], [], [], _, _, _, _ => by
    unfold matchCs
    cases pol <;> simp [SubArgs.nil]
  | _, [], _ :: _, _, _, _, hl, _ => by simp at hl
  | _, [], [], _ :: _, _, _, _, hl => by simp at hl
  | _, _ :: _, [], _, _, _, hl, _ => by simp at hl
  | _, _ :: _, _ :: _, [], _, _, _, hl => by simp at hl
  | pol, v :: vs, s :: ss, t :: ts, hs, ht, hl1, hl2 => by
    have IH1 := matchC_true_iff wf (pol == v) s t (wfTyL_cons hs).1 (wfTyL_cons ht).1
    have IH2 := matchCs_true_iff wf pol vs ss ts (wfTyL_cons hs).2 (wfTyL_cons ht).2
      (by simpa using hl1) (by simpa using hl2)
    unfold matchCs
    rw [Bool.and_eq_true, IH1, IH2]
    cases pol <;> cases v <;>
      simp [subArgs_cons_true, subArgs_cons_false]
end

/-! ## 6. `matchC … false` (plain matching) decides equality -/

mutual
theorem matchC_false_iff {L : Lang} : ∀ (pol : Bool) (s t : Ty),
    wfTy L s = true → wfTy L t = true → (matchC L false pol s t = true ↔ s = t)
  | pol, .app a as, .app b bs, hs, ht => by
    have IH := fun (vs : List Bool) (hl1 : as.length = vs.length) (hl2 : bs.length = vs.length) =>
      matchCs_false_iff pol vs as bs (wfTy_app hs).2 (wfTy_app ht).2 hl1 hl2
    unfold matchC
    simp only [Bool.false_and, Bool.false_eq_true, if_false, Bool.or_false, Ty.app.injEq]
    by_cases e1 : a = b
    · subst e1
      by_cases n1 : arityOf L a = 0
      · simp [n1, wfTy_nullary hs n1, wfTy_nullary ht n1]
      · have := IH (varianceOf L a) (wfTy_app hs).1 (wfTy_app ht).1
        simp [n1, this]
    · have e2 : ¬ b = a := fun h => e1 h.symm
      cases pol <;> simp [e1, e2]
theorem matchCs_false_iff {L : Lang} : ∀ (pol : Bool) (vs : List Bool) (ss ts : List Ty),
    wfTyL L ss = true → wfTyL L ts = true → ss.length = vs.length → ts.length = vs.length →
    (matchCs L false pol vs ss ts = true ↔ ss = ts)
  | _, [], [], [], _, _, _, _ => by
    unfold matchCs; simp
  | _, [], _ :: _, _, _, _, hl, _ => by simp at hl
  | _, [], [], _ :: _, _, _, _, hl => by simp at hl
  | _, _ :: _, [], _, _, _, hl, _ => by simp at hl
  | _, _ :: _, _ :: _, [], _, _, _, hl => by simp at hl
  | pol, v :: vs, s :: ss, t :: ts, hs, ht, hl1, hl2 => by
    have IH1 := matchC_false_iff (pol == v) s t (wfTyL_cons hs).1 (wfTyL_cons ht).1
    have IH2 := matchCs_false_iff pol vs ss ts (wfTyL_cons hs).2 (wfTyL_cons ht).2
      (by simpa using hl1) (by simpa using hl2)
    unfold matchCs
    rw [Bool.and_eq_true, IH1, IH2, List.cons.injEq]
end

/-! ## 7. the C01 statements -/

theorem isSubtype_false_iff {L : Lang} (wf : WF L) (s t : Ty)
    (hs : wfTy L s = true) (ht : wfTy L t = true) :
    isSubtype L s t false = true ↔ Sub L s t := by
  have h := matchC_true_iff wf true s t hs ht
  simp only [if_true] at h
  unfold isSubtype sub
  simpa using h

theorem isSubtype_true_iff {L : Lang} (wf : WF L) (s t : Ty)
    (hs : wfTy L s = true) (ht : wfTy L t = true) :
    isSubtype L s t true = true ↔ (Sub L s t ∧ s ≠ t) := by
  have h := matchC_true_iff wf true s t hs ht
  simp only [if_true] at h
  have h2 := matchC_false_iff (L := L) true s t hs ht
  unfold isSubtype sub eqM
  rw [Bool.and_eq_true, h]
  cases hm : matchC L false true s t with
  | true => simp [h2.mp hm]
  | false =>
    have : s ≠ t := fun e => by rw [h2.mpr e] at hm; cases hm
    simp [this]

end Tfv
