import Tfv.Proofs.QueryUnfoldMatch
/-!
# When `genQuery` succeeds with `unfold_tree`: exactly as without (the flag only changes the names of the variables)
-/
namespace Tfv

/-- did the computation succeed? -/
def okB {ε α : Type} : Except ε α → Bool
  | .ok _ => true
  | .error _ => false

theorem okB_iff {ε α : Type} (x : Except ε α) : okB x = true ↔ ∃ a, x = .ok a := by
  cases x <;> simp [okB]

theorem foldlM_okB_congr {α β ε : Type} (s s' : α → β → Except ε α) :
    ∀ (bs : List β), (∀ b ∈ bs, ∀ a a', okB (s a b) = okB (s' a' b)) →
      ∀ a a', okB (bs.foldlM s a) = okB (bs.foldlM s' a') := by
  intro bs
  induction bs with
  | nil => intro _ a a'; rfl
  | cons b bs ih =>
    intro h a a'
    simp only [List.foldlM_cons]
    have hb := h b List.mem_cons_self a a'
    cases hx : s a b with
    | error e =>
      cases hy : s' a' b with
      | error e' => rfl
      | ok a1' => rw [hx, hy] at hb; cases hb
    | ok a1 =>
      cases hy : s' a' b with
      | error e' => rw [hx, hy] at hb; cases hb
      | ok a1' => exact ih (fun b' hb' => h b' (List.mem_cons_of_mem _ hb')) a1 a1'

/-- the variable of a visit -/
def varOf (f : QFlags) (path : List Nat) (k : Nat) : QVar := if f.unfoldTree then path ++ [k] else [k]

theorem assignVars_succV (t : QTask) (f : QFlags) (n : Nat) (a : QAssign) (k : Nat) (path : List Nat) :
    assignVars t f (n + 1) a k path =
      if path.contains k then .error .cyclic else
      match (t.step k).from_.foldlM (linkStepV t f n (varOf f path k) (path ++ [k])) (visitV t a (varOf f path k) k) with
      | .error e => .error e
      | .ok a' => .ok (a', varOf f path k) := by
  rw [assignVars]
  rfl

/-- whether `assignVars` succeeds depends neither on `unfold_tree` (nor any other flag) nor on what has been assigned so far -/
theorem assignVars_okB (t : QTask) (f f' : QFlags) :
    ∀ (n : Nat) (a a' : QAssign) (k : Nat) (path : List Nat),
      okB (assignVars t f n a k path) = okB (assignVars t f' n a' k path) := by
  intro n
  induction n with
  | zero =>
    intro a a' k path
    rw [assignVars, assignVars]
  | succ n ih =>
    intro a a' k path
    rw [assignVars_succV, assignVars_succV]
    by_cases hc : path.contains k = true
    · rw [if_pos hc, if_pos hc]
    · rw [if_neg hc, if_neg hc]
      have key := foldlM_okB_congr (linkStepV t f n (varOf f path k) (path ++ [k]))
        (linkStepV t f' n (varOf f' path k) (path ++ [k])) (t.step k).from_
        (by
          intro b _ a0 a0'
          have := ih a0 a0' b (path ++ [k])
          unfold linkStepV
          cases hx : assignVars t f n a0 b (path ++ [k]) with
          | error e =>
            cases hy : assignVars t f' n a0' b (path ++ [k]) with
            | error e' => rfl
            | ok r' => rw [hx, hy] at this; cases this
          | ok r =>
            cases hy : assignVars t f' n a0' b (path ++ [k]) with
            | error e' => rw [hx, hy] at this; cases this
            | ok r' => rfl)
        (visitV t a (varOf f path k) k) (visitV t a' (varOf f' path k) k)
      revert key
      cases (t.step k).from_.foldlM (linkStepV t f n (varOf f path k) (path ++ [k])) (visitV t a (varOf f path k) k) <;>
        cases (t.step k).from_.foldlM (linkStepV t f' n (varOf f' path k) (path ++ [k])) (visitV t a' (varOf f' path k) k) <;>
        intro key <;> first | rfl | cases key

theorem assignAll_okB (t : QTask) (f f' : QFlags) : okB (assignAll t f) = okB (assignAll t f') := by
  unfold assignAll
  apply foldlM_okB_congr
  intro o _ a a'
  have := assignVars_okB t f f' (t.steps.length + 2) a a' o []
  cases hx : assignVars t f (t.steps.length + 2) a o [] with
  | error e =>
    cases hy : assignVars t f' (t.steps.length + 2) a' o [] with
    | error e' => rfl
    | ok r' => rw [hx, hy] at this; cases this
  | ok r =>
    cases hy : assignVars t f' (t.steps.length + 2) a' o [] with
    | error e' => rw [hx, hy] at this; cases this
    | ok r' => rfl

/-- `assign_variables` succeeds iff no reachable step lies on a cycle, whatever the flags -/
theorem assignAll_ok_iff_any (t : QTask) (f : QFlags) : (∃ a, assignAll t f = .ok a) ↔ NoCycle t := by
  rw [← okB_iff, assignAll_okB t f { f with unfoldTree := false }, okB_iff]
  exact assignAll_ok_iff t _ rfl

theorem genFrom_totalU {G : GLang} {t : QTask} {f : QFlags} {a : QAssign} (ha : AssignOkU t a)
    (hU : ∀ k, StepReach t k → ∀ T ∈ (t.step k).types, HasUri G T) : ∃ q, genFrom G t f a = .ok q := by
  unfold genFrom
  have h1 : ∃ pre2, (if f.byTypes then typesClauses G t a else .ok []) = .ok pre2 := by
    split
    · rw [typesClauses_eq]
      apply mapM_total
      intro ts hts
      apply typeClause_total
      rcases bagOf_subset _ _ [] ts hts with h | ⟨r, hr, hsub⟩
      · cases h
      · obtain ⟨k, hk, rfl⟩ := reqs_reachU ha r hr
        exact fun T hT => hU k hk T (hsub T hT)
    · exact ⟨[], rfl⟩
  obtain ⟨pre2, h1⟩ := h1
  rw [h1]
  simp only
  have h2 : ∃ outs, a.outs.mapM (outClause G t f a) = .ok outs := by
    apply mapM_total
    intro v hv
    obtain ⟨o, hp, ho⟩ := (ha.outs v).1 hv
    unfold outClause
    rw [ha.stepOf hp]
    obtain ⟨cs, hcs⟩ := subtypeOfClauses_total (G := G) v (hU o hp.reach)
    rw [hcs]
    exact ⟨_, rfl⟩
  obtain ⟨outs, h2⟩ := h2
  rw [h2]
  simp only
  have h3 : ∃ ins, (if f.byIo then a.ins.mapM (inClause G t f a) else .ok []) = .ok ins := by
    split
    · apply mapM_total
      intro v hv
      obtain ⟨i, hp, hi⟩ := (ha.ins v).1 hv
      unfold inClause
      rw [ha.stepOf hp]
      obtain ⟨cs, hcs⟩ := subtypeOfClauses_total (G := G) v (hU i hp.reach)
      rw [hcs]
      exact ⟨_, rfl⟩
    · exact ⟨[], rfl⟩
  obtain ⟨ins, h3⟩ := h3
  rw [h3]
  simp only
  have h4 : ∃ chron, chronOf G t f a = .ok chron := by
    unfold chronOf
    split
    · exact ⟨[], rfl⟩
    · apply foldlM_accStep_total
      rintro ⟨p, k⟩ hp
      have hk := ((ha.vars p k).1 hp).reach
      unfold chronPiece
      split
      · exact ⟨_, rfl⟩
      · obtain ⟨cs, hcs⟩ := subtypeOfClauses_total (G := G) p (hU k hk)
        rw [hcs]
        exact ⟨_, rfl⟩
  obtain ⟨chron, h4⟩ := h4
  rw [h4]
  exact ⟨_, rfl⟩

theorem genQuery_totalU {G : GLang} {t : QTask} {f : QFlags} (hf : f.unfoldTree = true) (hnc : NoCycle t)
    (hU : ∀ k, StepReach t k → ∀ T ∈ (t.step k).types, HasUri G T) : ∃ q, genQuery G t f = .ok q := by
  obtain ⟨a, ha⟩ := (assignAll_ok_iff_any t f).2 hnc
  obtain ⟨q, hq⟩ := genFrom_totalU (f := f) (assignAll_okU t f hf a ha) hU
  refine ⟨q, ?_⟩
  rw [genQuery_eq, ha]
  exact hq

theorem genQuery_ok_nocycle_any {G : GLang} {t : QTask} {f : QFlags} {q : Query}
    (h : genQuery G t f = .ok q) : NoCycle t := by
  obtain ⟨a, ha, _⟩ := genQuery_ok h
  exact (assignAll_ok_iff_any t f).1 ⟨a, ha⟩

end Tfv
