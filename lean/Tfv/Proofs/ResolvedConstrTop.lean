import Tfv.Proofs.ResolvedConstrEngineC
/-!
# The attachment invariant through `applyT`, `applyAll`, `addConstraint(s)`, `instantiate`
-/
namespace Tfv.C03R
open Tfv Tfv.C03P Tfv.C03C Tfv.C16P Tfv.C17E

theorem Pre.of {L : Lang} {σ σ' : Store} (p : Pre L σ) (s : StepC L σ σ') (hc : Chains σ') : Pre L σ' :=
  ⟨s.ok, hc, s.wild.noWild p.nw⟩

/-! ## 1. `applyT` -/

theorem applyPre_R {L : Lang} (wf : WF L) {n : Nat} {σ σ1 : Store} {f0 f1 : Term} {P : Pend}
    (p : Pre L σ) (hf : okTerm L σ f0 = true) (hfin : Final σ f0) (inv : Inv L σ P)
    (h : applyPre L n σ f0 = .ok (σ1, f1)) :
    Pre L σ1 ∧ StepC L σ σ1 ∧ StepR L σ σ1 ∧ Inv L σ1 P ∧ okTerm L σ1 f1 = true := by
  have sc := (applyPre_soundC wf p.okc hf h).1
  have hf1 := (applyPre_soundC wf p.okc hf h).2.1
  have hg := applyPre_good L n p.ch hfin
  rw [h] at hg
  have p1 : Pre L σ1 := p.of sc (goodP_ok.mp hg).ch
  suffices hh : StepR L σ σ1 ∧ Inv L σ1 P from ⟨p1, sc, hh.1, hh.2, hf1⟩
  cases f0 with
  | app o args =>
    simp only [applyPre] at h
    injection h with h
    injection h with h1 h2
    subst h1
    exact ⟨StepR.refl L σ, inv⟩
  | var fv =>
    simp only [applyPre] at h
    split at h
    · cases h
    · next σ3 hb =>
      injection h with h
      injection h with h1 h2
      subst h1
      have sA := stepC_newVar (L := L) p.okc
      have pA : Pre L (newVar σ).1 := p.of sA ((boundEq_newVar σ false).chains p.ch)
      have sB := stepC_newVar (L := L) sA.ok
      have pB : Pre L (newVar (newVar σ).1).1 := pA.of sB ((boundEq_newVar _ false).chains pA.ch)
      have sAB := sA.trans sB
      obtain ⟨iA, rA⟩ := inv_newVar p.okc p.ch false inv
      obtain ⟨iB, rB⟩ := inv_newVar pA.okc pA.ch false iA
      have hfv := okTerm_var.mp (sAB.okTerm hf)
      have hterm : okTerm L (newVar (newVar σ).1).1 (.app FUN [.var (newVar σ).2, .var (newVar (newVar σ).1).2]) = true := by
        refine okTerm_app.mpr ⟨?_, ?_, ?_⟩
        · have := length_ge_five wf; unfold FUN; omega
        · rw [arity_fun wf]; rfl
        · refine okTermL_cons.mpr ⟨okTerm_var.mpr ?_, okTermL_cons.mpr ⟨okTerm_var.mpr ?_, okTermL_nil⟩⟩
          · simp only [snd_newVar, length_newVar]; omega
          · simp only [snd_newVar, length_newVar]; omega
      have b2 : BoundEq σ (newVar (newVar σ).1).1 := (boundEq_newVar σ false).trans (boundEq_newVar _ false)
      have hnb : (getVar (newVar (newVar σ).1).1 fv).bound = none := (b2.bound fv).trans hfin
      obtain ⟨r3, i3⟩ := (all_R wf n).2.2.1 _ fv _ σ3 P pB hfv hterm
        (bindPre_compound (by rw [arity_fun wf]; decide)) hnb trivial iB hb
      exact ⟨rA.trans (rB.trans r3), i3⟩

theorem applyPost_R {L : Lang} (wf : WF L) {n : Nat} {σ σ' : Store} {x0 f1 r : Term} {fixFlag : Bool}
    {P : Pend} (p : Pre L σ) (hf : okTerm L σ f1 = true) (hx : okTerm L σ x0 = true) (inv : Inv L σ P)
    (h : applyPost L n σ x0 f1 fixFlag = .ok (σ', r)) :
    Pre L σ' ∧ StepC L σ σ' ∧ StepR L σ σ' ∧ Inv L σ' P ∧ okTerm L σ' r = true := by
  have sc := (applyPost_soundC wf p.okc hf hx h).1
  have hr := (applyPost_soundC wf p.okc hf hx h).2.1
  have hg := applyPost_good L n x0 f1 fixFlag p.ch
  rw [h] at hg
  suffices hh : StepR L σ σ' ∧ Inv L σ' P from ⟨p.of sc (goodP_ok.mp hg).ch, sc, hh.1, hh.2, hr⟩
  unfold applyPost at h
  split at h
  · next o l r0 =>
    obtain ⟨ho, hlen, hargs⟩ := okTerm_app.mp hf
    split at h
    · obtain ⟨hl, hr0⟩ := okTermL_cons.mp hargs
      obtain ⟨hr0, _⟩ := okTermL_cons.mp hr0
      split at h
      · cases h
      · next σ1 hu =>
        obtain ⟨r1, i1⟩ := (all_R wf n).1 σ x0 l false false σ1 P p hx hl inv hu
        obtain ⟨p1, s1⟩ := unify_pre wf p hx hl hu
        split at h
        · obtain ⟨r2, i2⟩ := (all_R wf n).2.2.2.2.2.1 σ1 r0 true σ' r P p1 (s1.okTerm hr0) i1 h
          exact ⟨r1.trans r2, i2⟩
        · injection h with h
          injection h with h1 h2
          subst h1
          exact ⟨r1, i1⟩
    · split at h
      · injection h with h
        injection h with h1 h2
        subst h1
        exact ⟨StepR.refl L σ, inv⟩
      · cases h
  · split at h
    · injection h with h
      injection h with h1 h2
      subst h1
      exact ⟨StepR.refl L σ, inv⟩
    · cases h
  · cases h

theorem applyT_R {L : Lang} (wf : WF L) {n : Nat} {σ σ' : Store} {f x r : Term} {fixFlag : Bool} {P : Pend}
    (p : Pre L σ) (hf : okTerm L σ f = true) (hx : okTerm L σ x = true) (inv : Inv L σ P)
    (h : applyT L n σ f x fixFlag = .ok (σ', r)) :
    Pre L σ' ∧ StepC L σ σ' ∧ StepR L σ σ' ∧ Inv L σ' P ∧ okTerm L σ' r = true := by
  rw [applyT_eq] at h
  split at h
  · cases h
  · next σ1 f1 hpre =>
    obtain ⟨p1, s1, r1, i1, hf1⟩ := applyPre_R wf p (okTerm_followT p.okc.ok f hf) (p.ch.finalT f) inv hpre
    obtain ⟨p2, s2, r2, i2, hr⟩ := applyPost_R wf p1 hf1 (s1.okTerm (okTerm_followT p.okc.ok x hx)) i1 h
    exact ⟨p2, s1.trans s2, r1.trans r2, i2, hr⟩

theorem applyAll_R {L : Lang} (wf : WF L) (n : Nat) (fixFlag : Bool) :
    ∀ (xs : List Term) (σ σ' : Store) (f r : Term) (P : Pend),
    Pre L σ → okTerm L σ f = true → okTermL L σ xs = true → Inv L σ P →
    applyAll L n fixFlag σ f xs = .ok (σ', r) →
    Pre L σ' ∧ StepC L σ σ' ∧ StepR L σ σ' ∧ Inv L σ' P ∧ okTerm L σ' r = true
  | [], σ, σ', f, r, P, p, hf, _, inv, h => by
    unfold applyAll at h
    injection h with h
    injection h with h1 h2
    subst h1; subst h2
    exact ⟨p, StepC.refl p.okc, StepR.refl L σ, inv, hf⟩
  | x :: xs, σ, σ', f, r, P, p, hf, hxs, inv, h => by
    unfold applyAll at h
    obtain ⟨hx, hxs'⟩ := okTermL_cons.mp hxs
    split at h
    · cases h
    · next σ1 r1 h1 =>
      obtain ⟨p1, s1, q1, i1, hr1⟩ := applyT_R wf p hf hx inv h1
      obtain ⟨p2, s2, q2, i2, hr⟩ := applyAll_R wf n fixFlag xs σ1 σ' r1 r P p1 hr1 (s1.okTermL hxs') i1 h
      exact ⟨p2, s1.trans s2, q1.trans q2, i2, hr⟩

/-! ## 2. registering a constraint -/

theorem indirectVars_acc (σ : Store) : ∀ (k : Nat) (work seen : List Nat) (x : Nat), x ∈ seen →
    x ∈ indirectVars σ k work seen
  | 0, _, _, _, h => by unfold indirectVars; exact h
  | k+1, [], _, _, h => by unfold indirectVars; exact h
  | k+1, v :: work, seen, x, h => by
    unfold indirectVars
    simp only []
    apply indirectVars_acc σ k
    apply foldl_mem_acc _ _ _ seen x h
    intro acc c y hy
    exact foldl_mem_acc _ (fun acc a z hz => directVars_acc σ _ acc a z hz) _ acc y hy

/-- every variable reached (within depth 64) from one of the terms is among `varsOfTerms` -/
theorem varsOfTerms_reach {σ : Store} {ts : List Term} {t : Term} {u d : Nat} (ht : t ∈ ts) (hr : Reach σ t u d)
    (hd : d < 64) : u ∈ varsOfTerms σ ts := by
  unfold varsOfTerms
  simp only []
  apply indirectVars_acc
  exact foldl_mem_elem _ (fun acc a x hx => directVars_acc σ _ acc a x hx)
    (fun acc => directVars_reach hr _ acc (by unfold termFuel; omega)) ts [] ht

theorem vars_informStore (id : Nat) : ∀ (vars : List Nat) (σ : Store), (informStore id vars σ).vars = σ.vars
  | [], _ => rfl
  | v :: vars, σ => by
    unfold informStore
    simp only [List.foldl_cons]
    exact vars_informStore id vars _

theorem constrs_informStore (id : Nat) : ∀ (vars : List Nat) (σ : Store), (informStore id vars σ).constrs = σ.constrs
  | [], _ => rfl
  | v :: vars, σ => by
    unfold informStore
    simp only [List.foldl_cons]
    exact constrs_informStore id vars _

theorem csets_len_informStore (id : Nat) : ∀ (vars : List Nat) (σ : Store),
    (informStore id vars σ).csets.length = σ.csets.length
  | [], _ => rfl
  | v :: vars, σ => by
    unfold informStore
    simp only [List.foldl_cons]
    have := csets_len_informStore id vars
      (setCset σ (getVar σ v).cset (insertSorted id (getCset σ (getVar σ v).cset)))
    unfold informStore at this
    rw [this]
    unfold setCset; simp

theorem getVar_informStore (id : Nat) (vars : List Nat) (σ : Store) (w : Nat) :
    getVar (informStore id vars σ) w = getVar σ w := by
  unfold getVar; rw [vars_informStore]

/-- the constraint sets only grow, and the new id enters the set of every listed variable -/
theorem getCset_informStore_grow (id : Nat) : ∀ (vars : List Nat) (σ : Store) (k x : Nat),
    x ∈ getCset σ k → x ∈ getCset (informStore id vars σ) k
  | [], _, _, _, h => h
  | v :: vars, σ, k, x, h => by
    unfold informStore
    simp only [List.foldl_cons]
    apply getCset_informStore_grow id vars
    rw [getCset_setCset']
    split
    · next e => rw [← e.1] at h; exact insertSorted_mem_old h
    · exact h

theorem getCset_informStore_new (id : Nat) : ∀ (vars : List Nat) (σ : Store) (u : Nat), u ∈ vars →
    (getVar σ u).cset < σ.csets.length → id ∈ getCset (informStore id vars σ) (getVar σ u).cset
  | [], _, _, h, _ => nomatch h
  | v :: vars, σ, u, h, hk => by
    unfold informStore
    simp only [List.foldl_cons]
    rcases List.mem_cons.mp h with e | e
    · subst e
      apply getCset_informStore_grow id vars
      rw [getCset_setCset']
      simp [hk, insertSorted_mem_self]
    · have := getCset_informStore_new id vars
        (setCset σ (getVar σ v).cset (insertSorted id (getCset σ (getVar σ v).cset))) u e
        (by rw [getVar_setCset]; unfold setCset; simpa using hk)
      rw [getVar_setCset] at this
      exact this

theorem addConstraint_R {L : Lang} (wf : WF L) {n : Nat} {σ σ' : Store} {c : Constr} {P : Pend}
    (p : Pre L σ) (hc : okTermL L σ (constrTerms c) = true) (hun : unfulB c = true)
    (hK : P.k σ.constrs.length → ∀ r as f, c = .elim r as f → Term.closedL as = true)
    (inv : Inv L σ P) (h : addConstraint L n σ c = .ok σ') :
    Pre L σ' ∧ StepC L σ σ' ∧ StepR L σ σ' ∧ Inv L σ' P ∧
      (∀ r as f, c = .elim r as f → ∃ r' as' f', getConstr σ' σ.constrs.length = .elim r' as' f' ∧
        (f = true → f' = true) ∧ Same σ' r' r ∧ ∀ a', a' ∈ as' → ∃ a, a ∈ as ∧ Same σ' a' a) := by
  have hnf : ∀ r t s, c ≠ .sub r t s true := fun r t s e => by rw [e] at hun; cases hun
  have hunN : unfulB (normC σ c) = true := by
    cases c with
    | sub r t s f => exact hun
    | elim r as f => exact hun
  have sc := addConstraint_soundC wf p.okc hc hnf h
  have hg := addConstraint_good L n c p.ch
  have p' : Pre L σ' := p.of sc (hg.chains h)
  refine ⟨p', sc, ?_⟩
  rw [addConstraint_eq] at h
  simp only [] at h
  split at h
  · cases h
  · split at h
    · cases h
    · next σ1 d h1 =>
      injection h with h; subst h
      have hnf' : ∀ r t s, normC σ c ≠ .sub r t s true := by
        intro r t s e
        cases c with
        | sub r' t' s' f' =>
          unfold normC at e
          injection e with _ _ e3 e4
          subst e3; subst e4
          exact hnf r' t' s' rfl
        | elim r' a' f' => unfold normC at e; cases e
      obtain ⟨s1, hl1⟩ := stepC_regStore p.okc (okTermL_normC p.okc.ok hc) hnf'
      have hid : σ.constrs.length < (regStore σ (normC σ c)).constrs.length := by rw [hl1]; omega
      obtain ⟨s2, hl2⟩ := stepC_informStore (L := L) σ.constrs.length
        (varsOfTerms (regStore σ (normC σ c)) (constrTerms (normC σ c))) _ s1.ok hid
      -- names
      generalize hσa : regStore σ (normC σ c) = σa at *
      generalize hvars : varsOfTerms σa (constrTerms (normC σ c)) = vars at *
      generalize hσb : informStore σ.constrs.length vars σa = σb at *
      have s12 := s1.trans s2
      have hca : Chains σa := by rw [← hσa]; exact (boundEq_regStore σ _).chains p.ch
      have hcb : Chains σb := by rw [← hσb]; exact (boundEq_informStore _ _ _).chains hca
      have pb : Pre L σb := p.of s12 hcb
      have hvb : σb.vars = σ.vars := by rw [← hσb, vars_informStore, ← hσa]; rfl
      have hgv : ∀ w, getVar σb w = getVar σ w := fun w => by unfold getVar; rw [hvb]
      have fe : FollowEq σ σb := followEq_of_same (by rw [hvb]) (fun w => by rw [hgv])
      have ex : Ext σ σb := ⟨by rw [hvb]; exact Nat.le_refl _, fun w b hw => by rw [hgv]; exact hw⟩
      have hlb : σb.constrs.length = σ.constrs.length + 1 := by rw [hl2, hl1]
      have hgc_lt : ∀ d, d < σ.constrs.length → getConstr σb d = getConstr σ d := by
        intro d hd
        rw [← hσb, getConstr_congr (constrs_informStore _ _ _), ← hσa, getConstr_regStore_lt hd]
      have hgc_eq : getConstr σb σ.constrs.length = normC σ c := by
        rw [← hσb, getConstr_congr (constrs_informStore _ _ _), ← hσa, getConstr_regStore_eq]
      have hcs_grow : ∀ u x, x ∈ cs σ u → x ∈ cs σb u := by
        intro u x hx
        unfold cs at hx ⊢
        rw [hgv, ← hσb]
        apply getCset_informStore_grow
        rw [← hσa]
        exact hx
      have hidx : IdxOk σb := by
        intro w hw
        rw [hvb] at hw
        rw [hgv, ← hσb, csets_len_informStore, ← hσa]
        exact inv.idx w hw
      have hcs_new : ∀ u, u ∈ vars → u < σ.vars.length → σ.constrs.length ∈ cs σb u := by
        intro u hu hlt
        unfold cs
        rw [hgv, ← hσb]
        have hga : getVar σa u = getVar σ u := by rw [← hσa]; rfl
        have := getCset_informStore_new σ.constrs.length vars σa u hu
          (by rw [hga, ← hσa]; exact inv.idx u hlt)
        rw [hga] at this
        exact this
      have feb : FollowEq σa σb := by
        rw [← hσb]
        exact followEq_of_same (by rw [vars_informStore]) (fun w => by rw [getVar_informStore])
      have hidl : σ.constrs.length < σb.constrs.length := by omega
      have hokn : okTermL L σb (constrTerms (normC σ c)) = true := by
        have := pb.okc.cget hidl
        rw [hgc_eq] at this
        exact this
      -- the new constraint is attached along each of its terms
      have hnew_att : ∀ t, t ∈ constrTerms (normC σ c) → Att σb σ.constrs.length t := by
        intro t ht u dd hdd hr
        have hu : u ∈ vars := by
          rw [← hvars]
          exact varsOfTerms_reach ht (feb.symm.reach hr) hdd
        have hult : u < σ.vars.length := by
          have : u < σb.vars.length := reach_lt pb.okc.ok hr (okTermL_iff.mp hokn t ht)
          rw [hvb] at this; exact this
        exact hcs_new u hu hult
      have hold_att : ∀ x t, okTerm L σ t = true → Att σ x t → Att σb x t := fun x t ht h =>
        att_same p.okc.ok fe (fun u _ hm => hcs_grow u x hm) ht h
      have ib : Inv L σb (P.addP (fun x => x = σ.constrs.length)) := by
        refine ⟨hidx, ?_, ?_, ?_, ?_, ?_, ?_, ?_⟩
        rotate_left 6
        · intro x r as f hk hx
          by_cases e : x < σ.constrs.length
          · rw [hgc_lt x e] at hx
            exact inv.ful2 x r as f hk hx
          · by_cases e2 : x = σ.constrs.length
            · subst e2
              rw [hgc_eq] at hx
              cases c with
              | sub r' t' s' f' => unfold normC at hx; cases hx
              | elim r' as' f' =>
                unfold normC at hx
                injection hx with _ a2 a3
                have hf' : f' = false := by
                  cases f' with
                  | false => rfl
                  | true => cases hun
                refine ⟨by rw [← a2]; exact closedL_map_followT σ (hK hk r' as' f' rfl), fun hf => ?_⟩
                rw [← a3, hf'] at hf; cases hf
            · have hxl : ¬ x < σb.constrs.length := by omega
              have : getConstr σb x = .sub (.var 0) (.var 0) false true := by
                unfold getConstr
                rw [List.getD_eq_getElem?_getD, List.getElem?_eq_none (by omega)]
                rfl
              rw [this] at hx; cases hx
        · intro x r t s hx u dd hdd hr
          have hxl : x < σb.constrs.length := unful_lt hx
          by_cases e : x < σ.constrs.length
          · rw [hgc_lt x e] at hx
            exact hcs_grow u x (inv.att x r t s hx u dd hdd (hr.imp fe.symm.reach fe.symm.reach))
          · have e2 : x = σ.constrs.length := by omega
            subst e2
            rw [hgc_eq] at hx
            rcases hr with h | h
            · exact hnew_att r (by rw [hx, constrTerms_sub]; exact List.mem_cons_self) u dd hdd h
            · exact hnew_att t (by rw [hx, constrTerms_sub]; exact List.mem_cons_of_mem _ List.mem_cons_self)
                u dd hdd h
        · intro x r t s hx hn τr τt h1 h2
          have hxl : x < σb.constrs.length := unful_lt hx
          have e : x < σ.constrs.length := by
            have : x ≠ σ.constrs.length := fun e => hn (Or.inr e)
            omega
          rw [hgc_lt x e] at hx
          exact inv.chk x r t s hx (fun hp => hn (Or.inl hp)) τr τt (fe.symm.res τr r h1) (fe.symm.res τt t h2)
        · intro x r t s hxl hx
          by_cases e : x < σ.constrs.length
          · rw [hgc_lt x e] at hx
            exact (inv.ful x r t s e hx).mono ex
          · have e2 : x = σ.constrs.length := by omega
            subst e2
            rw [hgc_eq] at hx
            exact absurd hx (hnf' r t s)
        · intro x r as hx t ht
          have hxl : x < σb.constrs.length := (unful_elim hx).lt
          by_cases e : x < σ.constrs.length
          · rw [hgc_lt x e] at hx
            exact hold_att x t (okTermL_iff.mp (okc_elim_terms p.okc e hx) t ht) (inv.attE x r as hx t ht)
          · have e2 : x = σ.constrs.length := by omega
            subst e2
            rw [hgc_eq] at hx
            exact hnew_att t (by rw [hx, constrTerms_elim]; exact ht)
        · intro x r as hx hn
          have hxl : x < σb.constrs.length := (unful_elim hx).lt
          have e : x < σ.constrs.length := by
            have : x ≠ σ.constrs.length := fun e => hn (Or.inr e)
            omega
          rw [hgc_lt x e] at hx
          obtain ⟨h2, hall⟩ := inv.chkE x r as hx (fun hp => hn (Or.inl hp))
          exact ⟨h2, fun τr τs h1 hl d1 d2 => hall τr τs (fe.symm.res τr r h1) (fe.symm.resL τs as hl) d1 d2⟩
        · intro x r a hxl hx hn ρ hρ hgρ
          by_cases e : x < σ.constrs.length
          · rw [hgc_lt x e] at hx
            exact inv.ful1 x r a e hx hn ρ (s12.sat ρ hρ) hgρ
          · have e2 : x = σ.constrs.length := by omega
            subst e2
            rw [hgc_eq] at hx
            rw [hx] at hunN
            cases hunN
      have rb : StepR L σ σb :=
        ⟨ex, by omega,
         fun x r t s f hx hg' => ⟨f, by rw [hgc_lt x hx]; exact hg', fun e => e⟩,
         fun x r as f hx hg' => ⟨r, as, f, by rw [hgc_lt x hx]; exact hg', fun e => e, Same.refl _ _,
           fun a ha => ⟨a, ha, Same.refl _ _⟩⟩,
         fun u x _ _ hm _ => hcs_grow u x hm,
         fun x t _ ht _ h => hold_att x t ht h⟩
      obtain ⟨r3, i3, _⟩ := (all_R wf n).2.2.2.2.2.2.2.2.2.1 σb σ.constrs.length _ d P pb (by omega) ib h1
      refine ⟨rb.trans r3, i3, ?_⟩
      intro r as f ec
      subst ec
      have hrec : getConstr σb σ.constrs.length = .elim r (as.map (followT σ)) f := hgc_eq
      obtain ⟨r', as', f', e', hf, hr', has'⟩ := r3.der _ _ _ _ hidl hrec
      refine ⟨r', as', f', e', hf, hr', fun a' ha' => ?_⟩
      obtain ⟨a'', ha'', hs⟩ := has' a' ha'
      obtain ⟨a, ha, ea⟩ := List.mem_map.mp ha''
      subst ea
      exact ⟨a, ha, hs.trans ((Same.of_followT σ a).mono (rb.trans r3).ext)⟩

/-- every elimination constraint of the list has closed alternatives -/
def closedAltsB : CAst → Bool
  | .sub _ _ _ => true
  | .elim _ alts => Term.closedL alts

theorem addConstraints_R {L : Lang} (wf : WF L) (n : Nat) (base k : Nat) :
    ∀ (cs : List CAst) (σ σ' : Store) (P : Pend), Pre L σ → base + k ≤ σ.vars.length →
    (∀ c, c ∈ cs → okCAstN L k c = true) →
    ((∃ j, P.k j) → ∀ c, c ∈ cs → closedAltsB c = true) → Inv L σ P →
    addConstraints L n base σ cs = .ok σ' → Pre L σ' ∧ StepC L σ σ' ∧ StepR L σ σ' ∧ Inv L σ' P
  | [], σ, σ', P, p, _, _, _, inv, h => by
    unfold addConstraints at h
    injection h with h; subst h; exact ⟨p, StepC.refl p.okc, StepR.refl L σ, inv⟩
  | c :: cs, σ, σ', P, p, hb, hcs, hcl, inv, h => by
    unfold addConstraints at h
    simp only [] at h
    split at h
    · cases h
    · next σ1 h1 =>
      have hc := hcs c List.mem_cons_self
      have tail : ∀ c', okTermL L σ (constrTerms c') = true → unfulB c' = true →
          (P.k σ.constrs.length → ∀ r as f, c' = .elim r as f → Term.closedL as = true) →
          addConstraint L n σ c' = .ok σ1 → Pre L σ' ∧ StepC L σ σ' ∧ StepR L σ σ' ∧ Inv L σ' P :=
        fun c' hterms hnf hK h1' => by
          obtain ⟨p1, s1, r1, i1, _⟩ := addConstraint_R wf p hterms hnf hK inv h1'
          obtain ⟨p2, s2, r2, i2⟩ := addConstraints_R wf n base k cs σ1 σ' P p1 (Nat.le_trans hb s1.len)
            (fun c'' hc' => hcs c'' (List.mem_cons_of_mem _ hc'))
            (fun hj c'' hc' => hcl hj c'' (List.mem_cons_of_mem _ hc')) i1 h
          exact ⟨p2, s1.trans s2, r1.trans r2, i2⟩
      cases c with
      | sub r t s =>
        unfold okCAstN at hc
        rw [Bool.and_eq_true] at hc
        refine tail _ ?_ rfl (fun _ _ _ _ e => by cases e) h1
        rw [constrTerms_sub]
        exact okTermL_cons.mpr ⟨okTerm_shift hb r hc.1, okTermL_single (okTerm_shift hb t hc.2)⟩
      | elim r alts =>
        unfold okCAstN at hc
        rw [Bool.and_eq_true] at hc
        refine tail _ ?_ rfl (fun hk r' as' f' e => by
          injection e with _ a2 _
          have := hcl ⟨_, hk⟩ _ List.mem_cons_self
          unfold closedAltsB at this
          rw [← a2, shiftL_closed _ _ this]
          exact this) h1
        rw [constrTerms_elim]
        exact okTermL_cons.mpr ⟨okTerm_followT p.okc.ok _ (okTerm_shift hb r hc.1), okTermL_shift hb alts hc.2⟩

/-! ## 3. `instantiate` (schemas without wildcards) -/

theorem inv_foldl_newVar {L : Lang} {α : Type} : ∀ (l : List α) (σ : Store) (P : Pend),
    Pre L σ → Inv L σ P →
    Pre L (l.foldl (fun σ _ => (newVar σ false).1) σ) ∧ StepR L σ (l.foldl (fun σ _ => (newVar σ false).1) σ) ∧
      Inv L (l.foldl (fun σ _ => (newVar σ false).1) σ) P
  | [], σ, P, p, inv => ⟨p, StepR.refl L σ, inv⟩
  | _ :: l, σ, P, p, inv => by
    obtain ⟨i1, r1⟩ := inv_newVar p.okc p.ch false inv
    have p1 : Pre L (newVar σ false).1 := p.of (stepC_newVar p.okc) ((boundEq_newVar σ false).chains p.ch)
    obtain ⟨p2, r2, i2⟩ := inv_foldl_newVar l _ P p1 i1
    simp only [List.foldl_cons]
    exact ⟨p2, r1.trans r2, i2⟩

theorem instantiate_R {L : Lang} (wf : WF L) {n : Nat} {σ σ' : Store} {s : Schema} {f : Term} {P : Pend}
    (p : Pre L σ) (hw : s.nwild = 0)
    (hcs : ∀ c, c ∈ s.constraints → okCAstN L (s.nvars + s.nwild) c = true)
    (hbody : okTermN L (s.nvars + s.nwild) s.body = true)
    (hcl : (∃ j, P.k j) → ∀ c, c ∈ s.constraints → closedAltsB c = true) (inv : Inv L σ P)
    (h : instantiate L n σ s = .ok (σ', f)) :
    Pre L σ' ∧ StepR L σ σ' ∧ Inv L σ' P ∧ okTerm L σ' f = true := by
  obtain ⟨s0, s1, _, hf, _⟩ := instantiate_steps wf p.okc hcs hbody h
  unfold instantiate at h
  simp only [] at h
  split at h
  · cases h
  · next σ1 h1 =>
    obtain ⟨_, hlen⟩ := stepA_allocVars (L := L) p.okc s.nvars s.nwild
    have hb : σ.vars.length + (s.nvars + s.nwild) ≤ (allocVars σ s.nvars s.nwild).vars.length := by
      rw [hlen]; omega
    have ha : Pre L (allocVars σ s.nvars s.nwild) ∧ StepR L σ (allocVars σ s.nvars s.nwild) ∧
        Inv L (allocVars σ s.nvars s.nwild) P := by
      rw [hw]
      unfold allocVars
      simp only [List.range_zero, List.foldl_nil]
      exact inv_foldl_newVar _ σ P p inv
    obtain ⟨pa, ra, ia⟩ := ha
    obtain ⟨p1, sc1, r1, i1⟩ := addConstraints_R wf n σ.vars.length (s.nvars + s.nwild) s.constraints _ σ1 P
      pa hb hcs hcl ia h1
    have hbody1 : okTerm L σ1 (s.body.shift σ.vars.length) = true :=
      okTerm_shift (Nat.le_trans hb sc1.len) s.body hbody
    have hsp := okTerm_spineFollow p1.okc.ok _ hbody1
    obtain ⟨r2, i2⟩ := (all_R wf n).2.2.2.2.2.1 σ1 _ true σ' f P p1 hsp i1 h
    obtain ⟨p2, _, _⟩ := fix_pre wf p1 hsp h
    exact ⟨p2, ra.trans (r1.trans r2), i2, hf⟩

end Tfv.C03R
