import Tfv.Proofs.QueryUnfoldRename
/-!
# Tree-shaped tasks: the plain run of `assignVars` is the unfolded run with every path renamed to its last step
-/
namespace Tfv

/-- the plain variable of a path variable -/
def lastVar (p : QVar) : QVar := [lastStep p]

/-- `v` is a path of the task -/
def IsPath (t : QTask) (v : QVar) : Prop := ∃ k, PathTo t v k

theorem lastVar_inj {t : QTask} (ht : TreeShaped t) :
    ∀ v w, IsPath t v → IsPath t w → lastVar v = lastVar w → v = w := by
  rintro v w ⟨k, hk⟩ ⟨k', hk'⟩ h
  unfold lastVar at h
  rw [hk.lastStep, hk'.lastStep] at h
  simp only [List.cons.injEq, and_true] at h
  subst h
  exact ht v w k hk hk'

/-- all variables of `a` are paths of the task (and stand for their last step) -/
structure Inv (t : QTask) (a : QAssign) : Prop where
  vars : ∀ x ∈ a.vars, PathTo t x.1 x.2
  links : ∀ l ∈ a.links, IsPath t l.1 ∧ IsPath t l.2
  outs : ∀ v ∈ a.outs, IsPath t v
  ins : ∀ v ∈ a.ins, IsPath t v

theorem Inv.valid {t : QTask} {a : QAssign} (h : Inv t a) : ValidP (IsPath t) a :=
  ⟨fun x hx => ⟨_, h.vars x hx⟩, h.links, h.outs, h.ins⟩

theorem Inv.shape {t : QTask} {a : QAssign} (h : Inv t a) : ShapeU a :=
  fun x hx => (h.vars x hx).getLast

theorem ExtU.inv {t : QTask} {S : QVar → Nat → Prop} {L : QVar → QVar → Prop} {a a' : QAssign}
    (e : ExtU t S L a a') (h : Inv t a) (hS : ∀ w j, S w j → PathTo t w j)
    (hL : ∀ c d, L c d → IsPath t c ∧ IsPath t d) : Inv t a' := by
  refine ⟨?_, ?_, ?_, ?_⟩
  · intro x hx
    rcases (e.vars x).1 hx with h1 | h1
    · exact h.vars x h1
    · exact hS _ _ h1
  · intro l hl
    rcases (e.links l).1 hl with h1 | h1
    · exact h.links l h1
    · exact hL _ _ h1
  · intro v hv
    rcases (e.outs v).1 hv with h1 | ⟨k, h1, _⟩
    · exact h.outs v h1
    · exact ⟨k, hS _ _ h1⟩
  · intro v hv
    rcases (e.ins v).1 hv with h1 | ⟨k, h1, _⟩
    · exact h.ins v h1
    · exact ⟨k, hS _ _ h1⟩

theorem assignVars_inv {t : QTask} {f : QFlags} (hf : f.unfoldTree = true) {n : Nat} {a a' : QAssign} {k : Nat}
    {path : List Nat} {v : QVar} (h : Inv t a) (hp : PathTo t (path ++ [k]) k)
    (hr : assignVars t f n a k path = .ok (a', v)) : v = path ++ [k] ∧ Inv t a' := by
  obtain ⟨hv, e⟩ := assignVars_specU t f hf n a k path a' v h.shape hr
  refine ⟨hv, e.inv h ?_ ?_⟩
  · rintro w j ⟨q, hc, rfl⟩
    exact hc.pathTo path hp
  · rintro c d ⟨q, j, b, hc, hb, rfl, rfl⟩
    have := hc.pathTo path hp
    exact ⟨⟨j, this⟩, ⟨b, .step this hb⟩⟩

theorem QAssign.ext' {x y : QAssign} (h1 : x.vars = y.vars) (h2 : x.links = y.links) (h3 : x.outs = y.outs)
    (h4 : x.ins = y.ins) : x = y := by
  cases x; cases y
  simp only at h1 h2 h3 h4
  subst h1 h2 h3 h4
  rfl

theorem contains_ren {ρ : QVar → QVar} {P : QVar → Prop} (hinj : ∀ v w, P v → P w → ρ v = ρ w → v = w)
    {l : List QVar} (hl : ∀ x ∈ l, P x) {v : QVar} (hP : P v) : (l.map ρ).contains (ρ v) = l.contains v := by
  rw [Bool.eq_iff_iff]
  simp only [List.contains_eq_mem, decide_eq_true_eq, List.mem_map]
  constructor
  · rintro ⟨x, hx, he⟩
    rw [← hinj x v (hl x hx) hP he]
    exact hx
  · intro h
    exact ⟨v, h, rfl⟩

theorem visitV_ren {ρ : QVar → QVar} {P : QVar → Prop} (hinj : ∀ v w, P v → P w → ρ v = ρ w → v = w)
    (t : QTask) {a : QAssign} (hv : ValidP P a) {v : QVar} (hP : P v) (k : Nat) :
    visitV t (a.ren ρ) (ρ v) k = (visitV t a v k).ren ρ := by
  have c1 : (a.ren ρ).vars.any (fun p => p.1 == ρ v) = a.vars.any (fun p => p.1 == v) := by
    unfold QAssign.ren
    simp only [List.any_map]
    apply any_congr_mem
    intro x hx
    simp only [Function.comp]
    by_cases hxv : x.1 = v
    · simp [hxv]
    · have : ρ x.1 ≠ ρ v := fun he => hxv (hinj _ _ (hv.vars x hx) hP he)
      rw [beq_eq_false_iff_ne.2 this, beq_eq_false_iff_ne.2 hxv]
  have c2 : (a.ren ρ).outs.contains (ρ v) = a.outs.contains v := contains_ren hinj hv.outs hP
  have c3 : (a.ren ρ).ins.contains (ρ v) = a.ins.contains v := contains_ren hinj hv.ins hP
  apply QAssign.ext'
  · rw [visitV_vars, c1]
    show _ = ((visitV t a v k).vars).map _
    rw [visitV_vars]
    split
    · rfl
    · simp only [List.map_append, List.map_cons, List.map_nil]
      rfl
  · rw [visitV_links]
    show _ = ((visitV t a v k).links).map _
    rw [visitV_links]
    rfl
  · rw [visitV_outs, c2]
    show _ = ((visitV t a v k).outs).map _
    rw [visitV_outs]
    split
    · simp only [List.map_append, List.map_cons, List.map_nil]
      rfl
    · rfl
  · rw [visitV_ins, c3]
    show _ = ((visitV t a v k).ins).map _
    rw [visitV_ins]
    split
    · simp only [List.map_append, List.map_cons, List.map_nil]
      rfl
    · rfl

section
variable {t : QTask} {fU fF : QFlags}

/-- the simulation, as a predicate on the fuel -/
def SimAt (t : QTask) (fU fF : QFlags) (n : Nat) : Prop :=
  ∀ a k path a' v, Inv t a → PathTo t (path ++ [k]) k → assignVars t fU n a k path = .ok (a', v) →
    assignVars t fF n (a.ren lastVar) k path = .ok (a'.ren lastVar, lastVar v)

theorem linkFold_sim (hU : fU.unfoldTree = true) (n : Nat) (ih : SimAt t fU fF n)
    (path' : List Nat) (c : Nat) (hc : PathTo t path' c) :
    ∀ (bs : List Nat) (a a'' : QAssign), Inv t a → (∀ b ∈ bs, b ∈ (t.step c).from_) →
      bs.foldlM (linkStepV t fU n path' path') a = .ok a'' →
      bs.foldlM (linkStepV t fF n (lastVar path') path') (a.ren lastVar) = .ok (a''.ren lastVar) := by
  intro bs
  induction bs with
  | nil =>
    intro a a'' _ _ h
    simp only [List.foldlM_nil, pure, Except.pure, Except.ok.injEq] at h
    subst h
    rfl
  | cons b bs ihb =>
    intro a a'' hinv hbs h
    simp only [List.foldlM_cons] at h ⊢
    have hb : b ∈ (t.step c).from_ := hbs b List.mem_cons_self
    have hpb : PathTo t (path' ++ [b]) b := .step hc hb
    cases hx : linkStepV t fU n path' path' a b with
    | error e => rw [hx] at h; cases h
    | ok a1 =>
      rw [hx] at h
      unfold linkStepV at hx
      cases hy : assignVars t fU n a b path' with
      | error e => rw [hy] at hx; cases hx
      | ok r =>
        obtain ⟨a0, bv⟩ := r
        rw [hy] at hx
        simp only [Except.ok.injEq] at hx
        have hsim := ih a b path' a0 bv hinv hpb hy
        obtain ⟨hbv, hinv0⟩ := assignVars_inv hU hinv hpb hy
        have hinv1 : Inv t a1 := by
          rw [← hx]
          refine ⟨hinv0.vars, ?_, hinv0.outs, hinv0.ins⟩
          intro l hl
          rcases List.mem_append.1 hl with hl | hl
          · exact hinv0.links l hl
          · simp only [List.mem_singleton] at hl
            subst hl
            exact ⟨⟨c, hc⟩, ⟨b, by rw [hbv]; exact hpb⟩⟩
        have hstep : linkStepV t fF n (lastVar path') path' (a.ren lastVar) b = .ok (a1.ren lastVar) := by
          unfold linkStepV
          rw [hsim, ← hx]
          simp only [QAssign.ren, List.map_append, List.map_cons, List.map_nil]
        rw [hstep]
        exact ihb a1 a'' hinv1 (fun b' hb' => hbs b' (List.mem_cons_of_mem _ hb')) h

theorem assignVars_sim (ht : TreeShaped t) (hU : fU.unfoldTree = true) (hF : fF.unfoldTree = false) :
    ∀ n, SimAt t fU fF n := by
  intro n
  induction n with
  | zero =>
    intro a k path a' v _ _ h
    rw [assignVars] at h
    cases h
  | succ n ih =>
    intro a k path a' v hinv hp h
    have hvU : varOf fU path k = path ++ [k] := by simp [varOf, hU]
    have hvF : varOf fF path k = [k] := by simp [varOf, hF]
    have hlast : lastVar (path ++ [k]) = [k] := by simp [lastVar, lastStep]
    rw [assignVars_succV, hvU] at h
    rw [assignVars_succV, hvF]
    split at h
    · cases h
    · rename_i hc
      rw [if_neg hc]
      cases hx : (t.step k).from_.foldlM (linkStepV t fU n (path ++ [k]) (path ++ [k])) (visitV t a (path ++ [k]) k) with
      | error e => rw [hx] at h; cases h
      | ok a2 =>
        rw [hx] at h
        simp only [Except.ok.injEq, Prod.mk.injEq] at h
        obtain ⟨rfl, rfl⟩ := h
        have hinvV : Inv t (visitV t a (path ++ [k]) k) :=
          (visitV_ext t a (path ++ [k]) k hp.getLast hinv.shape).inv hinv
            (by rintro w j ⟨rfl, rfl⟩; exact hp) (by intro _ _ hf; cases hf)
        have := linkFold_sim (fF := fF) hU n ih (path ++ [k]) k hp _ _ _ hinvV (fun _ hb => hb) hx
        rw [← visitV_ren (lastVar_inj ht) t hinv.valid ⟨k, hp⟩, hlast] at this
        rw [this, hlast]

theorem assignAll_sim (ht : TreeShaped t) (hU : fU.unfoldTree = true) (hF : fF.unfoldTree = false) {a : QAssign}
    (h : assignAll t fU = .ok a) : assignAll t fF = .ok (a.ren lastVar) := by
  have key : ∀ (os : List Nat) (a0 a1 : QAssign), Inv t a0 → (∀ o ∈ os, o ∈ t.outputs) →
      os.foldlM (fun (a : QAssign) o =>
        match assignVars t fU (t.steps.length + 2) a o [] with
        | .error e => Except.error e
        | .ok (a', _) => .ok a') a0 = .ok a1 →
      os.foldlM (fun (a : QAssign) o =>
        match assignVars t fF (t.steps.length + 2) a o [] with
        | .error e => Except.error e
        | .ok (a', _) => .ok a') (a0.ren lastVar) = .ok (a1.ren lastVar) := by
    intro os
    induction os with
    | nil =>
      intro a0 a1 _ _ h
      simp only [List.foldlM_nil, pure, Except.pure, Except.ok.injEq] at h
      subst h
      rfl
    | cons o os ih =>
      intro a0 a1 hinv hos h
      simp only [List.foldlM_cons] at h ⊢
      have hpo : PathTo t ([] ++ [o]) o := .out (hos o List.mem_cons_self)
      cases hy : assignVars t fU (t.steps.length + 2) a0 o [] with
      | error e => rw [hy] at h; cases h
      | ok r =>
        obtain ⟨a', v⟩ := r
        rw [hy] at h
        have hsim := assignVars_sim ht hU hF _ a0 o [] a' v hinv hpo hy
        obtain ⟨_, hinv'⟩ := assignVars_inv hU hinv hpo hy
        rw [hsim]
        exact ih a' a1 hinv' (fun o' ho' => hos o' (List.mem_cons_of_mem _ ho')) h
  unfold assignAll at h ⊢
  exact key t.outputs {} a ⟨by simp, by simp, by simp, by simp⟩ (fun _ ho => ho) h

end

theorem genFrom_flag (G : GLang) (t : QTask) (f : QFlags) (b : Bool) (a : QAssign) :
    genFrom G t { f with unfoldTree := b } a = genFrom G t f a := rfl

/-- **for a tree-shaped task the plain query is the unfolded query with every path variable renamed to its last step** -/
theorem genQuery_tree_ren {G : GLang} {t : QTask} {f : QFlags} {qU : Query} (ht : TreeShaped t)
    (hqU : genQuery G t { f with unfoldTree := true } = .ok qU) :
    genQuery G t { f with unfoldTree := false } = .ok (qU.ren lastVar) := by
  obtain ⟨a, ha, hg⟩ := genQuery_ok hqU
  have hs := assignAll_sim (fF := { f with unfoldTree := false }) ht rfl rfl ha
  have hok := assignAll_okU t _ rfl a ha
  have hinv : ValidP (IsPath t) a :=
    ⟨fun x hx => ⟨x.2, (hok.vars x.1 x.2).1 hx⟩,
     fun l hl => by
       obtain ⟨p, c, b, hp, hb, rfl⟩ := (hok.links l).1 hl
       exact ⟨⟨c, hp⟩, ⟨b, .step hp hb⟩⟩,
     fun v hv => by
       obtain ⟨o, hp, _⟩ := (hok.outs v).1 hv
       exact ⟨o, hp⟩,
     fun v hv => by
       obtain ⟨o, hp, _⟩ := (hok.ins v).1 hv
       exact ⟨o, hp⟩⟩
  rw [genQuery_eq, hs]
  simp only
  rw [genFrom_flag, genFrom_ren (lastVar_inj ht) hinv, ← genFrom_flag G t f true, hg]
  rfl

end Tfv
