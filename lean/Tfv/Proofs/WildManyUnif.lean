import Tfv.Proofs.WildManyPairs
/-!
# `Unif`: the STABLE form of the local criterion (what a successful `unify … sb=true sw=false` establishes)

`PairsOK` is not kept by later bindings (a wildcard facing an unbound plain variable: both may be bound to applications with
distinct wildcards inside). `Unif σ n a b` is: walking `a`, `b` in lockstep, two variables facing each other are THE SAME
variable, a variable faces only `Top`/`Bot` (on the harmless side) or a basic type, and two applications are skipped by
`match3` (`Bot`/`Top`, arity 0, distinct operators) or unified argument-wise.
* `unif_refl`, `unif_pairsOK` (it implies `PairsOK`), `unif_stable` (kept in every later store: `Ext`, `Chains`).
-/
namespace Tfv.C03X
open Tfv Tfv.C03P Tfv.C03C Tfv.C03R Tfv.C16P Tfv.C17E

def Unif (L : Lang) (σ : Store) : Nat → Term → Term → Prop
  | 0, _, _ => True
  | n+1, a, b =>
    match followT σ a, followT σ b with
    | .var av, .var bv => av = bv
    | .app ao as, .app bo bs =>
      ao = BOT ∨ bo = TOP ∨ arityOf L ao = 0 ∨ ao ≠ bo ∨
        ∀ v s t, (v, s, t) ∈ (varianceOf L ao).zip (as.zip bs) →
          (v = true → Unif L σ n s t) ∧ (v = false → Unif L σ n t s)
    | .var _, .app bo _ => bo = TOP ∨ arityOf L bo = 0
    | .app ao _, .var _ => ao = BOT ∨ arityOf L ao = 0

theorem mem_zip_self {α : Type} : ∀ (l : List α) (s t : α), (s, t) ∈ l.zip l → s = t
  | [], _, _, h => by simp at h
  | x :: l, s, t, h => by
    simp only [List.zip_cons_cons, List.mem_cons, Prod.mk.injEq] at h
    rcases h with ⟨h1, h2⟩ | h
    · rw [h1, h2]
    · exact mem_zip_self l s t h

/-- the step of `Unif` when both sides follow to the same term -/
theorem unif_of_follow_eq (L : Lang) (σ : Store) (n : Nat) (ih : ∀ t, Unif L σ n t t) {a b : Term}
    (h : followT σ a = followT σ b) : Unif L σ (n+1) a b := by
  unfold Unif
  rw [h]
  cases followT σ b with
  | var v => rfl
  | app o args =>
    simp only []
    right; right; right; right
    intro v s t hm
    have := mem_zip_self args s t (List.of_mem_zip hm).2
    subst this
    exact ⟨fun _ => ih s, fun _ => ih s⟩

theorem unif_refl (L : Lang) (σ : Store) : ∀ (n : Nat) (t : Term), Unif L σ n t t
  | 0, _ => by unfold Unif; trivial
  | n+1, _ => unif_of_follow_eq L σ n (unif_refl L σ n) rfl

theorem unif_pairsOK (L : Lang) (σ : Store) : ∀ (n : Nat) (a b : Term), Unif L σ n a b → PairsOK L σ n a b
  | 0, _, _, _ => by unfold PairsOK; trivial
  | n+1, a, b, h => by
    unfold Unif at h
    unfold PairsOK
    cases ea : followT σ a with
    | var av =>
      cases eb : followT σ b with
      | var bv =>
        rw [ea, eb] at h
        intro _ _; exact h
      | app bo bs => trivial
    | app ao as =>
      cases eb : followT σ b with
      | var bv => trivial
      | app bo bs =>
        rw [ea, eb] at h
        simp only [] at h ⊢
        intro eo e1 e2 e3 v s t hm
        rcases h with h | h | h | h | h
        · exact absurd h e2
        · exact absurd h e3
        · exact absurd h e1
        · exact absurd eo h
        · exact ⟨fun hv => unif_pairsOK L σ n s t ((h v s t hm).1 hv), fun hv => unif_pairsOK L σ n t s ((h v s t hm).2 hv)⟩

/-- `Unif` is kept by every later store -/
theorem unif_stable (L : Lang) {σ σ' : Store} (e : Ext σ σ') (hc' : Chains σ') :
    ∀ (n : Nat) (a b : Term), Unif L σ n a b → Unif L σ' n a b
  | 0, _, _, _ => by unfold Unif; trivial
  | n+1, a, b, h => by
    unfold Unif at h
    cases ea : followT σ a with
    | var av =>
      cases eb : followT σ b with
      | var bv =>
        rw [ea, eb] at h
        simp only [] at h
        apply unif_of_follow_eq L σ' n (unif_refl L σ' n)
        rw [e.followT_comp hc' a, e.followT_comp hc' b, ea, eb, h]
      | app bo bs =>
        rw [ea, eb] at h
        simp only [] at h
        unfold Unif
        rw [e.followT_comp hc' b, eb, followT_app]
        cases ea' : followT σ' a with
        | var av' => exact h
        | app ao' as' =>
          simp only []
          rcases h with h | h
          · exact Or.inr (Or.inl h)
          · by_cases hh : ao' = bo
            · exact Or.inr (Or.inr (Or.inl (by rw [hh]; exact h)))
            · exact Or.inr (Or.inr (Or.inr (Or.inl hh)))
    | app ao as =>
      cases eb : followT σ b with
      | var bv =>
        rw [ea, eb] at h
        simp only [] at h
        unfold Unif
        rw [e.followT_comp hc' a, ea, followT_app]
        cases eb' : followT σ' b with
        | var bv' => exact h
        | app bo' bs' =>
          simp only []
          rcases h with h | h
          · exact Or.inl h
          · exact Or.inr (Or.inr (Or.inl h))
      | app bo bs =>
        rw [ea, eb] at h
        simp only [] at h
        unfold Unif
        rw [e.followT_comp hc' a, e.followT_comp hc' b, ea, eb, followT_app, followT_app]
        simp only []
        rcases h with h | h | h | h | h
        · exact Or.inl h
        · exact Or.inr (Or.inl h)
        · exact Or.inr (Or.inr (Or.inl h))
        · exact Or.inr (Or.inr (Or.inr (Or.inl h)))
        · refine Or.inr (Or.inr (Or.inr (Or.inr ?_)))
          intro v s t hm
          exact ⟨fun hv => unif_stable L e hc' n s t ((h v s t hm).1 hv),
                 fun hv => unif_stable L e hc' n t s ((h v s t hm).2 hv)⟩

end Tfv.C03X
