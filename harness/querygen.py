"""Tasks as data, their rendering as task graphs (URIs, nested lists, string shortcuts), parsing the generated SPARQL
back into clauses, and a small plain basic-graph-pattern matcher (no sub-selects, no engine)."""
from __future__ import annotations
import re
import langgen as G

TFNS = "https://github.com/quangis/transforge#"


# -- tasks ---------------------------------------------------------------------------------------
# task = {"steps": {id: {"types": [type data], "ops": [operator names], "from": [ids]}}, "outputs": [ids], "inputs": [ids]}

def task_graph(task, lang, ops, operators, style="uri", rng=None, with_nodes=False):
    """rdflib graph of a task in the transforge vocabulary; style 'uri' or 'shortcut' (lang:type "F(A, _)" / lang:via "f")"""
    from rdflib import Graph, BNode, RDF, Literal
    from transforge.namespace import TF
    g = Graph()
    root = BNode()
    g.add((root, RDF.type, TF.Task))
    nodes = {k: BNode() for k in task["steps"]}
    ns = lang.namespace
    for k, st in task["steps"].items():
        n = nodes[k]
        for t in st["types"]:
            if style == "shortcut":
                g.add((n, ns["type"], Literal(type_text(t, lang))))
            else:
                g.add((n, TF.type, lang.uri(ty_py_w(t, ops))))
        for o in st["ops"]:
            if style == "shortcut":
                g.add((n, ns["via"], Literal(o)))
            else:
                g.add((n, TF.via, lang.uri(operators[o])))
        for b in st["from"]:
            g.add((n, TF["from"], nodes[b]))
    for o in task["outputs"]:
        g.add((root, TF.output, nodes[o]))
    for i in task.get("inputs", []):
        g.add((root, TF.input, nodes[i]))
    if with_nodes:
        return g, root, nodes
    return g, root


def ty_py_w(t, ops):
    """type data with wildcards ('w',) -> transforge type"""
    from transforge import type as T
    if t[0] == 'w':
        return T._
    return ops[t[0]](*(ty_py_w(a, ops) for a in t[1]))


def type_text(t, lang):
    if t[0] == 'w':
        return "_"
    names = {0: "Unit", 1: "Top", 2: "Bottom"}
    return _tt(t, lang)


def _tt(t, lang):
    if t[0] == 'w':
        return "_"
    name = LANGSPEC.name(t[0])
    if not t[1]:
        return name
    return name + "(" + ", ".join(_tt(a, lang) for a in t[1]) + ")"


LANGSPEC = None


def generalize_w(t):
    """wildcards stand for Top"""
    if t[0] == 'w':
        return (G.TOP, ())
    return (t[0], tuple(generalize_w(a) for a in t[1]))


def task_list(task, ops, operators):
    """nested-list form for TransformationQuery.from_list (tree-shaped tasks with one output)"""
    def aspects(k):
        st = task["steps"][k]
        out = [ty_py_w(t, ops) for t in st["types"]] + [operators[o] for o in st["ops"]]
        for b in st["from"]:
            out.append(aspects(b))
        return out
    return aspects(task["outputs"][0])


def is_tree(task):
    seen = set()

    def go(k):
        if k in seen:
            return False
        seen.add(k)
        return all(go(b) for b in task["steps"][k]["from"])
    return len(task["outputs"]) == 1 and go(task["outputs"][0])


# -- SPARQL text -> clauses --------------------------------------------------------------------------

def parse_sparql(text, base):
    """the line-regular output of TransformationQuery.sparql() -> {"prefilter": [...], "body": [...]};
    a clause is ("t", s, path, o) or ("union", [clauses])"""
    lines = [l.strip() for l in text.split("\n") if l.strip()]
    pre, body = [], []
    mode = None
    i = 0

    def term(x):
        x = x.rstrip(".")
        if x.startswith("<") and x.endswith(">"):
            u = x[1:-1]
            return ("u", u)
        if x.startswith("?"):
            return ("v", x[1:])
        return ("u", x)

    def triple(l):
        m = re.match(r"^(\S+) (\S+) (\S+?)\.?$", l)
        s, p, o = m.groups()
        return ("t", term(s), p, term(o))

    def statement(l):
        if l.startswith("{") and l.endswith("}"):
            parts = l[1:-1].split(" } UNION { ")
            return ("union", [triple(p.strip()) for p in parts])
        return triple(l)
    cur = None
    union = None
    for l in lines:
        if l.startswith(("BASE", "PREFIX", "SELECT ?workflow WHERE", "GRAPH")):
            continue
        if l.startswith("{SELECT DISTINCT ?workflow WHERE"):
            cur = pre
            continue
        if l.startswith("} GROUP BY ?workflow}"):
            cur = body
            continue
        if l in ("}", "} GROUP BY ?workflow"):
            if union is not None:
                cur.append(("union", union))
                union = None
            continue
        if l == "{":
            union = []
            continue
        if l == "} UNION {":
            continue
        if l == "?workflow a :Transformation.":
            continue
        st = statement(l)
        if union is not None:
            union.append(st)
        else:
            cur.append(st)
    return {"prefilter": pre, "body": body}


def clause_key(c):
    if c[0] == "union":
        return ("union", tuple(sorted(clause_key(x) for x in c[1])))
    return c


def clauses_text(q):
    """canonical text of a clause set (sorted; identical to the Lean driver's rendering)"""
    def t(x):
        return ("?" + x[1]) if x[0] == "v" else "<" + x[1] + ">"
    # unions: members sorted, duplicates removed

    def one(c):
        if c[0] == "union":
            return "{" + " | ".join(sorted(one(x) for x in c[1])) + "}"
        return f"({t(c[1])} {c[2]} {t(c[3])})"
    return "pre[" + " ".join(sorted(one(c) for c in q["prefilter"])) + "] body[" + " ".join(sorted(one(c) for c in q["body"])) + "]"


# -- plain matcher ---------------------------------------------------------------------------------

class Triples:
    """a workflow graph as plain triples over strings"""
    def __init__(self, g, wf):
        self.wf = str(wf)
        self.by_p = {}
        for s, p, o in g:
            self.by_p.setdefault(str(p), set()).add((str(s), str(o)))

    def pairs(self, path):
        """pairs related by a property path of the forms the generator emits"""
        tf = lambda n: TFNS + n
        if path == ":output/:from?":
            out = self.by_p.get(tf("output"), set())
            frm = self.by_p.get(tf("from"), set())
            return out | {(s, o2) for (s, o) in out for (o1, o2) in frm if o1 == o}
        if path == ":input/^:from?":
            inp = self.by_p.get(tf("input"), set())
            frm = self.by_p.get(tf("from"), set())
            return inp | {(s, a) for (s, o) in inp for (a, b) in frm if b == o}
        if path.endswith("?"):
            base = self.pairs(path[:-1])
            return ("refl", base)
        if path == "a":
            return self.by_p.get("http://www.w3.org/1999/02/22-rdf-syntax-ns#type", set())
        if path.startswith(":"):
            return self.by_p.get(tf(path[1:]), set())
        return self.by_p.get(path, set())


def match_clauses(tr: Triples, clauses, base, nodes):
    """does an assignment of the variables satisfy all clauses? (backtracking join; `nodes` = candidate values)"""
    def resolve(x, env):
        if x[0] == "v":
            if x[1] == "workflow":
                return tr.wf
            return env.get(x[1])
        u = x[1]
        return u if "://" in u else base + u

    order = sorted(clauses, key=lambda c: 0 if c[0] == "t" else 1)

    def sat(c, env):
        """generator of extended environments"""
        if c[0] == "union":
            for alt in c[1]:
                yield from sat(alt, env)
            return
        _, s, path, o = c
        rel = tr.pairs(path)
        refl = False
        if isinstance(rel, tuple):
            refl, rel = True, rel[1]
        sv, ov = resolve(s, env), resolve(o, env)
        cands_s = [sv] if sv is not None else nodes
        for a in cands_s:
            cands_o = [ov] if ov is not None else nodes
            for b in cands_o:
                if (a, b) in rel or (refl and a == b):
                    e2 = dict(env)
                    if sv is None:
                        e2[s[1]] = a
                    if ov is None:
                        e2[o[1]] = b
                    yield e2

    def go(i, env):
        if i == len(order):
            return True
        for e2 in sat(order[i], env):
            if go(i + 1, e2):
                return True
        return False
    return go(0, {})
