import Tfv.Proofs.InferMain
import Tfv.Spec.SatPlain
import Tfv.Proofs.InferCheck
/-!
# Plain unification (`subtype=False`) is sound on the bound-free, `Bottom`/`Top`-free fragment

Outside this fragment it is not (`Tfv/Proofs/Counter.lean`).
-/
namespace Tfv.C03P

theorem noBT_app {o : Nat} {args : List Term} :
    noBT (.app o args) = true ↔ (o ≠ BOT ∧ o ≠ TOP ∧ noBTL args = true) := by
  rw [noBT]; simp [and_assoc]

theorem noBTL_cons {t : Term} {ts : List Term} :
    noBTL (t :: ts) = true ↔ (noBT t = true ∧ noBTL ts = true) := by
  rw [noBTL, Bool.and_eq_true]

theorem noBT_follow {σ : Store} (P : PlainStore σ) : ∀ (n : Nat) (t : Term), noBT t = true →
    noBT (follow σ n t) = true
  | 0, t, ht => by unfold follow; exact ht
  | n+1, .app o args, ht => by unfold follow; exact ht
  | n+1, .var v, ht => by
    unfold follow
    cases hb : (getVar σ v).bound with
    | none => exact ht
    | some t => exact noBT_follow P n t (P.noBT v t hb)

theorem Upd.plain {σ σ' : Store} {v : Nat} {t : Term} (P : PlainStore σ)
    (U : Upd σ σ' v (some t) (getVar σ v).lower (getVar σ v).upper) (ht : noBT t = true) :
    PlainStore σ' where
  lower := fun w => by
    by_cases e : w = v
    · subst e; rw [U.l_eq]; exact P.lower w
    · rw [(U.ne w e).2.1]; exact P.lower w
  upper := fun w => by
    by_cases e : w = v
    · subst e; rw [U.u_eq]; exact P.upper w
    · rw [(U.ne w e).2.2]; exact P.upper w
  noBT := fun w t' hw => by
    by_cases e : w = v
    · subst e; rw [U.b_eq] at hw; injection hw with hw; subst hw; exact ht
    · rw [(U.ne w e).1] at hw; exact P.noBT w t' hw

theorem SameCore.plain {σ σ' : Store} (c : SameCore σ σ') (P : PlainStore σ) : PlainStore σ' :=
  ⟨fun w => (c.lower w).trans (P.lower w), fun w => (c.upper w).trans (P.upper w),
   fun w t hw => P.noBT w t ((c.bound w).symm.trans hw)⟩

/-- without bounds `bind` just records the binding -/
theorem bind_plain {L : Lang} {σ σ' : Store} {v : Nat} {t : Term} (P : PlainStore σ)
    (nc : NoConstraints σ) (hv : v < σ.vars.length) (ht : noBT t = true) :
    ∀ n, bind L n σ v t = .ok σ' → PlainStore σ'
  | 0, h => by unfold bind at h; cases h
  | n+1, h => by
    cases t with
    | var tv =>
      rw [bind_var_eq] at h
      split at h
      · cases h
      · split at h
        · injection h with h; subst h
          exact (sameCore_clearW σ v).plain P
        · rw [P.lower v, P.upper v] at h
          simp only [] at h
          have e := checkConstraints_nc (nc_bindVarStore nc v tv) _ h
          subst e
          exact (upd_bindVarStore hv tv).plain P ht
    | app o args =>
      rw [bind_app_eq] at h
      split at h
      · cases h
      · split at h
        · split at h
          · cases h
          · split at h
            · cases h
            · have e := checkConstraints_nc (nc_bindBaseStore nc v _) _ h
              subst e
              exact (upd_bindBaseStore hv _).plain P ht
        · split at h
          · cases h
          · have e := checkConstraints_nc (nc_bindAppStore nc v _) _ h
            subst e
            exact (upd_bindAppStore hv _).plain P ht

theorem bindPre_plain {L : Lang} {σ : Store} (P : PlainStore σ) (v : Nat) (t : Term) : BindPre L σ v t := by
  intro o args _ _
  refine ⟨fun l hl => ?_, fun u hu => ?_⟩
  · rw [P.lower v] at hl; cases hl
  · rw [P.upper v] at hu; cases hu

def UnifyEqS (L : Lang) (n : Nat) : Prop :=
  ∀ σ a b σ', OkStore L σ → NoConstraints σ → PlainStore σ → okTerm L σ a = true → okTerm L σ b = true →
    noBT a = true → noBT b = true → unify L n σ a b false false false = .ok σ' →
    Step L σ σ' ∧ PlainStore σ' ∧ ∀ ρ, Sat L ρ σ' → den ρ a = den ρ b

def UnifyListEqS (L : Lang) (n : Nat) : Prop :=
  ∀ σ vs xs ys σ', OkStore L σ → NoConstraints σ → PlainStore σ → okTermL L σ xs = true →
    okTermL L σ ys = true → noBTL xs = true → noBTL ys = true →
    xs.length = vs.length → ys.length = vs.length →
    unifyList L n σ vs xs ys false false false = .ok σ' →
    Step L σ σ' ∧ PlainStore σ' ∧ ∀ ρ, Sat L ρ σ' → denL ρ xs = denL ρ ys

theorem unifyEq_step {L : Lang} (wf : WF L) {n : Nat} (hlist : UnifyListEqS L n) : UnifyEqS L (n+1) := by
  intro σ a b σ' ok nc P ha hb hna hnb h
  have hbind := (all_sound wf n).2.2.1
  have ha' := okTerm_followT ok a ha
  have hb' := okTerm_followT ok b hb
  have hna' : noBT (followT σ a) = true := noBT_follow P _ a hna
  have hnb' : noBT (followT σ b) = true := noBT_follow P _ b hnb
  suffices hh : Step L σ σ' ∧ PlainStore σ' ∧
      ∀ ρ, Sat L ρ σ' → den ρ (followT σ a) = den ρ (followT σ b) by
    refine ⟨hh.1, hh.2.1, fun ρ hρ => ?_⟩
    have := hh.2.2 ρ hρ
    rw [den_followT (hh.1.sat ρ hρ), den_followT (hh.1.sat ρ hρ)] at this
    exact this
  unfold unify at h
  split at h
  · next av bv e1 e2 =>
    simp only [Bool.not_false, Bool.true_or, if_true] at h
    rw [e1] at ha' hna'; rw [e2] at hb' hnb'
    rw [e1, e2]
    obtain ⟨s, hs⟩ := hbind σ av _ σ' ok nc (okTerm_var.mp ha') hb' (bindPre_var L σ av bv) h
    exact ⟨s, bind_plain P nc (okTerm_var.mp ha') hnb' n h, fun ρ hρ => by rw [den_var]; exact hs ρ hρ⟩
  · next ao as bo bs e1 e2 =>
    simp only [Bool.false_and, Bool.false_eq_true, if_false, Bool.not_false, Bool.true_and] at h
    rw [e1] at ha' hna'; rw [e2] at hb' hnb'
    rw [e1, e2]
    obtain ⟨hao, hasl, has⟩ := okTerm_app.mp ha'
    obtain ⟨hbo, hbsl, hbs⟩ := okTerm_app.mp hb'
    obtain ⟨na1, _, nas⟩ := noBT_app.mp hna'
    obtain ⟨_, nb2, nbs⟩ := noBT_app.mp hnb'
    split at h
    · next hbt =>
      simp only [Bool.or_eq_true, beq_iff_eq] at hbt
      rcases hbt with e | e
      · exact absurd e na1
      · exact absurd e nb2
    · split at h
      · next h0 =>
        have h0 : arityOf L ao = 0 := by simpa using h0
        split at h
        · cases h
        · next hne =>
          have heq : ao = bo := by simpa using hne
          subst heq
          injection h with h; subst h
          refine ⟨Step.refl ok nc, P, fun ρ _ => ?_⟩
          rw [h0] at hasl hbsl
          rw [List.eq_nil_of_length_eq_zero hasl, List.eq_nil_of_length_eq_zero hbsl]
      · split at h
        · next heq =>
          have heq : ao = bo := by simpa using heq
          subst heq
          obtain ⟨s, P', hs⟩ := hlist σ _ as bs σ' ok nc P has hbs nas nbs hasl hbsl h
          refine ⟨s, P', fun ρ hρ => ?_⟩
          rw [den_app, den_app, hs ρ hρ]
        · cases h
  · next av bo bs e1 e2 =>
    simp only [Bool.false_or, Bool.false_and, Bool.false_eq_true, if_false, ite_self] at h
    rw [e1] at ha' hna'; rw [e2] at hb' hnb'
    rw [e1, e2]
    have hav := okTerm_var.mp ha'
    obtain ⟨_, nb2, _⟩ := noBT_app.mp hnb'
    split at h
    · next htop => exact absurd (by simpa using htop) nb2
    · split at h
      · cases h
      · obtain ⟨s, hs⟩ := hbind σ av _ σ' ok nc hav hb' (bindPre_plain P av _) h
        exact ⟨s, bind_plain P nc hav hnb' n h, fun ρ hρ => by rw [den_var]; exact hs ρ hρ⟩
  · next ao as bv e1 e2 =>
    simp only [Bool.false_or, Bool.false_and, Bool.false_eq_true, if_false, ite_self] at h
    rw [e1] at ha' hna'; rw [e2] at hb' hnb'
    rw [e1, e2]
    have hbv := okTerm_var.mp hb'
    obtain ⟨na1, _, _⟩ := noBT_app.mp hna'
    split at h
    · next hbot => exact absurd (by simpa using hbot) na1
    · split at h
      · cases h
      · obtain ⟨s, hs⟩ := hbind σ bv _ σ' ok nc hbv ha' (bindPre_plain P bv _) h
        exact ⟨s, bind_plain P nc hbv hna' n h, fun ρ hρ => by rw [den_var]; exact (hs ρ hρ).symm⟩

theorem unifyListEq_step {L : Lang} {n : Nat} (hunify : UnifyEqS L n) (hlist : UnifyListEqS L n) :
    UnifyListEqS L (n+1) := by
  intro σ vs xs ys σ' ok nc P hxs hys nxs nys hlx hly h
  match vs, xs, ys, hlx, hly with
  | [], [], [], _, _ =>
    rw [unifyList_nil] at h
    injection h with h; subst h
    exact ⟨Step.refl ok nc, P, fun ρ _ => rfl⟩
  | [], _ :: _, _, hlx, _ => simp at hlx
  | [], [], _ :: _, _, hly => simp at hly
  | _ :: _, [], _, hlx, _ => simp at hlx
  | _ :: _, _ :: _, [], _, hly => simp at hly
  | v :: vs, x :: xs, y :: ys, hlx, hly =>
    rw [unifyList_cons] at h
    obtain ⟨hx, hxs'⟩ := okTermL_cons.mp hxs
    obtain ⟨hy, hys'⟩ := okTermL_cons.mp hys
    obtain ⟨nx, nxs'⟩ := noBTL_cons.mp nxs
    obtain ⟨ny, nys'⟩ := noBTL_cons.mp nys
    split at h
    · cases h
    · next σ1 h1 =>
      have k1 : Step L σ σ1 ∧ PlainStore σ1 ∧ ∀ ρ, Sat L ρ σ1 → den ρ x = den ρ y := by
        cases v with
        | true => exact hunify σ x y σ1 ok nc P hx hy nx ny (by simpa using h1)
        | false =>
          obtain ⟨s, P', hs⟩ := hunify σ y x σ1 ok nc P hy hx ny nx (by simpa using h1)
          exact ⟨s, P', fun ρ hρ => (hs ρ hρ).symm⟩
      obtain ⟨s1, P1, hs1⟩ := k1
      obtain ⟨s2, P2, hs2⟩ := hlist σ1 vs xs ys σ' s1.ok s1.nc P1 (s1.okTermL hxs') (s1.okTermL hys')
        nxs' nys' (by simpa using hlx) (by simpa using hly) h
      refine ⟨s1.trans s2, P2, fun ρ hρ => ?_⟩
      rw [denL_cons, denL_cons, hs1 ρ (s2.sat ρ hρ), hs2 ρ hρ]

theorem plain_sound {L : Lang} (wf : WF L) : ∀ n, UnifyEqS L n ∧ UnifyListEqS L n
  | 0 => by
    refine ⟨?_, ?_⟩
    · intro σ a b σ' _ _ _ _ _ _ _ h; unfold unify at h; cases h
    · intro σ vs xs ys σ' _ _ _ _ _ _ _ _ _ h; unfold unifyList at h; cases h
  | n+1 => by
    obtain ⟨h1, h2⟩ := plain_sound wf n
    exact ⟨unifyEq_step wf h2, unifyListEq_step h1 h2⟩

theorem unify_plain_sound_partial {L : Lang} (wf : WF L) {n : Nat} {σ σ' : Store} {a b : Term}
    (ok : OkStore L σ) (nc : NoConstraints σ) (P : PlainStore σ)
    (ha : okTerm L σ a = true) (hb : okTerm L σ b = true) (hna : noBT a = true) (hnb : noBT b = true)
    (h : unify L n σ a b false false false = .ok σ') :
    OkStore L σ' ∧ NoConstraints σ' ∧ PlainStore σ' ∧ σ.vars.length ≤ σ'.vars.length ∧
    ∀ ρ, Sat L ρ σ' → Sat L ρ σ ∧ den ρ a = den ρ b := by
  obtain ⟨s, P', hs⟩ := (plain_sound wf n).1 σ a b σ' ok nc P ha hb hna hnb h
  exact ⟨s.ok, s.nc, P', s.len, fun ρ hρ => ⟨s.sat ρ hρ, hs ρ hρ⟩⟩

/-- executable form of `PlainStore` -/
def plainStoreB (σ : Store) : Bool :=
  σ.vars.all (fun i => i.lower.isNone && i.upper.isNone && i.bound.all noBT)

theorem plainStoreB_sound {σ : Store} (h : plainStoreB σ = true) : PlainStore σ := by
  have key : ∀ v, ((getVar σ v).lower.isNone && (getVar σ v).upper.isNone &&
      (getVar σ v).bound.all noBT) = true := by
    intro v
    rcases getVar_mem_or_default σ v with ⟨_, hm⟩ | ⟨_, hd⟩
    · unfold plainStoreB at h
      exact List.all_eq_true.mp h _ hm
    · rw [hd]; rfl
  refine ⟨fun v => ?_, fun v => ?_, fun v t hb => ?_⟩
  · have := key v
    simp only [Bool.and_eq_true, Option.isNone_iff_eq_none] at this
    exact this.1.1
  · have := key v
    simp only [Bool.and_eq_true, Option.isNone_iff_eq_none] at this
    exact this.1.2
  · have := key v
    rw [hb] at this
    simp only [Bool.and_eq_true, Option.all_some] at this
    exact this.2

/-- two fresh variables -/
def σP : Store := { vars := [{}, { cset := 1 }], csets := [[], []] }
def σP' : Store := { vars := [{ bound := some (.var 1), cset := 1 }, { cset := 1 }], csets := [[], []] }

end Tfv.C03P
