import Tfv.Proofs.InferNoInternalTop
import Tfv.Proofs.InferNoInternalFuel
import Tfv.Proofs.InferConstrExamples2
import Tfv.Proofs.HistoryEngine
/-!
# Concrete runs for C17 (engine part): the invariant is needed

On a store whose variable bindings form a cycle (`x0 := x1`, `x1 := x0`) `followT` returns a bound
variable and the assertions of the engine fire. Such a store satisfies `OkStoreC` but not `FuelOk`.
-/
namespace Tfv.C17E
open Tfv Tfv.C03P Tfv.C03C

/-- two variables bound to each other -/
def σcyc : Store :=
  { vars := [{ bound := some (.var 1) }, { bound := some (.var 0), cset := 1 }], csets := [[], []], constrs := [] }

/-- the same with a pending elimination constraint on `x0` -/
def σcycE : Store :=
  { vars := [{ bound := some (.var 1) }, { bound := some (.var 0), cset := 1 }], csets := [[0], [0]],
    constrs := [.elim (.var 0) [.app 5 []] false] }

theorem σcyc_f0 : followT σcyc (.var 0) = .var 1 := by with_unfolding_all rfl
theorem σcyc_f1 : followT σcyc (.var 1) = .var 0 := by with_unfolding_all rfl

theorem σcyc_okc : OkStoreC exL σcyc := okStoreCB_sound (by decide)
theorem σcycE_okc : OkStoreC exL σcycE := okStoreCB_sound (by decide)

theorem σcyc_not_fuelOk : ¬ FuelOk σcyc := fun h => by
  have h0 : Final σcyc (followT σcyc (.var 0)) := h (.var 0)
  rw [σcyc_f0] at h0
  cases h0

/-- `bind`'s assertion fires through `unify` on the cyclic store -/
theorem σcyc_bind : unify exL 2 σcyc (.var 0) (.var 1) true false false
    = .error (.internal "bind:variable cannot be unified twice") := by with_unfolding_all rfl

theorem σcyc_occurs : occurs exL σcyc (termFuel σcyc) (.app 5 []) (.var 1) = false := by
  rw [show termFuel σcyc = 65 + 1 from rfl, occurs, followT_app, σcyc_f1]
  simp only []
  have := C16P.match3_app_var (L := exL) (σ := σcyc) (matchFuel σcyc) (a := .app 5 []) (b := .var 0)
    (followT_app _ _ _) σcyc_f0
  cases h : match3 exL σcyc (matchFuel σcyc) false false (.app 5 []) (.var 0) with
  | none => rfl
  | some b =>
    cases b with
    | true => exact absurd h this
    | false => rfl

/-- `above`'s assertion fires through `unify` (`A ≤ x0`) on the cyclic store -/
theorem σcyc_above : unify exL 2 σcyc (.app 5 []) (.var 0) true false false
    = .error (.internal "above:assert not self.bound") := by
  rw [unify, followT_app, σcyc_f0]
  simp only []
  rw [if_neg (by decide), σcyc_occurs, if_neg (by decide), if_pos (by decide), if_neg (by decide), if_pos trivial]
  with_unfolding_all rfl

theorem σcyc_occurs' : occurs exL σcyc (termFuel σcyc) (.app 5 []) (.var 0) = false := by
  rw [show termFuel σcyc = 65 + 1 from rfl, occurs, followT_app, σcyc_f0]
  simp only []
  have := C16P.match3_app_var (L := exL) (σ := σcyc) (matchFuel σcyc) (a := .app 5 []) (b := .var 1)
    (followT_app _ _ _) σcyc_f1
  cases h : match3 exL σcyc (matchFuel σcyc) false false (.app 5 []) (.var 1) with
  | none => rfl
  | some b =>
    cases b with
    | true => exact absurd h this
    | false => rfl

/-- `below`'s assertion fires through `unify` (`x1 ≤ A`) on the cyclic store -/
theorem σcyc_below : unify exL 2 σcyc (.var 1) (.app 5 []) true false false
    = .error (.internal "below:assert not self.bound") := by
  rw [unify, followT_app, σcyc_f1]
  simp only []
  rw [if_neg (by decide), σcyc_occurs', if_neg (by decide), if_pos (by decide), if_neg (by decide), if_pos trivial]
  with_unfolding_all rfl

/-- `fulfill`'s assertion fires on the cyclic store: `minimize` cannot normalize the reference -/
theorem σcycE_fulfill : fulfill exL 5 σcycE 0 = .error (.internal "fulfill:assert normalized") := by
  with_unfolding_all rfl

/-- `inform()`'s assertion fires on the cyclic store -/
theorem σcyc_inform : addConstraint exL 5 σcyc (.sub (.var 0) (.app 5 []) false false)
    = .error (.internal "inform:assert not v.bound") := by with_unfolding_all rfl

end Tfv.C17E
