import Tfv.Proofs.SchedDisjointInst
import Tfv.Proofs.FrameConstrReach
/-!
# C18 — constraints over disjoint variables, part 6: the one-constraint fragment in terms of reachability

On a store satisfying `OkStoreC` the region reachable from the arguments of an engine call (through bindings and
through the constraints attached to reachable variables) is closed. If ONE constraint at most is reachable, every
schedule that leaves constant lists alone gives the model's result, whatever other constraints the store carries.
-/
namespace Tfv.C18D
open Tfv Tfv.C03P Tfv.C16P Tfv.C03C Tfv.C18P Tfv.C16C Tfv.C18S

theorem onlyC_roots {σ : Store} {roots : Term → Prop} {c0 : Nat} (hk : KAlloc σ)
    (h : ∀ t c, roots t → ReachConstr σ t c → c = c0) : OnlyC c0 (rootsRegion σ roots) σ := by
  refine ⟨fun k hK x hx => ?_, hk⟩
  rcases hK with ⟨t, ht, hr⟩ | hK
  · exact h t x ht ⟨k, hr, hx⟩
  · rw [getCset_oor hK] at hx; cases hx

variable {L : Lang} {ord : List Nat → List Nat}

theorem unifyS_one (hord : OrdConst ord) {σ : Store} (okc : OkStoreC L σ) (hk : KAlloc σ) {a b : Term}
    (ha : okTerm L σ a = true) (hb : okTerm L σ b = true) {c0 : Nat}
    (h : ∀ c, ReachConstr σ a c ∨ ReachConstr σ b c → c = c0) (n : Nat) (st sb sw : Bool) :
    unifyS L ord n σ a b st sb sw = unify L n σ a b st sb sw :=
  ((blockOne hord c0 n).unify (rootsRegion σ (fun t => t = a ∨ t = b)) σ a b st sb sw (closedC_roots okc _)
    (onlyC_roots hk (by
      rintro t c (rfl | rfl) hr
      · exact h c (Or.inl hr)
      · exact h c (Or.inr hr)))
    (termInR_root (Or.inl rfl) ha) (termInR_root (Or.inr rfl) hb)).1

theorem fixS_one (hord : OrdConst ord) {σ : Store} (okc : OkStoreC L σ) (hk : KAlloc σ) {t : Term}
    (ht : okTerm L σ t = true) {c0 : Nat} (h : ∀ c, ReachConstr σ t c → c = c0) (n : Nat) (pl : Bool) :
    fixS L ord n σ t pl = fix L n σ t pl :=
  ((blockOne hord c0 n).fix (rootsRegion σ (fun u => u = t)) σ t pl (closedC_roots okc _)
    (onlyC_roots hk (by rintro u c rfl hr; exact h c hr)) (termInR_root rfl ht)).1

theorem checkConstraintsS_one (hord : OrdConst ord) {σ : Store} (okc : OkStoreC L σ) (hk : KAlloc σ) {v : Nat}
    (hv : v < σ.vars.length) {c0 : Nat} (h : ∀ c, ReachConstr σ (.var v) c → c = c0) (n : Nat) :
    checkConstraintsS L ord n σ v = checkConstraints L n σ v :=
  ((blockOne hord c0 n).check (rootsRegion σ (fun u => u = .var v)) σ v (closedC_roots okc _)
    (onlyC_roots hk (by rintro u c rfl hr; exact h c hr))
    ⟨Or.inl ⟨_, rfl, ReachC.here VarIn.var⟩, hv⟩).1

end Tfv.C18D
