import Tfv.Model.Vocab
import Tfv.Proofs.VocabReach
import Tfv.Proofs.VocabSpec
import Tfv.Proofs.VocabMain
import Tfv.Proofs.VocabEdges
import Tfv.Proofs.VocabTypes
import Tfv.Proofs.VocabPerm
import Tfv.Proofs.VocabOps
import Tfv.Proofs.VocabCheck
import Tfv.Proofs.VocabBlank
import Tfv.Proofs.VocabIso
import Tfv.Proofs.VocabTotal
import Tfv.Proofs.VocabExamples
/-!
# C10, vocabulary part — the triples of `add_vocabulary` / `add_taxonomy`

Model: `Tfv/Model/Vocab.lean` (new; mirrors graph.py:107-172). Statements only; proofs are one-liners calling lemmas of
`Tfv/Proofs/Vocab*.lean`. All theorems are about a successful run
`addTaxonomyOn G c closure order {} = .ok g` on the empty graph, where `order` is any list that covers the canon
(Python iterates a set); `closure` is `with_transitive_closure`.

Vocabulary (`Tfv/Proofs/VocabSpec.lean`, `VocabMain.lean`, `VocabEdges.lean`, `VocabTypes.lean`, `VocabPerm.lean`):
* `g.L x` : the node registered for the type term `x` (`type_nodes`);
* `GLink G up t s` : `s ∈ langSucc … up t (transitive := false)` with the fuel the graph code uses;
* `LinkTr G tr` : `tr = (uri t, rdfs:subClassOf, uri u)` for a canonical `t` and a reported direct supertype `u` of `t`,
  or for a canonical `u` and a reported direct subtype `t` of `u`; `LinkEdge G s o` : the same on the two nodes;
* `TyDesc G c m x n tr` : `tr` is a triple `add_type` writes for `x` at node `n`: `(n, rdf:type, tf:Type)` if `with_classes`;
  for an operator of arity `> 0` and `with_type_parameters`: `(n, rdfs:subClassOf, uri op)` and `(n, rdf:_i, m(p_i))`;
  `Described G c g tr` : for some registered `x`; `OpEdge G c g s o` : the `rdfs:subClassOf` case;
* `DirectTr` = `Described ∨ LinkTr`; `DirectEdge G c g s o` = `DirectTr (s, rdfs:subClassOf, o)`;
* `NReach R` : reflexive-transitive closure on nodes; `ClTr G E canon tr` : `tr = (s, rdfs:subClassOf, uri t)` for a canonical
  `t` and a node `s` with `NReach E s (uri t)`;
* `PReach`/`FromCanon G c x` : `x` is reached from a canonical type by the descent of `add_type` into parameters;
* `NodeOk G c x n` : `n` is the URI of `x`, or `x` has no URI, `with_noncanonical_types` is on and `n` is a blank node;
* `UriInj G`, `OpSep G` : URIs tell canonical types apart / no canonical type has the URI of an operator of arity `> 0`
  (Boolean checks `uriInjB`, `opSepB`); `DLink G t u` : `t`, `u` canonical and directly linked (either report);
* `PlainCanon G listed` (`Tfv/Proofs/GraphPlain.lean`) : well-formed language, no `Top`/`Bottom` requested, closed canon;
* `NoBlank tr` : neither subject nor object is a blank node; `ParamsHaveUris G c` : every `FromCanon` type has a URI;
* `mapTr ρ`, `InGraph g n` (`Tfv/Proofs/VocabIso.lean`) : renaming of a triple; `n` is not blank or is a registered node.

Running examples: `Tfv/Proofs/VocabExamples.lean` (`exG`: `A > B > C`, `F`; `exD`: canon `{H(F(A)), H(F(B))}`).
-/
namespace Tfv.C10
open Tfv Tfv.Tax Tfv.Voc Tfv.VocabEx Tfv.GraphEx

/-! ## 0. the result as a whole -/

/-- `transitive_subjects(rdfs:subClassOf, o)` as modelled yields exactly the nodes from which `o` is reachable over
`rdfs:subClassOf` triples in `≥ 0` steps. -/
theorem C10V_transitiveSubjects_iff (ts : List Triple) (o x : Node) :
    x ∈ transitiveSubjects ts o ↔ NReach (SubEdge ts) x o :=
  mem_transitiveSubjects ts o x

example : transitiveSubjects [subTr "C" "B", subTr "B" "A", subTr "F-A" "F"] (.ns "A") = [.ns "A", .ns "B", .ns "C"] := by
  decide +kernel

/-- **All triples of the taxonomy.** A triple is in the result iff it describes a registered type, is a direct-link
triple, or (only with closure) links a node to a canonical type it reaches over the `rdfs:subClassOf` triples of the
first two kinds in `≥ 0` steps. -/
theorem C10V_triples_iff (G : GLang) (c : GCfg) (closure : Bool) (order : List Ty) (g : GState)
    (hcov : ∀ t ∈ G.canon, t ∈ order) (h : addTaxonomyOn G c closure order {} = .ok g) (tr : Triple) :
    tr ∈ g.triples ↔ DirectTr G c g tr ∨ (closure = true ∧ ClTr G (DirectEdge G c g) G.canon tr) :=
  (addTaxonomyOn_result G c closure order g hcov h).triples tr

example : ∃ g, addTaxonomyOn exG cV true exG.canon.reverse {} = .ok g ∧ ∀ t ∈ exG.canon, t ∈ exG.canon.reverse :=
  let ⟨g, hg⟩ := exG_runs_rev true; ⟨g, hg, exG_cover_rev⟩

/-- `add_taxonomy` asserts `with_canonical_types`. -/
theorem C10V_needs_canonical_types (G : GLang) (c : GCfg) (closure : Bool) (order : List Ty) (g : GState)
    (hcov : ∀ t ∈ G.canon, t ∈ order) (h : addTaxonomyOn G c closure order {} = .ok g) : c.withCanonicalTypes = true :=
  (addTaxonomyOn_result G c closure order g hcov h).canonical

/-! ## 1. without closure: exactly the direct links (and the operator edges) -/

/-- **`rdfs:subClassOf` without closure, on nodes.** `(s, rdfs:subClassOf, o)` is emitted iff `s`, `o` are the URIs of
canonical types `t`, `u` with `u` a reported direct supertype of `t` or `t` a reported direct subtype of `u`
(`LinkEdge`), or `s` is the node of a registered compound type and `o` the URI of its operator (`OpEdge`). -/
theorem C10V_subClassOf_direct (G : GLang) (c : GCfg) (order : List Ty) (g : GState)
    (hcov : ∀ t ∈ G.canon, t ∈ order) (h : addTaxonomyOn G c false order {} = .ok g) (s o : Node) :
    (s, subClassOf, o) ∈ g.triples ↔ LinkEdge G s o ∨ OpEdge G c g s o :=
  (addTaxonomyOn_result G c false order g hcov h).sub_iff_direct s o

example : ∃ g, addTaxonomyOn exG cV false exG.canon {} = .ok g := exG_runs false

/-- **… on types.** When URIs tell canonical types apart and differ from operator URIs, the triple between the URIs of
two canonical types is emitted iff the types are directly linked. -/
theorem C10V_subClassOf_direct_types (G : GLang) (c : GCfg) (order : List Ty) (g : GState)
    (hcov : ∀ t ∈ G.canon, t ∈ order) (h : addTaxonomyOn G c false order {} = .ok g) (hi : UriInj G) (hs : OpSep G)
    {t u : Ty} (ht : t ∈ G.canon) (hu : u ∈ G.canon) {a b : Node} (ha : typeUri G t.toTerm = .ok a)
    (hb : typeUri G u.toTerm = .ok b) : (a, subClassOf, b) ∈ g.triples ↔ DLink G t u :=
  (addTaxonomyOn_result G c false order g hcov h).types_direct hi hs ht hu ha hb

example : UriInj exG ∧ OpSep exG ∧ tB ∈ exG.canon ∧ tA ∈ exG.canon ∧ typeUri exG tB.toTerm = .ok (.ns "B") ∧
    typeUri exG tA.toTerm = .ok (.ns "A") :=
  ⟨exG_uriInj, exG_opSep, exG_mem_B, exG_mem_A, exG_uri_B, exG_uri_A⟩

/-- **… over a plain closed canon** (no `Top`/`Bottom`): the triple is emitted iff `u` is a direct canonical supertype of
`t` as reported by `langSucc … up … transitive := false` (the two reports mirror each other). -/
theorem C10V_subClassOf_direct_plain (G : GLang) (c : GCfg) (order : List Ty) (g : GState) (listed : List Ty)
    (p : PlainCanon G listed) (hcov : ∀ t ∈ G.canon, t ∈ order) (h : addTaxonomyOn G c false order {} = .ok g)
    (hi : UriInj G) (hs : OpSep G) {t u : Ty} (ht : t ∈ G.canon) (hu : u ∈ G.canon) {a b : Node}
    (ha : typeUri G t.toTerm = .ok a) (hb : typeUri G u.toTerm = .ok b) :
    (a, subClassOf, b) ∈ g.triples ↔ u ∈ langSucc G.types G.cfg G.canon (G.canon.length + 2) true t false :=
  (addTaxonomyOn_result G c false order g hcov h).types_direct_plain p hi hs ht hu ha hb

example : PlainCanon exG [tA, tF tA] := exG_plain

/-- the running example without closure, evaluated -/
theorem C10V_example_direct : (addTaxonomyOn exG cV false exG.canon {}).toOption.map (·.triples) = some
    [typeTr (.ns "A"), subTr "B" "A", typeTr (.ns "F-A"), subTr "F-A" "F", (.ns "F-A", .rdf "_1", .ns "A"), subTr "F-B" "F-A",
     typeTr (.ns "F-B"), subTr "F-B" "F", typeTr (.ns "B"), (.ns "F-B", .rdf "_1", .ns "B"), subTr "F-C" "F-B",
     typeTr (.ns "F-C"), subTr "F-C" "F", typeTr (.ns "C"), (.ns "F-C", .rdf "_1", .ns "C"), subTr "C" "B"] :=
  exG_direct

/-! ## 2. with closure: the reflexive-transitive closure -/

/-- **`rdfs:subClassOf` with closure, on nodes.** `(s, rdfs:subClassOf, o)` is emitted iff it is a direct edge, or `o` is
the URI of a canonical type and `o` is reachable from `s` over direct edges in `≥ 0` steps. The closure is taken per
canonical type after all direct edges exist. -/
theorem C10V_subClassOf_closure (G : GLang) (c : GCfg) (order : List Ty) (g : GState)
    (hcov : ∀ t ∈ G.canon, t ∈ order) (h : addTaxonomyOn G c true order {} = .ok g) (s o : Node) :
    (s, subClassOf, o) ∈ g.triples ↔
      DirectEdge G c g s o ∨ ((∃ t ∈ G.canon, typeUri G t.toTerm = .ok o) ∧ NReach (DirectEdge G c g) s o) :=
  (addTaxonomyOn_result G c true order g hcov h).sub_iff_closure s o

example : ∃ g, addTaxonomyOn exG cV true exG.canon {} = .ok g := exG_runs true

/-- the direct edges of the result, spelled out -/
theorem C10V_directEdge_iff (G : GLang) (c : GCfg) (g : GState) (s o : Node) :
    DirectEdge G c g s o ↔ LinkEdge G s o ∨ OpEdge G c g s o :=
  directEdge_iff G c g s o

/-- **… on types**: between the URIs of canonical types `t`, `u` the triple is emitted iff `u` is reachable from `t` over
direct links in `≥ 0` steps. -/
theorem C10V_subClassOf_closure_types (G : GLang) (c : GCfg) (order : List Ty) (g : GState)
    (hcov : ∀ t ∈ G.canon, t ∈ order) (h : addTaxonomyOn G c true order {} = .ok g) (hi : UriInj G) (hs : OpSep G)
    {t u : Ty} (ht : t ∈ G.canon) (hu : u ∈ G.canon) {a b : Node} (ha : typeUri G t.toTerm = .ok a)
    (hb : typeUri G u.toTerm = .ok b) : (a, subClassOf, b) ∈ g.triples ↔ Reach (DLink G) t u :=
  (addTaxonomyOn_result G c true order g hcov h).types_closure hi hs ht hu ha hb

/-- **… over a plain closed canon: the taxonomy is the subtype order on canonical types.** -/
theorem C10V_subClassOf_closure_plain (G : GLang) (c : GCfg) (order : List Ty) (g : GState) (listed : List Ty)
    (p : PlainCanon G listed) (hcov : ∀ t ∈ G.canon, t ∈ order) (h : addTaxonomyOn G c true order {} = .ok g)
    (hi : UriInj G) (hs : OpSep G) {t u : Ty} (ht : t ∈ G.canon) (hu : u ∈ G.canon) {a b : Node}
    (ha : typeUri G t.toTerm = .ok a) (hb : typeUri G u.toTerm = .ok b) :
    (a, subClassOf, b) ∈ g.triples ↔ Sub G.types t u :=
  (addTaxonomyOn_result G c true order g hcov h).types_closure_plain p hi hs ht hu ha hb

example : PlainCanon exG [tA, tF tA] ∧ UriInj exG ∧ OpSep exG := ⟨exG_plain, exG_uriInj, exG_opSep⟩

/-- the running example: what the closure adds -/
theorem C10V_example_closure : (addTaxonomyOn exG cV true exG.canon {}).toOption.map (fun g => g.triples.drop 16) = some
    [subTr "A" "A", subTr "C" "A", subTr "F-A" "F-A", subTr "F-C" "F-A", subTr "F-B" "F-B", subTr "F-C" "F-C", subTr "B" "B", subTr "C" "C"] :=
  exG_closure

/-- **The seeded bug is visible in the model**: closing each type right after its own direct links (the two loops fused)
misses `C ⊑ A` on the running example; the model has it. -/
theorem C10V_fused_loops_differ :
    (fusedTaxonomy exG cV exG.canon {}).toOption.map (fun g => g.triples.contains (subTr "C" "A")) = some false ∧
    (addTaxonomyOn exG cV true exG.canon {}).toOption.map (fun g => g.triples.contains (subTr "C" "A")) = some true :=
  fused_misses

/-! ## 3. what is described -/

/-- **`rdf:type tf:Type`** is emitted for exactly the nodes of the registered types (and only with `with_classes`). -/
theorem C10V_described_iff (G : GLang) (c : GCfg) (closure : Bool) (order : List Ty) (g : GState)
    (hcov : ∀ t ∈ G.canon, t ∈ order) (h : addTaxonomyOn G c closure order {} = .ok g) (n : Node) :
    (n, Node.rdf "type", Node.tf "Type") ∈ g.triples ↔ (c.withClasses = true ∧ ∃ x, g.L x = some n) :=
  (addTaxonomyOn_result G c closure order g hcov h).type_iff n

/-- **The registered types** are exactly the canonical types and the parameter types `add_type` reaches from them
(through operators of arity `> 0`, with `with_type_parameters`) - canonical or not (finding D24). -/
theorem C10V_registered_iff (G : GLang) (c : GCfg) (closure : Bool) (order : List Ty) (g : GState)
    (hcov : ∀ t ∈ G.canon, t ∈ order) (h : addTaxonomyOn G c closure order {} = .ok g) (x : Term) :
    (∃ n, g.L x = some n) ↔ FromCanon G c x :=
  (addTaxonomyOn_result G c closure order g hcov h).registered x

/-- **Every canonical type is registered under its URI.** -/
theorem C10V_canonical_registered (G : GLang) (c : GCfg) (closure : Bool) (order : List Ty) (g : GState)
    (hcov : ∀ t ∈ G.canon, t ∈ order) (h : addTaxonomyOn G c closure order {} = .ok g) (t : Ty) (ht : t ∈ G.canon) :
    ∃ n, typeUri G t.toTerm = .ok n ∧ g.L t.toTerm = some n :=
  (addTaxonomyOn_result G c closure order g hcov h).done t ht

/-- **Every canonical type is described** (`with_classes`). -/
theorem C10V_canonical_described (G : GLang) (c : GCfg) (closure : Bool) (order : List Ty) (g : GState)
    (hcov : ∀ t ∈ G.canon, t ∈ order) (h : addTaxonomyOn G c closure order {} = .ok g) (hc : c.withClasses = true)
    (t : Ty) (ht : t ∈ G.canon) :
    ∃ n, typeUri G t.toTerm = .ok n ∧ (n, Node.rdf "type", Node.tf "Type") ∈ g.triples :=
  (addTaxonomyOn_result G c closure order g hcov h).canonical_described hc t ht

/-- The node of a registered type is its URI; a type without a URI sits at a blank node (`with_noncanonical_types`). -/
theorem C10V_registered_node (G : GLang) (c : GCfg) (closure : Bool) (order : List Ty) (g : GState)
    (hcov : ∀ t ∈ G.canon, t ∈ order) (h : addTaxonomyOn G c closure order {} = .ok g) (x : Term) (n : Node)
    (hl : g.L x = some n) : NodeOk G c x n :=
  (addTaxonomyOn_result G c closure order g hcov h).node x n hl

/-- without `with_type_parameters` nothing but the canonical types is registered -/
theorem C10V_registered_no_parameters (G : GLang) (c : GCfg) (closure : Bool) (order : List Ty) (g : GState)
    (hcov : ∀ t ∈ G.canon, t ∈ order) (h : addTaxonomyOn G c closure order {} = .ok g)
    (htp : c.withTypeParameters = false) (x : Term) : (∃ n, g.L x = some n) ↔ ∃ t ∈ G.canon, x = t.toTerm :=
  (addTaxonomyOn_result G c closure order g hcov h).registered_no_parameters htp x

/-- **Finding D24 in the model**: canon `{H(F(A)), H(F(B))}`; `F(A)` is not canonical, yet it is described, at the blank
node `_:0`, and so is the base type `A`. -/
theorem C10V_d24 : memTy (.app 7 [.app 5 []]) exD.canon = false ∧
    (addTaxonomyOn exD cV false exD.canon {}).toOption.map (·.triples) = some
    [typeTr (.ns "H-F-A"), subTr "H-F-A" "H", typeTr (.b 0), (.b 0, subClassOf, .ns "F"), typeTr (.ns "A"),
     (.b 0, .rdf "_1", .ns "A"), (.ns "H-F-A", .rdf "_1", .b 0), subTr "H-F-B" "H-F-A",
     typeTr (.ns "H-F-B"), subTr "H-F-B" "H", typeTr (.b 1), (.b 1, subClassOf, .ns "F"), typeTr (.ns "B"),
     (.b 1, .rdf "_1", .ns "B"), (.ns "H-F-B", .rdf "_1", .b 1)] :=
  exD_d24

/-- with `with_noncanonical_types` off that vocabulary cannot be built (`NonCanonicalTypeError`) -/
theorem C10V_d24_strict :
    (addTaxonomyOn exD { cV with withNoncanonicalTypes := false } false exD.canon {}).toOption.isSome = false :=
  exD_strict_fails

/-! ## 4. the order of the canon is irrelevant (C19 aspect) -/

/-- **Order independence, blank nodes aside.** Two runs over orders covering the canon contain the same triples among
those whose subject and object are not blank nodes. -/
theorem C10V_perm_noBlank (G : GLang) (c : GCfg) (closure : Bool) (order1 order2 : List Ty) (g1 g2 : GState)
    (hcov1 : ∀ t ∈ G.canon, t ∈ order1) (hcov2 : ∀ t ∈ G.canon, t ∈ order2)
    (h1 : addTaxonomyOn G c closure order1 {} = .ok g1) (h2 : addTaxonomyOn G c closure order2 {} = .ok g2)
    (tr : Triple) (hb : NoBlank tr) : tr ∈ g1.triples ↔ tr ∈ g2.triples :=
  (addTaxonomyOn_result G c closure order1 g1 hcov1 h1).perm_noBlank (addTaxonomyOn_result G c closure order2 g2 hcov2 h2) hb

example : (∃ g1, addTaxonomyOn exD cV false exD.canon {} = .ok g1) ∧
    (∃ g2, addTaxonomyOn exD cV false exD.canon.reverse {} = .ok g2) ∧ NoBlank (subTr "H-F-B" "H-F-A") :=
  ⟨exD_runs, exD_runs_rev, by constructor <;> intro k hk <;> cases hk⟩

/-- **Order independence of the triple set** when no blank node is needed: every type reached through parameters has a
URI, or `with_noncanonical_types` is off. -/
theorem C10V_perm (G : GLang) (c : GCfg) (closure : Bool) (order1 order2 : List Ty) (g1 g2 : GState)
    (hcov1 : ∀ t ∈ G.canon, t ∈ order1) (hcov2 : ∀ t ∈ G.canon, t ∈ order2)
    (h1 : addTaxonomyOn G c closure order1 {} = .ok g1) (h2 : addTaxonomyOn G c closure order2 {} = .ok g2)
    (hu : ParamsHaveUris G c ∨ c.withNoncanonicalTypes = false) (tr : Triple) : tr ∈ g1.triples ↔ tr ∈ g2.triples :=
  (addTaxonomyOn_result G c closure order1 g1 hcov1 h1).perm_full (addTaxonomyOn_result G c closure order2 g2 hcov2 h2) hu tr

example : (∃ g1, addTaxonomyOn exG { cV with withNoncanonicalTypes := false } true exG.canon {} = .ok g1) ∧
    (∃ g2, addTaxonomyOn exG { cV with withNoncanonicalTypes := false } true exG.canon.reverse {} = .ok g2) :=
  ⟨ok_of_isSome (by decide +kernel), ok_of_isSome (by decide +kernel)⟩

/-- in that case no triple mentions a blank node -/
theorem C10V_no_blank (G : GLang) (c : GCfg) (closure : Bool) (order : List Ty) (g : GState)
    (hcov : ∀ t ∈ G.canon, t ∈ order) (h : addTaxonomyOn G c closure order {} = .ok g)
    (hu : ParamsHaveUris G c ∨ c.withNoncanonicalTypes = false) (tr : Triple) (hm : tr ∈ g.triples) : NoBlank tr :=
  (addTaxonomyOn_result G c closure order g hcov h).all_noBlank hu hm

/-- **The restriction cannot be dropped**: on `exD` the blank nodes are numbered in the order of creation, and the two
orders give different triple sets (equal up to renaming the blank nodes only). -/
theorem C10V_perm_blank_counterexample :
    (addTaxonomyOn exD cV false exD.canon {}).toOption.map (fun g => g.triples.contains (.ns "H-F-A", .rdf "_1", .b 0)) = some true ∧
    (addTaxonomyOn exD cV false exD.canon.reverse {}).toOption.map (fun g => g.triples.contains (.ns "H-F-A", .rdf "_1", .b 0))
      = some false :=
  exD_order_dependent

/-- No blank node stands for two types (any configuration, any order). -/
theorem C10V_blank_inj (G : GLang) (c : GCfg) (closure : Bool) (order : List Ty) (g : GState)
    (h : addTaxonomyOn G c closure order {} = .ok g) (y y' : Term) (k : Nat)
    (hy : g.L y = some (.b k)) (hy' : g.L y' = some (.b k)) : y = y' :=
  addTaxonomyOn_blank_inj G c closure order g h y y' k hy hy'

/-- **Order independence in general: the two graphs are isomorphic.** There is a renaming `ρ` of nodes that fixes every
non-blank node, sends the blank nodes of the first graph to blank nodes, is injective on the nodes of the first graph
(`InGraph`: URIs and registered nodes - every subject and object of its triples is one), and maps the triple set of the first
graph onto the triple set of the second (`mapTr ρ (s, p, o) = (ρ s, p, ρ o)`). -/
theorem C10V_perm_iso (G : GLang) (c : GCfg) (closure : Bool) (order1 order2 : List Ty) (g1 g2 : GState)
    (hcov1 : ∀ t ∈ G.canon, t ∈ order1) (hcov2 : ∀ t ∈ G.canon, t ∈ order2)
    (h1 : addTaxonomyOn G c closure order1 {} = .ok g1) (h2 : addTaxonomyOn G c closure order2 {} = .ok g2) :
    ∃ ρ : Node → Node, (∀ n, NotBlank n → ρ n = n) ∧
      (∀ x k, g1.L x = some (.b k) → ∃ k', ρ (.b k) = .b k') ∧
      (∀ tr, tr ∈ g1.triples → InGraph g1 tr.1 ∧ InGraph g1 tr.2.2) ∧
      (∀ n m, InGraph g1 n → InGraph g1 m → ρ n = ρ m → n = m) ∧
      (∀ tr, tr ∈ g1.triples → mapTr ρ tr ∈ g2.triples) ∧
      (∀ tr', tr' ∈ g2.triples → ∃ tr, tr ∈ g1.triples ∧ mapTr ρ tr = tr') :=
  addTaxonomyOn_iso G c closure order1 order2 g1 g2 hcov1 hcov2 h1 h2

example : (∃ g1, addTaxonomyOn exD cV false exD.canon {} = .ok g1) ∧
    (∃ g2, addTaxonomyOn exD cV false exD.canon.reverse {} = .ok g2) ∧ (∀ t ∈ exD.canon, t ∈ exD.canon.reverse) :=
  ⟨exD_runs, exD_runs_rev, fun _ h => List.mem_reverse.2 h⟩

/-- the closure only adds triples: what is there without it is there with it (blank nodes aside, any two orders) -/
theorem C10V_closure_superset (G : GLang) (c : GCfg) (order1 order2 : List Ty) (g1 g2 : GState)
    (hcov1 : ∀ t ∈ G.canon, t ∈ order1) (hcov2 : ∀ t ∈ G.canon, t ∈ order2)
    (h1 : addTaxonomyOn G c false order1 {} = .ok g1) (h2 : addTaxonomyOn G c true order2 {} = .ok g2)
    (tr : Triple) (hb : NoBlank tr) (hm : tr ∈ g1.triples) : tr ∈ g2.triples :=
  (addTaxonomyOn_result G c false order1 g1 hcov1 h1).closure_superset (addTaxonomyOn_result G c true order2 g2 hcov2 h2) hb hm

/-! ## 5. when the run succeeds -/

/-- **`add_taxonomy` succeeds** when `with_canonical_types` is on, the visited types are canonical, every type reached
through parameters has a URI or `with_noncanonical_types` is on (`Describable`), and the model's fuel suffices
(`termNeed` = nesting depth + parameter positions, against `typeFuel = 1000`). No assertion of the model fires. -/
theorem C10V_succeeds (G : GLang) (c : GCfg) (closure : Bool) (order : List Ty) (hc : c.withCanonicalTypes = true)
    (hord : ∀ t ∈ order, t ∈ G.canon) (hdesc : Describable G c) (hfuel : ∀ t ∈ G.canon, termNeed t.toTerm ≤ typeFuel) :
    ∃ g, addTaxonomyOn G c closure order {} = .ok g :=
  addTaxonomyOn_total G c closure order hc hord hdesc hfuel

example : cV.withCanonicalTypes = true ∧ Describable exG cV ∧ (∀ t ∈ exG.canon, termNeed t.toTerm ≤ typeFuel) :=
  ⟨rfl, fun _ _ => .inr rfl, by decide +kernel⟩

/-- **It fails** (in every order covering the canon) when a reached type has no URI and blank nodes are not allowed. -/
theorem C10V_fails_without_uri (G : GLang) (c : GCfg) (closure : Bool) (order : List Ty) (hcov : ∀ t ∈ G.canon, t ∈ order)
    {x : Term} (hx : FromCanon G c x) (hu : ∀ n, typeUri G x ≠ .ok n) (hw : c.withNoncanonicalTypes = false) (g : GState) :
    addTaxonomyOn G c closure order {} ≠ .ok g :=
  addTaxonomyOn_fails G c closure order hcov hx hu hw g

/-- A successful run visited canonical types only (the assertion of `Language.successors`). -/
theorem C10V_order_canonical (G : GLang) (c : GCfg) (closure : Bool) (order : List Ty) (g : GState)
    (h : addTaxonomyOn G c closure order {} = .ok g) : ∀ t ∈ order, t ∈ G.canon :=
  addTaxonomyOn_order_canon G c closure order g h

/-- **Whether the run succeeds does not depend on the order** (nor on the closure switch), fuel permitting. -/
theorem C10V_success_order_independent (G : GLang) (c : GCfg) (cl1 cl2 : Bool) (order1 order2 : List Ty) (g1 : GState)
    (hcov1 : ∀ t ∈ G.canon, t ∈ order1) (h1 : addTaxonomyOn G c cl1 order1 {} = .ok g1)
    (hord2 : ∀ t ∈ order2, t ∈ G.canon) (hfuel : ∀ t ∈ G.canon, termNeed t.toTerm ≤ typeFuel) :
    ∃ g2, addTaxonomyOn G c cl2 order2 {} = .ok g2 :=
  success_transfer G c cl1 cl2 order1 order2 g1 hcov1 h1 hord2 hfuel

/-! ## 6. the whole vocabulary -/

/-- **`add_vocabulary`** = the taxonomy (in the order of the model's canon list, on the initial graph), one
`rdf:type tf:Operation` triple per operator (`with_classes`), the four `rdfs:subPropertyOf` triples; there are no
`tf:from`/`tf:depends` triples. -/
theorem C10V_vocabulary (G : GLang) (c : GCfg) (closure : Bool) (ops : List String) (ts : List Triple)
    (h : vocabulary G c closure ops = .ok ts) :
    ∃ g, addTaxonomyOn G c closure G.canon {} = .ok g ∧
      ∀ tr, tr ∈ ts ↔ tr ∈ g.triples ∨ OperatorTr c ops tr ∨ tr ∈ vocabProperties :=
  vocabulary_spec' G c closure ops ts h

example : (vocabulary exG cV false ["f", "g"]).toOption.map (fun ts => ts.drop 16) = some
    [(.ns "f", .rdf "type", .tf "Operation"), (.ns "g", .rdf "type", .tf "Operation"),
     (.ns "signature", .rdfs "subPropertyOf", .tf "signature"), (.ns "expression", .rdfs "subPropertyOf", .tf "expression"),
     (.ns "type", .rdfs "subPropertyOf", .tf "type"), (.ns "via", .rdfs "subPropertyOf", .tf "via")] :=
  exG_vocabulary

end Tfv.C10
