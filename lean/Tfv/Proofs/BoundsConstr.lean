import Tfv.Proofs.BoundsApply
import Tfv.Proofs.InferConstrExamples
/-!
# C05 with a pending subtype constraint: `(x ** x ** … ** x)[x ≤ U]` applied to base types of one chain

`Pend L σ v c U s`: the variable `v` is allocated, its constraint set holds exactly the constraint `c`, which is the
pending (not yet fulfilled) subtype constraint `v ≤ U` with `U` a base type.
While `v` is unbound and its lower bound stays below `U`, re-checking the constraint decides nothing and changes
nothing, so the bound machine runs as on a constraint-free store; when `fix` finally binds `v` to its lower bound
`m ≤ U`, the constraint is found fulfilled, marked so and removed from the constraint set.
-/
namespace Tfv.C05C
open Tfv Tfv.C05P Tfv.C03C

/-- `v` carries exactly the pending constraint `c : v ≤ U` -/
structure Pend (L : Lang) (σ : Store) (v c U : Nat) (s : Bool) : Prop where
  cs : getCset σ (getVar σ v).cset = [c]
  ct : getConstr σ c = .sub (.var v) (.app U []) s false
  u0 : arityOf L U = 0
  utop : U ≠ TOP

theorem Pend.setVar {L : Lang} {σ : Store} {v c U : Nat} {s : Bool} (p : Pend L σ v c U s) (hv : v < σ.vars.length)
    (j : VarInfo) (hj : j.cset = (getVar σ v).cset) : Pend L (setVar σ v j) v c U s := by
  refine ⟨?_, p.ct, p.u0, p.utop⟩
  rw [getVar_setVar_same hv, hj]
  exact p.cs

/-- re-checking a pending constraint `v ≤ U` while `v` is unbound with lower bound below `U` decides nothing -/
theorem check_pending {L : Lang} {σ : Store} {v c U : Nat} {s : Bool} (p : Pend L σ v c U s)
    (hb : (getVar σ v).bound = none) (hlow : ∀ l, (getVar σ v).lower = some l → opSub L l U = true) (n : Nat) :
    checkConstraints L (n+4) σ v = .ok σ := by
  rw [checkConstraints, p.cs, checkList_cons,
    fulfill_sub_eq L (n+1) σ c (ref := .var v) (tgt := .app U []) (s := s) (f := false) p.ct,
    unify_unbound_base_skip hb p.u0]
  simp only []
  have e : matchFuel σ = (4 * σ.vars.length + 63) + 1 := rfl
  rw [e, match3_var_app (av := v) (bo := U) (bs := []) (followT_var_unbound hb) (followT_app σ U [])]
  have h1 : (U == TOP) = false := by simpa using p.utop
  have h3 : (getVar σ v).lower.any (fun l => !opSub L l U) = false := by
    cases hl : (getVar σ v).lower with
    | none => rfl
    | some l => simp [hlow l hl]
  simp only [h1, p.u0, h3, p.ct, Bool.and_false, Bool.false_eq_true, if_false, bne_self_eq_false,
    Bool.not_true, Bool.false_and, checkList_nil]


/-- the record of `v` while the constraint is pending: unbound, no upper bound, lower bound a base type below `U` -/
structure PendI (L : Lang) (U k : Nat) (i : VarInfo) : Prop where
  b : i.bound = none
  u : i.upper = none
  c : i.cset = k
  l : ∀ l, i.lower = some l → opSub L l U = true ∧ arityOf L l = 0

theorem closeI_noUpper {L : Lang} {i : VarInfo} (hu : i.upper = none) : closeI L i = .ok i := by
  unfold closeI
  cases hl : i.lower with
  | none => simp
  | some l => simp [hu]

theorem close_eq_noUpper (L : Lang) {σ : Store} (m v : Nat) (hv : v < σ.vars.length)
    (i : VarInfo) (hu : i.upper = none) :
    (let σ1 := setVar σ v i
     let j := getVar σ1 v
     if j.bound.isNone && j.lower.isSome && j.lower == j.upper then
       match j.lower with
       | some l => bind L m σ1 v (.app l [])
       | none => .ok σ1
     else (.ok σ1 : R)) = liftI σ v (closeI L i) := by
  simp only [getVar_setVar_same hv]
  rw [closeI_noUpper hu]
  cases hl : i.lower with
  | none => simp [liftI]
  | some l => simp [hu, liftI]

/-- `above` with a pending constraint `v ≤ U`, on a record without upper bound, for a new lower bound below `U` -/
theorem above_eq_pending (L : Lang) {σ : Store} {v c U : Nat} {s : Bool} (p : Pend L σ v c U s)
    (hv : v < σ.vars.length) (hi : PendI L U (getVar σ v).cset (getVar σ v)) (n new : Nat)
    (hnt : new ≠ TOP) (hnew : opSub L new U = true) :
    above L (n+6) σ v new = liftI σ v (aboveI L (getVar σ v) new) := by
  have ht : (new == TOP) = false := by simpa using hnt
  have hb : (getVar σ v).bound.isSome = false := by rw [hi.b]; rfl
  have h1 : Option.any (fun u => opSub L u new true) (getVar σ v).upper = false := by rw [hi.u]; rfl
  have h2 : Option.any (fun u => !opSub L new u) (getVar σ v).upper = false := by rw [hi.u]; rfl
  unfold above aboveI
  simp only [ht]
  by_cases h3 : Option.any (fun l => opSub L new l true) (getVar σ v).lower = true
  · simp only [hb, h1, h2, h3, if_true, if_false, Bool.false_eq_true]
    exact close_eq_noUpper L _ v hv _ hi.u
  · by_cases h4 : Option.all (fun l => opSub L l new) (getVar σ v).lower = true
    · simp only [hb, h1, h2, h3, h4, if_true, if_false, Bool.false_eq_true, setVar_setVar]
      have p' := p.setVar hv
        { bound := (getVar σ v).bound, lower := some new, upper := (getVar σ v).upper, wildcard := false, cset := (getVar σ v).cset }
        rfl
      rw [check_pending p' (by rw [getVar_setVar_same hv]; exact hi.b)
        (by rw [getVar_setVar_same hv]; intro l hl; injection hl with hl; subst hl; exact hnew) (n+1)]
      exact close_eq_noUpper L _ v hv _ hi.u
    · simp [hb, h1, h2, h3, h4, liftI]


/-! ## the run of covariant supplies -/

/-- a covariant supply of a proper base type below `U` -/
def CoBelow (L : Lang) (U : Nat) (op : Op) : Prop :=
  op.1 = true ∧ arityOf L op.2 = 0 ∧ op.2 ≠ BOT ∧ op.2 ≠ TOP ∧ opSub L op.2 U = true

theorem supply_eq_pending (L : Lang) {σ : Store} {v c U : Nat} {s : Bool} (p : Pend L σ v c U s)
    (hv : v < σ.vars.length) (hi : PendI L U (getVar σ v).cset (getVar σ v)) (n : Nat) (op : Op)
    (hq : CoBelow L U op) : supply L (n+7) v σ op = liftI σ v (supI L (getVar σ v) op) := by
  obtain ⟨h1, h0, hb, ht, hu⟩ := hq
  have hbb : (op.2 == BOT) = false := by simpa using hb
  unfold supply supI
  rw [hi.b]
  simp only [h1, if_true, hbb, Bool.false_eq_true, if_false]
  rw [unify_base_var L σ (n+6) op.2 v h0 hi.b hb]
  exact above_eq_pending L p hv hi n op.2 ht hu

theorem supI_pend {L : Lang} {U k : Nat} {i j : VarInfo} {op : Op} (hi : PendI L U k i) (hq : CoBelow L U op)
    (h : supI L i op = .ok j) : PendI L U k j := by
  obtain ⟨h1, h0, hb, ht, hu⟩ := hq
  have hbb : (op.2 == BOT) = false := by simpa using hb
  have htt : (op.2 == TOP) = false := by simpa using ht
  unfold supI at h
  rw [hi.b] at h
  simp only [h1, if_true, hbb, Bool.false_eq_true, if_false] at h
  unfold aboveI at h
  simp only [htt, Bool.false_eq_true, if_false, hi.b, hi.u, Option.isSome_none, Option.any_none] at h
  split at h
  · rw [closeI_noUpper rfl] at h
    injection h with h; subst h
    exact ⟨rfl, rfl, hi.c, hi.l⟩
  · split at h
    · rw [closeI_noUpper rfl] at h
      injection h with h; subst h
      refine ⟨rfl, rfl, hi.c, fun l hl => ?_⟩
      injection hl with hl; subst hl
      exact ⟨hu, h0⟩
    · cases h

theorem runSupply_eq_pending (L : Lang) {σ : Store} {v c U : Nat} {s : Bool} (p : Pend L σ v c U s)
    (hv : v < σ.vars.length) (hi : PendI L U (getVar σ v).cset (getVar σ v)) (n : Nat) (ops : List Op)
    (hq : ∀ op ∈ ops, CoBelow L U op) :
    runSupply L (n+7) σ v ops = liftI σ v (runSupI L (getVar σ v) ops) := by
  refine (runE_transfer σ v (supply L (n+7) v) (supI L) (PendI L U (getVar σ v).cset) (CoBelow L U)
    ?_ ?_ hi ops hq).1
  · intro j op hq' hj
    have p' := p.setVar hv j hj.c
    have hj' : PendI L U (getVar (setVar σ v j) v).cset (getVar (setVar σ v j) v) := by
      rw [getVar_setVar_same hv, hj.c]; exact hj
    have := supply_eq_pending L p' (by rw [setVar_length]; exact hv) hj' n op hq'
    rw [this, getVar_setVar_same hv, liftI_setVar]
  · intro j j' op hq' hj h
    exact supI_pend hj hq' h


/-! ## binding the variable fulfils the constraint -/

theorem unify_bound_base_skip (L : Lang) (σ : Store) (n v m U : Nat) (hm0 : arityOf L m = 0)
    (hb : (getVar σ v).bound = some (.app m [])) :
    unify L (n+1) σ (.var v) (.app U []) true true false = .ok σ := by
  unfold unify
  rw [followT_var_app hb, followT_app]
  simp [hm0]

/-- the store after `v := m` has been recorded and the constraint `c : v ≤ U` found fulfilled -/
def fulfilStore (σ : Store) (v c U m : Nat) (s : Bool) : Store :=
  setCset (setConstr (setVar σ v { (getVar σ v) with wildcard := false, bound := some (.app m []) }) c
    (.sub (.var v) (.app U []) s true)) (getVar σ v).cset []

theorem check_pending_fulfil {L : Lang} {σ : Store} {v c U : Nat} {s : Bool} (p : Pend L σ v c U s)
    (hv : v < σ.vars.length) {m : Nat} (hm0 : arityOf L m = 0) (hmU : opSub L m U = true) (n : Nat)
    (j : VarInfo) (hjb : j.bound = some (.app m [])) (hjc : j.cset = (getVar σ v).cset) :
    checkConstraints L (n+5) (setVar σ v j) v =
      .ok (setCset (setConstr (setVar σ v j) c (.sub (.var v) (.app U []) s true)) (getVar σ v).cset []) := by
  have p' := p.setVar hv j hjc
  have hb' : (getVar (setVar σ v j) v).bound = some (.app m []) := by rw [getVar_setVar_same hv]; exact hjb
  have hc' : (getVar (setVar σ v j) v).cset = (getVar σ v).cset := by rw [getVar_setVar_same hv]; exact hjc
  rw [checkConstraints, p'.cs, checkList_cons,
    fulfill_sub_eq L (n+2) (setVar σ v j) c (ref := .var v) (tgt := .app U []) (s := s) (f := false) p'.ct,
    unify_bound_base_skip L _ (n+1) v m U hm0 hb']
  simp only []
  have e : matchFuel (setVar σ v j) = (4 * (setVar σ v j).vars.length + 63) + 1 := rfl
  rw [e, match3_base_base (ao := m) (bo := U) (as := []) (bs := []) (followT_var_app hb') (followT_app _ U []) hm0]
  simp only [hmU, Bool.true_and, Bool.or_true, p'.ct]
  have hsplit : (if (m == BOT || U == TOP) = true then some true else some true) = some true := by split <;> rfl
  rw [hsplit]
  simp only []
  have hg : getVar (setConstr (setVar σ v j) c (.sub (.var v) (.app U []) s true)) v = getVar (setVar σ v j) v := rfl
  have hk : getCset (setConstr (setVar σ v j) c (.sub (.var v) (.app U []) s true)) (getVar σ v).cset = [c] := by
    have := p'.cs
    rw [hc'] at this
    exact this
  rw [hg, hc', hk]
  simp only [List.filter_cons, bne_self_eq_false, Bool.false_eq_true, if_false, List.filter_nil, checkList_nil,
    if_true]

theorem fix_pending_fulfil (L : Lang) {σ : Store} {v c U : Nat} {s : Bool} (p : Pend L σ v c U s)
    (hv : v < σ.vars.length) (hb : (getVar σ v).bound = none) (hu : (getVar σ v).upper = none) {m : Nat}
    (hl : (getVar σ v).lower = some m) (hm0 : arityOf L m = 0) (hmU : opSub L m U = true)
    (hself : opSub L m m true = false) (n : Nat) :
    fix L (n+7) σ (.var v) true = .ok (fulfilStore σ v c U m s, .app m []) := by
  unfold fix
  rw [followT_var_unbound hb]
  simp only [hl, Option.isSome_some, Bool.and_self, if_true]
  rw [C03P.bind_app_eq L (n+5) σ v m []]
  have hbs : (getVar σ v).bound.isSome = false := by rw [hb]; rfl
  simp only [hbs, hm0, hl, hu, hself, beq_self_eq_true, Option.any_some, Option.any_none, Bool.false_eq_true, if_false,
    if_true]
  have hB : C03P.bindBaseStore σ v (.app m []) =
      setVar σ v { (getVar σ v) with wildcard := false, bound := some (.app m []) } := by
    unfold C03P.bindBaseStore C03P.clearW
    simp only [setVar_setVar]
  rw [hB, check_pending_fulfil p hv hm0 hmU n
    { (getVar σ v) with wildcard := false, bound := some (.app m []) } rfl rfl]
  simp only []
  have hfin : (getVar (fulfilStore σ v c U m s) v).bound = some (.app m []) := by
    show (getVar (setVar σ v { (getVar σ v) with wildcard := false, bound := some (.app m []) }) v).bound = _
    rw [getVar_setVar_same hv]
  show Except.ok (fulfilStore σ v c U m s, followT (fulfilStore σ v c U m s) (.var v)) = _
  rw [followT_var_app hfin]


/-! ## end to end -/

theorem coBelow_coOps {L : Lang} (wf : WF L) {U : Nat} {as : List Nat}
    (ch : ChainOn L (fun x => x = U ∨ x ∈ as)) (hU : ∀ a ∈ as, Anc L a U) :
    ∀ op ∈ coOps as, CoBelow L U op := by
  intro op hop
  obtain ⟨h1, h2⟩ := mem_coOps.mp hop
  refine ⟨h1, ch.nullary _ (Or.inr h2), ch.not_bot _ (Or.inr h2), ch.not_top _ (Or.inr h2), ?_⟩
  rw [opSub_chain wf ch (Or.inr h2) (Or.inl rfl), decide_eq_true_iff]
  exact (anc_chain_iff wf ch (Or.inr h2) (Or.inl rfl)).mp (hU _ h2)

/-- the run of the supplies: as without the constraint -/
theorem runSupply_pending_chain (L : Lang) (wf : WF L) {σ : Store} {v c U : Nat} {s : Bool} (p : Pend L σ v c U s)
    (n : Nat) (hv : v < σ.vars.length) (hf : FreshI (getVar σ v)) (as : List Nat) (hne : as ≠ [])
    (ch : ChainOn L (fun x => x = U ∨ x ∈ as)) (hU : ∀ a ∈ as, Anc L a U) :
    ∃ m, m ∈ as ∧ (∀ a ∈ as, Anc L a m) ∧
      runSupply L (n+7) σ v (coOps as) =
        .ok (setVar σ v { getVar σ v with wildcard := false, lower := some m }) := by
  have ch_as : ChainOn L (fun x => x ∈ as) := chainOn_congr (fun x hx => Or.inr hx) ch
  have ch' := chain_coOps ch_as
  have hS : ∀ op ∈ coOps as, (fun x => ∃ op ∈ coOps as, op.2 = x) op.2 := fun op h => ⟨op, h, rfl⟩
  have hcompat : Compat L (coOps as) := by
    intro a b _ hb
    have := (mem_coOps.mp hb).1; cases this
  have hi : PendI L U (getVar σ v).cset (getVar σ v) :=
    ⟨hf.1, hf.2.2, rfl, fun l hl => by rw [hf.2.1] at hl; cases hl⟩
  have h1 : IsGreatest L (coArgs (coOps as)) (lowerOf (coOps as)) := lowerOf_isGreatest wf ch' _ hS
  have h2 : IsLeast L (contraArgs (coOps as)) (upperOf (coOps as)) := upperOf_isLeast wf ch' _ hS
  have h3 : runSupply L (n+7) σ v (coOps as) =
      .ok (setVar σ v (resultI (getVar σ v) (lowerOf (coOps as)) (upperOf (coOps as)) (coOps as).isEmpty)) := by
    rw [runSupply_eq_pending L p hv hi n _ (coBelow_coOps wf ch hU), freshI_eta hf,
      runSupI_chain wf ch' _ _ _ hS, (okBounds_iff_compat wf ch' _ hS).mpr hcompat]
    rfl
  have h1' : IsGreatest L as (lowerOf (coOps as)) :=
    isGreatest_congr (fun a => by rw [mem_coArgs, mem_coOps]; simp) h1
  have hup : upperOf (coOps as) = none := isLeast_nil (fun b hb => by
    have := (mem_coOps.mp (mem_contraArgs.mp hb)).1; cases this) h2
  obtain ⟨m, hm⟩ := isGreatest_some hne h1'
  rw [hm] at h1' h3
  rw [hup] at h3
  refine ⟨m, h1'.1, h1'.2, ?_⟩
  rw [h3]
  have hres : resultI (getVar σ v) (some m) none (coOps as).isEmpty =
      { getVar σ v with wildcard := false, lower := some m } := by
    obtain ⟨hb, _, hu⟩ := hf
    rw [coOps_isEmpty hne]
    generalize getVar σ v = i at *
    obtain ⟨bd, lo, up, w, c⟩ := i
    simp only at hb hu
    subst hb hu
    simp [resultI, sealI]
  rw [hres]

/-- **end to end with a pending constraint**: `(x ** x ** … ** x)[x ≤ U].apply(a₁)…apply(aₖ)` with the `aᵢ` and `U` on
one chain and every `aᵢ` below `U` succeeds and returns the least upper bound of the arguments (the greatest `aᵢ`),
as without the constraint; `x` is bound to it, the constraint is marked fulfilled and leaves the constraint set -/
theorem apply_identity_chain_sub (L : Lang) (wf : WF L) {σ : Store} {v c U : Nat} {s : Bool} (p : Pend L σ v c U s)
    (n : Nat) (hv : v < σ.vars.length) (hf : FreshI (getVar σ v)) (as : List Nat) (hne : as ≠ [])
    (ch : ChainOn L (fun x => x = U ∨ x ∈ as)) (hU : ∀ a ∈ as, Anc L a U) :
    ∃ m, m ∈ as ∧ (∀ a ∈ as, Anc L a m) ∧
      applyArgs L (n+7) σ (funN v as.length (.var v)) as =
        .ok (fulfilStore (setVar σ v { getVar σ v with wildcard := false, lower := some m }) v c U m s,
             .app m []) := by
  obtain ⟨m, hm1, hm2, h3⟩ := runSupply_pending_chain L wf p n hv hf as hne ch hU
  refine ⟨m, hm1, hm2, ?_⟩
  rw [applyArgs_chain_fix L (n+7) v v as σ hne, h3]
  simp only
  have hq := coBelow_coOps wf ch hU (true, m) (mem_coOps.mpr ⟨rfl, hm1⟩)
  have hself : opSub L m m true = false := by
    cases h : opSub L m m true with
    | false => rfl
    | true =>
      rcases (opSub_strict_iff wf m m).mp h with h | h | ⟨_, h⟩
      · exact absurd h hq.2.2.1
      · exact absurd h hq.2.2.2.1
      · exact absurd rfl h
  have p' := p.setVar hv { getVar σ v with wildcard := false, lower := some m } rfl
  exact fix_pending_fulfil L p' (by rw [setVar_length]; exact hv)
    (by rw [getVar_setVar_same hv]; exact hf.1) (by rw [getVar_setVar_same hv]; exact hf.2.2)
    (by rw [getVar_setVar_same hv]) hq.2.1 hq.2.2.2.2 hself n

/-- order independence: a permutation of the arguments gives the very same store and type -/
theorem apply_identity_sub_perm (L : Lang) (wf : WF L) {σ : Store} {v c U : Nat} {s : Bool} (p : Pend L σ v c U s)
    (n : Nat) (hv : v < σ.vars.length) (hf : FreshI (getVar σ v)) (as as' : List Nat) (hne : as ≠ [])
    (ch : ChainOn L (fun x => x = U ∨ x ∈ as)) (hU : ∀ a ∈ as, Anc L a U) (hp : as.Perm as') :
    applyArgs L (n+7) σ (funN v as'.length (.var v)) as' = applyArgs L (n+7) σ (funN v as.length (.var v)) as := by
  have hne' : as' ≠ [] := fun e => hne (by rw [e] at hp; exact hp.eq_nil)
  have ch2 : ChainOn L (fun x => x = U ∨ x ∈ as') :=
    chainOn_congr (fun x hx => hx.elim Or.inl (fun h => Or.inr (hp.mem_iff.mpr h))) ch
  obtain ⟨m, hm1, hm2, h3⟩ := apply_identity_chain_sub L wf p n hv hf as hne ch hU
  obtain ⟨m', hm1', hm2', h3'⟩ := apply_identity_chain_sub L wf p n hv hf as' hne' ch2
    (fun a ha => hU a (hp.mem_iff.mpr ha))
  have e : m' = m := by
    have a1 := hm2 m' (hp.mem_iff.mpr hm1')
    have a2 := hm2' m (hp.mem_iff.mp hm1)
    have := (anc_chain_iff wf ch (Or.inr (hp.mem_iff.mpr hm1')) (Or.inr hm1)).mp a1
    have := (anc_chain_iff wf ch (Or.inr hm1) (Or.inr (hp.mem_iff.mpr hm1'))).mp a2
    omega
  rw [h3, h3', e]


/-! ## the constraint is live -/

theorem check_pending_violation {L : Lang} {σ : Store} {v c U : Nat} {s : Bool} (p : Pend L σ v c U s)
    (hb : (getVar σ v).bound = none) {l : Nat} (hl : (getVar σ v).lower = some l) (hno : opSub L l U = false)
    (n : Nat) : checkConstraints L (n+4) σ v = .error .constraintViolation := by
  rw [checkConstraints, p.cs, checkList_cons,
    fulfill_sub_eq L (n+1) σ c (ref := .var v) (tgt := .app U []) (s := s) (f := false) p.ct,
    unify_unbound_base_skip hb p.u0]
  simp only []
  have e : matchFuel σ = (4 * σ.vars.length + 63) + 1 := rfl
  rw [e, match3_var_app (av := v) (bo := U) (bs := []) (followT_var_unbound hb) (followT_app σ U [])]
  have h1 : (U == TOP) = false := by simpa using p.utop
  simp only [h1, p.u0, hl, hno, Bool.and_false, Bool.false_eq_true, if_false, bne_self_eq_false, Option.any_some,
    Bool.not_false, if_true]

/-- a first argument that is not below `U` is rejected by the constraint -/
theorem supply_pending_violation (L : Lang) {σ : Store} {v c U : Nat} {s : Bool} (p : Pend L σ v c U s)
    (hv : v < σ.vars.length) (hf : FreshI (getVar σ v)) (n a : Nat) (h0 : arityOf L a = 0) (hb : a ≠ BOT)
    (ht : a ≠ TOP) (hno : opSub L a U = false) :
    supply L (n+7) v σ (true, a) = .error .constraintViolation := by
  have htt : (a == TOP) = false := by simpa using ht
  have hbs : (getVar σ v).bound.isSome = false := by rw [hf.1]; rfl
  unfold supply
  simp only [if_true]
  rw [unify_base_var L σ (n+6) a v h0 hf.1 hb]
  unfold above
  simp only [htt, hbs, hf.2.1, hf.2.2, Option.any_none, Option.all_none, Bool.false_eq_true, if_false, if_true,
    setVar_setVar]
  have p' := p.setVar hv
    { bound := (getVar σ v).bound, lower := some a, upper := none, wildcard := false, cset := (getVar σ v).cset } rfl
  rw [check_pending_violation p' (by rw [getVar_setVar_same hv]; exact hf.1) (l := a)
    (by rw [getVar_setVar_same hv]) hno (n+1)]

theorem apply_identity_sub_rejects (L : Lang) {σ : Store} {v c U : Nat} {s : Bool} (p : Pend L σ v c U s)
    (hv : v < σ.vars.length) (hf : FreshI (getVar σ v)) (n a : Nat) (rest : List Nat) (h0 : arityOf L a = 0)
    (hb : a ≠ BOT) (ht : a ≠ TOP) (hno : opSub L a U = false) :
    applyArgs L (n+7) σ (funN v (a :: rest).length (.var v)) (a :: rest) = .error .constraintViolation := by
  have hs := supply_pending_violation L p hv hf n a h0 hb ht hno
  cases rest with
  | nil =>
    simp only [List.length_cons, List.length_nil, funN, applyArgs, applyT_fun_var, hs]
  | cons a2 rest =>
    obtain ⟨rs', hrs⟩ := funN_succ_fun v rest.length (.var v)
    rw [show (a :: a2 :: rest).length = (a2 :: rest).length + 1 from rfl]
    rw [show funN v ((a2 :: rest).length + 1) (.var v) = .app FUN [.var v, funN v (a2 :: rest).length (.var v)] from rfl]
    rw [show (a2 :: rest).length = rest.length + 1 from rfl, hrs]
    simp only [applyArgs, applyT_fun_fun, hs]

end Tfv.C05C
