import Tfv.Proofs.WorkflowAcyclic
/-!
# The memo table of `wfExpr`: keys are entered once, each with a `.shared r e`, and the result is the entry

Without passthrough an entry may later be *replaced* by its fixed tree (`Expr.fix()` of the producer when a stand-in
source is made for it): the key stays, the shape of the expression stays (`TExpr.sig`), only types change.
-/
namespace Tfv

/-- an entry made by `wfExpr`: the tool's expression, tagged with its resource -/
def IsSharedOwn (p : Nat × TExpr) : Prop := ∃ e0, p.2 = TExpr.shared p.1 e0

/-- `s'` extends `s` by entries (listed in `l` as they are in `s'`) for distinct resources that had none; the entries
that `s` had are still there, possibly replaced by an expression of the same shape -/
structure MemoExt (s s' : WState) (l : List (Nat × TExpr)) : Prop where
  keys : s'.exprs.map (·.1) = s.exprs.map (·.1) ++ l.map (·.1)
  entry : ∀ p ∈ l, s'.expr? p.1 = some p.2
  shape : ∀ p ∈ l, IsSharedOwn p
  nodup : (l.map (·.1)).Nodup
  fresh : ∀ p ∈ l, s.expr? p.1 = none
  sim : ∀ k v, s.expr? k = some v → ∃ v', s'.expr? k = some v' ∧ v'.sig = v.sig

def MainPost (s : WState) (r : Nat) (s' : WState) (e : TExpr) : Prop :=
  (∃ l, MemoExt s s' l) ∧ s'.expr? r = some e

theorem MemoExt.refl (s : WState) : MemoExt s s [] :=
  ⟨by simp, by simp, by simp, by simp, by simp, fun _ v h => ⟨v, h, rfl⟩⟩

theorem IsSharedOwn.of_sig {k : Nat} {v v' : TExpr} (h : IsSharedOwn (k, v)) (hs : v'.sig = v.sig) : IsSharedOwn (k, v') := by
  obtain ⟨e0, he0⟩ := h
  simp only at he0
  subst he0
  obtain ⟨e0', rfl, _⟩ := sig_shared hs
  exact ⟨e0', rfl⟩

theorem MemoExt.trans {s sm s1 : WState} {la lb : List (Nat × TExpr)} (ha : MemoExt s sm la) (hb : MemoExt sm s1 lb) :
    ∃ l, MemoExt s s1 l ∧ l.map (·.1) = la.map (·.1) ++ lb.map (·.1) := by
  have hk : (la.map (fun p => (p.1, (s1.expr? p.1).getD p.2))).map (·.1) = la.map (·.1) := by
    rw [List.map_map]; rfl
  have hla : ∀ p ∈ la, ∃ v', s1.expr? p.1 = some v' ∧ v'.sig = p.2.sig := fun p hp => hb.sim _ _ (ha.entry p hp)
  refine ⟨la.map (fun p => (p.1, (s1.expr? p.1).getD p.2)) ++ lb, ⟨?_, ?_, ?_, ?_, ?_, ?_⟩, by rw [List.map_append, hk]⟩
  · rw [hb.keys, ha.keys, List.map_append, hk, List.append_assoc]
  · intro p hp
    rcases List.mem_append.1 hp with hp | hp
    · obtain ⟨q, hq, rfl⟩ := List.mem_map.1 hp
      obtain ⟨v', hv', _⟩ := hla q hq
      simp only [hv', Option.getD_some]
    · exact hb.entry p hp
  · intro p hp
    rcases List.mem_append.1 hp with hp | hp
    · obtain ⟨q, hq, rfl⟩ := List.mem_map.1 hp
      obtain ⟨v', hv', hs⟩ := hla q hq
      simp only [hv', Option.getD_some]
      exact IsSharedOwn.of_sig (ha.shape q hq) hs
    · exact hb.shape p hp
  · rw [List.map_append, hk, List.nodup_append]
    refine ⟨ha.nodup, hb.nodup, ?_⟩
    intro x hx y hy hxy
    subst hxy
    obtain ⟨p, hp, rfl⟩ := List.mem_map.1 hy
    have := hb.fresh p hp
    rw [expr?_eq, alook_none_iff, ha.keys] at this
    exact this (List.mem_append_right _ hx)
  · intro p hp
    rcases List.mem_append.1 hp with hp | hp
    · obtain ⟨q, hq, rfl⟩ := List.mem_map.1 hp
      exact ha.fresh q hq
    · exact expr?_none_of_keys ha.keys (hb.fresh p hp)
  · intro k v hv
    obtain ⟨v1, hv1, hs1⟩ := ha.sim k v hv
    obtain ⟨v2, hv2, hs2⟩ := hb.sim k v1 hv1
    exact ⟨v2, hv2, hs2.trans hs1⟩

/-- an entry for a resource that had none is one of the new, tagged entries -/
theorem MemoExt.own_of_fresh {s s' : WState} {l : List (Nat × TExpr)} (h : MemoExt s s' l) {i : Nat} {e : TExpr}
    (he : s'.expr? i = some e) (hi : s.expr? i = none) : IsSharedOwn (i, e) := by
  have hk := alook_some_key (by rw [← expr?_eq]; exact he)
  rw [h.keys] at hk
  rcases List.mem_append.1 hk with hk | hk
  · rw [expr?_eq, alook_none_iff] at hi
    exact absurd hk hi
  · obtain ⟨p, hp, rfl⟩ := List.mem_map.1 hk
    have := h.entry p hp
    rw [he] at this
    cases this
    exact h.shape p hp

theorem foldRun_main {s s1 : WState} {is : List Nat} {es : List TExpr} (hr : FoldRun MainPost s is s1 es) :
    (∃ l, MemoExt s s1 l) ∧ ∀ p ∈ is.zip es, ∃ v, s1.expr? p.1 = some v ∧ v.sig = p.2.sig := by
  induction hr with
  | nil s => exact ⟨⟨[], .refl s⟩, by simp⟩
  | @cons s sm s1 i e is es h1 _ ih =>
    obtain ⟨⟨la, ha⟩, he⟩ := h1
    obtain ⟨⟨lb, hb⟩, hes⟩ := ih
    obtain ⟨l, hl, _⟩ := ha.trans hb
    refine ⟨⟨l, hl⟩, ?_⟩
    intro p hp
    rw [List.zip_cons_cons, List.mem_cons] at hp
    rcases hp with rfl | hp
    · exact hb.sim _ _ he
    · exact hes p hp

/-- the stand-in fold keeps every entry up to shape, given that the input expressions are (up to shape) the entries of
the input resources -/
theorem WfStep.sim {P : PLang} {ops : List OperatorDecl} {w : Wf} {pt : Bool} {s : WState} {r : Nat} {a : WfApp}
    {s1 : WState} {ies : List TExpr} {s2 : WState} {inputs : List TExpr} {xs3 : XState} {e0 : TExpr}
    (hst : WfStep P ops w pt s r a s1 ies s2 inputs xs3 e0)
    (hes : ∀ p ∈ a.inputs.zip ies, ∃ v, s1.expr? p.1 = some v ∧ v.sig = p.2.sig) (k : Nat) (v : TExpr)
    (hv : s1.expr? k = some v) : ∃ v', s2.expr? k = some v' ∧ v'.sig = v.sig := by
  rcases hst.entry_cases k with h | ⟨_, z, hz, hzk, v0, e2, hv0, hs2, he2⟩
  · exact ⟨v, by rw [h, hv], rfl⟩
  · obtain ⟨v1, hv1, hs1⟩ := hes z hz
    rw [hzk, hv] at hv1
    cases hv1
    exact ⟨e2, he2, hs2.trans hs1.symm⟩

/-- appending the entry of `r` after the stand-in fold -/
theorem WfStep.memoExt {P : PLang} {ops : List OperatorDecl} {w : Wf} {pt : Bool} {s : WState} {r : Nat} {a : WfApp}
    {s1 : WState} {ies : List TExpr} {s2 : WState} {inputs : List TExpr} {xs3 : XState} {e0 : TExpr}
    (hst : WfStep P ops w pt s r a s1 ies s2 inputs xs3 e0)
    (hes : ∀ p ∈ a.inputs.zip ies, ∃ v, s1.expr? p.1 = some v ∧ v.sig = p.2.sig) (hs1 : s1.expr? r = none) :
    MemoExt s1 { s2 with xs := xs3, exprs := s2.exprs ++ [(r, TExpr.shared r e0)] } [(r, TExpr.shared r e0)] := by
  have hr2 : alook s2.exprs r = none := hst.absent_stays hs1
  refine ⟨?_, ?_, ?_, by simp, ?_, ?_⟩
  · show (s2.exprs ++ _).map (·.1) = _
    rw [List.map_append, hst.keys]
  · intro p hp; rw [List.mem_singleton] at hp; subst hp
    show alook (s2.exprs ++ _) r = _
    rw [alook_append_none hr2, alook_singleton]
  · intro p hp; rw [List.mem_singleton] at hp; subst hp; exact ⟨e0, rfl⟩
  · intro p hp; rw [List.mem_singleton] at hp; subst hp; exact hs1
  · intro k v hv
    obtain ⟨v', hv', hs⟩ := hst.sim hes k v hv
    exact ⟨v', alook_append_some hv', hs⟩

theorem wfExpr_main (P : PLang) (ops : List OperatorDecl) (w : Wf) (pt : Bool) :
    ∀ n s r s' e, wfExpr P ops w pt n s r = .ok (s', e) → MainPost s r s' e := by
  apply wfExpr_induction'
  · intro s r e he; exact ⟨⟨[], .refl s⟩, he⟩
  · intro s r a s1 ies s2 inputs xs3 e0 hst hr hs1
    obtain ⟨⟨l1, h1⟩, hes⟩ := foldRun_main hr
    have hnew := hst.memoExt hes hs1
    obtain ⟨l, hl, _⟩ := h1.trans hnew
    exact ⟨⟨l, hl⟩, hnew.entry _ List.mem_cons_self⟩

/-- the keys of the memo table stay pairwise distinct -/
theorem MemoExt.keys_nodup {s s' : WState} {l : List (Nat × TExpr)} (h : MemoExt s s' l)
    (hs : (s.exprs.map (·.1)).Nodup) : (s'.exprs.map (·.1)).Nodup := by
  rw [h.keys, List.nodup_append]
  refine ⟨hs, h.nodup, ?_⟩
  intro x hx y hy hxy
  subst hxy
  obtain ⟨p, hp, rfl⟩ := List.mem_map.1 hy
  have := h.fresh p hp
  rw [expr?_eq, alook_none_iff] at this
  exact this hx

/-- **induction principle** with everything known about the input fold: no cycle, the memo table grows by
fresh entries, and the input expressions are (up to shape) the table's entries for the input resources -/
theorem wfExpr_induction2 (P : PLang) (ops : List OperatorDecl) (w : Wf) (pt : Bool)
    (Φ : WState → Nat → WState → TExpr → Prop)
    (memo : ∀ s r e, s.expr? r = some e → Φ s r s e)
    (step : ∀ s r a s1 ies s2 inputs xs3 e0 l1, WfStep P ops w pt s r a s1 ies s2 inputs xs3 e0 →
      FoldRun Φ s a.inputs s1 ies → s1.expr? r = none → MemoExt s s1 l1 →
      (∀ p ∈ a.inputs.zip ies, ∃ v, s1.expr? p.1 = some v ∧ v.sig = p.2.sig) → ies.length = a.inputs.length →
      Φ s r { s2 with xs := xs3, exprs := s2.exprs ++ [(r, TExpr.shared r e0)] } (TExpr.shared r e0)) :
    ∀ n s r s' e, wfExpr P ops w pt n s r = .ok (s', e) → Φ s r s' e := by
  intro n
  induction n with
  | zero => intro s r s' e h; rw [wfExpr_zero] at h; cases h
  | succ n ih =>
    intro s r s' e h
    rcases wfExpr_ok_cases P ops w pt n s r s' e h with ⟨he, rfl⟩ | ⟨a, s1, ies, s2, inputs, xs3, e0, hst, hr, rfl, rfl⟩
    · exact memo _ r e he
    · obtain ⟨⟨l1, h1⟩, hes⟩ := foldRun_main (hr.mono (fun s i s' e h => wfExpr_main P ops w pt n s i s' e h))
      exact step s r a s1 ies s2 inputs xs3 e0 l1 hst (hr.mono (fun s i s' e h => ih s i s' e h))
        (wfExpr_acyclic P ops w pt n s r _ _ h a s1 ies hst.app hst.absent hr) h1 hes hr.length

end Tfv
