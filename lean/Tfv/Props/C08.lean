import Tfv.Model
import Tfv.Spec.Flow
import Tfv.Proofs.FlowGen
import Tfv.Proofs.FlowExamples
import Tfv.Proofs.FlowGenS
import Tfv.Proofs.FlowExamplesS
/-!
# C08 — the `from` edges of a transformation graph are the data flow of the expression

"For an expression whose arguments are all data, the graph restricted to `from` edges is
isomorphic to the application tree: one node per operator application with an edge to the node
of each argument, one shared node per source object however often it is used, and nothing else.
When an operation (or anonymous function) is passed as an argument, exactly one internal node
per such argument is attached to the receiving step; it feeds the passed operation, receives
every other input of the receiving step and the outputs of sibling passed operations, and nested
internal nodes are fed by the enclosing one."

The theorems are about `addExpr` (Model/Graph.lean) in a configuration with `withTypes = false`
(every other switch arbitrary): then no type nodes are made, no blank node is spent on a
non-canonical type, and the only fields of the state that matter are `nextB`, `srcNodes`,
`sharedNodes`, `internals` and `fd.frm`. Expressions are read in the *spine view*
(Spec/Flow.lean): `h a₁ … aₙ` is a head with `n` arguments, not `n` binary applications.
`.shared` nodes (workflow resources) are opaque leaves; an expression containing one is not
first-order, so the first-order and higher-order theorems do not speak about them.

1. `C08_spine_one_node`, `C08_spine_node`: all binary applications of one spine are one graph node.
2. `C08_first_order`: for a first-order expression the new edges, the source map, the counter and
   the result node are *literally* those of the layout function `flowFO`, which is written over the
   spine view without any internal-node logic and hands out node ids in the order the graph code
   does (so no renaming is needed); `C08_first_order_tree` says the same without `flowFO`:
   one new node per operator application, one per new source id, all distinct; every new edge
   goes from an application node to an application or source node; an application node has
   exactly one outgoing edge per argument; the number of new edges is the number of argument
   positions; no internal node is made.
3. `C08_hof_one_level_partial`: a spine whose arguments are first-order, some of them of function
   type (operators, or operators partially applied to data, passed to the receiving operator).
   NOT covered by this theorem: nested internal nodes (a passed operation that itself receives an
   operation); `C08_hof_one_level_fails_nested` shows that its description is false for them.
   `C08_hof_nested` is the local rule for them (any expression).
   `C08_hof_wiring` is the complete local rule for one passed operation (any expression, any
   configuration): the internal node receives *every* input the receiving step had before this
   argument — its own argument's node too when that was an input already (the same source passed a
   second time; graph.py `repeated`) — and, under three disequalities on the state, the new edges
   are exactly the listed ones. `C08_hof_one_level_sources` is the one-level theorem for spines in
   which sources of function type are passed as operations, the same one several times included.
4. `C08_hof_general`: operations passed as arguments at any depth (class `Hof`: every spine has an
   operator at its head, an argument of function type is not a source, no `.shared` nodes). The
   internal pairs are literally, and the `from` edges as a set, those of the recursive layout
   `flowHO`, whose spine case is `spineInts`/`spineEdges`: the edges inside the arguments, the
   one-level edges `hofEdges` at the receiving step, and the nested rule. This subsumes 2 and 3
   (`C08_hof_class`) up to the order of the edge list.
5. `C08_hofS_general`: the same at any depth for the wider class `HofS`, in which a passed operation may
   also be a *source* of function type, the same one as often as one likes, inside and outside nested
   operations (`k s s`, `h (u s) s`). The layout is the same `flowHO`; the state must not have internal
   nodes hanging off source nodes (`SrcNoInt`, kept: `C08_hofS_general_fresh`). `C08_hofS_subsumes`: the
   class of 4 is a subclass. `C08_hofS_step`, `C08_hofS_repeated`: the receiving step's argument list and
   the reading of the `repeated` rule. Expressions outside `HofS` (a source at the head of a spine with
   arguments, shared expression objects) are left to the differential test against an independent
   Python construction; `C08_source_head_splits_spine` shows what the model does for a source at the head.

Statements only; proofs in `Tfv/Proofs/Flow*.lean` (namespace `Tfv.C08P`).
-/
namespace Tfv.C08
open Tfv Tfv.C08P

/-! ## 0. edges only -/

/-- `gAddFrom` always puts the pair in front of `frm`, with or without `withDependencies`. -/
theorem C08_frm_gAddFrom (c : GCfg) (g : GState) (a b : Nat) (r : Bool) :
    (gAddFrom c g a b r).fd.frm = (a, b) :: g.fd.frm :=
  frm_gAddFrom c g a b r

/-- Without types the graph construction cannot fail. -/
theorem C08_total (G : GLang) (c : GCfg) (root : Node) (origin : Option Node) (hc : c.withTypes = false)
    (g : GState) (e : TExpr) (cur : Option Nat) (im : Bool) :
    ∃ g' n, addExpr G c root origin g e cur im = .ok (g', n) :=
  addExpr_total hc g e cur im

/-- The concept nodes, the internal nodes and the `from` edges depend on nothing but the expression
and the same five fields of the starting state: not on the language, the other switches of the
configuration (`withDependencies`, `withOperators`, …), the root, the origin or the
`intermediate` flag. -/
theorem C08_edges_config_independent (G1 G2 : GLang) (c1 c2 : GCfg) (root1 root2 : Node)
    (origin1 origin2 : Option Node) (hc1 : c1.withTypes = false) (hc2 : c2.withTypes = false)
    (g1 g2 g1' g2' : GState) (e : TExpr) (cur : Option Nat) (im1 im2 : Bool) (n1 n2 : Nat)
    (hcore : g1.nextB = g2.nextB ∧ g1.srcNodes = g2.srcNodes ∧ g1.sharedNodes = g2.sharedNodes ∧
      g1.internals = g2.internals ∧ g1.fd.frm = g2.fd.frm)
    (h1 : addExpr G1 c1 root1 origin1 g1 e cur im1 = .ok (g1', n1))
    (h2 : addExpr G2 c2 root2 origin2 g2 e cur im2 = .ok (g2', n2)) :
    n1 = n2 ∧ g1'.nextB = g2'.nextB ∧ g1'.srcNodes = g2'.srcNodes ∧ g1'.sharedNodes = g2'.sharedNodes ∧
      g1'.internals = g2'.internals ∧ g1'.fd.frm = g2'.fd.frm :=
  addExpr_config_independent hc1 hc2 hcore h1 h2

example : exCfg.withTypes = false ∧ exCfgOps.withTypes = false ∧
    summary (addExpr exG exCfg (.res "w") none {} exShared none false) =
    summary (addExpr exG exCfgOps (.res "w") none {} exShared none false) :=
  ⟨rfl, rfl, by rw [exShared_run, exShared_run_ops]⟩

/-! ## 1. one node per spine (any configuration) -/

/-- Every function part of a spine `h a₁ … aₙ` (that is `h a₁ … aₙ`, `h a₁ … aₙ₋₁`, …, `h`) is added
to the very same state with the very same reserved node `cur`, and unless it is a source or a
shared object (which have nodes of their own) it answers with `cur`: the whole spine is one node. -/
theorem C08_spine_one_node (G : GLang) (c : GCfg) (root : Node) (origin : Option Node) (im : Bool) (cur : Nat)
    (e : TExpr) (g g' : GState) (n : Nat)
    (h : addExpr G c root origin g e (some cur) im = .ok (g', n)) :
    ∀ s ∈ spinePrefixes e, ∃ g1 m, addExpr G c root origin g s (some cur) im = .ok (g1, m) ∧
      (s.isLeafData = false → m = cur) :=
  addExpr_spine_prefixes e g g' n h

example : spinePrefixes exShared =
    [exShared, .app (.op "f" tAAA) (.app (.op "g" tAA) exX tA) tAA, .op "f" tAAA] := rfl

/-- The node of an application or an operator is the reserved one, or the next unused one when
none was reserved (`allocNode next (some k) = (k, next)`, `allocNode next none = (next, next + 1)`). -/
theorem C08_spine_node (G : GLang) (c : GCfg) (root : Node) (origin : Option Node) (im : Bool)
    (e : TExpr) (g g' : GState) (cur : Option Nat) (n : Nat) (he : e.isLeafData = false)
    (h : addExpr G c root origin g e cur im = .ok (g', n)) :
    n = (allocNode g.nextB cur).1 :=
  addExpr_node_cases he h

example : exShared.isLeafData = false ∧
    summary (addExpr exG exCfg (.res "w") none {} exShared none false) =
      some ([(0, 2), (0, 1), (1, 2)], [], [(0, 2)], 4, 0) := ⟨rfl, exShared_run⟩

/-! ## 2. first-order expressions -/

/-- `firstOrder` decides `FirstOrder`. -/
theorem C08_firstOrder_iff (e : TExpr) : firstOrder e = true ↔ FirstOrder e := firstOrder_iff e

/-- For a first-order expression added to a consistent state (`GFresh`; a reserved node, if any,
is unused: `CurFree`), the result node, the counter, the source map and the new `from` edges are
exactly those of the application-tree layout `flowFO` started at the state's counter and source
map; no internal node is made and the shared-object map is untouched. -/
theorem C08_first_order (G : GLang) (c : GCfg) (root : Node) (origin : Option Node) (hc : c.withTypes = false)
    (g g' : GState) (e : TExpr) (cur : Option Nat) (im : Bool) (n : Nat) (hfo : FirstOrder e)
    (hg : GFresh g) (hcur : ∀ m, cur = some m → CurFree g m)
    (h : addExpr G c root origin g e cur im = .ok (g', n)) :
    n = (flowFO g.nextB g.srcNodes e cur).node ∧
    g'.nextB = (flowFO g.nextB g.srcNodes e cur).next ∧
    g'.srcNodes = (flowFO g.nextB g.srcNodes e cur).memo ∧
    g'.fd.frm = (flowFO g.nextB g.srcNodes e cur).edges ++ g.fd.frm ∧
    g'.internals = g.internals ∧ g'.sharedNodes = g.sharedNodes :=
  addExpr_first_order hc hfo (pre_of_fresh hg hcur).2 h

/-- The spine case of `flowFO`, spelled out: the node is the reserved or next unused one, and the
arguments are folded in left to right; each step (`flowStep`/`flowArg`) reserves the next id for the
argument, lays the argument out, and adds the one edge `(spine node, argument node)`. -/
theorem C08_flowFO_spine (next : Nat) (memo : List (Nat × Nat)) (e : TExpr) (cur : Option Nat) (name : String)
    (ty : Term) (h : headOf e = .op name ty) :
    flowFO next memo e cur =
      (argsOf e).foldl (fun st x => flowArg (allocNode next cur).1 st (flowFO (st.next + 1) st.memo x (some st.next)))
        { node := (allocNode next cur).1, next := (allocNode next cur).2, memo := memo, edges := [],
          ops := [((allocNode next cur).1, e)] } :=
  flowFO_spine next memo e cur name ty h

/-- `f (g x) x`: first-order, the layout has the two application nodes 0 and 1, the one source
node 2 used twice, and three edges; the graph code produces exactly that. -/
example : FirstOrder exShared ∧ GFresh {} ∧
    flowFO 0 [] exShared none =
      { node := 0, next := 4, memo := [(0, 2)], edges := [(0, 2), (0, 1), (1, 2)],
        ops := [(0, exShared), (1, .app (.op "g" tAA) exX tA)] } ∧
    summary (addExpr exG exCfg (.res "w") none {} exShared none false) =
      some ([(0, 2), (0, 1), (1, 2)], [], [(0, 2)], 4, 0) :=
  ⟨exShared_fo, gfresh_empty, exShared_flow, exShared_run⟩

/-- The same without the layout function: there are a list `ops` of (node, operator application)
pairs and a list `newSrc` of (source id, node) pairs such that
* the graph has the old edges plus `newEdges`, the old sources plus `newSrc`, and the old internal nodes;
* `ops` lists exactly the operator applications (spines) of the expression: one node each;
* the nodes of `ops` and of `newSrc` are pairwise distinct and new (the reserved node, or handed
  out by the counter during this call);
* the ids in `newSrc` are distinct and had no node before: a source id has one node, once and for all;
* every new edge goes from an application node to an application node or a source node;
* an application node has exactly as many outgoing new edges as the application has arguments,
  and there are as many new edges as argument positions in the expression;
* the result node is an application node or a source node. -/
theorem C08_first_order_tree (G : GLang) (c : GCfg) (root : Node) (origin : Option Node) (hc : c.withTypes = false)
    (g g' : GState) (e : TExpr) (cur : Option Nat) (im : Bool) (n : Nat) (hfo : FirstOrder e)
    (hg : GFresh g) (hcur : ∀ m, cur = some m → CurFree g m)
    (h : addExpr G c root origin g e cur im = .ok (g', n)) :
    ∃ (newEdges : List (Nat × Nat)) (ops : List (Nat × TExpr)) (newSrc : List (Nat × Nat)),
      g'.fd.frm = newEdges ++ g.fd.frm ∧ g'.srcNodes = g.srcNodes ++ newSrc ∧ g'.internals = g.internals ∧
      g'.sharedNodes = g.sharedNodes ∧ g.nextB ≤ g'.nextB ∧
      ops.map Prod.snd = subSpines e ∧
      (ops.map Prod.fst ++ newSrc.map Prod.snd).Nodup ∧
      (∀ m ∈ ops.map Prod.fst ++ newSrc.map Prod.snd, (cur = some m ∨ g.nextB ≤ m) ∧ m < g'.nextB) ∧
      (newSrc.map Prod.fst).Nodup ∧ (∀ p ∈ newSrc, p.1 ∉ g.srcNodes.map Prod.fst) ∧
      (∀ p ∈ newEdges, p.1 ∈ ops.map Prod.fst ∧ (p.2 ∈ ops.map Prod.fst ∨ p.2 ∈ g'.srcNodes.map Prod.snd)) ∧
      (∀ q ∈ ops, (objectsOf newEdges q.1).length = (argsOf q.2).length) ∧
      newEdges.length = numArgs e ∧
      (n ∈ ops.map Prod.fst ∨ n ∈ g'.srcNodes.map Prod.snd) :=
  addExpr_first_order_tree hc hfo hg hcur h

/-- The number of new non-source nodes is the number of operator applications. -/
theorem C08_first_order_node_count (next : Nat) (memo : List (Nat × Nat)) (e : TExpr) (cur : Option Nat)
    (hfo : FirstOrder e) (hm : ∀ p ∈ memo, p.2 < next)
    (hc : ∀ m, cur = some m → m < next ∧ ∀ p ∈ memo, p.2 ≠ m) :
    (flowFO next memo e cur).ops.length = numSpines e ∧
    (flowFO next memo e cur).edges.length = numArgs e :=
  flowFO_counts hfo hm hc

/-- Adding a first-order expression keeps the state consistent, so the theorems can be applied to
the next expression. -/
theorem C08_first_order_fresh (G : GLang) (c : GCfg) (root : Node) (origin : Option Node) (hc : c.withTypes = false)
    (g g' : GState) (e : TExpr) (cur : Option Nat) (im : Bool) (n : Nat) (hfo : FirstOrder e)
    (hg : GFresh g) (hcur : ∀ m, cur = some m → CurFree g m)
    (h : addExpr G c root origin g e cur im = .ok (g', n)) : GFresh g' :=
  addExpr_first_order_fresh hc hfo hg hcur h

/-! ## 3. operations passed as arguments -/

/-- One level of passed operations. The spine `e = h a₁ … aₙ` has an operator at its head and
first-order arguments; an argument of function type (an operator, possibly applied to some data)
has an operator at its head. `flowHO1` lays out the arguments one after the other (`args`: the
node of each argument and, for the function-typed ones, a fresh internal node; `inner`: the
application-tree edges inside the arguments). Then
* the result node `n` is the reserved node, or the next unused one;
* exactly one internal node is attached to `n` per function-typed argument, in order, all
  distinct and new (`lamsOf`, and the last three conjuncts);
* the `from` edges are, as a set, the old ones, those inside the arguments, and `hofEdges`:
  `n → node(aᵢ)` for every argument; `node(aᵢ) → λᵢ` for every passed operation; and
  `λᵢ → node(aⱼ)` for every passed operation `aᵢ` and every other argument `aⱼ` (`j ≠ i`, data and
  sibling passed operations alike).

`_partial`: nested internal nodes — a passed operation that itself receives an operation
("nested internal nodes are fed by the enclosing one") — are excluded by `HofArg` (the arguments
are first-order), and for them this description is false (`C08_hof_one_level_fails_nested`).
They are covered by `C08_hof_general` (edges as a set over the recursive layout `flowHO`) and by
the local rule `C08_hof_nested`; and, independently of these proofs, by the differential test
against an independent Python construction. What this theorem has over the general one: the
edges inside the arguments are given as the literal `flowFO` edge lists. -/
theorem C08_hof_one_level_partial (G : GLang) (c : GCfg) (root : Node) (origin : Option Node)
    (hc : c.withTypes = false) (g g' : GState) (e : TExpr) (cur : Option Nat) (im : Bool) (n : Nat)
    (name : String) (ty : Term) (hh : headOf e = .op name ty) (hargs : ∀ a ∈ argsOf e, HofArg a)
    (hg : GFresh g) (hcur : ∀ m, cur = some m → CurFree g m)
    (h : addExpr G c root origin g e cur im = .ok (g', n)) :
    n = (allocNode g.nextB cur).1 ∧
    g'.nextB = (flowHO1 g.nextB g.srcNodes e cur).next ∧
    g'.srcNodes = (flowHO1 g.nextB g.srcNodes e cur).memo ∧
    g'.sharedNodes = g.sharedNodes ∧
    g'.internals = g.internals ++ lamsOf n (flowHO1 g.nextB g.srcNodes e cur).args ∧
    (∀ p, p ∈ g'.fd.frm ↔ p ∈ g.fd.frm ∨ p ∈ (flowHO1 g.nextB g.srcNodes e cur).inner ∨
      hofEdges n (flowHO1 g.nextB g.srcNodes e cur).args p) ∧
    (flowHO1 g.nextB g.srcNodes e cur).args.map (fun info => info.lam.isSome) =
      (argsOf e).map (fun a => a.ty.isFunction) ∧
    ((flowHO1 g.nextB g.srcNodes e cur).args.filterMap (fun a => a.lam)).Nodup ∧
    (∀ a ∈ (flowHO1 g.nextB g.srcNodes e cur).args, ∀ i, a.lam = some i → g.nextB ≤ i ∧ i < g'.nextB) :=
  addExpr_hof_one_level hc hh hargs hg hcur h

/-- `h u x` with `u : A ** A`: node 0 for `h u x`, node 1 for `u`, its internal node 2, source node 3.
Edges `0 → 1`, `0 → 3` (inputs of `h`), `1 → 2` (`u` is fed by its internal node), `2 → 3` (the
internal node receives the other input). -/
example : headOf exHof = .op "h" tFAA ∧ (∀ a ∈ argsOf exHof, HofArg a) ∧ GFresh {} ∧
    flowHO1 0 [] exHof none =
      { node := 0, next := 4, memo := [(0, 3)], args := [⟨1, some 2⟩, ⟨3, none⟩], inner := [] } ∧
    summary (addExpr exG exCfg (.res "w") none {} exHof none false) =
      some ([(2, 3), (0, 3), (0, 1), (1, 2)], [(0, 2)], [(0, 3)], 4, 0) :=
  ⟨rfl, exHof_args, gfresh_empty, exHof_flow, exHof_run⟩

/-- A one-level higher-order spine keeps the state consistent, so the theorems can be applied to
the next expression. -/
theorem C08_hof_one_level_fresh (G : GLang) (c : GCfg) (root : Node) (origin : Option Node)
    (hc : c.withTypes = false) (g g' : GState) (e : TExpr) (cur : Option Nat) (im : Bool) (n : Nat)
    (name : String) (ty : Term) (hh : headOf e = .op name ty) (hargs : ∀ a ∈ argsOf e, HofArg a)
    (hg : GFresh g) (hcur : ∀ m, cur = some m → CurFree g m)
    (h : addExpr G c root origin g e cur im = .ok (g', n)) : GFresh g' :=
  addExpr_hof_one_level_fresh hc hh hargs hg hcur h

/-- Why `_partial`: without the restriction to first-order arguments the one-level description is
false. For `h (u v) x` (`u v` passed to `h`, `v` passed to `u`) the graph has a second internal
pair, one more blank node, and the edge `(4, 2)` from the internal node of `u` to the internal
node of `h`, which is neither inside an argument nor an edge of `hofEdges`. -/
theorem C08_hof_one_level_fails_nested (g' : GState) (n : Nat)
    (h : addExpr exG exCfg (.res "w") none {} exNested none false = .ok (g', n)) :
    headOf exNested = .op "h" tFAA ∧
    g'.internals ≠ ({} : GState).internals ++ lamsOf n (flowHO1 0 [] exNested none).args ∧
    g'.nextB ≠ (flowHO1 0 [] exNested none).next ∧
    (4, 2) ∈ g'.fd.frm ∧ (4, 2) ∉ (flowHO1 0 [] exNested none).inner ∧
    ¬ hofEdges n (flowHO1 0 [] exNested none).args (4, 2) :=
  ⟨rfl, exNested_not_one_level g' n h⟩

/-- The local rule for nested internal nodes (any expression, also higher levels): when the
argument `x` of an application `f x` has a function type, a new internal node
`lam = g1.nextB + 1` is attached to the node `fnode` of `f` before `x` is added (with the reserved
node `g1.nextB`); afterwards `x`'s node is fed by `lam`, `fnode` by `x`'s node, nothing is removed,
and every internal node `μ` attached to `x`'s node is fed by `lam`. -/
theorem C08_hof_nested (G : GLang) (c : GCfg) (root : Node) (origin : Option Node) (g g' : GState)
    (f x : TExpr) (ty : Term) (m : Nat) (im : Bool) (n : Nat) (hc : c.withTypes = false)
    (hfun : x.ty.isFunction = true)
    (h : addExpr G c root origin g (.app f x ty) (some m) im = .ok (g', n)) :
    ∃ (g1 : GState) (fnode : Nat) (gi g2 : GState) (xnode : Nat),
      addExpr G c root origin g f (some m) im = .ok (g1, fnode) ∧
      gi.nextB = g1.nextB + 2 ∧ gi.internals = g1.internals ++ [(fnode, g1.nextB + 1)] ∧
      gi.srcNodes = g1.srcNodes ∧ gi.sharedNodes = g1.sharedNodes ∧ gi.fd = g1.fd ∧
      addExpr G c root origin gi x (some g1.nextB) true = .ok (g2, xnode) ∧
      g'.internals = g2.internals ∧ (fnode, g1.nextB + 1) ∈ g'.internals ∧
      (xnode, g1.nextB + 1) ∈ g'.fd.frm ∧ (fnode, xnode) ∈ g'.fd.frm ∧
      (∀ p ∈ g2.fd.frm, p ∈ g'.fd.frm) ∧
      ∀ μ, (xnode, μ) ∈ g2.internals → (μ, g1.nextB + 1) ∈ g'.fd.frm :=
  addExpr_nested hc hfun h

/-- The complete local rule for one passed operation (any expression, any configuration, any state).
With `g1`, `fnode`, `gi`, `g2`, `xnode` as in `C08_hof_nested` and `lam = g1.nextB + 1` the internal node
made for the argument `x`:
* `lam` receives every input `fin` that the step `fnode` has in `g2`, i.e. before this argument is
  wired. There is no exception for `x`'s own node: when `xnode` is an input of `fnode` already (the
  same source passed a second time), `lam` receives `xnode` as well;
* every other internal node `j` of the step receives `xnode` (so an internal node also gets the
  arguments that come after its own);
* if `fnode ≠ xnode` and `fnode` is not listed as an internal node of itself or of `xnode`, the edges
  after the call are exactly those of `g2` and: `xnode → lam`; `fnode → xnode`; `μ → lam` for the internal
  nodes `μ` of `xnode` (nested rule); `j → xnode` for the other internal nodes `j` of `fnode`; `lam → fin`
  for the inputs `fin` of `fnode` in `g2`. In particular `lam → xnode` is a new edge exactly when
  `fnode → xnode` is an edge of `g2`. -/
theorem C08_hof_wiring (G : GLang) (c : GCfg) (root : Node) (origin : Option Node) (g g' : GState)
    (f x : TExpr) (ty : Term) (m : Nat) (im : Bool) (n : Nat)
    (hfun : x.ty.isFunction = true)
    (h : addExpr G c root origin g (.app f x ty) (some m) im = .ok (g', n)) :
    ∃ (g1 : GState) (fnode : Nat) (gi g2 : GState) (xnode : Nat),
      addExpr G c root origin g f (some m) im = .ok (g1, fnode) ∧
      gi.nextB = g1.nextB + 2 ∧ gi.internals = g1.internals ++ [(fnode, g1.nextB + 1)] ∧
      gi.srcNodes = g1.srcNodes ∧ gi.sharedNodes = g1.sharedNodes ∧ gi.fd = g1.fd ∧
      addExpr G c root origin gi x (some g1.nextB) true = .ok (g2, xnode) ∧
      g'.internals = g2.internals ∧
      (∀ fin, (fnode, fin) ∈ g2.fd.frm → (g1.nextB + 1, fin) ∈ g'.fd.frm) ∧
      (∀ j, (fnode, j) ∈ g2.internals → j ≠ g1.nextB + 1 → (j, xnode) ∈ g'.fd.frm) ∧
      (fnode ≠ xnode → (fnode, fnode) ∉ g2.internals → (xnode, fnode) ∉ g2.internals →
        ∀ p, p ∈ g'.fd.frm ↔
          p ∈ g2.fd.frm ∨ p = (xnode, g1.nextB + 1) ∨ p = (fnode, xnode) ∨
          (∃ μ, (xnode, μ) ∈ g2.internals ∧ p = (μ, g1.nextB + 1)) ∨
          (∃ j, (fnode, j) ∈ g2.internals ∧ j ≠ g1.nextB + 1 ∧ p = (j, xnode)) ∨
          (∃ fin, (fnode, fin) ∈ g2.fd.frm ∧ p = (g1.nextB + 1, fin))) :=
  addExpr_wiring hfun h

/-- `k s s` with the source `s : A ** A` passed twice: the outer application has a function-typed
argument, and the run has the edge `4 → 1` from the second internal node to `s`'s node, which is its
own argument's node and was an input of node 0 already. -/
example : (match exRep with | .app _ x _ => x.ty.isFunction | _ => false) = true ∧
    summary (addExpr exG exCfg (.res "w") none {} exRep none false) =
      some ([(4, 1), (2, 1), (0, 1), (1, 4), (0, 1), (1, 2)], [(0, 2), (0, 4)], [(3, 1)], 5, 0) :=
  ⟨rfl, exRep_run⟩

/-- One level of passed operations, sources included. Like `C08_hof_one_level_partial`, but a passed
operation need not have an operator at its head: the arguments are just first-order, so a source of
function type may be passed, also several times. Instead the state must not have an internal node
attached to a source node (`SrcNoInt`; true of the empty state, kept by this theorem's expressions:
`C08_hof_one_level_sources_fresh`). The description is literally the same, and `hofEdges` speaks of
argument *positions*: the internal node `λᵢ` receives `node(aⱼ)` for every `j ≠ i`, also when
`node(aⱼ) = node(aᵢ)` because the same source is passed at both positions. (Before the repair of
defect D27 the later of two such internal nodes did not receive the node, and this statement was
false for `k s s`.) -/
theorem C08_hof_one_level_sources (G : GLang) (c : GCfg) (root : Node) (origin : Option Node)
    (hc : c.withTypes = false) (g g' : GState) (e : TExpr) (cur : Option Nat) (im : Bool) (n : Nat)
    (name : String) (ty : Term) (hh : headOf e = .op name ty) (hargs : ∀ a ∈ argsOf e, FirstOrder a)
    (hg : GFresh g) (hs : SrcNoInt g) (hcur : ∀ m, cur = some m → CurFree g m)
    (h : addExpr G c root origin g e cur im = .ok (g', n)) :
    n = (allocNode g.nextB cur).1 ∧
    g'.nextB = (flowHO1 g.nextB g.srcNodes e cur).next ∧
    g'.srcNodes = (flowHO1 g.nextB g.srcNodes e cur).memo ∧
    g'.sharedNodes = g.sharedNodes ∧
    g'.internals = g.internals ++ lamsOf n (flowHO1 g.nextB g.srcNodes e cur).args ∧
    (∀ p, p ∈ g'.fd.frm ↔ p ∈ g.fd.frm ∨ p ∈ (flowHO1 g.nextB g.srcNodes e cur).inner ∨
      hofEdges n (flowHO1 g.nextB g.srcNodes e cur).args p) ∧
    (flowHO1 g.nextB g.srcNodes e cur).args.map (fun info => info.lam.isSome) =
      (argsOf e).map (fun a => a.ty.isFunction) ∧
    ((flowHO1 g.nextB g.srcNodes e cur).args.filterMap (fun a => a.lam)).Nodup ∧
    (∀ a ∈ (flowHO1 g.nextB g.srcNodes e cur).args, ∀ i, a.lam = some i → g.nextB ≤ i ∧ i < g'.nextB) :=
  addExpr_hof_one_level_src hc hh hargs hg hs hcur h

/-- `k s s`: not in the class of `C08_hof_one_level_partial` (a passed operation is a source), but its
arguments are first-order and the empty state qualifies; both positions have node 1, the internal
nodes are 2 and 4, and `4 → 1` is an edge of the description (`i = 1`, `j = 0`) and of the graph. -/
example : headOf exRep = .op "k" tFFA ∧ (∀ a ∈ argsOf exRep, FirstOrder a) ∧ (¬ ∀ a ∈ argsOf exRep, HofArg a) ∧
    GFresh {} ∧ SrcNoInt {} ∧
    flowHO1 0 [] exRep none =
      { node := 0, next := 5, memo := [(3, 1)], args := [⟨1, some 2⟩, ⟨1, some 4⟩], inner := [] } ∧
    hofEdges 0 [⟨1, some 2⟩, ⟨1, some 4⟩] (4, 1) ∧
    summary (addExpr exG exCfg (.res "w") none {} exRep none false) =
      some ([(4, 1), (2, 1), (0, 1), (1, 4), (0, 1), (1, 2)], [(0, 2), (0, 4)], [(3, 1)], 5, 0) :=
  ⟨rfl, exRep_args, exRep_not_hofArg, gfresh_empty, srcNoInt_empty, exRep_flow, exRep_edge, exRep_run⟩

/-- Such a spine keeps the state consistent and free of internal nodes attached to source nodes, so
the theorems can be applied to the next expression. -/
theorem C08_hof_one_level_sources_fresh (G : GLang) (c : GCfg) (root : Node) (origin : Option Node)
    (hc : c.withTypes = false) (g g' : GState) (e : TExpr) (cur : Option Nat) (im : Bool) (n : Nat)
    (name : String) (ty : Term) (hh : headOf e = .op name ty) (hargs : ∀ a ∈ argsOf e, FirstOrder a)
    (hg : GFresh g) (hs : SrcNoInt g) (hcur : ∀ m, cur = some m → CurFree g m)
    (h : addExpr G c root origin g e cur im = .ok (g', n)) : GFresh g' ∧ SrcNoInt g' :=
  addExpr_hof_one_level_src_fresh hc hh hargs hg hs hcur h

/-- `h (u v) x`, where `u v : A ** A` is passed to `h` and `v : A ** A` is passed to `u`.
Nodes: 0 = `h …`, 1 = `u v` with internal node 2 (of `h`), 3 = `v` with internal node 4 (of `u`), 5 = `x`.
The edge `(4, 2)` is the nested rule; it is not an edge of the one-level description. -/
example : (match exNested with | .app _ x _ => x.ty.isFunction | _ => false) = false ∧
    (match exNested with | .app (.app _ x _) _ _ => x.ty.isFunction | _ => false) = true ∧
    summary (addExpr exG exCfg (.res "w") none {} exNested none false) =
      some ([(2, 5), (0, 5), (4, 2), (0, 1), (1, 2), (1, 3), (3, 4)], [(0, 2), (1, 4)], [(0, 5)], 6, 0) :=
  ⟨rfl, rfl, exNested_run⟩

/-! ## 4. operations passed as arguments at any depth -/

/-- `hof` is a sound check of the class `Hof`; first-order expressions and the one-level
higher-order spines of `C08_hof_one_level_partial` are in the class. -/
theorem C08_hof_class :
    (∀ e, hof e = true → Hof e) ∧ (∀ e, FirstOrder e → Hof e) ∧
    (∀ e name ty, headOf e = .op name ty → (∀ a ∈ argsOf e, HofArg a) → Hof e) :=
  ⟨hof_sound, fun _ h => hof_of_firstOrder h, fun _ _ _ hh hargs => hof_of_hofArgs hh hargs⟩

/-- Operations passed as arguments at any depth. For an expression `e` of the class `Hof` with an
operator at its head, added to a consistent state, `flowHOTop` (= `flowHO` started with the reserved
node, or with the next unused one) describes the result exactly:
* the result node, the counter, the source map;
* the internal pairs: the old ones followed by `ints`, which for a spine with node `n` is, per
  argument in order, the pair `(n, λ)` if the argument has a function type (exactly one internal
  node per passed operation, attached to the receiving step) followed by the pairs made inside
  the argument (`spineInts`); all internal nodes are distinct and new;
* the `from` edges, as a set: the old ones and `edges`, which for a spine with node `n` is
  `spineEdges`: the edges inside the arguments; `n → node(aᵢ)` for every argument; `node(aᵢ) → λᵢ`
  for every passed operation (the internal node feeds the passed operation); `λᵢ → node(aⱼ)` for
  every passed operation `aᵢ` and every other argument `aⱼ`, data or sibling passed operation
  (`hofEdges`); and `μ → λᵢ` for every internal node `μ` attached to the node of the passed
  operation `aᵢ` (nested internal nodes are fed by the enclosing one). -/
theorem C08_hof_general (G : GLang) (c : GCfg) (root : Node) (origin : Option Node)
    (hc : c.withTypes = false) (g g' : GState) (e : TExpr) (cur : Option Nat) (im : Bool) (n : Nat)
    (name : String) (ty : Term) (hof : Hof e) (hh : headOf e = .op name ty)
    (hg : GFresh g) (hcur : ∀ m, cur = some m → CurFree g m)
    (h : addExpr G c root origin g e cur im = .ok (g', n)) :
    n = (allocNode g.nextB cur).1 ∧
    n = (flowHOTop g.nextB g.srcNodes e cur).node ∧
    g'.nextB = (flowHOTop g.nextB g.srcNodes e cur).next ∧
    g'.srcNodes = (flowHOTop g.nextB g.srcNodes e cur).memo ∧
    g'.sharedNodes = g.sharedNodes ∧
    g'.internals = g.internals ++ (flowHOTop g.nextB g.srcNodes e cur).ints ∧
    (∀ p, p ∈ g'.fd.frm ↔ p ∈ g.fd.frm ∨ (flowHOTop g.nextB g.srcNodes e cur).edges p) ∧
    ((flowHOTop g.nextB g.srcNodes e cur).ints.map Prod.snd).Nodup ∧
    (∀ q ∈ (flowHOTop g.nextB g.srcNodes e cur).ints, g.nextB ≤ q.2 ∧ q.2 < g'.nextB) :=
  addExpr_hof_general hc hof hh hg hcur h

/-- The spine case of the layout, spelled out: the node is the reserved one, the arguments are laid
out left to right by `hoArgStep` (reserve the argument's node, reserve its internal node if it has a
function type, lay the argument out), and the internal pairs and edges are `spineInts` and
`spineEdges` of the argument layouts. -/
theorem C08_flowHO_spine (next : Nat) (memo : List (Nat × Nat)) (e : TExpr) (cur : Nat) (name : String) (ty : Term)
    (h : headOf e = .op name ty) :
    flowHO next memo e cur =
      { node := cur, next := ((argsOf e).foldl hoArgStep { next := next, memo := memo, rs := [] }).next,
        memo := ((argsOf e).foldl hoArgStep { next := next, memo := memo, rs := [] }).memo,
        ints := spineInts cur ((argsOf e).foldl hoArgStep { next := next, memo := memo, rs := [] }).rs,
        edges := spineEdges cur ((argsOf e).foldl hoArgStep { next := next, memo := memo, rs := [] }).rs } :=
  flowHO_spine next memo e cur name ty h

/-- `h (u v) x`: in the class; the layout evaluated from its definition has the internal pairs
`(0, 2)` and `(1, 4)`; its edge set is the one-level edges plus the nested edge `(4, 2)`; and that is
what the graph code produces. -/
example : Hof exNested ∧ headOf exNested = .op "h" tFAA ∧ GFresh {} ∧
    ((flowHOTop 0 [] exNested none).node = 0 ∧ (flowHOTop 0 [] exNested none).next = 6 ∧
      (flowHOTop 0 [] exNested none).memo = [(0, 5)] ∧ (flowHOTop 0 [] exNested none).ints = [(0, 2), (1, 4)]) ∧
    (∀ p, (flowHOTop 0 [] exNested none).edges p ↔
      p ∈ [(2, 5), (0, 5), (4, 2), (0, 1), (1, 2), (1, 3), (3, 4)]) ∧
    summary (addExpr exG exCfg (.res "w") none {} exNested none false) =
      some ([(2, 5), (0, 5), (4, 2), (0, 1), (1, 2), (1, 3), (3, 4)], [(0, 2), (1, 4)], [(0, 5)], 6, 0) :=
  ⟨exNested_hof, rfl, gfresh_empty, exNested_layout, exNested_edges, exNested_run⟩

/-- An expression of the class keeps the state consistent. -/
theorem C08_hof_general_fresh (G : GLang) (c : GCfg) (root : Node) (origin : Option Node)
    (hc : c.withTypes = false) (g g' : GState) (e : TExpr) (cur : Option Nat) (im : Bool) (n : Nat)
    (name : String) (ty : Term) (hof : Hof e) (hh : headOf e = .op name ty)
    (hg : GFresh g) (hcur : ∀ m, cur = some m → CurFree g m)
    (h : addExpr G c root origin g e cur im = .ok (g', n)) : GFresh g' :=
  addExpr_hof_general_fresh hc hof hh hg hcur h

/-! ## 5. operations and sources of function type passed as arguments at any depth -/

/-- The class `HofS`: `hofS` decides it; it contains the class `Hof` of section 4 (hence the first-order
expressions and the one-level spines of section 3); and it is what the words say: an expression of the class
is a source or a spine with an operator at its head all of whose arguments are in the class, so an argument of
function type is an operator-headed passed operation or a source. -/
theorem C08_hofS_class :
    (∀ e, hofS e = true ↔ HofS e) ∧ (∀ e, Hof e → HofS e) ∧
    (∀ e, HofS e → (∃ id l t, e = .src id l t) ∨ ∃ name ty, headOf e = .op name ty) ∧
    (∀ e name ty, HofS e → headOf e = .op name ty → ∀ a ∈ argsOf e, HofS a) :=
  ⟨fun e => ⟨hofS_sound e, hofS_complete e⟩, fun _ h => hofS_of_hof h, fun _ h => hofS_head h,
    fun _ _ _ h hh => hofS_args h hh⟩

/-- Every expression of the class `Hof` is in the class `HofS`, so `C08_hof_general` is the special case of
`C08_hofS_general` (for states with `SrcNoInt`) in which no source is passed as an operation. -/
theorem C08_hofS_subsumes (e : TExpr) (h : Hof e) : HofS e := hofS_of_hof h

/-- `k s s` and `h (u s) s` are in `HofS` and not in `Hof`; `h (u v) x` is in both. -/
example : HofS exRep ∧ ¬ Hof exRep ∧ HofS exNestS ∧ ¬ Hof exNestS ∧ Hof exNested ∧ HofS exNested ∧
    hofS exMix = true :=
  ⟨exRep_hofS, exRep_not_hof, exNestS_hofS, exNestS_not_hof, exNested_hof, hofS_of_hof exNested_hof, by decide⟩

/-- Operations and sources of function type passed as arguments, at any depth. For an expression `e` of the
class `HofS` with an operator at its head, added to a consistent state (`GFresh`, a reserved node is unused)
in which no internal node hangs off a source node (`SrcNoInt`), the layout `flowHOTop` (= `flowHO` started with
the reserved node, or with the next unused one) describes the result exactly: result node, counter, source map;
the internal pairs (the old ones followed by `ints`, all new and distinct); and the `from` edges as a set (the
old ones and `edges`). For a spine with node `n` and arguments `a₁ … aₖ` (`C08_flowHO_spine`), `ints` is per
argument the pair `(n, λᵢ)` if `aᵢ` has a function type, followed by the pairs made inside `aᵢ`, and `edges` is
`spineEdges`, which in words says:
* the edges inside the arguments;
* `n → node(aᵢ)` for every argument (`n` from `node(aᵢ)`);
* `node(aᵢ) → λᵢ` for every argument of function type: the passed operation is fed by the internal node in
  front of it. The model has no abstractions, so this holds for every function-typed argument, and when `aᵢ`
  is a source passed at several positions its one node is fed by each of these internal nodes;
* `λᵢ → node(aⱼ)` for every function-typed `aᵢ` and every other *position* `j ≠ i` (`hofEdges` speaks of
  positions, not of nodes). Hence `λᵢ → node(aᵢ)` is an edge exactly when `node(aᵢ)` is also the node of the
  argument at another position (`C08_hofS_repeated`): for an earlier position `j < i` this is the `repeated`
  rule of graph.py (the argument's node is an input of `n` already when `λᵢ` collects the inputs of `n`); for a
  later position `j > i` it is the rule that every internal node of `n` receives each later argument;
* `μ → λᵢ` for every internal node `μ` attached to `node(aᵢ)` by the layout of `aᵢ` (nesting). For a source
  `aᵢ` there are none, and the graph has none either because of `SrcNoInt`.
A node is `node(aᵢ)` for a source `aᵢ` however and wherever the source is used (one node per source id, as data
or as a passed operation, inside or outside nested operations): the source map `memo` is threaded through. -/
theorem C08_hofS_general (G : GLang) (c : GCfg) (root : Node) (origin : Option Node)
    (hc : c.withTypes = false) (g g' : GState) (e : TExpr) (cur : Option Nat) (im : Bool) (n : Nat)
    (name : String) (ty : Term) (hof : HofS e) (hh : headOf e = .op name ty)
    (hg : GFresh g) (hs : SrcNoInt g) (hcur : ∀ m, cur = some m → CurFree g m)
    (h : addExpr G c root origin g e cur im = .ok (g', n)) :
    n = (allocNode g.nextB cur).1 ∧
    n = (flowHOTop g.nextB g.srcNodes e cur).node ∧
    g'.nextB = (flowHOTop g.nextB g.srcNodes e cur).next ∧
    g'.srcNodes = (flowHOTop g.nextB g.srcNodes e cur).memo ∧
    g'.sharedNodes = g.sharedNodes ∧
    g'.internals = g.internals ++ (flowHOTop g.nextB g.srcNodes e cur).ints ∧
    (∀ p, p ∈ g'.fd.frm ↔ p ∈ g.fd.frm ∨ (flowHOTop g.nextB g.srcNodes e cur).edges p) ∧
    ((flowHOTop g.nextB g.srcNodes e cur).ints.map Prod.snd).Nodup ∧
    (∀ q ∈ (flowHOTop g.nextB g.srcNodes e cur).ints, g.nextB ≤ q.2 ∧ q.2 < g'.nextB) :=
  addExpr_hofS_general hc hof hh hg hs hcur h

/-- `k s s` with the source `s : A ** A` passed twice: in the class, the empty state qualifies; the layout
evaluated from its definition has node 0, the one source node 1 and the internal pairs `(0, 2)`, `(0, 4)`; its
edge set has `2 → 1` and `4 → 1`; and that is what the graph code produces. -/
example : HofS exRep ∧ headOf exRep = .op "k" tFFA ∧ GFresh {} ∧ SrcNoInt {} ∧
    ((flowHOTop 0 [] exRep none).node = 0 ∧ (flowHOTop 0 [] exRep none).next = 5 ∧
      (flowHOTop 0 [] exRep none).memo = [(3, 1)] ∧ (flowHOTop 0 [] exRep none).ints = [(0, 2), (0, 4)]) ∧
    (∀ p, (flowHOTop 0 [] exRep none).edges p ↔ p ∈ [(4, 1), (2, 1), (0, 1), (1, 4), (0, 1), (1, 2)]) ∧
    summary (addExpr exG exCfg (.res "w") none {} exRep none false) =
      some ([(4, 1), (2, 1), (0, 1), (1, 4), (0, 1), (1, 2)], [(0, 2), (0, 4)], [(3, 1)], 5, 0) :=
  ⟨exRep_hofS, rfl, gfresh_empty, srcNoInt_empty, exRep_layoutS, exRep_edgesS, by decide +kernel⟩

/-- `h (u s) s` — nested, and the same source inside and outside: `u s : A ** A` is passed to `h`, the source
`s : A ** A` is passed to `u` and once more to `h`. Nodes: 0 = `h …`, 1 = `u s` with internal node 2 (of `h`),
3 = `s` with internal node 4 (of `u`); the second `s` is node 3 again, with internal node 6 (of `h`). The source
node 3 is fed by both 4 and 6; `4 → 2` is the nested rule; `2 → 3` and `6 → 1` are the "other argument" edges. -/
example : HofS exNestS ∧ headOf exNestS = .op "h" tFFA ∧
    ((flowHOTop 0 [] exNestS none).node = 0 ∧ (flowHOTop 0 [] exNestS none).next = 7 ∧
      (flowHOTop 0 [] exNestS none).memo = [(3, 3)] ∧
      (flowHOTop 0 [] exNestS none).ints = [(0, 2), (1, 4), (0, 6)] ∧
      ∀ p, (flowHOTop 0 [] exNestS none).edges p ↔
        p ∈ [(6, 1), (2, 3), (0, 3), (3, 6), (4, 2), (0, 1), (1, 2), (1, 3), (3, 4)]) ∧
    summary (addExpr exG exCfg (.res "w") none {} exNestS none false) =
      some ([(6, 1), (2, 3), (0, 3), (3, 6), (4, 2), (0, 1), (1, 2), (1, 3), (3, 4)], [(0, 2), (1, 4), (0, 6)],
        [(3, 3)], 7, 0) :=
  ⟨exNestS_hofS, rfl, exNestS_layout, by decide +kernel⟩

/-- `f (k s s) (g s')`, where `s'` has the source id of `s` but is read at the data type `A`: the source is passed
twice as an operation (inside the argument `k s s`) and used once as data; one node (2) for all three uses. -/
example : HofS exMix ∧ headOf exMix = .op "f" tAAA ∧
    ((flowHOTop 0 [] exMix none).node = 0 ∧ (flowHOTop 0 [] exMix none).next = 8 ∧
      (flowHOTop 0 [] exMix none).memo = [(3, 2)] ∧ (flowHOTop 0 [] exMix none).ints = [(1, 3), (1, 5)] ∧
      ∀ p, (flowHOTop 0 [] exMix none).edges p ↔
        p ∈ [(0, 6), (6, 2), (0, 1), (5, 2), (3, 2), (1, 2), (2, 5), (1, 2), (2, 3)]) ∧
    summary (addExpr exG exCfg (.res "w") none {} exMix none false) =
      some ([(0, 6), (6, 2), (0, 1), (5, 2), (3, 2), (1, 2), (2, 5), (1, 2), (2, 3)], [(1, 3), (1, 5)], [(3, 2)], 8, 0) :=
  ⟨exMix_hofS, rfl, exMix_layout, by decide +kernel⟩

/-- An expression of the class keeps the state consistent and free of internal nodes hanging off source nodes,
so the theorems can be applied to the next expression. -/
theorem C08_hofS_general_fresh (G : GLang) (c : GCfg) (root : Node) (origin : Option Node)
    (hc : c.withTypes = false) (g g' : GState) (e : TExpr) (cur : Option Nat) (im : Bool) (n : Nat)
    (name : String) (ty : Term) (hof : HofS e) (hh : headOf e = .op name ty)
    (hg : GFresh g) (hs : SrcNoInt g) (hcur : ∀ m, cur = some m → CurFree g m)
    (h : addExpr G c root origin g e cur im = .ok (g', n)) : GFresh g' ∧ SrcNoInt g' :=
  addExpr_hofS_general_fresh hc hof hh hg hs hcur h

example : HofS exNestS ∧ headOf exNestS = .op "h" tFFA ∧ GFresh {} ∧ SrcNoInt {} ∧
    (∀ m, (none : Option Nat) = some m → CurFree {} m) :=
  ⟨exNestS_hofS, rfl, gfresh_empty, srcNoInt_empty, fun _ hm => by cases hm⟩

/-- The argument list of the receiving step (`spineArgInfos`: per argument its node and, for a function type,
the internal node in front of it; `hofEdges n` of this list is part of the layout's edge set, see
`C08_hofS_repeated`): the arguments of function type are exactly those with an internal node; the internal
nodes are pairwise distinct, new, different from the step's node `n` and from every argument's node; no
argument's node is `n`. -/
theorem C08_hofS_step (G : GLang) (c : GCfg) (root : Node) (origin : Option Node)
    (hc : c.withTypes = false) (g g' : GState) (e : TExpr) (cur : Option Nat) (im : Bool) (n : Nat)
    (name : String) (ty : Term) (hof : HofS e) (hh : headOf e = .op name ty)
    (hg : GFresh g) (hs : SrcNoInt g) (hcur : ∀ m, cur = some m → CurFree g m)
    (h : addExpr G c root origin g e cur im = .ok (g', n)) :
    (spineArgInfos (allocNode g.nextB cur).2 g.srcNodes e).map (fun a => a.lam.isSome) =
      (argsOf e).map (fun a => a.ty.isFunction) ∧
    ((spineArgInfos (allocNode g.nextB cur).2 g.srcNodes e).filterMap (fun a => a.lam)).Nodup ∧
    (∀ a ∈ spineArgInfos (allocNode g.nextB cur).2 g.srcNodes e, a.node ≠ n ∧ a.node < g'.nextB ∧
      ∀ l, a.lam = some l → g.nextB ≤ l ∧ l < g'.nextB ∧ l ≠ n ∧
        ∀ b ∈ spineArgInfos (allocNode g.nextB cur).2 g.srcNodes e, b.node ≠ l) :=
  addExpr_hofS_spine_args hc hof hh hg hs hcur h

/-- The `repeated` rule, read off the graph. Let `args` be the argument list of the receiving step `n`, and `λ`
the internal node in front of the argument at position `i`. Every pair of `hofEdges n args` is a `from` edge of
the graph; and the pair `λ → node(aᵢ)` (the internal node receives the node of its own argument) is one of them
exactly when `node(aᵢ)` is also the node of the argument at some other position `j` — which happens only when
the same source is passed at both positions. (At the moment `λ` is wired the model tests the positions `j < i`,
graph.py's `repeated`; for `j > i` the edge is added when the later argument is wired.) -/
theorem C08_hofS_repeated (G : GLang) (c : GCfg) (root : Node) (origin : Option Node)
    (hc : c.withTypes = false) (g g' : GState) (e : TExpr) (cur : Option Nat) (im : Bool) (n : Nat)
    (name : String) (ty : Term) (hof : HofS e) (hh : headOf e = .op name ty)
    (hg : GFresh g) (hs : SrcNoInt g) (hcur : ∀ m, cur = some m → CurFree g m)
    (h : addExpr G c root origin g e cur im = .ok (g', n))
    (i : Nat) (hi : i < (spineArgInfos (allocNode g.nextB cur).2 g.srcNodes e).length) (l : Nat)
    (hl : (spineArgInfos (allocNode g.nextB cur).2 g.srcNodes e)[i].lam = some l) :
    (hofEdges n (spineArgInfos (allocNode g.nextB cur).2 g.srcNodes e)
        (l, (spineArgInfos (allocNode g.nextB cur).2 g.srcNodes e)[i].node) ↔
      ∃ (j : Nat) (hj : j < (spineArgInfos (allocNode g.nextB cur).2 g.srcNodes e).length), j ≠ i ∧
        (spineArgInfos (allocNode g.nextB cur).2 g.srcNodes e)[j].node =
          (spineArgInfos (allocNode g.nextB cur).2 g.srcNodes e)[i].node) ∧
    (∀ p, hofEdges n (spineArgInfos (allocNode g.nextB cur).2 g.srcNodes e) p → p ∈ g'.fd.frm) :=
  addExpr_hofS_repeated hc hof hh hg hs hcur h i hi l hl

/-- `k s s`: the step sees the positions `⟨1, some 2⟩`, `⟨1, some 4⟩` — two positions, one node — so both `2 → 1`
and `4 → 1` are edges. `h (u s) s`: the positions `⟨1, some 2⟩`, `⟨3, some 6⟩` have different nodes, and neither
`2 → 1` nor `6 → 3` is an edge of the graph. -/
example : spineArgInfos 1 [] exRep = [⟨1, some 2⟩, ⟨1, some 4⟩] ∧
    spineArgInfos 1 [] exNestS = [⟨1, some 2⟩, ⟨3, some 6⟩] ∧
    (2, 1) ∉ [(6, 1), (2, 3), (0, 3), (3, 6), (4, 2), (0, 1), (1, 2), (1, 3), (3, 4)] ∧
    (6, 3) ∉ [(6, 1), (2, 3), (0, 3), (3, 6), (4, 2), (0, 1), (1, 2), (1, 3), (3, 4)] :=
  ⟨exRep_argInfos, exNestS_argInfos, by decide, by decide⟩

/-- Why `SrcNoInt` is a hypothesis. In the consistent state `exBadG` (counter 8, source `s` with node 7, and the
internal node 5 hanging off node 7, as a source at the head of a spine that is given an operation leaves it) the
expression `h s x` of the class gets the edge `5 → 10` from the old internal node to the new one in front of `s`
(the nested rule applies to whatever hangs off the argument's node). That edge is neither old nor an edge of the
layout, so the edge description of `C08_hofS_general` is false for this state. -/
theorem C08_hofS_needs_srcNoInt (g' : GState) (n : Nat)
    (h : addExpr exG exCfg (.res "w") none exBadG exHofS none false = .ok (g', n)) :
    HofS exHofS ∧ headOf exHofS = .op "h" tFAA ∧ GFresh exBadG ∧ ¬ SrcNoInt exBadG ∧
    exBadG.nextB = 8 ∧ exBadG.srcNodes = [(3, 7)] ∧
    ¬ (∀ p, p ∈ g'.fd.frm ↔ p ∈ exBadG.fd.frm ∨ (flowHOTop 8 [(3, 7)] exHofS none).edges p) := by
  obtain ⟨h1, h2, h3⟩ := exBad_fails g' n h
  refine ⟨hofS_sound _ (by decide), rfl, exBad_fresh.1, exBad_fresh.2, rfl, rfl, ?_⟩
  intro hall
  rcases (hall (5, 10)).1 h1 with h' | h'
  · exact h2 h'
  · exact h3 h'

example : summary (addExpr exG exCfg (.res "w") none exBadG exHofS none false) =
    some ([(10, 11), (8, 11), (5, 10), (8, 7), (7, 10)], [(7, 5), (8, 10)], [(3, 7), (0, 11)], 12, 8) := by
  decide +kernel

/-! ## a model oddity -/

/-- When the head of a spine is a *source* that already has a node, the spine is not one node: the
first argument is attached to the source's node (7), the later ones to the node reserved for the
spine (8), which is also the node returned. (The theorems above require an operator at the head.) -/
theorem C08_source_head_splits_spine :
    headOf exOdd = .src 1 none tAAA ∧
    summary (addExpr exG exCfg (.res "w") none exOddG exOdd none false) =
      some ([(8, 10), (7, 9)], [], [(1, 7), (0, 9), (2, 10)], 11, 8) :=
  ⟨rfl, exOdd_run⟩

end Tfv.C08
