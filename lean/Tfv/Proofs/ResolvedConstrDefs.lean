import Tfv.Proofs.InferConstrFulfilled
import Tfv.Proofs.InferNoInternalTop
/-!
# Resolved constraints hold (C03, last clause): definitions

* `Res σ t τ`: following the bindings of `σ` (with the model's `followT`) turns the term `t` into the closed type `τ`.
* `Reach σ t u d`: following bindings from `t`, the variable `u` is what `followT` stops at, `d` operators deep.
* `Ext σ σ'`: the bindings of `σ` are bindings of `σ'`.
-/
namespace Tfv.C03R
open Tfv Tfv.C03P Tfv.C03C Tfv.C16P Tfv.C17E

mutual
/-- following bindings turns `t` into the closed type `τ` -/
def Res (σ : Store) : Term → Ty → Prop
  | t, .app o τs => ∃ args, followT σ t = .app o args ∧ ResL σ args τs
def ResL (σ : Store) : List Term → List Ty → Prop
  | [], [] => True
  | t :: ts, τ :: τs => Res σ t τ ∧ ResL σ ts τs
  | [], _ :: _ => False
  | _ :: _, [] => False
end

theorem res_app {σ : Store} {t : Term} {o : Nat} {τs : List Ty} :
    Res σ t (.app o τs) ↔ ∃ args, followT σ t = .app o args ∧ ResL σ args τs := by
  rw [Res]

theorem resL_nil {σ : Store} : ResL σ [] [] := by rw [ResL]; trivial

theorem resL_cons {σ : Store} {t : Term} {ts : List Term} {τ : Ty} {τs : List Ty} :
    ResL σ (t :: ts) (τ :: τs) ↔ Res σ t τ ∧ ResL σ ts τs := by
  rw [ResL]

theorem resL_nil_left {σ : Store} {τs : List Ty} : ResL σ [] τs ↔ τs = [] := by
  cases τs with
  | nil => exact ⟨fun _ => rfl, fun _ => resL_nil⟩
  | cons τ τs => rw [ResL]; exact ⟨fun h => h.elim, fun h => by cases h⟩

theorem resL_nil_right {σ : Store} {ts : List Term} : ResL σ ts [] ↔ ts = [] := by
  cases ts with
  | nil => exact ⟨fun _ => rfl, fun _ => resL_nil⟩
  | cons t ts => rw [ResL]; exact ⟨fun h => h.elim, fun h => by cases h⟩

theorem resL_length {σ : Store} : ∀ {ts : List Term} {τs : List Ty}, ResL σ ts τs → ts.length = τs.length
  | [], [], _ => rfl
  | [], _ :: _, h => by rw [ResL] at h; exact h.elim
  | _ :: _, [], h => by rw [ResL] at h; exact h.elim
  | t :: ts, τ :: τs, h => by
    rw [resL_cons] at h
    simp only [List.length_cons, resL_length h.2]

/-- `followT` stops at the variable `u`, `d` operators below the root of `t` -/
inductive Reach (σ : Store) : Term → Nat → Nat → Prop
  | here {t : Term} {u : Nat} : followT σ t = .var u → Reach σ t u 0
  | app {t : Term} {o : Nat} {args : List Term} {a : Term} {u d : Nat} :
      followT σ t = .app o args → a ∈ args → Reach σ a u d → Reach σ t u (d+1)

/-- bindings are kept -/
structure Ext (σ σ' : Store) : Prop where
  len : σ.vars.length ≤ σ'.vars.length
  bound : ∀ v b, (getVar σ v).bound = some b → (getVar σ' v).bound = some b

theorem Ext.refl (σ : Store) : Ext σ σ := ⟨Nat.le_refl _, fun _ _ h => h⟩

theorem Ext.trans {a b c : Store} (h1 : Ext a b) (h2 : Ext b c) : Ext a c :=
  ⟨Nat.le_trans h1.len h2.len, fun v t h => h2.bound v t (h1.bound v t h)⟩

theorem Ext.follow_isApp {σ σ' : Store} (h : Ext σ σ') {o : Nat} {args : List Term} :
    ∀ (k : Nat) (t : Term), follow σ k t = .app o args → follow σ' k t = .app o args
  | k, .app o' args', e => by rw [follow_app] at e ⊢; exact e
  | 0, .var v, e => by rw [follow_zero] at e; cases e
  | k+1, .var v, e => by
    rw [follow_succ_var] at e ⊢
    cases hb : (getVar σ v).bound with
    | none => rw [hb] at e; cases e
    | some b =>
      rw [hb] at e
      rw [h.bound v b hb]
      exact Ext.follow_isApp h k b e

theorem Ext.followT_app {σ σ' : Store} (h : Ext σ σ') {t : Term} {o : Nat} {args : List Term}
    (e : followT σ t = .app o args) : followT σ' t = .app o args := by
  unfold followT at e ⊢
  have e' := h.follow_isApp _ t e
  obtain ⟨j, hj⟩ := Nat.exists_eq_add_of_le h.len
  have : σ'.vars.length + 1 = (σ.vars.length + 1) + j := by omega
  rw [this, follow_final_more _ _ _ (by rw [e']; trivial)]
  exact e'

mutual
theorem Ext.res {σ σ' : Store} (h : Ext σ σ') : ∀ (τ : Ty) (t : Term), Res σ t τ → Res σ' t τ
  | .app o τs, t, hr => by
    rw [res_app] at hr ⊢
    obtain ⟨args, e, hl⟩ := hr
    exact ⟨args, h.followT_app e, Ext.resL h τs args hl⟩
theorem Ext.resL {σ σ' : Store} (h : Ext σ σ') : ∀ (τs : List Ty) (ts : List Term), ResL σ ts τs → ResL σ' ts τs
  | [], ts, hr => by rw [resL_nil_right] at hr; subst hr; exact resL_nil
  | τ :: τs, [], hr => by rw [resL_nil_left] at hr; cases hr
  | τ :: τs, t :: ts, hr => by
    rw [resL_cons] at hr ⊢
    exact ⟨Ext.res h τ t hr.1, Ext.resL h τs ts hr.2⟩
end

/-- a resolved term denotes its resolution under every solution -/
theorem den_followT' {L : Lang} {ρ : Val} {σ : Store} (h : Sat L ρ σ) (t : Term) :
    den ρ t = den ρ (followT σ t) := (den_followT h t).symm

mutual
theorem res_den {L : Lang} {ρ : Val} {σ : Store} (h : Sat L ρ σ) : ∀ (τ : Ty) (t : Term), Res σ t τ → den ρ t = τ
  | .app o τs, t, hr => by
    rw [res_app] at hr
    obtain ⟨args, e, hl⟩ := hr
    rw [den_followT' h t, e, den_app, resL_denL h τs args hl]
theorem resL_denL {L : Lang} {ρ : Val} {σ : Store} (h : Sat L ρ σ) : ∀ (τs : List Ty) (ts : List Term),
    ResL σ ts τs → denL ρ ts = τs
  | [], ts, hr => by rw [resL_nil_right] at hr; subst hr; exact denL_nil ρ
  | τ :: τs, [], hr => by rw [resL_nil_left] at hr; cases hr
  | τ :: τs, t :: ts, hr => by
    rw [resL_cons] at hr
    rw [denL_cons, res_den h τ t hr.1, resL_denL h τs ts hr.2]
end

mutual
/-- resolution is a function -/
theorem res_unique {σ : Store} : ∀ (τ τ' : Ty) (t : Term), Res σ t τ → Res σ t τ' → τ = τ'
  | .app o τs, .app o' τs', t, h, h' => by
    rw [res_app] at h h'
    obtain ⟨args, e, hl⟩ := h
    obtain ⟨args', e', hl'⟩ := h'
    rw [e] at e'
    injection e' with e1 e2
    subst e1; subst e2
    rw [resL_unique τs τs' args hl hl']
theorem resL_unique {σ : Store} : ∀ (τs τs' : List Ty) (ts : List Term), ResL σ ts τs → ResL σ ts τs' → τs = τs'
  | [], τs', ts, h, h' => by
    rw [resL_nil_right] at h; subst h
    rw [resL_nil_left] at h'; exact h'.symm
  | τ :: τs, [], ts, h, h' => by
    rw [resL_nil_right] at h'; subst h'
    rw [resL_nil_left] at h; exact h
  | τ :: τs, τ' :: τs', [], h, _ => by rw [resL_nil_left] at h; cases h
  | τ :: τs, τ' :: τs', t :: ts, h, h' => by
    rw [resL_cons] at h h'
    rw [res_unique τ τ' t h.1 h'.1, resL_unique τs τs' ts h.2 h'.2]
end

end Tfv.C03R
