import Tfv.Model.Workflow
/-!
# Association lists keyed by numbers (`exprs`, `srcNodes`, `sharedNodes`) and `foldlM` in `Except`
-/
namespace Tfv

/-- the first value recorded for key `r` -/
def alook {β : Type} (l : List (Nat × β)) (r : Nat) : Option β := (l.find? (fun p => p.1 == r)).map (·.2)

theorem expr?_eq (s : WState) (r : Nat) : s.expr? r = alook s.exprs r := rfl

theorem alook_nil {β : Type} (r : Nat) : alook ([] : List (Nat × β)) r = none := rfl

theorem alook_cons {β : Type} (p : Nat × β) (l : List (Nat × β)) (r : Nat) :
    alook (p :: l) r = if p.1 = r then some p.2 else alook l r := by
  unfold alook
  rw [List.find?_cons]
  by_cases h : p.1 = r
  · simp [h]
  · have hb : (p.1 == r) = false := by simp [h]
    rw [hb, if_neg h]

theorem alook_append_some {β : Type} {l l' : List (Nat × β)} {r : Nat} {v : β} (h : alook l r = some v) :
    alook (l ++ l') r = some v := by
  unfold alook at h ⊢
  rw [List.find?_append]
  cases hf : l.find? (fun p => p.1 == r) with
  | none => rw [hf] at h; cases h
  | some p => rw [hf] at h; simpa using h

theorem alook_append_none {β : Type} {l l' : List (Nat × β)} {r : Nat} (h : alook l r = none) :
    alook (l ++ l') r = alook l' r := by
  unfold alook at h ⊢
  rw [List.find?_append]
  cases hf : l.find? (fun p => p.1 == r) with
  | none => rfl
  | some p => rw [hf] at h; cases h

theorem alook_none_iff {β : Type} {l : List (Nat × β)} {r : Nat} : alook l r = none ↔ r ∉ l.map (·.1) := by
  unfold alook
  rw [Option.map_eq_none_iff, List.find?_eq_none]
  simp only [beq_iff_eq, List.mem_map, not_exists, not_and]

theorem alook_some_mem {β : Type} {l : List (Nat × β)} {r : Nat} {v : β} (h : alook l r = some v) : (r, v) ∈ l := by
  unfold alook at h
  cases hf : l.find? (fun p => p.1 == r) with
  | none => rw [hf] at h; cases h
  | some p =>
    rw [hf] at h
    simp only [Option.map_some, Option.some.injEq] at h
    have h1 := List.mem_of_find?_eq_some hf
    have h2 := List.find?_some hf
    simp only [beq_iff_eq] at h2
    rw [← h, ← h2]; exact h1

theorem alook_isSome_of_mem {β : Type} {l : List (Nat × β)} {r : Nat} {v : β} (h : (r, v) ∈ l) :
    ∃ v', alook l r = some v' := by
  cases hl : alook l r with
  | some v' => exact ⟨v', rfl⟩
  | none =>
    rw [alook_none_iff] at hl
    exact absurd (List.mem_map_of_mem (f := (·.1)) h) hl

theorem alook_of_mem_nodup {β : Type} : ∀ {l : List (Nat × β)} {r : Nat} {v : β}, (l.map (·.1)).Nodup → (r, v) ∈ l →
    alook l r = some v := by
  intro l
  induction l with
  | nil => intro r v _ h; cases h
  | cons p l ih =>
    intro r v hn h
    rw [List.map_cons, List.nodup_cons] at hn
    rw [alook_cons]
    rcases List.mem_cons.1 h with rfl | h'
    · simp
    · have : p.1 ≠ r := by
        intro he
        exact hn.1 (he ▸ List.mem_map_of_mem (f := (·.1)) h')
      rw [if_neg this]
      exact ih hn.2 h'

theorem alook_singleton {β : Type} (r : Nat) (v : β) : alook [(r, v)] r = some v := by
  rw [alook_cons]; simp

theorem alook_singleton_ne {β : Type} {r r' : Nat} (v : β) (h : r ≠ r') : alook [(r, v)] r' = none := by
  rw [alook_cons]; simp [h, alook_nil]

theorem alook_map {β γ : Type} (f : β → γ) (l : List (Nat × β)) (r : Nat) :
    alook (l.map (fun p => (p.1, f p.2))) r = (alook l r).map f := by
  induction l with
  | nil => rfl
  | cons p l ih =>
    rw [List.map_cons, alook_cons, alook_cons]
    by_cases h : p.1 = r
    · simp [h]
    · simp only [h, if_false]; exact ih


/-- replacing the value of every entry with key `k`: only the lookup of `k` changes -/
theorem alook_map_setKey {β : Type} (l : List (Nat × β)) (k : Nat) (v : β) (r : Nat) :
    alook (l.map (fun q => if q.1 == k then (q.1, v) else q)) r =
      if r = k then (alook l r).map (fun _ => v) else alook l r := by
  induction l with
  | nil => simp [alook_nil]
  | cons p l ih =>
    rw [List.map_cons, alook_cons, alook_cons]
    by_cases hpk : p.1 = k
    · have hb : (p.1 == k) = true := by simp [hpk]
      simp only [hb, if_true]
      by_cases hpr : p.1 = r
      · have hrk : r = k := hpr ▸ hpk
        simp [hpr, hrk]
      · simp only [hpr, if_false]; exact ih
    · have hb : (p.1 == k) = false := by simp [hpk]
      simp only [hb, Bool.false_eq_true, if_false]
      by_cases hpr : p.1 = r
      · have hrk : ¬ r = k := fun h => hpk (hpr.trans h)
        simp [hpr, hrk]
      · simp only [hpr, if_false]; exact ih

theorem map_replace_keys {β : Type} (l : List (Nat × β)) (k : Nat) (v : β) :
    (l.map (fun q => if q.1 == k then (q.1, v) else q)).map (·.1) = l.map (·.1) := by
  rw [List.map_map]
  apply List.map_congr_left
  intro q _
  show (if q.1 == k then (q.1, v) else q).1 = q.1
  split <;> rfl

theorem alook_some_key {β : Type} {l : List (Nat × β)} {r : Nat} {v : β} (h : alook l r = some v) : r ∈ l.map (·.1) :=
  List.mem_map_of_mem (f := (·.1)) (alook_some_mem h)

theorem alook_isSome_of_key {β : Type} {l : List (Nat × β)} {r : Nat} (h : r ∈ l.map (·.1)) : ∃ v, alook l r = some v := by
  cases hl : alook l r with
  | some v => exact ⟨v, rfl⟩
  | none => exact absurd h (alook_none_iff.1 hl)

/-- lookups in tables with the same keys are defined for the same keys -/
theorem alook_none_of_keys {β γ : Type} {l : List (Nat × β)} {l' : List (Nat × γ)} (hk : l'.map (·.1) = l.map (·.1))
    {r : Nat} (h : alook l r = none) : alook l' r = none := by
  rw [alook_none_iff] at h ⊢
  rw [hk]; exact h

theorem alook_append {β : Type} (l l' : List (Nat × β)) (r : Nat) :
    alook (l ++ l') r = match alook l r with
      | some v => some v
      | none => alook l' r := by
  cases h : alook l r with
  | some v => exact alook_append_some h
  | none => exact alook_append_none h

/-! ## `foldlM` -/

theorem Wfl.foldlM_inv {α β ε : Type} (f : β → α → Except ε β) (Inv : β → Prop) :
    ∀ (l : List α) (b b' : β), (∀ b a b', a ∈ l → Inv b → f b a = .ok b' → Inv b') → Inv b →
      l.foldlM f b = .ok b' → Inv b' := by
  intro l
  induction l with
  | nil =>
    intro b b' _ hb h
    simp only [List.foldlM_nil, pure, Except.pure, Except.ok.injEq] at h
    subst h; exact hb
  | cons a l ih =>
    intro b b' hf hb h
    simp only [List.foldlM_cons] at h
    cases hx : f b a with
    | error e => rw [hx] at h; cases h
    | ok b1 =>
      rw [hx] at h
      exact ih b1 b' (fun b a b' ha => hf b a b' (List.mem_cons_of_mem _ ha)) (hf b a b1 List.mem_cons_self hb hx) h

theorem Wfl.foldlM_cons_ok {α β ε : Type} (f : β → α → Except ε β) (a : α) (l : List α) (b b' : β) :
    (a :: l).foldlM f b = .ok b' ↔ ∃ b1, f b a = .ok b1 ∧ l.foldlM f b1 = .ok b' := by
  simp only [List.foldlM_cons]
  cases hx : f b a with
  | error e =>
    constructor
    · intro h; cases h
    · rintro ⟨b1, h1, _⟩; cases h1
  | ok b1 =>
    constructor
    · intro h; exact ⟨b1, rfl, h⟩
    · rintro ⟨b2, h1, h2⟩
      cases h1; exact h2

theorem Wfl.foldlM_nil_ok {α β ε : Type} (f : β → α → Except ε β) (b b' : β) :
    ([] : List α).foldlM f b = (.ok b' : Except ε β) ↔ b' = b := by
  simp only [List.foldlM_nil, pure, Except.pure, Except.ok.injEq]
  exact eq_comm

end Tfv
