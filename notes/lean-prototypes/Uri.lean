import Proto.Basic
/-! Prototype: prefix URI code round trip with the *repaired* decoder
(`types[n:]` from the end of the work list). -/
namespace P

def arityOf (L : Lang) (o : Nat) : Nat := ((L[o]?).map (·.variance.length)).getD 0

mutual
def toks : Ty → List Nat
  | .app o args => o :: toksL args
def toksL : List Ty → List Nat
  | [] => []
  | t :: ts => toks t ++ toksL ts
end

mutual
def WFTy (L : Lang) : Ty → Prop
  | .app o args => args.length = arityOf L o ∧ WFTyL L args
def WFTyL (L : Lang) : List Ty → Prop
  | [] => True
  | t :: ts => WFTy L t ∧ WFTyL L ts
end

/-- The decoder: scan operators from the right; the work list `types` grows at its end;
an operator of arity `k` takes the last `k` entries, reversed, as its arguments. -/
def decodeStep (L : Lang) (types : List Ty) (o : Nat) : Option (List Ty) :=
  let k := arityOf L o
  if types.length < k then none
  else
    let n := types.length - k
    some (types.take n ++ [Ty.app o (types.drop n).reverse])

def decode (L : Lang) (ops : List Nat) : Option (List Ty) :=
  ops.reverse.foldlM (decodeStep L) []

-- generalised invariant: decoding (from the right) the tokens of a forest `ts`
-- on top of a work list `w` yields `w ++ ts.reverse`.
mutual
theorem dec_ty (L : Lang) : ∀ (t : Ty), WFTy L t → ∀ w, (toks t).reverse.foldlM (decodeStep L) w = some (w ++ [t])
  | .app o args, hwf, w => by
    simp only [WFTy] at hwf
    have ih := dec_tys L args hwf.2 w
    simp only [toks, List.reverse_cons, List.foldlM_append, ih]
    simp only [List.foldlM_cons, List.foldlM_nil, Option.bind_eq_bind, Option.bind_some, bind, decodeStep]
    have hlen : (w ++ args.reverse).length - arityOf L o = w.length := by
      simp [hwf.1]
    have hlt : ¬ (w ++ args.reverse).length < arityOf L o := by
      simp [hwf.1]
    simp [hlt, hlen, hwf.1]
theorem dec_tys (L : Lang) : ∀ (ts : List Ty), WFTyL L ts → ∀ w, (toksL ts).reverse.foldlM (decodeStep L) w = some (w ++ ts.reverse)
  | [], _, w => by simp [toksL]
  | t :: ts, hwf, w => by
    simp only [WFTyL] at hwf
    have ih1 := dec_tys L ts hwf.2 w
    simp only [toksL, List.reverse_append, List.foldlM_append, ih1]
    simp only [Option.bind_eq_bind, Option.bind_some, bind, dec_ty L t hwf.1]
    simp
end

theorem decode_toks (L : Lang) (t : Ty) (h : WFTy L t) : decode L (toks t) = some [t] := by
  simpa [decode] using dec_ty L t h []

theorem toks_injective (L : Lang) {s t : Ty} (hs : WFTy L s) (ht : WFTy L t)
    (h : toks s = toks t) : s = t := by
  have h1 := decode_toks L s hs
  have h2 := decode_toks L t ht
  rw [h] at h1
  rw [h1] at h2
  simpa using h2

#print axioms decode_toks
#print axioms toks_injective
end P
