"""harmall.py: re-evaluate every property-preserving change seeded/H*/ (harmtest.py, results recorded in meta.json); prints one matrix row each.
Exit 1 if any check raised an alarm."""
import glob, json, os, subprocess, sys
VERIF = os.path.dirname(os.path.dirname(os.path.abspath(__file__)))
bad = 0
for d in sorted(glob.glob(os.path.join(VERIF, "seeded", "H*"))):
    env = dict(os.environ, HARM_RECORD="1")
    subprocess.run([sys.executable, os.path.join(VERIF, "harness", "harmtest.py"), d], env=env, stdout=subprocess.DEVNULL, stderr=subprocess.DEVNULL)
    m = json.load(open(os.path.join(d, "meta.json")))
    res = m.get("results", {})
    alarms = [k for k, v in res.items() if not v.startswith("quiet")]
    bad += len(alarms)
    print(f"| {os.path.basename(d)} | {m.get('preserves_property')} | suite unchanged: {m.get('suite_unchanged')} | equiv.py exit {m.get('equiv_exit')} | "
          f"{len(res)} checks run | alarms: {', '.join(alarms) or 'none'} |", flush=True)
sys.exit(1 if bad else 0)
