import Tfv.Model
import Tfv.Proofs.Bag
/-!
# C20 — type unions and bags reduce without changing meaning, in any insertion order
Statements only. `le` is any decidable relation that is a partial order on the
domain `D` the inserted elements come from (instantiated by the subtype order
of C01 on well-formed concrete types).
-/
namespace Tfv.C20
open Tfv

variable {α : Type}

/-- `le` is a partial order on the elements satisfying `D` -/
structure POrder (le : α → α → Bool) (D : α → Prop) : Prop where
  refl : ∀ x, D x → le x x = true
  trans : ∀ x y z, D x → D y → D z → le x y = true → le y z = true → le x z = true
  antisymm : ∀ x y, D x → D y → le x y = true → le y x = true → x = y

/-- a union in specific mode keeps exactly the minimal elements of what was inserted -/
theorem C20_union_specific (le : α → α → Bool) (D : α → Prop) (po : POrder le D)
    (xs : List α) (hD : ∀ x ∈ xs, D x) (x : α) :
    x ∈ unionOf le true xs ↔ (x ∈ xs ∧ ∀ y ∈ xs, le y x = true → y = x) :=
  mem_unionOf_specific le D po.refl po.trans po.antisymm xs hD x

/-- a union in general mode keeps exactly the maximal elements -/
theorem C20_union_general (le : α → α → Bool) (D : α → Prop) (po : POrder le D)
    (xs : List α) (hD : ∀ x ∈ xs, D x) (x : α) :
    x ∈ unionOf le false xs ↔ (x ∈ xs ∧ ∀ y ∈ xs, le x y = true → y = x) :=
  mem_unionOf_general le D po.refl po.trans po.antisymm xs hD x

/-- the kept set does not depend on the insertion order -/
theorem C20_union_perm (le : α → α → Bool) (D : α → Prop) (po : POrder le D) (specific : Bool)
    (xs ys : List α) (hD : ∀ x ∈ xs, D x) (hp : xs.Perm ys) (x : α) :
    x ∈ unionOf le specific xs ↔ x ∈ unionOf le specific ys :=
  mem_unionOf_perm le D po.refl po.trans po.antisymm specific xs ys hD hp x

/-- a union never holds the same element twice (it is a set) -/
theorem C20_union_nodup (le : α → α → Bool) (D : α → Prop) (po : POrder le D) (specific : Bool)
    (xs : List α) (hD : ∀ x ∈ xs, D x) : (unionOf le specific xs).Nodup :=
  unionOf_nodup le D po.refl po.trans po.antisymm specific xs hD

/-- a set of present types closed under supertypes -/
def UpClosed (le : α → α → Bool) (D : α → Prop) (P : α → Prop) : Prop :=
  ∀ x y, D x → D y → P x → le x y = true → P y

/-- the reduced bag is satisfied by an upward-closed set of present types exactly when
every inserted (non-empty) requirement is satisfied -/
theorem C20_bag (le : α → α → Bool) (D : α → Prop) (po : POrder le D)
    (reqs : List (List α)) (hD : ∀ r ∈ reqs, ∀ x ∈ r, D x)
    (P : α → Prop) (hP : UpClosed le D P) :
    satBag (bagOf le reqs) P ↔ ∀ r ∈ reqs, r ≠ [] → ∃ t ∈ r, P t :=
  satBag_bagOf le D po.refl po.trans po.antisymm P hP reqs hD

/-- hence the verdict of the reduced bag does not depend on the insertion order -/
theorem C20_bag_perm (le : α → α → Bool) (D : α → Prop) (po : POrder le D)
    (reqs reqs' : List (List α)) (hD : ∀ r ∈ reqs, ∀ x ∈ r, D x) (hp : reqs.Perm reqs')
    (P : α → Prop) (hP : UpClosed le D P) :
    satBag (bagOf le reqs) P ↔ satBag (bagOf le reqs') P :=
  satBag_bagOf_perm le D po.refl po.trans po.antisymm P hP reqs reqs' hD hp

/-- non-vacuity: divisibility-free toy order `≤` on Nat is a partial order, and a bag over it -/
example : POrder (fun a b : Nat => decide (a ≤ b)) (fun _ => True) :=
  ⟨by intro x _; simp, by intro x y z _ _ _; simp; omega, by intro x y _ _; simp; omega⟩
example : bagOf (fun a b : Nat => decide (a ≤ b)) [[3, 5], [4]] = [[4]] := by decide

end Tfv.C20
