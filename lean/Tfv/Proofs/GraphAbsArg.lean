import Tfv.Proofs.GraphAbsLam
/-!
# C08 on expanded composite operators, part 5: a passed operation that is not an abstraction

The counterpart of `addExpr_wiring` (Proofs/FlowNested.lean) for `addExprA`: the argument may be a parameter or
contain abstractions itself. In contrast with an abstraction, its node *is* fed by the internal node.
-/
namespace Tfv.C08P
open Tfv

theorem addExprA_arg_wiring {G : GLang} {c : GCfg} {root : Node} {origin : Option Node} {s s' : AState}
    {f x : AExpr} {ty : Term} {m : Nat} {im : Bool} {n : Nat}
    (hx : AExpr.isLam x = false) (hfun : x.ty.isFunction = true)
    (h : addExprA G c root origin s (.app f x ty) (some m) im = .ok (s', n)) :
    ∃ (s1 : AState) (fnode : Nat) (gi : GState) (s2 : AState) (xnode : Nat),
      addExprA G c root origin s f (some m) im = .ok (s1, fnode) ∧
      gi.nextB = s1.g.nextB + 2 ∧ gi.internals = s1.g.internals ++ [(fnode, s1.g.nextB + 1)] ∧
      gi.srcNodes = s1.g.srcNodes ∧ gi.sharedNodes = s1.g.sharedNodes ∧ gi.fd = s1.g.fd ∧
      addExprA G c root origin { g := gi, params := s1.params } x (some s1.g.nextB) true = .ok (s2, xnode) ∧
      n = m ∧ s'.params = s2.params ∧ s'.g.internals = s2.g.internals ∧
      (fnode, s1.g.nextB + 1) ∈ s'.g.internals ∧
      (xnode, s1.g.nextB + 1) ∈ s'.g.fd.frm ∧ (fnode, xnode) ∈ s'.g.fd.frm ∧
      (∀ p ∈ s2.g.fd.frm, p ∈ s'.g.fd.frm) ∧
      (∀ μ, (xnode, μ) ∈ s2.g.internals → (μ, s1.g.nextB + 1) ∈ s'.g.fd.frm) ∧
      (∀ fin, (fnode, fin) ∈ s2.g.fd.frm → (s1.g.nextB + 1, fin) ∈ s'.g.fd.frm) ∧
      (∀ j, (fnode, j) ∈ s2.g.internals → j ≠ s1.g.nextB + 1 → (j, xnode) ∈ s'.g.fd.frm) ∧
      (fnode ≠ xnode → (fnode, fnode) ∉ s2.g.internals → (xnode, fnode) ∉ s2.g.internals →
        ∀ p, p ∈ s'.g.fd.frm ↔
          p ∈ s2.g.fd.frm ∨ p = (xnode, s1.g.nextB + 1) ∨ p = (fnode, xnode) ∨
          (∃ μ, (xnode, μ) ∈ s2.g.internals ∧ p = (μ, s1.g.nextB + 1)) ∨
          (∃ j, (fnode, j) ∈ s2.g.internals ∧ j ≠ s1.g.nextB + 1 ∧ p = (j, xnode)) ∨
          (∃ fin, (fnode, fin) ∈ s2.g.fd.frm ∧ p = (s1.g.nextB + 1, fin))) := by
  rw [addExprA_app _ _ _ _ _ _ _ _ _ _ hx] at h
  simp only [curG, hfun] at h
  cases hf : addExprA G c root origin s f (some m) im with
  | error e =>
    have hf' : addExprA G c root origin { s with g := s.g } f (some m) im = .error e := hf
    rw [hf'] at h; cases h
  | ok r1 =>
    obtain ⟨s1, fnode⟩ := r1
    have hf' : addExprA G c root origin { s with g := s.g } f (some m) im = .ok (s1, fnode) := hf
    rw [hf'] at h
    simp only [] at h
    cases hb : addExprA G c root origin { s1 with g := (mkInternalG s1.g.fresh.1 fnode true).1 } x
        (some s1.g.fresh.2) true with
    | error e => rw [hb] at h; cases h
    | ok r2 =>
      obtain ⟨s2, xnode⟩ := r2
      rw [hb] at h
      cases h
      have hci : (mkInternalG s1.g.fresh.1 fnode true).2 = some (s1.g.nextB + 1) := rfl
      have hcore := coreOf_wireG c origin s2.g m fnode xnode (some (s1.g.nextB + 1))
      have hfrm : (wireG c origin s2.g m fnode xnode (some (s1.g.nextB + 1))).fd.frm =
          (wire (coreOf s2.g) fnode xnode (some (s1.g.nextB + 1))).frm := congrArg Core.frm hcore
      have hint : (wireG c origin s2.g m fnode xnode (some (s1.g.nextB + 1))).internals = s2.g.internals := by
        have := congrArg Core.ints hcore
        rw [(wire_frame _ _ _ _).2.2.2] at this
        exact this
      refine ⟨s1, fnode, (mkInternalG s1.g.fresh.1 fnode true).1, s2, xnode, rfl, ?_, ?_, ?_, ?_, ?_, hb, rfl, rfl,
        ?_, ?_, ?_, ?_, ?_, ?_, ?_, ?_, ?_⟩
      · exact congrArg Core.nextB (coreOf_mkInternalG s1.g.fresh.1 fnode true)
      · exact congrArg Core.ints (coreOf_mkInternalG s1.g.fresh.1 fnode true)
      · exact congrArg Core.src (coreOf_mkInternalG s1.g.fresh.1 fnode true)
      · exact congrArg Core.shared (coreOf_mkInternalG s1.g.fresh.1 fnode true)
      · exact mkInternalG_true_fd s1.g fnode
      · show (wireG c origin s2.g m fnode xnode (mkInternalG s1.g.fresh.1 fnode true).2).internals = _
        rw [hci]; exact hint
      · show _ ∈ (wireG c origin s2.g m fnode xnode (mkInternalG s1.g.fresh.1 fnode true).2).internals
        rw [hci, hint]
        apply addExprA_ints_mono _ _ _ _ _ _ _ hb
        show (fnode, s1.g.nextB + 1) ∈ (mkInternalG s1.g.fresh.1 fnode true).1.internals
        have hh : (mkInternalG s1.g.fresh.1 fnode true).1.internals = s1.g.internals ++ [(fnode, s1.g.nextB + 1)] :=
          congrArg Core.ints (coreOf_mkInternalG s1.g.fresh.1 fnode true)
        rw [hh]
        exact List.mem_append_right _ (List.mem_singleton.2 rfl)
      · show _ ∈ (wireG c origin s2.g m fnode xnode (mkInternalG s1.g.fresh.1 fnode true).2).fd.frm
        rw [hci, hfrm]; exact wire_some_sub _ _ _ _ _ (Or.inr (Or.inl rfl))
      · show _ ∈ (wireG c origin s2.g m fnode xnode (mkInternalG s1.g.fresh.1 fnode true).2).fd.frm
        rw [hci, hfrm]; exact wire_some_sub _ _ _ _ _ (Or.inr (Or.inr (Or.inl rfl)))
      · intro p hp
        show _ ∈ (wireG c origin s2.g m fnode xnode (mkInternalG s1.g.fresh.1 fnode true).2).fd.frm
        rw [hci, hfrm]; exact wire_some_sub _ _ _ _ _ (Or.inl hp)
      · intro μ hμ
        show _ ∈ (wireG c origin s2.g m fnode xnode (mkInternalG s1.g.fresh.1 fnode true).2).fd.frm
        rw [hci, hfrm]; exact wire_some_sub _ _ _ _ _ (Or.inr (Or.inr (Or.inr ⟨μ, hμ, rfl⟩)))
      · intro fin hfin
        show _ ∈ (wireG c origin s2.g m fnode xnode (mkInternalG s1.g.fresh.1 fnode true).2).fd.frm
        rw [hci, hfrm]; exact wire_some_inputs _ _ _ _ _ hfin
      · intro j hj hji
        show _ ∈ (wireG c origin s2.g m fnode xnode (mkInternalG s1.g.fresh.1 fnode true).2).fd.frm
        rw [hci, hfrm]; exact wire_some_siblings _ _ _ _ _ hj hji
      · intro h1 h2 h3 p
        show p ∈ (wireG c origin s2.g m fnode xnode (mkInternalG s1.g.fresh.1 fnode true).2).fd.frm ↔ _
        rw [hci, hfrm]
        exact wire_some_mem_all (coreOf s2.g) fnode xnode (s1.g.nextB + 1) p h1 h2 h3

end Tfv.C08P
