import Tfv.Proofs.InferMain
import Tfv.Proofs.InferInstantiate
/-!
# Concrete runs of the inference engine (non-vacuity of the C03 theorems)

`match3` (and with it `occurs`) is compiled by well-founded recursion and does not
reduce by `rfl`; the few lemmas below rewrite the occurs check away for a base
type against an unresolved variable, everything else evaluates by `rfl`.
-/
namespace Tfv.C03P

/-! ## 1. evaluation lemmas -/

theorem followT_app (σ : Store) (o : Nat) (args : List Term) : followT σ (.app o args) = .app o args := by
  unfold followT; rw [follow]
  · intro h; cases h
  · intro _ _ _ h; cases h

theorem followT_unbound {σ : Store} {w : Nat} (hw : (getVar σ w).bound = none) :
    followT σ (.var w) = .var w := by
  unfold followT; rw [follow]; simp only [hw]

/-- a base type never "contains" an unresolved variable -/
theorem occurs_base_unbound {L : Lang} {σ : Store} {o w : Nat} (hw : (getVar σ w).bound = none) (m : Nat) :
    occurs L σ (m+1) (.app o []) (.var w) = false := by
  have f1 := followT_app σ o []
  have f2 := followT_unbound hw
  have e2 : matchFuel σ = (4 * σ.vars.length + 63) + 1 := rfl
  rw [occurs, f1, f2, e2, match3, f1, f2]
  simp only [Bool.false_and, Bool.false_eq_true, if_false, List.any_nil, Bool.or_false]
  split
  · rfl
  · split
    · rfl
    · split <;> rfl

theorem unify_base_unbound {L : Lang} {σ : Store} {o w : Nat} (hw : (getVar σ w).bound = none) (n : Nat) :
    unify L (n+1) σ (.app o []) (.var w) true false false =
      if o == BOT then .ok σ
      else if arityOf L o == 0 then above L n σ w o else bind L n σ w (.app o []) := by
  have e : termFuel σ = (σ.vars.length + 63) + 1 := rfl
  rw [unify, followT_app, followT_unbound hw]
  simp only [e, occurs_base_unbound hw, Bool.false_or, Bool.false_and, Bool.false_eq_true, if_false, if_true]

theorem unify_app_app (L : Lang) (n : Nat) (σ : Store) (ao bo : Nat) (as bs : List Term) :
    unify L (n+1) σ (.app ao as) (.app bo bs) true false false =
      if ao == BOT || bo == TOP then .ok σ
      else if arityOf L ao == 0 then
        if !opSub L ao bo then .error .subtypeMismatch else .ok σ
      else if ao == bo then unifyList L n σ (varianceOf L ao) as bs true false false
      else .error .typeMismatch := by
  rw [unify, followT_app, followT_app]
  simp only [Bool.true_and, Bool.false_eq_true, if_false, Bool.not_true, Bool.false_and]

theorem applyT_fun (L : Lang) (n : Nat) (σ : Store) (l r x : Term) (fixFlag : Bool) :
    applyT L n σ (.app FUN [l, r]) x fixFlag =
      match unify L n σ (followT σ x) l true false false with
      | .error e => .error e
      | .ok σ1 => if fixFlag && !isFunT r then fix L n σ1 r true else .ok (σ1, r) := by
  rw [applyT_eq, followT_app]
  rfl

/-! ## 2. the language and stores of the examples -/

/-- `B ≤ A` base types, `F` a unary covariant operator -/
def exL : Lang := builtinDecls ++ [⟨"A", [], none⟩, ⟨"B", [], some 5⟩, ⟨"F", [true], none⟩]

theorem exL_wf : WF exL := wf_of_wfLangB exL (by decide)

/-- `x0` with lower bound `B`, `x1` with upper bound `A` -/
def σU : Store := { vars := [{ lower := some 6 }, { upper := some 5, cset := 1 }], csets := [[], []] }
/-- `x0 := x1`, `x1` within `[B, A]` -/
def σU' : Store :=
  { vars := [{ bound := some (.var 1), lower := some 6, cset := 1 }, { lower := some 6, upper := some 5, cset := 1 }],
    csets := [[], []] }

/-- `bind` of a variable to another one hands the lower bound over through `unify`, whose occurs
check (`match3`, well-founded recursion) does not evaluate by `rfl`: rewritten away explicitly -/
theorem exU_bind : bind exL 9 σU 0 (.var 1) = .ok σU' := by
  rw [bind_var_eq]
  have e1 : (getVar σU 0).lower = some 6 := rfl
  have e2 : (getVar σU 0).upper = none := rfl
  simp only [e1, e2]
  rw [unify_base_unbound (by with_unfolding_all rfl)]
  with_unfolding_all rfl

theorem exU_run : unify exL 10 σU (.var 0) (.var 1) true false false = .ok σU' := by
  rw [← exU_bind]
  with_unfolding_all rfl

/-- `x0` fresh, `x1` with lower bound `B` -/
def σA : Store := { vars := [{}, { lower := some 6, cset := 1 }], csets := [[], []] }
def σA' : Store :=
  { vars := [{ bound := some (.app 6 []), lower := some 6 }, { bound := some (.var 0), lower := some 6 }],
    csets := [[], []] }

/-- after the first application: `x1 := x0`, the lower bound `B` handed over to `x0` -/
def σA1 : Store :=
  { vars := [{ lower := some 6 }, { bound := some (.var 0), lower := some 6 }], csets := [[], []] }

theorem exA_bind : bind exL 9 σA 1 (.var 0) = .ok σA1 := by
  rw [bind_var_eq]
  have e1 : (getVar σA 1).lower = some 6 := rfl
  have e2 : (getVar σA 1).upper = none := rfl
  simp only [e1, e2]
  rw [unify_base_unbound (by with_unfolding_all rfl)]
  with_unfolding_all rfl

theorem exA_step1 :
    applyT exL 10 σA (.app FUN [.var 0, .app FUN [.var 0, .var 0]]) (.var 1) true =
      .ok (σA1, .app FUN [.var 0, .var 0]) := by
  have u : unify exL 10 σA (followT σA (.var 1)) (.var 0) true false false = .ok σA1 := by
    rw [← exA_bind]
    with_unfolding_all rfl
  rw [applyT_fun, u]
  rfl

/-- `(x0 ** x0 ** x0)` applied to `x1, x1` with `x1 ≥ B`: result `B` -/
theorem exA_run :
    applyAll exL 10 true σA (.app FUN [.var 0, .app FUN [.var 0, .var 0]]) [.var 1, .var 1] =
      .ok (σA', .app 6 []) := by
  rw [applyAll, exA_step1]
  with_unfolding_all rfl

/-- `F(x0) ** x0 ** x0` -/
def exF : Term := .app FUN [.app 7 [.var 0], .app FUN [.var 0, .var 0]]
/-- the schema `x => F(x) ** x ** x` -/
def exS : Schema := { nvars := 1, nwild := 0, body := exF, constraints := [] }

/-- one fresh variable -/
def σS : Store := { vars := [{}], csets := [[]] }
def σS1 : Store := { vars := [{ lower := some 6 }], csets := [[]] }
def σS2 : Store := { vars := [{ lower := some 5 }], csets := [[]] }
def σS3 : Store := { vars := [{ bound := some (.app 5 []), lower := some 5 }], csets := [[]] }

theorem exS_run : instantiate exL 10 {} exS = .ok (σS, exF) := by with_unfolding_all rfl

theorem exB_step1 : applyT exL 10 σS exF (.app 7 [.app 6 []]) true = .ok (σS1, .app FUN [.var 0, .var 0]) := by
  have s1 : unify exL 8 σS (.app 6 []) (.var 0) true false false = .ok σS1 := by
    rw [unify_base_unbound rfl]; with_unfolding_all rfl
  have s2 : unifyList exL 9 σS [true] [.app 6 []] [.var 0] true false false = .ok σS1 := by
    rw [unifyList_cons]; simp only [if_true]; rw [s1]; with_unfolding_all rfl
  have s3 : unify exL 10 σS (.app 7 [.app 6 []]) (.app 7 [.var 0]) true false false = .ok σS1 := by
    rw [unify_app_app, if_neg (by decide), if_neg (by decide), if_pos (by decide)]
    exact s2
  unfold exF
  rw [applyT_fun, followT_app, s3]
  rfl

theorem exB_step2 : applyT exL 10 σS1 (.app FUN [.var 0, .var 0]) (.app 5 []) true = .ok (σS3, .app 5 []) := by
  have t1 : unify exL 10 σS1 (.app 5 []) (.var 0) true false false = .ok σS2 := by
    rw [unify_base_unbound rfl]; with_unfolding_all rfl
  rw [applyT_fun, followT_app, t1]
  with_unfolding_all rfl

/-- `(F(x0) ** x0 ** x0)` applied to `F(B), A`: the lower bound of `x0` rises from `B` to `A`,
`fix` resolves `x0 := A`, result `A` -/
theorem exB_run : applyAll exL 10 true σS exF [.app 7 [.app 6 []], .app 5 []] = .ok (σS3, .app 5 []) := by
  rw [applyAll, exB_step1]
  simp only []
  rw [applyAll, exB_step2]
  rfl

theorem σS_ok : OkStore exL σS := okStoreB_sound (by decide)
theorem σS_nc : NoConstraints σS := noConstraintsB_sound (by decide)
theorem σU_ok : OkStore exL σU := okStoreB_sound (by decide)
theorem σU_nc : NoConstraints σU := noConstraintsB_sound (by decide)
theorem σA_ok : OkStore exL σA := okStoreB_sound (by decide)
theorem σA_nc : NoConstraints σA := noConstraintsB_sound (by decide)

end Tfv.C03P
