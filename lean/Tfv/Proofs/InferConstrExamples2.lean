import Tfv.Proofs.InferConstrExamples
import Tfv.Proofs.InferConstrFulfilled
/-!
# Concrete runs for the "fulfilled constraints hold" theorems

* two distinct wildcards: `match3` answers `some true` although nothing relates them (why `match3_true_sound`
  and the theorems built on it are stated for wildcard-free stores);
* an elimination constraint `x0 ∈ {A}`: `fulfill` narrows it to the single alternative and unifies, `x0 ≤ A`.
-/
namespace Tfv.C03C
open Tfv Tfv.C03P

theorem match3_var_var_true {L : Lang} {σ : Store} {a b : Term} {av bv : Nat}
    (ha : followT σ a = .var av) (hb : followT σ b = .var bv)
    (hc : (av == bv || ((getVar σ av).wildcard && (getVar σ bv).wildcard)) = true) (n : Nat) (st aw : Bool) :
    match3 L σ (n+1) st aw a b = some true := by
  rw [match3, ha, hb]
  simp only [hc, if_true]

/-- `match3` alone is not sound on wildcards: two distinct wildcards match although nothing relates them -/
theorem match3_wildcards_unsound :
    match3 exL σW 68 true false (.var 0) (.var 1) = some true ∧
    Sat exL (valOf [.app 5 [], .app 6 []]) σW ∧
    ¬ Sub exL (den (valOf [.app 5 [], .app 6 []]) (.var 0)) (den (valOf [.app 5 [], .app 6 []]) (.var 1)) := by
  refine ⟨?_, satB_sound exL_wf (okStoreB_sound (by decide)) (by decide), ?_⟩
  · exact match3_var_var_true (av := 0) (bv := 1) rfl rfl rfl 67 true false
  · rw [den_var, den_var]
    exact not_sub_A_B

/-- the `normalized` test of `fulfill` -/
def normalizedB (σ : Store) : Term → Bool
  | .var v => (getVar σ v).bound.isNone
  | _ => true

theorem fulfill_elim_eq (L : Lang) (n : Nat) {σ σ1 : Store} {c : Nat} {ful : Bool}
    {r0 ref only : Term} {a0 alts : List Term}
    (h0 : getConstr σ c = .elim r0 a0 false)
    (hm : minimize L n σ c = .ok σ1)
    (h1 : getConstr σ1 c = .elim ref alts ful)
    (hn : (!(normalizedB σ1 ref && alts.all (normalizedB σ1))) = false)
    (hf : alts.filter (fun t => match3 L σ1 (matchFuel σ1) true true ref t != some false) = [only]) :
    fulfill L (n+1) σ c =
      match unify L n (setConstr σ1 c (.elim ref [only] true)) ref only true false false with
      | .error e => .error e
      | .ok σ3 => .ok (σ3, true) := by
  unfold fulfill
  rw [h0]
  simp only []
  rw [hm]
  simp only []
  rw [h1]
  simp only []
  refine (if_neg ?_).trans ?_
  · intro hpos
    have hpos' : (!(normalizedB σ1 ref && alts.all (normalizedB σ1))) = true := hpos
    rw [hn] at hpos'
    cases hpos'
  · rw [hf]
    rfl

theorem unify_unbound_base {L : Lang} {σ : Store} {w o : Nat} (hw : (getVar σ w).bound = none) (n : Nat) :
    unify L (n+1) σ (.var w) (.app o []) true false false =
      if o == TOP then .ok σ
      else if arityOf L o == 0 then below L n σ w o else bind L n σ w (.app o []) := by
  have e : termFuel σ = (σ.vars.length + 63) + 1 := rfl
  rw [unify, followT_unbound hw, followT_app]
  simp only [e, occurs_base_unbound hw, Bool.false_or, Bool.false_and, Bool.false_eq_true, if_false, if_true]

/-- `x0` with the pending elimination constraint `x0 ∈ {A}` -/
def σE : Store := { vars := [{}], csets := [[0]], constrs := [.elim (.var 0) [.app 5 []] false] }
/-- the constraint fulfilled: `x0 ≤ A` -/
def σE' : Store :=
  { vars := [{ upper := some 5 }], csets := [[]], constrs := [.elim (.var 0) [.app 5 []] true] }

theorem exE_minimize : minimize exL 9 σE 0 = .ok σE := by with_unfolding_all rfl

theorem exE_filter :
    [Term.app 5 []].filter (fun t => match3 exL σE (matchFuel σE) true true (.var 0) t != some false) = [.app 5 []] := by
  have e : match3 exL σE (matchFuel σE) true true (.var 0) (.app 5 []) = none := by
    rw [show matchFuel σE = 67 + 1 from rfl, match3_var_app (av := 0) (bo := 5) (bs := []) rfl rfl]
    rfl
  simp only [List.filter, e]
  rfl

theorem exE_fulfill : fulfill exL 10 σE 0 = .ok (σE', true) := by
  rw [fulfill_elim_eq exL 9 (σ := σE) (σ1 := σE) (c := 0) (ful := false) (r0 := .var 0) (ref := .var 0)
    (only := .app 5 []) (a0 := [.app 5 []]) (alts := [.app 5 []]) rfl exE_minimize rfl rfl exE_filter]
  rw [unify_unbound_base rfl]
  have b : below exL 8 (setConstr σE 0 (.elim (.var 0) [.app 5 []] true)) 0 5 = .ok σE' := by
    with_unfolding_all rfl
  rw [if_neg (by decide), if_pos (by decide), b]


theorem σE_okc : OkStoreC exL σE := okStoreCB_sound (by decide)
theorem σE'_okc : OkStoreC exL σE' := okStoreCB_sound (by decide)
theorem σC_noWild : NoWild σC := noWildB_sound (by decide)
theorem σC_subsHold : SubsHold exL σC := noFulfilledSubB_sound (by decide)

end Tfv.C03C
