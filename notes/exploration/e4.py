import sys
sys.path.insert(0,'/repo')
from transforge.type import *
from transforge.type import _
from transforge.expr import *
from transforge.lang import *
from transforge.graph import *
def check(lang, label):
    canon=sorted(lang.canon, key=str)
    # reach via subtypes
    direct={t:set(lang.subtypes(t)) for t in canon}
    sup={t:set(lang.supertypes(t)) for t in canon}
    def reach(t):
        seen=set(); st=[t]
        while st:
            c=st.pop()
            for s in direct[c]:
                if s not in seen: seen.add(s); st.append(s)
        return seen
    bad=[]
    for t in canon:
        r=reach(t)
        for s in canon:
            strict = s.is_subtype(t, strict=True)
            if bool(strict) != (s in r):
                bad.append((str(s),str(t),strict, s in r))
    mirror=[(str(s),str(t)) for t in canon for s in direct[t] if t not in sup[s]] + [(str(s),str(t),'sup') for s in canon for t in sup[s] if s not in direct[t]]
    print(label, 'canon', len(canon), 'bad', len(bad), bad[:6], 'mirror', mirror[:4])
A=TypeOperator('A'); B=TypeOperator('B',supertype=A); C=TypeOperator('C',supertype=B)
F=TypeOperator('F',params=1)
check(Language(dict(A=A,B=B,C=C,F=F), canon={A, F(A)}), 'plain')
check(Language(dict(A=A,B=B,C=C,F=F), canon={Top, A, F(A)}), 'top')
check(Language(dict(A=A,B=B,C=C,F=F), canon={Top, B, F(B)}), 'top nonroot B')
check(Language(dict(A=A,B=B,C=C,F=F), canon={Top, C, F(C)}), 'top nonroot C')
check(Language(dict(A=A,B=B,C=C,F=F), canon={Bottom, A, F(A)}), 'bottom')
check(Language(dict(A=A,B=B,C=C,F=F), canon={C}), 'C only')
check(Language(dict(A=A,B=B,C=C,F=F), canon={Top,C}), 'Top,C only')
K=TypeOperator('K',params=[Variance.CONTRA])
check(Language(dict(A=A,B=B,C=C,K=K), canon={A, K(A)}), 'contra K(A)')
check(Language(dict(A=A,B=B,C=C,K=K), canon={A, K(C)}), 'contra K(C)')
check(Language(dict(A=A,B=B,C=C,K=K), canon={Top, A, K(C)}), 'contra K(C) top')
check(Language(dict(A=A,B=B,C=C,K=K), canon={Bottom, A, K(C)}), 'contra K(C) bottom')
