import Tfv.Proofs.WildReachCert
import Tfv.Proofs.InferNoInternalTop
/-!
# Bindings are kept by every operation of the engine — on EVERY store (wildcards or not)

`Ext σ σ'` (the bindings of `σ` are bindings of `σ'`, no variable is lost) was proved through the engine as a field of
`StepR` (`Tfv/Proofs/ResolvedConstrEngine*.lean`) under the precondition `Pre`, which contains `NoWild`. It needs no
precondition at all: `bind` refuses a bound variable, everything else leaves bindings alone. Same induction on the fuel as
`Tfv/Proofs/InferNoInternalEngine.lean`.
-/
namespace Tfv.C03X
open Tfv Tfv.C03P Tfv.C03C Tfv.C03R Tfv.C16P Tfv.C17E

/-! ## 1. primitive stores -/

theorem ext_setVar {σ : Store} {v : Nat} {i : VarInfo}
    (h : ∀ b, (getVar σ v).bound = some b → i.bound = some b) : Ext σ (setVar σ v i) := by
  refine ⟨Nat.le_of_eq (length_setVar _ _ _).symm, fun w b hb => ?_⟩
  rw [getVar_setVar]
  split
  · next e => obtain ⟨e1, _⟩ := e; subst e1; exact h b hb
  · exact hb

theorem ext_setCset (σ : Store) (k : Nat) (cs : List Nat) : Ext σ (setCset σ k cs) :=
  ⟨Nat.le_refl _, fun _ _ h => h⟩

theorem ext_setConstr (σ : Store) (c : Nat) (x : Constr) : Ext σ (setConstr σ c x) :=
  ⟨Nat.le_refl _, fun _ _ h => h⟩

theorem ext_newVar (σ : Store) (wc : Bool) : Ext σ (newVar σ wc).1 := by
  refine ⟨?_, fun w b h => by rw [(boundEq_newVar σ wc).bound w]; exact h⟩
  unfold newVar; simp

theorem ext_newVars : ∀ (n : Nat) (σ : Store), Ext σ (newVars σ n).1
  | 0, σ => by unfold newVars; exact Ext.refl σ
  | n+1, σ => by
    unfold newVars
    simp only []
    exact (ext_newVar σ false).trans (ext_newVars n _)

theorem ext_foldl_cset (k : Nat) (vars : List Nat) : ∀ (σ : Store),
    Ext σ (vars.foldl (fun σ w => setVar σ w { (getVar σ w) with cset := k }) σ) := by
  induction vars with
  | nil => intro σ; exact Ext.refl σ
  | cons w ws ih =>
    intro σ
    simp only [List.foldl_cons]
    exact Ext.trans (b := setVar σ w { (getVar σ w) with cset := k }) (ext_setVar (fun _ hb => hb)) (ih _)

theorem ext_bindBaseStore {σ : Store} {v : Nat} (t : Term) (hv : (getVar σ v).bound = none) :
    Ext σ (bindBaseStore σ v t) := by
  unfold bindBaseStore
  simp only []
  refine Ext.trans (b := setVar σ v (clearW σ v)) (ext_setVar (fun _ hb => hb)) (ext_setVar ?_)
  intro b hb
  rw [getVar_setVar] at hb
  split at hb
  · have : (clearW σ v).bound = none := hv
    rw [this] at hb; cases hb
  · rw [hv] at hb; cases hb

theorem ext_bindVarStore {σ : Store} {v : Nat} (tv : Nat) (hv : (getVar σ v).bound = none) :
    Ext σ (bindVarStore σ v tv) := by
  have h1 := ext_bindBaseStore (.var tv) hv
  refine h1.trans ?_
  unfold bindVarStore bindBaseStore
  simp only []
  refine Ext.trans ?_ (ext_setVar (fun _ hb => hb))
  refine Ext.trans ?_ (ext_setVar (fun _ hb => hb))
  exact ext_setCset _ _ _

theorem ext_bindAppStore {σ : Store} {v : Nat} (t : Term) (hv : (getVar σ v).bound = none) :
    Ext σ (bindAppStore σ v t) := by
  have h1 := ext_bindBaseStore t hv
  refine h1.trans ?_
  unfold bindAppStore
  simp only []
  exact (ext_setCset _ _ _).trans (ext_foldl_cset _ _ _)

/-! ## 2. results -/

def ExtR (σ : Store) : R → Prop
  | .ok σ' => Ext σ σ'
  | .error _ => True

def ExtP {α : Type} (σ : Store) : Except Err (Store × α) → Prop
  | .ok (σ', _) => Ext σ σ'
  | .error _ => True

theorem extR_err {σ : Store} {e : Err} : ExtR σ (.error e) := trivial
theorem extP_err {α : Type} {σ : Store} {e : Err} : ExtP (α := α) σ (.error e) := trivial
theorem extR_refl (σ : Store) : ExtR σ (.ok σ) := Ext.refl σ
theorem extP_refl {α : Type} (σ : Store) (x : α) : ExtP σ (.ok (σ, x)) := Ext.refl σ

theorem ExtR.trans {σ σ1 : Store} {r : R} (s : Ext σ σ1) (h : ExtR σ1 r) : ExtR σ r := by
  cases r with
  | error e => trivial
  | ok σ2 => exact Ext.trans s h

theorem ExtP.trans {α : Type} {σ σ1 : Store} {r : Except Err (Store × α)} (s : Ext σ σ1) (h : ExtP σ1 r) :
    ExtP σ r := by
  cases r with
  | error e => trivial
  | ok p => exact Ext.trans s h

theorem ExtP.step {α : Type} {σ σ' : Store} {x : α} {r : Except Err (Store × α)} (h : ExtP σ r)
    (e : r = .ok (σ', x)) : Ext σ σ' := by
  rw [e] at h; exact h

theorem ExtR.step {σ σ' : Store} {r : R} (h : ExtR σ r) (e : r = .ok σ') : Ext σ σ' := by
  rw [e] at h; exact h

theorem extR_seq {σ : Store} {r : R} {k : Store → R} : ExtR σ r →
    (∀ σ1, r = .ok σ1 → Ext σ σ1 → ExtR σ1 (k σ1)) →
    ExtR σ (match r with | .error e => .error e | .ok σ1 => k σ1) := by
  intro h hk
  cases r with
  | error e => trivial
  | ok σ1 => exact ExtR.trans h (hk σ1 rfl h)

theorem extRP_seq {β : Type} {σ : Store} {r : R} {k : Store → Except Err (Store × β)} :
    ExtR σ r → (∀ σ1, r = .ok σ1 → Ext σ σ1 → ExtP σ1 (k σ1)) →
    ExtP σ (match r with | .error e => .error e | .ok σ1 => k σ1) := by
  intro h hk
  cases r with
  | error e => trivial
  | ok σ1 => exact ExtP.trans h (hk σ1 rfl h)

/-! ## 3. the statements -/

def UnifyX (L : Lang) (n : Nat) : Prop := ∀ σ a b st sb sw, ExtR σ (unify L n σ a b st sb sw)
def UnifyListX (L : Lang) (n : Nat) : Prop := ∀ σ vs xs ys st sb sw, ExtR σ (unifyList L n σ vs xs ys st sb sw)
def BindX (L : Lang) (n : Nat) : Prop := ∀ σ v t, ExtR σ (bind L n σ v t)
def AboveX (L : Lang) (n : Nat) : Prop := ∀ σ v new, ExtR σ (above L n σ v new)
def BelowX (L : Lang) (n : Nat) : Prop := ∀ σ v new, ExtR σ (below L n σ v new)
def CheckX (L : Lang) (n : Nat) : Prop := ∀ σ v, ExtR σ (checkConstraints L n σ v)
def CheckListX (L : Lang) (n : Nat) : Prop := ∀ σ v cs, ExtR σ (checkList L n σ v cs)
def FulfillX (L : Lang) (n : Nat) : Prop := ∀ σ c, ExtP σ (fulfill L n σ c)
def MinimizeX (L : Lang) (n : Nat) : Prop := ∀ σ c, ExtR σ (minimize L n σ c)
def MinLoopX (L : Lang) (n : Nat) : Prop := ∀ σ alts mins, ExtP σ (minLoop L n σ alts mins)
def FixX (L : Lang) (n : Nat) : Prop := ∀ σ t pl, ExtP σ (fix L n σ t pl)
def FixListX (L : Lang) (n : Nat) : Prop := ∀ σ vs ps pl, ExtR σ (fixList L n σ vs ps pl)

theorem unify_stepX {L : Lang} {n : Nat} (hunify : UnifyX L n) (hlist : UnifyListX L n) (hbind : BindX L n)
    (habove : AboveX L n) (hbelow : BelowX L n) : UnifyX L (n+1) := by
  intro σ a b st sb sw
  unfold unify
  split
  · split
    · exact hbind σ _ _
    · exact extR_refl σ
  · split
    · exact extR_refl σ
    · split
      · split
        · exact extR_refl σ
        · split
          · exact extR_err
          · split
            · exact extR_err
            · exact extR_refl σ
      · split
        · exact hlist _ _ _ _ _ _ _
        · exact extR_err
  · next av bo bs e1 e2 =>
    split
    · exact extR_refl σ
    · split
      · exact extR_err
      · split
        · split
          · exact extR_refl σ
          · split
            · exact hbelow σ av bo
            · exact hbind σ av _
        · split
          · split
            next σ1 fresh hnv =>
            have s1 : Ext σ σ1 := by
              have := ext_newVars bs.length σ; rw [hnv] at this; exact this
            refine ExtR.trans s1 (extR_seq (hbind σ1 av _) ?_)
            intro σ2 _ _
            exact hunify _ _ _ _ _ _
          · exact hbind σ av _
  · next ao as bv e1 e2 =>
    split
    · exact extR_refl σ
    · split
      · exact extR_err
      · split
        · split
          · exact extR_refl σ
          · split
            · exact habove σ bv ao
            · exact hbind σ bv _
        · split
          · split
            next σ1 fresh hnv =>
            have s1 : Ext σ σ1 := by
              have := ext_newVars as.length σ; rw [hnv] at this; exact this
            refine ExtR.trans s1 (extR_seq (hbind σ1 bv _) ?_)
            intro σ2 _ _
            exact hunify _ _ _ _ _ _
          · exact hbind σ bv _

theorem unifyList_stepX {L : Lang} {n : Nat} (hunify : UnifyX L n) (hlist : UnifyListX L n) :
    UnifyListX L (n+1) := by
  intro σ vs xs ys st sb sw
  unfold unifyList
  split
  · exact extR_err
  · next heq =>
    cases heq
    refine extR_seq ?_ ?_
    · split
      · exact hunify _ _ _ _ _ _
      · exact hunify _ _ _ _ _ _
    · intro σ1 _ _
      exact hlist _ _ _ _ _ _ _
  · exact extR_refl _

theorem bind_stepX {L : Lang} {n : Nat} (hunify : UnifyX L n) (hcheck : CheckX L n) : BindX L (n+1) := by
  intro σ v t
  cases t with
  | var tv =>
    rw [bind_var_eq]
    split
    · exact extR_err
    · next hns =>
      have hv : (getVar σ v).bound = none := by
        cases hb : (getVar σ v).bound with
        | none => rfl
        | some b => rw [hb] at hns; exact absurd rfl hns
      split
      · exact ext_setVar (fun _ hb => hb)
      · have sB : Ext σ (bindVarStore σ v tv) := ext_bindVarStore tv hv
        refine ExtR.trans sB (extR_seq ?_ ?_)
        · split
          · exact hunify _ _ _ _ _ _
          · exact extR_refl _
        · intro σ1 _ _
          refine extR_seq ?_ ?_
          · split
            · exact hunify _ _ _ _ _ _
            · exact extR_refl _
          · intro σ2 _ _
            exact hcheck σ2 v
  | app o args =>
    rw [bind_app_eq]
    split
    · exact extR_err
    · next hns =>
      have hv : (getVar σ v).bound = none := by
        cases hb : (getVar σ v).bound with
        | none => rfl
        | some b => rw [hb] at hns; exact absurd rfl hns
      split
      · split
        · exact extR_err
        · split
          · exact extR_err
          · exact ExtR.trans (ext_bindBaseStore _ hv) (hcheck _ v)
      · split
        · exact extR_err
        · exact ExtR.trans (ext_bindAppStore _ hv) (hcheck _ v)

theorem ext_chain {σ0 σa : Store} {c1 c2 c3 c4 : Prop} [Decidable c1] [Decidable c2] [Decidable c3]
    [Decidable c4] {X : R} (ha : Ext σ0 σa) (hX : ExtR σ0 X) :
    ExtR σ0 (if c1 then .error .subtypeMismatch else if c2 then .error .subtypeMismatch
      else if c3 then .ok σa else if c4 then X else .error .subtypeMismatch) := by
  split
  · exact extR_err
  · split
    · exact extR_err
    · split
      · exact ha
      · split
        · exact hX
        · exact extR_err

theorem above_stepX {L : Lang} {n : Nat} (hbind : BindX L n) (hcheck : CheckX L n) : AboveX L (n+1) := by
  intro σ v new
  unfold above
  split
  · exact hbind σ v _
  · simp only []
    split
    · exact extR_err
    · have sa : Ext σ (setVar σ v { (getVar σ v) with wildcard := false }) := ext_setVar (fun _ hb => hb)
      have sm : Ext σ (setVar (setVar σ v { (getVar σ v) with wildcard := false }) v
          { bound := (getVar σ v).bound, lower := some new, upper := (getVar σ v).upper, wildcard := false,
            cset := (getVar σ v).cset }) := by
        refine sa.trans (ext_setVar ?_)
        intro b hb
        rw [getVar_setVar] at hb
        split at hb
        · exact hb
        · exact hb
      refine extR_seq (ext_chain sa (ExtR.trans sm (hcheck _ v))) ?_
      intro σr _ _
      split
      · split
        · exact hbind σr v _
        · exact extR_refl σr
      · exact extR_refl σr

theorem below_stepX {L : Lang} {n : Nat} (hbind : BindX L n) (hcheck : CheckX L n) : BelowX L (n+1) := by
  intro σ v new
  unfold below
  split
  · exact hbind σ v _
  · simp only []
    split
    · exact extR_err
    · have sa : Ext σ (setVar σ v { (getVar σ v) with wildcard := false }) := ext_setVar (fun _ hb => hb)
      have sm : Ext σ (setVar (setVar σ v { (getVar σ v) with wildcard := false }) v
          { bound := (getVar σ v).bound, lower := (getVar σ v).lower, upper := some new, wildcard := false,
            cset := (getVar σ v).cset }) := by
        refine sa.trans (ext_setVar ?_)
        intro b hb
        rw [getVar_setVar] at hb
        split at hb
        · exact hb
        · exact hb
      refine extR_seq (ext_chain sa (ExtR.trans sm (hcheck _ v))) ?_
      intro σr _ _
      split
      · split
        · exact hbind σr v _
        · exact extR_refl σr
      · exact extR_refl σr

theorem fix_stepX {L : Lang} {n : Nat} (hbind : BindX L n) (hlist : FixListX L n) : FixX L (n+1) := by
  intro σ t pl
  unfold fix
  split
  · refine extRP_seq (hlist σ _ _ pl) ?_
    intro σ1 _ _
    exact extP_refl σ1 _
  · next v e1 =>
    simp only []
    refine extRP_seq ?_ ?_
    · split
      · split
        · exact hbind σ v _
        · exact extR_refl σ
      · split
        · split
          · exact hbind σ v _
          · exact extR_refl σ
        · exact extR_refl σ
    · intro σ1 _ _
      exact extP_refl σ1 _

theorem fixList_stepX {L : Lang} {n : Nat} (hfix : FixX L n) (hlist : FixListX L n) : FixListX L (n+1) := by
  intro σ vs ps pl
  unfold fixList
  split
  · exact extR_err
  · next heq =>
    cases heq
    split
    · exact extR_err
    · next σ1 x he =>
      have s1 := (hfix _ _ _).step he
      exact ExtR.trans s1 (hlist _ _ _ _)
  · exact extR_refl _

theorem check_stepX {L : Lang} {n : Nat} (hlist : CheckListX L n) : CheckX L (n+1) := by
  intro σ v
  unfold checkConstraints
  exact hlist σ v _

theorem checkList_stepX {L : Lang} {n : Nat} (hful : FulfillX L n) (hlist : CheckListX L n) :
    CheckListX L (n+1) := by
  intro σ v cs
  cases cs with
  | nil => unfold checkList; exact extR_refl σ
  | cons c cs =>
    unfold checkList
    split
    · exact extR_err
    · next σ1 done he =>
      have s1 := (hful σ c).step he
      refine ExtR.trans s1 ?_
      simp only []
      split
      · exact ExtR.trans (ext_setCset _ _ _) (hlist _ v cs)
      · exact hlist σ1 v cs

theorem minimize_stepX {L : Lang} {n : Nat} (hloop : MinLoopX L n) : MinimizeX L (n+1) := by
  intro σ c
  unfold minimize
  split
  · next ref alts f0 e0 =>
    have hl := hloop σ alts []
    split
    · exact extR_err
    · next σ1 minimized he =>
      rw [he] at hl
      have s1 : Ext σ σ1 := hl
      split
      · exact s1.trans (ext_setConstr _ _ _)
      · exact s1
  · exact extR_refl σ

theorem minLoop_stepX {L : Lang} {n : Nat} (hfix : FixX L n) (hloop : MinLoopX L n) : MinLoopX L (n+1) := by
  intro σ alts mins
  cases alts with
  | nil => unfold minLoop; exact extP_refl σ _
  | cons obj rest =>
    unfold minLoop
    simp only []
    split
    · split
      · exact extP_err
      · next σ1 t he =>
        have s1 := (hfix _ _ _).step he
        exact ExtP.trans s1 (hloop _ _ _)
    · exact hloop _ _ _

theorem fulfill_stepX {L : Lang} {n : Nat} (hunify : UnifyX L n) (hmin : MinimizeX L n) : FulfillX L (n+1) := by
  intro σ c
  unfold fulfill
  split
  · refine extRP_seq (hunify σ _ _ true true false) ?_
    intro σ1 _ _
    split
    · split
      · exact ext_setConstr _ _ _
      · exact extP_refl σ1 _
    · exact extP_err
    · split
      · exact extP_refl σ1 _
      · exact extP_refl σ1 _
  · exact extP_refl σ _
  · refine extRP_seq (hmin σ c) ?_
    intro σ1 _ _
    split
    · extract_lets normalized alts' σ2
      split
      · exact extP_err
      · have s2 : Ext σ1 σ2 := ext_setConstr _ _ _
        clear_value σ2 alts'
        split
        · exact extP_err
        · refine ExtP.trans s2 (extRP_seq (hunify _ _ _ _ _ _) ?_)
          intro σ3 _ _
          exact extP_refl σ3 _
        · exact ext_setConstr _ _ _
    · exact extP_err

theorem all_ext (L : Lang) : ∀ n,
    UnifyX L n ∧ UnifyListX L n ∧ BindX L n ∧ AboveX L n ∧ BelowX L n ∧ FixX L n ∧ FixListX L n ∧
    CheckX L n ∧ CheckListX L n ∧ FulfillX L n ∧ MinimizeX L n ∧ MinLoopX L n
  | 0 => by
    refine ⟨?_, ?_, ?_, ?_, ?_, ?_, ?_, ?_, ?_, ?_, ?_, ?_⟩
    · intro σ a b st sb sw; unfold unify; exact extR_err
    · intro σ vs xs ys st sb sw; unfold unifyList; exact extR_err
    · intro σ v t; unfold bind; exact extR_err
    · intro σ v new; unfold above; exact extR_err
    · intro σ v new; unfold below; exact extR_err
    · intro σ t pl; unfold fix; exact extP_err
    · intro σ vs ps pl; unfold fixList; exact extR_err
    · intro σ v; unfold checkConstraints; exact extR_err
    · intro σ v cs; unfold checkList; exact extR_err
    · intro σ c; unfold fulfill; exact extP_err
    · intro σ c; unfold minimize; exact extR_err
    · intro σ alts mins; unfold minLoop; exact extP_err
  | n+1 => by
    obtain ⟨h1, h2, h3, h4, h5, h6, h7, h8, h9, h10, h11, h12⟩ := all_ext L n
    exact ⟨unify_stepX h1 h2 h3 h4 h5, unifyList_stepX h1 h2, bind_stepX h1 h8,
      above_stepX h3 h8, below_stepX h3 h8, fix_stepX h3 h7, fixList_stepX h6 h7,
      check_stepX h9, checkList_stepX h10 h9, fulfill_stepX h1 h11, minimize_stepX h12,
      minLoop_stepX h6 h12⟩

theorem unify_ext {L : Lang} {n : Nat} {σ σ' : Store} {a b : Term} {st sb sw : Bool}
    (h : unify L n σ a b st sb sw = .ok σ') : Ext σ σ' := ((all_ext L n).1 σ a b st sb sw).step h

theorem fulfill_ext {L : Lang} {n : Nat} {σ σ' : Store} {c : Nat} {d : Bool}
    (h : fulfill L n σ c = .ok (σ', d)) : Ext σ σ' := ((all_ext L n).2.2.2.2.2.2.2.2.2.1 σ c).step h

theorem fix_ext {L : Lang} {n : Nat} {σ σ' : Store} {t t' : Term} {pl : Bool}
    (h : fix L n σ t pl = .ok (σ', t')) : Ext σ σ' := ((all_ext L n).2.2.2.2.2.1 σ t pl).step h

theorem bind_ext {L : Lang} {n : Nat} {σ σ' : Store} {v : Nat} {t : Term}
    (h : bind L n σ v t = .ok σ') : Ext σ σ' := ((all_ext L n).2.2.1 σ v t).step h

end Tfv.C03X

namespace Tfv.C03X
open Tfv Tfv.C03P Tfv.C03C Tfv.C03R Tfv.C16P Tfv.C17E

/-! ## 4. `applyT`, chains of applications -/

theorem applyPre_ext (L : Lang) (fuel : Nat) (σ : Store) (f0 : Term) : ExtP σ (applyPre L fuel σ f0) := by
  cases f0 with
  | app o args => exact extP_refl σ _
  | var fv =>
    simp only [applyPre]
    have s2 : Ext σ (newVar (newVar σ).1).1 := (ext_newVar σ false).trans (ext_newVar _ false)
    have hb := (all_ext L fuel).2.2.1 (newVar (newVar σ).1).1 fv
      (.app FUN [.var (newVar σ).2, .var (newVar (newVar σ).1).2])
    split
    · exact extP_err
    · next σ3 he => exact s2.trans (hb.step he)

theorem applyPost_ext (L : Lang) (fuel : Nat) (σ : Store) (x0 f1 : Term) (fixFlag : Bool) :
    ExtP σ (applyPost L fuel σ x0 f1 fixFlag) := by
  unfold applyPost
  split
  · split
    · refine extRP_seq ((all_ext L fuel).1 σ _ _ _ _ _) ?_
      intro σ1 _ _
      split
      · exact (all_ext L fuel).2.2.2.2.2.1 σ1 _ true
      · exact extP_refl σ1 _
    · split
      · exact extP_refl σ _
      · exact extP_err
  · split
    · exact extP_refl σ _
    · exact extP_err
  · exact extP_err

theorem applyT_ext (L : Lang) (fuel : Nat) (σ : Store) (f x : Term) (fixFlag : Bool) :
    ExtP σ (applyT L fuel σ f x fixFlag) := by
  rw [applyT_eq]
  have hp := applyPre_ext L fuel σ (followT σ f)
  split
  · exact extP_err
  · next σ1 f1 he =>
    exact ExtP.trans (hp.step he) (applyPost_ext L fuel σ1 _ f1 fixFlag)

theorem applyAll_ext (L : Lang) (fuel : Nat) (fixFlag : Bool) : ∀ (xs : List Term) (σ : Store) (f : Term),
    ExtP σ (applyAll L fuel fixFlag σ f xs)
  | [], σ, f => by unfold applyAll; exact extP_refl σ _
  | x :: xs, σ, f => by
    unfold applyAll
    have ha := applyT_ext L fuel σ f x fixFlag
    split
    · exact extP_err
    · next σ1 r he => exact ExtP.trans (ha.step he) (applyAll_ext L fuel fixFlag xs σ1 r)

/-- a successful chain of applications keeps every binding: on every store, wildcards or not -/
theorem applyAll_keeps_bindings {L : Lang} {fuel : Nat} {fixFlag : Bool} {xs : List Term} {σ σ' : Store} {f r : Term}
    (h : applyAll L fuel fixFlag σ f xs = .ok (σ', r)) : Ext σ σ' :=
  (applyAll_ext L fuel fixFlag xs σ f).step h

end Tfv.C03X
