import Tfv.Proofs.Frame
import Tfv.Proofs.InferInstantiate
/-!
# Frame lemmas for the inference engine (C16), part 2

* the frame theorems in terms of `Reach`;
* `fix` does nothing on terms whose variables are unresolved and unbounded, hence
  `instantiate` of a constraint-free schema returns the shifted body over fresh variables;
* `applyT` writes only to reachable or freshly allocated variables.
-/
namespace Tfv.C16P
open Tfv Tfv.C03P

/-! ## 1. reachability is a closed set -/

theorem closed_reach (σ : Store) (a : Term) : Closed σ (Reach σ a) :=
  fun _ _ hw hb _ hv => Reach.step hw hb hv

theorem closed_reach2 (σ : Store) (a b : Term) : Closed σ (fun v => Reach σ a v ∨ Reach σ b v) := by
  intro w t hw hb v hv
  rcases hw with h | h
  · exact Or.inl (Reach.step h hb hv)
  · exact Or.inr (Reach.step h hb hv)

theorem closed_congr {σ : Store} {S S' : Nat → Prop} (h : ∀ v, S v ↔ S' v) (hc : Closed σ S) :
    Closed σ S' :=
  fun w b hw hb v hv => (h v).mp (hc w b ((h w).mpr hw) hb v hv)

theorem closed_or_fresh {σ : Store} {S : Nat → Prop} (hc : Closed σ S) (P : Nat → Prop) :
    Closed σ (fun v => S v ∨ (σ.vars.length ≤ v ∧ P v)) := by
  intro w b hw hb
  rcases hw with hw | hw
  · exact termIn_mono (fun _ h => Or.inl h) (hc w b hw hb)
  · rw [getVar_oor (by omega)] at hb; cases hb

theorem closed_newVar {σ : Store} {S : Nat → Prop} (hc : Closed σ S) (wc : Bool) :
    Closed (newVar σ wc).1 S := by
  intro w b hw hb
  rw [(getVar_newVar_core σ wc w).1] at hb
  exact hc w b hw hb

theorem unify_frame {L : Lang} {n : Nat} {σ σ' : Store} {a b : Term} (nc : NoConstraints σ)
    (h : unify L n σ a b true false false = .ok σ') :
    σ'.vars.length = σ.vars.length ∧ NoConstraints σ' ∧
    ∀ v, ¬ Reach σ a v → ¬ Reach σ b v → getVar σ' v = getVar σ v := by
  have f := (all_frame L n).1 _ σ a b σ' nc (closed_reach2 σ a b)
    (fun v hv => Or.inl (Reach.here hv)) (fun v hv => Or.inr (Reach.here hv)) h
  exact ⟨f.len, f.nc, fun v h1 h2 => f.frame v (fun h => h.elim h1 h2)⟩

theorem fix_frame {L : Lang} {n : Nat} {σ σ' : Store} {t t' : Term} {pl : Bool} (nc : NoConstraints σ)
    (h : fix L n σ t pl = .ok (σ', t')) :
    σ'.vars.length = σ.vars.length ∧ NoConstraints σ' ∧
    (∀ v, ¬ Reach σ t v → getVar σ' v = getVar σ v) ∧ ∀ v, VarIn v t' → Reach σ t v := by
  obtain ⟨f, ht'⟩ := (all_frame L n).2.2.2.2.2.1 _ σ t pl σ' t' nc (closed_reach σ t)
    (fun v hv => Reach.here hv) h
  exact ⟨f.len, f.nc, f.frame, ht'⟩

/-! ## 2. `applyT` -/

theorem applyPre_fr {L : Lang} {n : Nat} {S : Nat → Prop} {σ σ1 : Store} {f0 f1 : Term}
    (nc : NoConstraints σ) (hc : Closed σ S) (hf : TermIn S f0)
    (h : applyPre L n σ f0 = .ok (σ1, f1)) :
    NoConstraints σ1 ∧ σ.vars.length ≤ σ1.vars.length ∧
    Closed σ1 (fun v => S v ∨ (σ.vars.length ≤ v ∧ v < σ1.vars.length)) ∧
    TermIn (fun v => S v ∨ (σ.vars.length ≤ v ∧ v < σ1.vars.length)) f1 ∧
    ∀ v, v < σ.vars.length → ¬ S v → getVar σ1 v = getVar σ v := by
  cases f0 with
  | app o args =>
    simp only [applyPre] at h
    injection h with h
    injection h with h1 h2
    subst h1; subst h2
    exact ⟨nc, Nat.le_refl _, closed_or_fresh hc _, termIn_mono (fun _ h => Or.inl h) hf, fun _ _ _ => rfl⟩
  | var fv =>
    simp only [applyPre] at h
    split at h
    · cases h
    · next σ3 hb =>
      injection h with h
      injection h with h1 h2
      subst h1; subst h2
      have len2 : (newVar (newVar σ).1).1.vars.length = σ.vars.length + 2 := by
        rw [length_newVar, length_newVar]
      have hc2 : Closed (newVar (newVar σ).1).1
          (fun v => S v ∨ (σ.vars.length ≤ v ∧ v < σ.vars.length + 2)) :=
        closed_newVar (closed_newVar (closed_or_fresh hc _) _) _
      have nc2 : NoConstraints (newVar (newVar σ).1).1 := nc_newVar (nc_newVar nc _) _
      have f := (all_frame L n).2.2.1 _ _ fv _ σ3 nc2 hc2 (Or.inl (termIn_var.mp hf))
        (termIn_app.mpr (termsIn_cons.mpr ⟨termIn_var.mpr (Or.inr (by rw [snd_newVar]; omega)),
          termsIn_cons.mpr ⟨termIn_var.mpr (Or.inr (by rw [snd_newVar, length_newVar]; omega)),
            termsIn_nil⟩⟩)) hb
      have len3 : σ3.vars.length = σ.vars.length + 2 := f.len.trans len2
      rw [len3]
      refine ⟨f.nc, by omega, f.closed, followT_in f.closed (termIn_mono (fun _ h => Or.inl h) hf),
        fun v hv hS => ?_⟩
      rw [f.frame v (fun h => h.elim hS (fun h => by omega))]
      rw [getVar_newVar_lt (by rw [length_newVar]; omega), getVar_newVar_lt hv]

theorem applyPost_fr {L : Lang} {n : Nat} {S : Nat → Prop} {σ σ' : Store} {x0 f1 r : Term} {fixFlag : Bool}
    (nc : NoConstraints σ) (hc : Closed σ S) (hf : TermIn S f1) (hx : TermIn S x0)
    (h : applyPost L n σ x0 f1 fixFlag = .ok (σ', r)) : Fr S σ σ' ∧ TermIn S r := by
  unfold applyPost at h
  split at h
  · next o l r0 =>
    have hargs := termIn_app.mp hf
    obtain ⟨hl, hr0⟩ := termsIn_cons.mp hargs
    obtain ⟨hr0, _⟩ := termsIn_cons.mp hr0
    split at h
    · split at h
      · cases h
      · next σ1 hu =>
        have f1 := (all_frame L n).1 S σ x0 l σ1 nc hc hx hl hu
        split at h
        · obtain ⟨f2, hr⟩ := (all_frame L n).2.2.2.2.2.1 S σ1 r0 true σ' r f1.nc f1.closed hr0 h
          exact ⟨f1.trans f2, hr⟩
        · injection h with h
          injection h with h1 h2
          subst h1; subst h2
          exact ⟨f1, hr0⟩
    · split at h
      · injection h with h
        injection h with h1 h2
        subst h1; subst h2
        exact ⟨Fr.refl nc hc, termIn_base _⟩
      · cases h
  · split at h
    · injection h with h
      injection h with h1 h2
      subst h1; subst h2
      exact ⟨Fr.refl nc hc, termIn_base _⟩
    · cases h
  · cases h

theorem applyT_fr {L : Lang} {n : Nat} {S : Nat → Prop} {σ σ' : Store} {f x r : Term} {fixFlag : Bool}
    (nc : NoConstraints σ) (hc : Closed σ S) (hf : TermIn S f) (hx : TermIn S x)
    (h : applyT L n σ f x fixFlag = .ok (σ', r)) :
    NoConstraints σ' ∧ σ.vars.length ≤ σ'.vars.length ∧
    Closed σ' (fun v => S v ∨ (σ.vars.length ≤ v ∧ v < σ'.vars.length)) ∧
    TermIn (fun v => S v ∨ (σ.vars.length ≤ v ∧ v < σ'.vars.length)) r ∧
    ∀ v, v < σ.vars.length → ¬ S v → getVar σ' v = getVar σ v := by
  rw [applyT_eq] at h
  split at h
  · cases h
  · next σ1 f1 hpre =>
    obtain ⟨nc1, hlen, hc1, hf1, hfr⟩ := applyPre_fr nc hc (followT_in hc hf) hpre
    obtain ⟨f2, hr⟩ := applyPost_fr nc1 hc1 hf1 (termIn_mono (fun _ h => Or.inl h) (followT_in hc hx)) h
    rw [f2.len]
    refine ⟨f2.nc, hlen, f2.closed, hr, fun v hv hS => ?_⟩
    rw [f2.frame v (fun h => h.elim hS (fun h => by omega))]
    exact hfr v hv hS

theorem apply_frame {L : Lang} {n : Nat} {σ σ' : Store} {f x r : Term} {fixFlag : Bool}
    (nc : NoConstraints σ) (h : applyT L n σ f x fixFlag = .ok (σ', r)) :
    σ.vars.length ≤ σ'.vars.length ∧ NoConstraints σ' ∧
    (∀ v, v < σ.vars.length → ¬ Reach σ f v → ¬ Reach σ x v → getVar σ' v = getVar σ v) ∧
    ∀ v, VarIn v r → (Reach σ f v ∨ Reach σ x v) ∨ (σ.vars.length ≤ v ∧ v < σ'.vars.length) := by
  obtain ⟨nc', hlen, _, hr, hfr⟩ := applyT_fr nc (closed_reach2 σ f x)
    (fun v hv => Or.inl (Reach.here hv)) (fun v hv => Or.inr (Reach.here hv)) h
  exact ⟨hlen, nc', fun v hv h1 h2 => hfr v hv (fun h => h.elim h1 h2), hr⟩

/-! ## 3. `fix` on unresolved, unbounded variables -/

/-- the variable is unresolved and has no bounds -/
def Inert (σ : Store) (v : Nat) : Prop :=
  (getVar σ v).bound = none ∧ (getVar σ v).lower = none ∧ (getVar σ v).upper = none

theorem inert_of_ge {σ : Store} {v : Nat} (h : σ.vars.length ≤ v) : Inert σ v := by
  unfold Inert; rw [getVar_oor (by omega)]; exact ⟨rfl, rfl, rfl⟩

theorem inert_newVar {σ : Store} {v : Nat} (h : Inert σ v) (wc : Bool) : Inert (newVar σ wc).1 v := by
  obtain ⟨h1, h2, h3⟩ := getVar_newVar_core σ wc v
  unfold Inert; rw [h1, h2, h3]; exact h

def FixI (L : Lang) (n : Nat) : Prop :=
  ∀ σ t pl σ' t', (∀ v, VarIn v t → Inert σ v) → fix L n σ t pl = .ok (σ', t') → σ' = σ ∧ t' = t

def FixListI (L : Lang) (n : Nat) : Prop :=
  ∀ σ vs ps pl σ', (∀ p, p ∈ ps → ∀ v, VarIn v p → Inert σ v) → fixList L n σ vs ps pl = .ok σ' → σ' = σ

theorem fix_stepI {L : Lang} {n : Nat} (hlist : FixListI L n) : FixI L (n+1) := by
  intro σ t pl σ' t' hin h
  cases t with
  | app o args =>
    rw [fix, followT_app] at h
    simp only [] at h
    split at h
    · cases h
    · next σ1 h1 =>
      injection h with h
      injection h with h2 h3
      subst h2; subst h3
      exact ⟨hlist σ _ args pl _ (fun p hp v hv => hin v (VarIn.app hp hv)) h1, rfl⟩
  | var v =>
    obtain ⟨hb, hl, hu⟩ := hin v VarIn.var
    rw [fix, followT_unbound hb] at h
    simp only [hl, hu, Option.isSome_none, Bool.and_false, Bool.false_eq_true, if_false] at h
    injection h with h
    injection h with h2 h3
    subst h2; subst h3
    exact ⟨rfl, followT_unbound hb⟩

theorem fixList_stepI {L : Lang} {n : Nat} (hfix : FixI L n) (hlist : FixListI L n) : FixListI L (n+1) := by
  intro σ vs ps pl σ' hin h
  match vs, ps with
  | [], ps =>
    rw [fixList_nil_left] at h
    injection h with h; exact h.symm
  | vs, [] =>
    rw [fixList_nil_right] at h
    injection h with h; exact h.symm
  | v :: vs, p :: ps =>
    rw [fixList_cons] at h
    split at h
    · cases h
    · next σ1 t1 h1 =>
      obtain ⟨e, _⟩ := hfix σ p _ σ1 t1 (hin p List.mem_cons_self) h1
      subst e
      exact hlist _ vs ps pl σ' (fun q hq => hin q (List.mem_cons_of_mem _ hq)) h

theorem all_inert (L : Lang) : ∀ n, FixI L n ∧ FixListI L n
  | 0 => by
    refine ⟨?_, ?_⟩
    · intro σ t pl σ' t' _ h; unfold fix at h; cases h
    · intro σ vs ps pl σ' _ h; unfold fixList at h; cases h
  | n+1 => by
    obtain ⟨h1, h2⟩ := all_inert L n
    exact ⟨fix_stepI h2, fixList_stepI h1 h2⟩

/-! ## 4. variables of a shifted term -/

mutual
theorem varIn_shift {k v : Nat} : ∀ t, VarIn v (Term.shift k t) → ∃ w, VarIn w t ∧ v = w + k
  | .var w, h => by
    rw [Term.shift] at h
    cases h
    exact ⟨w, VarIn.var, rfl⟩
  | .app o args, h => by
    rw [Term.shift] at h
    cases h with
    | app hu hv =>
      obtain ⟨w, t, ht, hw, e⟩ := varIn_shiftL args _ hu hv
      exact ⟨w, VarIn.app ht hw, e⟩
theorem varIn_shiftL {k v : Nat} : ∀ (ts : List Term) (u : Term), u ∈ Term.shiftL k ts → VarIn v u →
    ∃ w t, t ∈ ts ∧ VarIn w t ∧ v = w + k
  | [], u, hu, _ => by rw [Term.shiftL] at hu; cases hu
  | t :: ts, u, hu, hv => by
    rw [Term.shiftL] at hu
    rcases List.mem_cons.mp hu with e | e
    · subst e
      obtain ⟨w, hw, e⟩ := varIn_shift t hv
      exact ⟨w, t, List.mem_cons_self, hw, e⟩
    · obtain ⟨w, t', ht', hw, e⟩ := varIn_shiftL ts u e hv
      exact ⟨w, t', List.mem_cons_of_mem _ ht', hw, e⟩
end

mutual
theorem varIn_okTermN {L : Lang} {m v : Nat} : ∀ t, okTermN L m t = true → VarIn v t → v < m
  | .var w, h, hv => by
    cases hv
    unfold okTermN at h
    simpa using h
  | .app o args, h, hv => by
    unfold okTermN at h
    simp only [Bool.and_eq_true] at h
    cases hv with
    | app hu hv => exact varIn_okTermNL args h.2 _ hu hv
theorem varIn_okTermNL {L : Lang} {m v : Nat} : ∀ ts, okTermNL L m ts = true → ∀ u, u ∈ ts → VarIn v u → v < m
  | [], _, u, hu, _ => by cases hu
  | t :: ts, h, u, hu, hv => by
    rw [okTermNL, Bool.and_eq_true] at h
    rcases List.mem_cons.mp hu with e | e
    · rw [e] at hv; exact varIn_okTermN t h.1 hv
    · exact varIn_okTermNL ts h.2 u e hv
end

/-! ## 5. `allocVars`, `instantiate` -/

theorem foldl_newVar {α : Type} (wc : Bool) : ∀ (l : List α) (σ : Store),
    (l.foldl (fun σ _ => (newVar σ wc).1) σ).vars.length = σ.vars.length + l.length ∧
    (∀ v, v < σ.vars.length → getVar (l.foldl (fun σ _ => (newVar σ wc).1) σ) v = getVar σ v) ∧
    (∀ v, Inert σ v → Inert (l.foldl (fun σ _ => (newVar σ wc).1) σ) v)
  | [], σ => ⟨rfl, fun _ _ => rfl, fun _ h => h⟩
  | _ :: l, σ => by
    obtain ⟨h1, h2, h3⟩ := foldl_newVar wc l (newVar σ wc).1
    simp only [List.foldl_cons, List.length_cons]
    refine ⟨by rw [h1, length_newVar]; omega, fun v hv => ?_, fun v hv => h3 v (inert_newVar hv wc)⟩
    rw [h2 v (by rw [length_newVar]; omega), getVar_newVar_lt hv]

theorem allocVars_spec (σ : Store) (nvars nwild : Nat) :
    (allocVars σ nvars nwild).vars.length = σ.vars.length + nvars + nwild ∧
    (∀ v, v < σ.vars.length → getVar (allocVars σ nvars nwild) v = getVar σ v) ∧
    (∀ v, σ.vars.length ≤ v → Inert (allocVars σ nvars nwild) v) := by
  unfold allocVars
  simp only []
  obtain ⟨a1, a2, a3⟩ := foldl_newVar false (List.range nvars) σ
  obtain ⟨b1, b2, b3⟩ := foldl_newVar true (List.range nwild)
    ((List.range nvars).foldl (fun σ _ => (newVar σ false).1) σ)
  refine ⟨by rw [b1, a1, List.length_range, List.length_range], fun v hv => ?_, fun v hv => ?_⟩
  · rw [b2 v (by rw [a1]; omega), a2 v hv]
  · exact b3 v (a3 v (inert_of_ge hv))

/-- `spineFollow` does nothing on a term none of whose variables is bound -/
theorem spineFollow_unbound {σ : Store} (t : Term)
    (h : ∀ v, VarIn v t → (getVar σ v).bound = none) : spineFollow σ t = t := by
  fun_induction spineFollow σ t with
  | case1 o l r ho ih =>
    have hr := ih (fun v hv => h v (VarIn.app (List.mem_cons_of_mem _ List.mem_cons_self) hv))
    rw [hr]
    cases l with
    | var v =>
      simp only []
      rw [followT_unbound (h v (VarIn.app List.mem_cons_self VarIn.var))]
    | app p args => rfl
  | case2 => rfl
  | case3 v => exact followT_unbound (h v VarIn.var)
  | case4 => rfl

/-- the freshly allocated variables are unbound, so `spineFollow` leaves the shifted body alone -/
theorem spineFollow_allocVars (σ : Store) (nvars nwild : Nat) (t : Term) :
    spineFollow (allocVars σ nvars nwild) (t.shift σ.vars.length) = t.shift σ.vars.length := by
  apply spineFollow_unbound
  intro v hv
  obtain ⟨w, _, e⟩ := varIn_shift _ hv
  exact ((allocVars_spec σ nvars nwild).2.2 v (by omega)).1

theorem instantiate_eq {L : Lang} {n : Nat} {σ : Store} {s : Schema} (hc : s.constraints = []) :
    instantiate L n σ s = fix L n (allocVars σ s.nvars s.nwild) (s.body.shift σ.vars.length) true := by
  unfold instantiate
  simp only [hc, addConstraints, spineFollow_allocVars]

/-- instantiating a constraint-free schema: the store only grows by the fresh variables,
the result is the body over the fresh variables -/
theorem instantiate_fresh {L : Lang} {n : Nat} {σ σ' : Store} {s : Schema} {t : Term}
    (hc : s.constraints = []) (hbody : okTermN L (s.nvars + s.nwild) s.body = true)
    (h : instantiate L n σ s = .ok (σ', t)) :
    σ' = allocVars σ s.nvars s.nwild ∧ t = s.body.shift σ.vars.length ∧
    σ'.vars.length = σ.vars.length + s.nvars + s.nwild ∧
    (∀ v, VarIn v t → σ.vars.length ≤ v ∧ v < σ'.vars.length) ∧
    (∀ v, v < σ.vars.length → getVar σ' v = getVar σ v) := by
  rw [instantiate_eq hc] at h
  obtain ⟨a1, a2, a3⟩ := allocVars_spec σ s.nvars s.nwild
  have hv : ∀ v, VarIn v (s.body.shift σ.vars.length) → σ.vars.length ≤ v ∧ v < σ.vars.length + s.nvars + s.nwild := by
    intro v hv
    obtain ⟨w, hw, e⟩ := varIn_shift _ hv
    have := varIn_okTermN _ hbody hw
    omega
  obtain ⟨e1, e2⟩ := (all_inert L n).1 _ _ true σ' t (fun v h => a3 v (hv v h).1) h
  subst e1; subst e2
  exact ⟨rfl, rfl, a1, fun v h => by rw [a1]; exact hv v h, a2⟩

/-- two instantiations, the second one in any later store, share no variable -/
theorem instantiate_disjoint {L : Lang} {n m : Nat} {σ σ1 σ2 σ3 : Store} {s s' : Schema} {t1 t2 : Term}
    (hc : s.constraints = []) (hbody : okTermN L (s.nvars + s.nwild) s.body = true)
    (hc' : s'.constraints = []) (hbody' : okTermN L (s'.nvars + s'.nwild) s'.body = true)
    (h1 : instantiate L n σ s = .ok (σ1, t1)) (hlater : σ1.vars.length ≤ σ2.vars.length)
    (h2 : instantiate L m σ2 s' = .ok (σ3, t2)) : ∀ v, VarIn v t1 → ¬ VarIn v t2 := by
  intro v hv1 hv2
  have a := (instantiate_fresh hc hbody h1).2.2.2.1 v hv1
  have b := (instantiate_fresh hc' hbody' h2).2.2.2.1 v hv2
  omega

/-! ## 6. an expression whose variables were not touched means what it meant before -/

theorem follow_congr {σ σ' : Store} {S : Nat → Prop} (hc : Closed σ S)
    (hg : ∀ v, S v → getVar σ' v = getVar σ v) :
    ∀ (m : Nat) (t : Term), TermIn S t → follow σ' m t = follow σ m t
  | 0, t, _ => by rw [follow_zero, follow_zero]
  | m+1, .app o args, _ => by rw [follow_app, follow_app]
  | m+1, .var v, ht => by
    rw [follow_succ_var, follow_succ_var, hg v (termIn_var.mp ht)]
    cases hb : (getVar σ v).bound with
    | none => rfl
    | some b => exact follow_congr hc hg m b (hc v b (termIn_var.mp ht) hb)

theorem reach_congr {σ σ' : Store} {e : Term} (hg : ∀ v, Reach σ e v → getVar σ' v = getVar σ v) :
    ∀ v, Reach σ' e v ↔ Reach σ e v := by
  intro v
  constructor
  · intro h
    induction h with
    | here hv => exact Reach.here hv
    | step _ hb hv ih => rw [hg _ ih] at hb; exact Reach.step ih hb hv
  · intro h
    induction h with
    | here hv => exact Reach.here hv
    | step hw hb hv ih => rw [← hg _ hw] at hb; exact Reach.step ih hb hv

theorem untouched {σ σ' : Store} {e : Term} (hg : ∀ v, Reach σ e v → getVar σ' v = getVar σ v) :
    (∀ v, Reach σ' e v ↔ Reach σ e v) ∧ ∀ m, follow σ' m e = follow σ m e :=
  ⟨reach_congr hg, fun m => follow_congr (closed_reach σ e) hg m e (fun _ hv => Reach.here hv)⟩

end Tfv.C16P
