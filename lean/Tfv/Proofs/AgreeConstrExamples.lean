import Tfv.Proofs.AgreeConstrMain
import Tfv.Proofs.FrameConstrExamples
/-!
# Concrete stores for the "reads only its region" theorems of the constrained engine (non-vacuity)

`σCCalt` differs from `σCC` in everything that belongs to the earlier expression `x1` (its record, its constraint
set, its constraint) and agrees with it on what `B ≤ x0` can reach.
`σCalt` has the sizes of `σC` and an entirely different content.
-/
namespace Tfv.C16C
open Tfv Tfv.C03P Tfv.C16P Tfv.C03C

def σCCalt : Store :=
  { vars := [{}, { upper := some 6, cset := 1 }], csets := [[0], []],
    constrs := [.sub (.var 0) (.app 5 []) false false, .sub (.var 1) (.app 6 []) false true] }

theorem reachCset_σCC_var0 : ∀ k, ReachCset σCC (.var 0) k → k = 0 := by
  rintro k ⟨w, _, hr, e⟩
  have := reachC_σCC_var0 w hr
  subst this
  exact e.symm

theorem reachConstr_σCC_var0 : ∀ c, ReachConstr σCC (.var 0) c → c = 0 := by
  rintro c ⟨k, hk, hm⟩
  have := reachCset_σCC_var0 k hk
  subst this
  simpa [σCC, getCset] using hm

/-- the two stores agree on what `B ≤ x0` can reach -/
theorem σCCalt_same : SameOnC (rootsRegion σCC (fun t => t = .app 6 [] ∨ t = .var 0)) σCC σCCalt := by
  have hB : ∀ v, ¬ ReachC σCC (.app 6 []) v := reachC_closed (by decide)
  refine ⟨rfl, rfl, rfl, fun v hS => ?_, fun k hK => ?_, fun c hC => ?_⟩
  · rcases hS with ⟨t, rfl | rfl, hr⟩ | hge
    · exact absurd hr (hB v)
    · have := reachC_σCC_var0 v hr
      subst this; rfl
    · have h2 : (2 : Nat) ≤ v := hge
      rw [getVar_oor (σ := σCCalt) (show ¬ v < 2 by omega), getVar_oor (σ := σCC) (show ¬ v < 2 by omega)]
  · rcases hK with ⟨t, rfl | rfl, hr⟩ | hge
    · obtain ⟨w, _, hw, _⟩ := hr
      exact absurd hw (hB w)
    · have := reachCset_σCC_var0 k hr
      subst this; rfl
    · have h2 : (2 : Nat) ≤ k := hge
      rw [getCset_oor (σ := σCCalt) h2, getCset_oor (σ := σCC) h2]
  · rcases hC with ⟨t, rfl | rfl, hr⟩ | hge
    · obtain ⟨_, ⟨w, _, hw, _⟩, _⟩ := hr
      exact absurd hw (hB w)
    · have := reachConstr_σCC_var0 c hr
      subst this; rfl
    · have h2 : (2 : Nat) ≤ c := hge
      rw [getConstr_oor (σ := σCCalt) h2, getConstr_oor (σ := σCC) h2]

/-- … and differ outside it -/
theorem σCCalt_differs : getVar σCCalt 1 ≠ getVar σCC 1 ∧ getCset σCCalt 1 ≠ getCset σCC 1 := by
  refine ⟨fun h => ?_, fun h => ?_⟩
  · have : (getVar σCCalt 1).upper = (getVar σCC 1).upper := by rw [h]
    cases this
  · cases h

/-- a store of the sizes of `σC` with a different content -/
def σCalt : Store :=
  { vars := [{ upper := some 6 }], csets := [[]], constrs := [.sub (.app 6 []) (.app 5 []) false true] }

theorem σCalt_sizes : σCalt.vars.length = σC.vars.length ∧ σCalt.csets.length = σC.csets.length ∧
    σCalt.constrs.length = σC.constrs.length := ⟨rfl, rfl, rfl⟩

theorem σCalt_differs : getVar σCalt 0 ≠ getVar σC 0 := fun h => by
  have : (getVar σCalt 0).upper = (getVar σC 0).upper := by rw [h]
  cases this

end Tfv.C16C
