import Tfv.Model
import Tfv.Props.C12
import Tfv.Proofs.WorkflowSourceTypes
import Tfv.Proofs.WorkflowSourceTypesPerm
/-!
# C12 — the listing order of the tool applications and `source_types`

`C12_order_partial` (Props/C12.lean) needs `sourceTypes` to return the *same* result for two listings of the same
applications. That is false even for workflows without any annotation (`C12_sourceTypes_order_visible_unannotated`):
the store `sourceTypes` returns lists the variables of the applications in listing order. What `add_workflow` does
afterwards only depends on the result up to `StEquiv` (Tfv/Proofs/WorkflowSourceTypes.lean): the same error, or the
same source counter, the same three sizes of the store and the same recorded types, which are closed
(`C12_from_equiv`). For such listings the graph is the same (`C12_order_equiv`); the condition is checked by
evaluating `stEquivB` (`C12_order_checked`).

Statements only; the proofs are in `Tfv/Proofs/WorkflowSourceTypes*.lean` (namespace `Tfv.C12P`).
-/
namespace Tfv.C12
open Tfv Tfv.GraphEx Tfv.C12P Tfv.C04C

theorem wP_aliases : AliasesOk wP := fun _ h => nomatch h
theorem wops_ok : OpsOkC wP.types wops := opsOkCB_sound (by decide)
theorem wops2_ok : OpsOkC wP.types wops2 := opsOkCB_sound (by decide)

/-! ## 1. `add_workflow` after `source_types` -/

/-- **`add_workflow` is `source_types` followed by the rest** (`addWorkflowFrom`: the source table, the target, the
expressions, the final `fix()`, the graph). -/
theorem C12_addWorkflow_from (P : PLang) (G : GLang) (ops : List OperatorDecl) (c : GCfg) (pt : Bool) (w : Wf) :
    addWorkflow P G ops c pt w = addWorkflowFrom P G ops c pt w (sourceTypes P ops w {} w.apps []) :=
  addWorkflow_eq_from P G ops c pt w

example : addWorkflow wP exG wops {} true wf1 = addWorkflowFrom wP exG wops {} true wf1 (sourceTypes wP wops wf1 {} wf1.apps []) :=
  C12_addWorkflow_from wP exG wops {} true wf1

/-- **The rest of `add_workflow` depends on the result of `source_types` only up to `StEquiv`**: the same error; or
the same source counter, stores with the same numbers of variables, constraint sets and constraints (their content
is irrelevant), and the same recorded types, all of them closed. Hypotheses on the language: alias bodies mention
only their parameters, operator signatures mention only their own variables (both decidable; constraints allowed). -/
theorem C12_from_equiv (P : PLang) (G : GLang) (ops : List OperatorDecl) (c : GCfg) (pt : Bool) (w : Wf)
    (ha : AliasesOk P) (hops : OpsOkC P.types ops)
    (r₁ r₂ : Except WErr (XState × List (Nat × Term))) (h : StEquiv r₁ r₂) :
    addWorkflowFrom P G ops c pt w r₁ = addWorkflowFrom P G ops c pt w r₂ :=
  addWorkflowFrom_equiv ha hops G c pt w h

/-- non-vacuity: two results with different stores (an unrelated wildcard variable, resp. a variable with a bound)
and the recorded closed type `A` for source 0 -/
example : StEquiv
    (.ok ({ store := { vars := [{ wildcard := true }], csets := [[]] }, nsrc := 1 }, [(0, tmA)]))
    (.ok ({ store := { vars := [{ upper := some 6 }], csets := [[]] }, nsrc := 1 }, [(0, tmA)])) :=
  stEquivB_sound (by decide +kernel)

/-! ## 2. the listing order -/

/-- **C12 order, up to the equivalence.** Two listings (permutations) of the same tool applications for which
`source_types` gives equivalent results — the same error, or the same source counter, store sizes and closed recorded
types — give the same graph, output node and node map. Unlike in `C12_order_partial` the stores may differ. -/
theorem C12_order_equiv (P : PLang) (G : GLang) (ops : List OperatorDecl) (c : GCfg) (pt : Bool) (w₁ w₂ : Wf)
    (ha : AliasesOk P) (hops : OpsOkC P.types ops)
    (hp : w₁.apps.Perm w₂.apps) (hn : (w₁.apps.map (·.out)).Nodup)
    (hs : w₁.sources = w₂.sources) (hnm : w₁.names = w₂.names)
    (hst : StEquiv (sourceTypes P ops w₁ {} w₁.apps []) (sourceTypes P ops w₂ {} w₂.apps [])) :
    addWorkflow P G ops c pt w₁ = addWorkflow P G ops c pt w₂ :=
  addWorkflow_perm_equiv ha hops G c pt w₁ w₂ hp hn hs hnm hst

/-- **C12 order, checked by evaluation**: `stEquivB` compares the two results of `source_types` (both must
succeed). -/
theorem C12_order_checked (P : PLang) (G : GLang) (ops : List OperatorDecl) (c : GCfg) (pt : Bool) (w₁ w₂ : Wf)
    (ha : AliasesOk P) (hops : OpsOkC P.types ops)
    (hp : w₁.apps.Perm w₂.apps) (hn : (w₁.apps.map (·.out)).Nodup)
    (hs : w₁.sources = w₂.sources) (hnm : w₁.names = w₂.names)
    (hst : stEquivB (sourceTypes P ops w₁ {} w₁.apps []) (sourceTypes P ops w₂ {} w₂.apps []) = true) :
    addWorkflow P G ops c pt w₁ = addWorkflow P G ops c pt w₂ :=
  addWorkflow_perm_equiv ha hops G c pt w₁ w₂ hp hn hs hnm (stEquivB_sound hst)

/-- the running example and its reversed listing: all hypotheses are discharged, `C12_order` holds for them -/
example : addWorkflow wP exG wops {} true wf1 = addWorkflow wP exG wops {} true wf1r :=
  C12_order_checked wP exG wops {} true wf1 wf1r wP_aliases wops_ok wf1r_perm wf1_nodup rfl rfl (by decide +kernel)

example : addWorkflow wP exG wops {} false wf1 = addWorkflow wP exG wops {} false wf1r :=
  C12_order_checked wP exG wops {} false wf1 wf1r wP_aliases wops_ok wf1r_perm wf1_nodup rfl rfl (by decide +kernel)

/-! ## 3. class (a): no annotation — the results of `source_types` differ, but are equivalent -/

/-- the diamond workflow `wf2` listed in the reverse order -/
def wf2r : Wf := { wf2 with apps := wf2.apps.reverse }

theorem wf2r_perm : wf2.apps.Perm wf2r.apps := (List.reverse_perm _).symm
theorem wf2_nodup : (wf2.apps.map (·.out)).Nodup := by decide

/-- the wildcard flag of variable 1 in the store a run of `source_types` returns -/
def wildcardOf1 (r : Except WErr (XState × List (Nat × Term))) : Option Bool :=
  r.toOption.map (fun p => (getVar p.1.store 1).wildcard)

/-- **The listing order is visible in `sourceTypes` even when nothing is annotated**: for the diamond workflow and
its reversed listing (no annotation anywhere, nothing recorded) the stores differ — variable 1 is the node variable of
`f 1` in one listing and the second input source of `h 1 2` (a wildcard) in the other. So the hypothesis `hst` of
`C12_order_partial` fails, while the two results are equivalent and `C12_order_checked` applies. -/
theorem C12_sourceTypes_order_visible_unannotated :
    wf2.apps.Perm wf2r.apps ∧
    sourceTypes wP wops2 wf2 {} wf2.apps [] ≠ sourceTypes wP wops2 wf2r {} wf2r.apps [] ∧
    stEquivB (sourceTypes wP wops2 wf2 {} wf2.apps []) (sourceTypes wP wops2 wf2r {} wf2r.apps []) = true := by
  refine ⟨wf2r_perm, fun h => ?_, by decide +kernel⟩
  have h1 : wildcardOf1 (sourceTypes wP wops2 wf2 {} wf2.apps []) = some false := by decide +kernel
  have h2 : wildcardOf1 (sourceTypes wP wops2 wf2r {} wf2r.apps []) = some true := by decide +kernel
  rw [h, h2] at h1
  cases h1

example : addWorkflow wP exG wops2 {} true wf2 = addWorkflow wP exG wops2 {} true wf2r :=
  C12_order_checked wP exG wops2 {} true wf2 wf2r wP_aliases wops2_ok wf2r_perm wf2_nodup rfl rfl
    C12_sourceTypes_order_visible_unannotated.2.2

example : addWorkflow wP exG wops2 {} false wf2 = addWorkflow wP exG wops2 {} false wf2r :=
  C12_order_checked wP exG wops2 {} false wf2 wf2r wP_aliases wops2_ok wf2r_perm wf2_nodup rfl rfl
    C12_sourceTypes_order_visible_unannotated.2.2

-- … and the graphs are not trivially equal: both runs succeed
#guard (addWorkflow wP exG wops2 {} true wf2).toOption.isSome && (addWorkflow wP exG wops2 {} false wf2r).toOption.isSome

/-! ## 3b. class (a), for every listing: no annotation, constraint-free operator signatures -/

/-- no tool expression contains an annotation -/
def unannotated (w : Wf) : Bool := w.apps.all (fun a => !a.toks.contains ":")

theorem unannotated_sound {w : Wf} (h : unannotated w = true) : ∀ a, a ∈ w.apps → ":" ∉ a.toks := by
  intro a ha hm
  have := List.all_eq_true.mp h a ha
  rw [List.contains_iff_mem.mpr hm] at this
  cases this

/-- **In class (a) `source_types` is invariant under the listing order, up to the equivalence.** If no tool
expression contains an annotation (`:`), the operator signatures have no constraints, mention only their own variables
and are smaller than the fuel of `fix` (`opsPlainB`, decidable), and `source_types` succeeds on one listing, then on
EVERY listing of the same applications it succeeds with the same source counter and store sizes, and records nothing.
(Every application allocates amounts that do not depend on the state it is run in — `cntStep`, a counting builder —
and `Expr.fix()` changes nothing.) -/
theorem C12_sourceTypes_unannotated_perm (P : PLang) (ops : List OperatorDecl) (w₁ w₂ : Wf)
    (hops : opsPlainB P.types ops = true) (hp : w₁.apps.Perm w₂.apps) (hno : unannotated w₁ = true)
    (hok : (sourceTypes P ops w₁ {} w₁.apps []).toOption.isSome = true) :
    StEquiv (sourceTypes P ops w₁ {} w₁.apps []) (sourceTypes P ops w₂ {} w₂.apps []) :=
  sourceTypes_plain_perm P (opsPlainB_sound hops) w₁ w₂ hp (unannotated_sound hno) hok

/-- **C12 order for class (a)** — no hypothesis about `source_types` on the other listing: a workflow without
annotations over a plain operator table, on which `source_types` succeeds, has the same graph, output node and node
map for every listing of its tool applications. (Success cannot be dropped: `C12_order_fails_on_errors`.) -/
theorem C12_order_unannotated (P : PLang) (G : GLang) (ops : List OperatorDecl) (c : GCfg) (pt : Bool) (w₁ w₂ : Wf)
    (ha : AliasesOk P) (hops : opsPlainB P.types ops = true)
    (hp : w₁.apps.Perm w₂.apps) (hn : (w₁.apps.map (·.out)).Nodup)
    (hs : w₁.sources = w₂.sources) (hnm : w₁.names = w₂.names)
    (hno : unannotated w₁ = true)
    (hok : (sourceTypes P ops w₁ {} w₁.apps []).toOption.isSome = true) :
    addWorkflow P G ops c pt w₁ = addWorkflow P G ops c pt w₂ :=
  addWorkflow_perm_plain ha (opsPlainB_sound hops) G c pt w₁ w₂ hp hn hs hnm (unannotated_sound hno) hok

/-- the diamond workflow: every hypothesis is decided; the conclusion holds for EVERY listing `l` of its applications -/
example (l : List WfApp) (hl : wf2.apps.Perm l) (pt : Bool) :
    addWorkflow wP exG wops2 {} pt wf2 = addWorkflow wP exG wops2 {} pt { wf2 with apps := l } :=
  C12_order_unannotated wP exG wops2 {} pt wf2 { wf2 with apps := l } wP_aliases (by decide) hl wf2_nodup rfl rfl
    (by decide) (by decide +kernel)

/-- what one application allocates does not depend on the state: the counters of `h 1 2` (two input sources, one
operator without variables, two application nodes) from any start -/
example (c : CState) : (cntStep wP wops2 { out := 3, toks := ["h", "1", "2"], inputs := [1, 2] } c).toOption
    = some (CState.add ⟨4, 4, 2⟩ c) := by
  have h0 : (cntStep wP wops2 { out := 3, toks := ["h", "1", "2"], inputs := [1, 2] } czero).toOption = some ⟨4, 4, 2⟩ := by
    decide +kernel
  rw [cntStep_delta wP wops2 _ (by decide) c]
  cases h : cntStep wP wops2 { out := 3, toks := ["h", "1", "2"], inputs := [1, 2] } czero with
  | error e => rw [h] at h0; cases h0
  | ok δ =>
    rw [h] at h0
    simp only [Except.toOption, Option.some.injEq] at h0
    subst h0
    rfl

/-! ## 4. class (b): comparable closed annotations of one source -/

/-- `r1 = f (r0 : A)`, `r2 = g (f (r0 : B))`, `r3 = h r1 r2`: source 0 is annotated `A` and `B` (`B ≤ A`) -/
def appP : WfApp := { out := 1, toks := ["f", "(", "1", ":", "A", ")"], inputs := [0] }
def appQ : WfApp := { out := 2, toks := ["g", "(", "f", "(", "1", ":", "B", ")", ")"], inputs := [0] }
def appR : WfApp := { out := 3, toks := ["h", "1", "2"], inputs := [1, 2] }
def wfPQR : Wf := { sources := [0], apps := [appP, appQ, appR] }
def wfRQP : Wf := { sources := [0], apps := [appR, appQ, appP] }

theorem wfPQR_perm : wfPQR.apps.Perm wfRQP.apps := (List.reverse_perm _).symm

/-- **Comparable closed annotations**: the recorded type of source 0 is the more specific `B` in both listings, the
stores differ, the results are equivalent; hence the graphs are the same. (The evaluation of the type parser does not
reduce in the kernel: the check is a hypothesis here and a `#guard` below.) -/
theorem C12_order_comparable_example (pt : Bool)
    (h : stEquivB (sourceTypes wP wops2 wfPQR {} wfPQR.apps []) (sourceTypes wP wops2 wfRQP {} wfRQP.apps []) = true) :
    addWorkflow wP exG wops2 {} pt wfPQR = addWorkflow wP exG wops2 {} pt wfRQP :=
  C12_order_checked wP exG wops2 {} pt wfPQR wfRQP wP_aliases wops2_ok wfPQR_perm (by decide) rfl rfl h

#guard stEquivB (sourceTypes wP wops2 wfPQR {} wfPQR.apps []) (sourceTypes wP wops2 wfRQP {} wfRQP.apps [])
#guard recordedIs (sourceTypes wP wops2 wfPQR {} wfPQR.apps []) 0 tmB && recordedIs (sourceTypes wP wops2 wfRQP {} wfRQP.apps []) 0 tmB
#guard toString (repr (sourceTypes wP wops2 wfPQR {} wfPQR.apps [])) != toString (repr (sourceTypes wP wops2 wfRQP {} wfRQP.apps []))
#guard (addWorkflow wP exG wops2 {} true wfPQR).toOption.isSome && (addWorkflow wP exG wops2 {} false wfPQR).toOption.isSome
#guard toString (repr (addWorkflow wP exG wops2 {} true wfPQR)) == toString (repr (addWorkflow wP exG wops2 {} true wfRQP))

-- the check is not vacuous: it fails for the two examples of Props/C12.lean in which the order matters
-- (a recorded type with a variable; incomparable annotations)
#guard !stEquivB (sourceTypes wP wops wfAB {} wfAB.apps []) (sourceTypes wP wops wfBA {} wfBA.apps [])
#guard !stEquivB (sourceTypes wP wops2 wfCD {} wfCD.apps []) (sourceTypes wP wops2 wfDC {} wfDC.apps [])

/-! ## 5. failing workflows: the order decides which error is reported -/

/-- two ill-formed tool expressions: an undefined operator, an unbalanced bracket -/
def appBad1 : WfApp := { out := 1, toks := ["zz", "1"], inputs := [0] }
def appBad2 : WfApp := { out := 2, toks := [")"], inputs := [1] }
def wfBad : Wf := { sources := [0], apps := [appBad1, appBad2] }
def wfBadr : Wf := { sources := [0], apps := [appBad2, appBad1] }

def isUndefinedToken : Except WErr (GState × Nat × List (Nat × Nat)) → Bool
  | .error (.composition (.undefinedToken _)) => true
  | _ => false

/-- **`C12_order` without a hypothesis on `source_types` is false**: when several tool expressions are ill-formed,
`source_types` reports the error of the one listed first, and so does `add_workflow`. (Here: `UndefinedTokenError`
for one listing, `BracketMismatch` for the other.) Any unconditional statement has to be about workflows on which
`source_types` succeeds, or has to identify all errors. -/
theorem C12_order_fails_on_errors :
    wfBad.apps.Perm wfBadr.apps ∧ (wfBad.apps.map (·.out)).Nodup ∧ wfBad.sources = wfBadr.sources ∧
    wfBad.names = wfBadr.names ∧
    addWorkflow wP exG wops {} true wfBad ≠ addWorkflow wP exG wops {} true wfBadr := by
  refine ⟨List.Perm.swap _ _ _, by decide, rfl, rfl, fun h => ?_⟩
  have h1 : isUndefinedToken (addWorkflow wP exG wops {} true wfBad) = true := by decide +kernel
  have h2 : isUndefinedToken (addWorkflow wP exG wops {} true wfBadr) = false := by decide +kernel
  rw [h, h2] at h1
  cases h1

end Tfv.C12
