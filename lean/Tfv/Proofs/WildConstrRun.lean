import Tfv.Proofs.WildConstrBind
import Tfv.Proofs.SchedKernel
import Tfv.Proofs.SchedId
/-!
# Kernel-checked wildcard runs

`wrun`: instantiate a function schema in the empty store, instantiate the argument schemas (arguments may contain
wildcards `_`: variables `nvars … nvars+nwild-1` of their schema), apply the function to the arguments one by one.
`wrun_eq_K` moves the run to the structurally recursive copy of the engine (`SchedKernel`), which `decide +kernel`
evaluates. `certK` is `subsStrictB` over the kernel matcher.
-/
namespace Tfv.C03C
open Tfv Tfv.C03P Tfv.C16P Tfv.C18P

def instArgsG (inst : Store → Schema → Except Err (Store × Term)) :
    Store → List Schema → Except Err (Store × List Term)
  | σ, [] => .ok (σ, [])
  | σ, a :: as =>
    match inst σ a with
    | .error e => .error e
    | .ok (σ1, x) =>
      match instArgsG inst σ1 as with
      | .error e => .error e
      | .ok (σ2, xs) => .ok (σ2, x :: xs)

def appAllG (app : Store → Term → Term → Except Err (Store × Term)) :
    Store → Term → List Term → Except Err (Store × Term)
  | σ, f, [] => .ok (σ, f)
  | σ, f, x :: xs =>
    match app σ f x with
    | .error e => .error e
    | .ok (σ1, r) => appAllG app σ1 r xs

def wrunG (inst : Store → Schema → Except Err (Store × Term))
    (app : Store → Term → Term → Except Err (Store × Term)) (s : Schema) (as : List Schema) :
    Except Err (Store × Term) :=
  match inst {} s with
  | .error e => .error e
  | .ok (σ, f) =>
    match instArgsG inst σ as with
    | .error e => .error e
    | .ok (σ1, xs) => appAllG app σ1 f xs

/-- the run through the engine of the model -/
def wrun (L : Lang) (fuel : Nat) (s : Schema) (as : List Schema) : Except Err (Store × Term) :=
  wrunG (instantiate L fuel) (fun σ f x => applyT L fuel σ f x true) s as

/-- the same run through the kernel-evaluable copy -/
def wrunK (L : Lang) (fuel : Nat) (s : Schema) (as : List Schema) : Except Err (Store × Term) :=
  wrunG (instantiateP L (fun cs => cs) (match3K L) (occursK L) fuel)
    (fun σ f x => applyTP L (fun cs => cs) (match3K L) (occursK L) fuel σ f x true) s as

theorem wrun_eq_K (L : Lang) (fuel : Nat) (s : Schema) (as : List Schema) :
    wrun L fuel s as = wrunK L fuel s as := by
  unfold wrun wrunK
  congr 1
  · funext σ s
    rw [← instantiateS_id (ord := fun cs => cs) (fun _ => rfl), ← instantiateP_eq, match3K_funext, occursK_funext]
  · funext σ f x
    rw [← applyTS_id (ord := fun cs => cs) (fun _ => rfl), ← applyTP_eq, match3K_funext, occursK_funext]

/-- a single `unify` through the kernel-evaluable copy -/
theorem unify_eq_K (L : Lang) (n : Nat) (σ : Store) (a b : Term) (st sb sw : Bool) :
    unify L n σ a b st sb sw = unifyP L (fun cs => cs) (match3K L) (occursK L) n σ a b st sb sw := by
  rw [← (blockEq (ord := fun cs => cs) (fun _ => rfl) n).unify, ← (blockP L (fun cs => cs) n).unify,
    match3K_funext, occursK_funext]

/-- a single `fulfill` through the kernel-evaluable copy -/
theorem fulfill_eq_K (L : Lang) (n : Nat) (σ : Store) (c : Nat) :
    fulfill L n σ c = fulfillP L (fun cs => cs) (match3K L) (occursK L) n σ c := by
  rw [← (blockEq (ord := fun cs => cs) (fun _ => rfl) n).fulfill, ← (blockP L (fun cs => cs) n).fulfill,
    match3K_funext, occursK_funext]

def fulSubs (σ : Store) : Nat :=
  (σ.constrs.filter (fun c => match c with | .sub _ _ _ true => true | _ => false)).length

def liveWilds (σ : Store) : Nat := (σ.vars.filter (fun i => i.wildcard && i.bound.isNone)).length

/-- `fulfill` answered `true`, the store has `k` subtype constraints marked fulfilled and no unbound wildcard -/
def markedB (r : Except Err (Store × Bool)) (k : Nat) : Bool :=
  match r with
  | .ok (σ, d) => d && fulSubs σ == k && liveWilds σ == 0
  | .error _ => false

/-- two wildcards with the pending constraint `x0 ≤ x1` -/
def σWs : Store :=
  { vars := [{ wildcard := true }, { wildcard := true, cset := 1 }], csets := [[0], [0]],
    constrs := [.sub (.var 0) (.var 1) false false] }

/-- the run succeeded and both variables are non-wildcards afterwards, the first bound to the second -/
def boundToB (r : R) (av bv : Nat) : Bool :=
  match r with
  | .ok σ => !(getVar σ av).wildcard && !(getVar σ bv).wildcard &&
      (match (getVar σ av).bound with | some (.var w) => w == bv | _ => false)
  | .error _ => false

/-- `appAllG` over `applyT` is `applyAll` -/
theorem appAllG_eq_applyAll (L : Lang) (fuel : Nat) : ∀ (xs : List Term) (σ : Store) (f : Term),
    appAllG (fun σ f x => applyT L fuel σ f x true) σ f xs = applyAll L fuel true σ f xs
  | [], σ, f => by unfold appAllG applyAll; rfl
  | x :: xs, σ, f => by
    unfold appAllG applyAll
    cases applyT L fuel σ f x true with
    | error e => rfl
    | ok p => exact appAllG_eq_applyAll L fuel xs p.1 p.2

/-- the certificate over the kernel matcher -/
def certK (L : Lang) (σ : Store) : Bool :=
  (List.range σ.constrs.length).all (fun c => match getConstr σ c with
    | .sub r t _ true => match3K L (dewild σ) (matchFuel σ) true false r t == some true
    | _ => true)

theorem certK_eq (L : Lang) (σ : Store) : certK L σ = subsStrictB L σ := by
  unfold certK subsStrictB
  simp only [match3K_eq]
  rfl

/-- a successful run whose final store has a subtype constraint marked fulfilled, an unbound wildcard, and the certificate -/
def goodWild (L : Lang) (r : Except Err (Store × Term)) : Bool :=
  match r with
  | .ok (σ, _) => certK L σ && decide (0 < fulSubs σ) && decide (0 < liveWilds σ)
  | .error _ => false

/-- refused, or the certificate holds -/
def refusedOrCert (L : Lang) (r : Except Err (Store × Term)) : Bool :=
  match r with
  | .ok (σ, _) => certK L σ
  | .error _ => true

/-- a successful run with at least one subtype constraint marked fulfilled in the final store -/
def okWithFul (r : Except Err (Store × Term)) : Bool :=
  match r with
  | .ok (σ, _) => decide (0 < fulSubs σ)
  | .error _ => false

/-- one pass over a family of runs: `none` if some run ends in a store that fails the certificate, otherwise the number of
successful runs with a subtype constraint marked fulfilled -/
def tallyK (L : Lang) (fuel : Nat) : List (Schema × List Schema) → Option Nat
  | [] => some 0
  | p :: ps =>
    let r := wrunK L fuel p.1 p.2
    if refusedOrCert L r then (tallyK L fuel ps).map (fun n => if okWithFul r then n + 1 else n) else none

theorem tallyK_all {L : Lang} {fuel : Nat} : ∀ {fam : List (Schema × List Schema)} {n : Nat},
    tallyK L fuel fam = some n → ∀ p, p ∈ fam → refusedOrCert L (wrun L fuel p.1 p.2) = true
  | [], _, _, p, hp => by cases hp
  | q :: qs, n, h, p, hp => by
    unfold tallyK at h
    simp only [] at h
    split at h
    · next hq =>
      cases hm : tallyK L fuel qs with
      | none => rw [hm] at h; cases h
      | some m =>
        rcases List.mem_cons.mp hp with e | e
        · subst e; rw [wrun_eq_K]; exact hq
        · exact tallyK_all hm p e
    · cases h

/-- `A`, `B < A`, `F`, `G` unary covariant, `C` -/
def wL : Lang := builtinDecls ++
  [⟨"A", [], none⟩, ⟨"B", [], some 5⟩, ⟨"F", [true], none⟩, ⟨"G", [true], none⟩, ⟨"C", [], none⟩]

theorem wL_wf : WF wL := wf_of_wfLangB wL (by decide)

/-- `x0 ** x1 ** A [x1 << [F(G(_)), A], F(G(_)) <= x1]`: the subtype constraint meets `x1` as a variable (the branch of
`unify` that unifies the new skeleton with itself, type.py:627); the two wildcards end up identified -/
def wS1 : Schema := ⟨2, 2, .app 4 [.var 0, .app 4 [.var 1, .app 5 []]],
  [.elim (.var 1) [.app 7 [.app 8 [.var 2]], .app 5 []], .sub (.app 7 [.app 8 [.var 3]]) (.var 1) false]⟩

/-- an argument `F(_)` -/
def wArgF : Schema := ⟨0, 1, .app 7 [.var 0], []⟩
/-- an argument `F(G(_))` -/
def wArgFG : Schema := ⟨0, 1, .app 7 [.app 8 [.var 0]], []⟩
/-- an argument `_` -/
def wArgW : Schema := ⟨0, 1, .var 0, []⟩

theorem wrun_ex1 : goodWild wL (wrun wL 60 wS1 [wArgF, wArgFG]) = true := by
  rw [wrun_eq_K]; decide +kernel

/-- `x0 ** x1 ** A [x0 <= x1]` applied to `F(_)`, `_`: the constraint ends up between `F(w)` and itself, `w` a live wildcard -/
def wS2 : Schema := ⟨2, 0, .app 4 [.var 0, .app 4 [.var 1, .app 5 []]], [.sub (.var 0) (.var 1) false]⟩

theorem wrun_ex2 : goodWild wL (wrun wL 60 wS2 [wArgF, wArgW]) = true := by
  rw [wrun_eq_K]; decide +kernel

end Tfv.C03C
