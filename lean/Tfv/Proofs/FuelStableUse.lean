import Tfv.Proofs.FuelStableEngine
/-!
# Fuel stability of a whole use: `instantiate`, `Type.apply`, `useSchema`

`useSafe L n fixFlag s xs` checks the fresh run of one use (offsets `0`): at every call of a fuelled helper the binding
chains end and the terms walked are resolved-shallow (`okAt`, depth 63), and the closure over constraints stabilises
(`closedWithin`). Decidable by evaluation. Theorem `useSchemaE_safe`: a safe fresh run is the same for ALL fuel offsets.
-/
namespace Tfv.C16D
open Tfv Tfv.C03P Tfv.C16P Tfv.C03C Tfv.C16C Tfv.C18P Tfv.C16H Tfv.C17E

theorem blockSt_succ {L : Lang} {kv n : Nat} (ih : BlockSt L kv n) : BlockSt L kv (n+1) where
  unify := unify_succ ih
  unifyList := unifyList_succ ih
  bind := bind_succ ih
  above := above_succ ih
  below := below_succ ih
  checkConstraints := checkConstraints_succ ih
  checkList := checkList_succ ih
  fulfill := fulfill_succ ih
  minimize := minimize_succ ih
  minLoop := minLoop_succ ih
  fix := fix_succ ih
  fixList := fixList_succ ih

/-- THE BLOCK: every function of the engine, at every fuel: a safe call does not depend on the offset -/
theorem blockSt (L : Lang) (kv : Nat) : ∀ n, BlockSt L kv n
  | 0 => blockSt_zero L kv
  | n+1 => blockSt_succ (blockSt L kv n)

/-! ## `variables(indirect=True)` -/

def varsGuard (σ : Store) (ts : List Term) : Bool :=
  okAt σ ts && constrsShallowB σ 63 &&
    closedWithin σ (σ.vars.length * (σ.constrs.length + 1) + 8)
      (ts.foldl (fun acc t => directVars σ (termFuel σ) t acc) [])
      (ts.foldl (fun acc t => directVars σ (termFuel σ) t acc) [])

theorem varsGuard_eq {σ : Store} {ts : List Term} (h : varsGuard σ ts = true) (kv kc : Nat) :
    varsOfTermsE kv kc σ ts = varsOfTerms σ ts := by
  obtain ⟨h12, h3⟩ := and_split h
  obtain ⟨h1, h2⟩ := and_split h12
  exact varsOfTermsE_stable (okAt_fuelOk h1) kv kc (constrsShallowB_sound h2) (lt_termFuel σ) ts
    (fun t ht => okAt_rdepth h1 ht) h3

/-! ## registering a constraint -/

def addConstraintSafe (L : Lang) (fuel : Nat) (σ : Store) (c : Constr) : Bool :=
  okAt σ [] &&
  (varsGuard (regStore σ (normCE 0 σ c)) (constrTerms (normCE 0 σ c)) &&
   (if (varsOfTerms (regStore σ (normCE 0 σ c)) (constrTerms (normCE 0 σ c))).any
        (fun v => (getVar (regStore σ (normCE 0 σ c)) v).bound.isSome) then true
    else (safe L fuel).fulfill
      (informStore σ.constrs.length (varsOfTerms (regStore σ (normCE 0 σ c)) (constrTerms (normCE 0 σ c)))
        (regStore σ (normCE 0 σ c))) σ.constrs.length))

theorem normCE_eq {σ : Store} (hf : FuelOk σ) (kv : Nat) (c : Constr) : normCE kv σ c = normCE 0 σ c := by
  cases c <;> simp only [normCE, followTE_eq hf, followTE_fun_eq hf]

theorem addConstraintE_safe {L : Lang} {fuel : Nat} {σ : Store} {c : Constr}
    (hs : addConstraintSafe L fuel σ c = true) (kv kc : Nat) :
    addConstraintE L kv kc fuel σ c = addConstraintE L 0 0 fuel σ c := by
  obtain ⟨hg, hs⟩ := and_split hs
  obtain ⟨hv, hs⟩ := and_split hs
  have hf := okAt_fuelOk hg
  rw [addConstraintE_eq, addConstraintE_eq]
  simp only [normCE_eq hf kv c, varsGuard_eq hv]
  split
  · rfl
  · rename_i hb
    rw [if_neg hb] at hs
    rw [(blockSt L kv fuel).fulfill _ _ hs]

def addConstraintsSafe (L : Lang) (fuel : Nat) (base : Nat) : Store → List CAst → Bool
  | _, [] => true
  | σ, c :: cs =>
    okAt σ [] &&
    (addConstraintSafe L fuel σ (match c with
      | .sub r t s => Constr.sub (r.shift base) (t.shift base) s false
      | .elim r alts => Constr.elim (followT σ (r.shift base)) (Term.shiftL base alts) false) &&
     thenOk (addConstraintE L 0 0 fuel σ (match c with
      | .sub r t s => Constr.sub (r.shift base) (t.shift base) s false
      | .elim r alts => Constr.elim (followT σ (r.shift base)) (Term.shiftL base alts) false))
      (fun σ1 => addConstraintsSafe L fuel base σ1 cs))

theorem addConstraintsE_safe {L : Lang} {fuel base : Nat} (kv kc : Nat) : ∀ (σ : Store) (cs : List CAst),
    addConstraintsSafe L fuel base σ cs = true →
    addConstraintsE L kv kc fuel base σ cs = addConstraintsE L 0 0 fuel base σ cs
  | _, [], _ => by simp only [addConstraintsE]
  | σ, c :: cs, hs => by
    simp only [addConstraintsSafe] at hs
    obtain ⟨hg, hs⟩ := and_split hs
    obtain ⟨h1, h2⟩ := and_split hs
    have hf := okAt_fuelOk hg
    simp only [addConstraintsE, followTE_eq hf]
    cases c <;> dsimp only at h1 h2 ⊢ <;> rw [addConstraintE_safe h1 kv kc] <;> split
    · rfl
    · rename_i heq
      have h3 := thenOk_ok h2 heq
      exact addConstraintsE_safe kv kc _ cs h3
    · rfl
    · rename_i heq
      have h3 := thenOk_ok h2 heq
      exact addConstraintsE_safe kv kc _ cs h3

/-! ## `instantiate` -/

def instantiateSafe (L : Lang) (fuel : Nat) (σ : Store) (s : Schema) : Bool :=
  addConstraintsSafe L fuel σ.vars.length (allocVars σ s.nvars s.nwild) s.constraints &&
  thenOk (addConstraintsE L 0 0 fuel σ.vars.length (allocVars σ s.nvars s.nwild) s.constraints)
    (fun σ1 => okAt σ1 [] && (safe L fuel).fix σ1 (spineFollowE 0 σ1 (s.body.shift σ.vars.length)) true)

theorem instantiateE_safe {L : Lang} {fuel : Nat} {σ : Store} {s : Schema}
    (hs : instantiateSafe L fuel σ s = true) (kv kc : Nat) :
    instantiateE L kv kc fuel σ s = instantiateE L 0 0 fuel σ s := by
  obtain ⟨h1, h2⟩ := and_split hs
  unfold instantiateE
  simp only []
  rw [addConstraintsE_safe kv kc _ _ h1]
  split
  · rfl
  · rename_i heq
    have h3 := thenOk_ok h2 heq
    obtain ⟨hg, h4⟩ := and_split h3
    rw [spineFollowE_eq (okAt_fuelOk hg) kv, (blockSt L kv fuel).fix _ _ _ h4]

/-! ## `Type.apply` -/

def applyPreSafe (L : Lang) (fuel : Nat) (σ : Store) (f0 : Term) : Bool :=
  match f0 with
  | .var fv =>
    (safe L fuel).bind (newVar (newVar σ).1).1 fv (.app FUN [.var (newVar σ).2, .var (newVar (newVar σ).1).2]) &&
    thenOk (bindE L 0 fuel (newVar (newVar σ).1).1 fv (.app FUN [.var (newVar σ).2, .var (newVar (newVar σ).1).2]))
      (fun σ3 => okAt σ3 [])
  | _ => true

theorem applyPreE_safe {L : Lang} {fuel : Nat} {σ : Store} {f0 : Term} (hs : applyPreSafe L fuel σ f0 = true)
    (kv : Nat) : applyPreE L kv fuel σ f0 = applyPreE L 0 fuel σ f0 := by
  cases f0 with
  | app o args => rfl
  | var fv =>
    simp only [applyPreSafe] at hs
    obtain ⟨h1, h2⟩ := and_split hs
    simp only [applyPreE]
    rw [(blockSt L kv fuel).bind _ _ _ h1]
    split
    · rfl
    · rename_i heq
      have h3 := thenOk_ok h2 heq
      simp only [followTE_eq (okAt_fuelOk h3)]

def applyPostSafe (L : Lang) (fuel : Nat) (σ : Store) (x0 f1 : Term) (fixFlag : Bool) : Bool :=
  match f1 with
  | .app o [l, r] =>
    if o == FUN then
      (safe L fuel).unify σ x0 l true false false &&
      thenOk (unifyE L 0 fuel σ x0 l true false false)
        (fun σ1 => if fixFlag && !isFunT r then (safe L fuel).fix σ1 r true else true)
    else true
  | _ => true

theorem applyPostE_safe {L : Lang} {fuel : Nat} {σ : Store} {x0 f1 : Term} {fixFlag : Bool}
    (hs : applyPostSafe L fuel σ x0 f1 fixFlag = true) (kv : Nat) :
    applyPostE L kv fuel σ x0 f1 fixFlag = applyPostE L 0 fuel σ x0 f1 fixFlag := by
  cases f1 with
  | var v => rfl
  | app o args =>
    cases args with
    | nil => rfl
    | cons l tl =>
      cases tl with
      | nil => rfl
      | cons r tl2 =>
        cases tl2 with
        | cons _ _ => rfl
        | nil =>
          simp only [applyPostSafe] at hs
          simp only [applyPostE]
          split
          · rename_i ho
            rw [if_pos ho] at hs
            obtain ⟨h1, h2⟩ := and_split hs
            rw [(blockSt L kv fuel).unify _ _ _ _ _ _ h1]
            split
            · rfl
            · rename_i heq
              have h3 := thenOk_ok h2 heq
              try dsimp only at h3
              split
              · rename_i hc
                rw [if_pos hc] at h3
                rw [(blockSt L kv fuel).fix _ _ _ h3]
              · rfl
          · rfl

def applyTSafe (L : Lang) (fuel : Nat) (σ : Store) (f x : Term) (fixFlag : Bool) : Bool :=
  okAt σ [] &&
  (applyPreSafe L fuel σ (followT σ f) &&
   thenOk (applyPreE L 0 fuel σ (followT σ f)) (fun p => applyPostSafe L fuel p.1 (followT σ x) p.2 fixFlag))

theorem applyTE_safe {L : Lang} {fuel : Nat} {σ : Store} {f x : Term} {fixFlag : Bool}
    (hs : applyTSafe L fuel σ f x fixFlag = true) (kv : Nat) :
    applyTE L kv fuel σ f x fixFlag = applyTE L 0 fuel σ f x fixFlag := by
  obtain ⟨hg, hs⟩ := and_split hs
  obtain ⟨h1, h2⟩ := and_split hs
  have hf := okAt_fuelOk hg
  rw [applyTE_eq, applyTE_eq]
  simp only [followTE_eq hf]
  rw [applyPreE_safe h1 kv]
  split
  · rfl
  · rename_i heq
    have h3 := thenOk_ok h2 heq
    exact applyPostE_safe h3 kv

def applyAllSafe (L : Lang) (fuel : Nat) (fixFlag : Bool) : Store → Term → List Term → Bool
  | _, _, [] => true
  | σ, f, x :: xs =>
    applyTSafe L fuel σ f x fixFlag &&
    thenOk (applyTE L 0 fuel σ f x fixFlag) (fun p => applyAllSafe L fuel fixFlag p.1 p.2 xs)

theorem applyAllE_safe {L : Lang} {fuel : Nat} {fixFlag : Bool} (kv : Nat) : ∀ (σ : Store) (f : Term) (xs : List Term),
    applyAllSafe L fuel fixFlag σ f xs = true →
    applyAllE L kv fuel fixFlag σ f xs = applyAllE L 0 fuel fixFlag σ f xs
  | _, _, [], _ => by simp only [applyAllE]
  | σ, f, x :: xs, hs => by
    simp only [applyAllSafe] at hs
    obtain ⟨h1, h2⟩ := and_split hs
    simp only [applyAllE]
    rw [applyTE_safe h1 kv]
    split
    · rfl
    · rename_i heq
      have h3 := thenOk_ok h2 heq
      exact applyAllE_safe kv _ _ xs h3

/-! ## one whole use -/

/-- the fresh run of one use is fuel-safe (decidable by evaluation) -/
def useSafe (L : Lang) (fuel : Nat) (fixFlag : Bool) (s : Schema) (xs : List Term) : Bool :=
  instantiateSafe L fuel {} s &&
  thenOk (instantiateE L 0 0 fuel {} s) (fun p => applyAllSafe L fuel fixFlag p.1 p.2 xs)

/-- a fuel-safe fresh run is the same for ALL fuel offsets -/
theorem useSchemaE_safe {L : Lang} {fuel : Nat} {fixFlag : Bool} {s : Schema} {xs : List Term}
    (hs : useSafe L fuel fixFlag s xs = true) (kv kc : Nat) :
    useSchemaE L kv kc fuel fixFlag {} s xs = useSchema L fuel fixFlag {} s xs := by
  rw [← useSchemaE_zero]
  obtain ⟨h1, h2⟩ := and_split hs
  unfold useSchemaE
  rw [instantiateE_safe h1 kv kc]
  split
  · rfl
  · rename_i heq
    have h3 := thenOk_ok h2 heq
    exact applyAllE_safe kv _ _ xs h3

end Tfv.C16D
