import Tfv.Proofs.EngineTermMono
namespace Tfv.C17T
open Tfv

theorem fix_step {L : Lang} {n : Nat} (ih : MonoAt L n) (σ : Store) (t : Term) (pl : Bool) :
    Le (fix L (n+1) σ t pl) (fix L (n+2) σ t pl) := by
  have h1 := ih.bind
  have h2 := ih.fixList
  unfold Le at *
  unfold fix
  cases hf : followT σ t with
  | app o args =>
    simp only []
    grind
  | var v =>
    simp only []
    cases hl : (getVar σ v).lower <;> cases hu : (getVar σ v).upper <;> cases pl <;>
      simp only [Option.isSome_none, Option.isSome_some, Bool.and_false, Bool.and_true,
        Bool.not_true, Bool.not_false, if_true, if_false, Bool.false_eq_true] <;> grind



/-- the `match r with | .error e => .error e | .ok a => k a` of the engine -/
def seq {α β : Type} (x : Except Err α) (k : α → Except Err β) : Except Err β :=
  match x with
  | .error e => .error e
  | .ok a => k a

theorem le_seq {α β : Type} {x x' : Except Err α} {k k' : α → Except Err β} (h : Le x x') (hk : ∀ a, Le (k a) (k' a)) :
    Le (seq x k) (seq x' k') := by
  rcases h with h | h
  · left; rw [h]; rfl
  · rw [h]
    cases x' with
    | error e => exact Le.rfl' _
    | ok a => exact hk a

def aboveMid (L : Lang) (n : Nat) (σ : Store) (v new : Nat) : R :=
  let i := { (getVar σ v) with wildcard := false }
  let σ := setVar σ v i
  if i.upper.any (fun u => opSub L u new true) then .error .subtypeMismatch
  else if i.upper.any (fun u => !opSub L new u) then .error .subtypeMismatch
  else if i.lower.any (fun l => opSub L new l true) then .ok σ
  else if i.lower.all (fun l => opSub L l new) then
    checkConstraints L n (setVar σ v { i with lower := some new }) v
  else .error .subtypeMismatch

def aboveTail (L : Lang) (n : Nat) (v : Nat) (σ : Store) : R :=
  let i := getVar σ v
  if i.bound.isNone && i.lower.isSome && i.lower == i.upper then
    match i.lower with
    | some l => bind L n σ v (.app l [])
    | none => .ok σ
  else .ok σ

theorem above_eq (L : Lang) (n : Nat) (σ : Store) (v new : Nat) :
    above L (n+1) σ v new =
      if new == TOP then bind L n σ v (.app TOP [])
      else if (getVar σ v).bound.isSome then .error (.internal "above:assert not self.bound")
      else seq (aboveMid L n σ v new) (aboveTail L n v) := by
  rw [above]
  split
  · rfl
  · simp only []
    split
    · rfl
    · unfold seq aboveMid aboveTail
      simp only []
      split <;> rename_i h <;> simp only [h] <;> rfl

theorem aboveMid_le {L : Lang} {n : Nat} (ih : MonoAt L n) (σ : Store) (v new : Nat) :
    Le (aboveMid L n σ v new) (aboveMid L (n+1) σ v new) := by
  unfold aboveMid
  simp only []
  repeat' split
  all_goals first | exact Le.rfl' _ | exact ih.checkConstraints _ _

theorem aboveTail_le {L : Lang} {n : Nat} (ih : MonoAt L n) (v : Nat) (σ : Store) :
    Le (aboveTail L n v σ) (aboveTail L (n+1) v σ) := by
  unfold aboveTail
  simp only []
  split
  · cases (getVar σ v).lower with
    | none => exact Le.rfl' _
    | some l => exact ih.bind _ _ _
  · exact Le.rfl' _

theorem above_step {L : Lang} {n : Nat} (ih : MonoAt L n) (σ : Store) (v new : Nat) :
    Le (above L (n+1) σ v new) (above L (n+2) σ v new) := by
  rw [above_eq, above_eq]
  split
  · exact ih.bind _ _ _
  · split
    · exact Le.rfl' _
    · exact le_seq (aboveMid_le ih σ v new) (aboveTail_le ih v)

def belowMid (L : Lang) (n : Nat) (σ : Store) (v new : Nat) : R :=
  let i := { (getVar σ v) with wildcard := false }
  let σ := setVar σ v i
  if i.lower.any (fun l => opSub L new l true) then .error .subtypeMismatch
  else if i.lower.any (fun l => !opSub L l new) then .error .subtypeMismatch
  else if i.upper.any (fun u => opSub L u new true) then .ok σ
  else if i.upper.all (fun u => opSub L new u) then
    checkConstraints L n (setVar σ v { i with upper := some new }) v
  else .error .subtypeMismatch

def belowTail (L : Lang) (n : Nat) (v : Nat) (σ : Store) : R :=
  let i := getVar σ v
  if i.bound.isNone && i.upper.isSome && i.upper == i.lower then
    match i.upper with
    | some u => bind L n σ v (.app u [])
    | none => .ok σ
  else .ok σ

theorem below_eq (L : Lang) (n : Nat) (σ : Store) (v new : Nat) :
    below L (n+1) σ v new =
      if new == BOT then bind L n σ v (.app BOT [])
      else if (getVar σ v).bound.isSome then .error (.internal "below:assert not self.bound")
      else seq (belowMid L n σ v new) (belowTail L n v) := by
  rw [below]
  split
  · rfl
  · simp only []
    split
    · rfl
    · unfold seq belowMid belowTail
      simp only []
      split <;> rename_i h <;> simp only [h] <;> rfl

theorem belowMid_le {L : Lang} {n : Nat} (ih : MonoAt L n) (σ : Store) (v new : Nat) :
    Le (belowMid L n σ v new) (belowMid L (n+1) σ v new) := by
  unfold belowMid
  simp only []
  repeat' split
  all_goals first | exact Le.rfl' _ | exact ih.checkConstraints _ _

theorem belowTail_le {L : Lang} {n : Nat} (ih : MonoAt L n) (v : Nat) (σ : Store) :
    Le (belowTail L n v σ) (belowTail L (n+1) v σ) := by
  unfold belowTail
  simp only []
  split
  · cases (getVar σ v).upper with
    | none => exact Le.rfl' _
    | some l => exact ih.bind _ _ _
  · exact Le.rfl' _

theorem below_step {L : Lang} {n : Nat} (ih : MonoAt L n) (σ : Store) (v new : Nat) :
    Le (below L (n+1) σ v new) (below L (n+2) σ v new) := by
  rw [below_eq, below_eq]
  split
  · exact ih.bind _ _ _
  · split
    · exact Le.rfl' _
    · exact le_seq (belowMid_le ih σ v new) (belowTail_le ih v)


theorem bind_step {L : Lang} {n : Nat} (ih : MonoAt L n) (σ : Store) (v : Nat) (t : Term) :
    Le (bind L (n+1) σ v t) (bind L (n+2) σ v t) := by
  have h1 := ih.unify
  have h2 := ih.checkConstraints
  unfold Le at *
  unfold bind
  simp only []
  split
  · right; rfl
  · cases t with
    | app o args =>
      simp only []
      repeat' split
      all_goals first | (right; rfl) | exact h2 _ _
    | var tv =>
      simp only []
      split
      · right; rfl
      · cases hl : (getVar σ v).lower <;> cases hu : (getVar σ v).upper <;> simp only [] <;> grind



theorem le_ite {α : Type} {c : Prop} [Decidable c] {a b b' : Except Err α} (h : Le b b') :
    Le (if c then a else b) (if c then a else b') := by
  split
  · exact Le.rfl' _
  · exact h

theorem le_ite' {α : Type} {c : Prop} [Decidable c] {a a' b : Except Err α} (h : Le a a') :
    Le (if c then a else b) (if c then a' else b) := by
  split
  · exact h
  · exact Le.rfl' _

theorem fulfill_step {L : Lang} {n : Nat} (ih : MonoAt L n) (σ : Store) (c : Nat) :
    Le (fulfill L (n+1) σ c) (fulfill L (n+2) σ c) := by
  have h1 := ih.unify
  have h2 := ih.minimize
  unfold Le at h1 h2
  unfold fulfill
  cases hc : getConstr σ c with
  | sub ref tgt s f =>
    simp only []
    rcases h1 σ ref tgt true true false with h | h
    · left; rw [h]
    · rw [h]; right; rfl
  | elim ref alts ful =>
    cases ful with
    | true => right; rfl
    | false =>
      simp only []
      rcases h2 σ c with h | h
      · left; rw [h]
      · rw [h]
        cases hm : minimize L (n+1) σ c with
        | error e => right; rfl
        | ok σ1 =>
          simp only []
          cases hc1 : getConstr σ1 c with
          | sub _ _ _ _ => right; rfl
          | elim ref1 alts1 ful1 =>
            simp only []
            refine le_ite ?_
            generalize List.filter _ alts1 = al
            cases al with
            | nil => right; rfl
            | cons only tl =>
              cases tl with
              | nil =>
                simp only []
                rcases h1 (setConstr σ1 c (.elim ref1 [only] true)) ref1 only true false false with h | h
                · left; rw [h]
                · rw [h]; right; rfl
              | cons _ _ => right; rfl

end Tfv.C17T
