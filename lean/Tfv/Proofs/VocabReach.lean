import Tfv.Model.Vocab
import Tfv.Proofs.Closure
/-!
# `transitiveSubjects` = the nodes that reach the given node over `rdfs:subClassOf` triples

The development mirrors `reachFrom` / `mem_transitiveObjects` of `Tfv/Proofs/Closure.lean`, on `Node`s and backwards.
-/
namespace Tfv.Voc
open Tfv

/-- reflexive-transitive closure of a relation on nodes -/
inductive NReach (R : Node → Node → Prop) : Node → Node → Prop
  | refl (a : Node) : NReach R a a
  | step {a b c : Node} : R a b → NReach R b c → NReach R a c

namespace NReach

theorem trans {R : Node → Node → Prop} {a b c : Node} (h1 : NReach R a b) (h2 : NReach R b c) : NReach R a c := by
  induction h1 with
  | refl _ => exact h2
  | step hab _ ih => exact .step hab (ih h2)

theorem one {R : Node → Node → Prop} {a b : Node} (h : R a b) : NReach R a b := .step h (.refl b)

theorem snoc {R : Node → Node → Prop} {a b c : Node} (h1 : NReach R a b) (h2 : R b c) : NReach R a c :=
  h1.trans (one h2)

theorem mono {R S : Node → Node → Prop} (h : ∀ a b, R a b → S a b) {a b : Node} (hr : NReach R a b) : NReach S a b := by
  induction hr with
  | refl _ => exact .refl _
  | step hab _ ih => exact .step (h _ _ hab) ih

/-- adding edges that are already paths does not change reachability -/
theorem of_paths {R S : Node → Node → Prop} (h : ∀ a b, S a b → NReach R a b) {a b : Node} (hs : NReach S a b) :
    NReach R a b := by
  induction hs with
  | refl _ => exact .refl _
  | step hab _ ih => exact (h _ _ hab).trans ih

end NReach

/-- the `rdfs:subClassOf` edges of a triple list -/
def SubEdge (ts : List Triple) (s o : Node) : Prop := (s, subClassOf, o) ∈ ts

theorem mem_subClassSubjects {ts : List Triple} {o x : Node} : x ∈ subClassSubjects ts o ↔ SubEdge ts x o := by
  unfold subClassSubjects SubEdge
  simp only [List.mem_map, List.mem_filter, Bool.and_eq_true, beq_iff_eq]
  constructor
  · rintro ⟨⟨a, p, b⟩, ⟨hm, h1, h2⟩, h3⟩
    simp only at h1 h2 h3
    subst h1; subst h2; subst h3; exact hm
  · intro h; exact ⟨(x, subClassOf, o), ⟨h, rfl, rfl⟩, rfl⟩

/-- the nodes discovered in one round -/
def nextSubjects (ts : List Triple) (frontier seen : List Node) : List Node :=
  (frontier.flatMap (subClassSubjects ts)).eraseDups.filter (fun x => !seen.contains x)

theorem mem_nextSubjects {ts : List Triple} {frontier seen : List Node} {y : Node} :
    y ∈ nextSubjects ts frontier seen ↔ (∃ x, x ∈ frontier ∧ SubEdge ts y x) ∧ y ∉ seen := by
  unfold nextSubjects
  simp only [List.mem_filter, List.mem_eraseDups, List.mem_flatMap, mem_subClassSubjects,
    Bool.not_eq_true', List.contains_eq_mem, decide_eq_false_iff_not]

theorem reachSubjects_succ (ts : List Triple) (fuel : Nat) (frontier seen : List Node) :
    reachSubjects ts (fuel + 1) frontier seen =
      if (nextSubjects ts frontier seen).isEmpty then seen
      else reachSubjects ts fuel (nextSubjects ts frontier seen) (seen ++ nextSubjects ts frontier seen) := rfl

theorem reachSubjects_sound (ts : List Triple) : ∀ (fuel : Nat) (frontier seen : List Node) (x : Node),
    x ∈ reachSubjects ts fuel frontier seen → x ∈ seen ∨ ∃ s, s ∈ frontier ∧ NReach (SubEdge ts) x s := by
  intro fuel
  induction fuel with
  | zero => intro frontier seen x hx; exact .inl hx
  | succ n ih =>
    intro frontier seen x hx
    rw [reachSubjects_succ] at hx
    split at hx
    · exact .inl hx
    · rcases ih _ _ _ hx with h | ⟨s, hs, hxs⟩
      · rcases List.mem_append.1 h with h | h
        · exact .inl h
        · obtain ⟨⟨w, hw, hxw⟩, _⟩ := mem_nextSubjects.1 h
          exact .inr ⟨w, hw, .one hxw⟩
      · obtain ⟨⟨w, hw, hsw⟩, _⟩ := mem_nextSubjects.1 hs
        exact .inr ⟨w, hw, hxs.snoc hsw⟩

/-- number of triples whose subject has not been seen yet (the fuel measure) -/
def unseenSubj (ts : List Triple) (seen : List Node) : Nat :=
  (ts.filter (fun t => !seen.contains t.1)).length

theorem unseenSubj_lt {ts : List Triple} {seen frontier : List Node} {y : Node}
    (hy : y ∈ nextSubjects ts frontier seen) :
    unseenSubj ts (seen ++ nextSubjects ts frontier seen) < unseenSubj ts seen := by
  obtain ⟨⟨w, _, hyw⟩, hns⟩ := mem_nextSubjects.1 hy
  unfold unseenSubj
  apply length_filter_lt _ _ ts _ (y, subClassOf, w) hyw
  · simpa using hns
  · simp only [Bool.not_eq_false', List.contains_eq_mem, decide_eq_true_eq, List.mem_append]
    exact .inr hy
  · intro p hp
    simp only [Bool.not_eq_true', List.contains_eq_mem, decide_eq_false_iff_not,
      List.mem_append, not_or] at hp ⊢
    exact hp.1

theorem reachSubjects_complete (ts : List Triple) : ∀ (fuel : Nat) (frontier seen : List Node),
    unseenSubj ts seen < fuel →
    (∀ x, x ∈ seen → x ∉ frontier → ∀ y, SubEdge ts y x → y ∈ seen) →
    (∀ x, x ∈ seen → x ∈ reachSubjects ts fuel frontier seen) ∧
    (∀ x, x ∈ reachSubjects ts fuel frontier seen → ∀ y, SubEdge ts y x →
      y ∈ reachSubjects ts fuel frontier seen) := by
  intro fuel
  induction fuel with
  | zero => intro frontier seen h; exact absurd h (Nat.not_lt_zero _)
  | succ n ih =>
    intro frontier seen hfuel hinv
    rw [reachSubjects_succ]
    split
    · rename_i hemp
      have hnil : nextSubjects ts frontier seen = [] := List.isEmpty_iff.1 hemp
      refine ⟨fun x hx => hx, ?_⟩
      intro x hx y hyx
      by_cases hxf : x ∈ frontier
      · by_cases hys : y ∈ seen
        · exact hys
        · have : y ∈ nextSubjects ts frontier seen := mem_nextSubjects.2 ⟨⟨x, hxf, hyx⟩, hys⟩
          rw [hnil] at this; cases this
      · exact hinv x hx hxf y hyx
    · rename_i hemp
      have hne : nextSubjects ts frontier seen ≠ [] := fun h => hemp (List.isEmpty_iff.2 h)
      obtain ⟨y0, hy0⟩ := List.exists_mem_of_ne_nil _ hne
      have hlt := unseenSubj_lt hy0
      have hfuel' : unseenSubj ts (seen ++ nextSubjects ts frontier seen) < n := by omega
      have hinv' : ∀ x, x ∈ seen ++ nextSubjects ts frontier seen → x ∉ nextSubjects ts frontier seen →
          ∀ y, SubEdge ts y x → y ∈ seen ++ nextSubjects ts frontier seen := by
        intro x hx hxn y hyx
        have hxs : x ∈ seen := by
          rcases List.mem_append.1 hx with h | h
          · exact h
          · exact absurd h hxn
        by_cases hxf : x ∈ frontier
        · by_cases hys : y ∈ seen
          · exact List.mem_append.2 (.inl hys)
          · exact List.mem_append.2 (.inr (mem_nextSubjects.2 ⟨⟨x, hxf, hyx⟩, hys⟩))
        · exact List.mem_append.2 (.inl (hinv x hxs hxf y hyx))
      obtain ⟨h1, h2⟩ := ih _ _ hfuel' hinv'
      exact ⟨fun x hx => h1 x (List.mem_append.2 (.inl hx)), h2⟩

theorem unseenSubj_le (ts : List Triple) (seen : List Node) : unseenSubj ts seen ≤ ts.length :=
  List.length_filter_le _ _

/-- `transitive_subjects(rdfs:subClassOf, o)`: exactly the nodes from which `o` is reachable in `≥ 0` steps -/
theorem mem_transitiveSubjects (ts : List Triple) (o x : Node) :
    x ∈ transitiveSubjects ts o ↔ NReach (SubEdge ts) x o := by
  unfold transitiveSubjects
  constructor
  · intro h
    rcases reachSubjects_sound ts _ _ _ _ h with h | ⟨s, hs, hxs⟩
    · rw [List.mem_singleton.1 h]; exact .refl _
    · rw [List.mem_singleton.1 hs] at hxs; exact hxs
  · have hfuel : unseenSubj ts [o] < ts.length + 1 := Nat.lt_succ_of_le (unseenSubj_le _ _)
    have hinv : ∀ x, x ∈ [o] → x ∉ [o] → ∀ y, SubEdge ts y x → y ∈ [o] :=
      fun x hx hnx => absurd hx hnx
    obtain ⟨h1, h2⟩ := reachSubjects_complete ts _ [o] [o] hfuel hinv
    have ho := h1 o (List.mem_singleton.2 rfl)
    intro h
    induction h with
    | refl _ => exact ho
    | step hab _ ih => exact h2 _ (ih hfuel hinv h1 h2 ho) _ hab

end Tfv.Voc
