import Tfv.Props.C12
import Tfv.Proofs.WorkflowInlineMain
/-!
# C12, main clause — the graph of a workflow and the graph of the inlined expression

Statements only; proofs in `Tfv/Proofs/WorkflowInline*.lean`, definitions in `Tfv/Spec/WorkflowInline.lean`.

What is true of the model, in one paragraph. `add_workflow` does **not** call `add_expr` once on the inlined expression
of the target. It visits the resources the target depends on *inputs first* (`wfnode2tfmnode`), and for every resource
calls `add_expr` on that resource's own expression object — which, with passthrough, IS the tagged inlined expression
of the resource (`inlineS`), but at a moment when every tagged sub-expression inside it already has its node, so that
each of them is a memo hit. Hence (i) the blank nodes are numbered in another order than a single `add_expr` call on
the inlined expression of the target would number them (that call numbers the target first, the workflow numbers the
sources first and wastes one blank node per tool input: `C12_inline_on_the_nose_fails`), (ii) every node carries the
`tf:origin` of *its* resource instead of one origin, (iii) every tool output is annotated like a top-level expression
(`intermediate = false`), which differs from the single call when `with_intermediate_types` is off, and (iv) inputs
of a tool that its text does not mention still get their nodes. What holds on the nose is the trace form
`C12_inline_trace_partial` together with the enumeration of the markings `C12_inline_marks`; on the examples the two
graphs are equal up to an explicit renaming of blank nodes (evaluation, section 4).
-/
namespace Tfv.C12
open Tfv Tfv.GraphEx

/-! ## 1. The inlined expression -/

/-- the stages of `addWorkflow` up to the table the graph is built from (`wfFinalExprs`), by evaluation -/
def finalTable (ops : List OperatorDecl) (w : Wf) (pt : Bool) : Option (Store × List (Nat × TExpr) × WState) :=
  match w.target with
  | .error _ => none
  | .ok tgt =>
    match wfExpr wP ops w pt (w.apps.length + 2) (startState ops w) tgt with
    | .error _ => none
    | .ok (ws, te) =>
      match fixExpr wP.types ws.xs.store te with
      | .error _ => none
      | .ok (σf, te') => some (σf, wfFinalExprs ws te', ws)

/-- **The entry of a resource and its inlined expression cannot be told apart by `add_expr`** once the tags inside the
entry have nodes: they are equal outside tagged sub-expressions (`CutEq`), when the copies of every resource inside the
table agree with the table's entry on being a function (`TyCoh`, decidable: `tyCohB`). The table entries themselves
are what `wfExpr` and the final `fix()` produce (`C12_final_exprs`: same keys, same tags as at creation, where
`C12_inline_structure` says that a tool's entry is its text parsed over the entries of its inputs). -/
theorem C12_inline_cutEq (T : List (Nat × TExpr)) (hT : TyCoh T) (R : Nat → Prop) (n : Nat) (e : TExpr)
    (hk : ∀ k ∈ e.sharedKeys, R k)
    (he : ∀ x ∈ e.tagged, ∃ e', tlook T x.1 = some e' ∧ e'.ty.isFunction = x.2.ty.isFunction) :
    CutEq R e (inlineE T n e) :=
  cutEq_inlineE T hT R n e hk he

theorem C12_tyCoh_decide (T : List (Nat × TExpr)) : tyCohB T = true ↔ TyCoh T := tyCohB_iff T

-- non-vacuity: the final tables of the two examples are coherent; in the diamond workflow the inlined expression of
-- the target contains the expression of resource 1 twice, tagged; the plain one has no tag and two copies of `f`
#guard ((finalTable wops wf1 true).map (fun p => tyCohB p.2.1)) == some true
#guard ((finalTable wops2 wf2 true).map (fun p => tyCohB p.2.1)) == some true
#guard ((finalTable wops2 wf2 false).map (fun p => tyCohB p.2.1)) == some true
#guard ((finalTable wops2 wf2 true).bind (fun p => (inlineS p.2.1 20 3).map (·.sharedKeys))) == some [3, 1, 2, 1]
#guard ((finalTable wops2 wf2 true).bind (fun p => (inlineT p.2.1 20 3).map (·.sharedKeys))) == some []
#guard ((finalTable wops2 wf2 true).bind (fun p => (inlineS p.2.1 20 3).map (fun e => toString (repr e))))
  == ((finalTable wops2 wf2 true).bind (fun p => (tlook p.2.1 3).map (fun e => toString (repr e))))

/-- **A tag that has a node hides its body** (the quotient statement, in its strongest form): `add_expr` gives the same
result — graph, node, or error — on two expressions that differ only below tags that have nodes. In particular every
consumption of a resource after the first adds no triple and returns the first node, whatever tree the copy is. -/
theorem C12_tag_hides_body (G : GLang) (c : GCfg) (root : Node) (origin : Option Node) (R : Nat → Prop)
    (e e' : TExpr) (h : CutEq R e e') (g : GState) (cur : Option Nat) (inter : Bool)
    (hreg : ∀ k, R k → ∃ n, alook g.sharedNodes k = some n) :
    addExpr G c root origin g e cur inter = addExpr G c root origin g e' cur inter :=
  addExpr_cutEq G c root origin R e e' h g cur inter hreg

example : addExpr exG {} root none { sharedNodes := [(1, 7)] } (.app (.op "g" (tmFn tmB tmC)) (.shared 1 ex1) tmC) none false
    = addExpr exG {} root none { sharedNodes := [(1, 7)] } (.app (.op "g" (tmFn tmB tmC)) (.shared 1 (.src 9 none tmB)) tmC) none false :=
  C12_tag_hides_body exG {} root none (· = 1) (.app (.op "g" (tmFn tmB tmC)) (.shared 1 ex1) tmC)
    (.app (.op "g" (tmFn tmB tmC)) (.shared 1 (.src 9 none tmB)) tmC) ⟨⟨rfl, rfl⟩, ⟨rfl, .inl rfl⟩, rfl⟩ _ none false
    (fun k hk => ⟨7, by rw [hk]; rfl⟩)

/-! ## 2. The main theorem: the target stage as a sequence of `add_expr` calls on inlined expressions -/

/-- **The graph of a workflow, end to end** (either passthrough mode). A successful `addWorkflow` runs through the stages
`WfRun` (`C12_run`); with `T` the final table, `G'` the language with the final store and `g1` the graph after the
target stage:

* `g1` is obtained from the empty graph by a trace `l` of `add_expr` calls, one per resource `(r, k) ∈ l` in the order
  "inputs before the tool" (`WfTrace`, `ResStep`): the call adds, with origin `r`, the table's entry of `r` — and gives
  the same graph and node `k` as the call on the inlined expression `inlineE T fuel (entry r)` of `r`; at that moment
  `r` has no node and every tag inside the entry other than `r`'s own has one, so all of them are memo hits
  (`C12_tag_hides_body`); after the call `r` has node `k`;
* every resource in the trace is the target or a resource the target depends on, its node is the one the node map
  `m` gives, and the target is in the trace with the output node;
* then the stand-in sources are linked (nothing with passthrough: `ws.indirection = []`), every source of the workflow
  is marked (`srcMark`: its `.src` entry is added if it has no node yet, and `workflow tf:input node` is added), and
  `wfFinish` adds `workflow tf:output out` and, with `with_classes`, `workflow rdf:type tf:Transformation`.

`_partial`: the statement "the triples are those of one `add_expr` call on the inlined expression of the target" is
false on the nose (`C12_inline_on_the_nose_fails`); this is the strongest form proved. The hypothesis `TyCoh` is only
needed for the calls on the *inlined* expressions (the calls on the entries are the model's own). -/
theorem C12_inline_trace_partial (P : PLang) (G : GLang) (ops : List OperatorDecl) (c : GCfg) (pt : Bool) (w : Wf)
    (g : GState) (out : Nat) (m : List (Nat × Nat)) (hn : w.sources.Nodup)
    (h : addWorkflow P G ops c pt w = .ok (g, out, m)) :
    ∃ xs0 stypes tgt ws te σf te' g1 g3, WfRun P G ops c pt w g out m xs0 stypes tgt ws te σf te' g1 g3 ∧
      (pt = true → ws.indirection = []) ∧
      w.sources.foldlM (srcMark (wfGLang G σf) c w (wfFinalExprs ws te')) (ws.indirection.foldl (wfLinkStep c) g1)
        = .ok g3 ∧
      g = wfFinish c g3 out ∧
      (TyCoh (wfFinalExprs ws te') → ∀ fuel, ∃ l,
        WfTrace (wfGLang G σf) c w (wfFinalExprs ws te') fuel (initGraph (wfGLang G σf) c) l g1 ∧
        (∀ p ∈ l, p.1 = tgt ∨ SReach w tgt p.1) ∧ (∀ p ∈ l, p ∈ m) ∧ (tgt, out) ∈ l) := by
  obtain ⟨xs0, stypes, tgt, ws, te, σf, te', g1, g3, run⟩ := addWorkflow_run P G ops c pt w g out m h
  refine ⟨xs0, stypes, tgt, ws, te, σf, te', g1, g3, run, ?_, run.marks_eq' hn, run.graph, fun hc fuel => run.trace hn hc fuel⟩
  intro hpt
  subst hpt
  exact run.no_links

/-- one step of a trace, spelled out -/
theorem C12_trace_step (G : GLang) (c : GCfg) (w : Wf) (T : List (Nat × TExpr)) (fuel : Nat) (ga gb : GState) (r k : Nat)
    (h : ResStep G c w T fuel ga r k gb) :
    ∃ e, alook T r = some e ∧ nodeOf ga e = none ∧
      (∀ e0, e = TExpr.shared r e0 → ∀ j ∈ e0.sharedKeys, ∃ m, alook ga.sharedNodes j = some m) ∧
      addExpr G c wfRoot (some (.res (w.resName r))) ga e none false = .ok (gb, k) ∧
      addExpr G c wfRoot (some (.res (w.resName r))) ga (inlineE T fuel e) none false = .ok (gb, k) ∧
      nodeOf gb e = some k :=
  h.entry

/-- **The markings, enumerated** (passthrough; every source is consumed by a tool the target depends on). The final graph
is the graph `g1` of the target stage plus exactly: one `workflow tf:input k` per source (`k` its node in the node map),
`workflow tf:output out`, and with `with_classes` `workflow rdf:type tf:Transformation`. No blank node, `from`/`depends`
edge, type node or registration is added after the target stage. (The `tf:origin` annotations are part of `g1`: every
`add_expr` call of the trace carries the origin of its resource.) -/
theorem C12_inline_marks {P : PLang} {G : GLang} {ops : List OperatorDecl} {c : GCfg} {w : Wf}
    {g : GState} {out : Nat} {m : List (Nat × Nat)} {xs0 : XState} {stypes : List (Nat × Term)} {tgt : Nat}
    {ws : WState} {te : TExpr} {σf : Store} {te' : TExpr} {g1 g3 : GState}
    (run : WfRun P G ops c true w g out m xs0 stypes tgt ws te σf te' g1 g3) (hn : w.sources.Nodup)
    (hreach : ∀ r ∈ w.sources, SReach w tgt r) :
    (g.fd = g1.fd ∧ g.nextB = g1.nextB ∧ g.srcNodes = g1.srcNodes ∧ g.sharedNodes = g1.sharedNodes ∧
      g.typeNodes = g1.typeNodes ∧ g.internals = g1.internals) ∧
    ∀ t, t ∈ g.triples ↔ t ∈ g1.triples ∨
      (∃ r ∈ w.sources, ∃ k, (r, k) ∈ m ∧ t = (wfRoot, Node.tf "input", Node.b k)) ∨
      t = (wfRoot, Node.tf "output", Node.b out) ∨
      (c.withClasses = true ∧ t = (wfRoot, Node.rdf "type", Node.tf "Transformation")) :=
  run.marks_enum hn hreach

-- non-vacuity of both theorems on the two examples: the runs succeed, the tables are coherent (above), the sources
-- are distinct and reached from the target
#guard (addWorkflow wP exG wops {} true wf1).toOption.isSome && (addWorkflow wP exG wops2 {} true wf2).toOption.isSome
  && (addWorkflow wP exG wops2 {} false wf2).toOption.isSome
example : wf2.sources.Nodup ∧ ∀ r ∈ wf2.sources, SReach wf2 3 r := by
  refine ⟨by decide, ?_⟩
  intro r hr
  simp only [wf2, List.mem_singleton] at hr
  subst hr
  exact .step (y := 1) ⟨by decide, _, rfl, by decide⟩ (.step (y := 0) ⟨by decide, _, rfl, by decide⟩ (.refl 0))

/-- the trace of a run recomputed by evaluation: fold `add_expr` on the inlined expressions over the given order -/
def replay (G : GLang) (c : GCfg) (w : Wf) (T : List (Nat × TExpr)) (order : List Nat) : Option GState :=
  order.foldlM (fun g r =>
    match inlineS T 20 r with
    | none => none
    | some e => (addExpr G c wfRoot (some (.res (w.resName r))) g e none false).toOption.map (·.1)) (initGraph G c)

/-- … followed by the marks -/
def replayAll (ops : List OperatorDecl) (c : GCfg) (w : Wf) (order : List Nat) (out : Nat) : Option GState :=
  match finalTable ops w true with
  | none => none
  | some (σf, T, _) =>
    match replay (wfGLang exG σf) c w T order with
    | none => none
    | some g1 => ((w.sources.foldlM (srcMark (wfGLang exG σf) c w T) g1).toOption).map (fun g3 => wfFinish c g3 out)

-- both sides computed and equal, as whole graph states: the workflow graph is the replay of the trace
-- `[source 0, resource 1, resource 2, resource 3]` on the inlined expressions, then the marks
#guard toString (repr ((addWorkflow wP exG wops2 {} true wf2).toOption.map (·.1))) == toString (repr (replayAll wops2 {} wf2 [0, 1, 2, 3] 5))
#guard toString (repr ((addWorkflow wP exG wops {} true wf1).toOption.map (·.1))) == toString (repr (replayAll wops {} wf1 [0, 1, 2] 3))

/-! ## 3. On the nose, a single call on the inlined expression of the target gives another numbering -/

/-- the inlined expression of the target of the running example `wf1` (table `wf1exprs`) -/
def wf1inl : TExpr :=
  .shared 2 (.app (.op "g" (tmFn tmB tmC)) (.shared 1 (.app (.op "f" (tmFn tmA tmB)) (.src 0 none tmA) tmB)) tmC)

/-- **Counterexample to equality on the nose** (kernel checked). For `wf1` with the table `wf1exprs`, `wfNode` gives the
target the blank node 3 (the source is node 0, resource 1 is node 1, node 2 is wasted), while every successful single
`add_expr` call on the inlined expression of the target from the same empty graph gives it node 0. So the two graphs
are at best equal up to a renaming of blank nodes. -/
theorem C12_inline_on_the_nose_fails :
    inlineS wf1exprs 20 2 = some wf1inl ∧
    runWfNode.toOption.map (·.2) = some 3 ∧
    ∀ o g' n, addExpr exG {} (.res "workflow") o (initGraph exG {}) wf1inl none false = .ok (g', n) → n = 0 := by
  refine ⟨rfl, ?_, ?_⟩
  · have := runWfNode_fd
    cases hx : runWfNode with
    | error e => rw [hx] at this; cases this
    | ok p =>
      rw [hx] at this
      simp only [Except.toOption, Option.map_some, Option.some.injEq, Prod.mk.injEq] at this
      simp only [Except.toOption, Option.map_some, this.2.2.2]
  · intro o g' n h
    have := addExpr_shared_app_node exG {} (.res "workflow") o (initGraph exG {}) 2 _ _ _ false g' n
      (by rw [initGraph_sharedNodes]; rfl) h
    rw [this]
    rfl

/-! ## 4. Up to an explicit renaming, on the examples -/

def renNode (ρ : List (Nat × Nat)) : Node → Node
  | .b n => .b (((ρ.find? (fun p => p.1 == n)).map (·.2)).getD (1000 + n))
  | x => x
def renTriple (ρ : List (Nat × Nat)) (t : Triple) : Triple := (renNode ρ t.1, renNode ρ t.2.1, renNode ρ t.2.2)
def sameSet (a b : List Triple) : Bool := a.all (b.contains ·) && b.all (a.contains ·)

/-- a single `add_expr` call, without origin, on the tagged (`plain = false`) or plain inlined expression of the target -/
def direct (ops : List OperatorDecl) (w : Wf) (tgt : Nat) (plain : Bool) : Option GState :=
  match finalTable ops w true with
  | none => none
  | some (σf, T, _) =>
    match (if plain then inlineT T 20 tgt else inlineS T 20 tgt) with
    | none => none
    | some e => ((addExpr (wfGLang exG σf) {} wfRoot none (initGraph (wfGLang exG σf) {}) e none false).toOption).map (·.1)

/-- the workflow graph without its markings: `tf:origin`, `tf:input`, `tf:output` and the class -/
def unmarked (g : GState) : List Triple :=
  g.allTriples.filter (fun t => !(t.2.1 == .tf "origin" || t.2.1 == .tf "input" || t.2.1 == .tf "output" ||
    (t.1 == wfRoot && t.2.1 == .rdf "type")))

-- the diamond workflow `wf2` (resource 1 consumed twice): the graph of the workflow without markings IS the graph of
-- the tagged inlined expression of the target (all triples, `from` and `depends` included), under the renaming
-- target 0 ↦ 5, resource 1: 1 ↦ 1, source 2 ↦ 0, resource 2: 3 ↦ 3 of blank nodes; not without the renaming
#guard (match (addWorkflow wP exG wops2 {} true wf2).toOption, direct wops2 wf2 3 false with
  | some p, some d => sameSet (unmarked p.1) (d.allTriples.map (renTriple [(0, 5), (1, 1), (2, 0), (3, 3)]))
      && !sameSet (unmarked p.1) d.allTriples
  | _, _ => false)
-- the same for `wf1` (no resource consumed twice), where moreover the tags can be dropped: the graph of the PLAIN
-- inlined expression is the same graph state up to the registration of the tags
#guard (match (addWorkflow wP exG wops {} true wf1).toOption, direct wops wf1 2 false, direct wops wf1 2 true with
  | some p, some d, some d' => sameSet (unmarked p.1) (d.allTriples.map (renTriple [(0, 3), (1, 1), (2, 0)]))
      && toString (repr { d with sharedNodes := [] }) == toString (repr d')
  | _, _, _ => false)
-- in `wf2` the plain inlined expression has two copies of `f 1`: its graph has one node more (5 instead of 4 blank
-- nodes), and identifying the two copies (4 ↦ 1) gives the tagged graph: the quotient
#guard (match direct wops2 wf2 3 false, direct wops2 wf2 3 true with
  | some d, some d' => d.nextB == 5 && d'.nextB == 6 &&
      sameSet d.allTriples (d'.allTriples.map (renTriple [(0, 0), (1, 1), (2, 2), (3, 3), (4, 1)]))
  | _, _ => false)

/-! ## 5. Without passthrough

`C12_inline_trace_partial` holds in either mode. Without passthrough the entries of the table are FLAT
(`C12_no_passthrough_flat`: a tool's expression over stand-in sources, no tag inside), so every `add_expr` call of the
trace adds one flat tool expression (`inlineE` changes nothing in a flat entry), and the graph `g1` of the target stage
is the union, over the tools the target depends on, in dependency order, of the graphs of the flat tool expressions.
The link stage then adds, for every stand-in source, one `from` edge to its producer's output node
(`C12_no_passthrough_link`) — and nothing but edges: -/

/-- **The link stage only adds `from`/`depends` edges**: triples, blank-node counter, registered sources, tags, type
nodes and internal nodes are those of the target stage. -/
theorem C12_links_only_edges (c : GCfg) (l : List (Nat × Nat)) (g : GState) :
    (l.foldl (wfLinkStep c) g).triples = g.triples ∧ (l.foldl (wfLinkStep c) g).nextB = g.nextB ∧
      (l.foldl (wfLinkStep c) g).srcNodes = g.srcNodes ∧ (l.foldl (wfLinkStep c) g).sharedNodes = g.sharedNodes ∧
      (l.foldl (wfLinkStep c) g).typeNodes = g.typeNodes ∧ (l.foldl (wfLinkStep c) g).internals = g.internals :=
  wfLinks_fields c l g

/-- **A flat entry is its own inlined expression**: when the tool's expression contains no tag (no passthrough), inlining
changes nothing, so the trace adds the flat tool expressions themselves. -/
theorem C12_inline_flat_entry (T : List (Nat × TExpr)) (r : Nat) (e0 : TExpr) (h : tlook T r = some (TExpr.shared r e0))
    (hf : e0.sharedKeys = []) (n : Nat) : inlineE T n (TExpr.shared r e0) = TExpr.shared r e0 :=
  inlineE_flat_entry T r e0 h hf n

example : inlineE [(1, TExpr.shared 1 ex1)] 5 (TExpr.shared 1 ex1) = TExpr.shared 1 ex1 :=
  C12_inline_flat_entry _ 1 ex1 rfl rfl 5

example : (([(4, 1)] : List (Nat × Nat)).foldl (wfLinkStep {}) { srcNodes := [(4, 2)], sharedNodes := [(1, 1)], nextB := 3 }).nextB = 3 :=
  (C12_links_only_edges {} _ _).2.1

/-- the run without passthrough recomputed: the trace on the (flat) entries, the links, the marks -/
def replayNP (ops : List OperatorDecl) (c : GCfg) (w : Wf) (order : List Nat) (out : Nat) : Option GState :=
  match finalTable ops w false with
  | none => none
  | some (σf, T, ws) =>
    match replay (wfGLang exG σf) c w T order with
    | none => none
    | some g1 =>
      ((w.sources.foldlM (srcMark (wfGLang exG σf) c w T) (ws.indirection.foldl (wfLinkStep c) g1)).toOption).map
        (fun g3 => wfFinish c g3 out)

-- both sides computed and equal for the diamond workflow; its final table is flat; three links
#guard toString (repr ((addWorkflow wP exG wops2 {} false wf2).toOption.map (·.1))) == toString (repr (replayNP wops2 {} wf2 [0, 1, 2, 3] 5))
#guard ((finalTable wops2 wf2 false).map (fun p => p.2.1.map (fun q => (q.1, q.2.sharedKeys)))) == some [(0, []), (1, [1]), (2, [2]), (3, [3])]
#guard ((finalTable wops2 wf2 false).map (fun p => p.2.2.indirection)) == some [(5, 1), (6, 1), (7, 2)]

/-! ## 6. Where "the graph of the inlined expression, and nothing else" fails (evaluation) -/

/-- tool 2 lists resource 3 as an input, but its text mentions only its first input -/
def wfU : Wf := { sources := [0], apps := [
  { out := 1, toks := ["f", "1"], inputs := [0] },
  { out := 3, toks := ["f", "1"], inputs := [0] },
  { out := 2, toks := ["g", "1"], inputs := [1, 3] }] }

-- **An input that the tool's text does not mention still gets its nodes**: resource 3 is not in the inlined
-- expression of the target (tags 2 and 1 only), but has node 3 in the graph, fed by the source (edge 3 → 0) and
-- connected to nothing else
#guard wfU.target.toOption == some 2
#guard ((finalTable wops wfU true).bind (fun p => (inlineS p.2.1 20 2).map (·.sharedKeys))) == some [2, 1]
#guard ((addWorkflow wP exG wops {} true wfU).toOption.map (fun p => (p.1.sharedNodes, p.1.fd.frm)))
  == some ([(1, 1), (3, 3), (2, 5)], [(5, 1), (3, 0), (1, 0)])

/-- without intermediate types -/
def cfgNoInter : GCfg := { withIntermediateTypes := false }

def directC (c : GCfg) (ops : List OperatorDecl) (w : Wf) (tgt : Nat) : Option GState :=
  match finalTable ops w true with
  | none => none
  | some (σf, T, _) =>
    match inlineS T 20 tgt with
    | none => none
    | some e => ((addExpr (wfGLang exG σf) c wfRoot none (initGraph (wfGLang exG σf) c) e none false).toOption).map (·.1)

-- **Every tool output is a top-level expression for `add_workflow`**: with `with_intermediate_types = false` the
-- workflow graph of `wf1` still has the type of the intermediate resource 1 (node 1 : B), the graph of the inlined
-- expression has only the types of the target and of the source
#guard ((addWorkflow wP exG wops cfgNoInter true wf1).toOption.map (fun p => (unmarked p.1).filter (fun t => t.2.1 == .tf "type")))
  == some [(.b 0, .tf "type", .ns "A"), (.b 1, .tf "type", .ns "B"), (.b 3, .tf "type", .ns "C")]
#guard ((directC cfgNoInter wops wf1 2).map (fun d => d.allTriples.filter (fun t => t.2.1 == .tf "type")))
  == some [(.b 0, .tf "type", .ns "C"), (.b 2, .tf "type", .ns "A")]

end Tfv.C12
