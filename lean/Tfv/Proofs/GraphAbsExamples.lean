import Tfv.Proofs.GraphAbsArg
import Tfv.Proofs.GraphAbsEmbed
import Tfv.Proofs.FlowExamples
/-!
# C08 on expanded composite operators: concrete runs (non-vacuity, and what the graphs look like)
-/
namespace Tfv.C08P
open Tfv

/-- what the examples look at: `from` edges, internal-node pairs, source nodes, next blank node, result node,
parameter table -/
structure SumA where
  frm : List (Nat × Nat)
  ints : List (Nat × Nat)
  src : List (Nat × Nat)
  next : Nat
  node : Nat
  params : List (Nat × Nat)
  deriving DecidableEq, Repr

def summaryA (r : Except GErr (AState × Nat)) : Option SumA :=
  match r with
  | .ok (s, n) => some ⟨s.g.fd.frm, s.g.internals, s.g.srcNodes, s.g.nextB, n, s.params⟩
  | .error _ => none

/-- the failure of `assert isinstance(expr, Application)` (any `internal` error) -/
def failsAssert (r : Except GErr (AState × Nat)) : Bool :=
  match r with
  | .error (.internal _) => true
  | _ => false

theorem ok_of_summaryA {r : Except GErr (AState × Nat)} {x : SumA} (h : summaryA r = some x) :
    ∃ s n, r = .ok (s, n) := by
  cases r with
  | error e => cases h
  | ok v => exact ⟨v.1, v.2, rfl⟩

/-- the empty graph, no parameters -/
def sA0 : AState := { g := {} }
/-- the empty graph in which node 0 has been handed out (to be passed as the reserved node) -/
def sA1 : AState := { g := { nextB := 1 } }

def exXA : AExpr := .src 0 none tA
/-- `h (λx. g x) s` -/
def exLamG : AExpr :=
  .app (.app (.op "h" tFAA) (.lam [7] (.app (.op "g" tAA) (.pvar 7 tA) tA) tAA) tAA) exXA tA
/-- `h g s`: the same operation passed as such -/
def exPassedG : AExpr := .app (.app (.op "h" tFAA) (.op "g" tAA) tAA) exXA tA
/-- `h (λx. x)` -/
def exLamId : AExpr := .app (.op "h" tFAA) (.lam [7] (.pvar 7 tA) tAA) tAA
/-- `h (λx. k (λy. g y) x) s`: an abstraction inside the body of an abstraction -/
def exLamNested : AExpr :=
  .app (.app (.op "h" tFAA)
    (.lam [7] (.app (.app (.op "k" tFAA) (.lam [8] (.app (.op "g" tAA) (.pvar 8 tA) tA) tAA) tAA) (.pvar 7 tA) tA) tAA)
    tAA) exXA tA
/-- `λx. x` on its own -/
def exLamTop : AExpr := .lam [7] (.pvar 7 tA) tAA
/-- `k (λx. x) (λx. x)` with the *same* parameter number in both abstractions -/
def exLamTwice : AExpr := .app (.app (.op "k" tFFA) (.lam [7] (.pvar 7 tA) tAA) tFA) (.lam [7] (.pvar 7 tA) tAA) tA
/-- `k (λx. x) (λy. y)` with distinct parameter numbers -/
def exLamTwo : AExpr := .app (.app (.op "k" tFFA) (.lam [7] (.pvar 7 tA) tAA) tFA) (.lam [8] (.pvar 8 tA) tAA) tA

/-- `h (λx. g x) s`: node 0 = `h …`, node 1 = the body `g x` (the node of the argument), node 2 = the internal node,
which is what `x` stands for (3 was reserved for `x` and not used), node 4 = `s`. Edges: `1 → 2` (`g` takes its
parameter), `0 → 1`, `0 → 4`, `2 → 4`. -/
theorem exLamG_run :
    summaryA (addExprA exG exCfg (.res "w") none sA0 exLamG none false) =
      some ⟨[(2, 4), (0, 4), (0, 1), (1, 2)], [(0, 2)], [(0, 4)], 5, 0, [(7, 2)]⟩ := by
  decide +kernel

/-- `h g s` gives the same graph up to the numbering (`1 → 2` here is the edge that feeds the passed operation) -/
theorem exPassedG_run :
    summaryA (addExprA exG exCfg (.res "w") none sA0 exPassedG none false) =
      some ⟨[(2, 3), (0, 3), (0, 1), (1, 2)], [(0, 2)], [(0, 3)], 4, 0, []⟩ := by
  decide +kernel

/-- `h (λx. x)`: the argument's node is the internal node 2 -/
theorem exLamId_run :
    summaryA (addExprA exG exCfg (.res "w") none sA0 exLamId none false) =
      some ⟨[(0, 2)], [(0, 2)], [], 3, 0, [(7, 2)]⟩ := by
  decide +kernel

/-- `h (λx. k (λy. g y) x) s`: 0 = `h …`, 1 = `k … x` (body of the outer abstraction), 2 = internal node of `h` (= `x`),
3 = `g y` (body of the inner abstraction), 4 = internal node of `k` (= `y`), 7 = `s`. The inner internal node 4 is fed by
the outer one: once because `x` is an input of `k` (`4 → 2`), once by the nested rule. -/
theorem exLamNested_run :
    summaryA (addExprA exG exCfg (.res "w") none sA0 exLamNested none false) =
      some ⟨[(2, 7), (0, 7), (4, 2), (0, 1), (4, 2), (1, 2), (1, 3), (3, 4)], [(0, 2), (1, 4)], [(0, 7)], 8, 0, [(7, 2), (8, 4)]⟩ := by
  decide +kernel

/-- an abstraction that is not an argument, an unregistered parameter, and an abstraction of a non-function type
in argument position all fail -/
theorem exLam_failures :
    failsAssert (addExprA exG exCfg (.res "w") none sA0 exLamTop none false) = true ∧
    failsAssert (addExprA exG exCfg (.res "w") none sA0 (.pvar 7 tA) none false) = true ∧
    failsAssert (addExprA exG exCfg (.res "w") none sA0 (.app (.op "h" tFAA) (.lam [7] (.pvar 7 tA) tA) tAA) none false) = true ∧
    failsAssert (addExprA exG exCfg (.res "w") none sA0 (.app exLamTop exXA tA) none false) = true := by
  decide +kernel

/-- model oddity: the parameter table is searched from the front, so when two abstractions use the same parameter
number the second `x` is the internal node of the *first* abstraction (2, not 4): the step takes node 2 twice and
the internal node 2 gets an edge to itself. With distinct numbers the second argument is node 4. -/
theorem exLamTwice_run :
    summaryA (addExprA exG exCfg (.res "w") none sA0 exLamTwice none false) =
      some ⟨[(4, 2), (2, 2), (0, 2), (0, 2)], [(0, 2), (0, 4)], [], 5, 0, [(7, 2), (7, 4)]⟩ ∧
    summaryA (addExprA exG exCfg (.res "w") none sA0 exLamTwo none false) =
      some ⟨[(4, 2), (2, 4), (0, 4), (0, 2)], [(0, 2), (0, 4)], [], 5, 0, [(7, 2), (8, 4)]⟩ := by
  decide +kernel

/-- the shared-object table of a result -/
def sharedTableOf (r : Except GErr (AState × Nat)) : Option (List (Nat × Nat)) :=
  match r with
  | .ok (s, _) => some s.g.sharedNodes
  | .error _ => none

/-- with a `shared` mark the two functions differ: `addExpr` records the shared object, `AExpr.ofT` has dropped
the mark -/
theorem exShared_differs :
    sharedTableOf (carry [] (addExpr exG exCfg (.res "w") none {} (.shared 0 exX) none false)) = some [(0, 0)] ∧
    sharedTableOf (addExprA exG exCfg (.res "w") none { g := {}, params := [] } (AExpr.ofT (.shared 0 exX)) none false) =
      some [] := by
  decide +kernel

theorem exShared_embed_fails :
    addExprA exG exCfg (.res "w") none { g := {}, params := [] } (AExpr.ofT (.shared 0 exX)) none false ≠
      carry [] (addExpr exG exCfg (.res "w") none {} (.shared 0 exX) none false) := by
  intro h
  have h2 := exShared_differs
  rw [← h, h2.2] at h2
  exact absurd h2.1 (by decide)

/-- the receiving step of `h (λx. g x) s` on its own, with the reserved node 0 -/
theorem exLamG_step_run :
    summaryA (addExprA exG exCfg (.res "w") none sA1
      (.app (.op "h" tFAA) (.lam [7] (.app (.op "g" tAA) (.pvar 7 tA) tA) tAA) tAA) (some 0) false) =
      some ⟨[(0, 1), (1, 2)], [(0, 2)], [], 4, 0, [(7, 2)]⟩ := by
  decide +kernel

/-- the receiving step of `h (λx. x)` with the reserved node 0 -/
theorem exLamId_step_run :
    summaryA (addExprA exG exCfg (.res "w") none sA1 exLamId (some 0) false) =
      some ⟨[(0, 2)], [(0, 2)], [], 3, 0, [(7, 2)]⟩ := by
  decide +kernel

/-- `h p` where the parameter `p` (registered for node 5) is passed as an operation: it is fed by the new
internal node 7 -/
theorem exParamPassed_run :
    summaryA (addExprA exG exCfg (.res "w") none { g := { nextB := 6 }, params := [(3, 5)] }
      (.app (.op "h" tFAA) (.pvar 3 tAA) tAA) (some 0) false) =
      some ⟨[(0, 5), (5, 7)], [(0, 7)], [], 8, 0, [(3, 5)]⟩ := by
  decide +kernel

end Tfv.C08P
