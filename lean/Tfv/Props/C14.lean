import Tfv.Model
import Tfv.Proofs.Uri
/-!
# C14 — type URIs round-trip and identify types uniquely (URI half; the text half is in C14Text)
Statements only.
-/
namespace Tfv.C14
open Tfv

/-- names as `Language.add` forces them: distinct among all operators of the language
(builtins included: reserved names cannot be reused) -/
def DistinctNames (L : Lang) : Prop :=
  ∀ i j, i < L.length → j < L.length → nameOf L i = nameOf L j → i = j

/-- every operator name resolves to its own index -/
theorem C14_resolve (L : Lang) (hn : DistinctNames L) (h5 : 5 ≤ L.length) (o : Nat) (ho : o < L.length) :
    resolveName L (nameOf L o) = some o :=
  resolveName_nameOf L hn h5 o ho

/-- decoding the token list of a well-formed type gives the type back -/
theorem C14_uri_roundtrip_toks (L : Lang) (hn : DistinctNames L) (h5 : 5 ≤ L.length) (t : Ty) (ht : wfTy L t = true) :
    decodeToks L (uriToks L t) = .ok t :=
  decodeToks_uriToks L hn h5 t ht

/-- two different well-formed types never have the same token list, hence never the same URI -/
theorem C14_uri_injective (L : Lang) (hn : DistinctNames L) (h5 : 5 ≤ L.length) (s t : Ty)
    (hs : wfTy L s = true) (ht : wfTy L t = true) (h : uriToks L s = uriToks L t) : s = t :=
  uriToks_injective L hn h5 s t hs ht h

/-- the decoder never accepts a token list that is not the token list of its result:
whatever it returns re-encodes to the input (so URIs and types correspond one to one) -/
theorem C14_decode_sound (L : Lang) (hn : DistinctNames L) (h5 : 5 ≤ L.length) (toks : List String) (t : Ty)
    (h : decodeToks L toks = .ok t) : uriToks L t = toks :=
  uriToks_of_decodeToks L toks t h

def exL : Lang := builtinDecls ++ [⟨"A", [], none⟩, ⟨"B", [], some 5⟩, ⟨"F", [true], none⟩, ⟨"G", [true, true], none⟩]
example : uriLocal exL (.app 8 [.app 8 [.app 6 [], .app 5 []], .app 7 [.app 5 []]]) = "G-G-B-A-F-A" := by decide
-- `String.splitOn` does not reduce in the kernel and `Ty` has no `DecidableEq`, so the kernel-checked
-- example is stated on the token list; the string-level decoder is checked by evaluation (`#guard`).
example : decodeToks exL ["G", "G", "B", "A", "F", "A"]
    = .ok (.app 8 [.app 8 [.app 6 [], .app 5 []], .app 7 [.app 5 []]]) := by rfl
#guard (match decodeUri exL "G-G-B-A-F-A" with
  | .ok t => t == .app 8 [.app 8 [.app 6 [], .app 5 []], .app 7 [.app 5 []]]
  | .error _ => false)

end Tfv.C14
