import Tfv.Model.Graph
/-!
# M8c — `add_expr` on expressions with abstractions (expanded composite operators)

`Expr.primitive()` replaces composite operators by their definitions; where a definition is passed as an
argument and not fully applied, an `Abstraction` (λ p₁ … pₙ. body) remains in argument position. `add_expr`
(graph.py:345-372) treats it like any passed operation — one internal node — except that the parameters stand
for that internal node (`expr_nodes[p] = internal`) and the node of the argument is the node of the *body*,
which is not fed by the internal node through an extra edge (its parameters already are that node).

`AExpr` adds the two constructors to the typed expressions of `Tfv/Model/Expr.lean`; `addExprA` is `addExpr`
with the abstraction branch. Leaves are delegated to `addExpr`; the application case repeats the wiring code of
`Graph.lean` (tied to it by `C08a_embed`: on abstraction-free expressions `addExprA ∘ AExpr.ofT = addExpr`).
Parameter numbers must not be reused within one expression (the harness numbers parameter objects by identity): the
table is searched from the front, Python's dict would overwrite (`C08a_reused_parameter_number`).
-/
namespace Tfv

inductive AExpr where
  | src (id : Nat) (label : Option String) (ty : Term)
  | op (name : String) (ty : Term)
  | app (f x : AExpr) (ty : Term)
  /-- `Abstraction`: parameters are identified by number -/
  | lam (params : List Nat) (body : AExpr) (ty : Term)
  /-- a parameter (`Variable`) -/
  | pvar (id : Nat) (ty : Term)
  deriving Repr, Inhabited

def AExpr.ty : AExpr → Term
  | .src _ _ t => t
  | .op _ t => t
  | .app _ _ t => t
  | .lam _ _ t => t
  | .pvar _ t => t

/-- abstraction-free typed expressions as `AExpr` (`shared` marks are dropped: they only matter to workflows) -/
def AExpr.ofT : TExpr → AExpr
  | .src i l t => .src i l t
  | .op n t => .op n t
  | .app f x t => .app (AExpr.ofT f) (AExpr.ofT x) t
  | .shared _ e => AExpr.ofT e

/-- the graph under construction and `expr_nodes` restricted to parameters -/
structure AState where
  g : GState
  params : List (Nat × Nat) := []     -- parameter id ↦ (internal) node

/-- `add_expr` with abstractions. An abstraction or an unregistered parameter anywhere but in argument position
fails the `assert isinstance(expr, Application)` of the last branch. -/
def addExprA (G : GLang) (c : GCfg) (root : Node) (origin : Option Node) :
    AState → AExpr → Option Nat → Bool → Except GErr (AState × Nat)
  | s, .src id l ty, current, im =>
    match addExpr G c root origin s.g (.src id l ty) current im with
    | .error e => .error e
    | .ok (g, n) => .ok ({ s with g := g }, n)
  | s, .op name ty, current, im =>
    match addExpr G c root origin s.g (.op name ty) current im with
    | .error e => .error e
    | .ok (g, n) => .ok ({ s with g := g }, n)
  | s, .pvar id _, _, _ =>
    match s.params.find? (fun p => p.1 == id) with
    | some p => .ok (s, p.2)
    | none => .error (.internal "add_expr:assert Application")
  | _, .lam _ _ _, _, _ => .error (.internal "add_expr:assert Application")
  | s, .app f x _, current, intermediate =>
    let (g, cur) := match current with
      | some k => (s.g, k)
      | none => s.g.fresh
    match addExprA G c root origin { s with g := g } f (some cur) intermediate with
    | .error e => .error e
    | .ok (s, fnode) =>
      let g := s.g
      let (g, xcur) := g.fresh
      let isFun := x.ty.isFunction
      let (g, currentInternal) :=
        if isFun then
          let (g, i) := g.fresh
          (({ g with internals := g.internals ++ [(fnode, i)] }).add (.b fnode, .tf "internal", .b i), some i)
        else (g, none)
      -- the argument: the body of an abstraction (its parameters stand for the internal node; no `origin` is passed on),
      -- or any other expression (fed by the internal node when it is a passed operation)
      let other (s : AState) (g : GState) : Except GErr (AState × Nat) :=
        match addExprA G c root origin { s with g := g } x (some xcur) true with
        | .error e => .error e
        | .ok (s1, xnode) =>
          .ok ({ s1 with g := match currentInternal with
            | some i => gAddFrom c s1.g xnode i
            | none => s1.g }, xnode)
      let rx : Except GErr (AState × Nat) :=
        match x with
        | .lam ps body _ =>
          match currentInternal with
          | some i => addExprA G c root none { g := g, params := s.params ++ ps.map (fun p => (p, i)) } body (some xcur) true
          | none => .error (.internal "add_expr:assert Application")
        | .src _ _ _ => other s g
        | .op _ _ => other s g
        | .app _ _ _ => other s g
        | .pvar _ _ => other s g
      match rx with
      | .error e => .error e
      | .ok (s, xnode) =>
        let g := s.g
        let repeated := (objectsOf g.fd.frm fnode).contains xnode
        let g := gAddFrom c g fnode xnode
        let g := match currentInternal with
          | some i => ((g.internals.filter (fun (p : Nat × Nat) => p.1 == xnode)).map (fun (p : Nat × Nat) => p.2)).foldl (fun g j => gAddFrom c g j i) g
          | none => g
        let g := ((g.internals.filter (fun (p : Nat × Nat) => p.1 == fnode)).map (fun (p : Nat × Nat) => p.2)).foldl
          (fun g j => if some j != currentInternal then gAddFrom c g j xnode else g) g
        let g := match currentInternal with
          | some i =>
            let g := (objectsOf g.fd.frm fnode).eraseDups.foldl (fun g fin => if xnode != fin || repeated then gAddFrom c g i fin else g) g
            match origin with
            | some o => if c.withWorkflowOrigin then g.add (.b i, .tf "origin", o) else g
            | none => g
          | none => g
        let g := match origin with
          | some o => if c.withWorkflowOrigin then g.add (.b cur, .tf "origin", o) else g
          | none => g
        .ok ({ s with g := g }, cur)

end Tfv
