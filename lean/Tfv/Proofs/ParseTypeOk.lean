import Tfv.Model.Parse
import Tfv.Spec.WellTyped
import Tfv.Proofs.InferInstantiate
/-!
# The type parser only produces well-formed terms

Every term `parse_type` returns respects the arities of the language, and its variables are
the ones created for `_`: numbers `varBase … varBase + nfresh - 1`. Needs a well-formed
language and well-formed alias bodies.
-/
namespace Tfv.C04P
open Tfv Tfv.C03P

/-! ## `okTermN` -/

mutual
theorem okTermN_mono {L : Lang} {k k' : Nat} (h : k ≤ k') : ∀ t, okTermN L k t = true → okTermN L k' t = true
  | .var v, ht => by
    unfold okTermN at ht ⊢
    have : v < k := by simpa using ht
    simp; omega
  | .app o args, ht => by
    unfold okTermN at ht ⊢
    simp only [Bool.and_eq_true] at ht ⊢
    exact ⟨ht.1, okTermNL_mono h args ht.2⟩
theorem okTermNL_mono {L : Lang} {k k' : Nat} (h : k ≤ k') : ∀ ts, okTermNL L k ts = true → okTermNL L k' ts = true
  | [], _ => by unfold okTermNL; rfl
  | t :: ts, ht => by
    unfold okTermNL at ht ⊢
    simp only [Bool.and_eq_true] at ht ⊢
    exact ⟨okTermN_mono h t ht.1, okTermNL_mono h ts ht.2⟩
end

theorem okTermNL_iff {L : Lang} {k : Nat} : ∀ ts, okTermNL L k ts = true ↔ ∀ t ∈ ts, okTermN L k t = true
  | [] => by unfold okTermNL; simp
  | t :: ts => by
    unfold okTermNL
    simp only [Bool.and_eq_true, List.mem_cons, forall_eq_or_imp, okTermNL_iff ts]

theorem okTermN_app {L : Lang} {k o : Nat} {args : List Term} :
    okTermN L k (.app o args) = true ↔ o < L.length ∧ args.length = arityOf L o ∧ ∀ t ∈ args, okTermN L k t = true := by
  have e : okTermN L k (.app o args) =
      (decide (o < L.length) && args.length == arityOf L o && okTermNL L k args) := by rw [okTermN]
  rw [e]
  simp only [Bool.and_eq_true, decide_eq_true_eq, beq_iff_eq, okTermNL_iff, and_assoc]

theorem okTermN_var {L : Lang} {k v : Nat} : okTermN L k (.var v) = true ↔ v < k := by
  unfold okTermN; simp

mutual
/-- a term over variables below `k` is a well-formed term of any store with at least `k` variables -/
theorem okTerm_of_okTermN {L : Lang} {σ : Store} {k : Nat} (h : k ≤ σ.vars.length) :
    ∀ t, okTermN L k t = true → okTerm L σ t = true
  | .var v, ht => by
    have := okTermN_var.mp ht
    exact okTerm_var.mpr (by omega)
  | .app o args, ht => by
    unfold okTermN at ht
    simp only [Bool.and_eq_true, decide_eq_true_eq, beq_iff_eq] at ht
    exact okTerm_app.mpr ⟨ht.1.1, ht.1.2, okTermL_of_okTermNL h args ht.2⟩
theorem okTermL_of_okTermNL {L : Lang} {σ : Store} {k : Nat} (h : k ≤ σ.vars.length) :
    ∀ ts, okTermNL L k ts = true → okTermL L σ ts = true
  | [], _ => okTermL_nil
  | t :: ts, ht => by
    rw [okTermNL, Bool.and_eq_true] at ht
    exact okTermL_cons.mpr ⟨okTerm_of_okTermN h t ht.1, okTermL_of_okTermNL h ts ht.2⟩
end

mutual
theorem substArgs_ok {L : Lang} {k : Nat} {args : List Term} (hargs : ∀ t ∈ args, okTermN L k t = true) :
    ∀ body, okTermN L args.length body = true → okTermN L k (body.substArgs args) = true
  | .var v, hb => by
    have hv := okTermN_var.mp hb
    rw [Term.substArgs]
    have e : args.getD v (.var v) = args[v] := by
      rw [List.getD_eq_getElem?_getD, List.getElem?_eq_getElem hv]; rfl
    rw [e]
    exact hargs _ (List.getElem_mem hv)
  | .app o as, hb => by
    unfold okTermN at hb
    simp only [Bool.and_eq_true, decide_eq_true_eq, beq_iff_eq] at hb
    rw [Term.substArgs]
    unfold okTermN
    simp only [Bool.and_eq_true, decide_eq_true_eq, beq_iff_eq]
    exact ⟨⟨hb.1.1, by rw [length_substArgsL]; exact hb.1.2⟩, substArgsL_ok hargs as hb.2⟩
theorem substArgsL_ok {L : Lang} {k : Nat} {args : List Term} (hargs : ∀ t ∈ args, okTermN L k t = true) :
    ∀ ts, okTermNL L args.length ts = true → okTermNL L k (Term.substArgsL args ts) = true
  | [], _ => by rw [Term.substArgsL]; unfold okTermNL; rfl
  | t :: ts, ht => by
    rw [okTermNL, Bool.and_eq_true] at ht
    rw [Term.substArgsL, okTermNL, Bool.and_eq_true]
    exact ⟨substArgs_ok hargs t ht.1, substArgsL_ok hargs ts ht.2⟩
theorem length_substArgsL {args : List Term} : ∀ ts, (Term.substArgsL args ts).length = ts.length
  | [] => by rw [Term.substArgsL]
  | t :: ts => by rw [Term.substArgsL]; simp [length_substArgsL ts]
end

/-! ## stack items -/

/-- a stack item is fine: types are well formed over the variables below `k`, operators exist -/
def itemOk (P : PLang) (k : Nat) : TItem → Prop
  | .ty t => okTermN P.types k t = true
  | .op o => o < P.types.length
  | _ => True

def itemsOk (P : PLang) (k : Nat) (st : List TItem) : Prop := ∀ it ∈ st, itemOk P k it

def termsOk (P : PLang) (k : Nat) (ts : List Term) : Prop := ∀ t ∈ ts, okTermN P.types k t = true

theorem itemOk_mono {P : PLang} {k k' : Nat} (h : k ≤ k') {it : TItem} (hi : itemOk P k it) : itemOk P k' it := by
  cases it with
  | ty t => exact okTermN_mono h t hi
  | op o => exact hi
  | mark => trivial
  | alias a => trivial

theorem itemsOk_mono {P : PLang} {k k' : Nat} (h : k ≤ k') {st : List TItem} (hi : itemsOk P k st) :
    itemsOk P k' st := fun it hit => itemOk_mono h (hi it hit)

theorem itemsOk_cons {P : PLang} {k : Nat} {it : TItem} {st : List TItem} :
    itemsOk P k (it :: st) ↔ itemOk P k it ∧ itemsOk P k st := by
  simp [itemsOk]

theorem termsOk_append {P : PLang} {k : Nat} {ts : List Term} {t : Term}
    (h : termsOk P k ts) (ht : okTermN P.types k t = true) : termsOk P k (ts ++ [t]) := by
  intro x hx
  rcases List.mem_append.mp hx with h1 | h1
  · exact h x h1
  · rw [List.mem_singleton] at h1; subst h1; exact ht

theorem termsOk_nil {P : PLang} {k : Nat} : termsOk P k [] := fun _ h => by cases h

theorem termsOk_single {P : PLang} {k : Nat} {t : Term} (ht : okTermN P.types k t = true) : termsOk P k [t] := by
  intro x hx; rw [List.mem_singleton] at hx; subst hx; exact ht

theorem applyItem_ok {P : PLang} (ha : AliasesOk P) {k : Nat} {it : TItem} {args : List Term} {t : Term}
    (hi : itemOk P k it) (hargs : termsOk P k args) (h : applyItem P it args = .ok t) :
    okTermN P.types k t = true := by
  unfold applyItem at h
  split at h
  · rename_i o
    split at h
    · rename_i hlen
      cases h
      exact okTermN_app.mpr ⟨hi, by simpa using hlen, hargs⟩
    · cases h
  · rename_i j
    split at h
    · rename_i a hj
      split at h
      · rename_i hlen
        cases h
        have hlen : args.length = a.arity := by simpa using hlen
        have hb := ha a (List.mem_of_getElem? hj)
        rw [← hlen] at hb
        exact substArgs_ok hargs a.body hb
      · cases h
    · cases h
  · cases h

theorem backtrack_itemsOk {P : PLang} (ha : AliasesOk P) {k : Nat} :
    ∀ (st : List TItem) (args : List Term) (st' : List TItem),
      itemsOk P k st → termsOk P k args → backtrack P st args = .ok st' → itemsOk P k st' := by
  intro st args
  fun_induction backtrack P st args
  case case1 => intro st' _ _ h; cases h
  case case2 rest a =>
    intro st' hs hargs h
    cases h
    exact itemsOk_cons.mpr ⟨hargs a (List.mem_singleton.mpr rfl), (itemsOk_cons.mp hs).2⟩
  case case3 => intro st' _ _ h; cases h
  case case4 t rest args ih =>
    intro st' hs hargs h
    exact ih st' (itemsOk_cons.mp hs).2 (termsOk_append hargs (itemsOk_cons.mp hs).1) h
  case case5 => intro st' _ _ h; cases h
  case case6 it rest args _ _ t happ ih =>
    intro st' hs hargs h
    have ht := applyItem_ok ha (itemsOk_cons.mp hs).1
      (fun x hx => hargs x (List.mem_reverse.mp hx)) happ
    exact ih st' (itemsOk_cons.mp hs).2 (termsOk_single ht) h

theorem applyOperator_itemsOk {P : PLang} (ha : AliasesOk P) {k : Nat} :
    ∀ (st : List TItem) (args : List Term) (st' : List TItem),
      itemsOk P k st → termsOk P k args → applyOperator P st args = .ok st' → itemsOk P k st' := by
  intro st args
  fun_induction applyOperator P st args
  case case1 t rest args ih =>
    intro st' hs hargs h
    exact ih st' (itemsOk_cons.mp hs).2 (termsOk_append hargs (itemsOk_cons.mp hs).1) h
  case case2 => intro st' _ _ h; cases h
  case case3 it rest args _ _ t happ =>
    intro st' hs hargs h
    cases h
    have ht := applyItem_ok ha (itemsOk_cons.mp hs).1
      (fun x hx => hargs x (List.mem_reverse.mp hx)) happ
    exact itemsOk_cons.mpr ⟨ht, (itemsOk_cons.mp hs).2⟩
  case case4 => intro st' _ _ h; cases h
  case case5 => intro st' _ _ h; cases h

theorem resolveTypeToken_ok {P : PLang} (wf : WF P.types) (ha : AliasesOk P) {k : Nat} {tok : String} {it : TItem}
    (h : resolveTypeToken P tok = .ok it) : itemOk P k it := by
  have h5 := length_ge_five wf
  unfold resolveTypeToken at h
  split at h
  · cases h
    exact okTermN_app.mpr ⟨by unfold TOP; omega, by rw [arity_top wf]; rfl, fun _ hx => by cases hx⟩
  · split at h
    · cases h
      exact okTermN_app.mpr ⟨by unfold BOT; omega, by rw [arity_bot wf]; rfl, fun _ hx => by cases hx⟩
    · split at h
      · rename_i i hi
        have hlt : i < (P.types.drop 5).length := (List.findIdx?_eq_some_iff_findIdx_eq.mp hi).1
        have hlt' : i + 5 < P.types.length := by rw [List.length_drop] at hlt; omega
        cases h
        split
        · rename_i h0
          exact okTermN_app.mpr ⟨hlt', by simpa using (beq_iff_eq.mp h0).symm, fun _ hx => by cases hx⟩
        · exact hlt'
      · split at h
        · split at h
          · rename_i j a hj
            cases h
            split
            · rename_i h0
              have hb := ha a (List.mem_of_getElem? hj)
              rw [beq_iff_eq.mp h0] at hb
              exact okTermN_mono (Nat.zero_le k) _ hb
            · trivial
          · cases h
        · cases h

theorem typeStep_ok {P : PLang} (wf : WF P.types) (ha : AliasesOk P) {vb : Nat} {s s' : TState} {tok : String}
    (hs : itemsOk P (vb + s.fresh) s.stack) (h : typeStep P vb s tok = .ok s') :
    itemsOk P (vb + s'.fresh) s'.stack := by
  unfold typeStep at h
  split at h
  · split at h
    · cases h; exact itemsOk_cons.mpr ⟨trivial, hs⟩
    · cases h
  · split at h
    · split at h
      · cases h
      · rename_i st hbt
        have hst := backtrack_itemsOk ha _ _ _ hs termsOk_nil hbt
        split at h
        · split at h
          · split at h
            · cases h
            · rename_i st2 hap
              cases h
              exact applyOperator_itemsOk ha _ _ _ hst termsOk_nil hap
          · cases h; exact hst
          · cases h; exact hst
        · cases h; exact itemsOk_cons.mpr ⟨trivial, hst⟩
    · split at h
      · cases h
        refine itemsOk_cons.mpr ⟨okTermN_var.mpr (by simp only; omega), itemsOk_mono (by simp only; omega) hs⟩
      · split at h
        · split at h
          · rename_i t1 rest hst
            cases h
            rw [hst] at hs
            have h5 := length_ge_five wf
            exact itemsOk_cons.mpr ⟨(itemsOk_cons.mp hs).1,
              itemsOk_cons.mpr ⟨by show PROD < _; unfold PROD; omega, (itemsOk_cons.mp hs).2⟩⟩
          · cases h
          · cases h
        · split at h
          · cases h
          · rename_i it hit
            cases h
            exact itemsOk_cons.mpr ⟨resolveTypeToken_ok wf ha hit, hs⟩

theorem typeFinish_ok {P : PLang} (ha : AliasesOk P) {vb : Nat} {s : TState} {t : Term} {k : Nat}
    (hs : itemsOk P (vb + s.fresh) s.stack) (h : typeFinish P s = .ok (t, k)) :
    okTermN P.types (vb + k) t = true := by
  unfold typeFinish at h
  split at h
  · cases h
  · rename_i t' hbt
    cases h
    have := backtrack_itemsOk ha _ _ _ hs termsOk_nil hbt
    exact (itemsOk_cons.mp this).1
  · cases h

theorem parseTypeLoop_ok {P : PLang} (wf : WF P.types) (ha : AliasesOk P) (c : Bool) (vb : Nat) :
    ∀ (s : TState) (toks : List String) (t : Term) (k : Nat) (rest : List String),
      itemsOk P (vb + s.fresh) s.stack → parseTypeLoop P c vb s toks = .ok (t, k, rest) →
      okTermN P.types (vb + k) t = true := by
  intro s toks
  fun_induction parseTypeLoop P c vb s toks
  case case1 => intro t k rest _ h; cases h
  case case2 s t' k' hf =>
    intro t k rest hs h
    cases h
    exact typeFinish_ok ha hs hf
  case case3 ih => intro t k rest hs h; exact ih t k rest hs h
  case case4 ih => intro t k rest hs h; exact ih t k rest hs h
  case case5 ih => intro t k rest hs h; exact ih t k rest hs h
  case case6 => intro t k rest _ h; cases h
  case case7 s tok rest' _ _ _ s' hstep _ ih =>
    intro t k rest hs h; exact ih t k rest (typeStep_ok wf ha hs hstep) h
  case case8 => intro t k rest _ h; cases h
  case case9 => intro t k rest _ h; cases h
  case case10 s tok rest' _ _ _ s' hstep _ _ t' k' hf =>
    intro t k rest hs h
    cases h
    exact typeFinish_ok ha (typeStep_ok wf ha hs hstep) hf
  case case11 s tok rest' _ _ _ s' hstep _ _ ih =>
    intro t k rest hs h; exact ih t k rest (typeStep_ok wf ha hs hstep) h

/-- an annotation parsed from the initial parser state: the term is well formed over the
variables below `varBase + nfresh` -/
theorem parseTypeLoop_init_ok {P : PLang} (wf : WF P.types) (ha : AliasesOk P) {c : Bool} {vb : Nat}
    {toks rest : List String} {t : Term} {k : Nat}
    (h : parseTypeLoop P c vb {} toks = .ok (t, k, rest)) : okTermN P.types (vb + k) t = true :=
  parseTypeLoop_ok wf ha c vb {} toks t k rest
    (fun it hit => by rw [List.mem_singleton] at hit; subst hit; trivial) h

end Tfv.C04P
