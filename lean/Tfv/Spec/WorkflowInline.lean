import Tfv.Model.Workflow
/-!
# Specification for C12 (main clause) — the inlined expression of a workflow resource

`T` is a table resource ↦ expression as `add_workflow` keeps it: a source of the workflow has a `.src`, a tool output
`r` has `.shared r e` where `e` is the tool's own expression in which every numbered input is the (tagged) expression of
the resource it denotes. Two readings of "the single expression in which every tool input is replaced by the expression
of the tool that produced it":

* `inlineS T n r` — sharing aware: the tree of resource `r` in which every tagged sub-expression `.shared k _` is
  (recursively) the table's *current* entry for `k`. All copies of a resource are equal trees in it.
* `inlineT T n r` — the plain tree: the same without any `.shared` tag (`TExpr.untag`).

`n` is fuel (structural recursion): a value larger than the height of the result is enough, `inlineE` stops rewriting
when it runs out.
-/
namespace Tfv

/-- drop every `.shared` tag -/
def TExpr.untag : TExpr → TExpr
  | .src i l t => .src i l t
  | .op n t => .op n t
  | .app f x t => .app f.untag x.untag t
  | .shared _ e => e.untag

/-- table lookup (`dict.get`) -/
def tlook (T : List (Nat × TExpr)) (k : Nat) : Option TExpr := (T.find? (fun p => p.1 == k)).map (·.2)

/-- the body of the table's entry for tag `k`, or the given body when the table has no tagged entry for `k` -/
def entryBody (T : List (Nat × TExpr)) (k : Nat) (e : TExpr) : TExpr :=
  match tlook T k with
  | some (.shared _ e') => e'
  | _ => e

/-- replace, top down, the body of every tagged sub-expression by the body of the table's entry for its tag -/
def inlineE (T : List (Nat × TExpr)) : Nat → TExpr → TExpr
  | 0, e => e
  | _+1, .src i l t => .src i l t
  | _+1, .op n t => .op n t
  | n+1, .app f x t => .app (inlineE T n f) (inlineE T n x) t
  | n+1, .shared k e => .shared k (inlineE T n (entryBody T k e))

/-- the sharing-aware inlined expression of resource `r` -/
def inlineS (T : List (Nat × TExpr)) (n : Nat) (r : Nat) : Option TExpr := (tlook T r).map (inlineE T n)

/-- the plain inlined expression of resource `r`: a tree without tags, a producer's expression substituted at every
consumption -/
def inlineT (T : List (Nat × TExpr)) (n : Nat) (r : Nat) : Option TExpr := (inlineS T n r).map TExpr.untag

/-- all tagged sub-expressions (tag, body), outermost first -/
def TExpr.tagged : TExpr → List (Nat × TExpr)
  | .src _ _ _ => []
  | .op _ _ => []
  | .app f x _ => f.tagged ++ x.tagged
  | .shared k e => (k, e) :: e.tagged

/-- two expressions that `add_expr` cannot tell apart when the tags in `R` already have nodes: equal outside tagged
sub-expressions; a tagged sub-expression with a tag in `R` may have any body; an argument has the same function-ness on
both sides (an application node's own type is not read by `add_expr`) -/
def CutEq (R : Nat → Prop) : TExpr → TExpr → Prop
  | .src i l t, .src i' l' t' => i = i' ∧ l = l' ∧ t = t'
  | .op n t, .op n' t' => n = n' ∧ t = t'
  | .app f x _, .app f' x' _ => CutEq R f f' ∧ CutEq R x x' ∧ x.ty.isFunction = x'.ty.isFunction
  | .shared k e, .shared k' e' => k = k' ∧ (R k ∨ CutEq R e e')
  | _, _ => False

/-- the copies of a resource inside the table agree with the table's entry on whether they are functions (the only
thing `add_expr` reads from an argument's type before it looks the argument up) -/
def TyCoh (T : List (Nat × TExpr)) : Prop :=
  ∀ p ∈ T, ∀ x ∈ p.2.tagged, ∃ e', tlook T x.1 = some e' ∧ e'.ty.isFunction = x.2.ty.isFunction

/-- `TyCoh` as a program -/
def tyCohB (T : List (Nat × TExpr)) : Bool :=
  T.all (fun p => p.2.tagged.all (fun x =>
    match tlook T x.1 with
    | some e' => e'.ty.isFunction == x.2.ty.isFunction
    | none => false))

end Tfv
