import Tfv.Proofs.HistoryConstrBase
import Tfv.Proofs.SchedMatchK
/-!
# History independence in the shift form WITH constraints (C16), part 2: the reading primitives

`followT`, `match3`, `occurs`, `directVars` on a store behind a history, applied to shifted terms, give the shifted
results of their counterparts with fuel offsets (`followTE`, `match3E`, …, Spec/HistoryShiftConstr.lean) on the store
itself. No hypothesis on either store: an unallocated variable reads as the default record on both sides.
-/
namespace Tfv.C16H
open Tfv Tfv.C03P Tfv.C16P Tfv.C03C Tfv.C16C Tfv.C18P

theorem beq_add_right (a b k : Nat) : (a + k == b + k) = (a == b) := by
  rw [Bool.eq_iff_iff]; simp

/-! ## 1. shifted constraint sets -/

theorem mem_shiftIds {m x : Nat} {l : List Nat} : x ∈ shiftIds m l ↔ ∃ y, y ∈ l ∧ x = y + m := by
  unfold shiftIds
  simp only [List.mem_map]
  constructor
  · rintro ⟨y, hy, e⟩; exact ⟨y, hy, e.symm⟩
  · rintro ⟨y, hy, e⟩; exact ⟨y, hy, e.symm⟩

theorem shiftIds_nil (m : Nat) : shiftIds m [] = [] := rfl
theorem shiftIds_cons (m x : Nat) (l : List Nat) : shiftIds m (x :: l) = (x + m) :: shiftIds m l := rfl

theorem insertSorted_shift (m c : Nat) : ∀ (l : List Nat),
    insertSorted (c + m) (shiftIds m l) = shiftIds m (insertSorted c l)
  | [] => rfl
  | x :: xs => by
    rw [shiftIds_cons, insertSorted, insertSorted]
    by_cases h1 : c < x
    · have h1' : c + m < x + m := by omega
      simp only [h1, h1', if_true, shiftIds_cons]
    · have h1' : ¬ c + m < x + m := by omega
      simp only [h1, h1', if_false]
      by_cases h2 : c = x
      · subst h2
        simp only [beq_self_eq_true, if_true, shiftIds_cons]
      · have h2' : ¬ c + m = x + m := by omega
        have e1 : (c == x) = false := by simpa using h2
        have e2 : (c + m == x + m) = false := by simpa using h2'
        simp only [e1, e2, Bool.false_eq_true, if_false, shiftIds_cons, insertSorted_shift m c xs]

theorem unionSorted_shift (m : Nat) : ∀ (b a : List Nat),
    unionSorted (shiftIds m a) (shiftIds m b) = shiftIds m (unionSorted a b)
  | [], a => rfl
  | y :: ys, a => by
    unfold unionSorted
    rw [shiftIds_cons]
    simp only [List.foldl_cons]
    rw [insertSorted_shift]
    exact unionSorted_shift m ys (insertSorted y a)

theorem filter_ne_shift (m c : Nat) : ∀ (l : List Nat),
    (shiftIds m l).filter (· != c + m) = shiftIds m (l.filter (· != c))
  | [] => rfl
  | x :: xs => by
    rw [shiftIds_cons, List.filter_cons, List.filter_cons, filter_ne_shift m c xs]
    by_cases h : x = c
    · subst h; simp
    · have h' : ¬ x + m = c + m := by omega
      have e1 : (x != c) = true := by simpa using h
      have e2 : (x + m != c + m) = true := by simpa using h'
      simp only [e1, e2, if_true, shiftIds_cons]

/-! ## 2. `followT` -/

theorem follow_appendC (σ₀ σ : Store) (n : Nat) (t : Term) :
    follow (σ₀.appendC σ) n (t.shift σ₀.vars.length) = (follow σ n t).shift σ₀.vars.length :=
  follow_shift (fun v => (getVar_appendC_core σ₀ σ v).1) n t

theorem followT_appendC (σ₀ σ : Store) (t : Term) :
    followT (σ₀.appendC σ) (t.shift σ₀.vars.length) = (followTE σ₀.vars.length σ t).shift σ₀.vars.length := by
  unfold followT followTE
  rw [follow_appendC, vlen_appendC]
  have e : σ₀.vars.length + σ.vars.length + 1 = σ.vars.length + σ₀.vars.length + 1 := by omega
  rw [e]

theorem matchFuel_appendC (σ₀ σ : Store) : matchFuel (σ₀.appendC σ) = matchFuelE σ₀.vars.length σ := by
  unfold matchFuel matchFuelE; rw [vlen_appendC]; omega

theorem termFuel_appendC (σ₀ σ : Store) : termFuel (σ₀.appendC σ) = termFuelE σ₀.vars.length σ := by
  unfold termFuel termFuelE; rw [vlen_appendC]; omega

/-! ## 3. `match3` -/

theorem loop_shift {k : Nat} {f g : Term → Term → Option Bool}
    (h : ∀ s t, f (s.shift k) (t.shift k) = g s t) :
    ∀ (vs : List Bool) (ss ts : List Term) (acc : Option Bool),
      loopK f vs (Term.shiftL k ss) (Term.shiftL k ts) acc = loopE g vs ss ts acc
  | [], _, _, _ => by rw [loopK, loopE] <;> (intros; simp_all)
  | _ :: _, [], _, _ => by rw [shiftL_nil, loopK, loopE] <;> (intros; simp_all)
  | _ :: _, _ :: _, [], _ => by rw [shiftL_nil, loopK, loopE] <;> (intros; simp_all)
  | v :: vs, s :: ss, t :: ts, acc => by
    rw [shiftL_cons, shiftL_cons, loopK, loopE]
    simp only [h, loop_shift h vs ss ts]
    rfl

theorem match3K_appendC (L : Lang) (σ₀ σ : Store) : ∀ (n : Nat) (st aw : Bool) (a b : Term),
    match3K L (σ₀.appendC σ) n st aw (a.shift σ₀.vars.length) (b.shift σ₀.vars.length) =
      match3E L σ₀.vars.length σ n st aw a b
  | 0, _, _, _, _ => by rw [match3K, match3E]
  | n+1, st, aw, a, b => by
    rw [match3K, match3E, followT_appendC, followT_appendC]
    cases followTE σ₀.vars.length σ a with
    | var av =>
      cases followTE σ₀.vars.length σ b with
      | var bv =>
        simp only [shift_var, (getVar_appendC_core σ₀ σ av).2.1, (getVar_appendC_core σ₀ σ av).2.2.2,
          (getVar_appendC_core σ₀ σ bv).2.2.1, (getVar_appendC_core σ₀ σ bv).2.2.2]
        rw [beq_add_right]
        rfl
      | app bo bs =>
        simp only [shift_var, shift_app, (getVar_appendC_core σ₀ σ av).2.1, (getVar_appendC_core σ₀ σ av).2.2.2,
          (getVar_appendC_core σ₀ σ av).2.2.1]
    | app ao as =>
      cases followTE σ₀.vars.length σ b with
      | var bv =>
        simp only [shift_var, shift_app, (getVar_appendC_core σ₀ σ bv).2.1, (getVar_appendC_core σ₀ σ bv).2.2.2,
          (getVar_appendC_core σ₀ σ bv).2.2.1]
      | app bo bs =>
        simp only [shift_app]
        rw [loop_shift (fun s t => match3K_appendC L σ₀ σ n st aw s t)]

theorem match3_appendC (L : Lang) (σ₀ σ : Store) (n : Nat) (st aw : Bool) (a b : Term) :
    match3 L (σ₀.appendC σ) n st aw (a.shift σ₀.vars.length) (b.shift σ₀.vars.length) =
      match3E L σ₀.vars.length σ n st aw a b := by
  rw [← match3K_eq, match3K_appendC]

/-! ## 4. `occurs` -/

theorem any_shiftL {k : Nat} {f g : Term → Bool} (h : ∀ t, f (t.shift k) = g t) :
    ∀ ts : List Term, (Term.shiftL k ts).any f = ts.any g
  | [] => by rw [shiftL_nil]; rfl
  | t :: ts => by rw [shiftL_cons, List.any_cons, List.any_cons, h t, any_shiftL h ts]

theorem occurs_appendC (L : Lang) (σ₀ σ : Store) : ∀ (n : Nat) (a b : Term),
    occurs L (σ₀.appendC σ) n (a.shift σ₀.vars.length) (b.shift σ₀.vars.length) =
      occursE L σ₀.vars.length σ n a b
  | 0, _, _ => by rw [occurs, occursE]
  | n+1, a, b => by
    rw [occurs, occursE, followT_appendC, followT_appendC, matchFuel_appendC]
    simp only [match3_appendC]
    cases ea : followTE σ₀.vars.length σ a with
    | var av =>
      cases eb : followTE σ₀.vars.length σ b with
      | var bv =>
        simp only [shift_var, beq_add_right]
      | app bo bs =>
        simp only [shift_var, shift_app]
    | app ao as =>
      have key : ∀ b' : Term, (Term.shiftL σ₀.vars.length as).any
            (fun t => occurs L (σ₀.appendC σ) n t (b'.shift σ₀.vars.length)) =
          as.any (fun t => occursE L σ₀.vars.length σ n t b') :=
        fun b' => any_shiftL (fun t => occurs_appendC L σ₀ σ n t b') as
      cases eb : followTE σ₀.vars.length σ b with
      | var bv =>
        have k1 := key (.var bv)
        simp only [shift_var] at k1
        simp only [shift_var, shift_app, k1]
      | app bo bs =>
        have k1 := key (.app bo bs)
        simp only [shift_app] at k1
        simp only [shift_app, k1]

/-! ## 5. the region behind the history -/

/-- everything behind the history: variables, constraint sets and constraints with an index at least its sizes -/
def beyond (σ₀ : Store) : Region :=
  ⟨fun v => σ₀.vars.length ≤ v, fun k => σ₀.csets.length ≤ k, fun c => σ₀.constrs.length ≤ c⟩

/-- the part behind the history is closed: the hypothesis under which the engine is run behind `σ₀` -/
abbrev Behind (σ₀ σ : Store) : Prop := ClosedC (σ₀.appendC σ) (beyond σ₀)

theorem inB_iff {σ₀ σ : Store} {v : Nat} :
    InStore (σ₀.appendC σ) (beyond σ₀).S (v + σ₀.vars.length) ↔ v < σ.vars.length := by
  unfold InStore beyond
  rw [vlen_appendC]
  constructor
  · intro h; omega
  · intro h; exact ⟨by omega, by omega⟩

theorem inB_of {σ₀ σ : Store} {x : Nat} (h : InStore (σ₀.appendC σ) (beyond σ₀).S x) :
    ∃ v, x = v + σ₀.vars.length ∧ v < σ.vars.length := by
  have h1 : σ₀.vars.length ≤ x := h.1
  have h2 := h.2
  rw [vlen_appendC] at h2
  exact ⟨x - σ₀.vars.length, by omega, by omega⟩

theorem shiftL_eq_map (k : Nat) : ∀ ts : List Term, Term.shiftL k ts = ts.map (Term.shift k)
  | [] => by rw [shiftL_nil]; rfl
  | t :: ts => by rw [shiftL_cons, shiftL_eq_map k ts]; rfl

theorem mem_shiftL {k : Nat} {u : Term} {ts : List Term} :
    u ∈ Term.shiftL k ts ↔ ∃ t, t ∈ ts ∧ u = t.shift k := by
  rw [shiftL_eq_map, List.mem_map]
  constructor
  · rintro ⟨t, ht, e⟩; exact ⟨t, ht, e.symm⟩
  · rintro ⟨t, ht, e⟩; exact ⟨t, ht, e.symm⟩

theorem varIn_shift_mk {k v : Nat} {t : Term} (h : VarIn v t) : VarIn (v + k) (t.shift k) := by
  induction h with
  | var => rw [shift_var]; exact VarIn.var
  | @app o args u hm _ ih => rw [shift_app]; exact VarIn.app (mem_shiftL.mpr ⟨u, hm, rfl⟩) ih

/-- a shifted term is over the part behind the history iff the term is over allocated variables -/
theorem termInB_iff {σ₀ σ : Store} {t : Term} :
    TermInR (σ₀.appendC σ) (beyond σ₀).S (t.shift σ₀.vars.length) ↔ TermScoped σ t := by
  constructor
  · intro h v hv
    exact inB_iff.mp (h _ (varIn_shift_mk hv))
  · intro h x hx
    obtain ⟨w, hw, e⟩ := varIn_shift t hx
    subst e
    exact inB_iff.mpr (h w hw)

theorem termsInB_iff {σ₀ σ : Store} {ts : List Term} :
    TermsInR (σ₀.appendC σ) (beyond σ₀).S (Term.shiftL σ₀.vars.length ts) ↔ ∀ t, t ∈ ts → TermScoped σ t := by
  constructor
  · intro h t ht
    exact termInB_iff.mp (h _ (mem_shiftL.mpr ⟨t, ht, rfl⟩))
  · intro h u hu
    obtain ⟨t, ht, e⟩ := mem_shiftL.mp hu
    subst e
    exact termInB_iff.mpr (h t ht)

/-! ## 6. `directVars` -/

theorem shiftIds_append (m : Nat) (a b : List Nat) : shiftIds m (a ++ b) = shiftIds m a ++ shiftIds m b := by
  unfold shiftIds; simp

theorem contains_shiftIds (m v : Nat) : ∀ (l : List Nat), (shiftIds m l).contains (v + m) = l.contains v
  | [] => rfl
  | x :: xs => by
    rw [shiftIds_cons, List.contains_cons, List.contains_cons, contains_shiftIds m v xs, beq_add_right]

theorem directVars_appendC (σ₀ σ : Store) : ∀ (n : Nat) (t : Term) (acc : List Nat),
    directVars (σ₀.appendC σ) n (t.shift σ₀.vars.length) (shiftIds σ₀.vars.length acc) =
      shiftIds σ₀.vars.length (directVarsE σ₀.vars.length σ n t acc)
  | 0, _, _ => by rw [directVars, directVarsE]
  | n+1, t, acc => by
    rw [directVars, directVarsE, followT_appendC]
    cases followTE σ₀.vars.length σ t with
    | var v =>
      simp only [shift_var, contains_shiftIds]
      split
      · rfl
      · rw [shiftIds_append]; rfl
    | app o args =>
      simp only [shift_app]
      have key : ∀ (ts : List Term) (acc : List Nat),
          (Term.shiftL σ₀.vars.length ts).foldl (fun acc t => directVars (σ₀.appendC σ) n t acc)
              (shiftIds σ₀.vars.length acc) =
            shiftIds σ₀.vars.length (ts.foldl (fun acc t => directVarsE σ₀.vars.length σ n t acc) acc) := by
        intro ts
        induction ts with
        | nil => intro acc; rw [shiftL_nil]; rfl
        | cons u us ih =>
          intro acc
          rw [shiftL_cons, List.foldl_cons, List.foldl_cons, directVars_appendC σ₀ σ n u acc, ih]
      exact key args acc

theorem foldl_directVars_appendC (σ₀ σ : Store) (n : Nat) : ∀ (ts : List Term) (acc : List Nat),
    (Term.shiftL σ₀.vars.length ts).foldl (fun acc t => directVars (σ₀.appendC σ) n t acc)
        (shiftIds σ₀.vars.length acc) =
      shiftIds σ₀.vars.length (ts.foldl (fun acc t => directVarsE σ₀.vars.length σ n t acc) acc)
  | [], acc => by rw [shiftL_nil]; rfl
  | u :: us, acc => by
    rw [shiftL_cons, List.foldl_cons, List.foldl_cons, directVars_appendC, foldl_directVars_appendC σ₀ σ n us]

theorem foldl_directVars_appendC_nil (σ₀ σ : Store) (n : Nat) (ts : List Term) :
    (Term.shiftL σ₀.vars.length ts).foldl (fun acc t => directVars (σ₀.appendC σ) n t acc) [] =
      shiftIds σ₀.vars.length (ts.foldl (fun acc t => directVarsE σ₀.vars.length σ n t acc) []) :=
  foldl_directVars_appendC σ₀ σ n ts []

/-! ## 7. the closure over constraints (`variables(indirect=True)`) -/

theorem constrTerms_shift (k : Nat) (x : Constr) : constrTerms (x.shift k) = Term.shiftL k (constrTerms x) := by
  cases x with
  | sub r t s f => simp only [Constr.shift, constrTerms, shiftL_cons, shiftL_nil]
  | elim r alts f => simp only [Constr.shift, constrTerms, shiftL_cons]

/-- the constraint set of an allocated variable behind the history holds allocated constraints -/
theorem Behind.cset_lt {σ₀ σ : Store} (hc : Behind σ₀ σ) {v : Nat} (hv : v < σ.vars.length) :
    ∀ c, c ∈ getCset σ (getVar σ v).cset → c < σ.constrs.length := by
  intro c hm
  have hin := (inB_iff (σ₀ := σ₀)).mpr hv
  have hk := hc.cs _ hin.2 hin.1
  have := (hc.mem _ (c + σ₀.constrs.length) hk (by
    rw [getVar_appendC_ge hv, shiftI_cset, getCset_appendC]
    exact mem_shiftIds.mpr ⟨c, hm, rfl⟩)).2
  rw [clen_appendC] at this
  omega

theorem getCsetOf_appendC {σ₀ σ : Store} {v : Nat} (hv : v < σ.vars.length) :
    getCset (σ₀.appendC σ) (getVar (σ₀.appendC σ) (v + σ₀.vars.length)).cset =
      shiftIds σ₀.constrs.length (getCset σ (getVar σ v).cset) := by
  rw [getVar_appendC_ge hv, shiftI_cset, getCset_appendC]

theorem foldl_constrVars_appendC (σ₀ σ : Store) (n : Nat) : ∀ (cs : List Nat) (acc : List Nat),
    (∀ c, c ∈ cs → c < σ.constrs.length) →
    (shiftIds σ₀.constrs.length cs).foldl (fun acc c =>
        (constrTerms (getConstr (σ₀.appendC σ) c)).foldl (fun acc t => directVars (σ₀.appendC σ) n t acc) acc)
        (shiftIds σ₀.vars.length acc) =
      shiftIds σ₀.vars.length (cs.foldl (fun acc c =>
        (constrTerms (getConstr σ c)).foldl (fun acc t => directVarsE σ₀.vars.length σ n t acc) acc) acc)
  | [], acc, _ => rfl
  | c :: cs, acc, h => by
    rw [shiftIds_cons, List.foldl_cons, List.foldl_cons, getConstr_appendC (h c List.mem_cons_self),
      constrTerms_shift, foldl_directVars_appendC]
    exact foldl_constrVars_appendC σ₀ σ n cs _ (fun d hd => h d (List.mem_cons_of_mem _ hd))

theorem filter_notin_shift (m : Nat) (seen : List Nat) : ∀ (l : List Nat),
    (shiftIds m l).filter (fun x => !(shiftIds m seen).contains x) =
      shiftIds m (l.filter (fun x => !seen.contains x))
  | [] => rfl
  | x :: xs => by
    rw [shiftIds_cons, List.filter_cons, List.filter_cons, contains_shiftIds, filter_notin_shift m seen xs]
    split
    · rw [shiftIds_cons]
    · rfl

theorem indirectVars_appendC {σ₀ σ : Store} (hc : Behind σ₀ σ) : ∀ (n : Nat) (work seen : List Nat),
    (∀ x, x ∈ work → x < σ.vars.length) → (∀ x, x ∈ seen → x < σ.vars.length) →
    indirectVars (σ₀.appendC σ) n (shiftIds σ₀.vars.length work) (shiftIds σ₀.vars.length seen) =
      shiftIds σ₀.vars.length (indirectVarsE σ₀.vars.length σ n work seen)
  | 0, _, _, _, _ => by unfold indirectVars indirectVarsE; rfl
  | n+1, [], _, _, _ => by unfold indirectVars indirectVarsE; rfl
  | n+1, v :: work, seen, hwork, hseen => by
    have hv := hwork v List.mem_cons_self
    have hmem := hc.cset_lt hv
    have hfound : ∀ x, x ∈ (getCset σ (getVar σ v).cset).foldl (fun acc c =>
        (constrTerms (getConstr σ c)).foldl
          (fun acc t => directVarsE σ₀.vars.length σ (termFuelE σ₀.vars.length σ) t acc) acc) seen →
        x < σ.vars.length := by
      intro x hx
      have h1 := foldl_constrVars_in hc (termFuel (σ₀.appendC σ))
        (shiftIds σ₀.constrs.length (getCset σ (getVar σ v).cset)) (shiftIds σ₀.vars.length seen)
        (fun c hcm => by
          obtain ⟨c0, hc0, e⟩ := mem_shiftIds.mp hcm
          subst e
          refine ⟨Nat.le_add_left _ _, ?_⟩
          rw [clen_appendC]
          have := hmem c0 hc0
          omega)
        (fun y hy => by
          obtain ⟨y0, hy0, e⟩ := mem_shiftIds.mp hy
          subst e
          exact inB_iff.mpr (hseen y0 hy0))
        (x + σ₀.vars.length) (by
          rw [termFuel_appendC, foldl_constrVars_appendC σ₀ σ _ _ _ hmem]
          exact mem_shiftIds.mpr ⟨x, hx, rfl⟩)
      exact inB_iff.mp h1
    rw [shiftIds_cons]
    unfold indirectVars indirectVarsE
    simp only []
    rw [getCsetOf_appendC hv, termFuel_appendC, foldl_constrVars_appendC σ₀ σ _ _ _ hmem, filter_notin_shift,
      ← shiftIds_append]
    refine indirectVars_appendC hc n _ _ (fun x hx => ?_) hfound
    rcases List.mem_append.mp hx with h1 | h1
    · exact hwork x (List.mem_cons_of_mem _ h1)
    · exact hfound x (List.mem_filter.mp h1).1

theorem varsOfTerms_appendC {σ₀ σ : Store} (hc : Behind σ₀ σ) {ts : List Term}
    (hts : ∀ t, t ∈ ts → TermScoped σ t) :
    varsOfTerms (σ₀.appendC σ) (Term.shiftL σ₀.vars.length ts) =
      shiftIds σ₀.vars.length (varsOfTermsE σ₀.vars.length σ₀.constrs.length σ ts) := by
  unfold varsOfTerms varsOfTermsE
  simp only []
  have hd : ∀ x, x ∈ ts.foldl (fun acc t =>
      directVarsE σ₀.vars.length σ (termFuelE σ₀.vars.length σ) t acc) [] → x < σ.vars.length := by
    intro x hx
    have h1 := foldl_directVars_in hc (termFuel (σ₀.appendC σ)) (Term.shiftL σ₀.vars.length ts) []
      (termsInB_iff.mpr hts) (fun y hy => nomatch hy) (x + σ₀.vars.length) (by
        rw [termFuel_appendC, foldl_directVars_appendC_nil]
        exact mem_shiftIds.mpr ⟨x, hx, rfl⟩)
    exact inB_iff.mp h1
  rw [termFuel_appendC, foldl_directVars_appendC_nil, vlen_appendC, clen_appendC]
  have e1 : (σ₀.vars.length + σ.vars.length) * (σ₀.constrs.length + σ.constrs.length + 1) + 8 =
      (σ.vars.length + σ₀.vars.length) * (σ.constrs.length + σ₀.constrs.length + 1) + 8 := by
    rw [Nat.add_comm σ₀.vars.length, Nat.add_comm σ₀.constrs.length]
  rw [e1]
  exact indirectVars_appendC hc _ _ _ hd hd

end Tfv.C16H
