import Tfv.Proofs.InferStore
/-!
# Decidable checkers for the hypotheses of the C03 theorems

`okStoreB`, `noConstraintsB`, `satB` are executable; each implies the
corresponding specification predicate. They serve the non-vacuity examples and
the test harness (which evaluates them on initial and final stores).
-/
namespace Tfv.C03P

/-! ## 1. reading a variable record -/

theorem getVar_mem_or_default (σ : Store) (v : Nat) :
    (v < σ.vars.length ∧ getVar σ v ∈ σ.vars) ∨ (¬ v < σ.vars.length ∧ getVar σ v = {}) := by
  by_cases h : v < σ.vars.length
  · left
    refine ⟨h, ?_⟩
    unfold getVar
    rw [List.getD_eq_getElem?_getD, List.getElem?_eq_getElem h]
    exact List.getElem_mem h
  · exact Or.inr ⟨h, getVar_oor h⟩

theorem arity_unit {L : Lang} (wf : WF L) : arityOf L UNIT = 0 := by
  unfold arityOf varianceOf UNIT
  rw [wf_get wf (by decide)]; rfl

theorem length_pos_of_wf {L : Lang} (wf : WF L) : 5 ≤ L.length := by
  have h := congrArg List.length wf.builtins
  simp only [List.length_take] at h
  have : builtinDecls.length = 5 := rfl
  omega

theorem wfTy_base {L : Lang} {o : Nat} (h1 : o < L.length) (h2 : arityOf L o = 0) :
    wfTy L (.app o []) = true := by
  unfold wfTy wfTyL
  simp [h1, h2]

theorem wfTy_unit {L : Lang} (wf : WF L) : wfTy L (.app UNIT []) = true :=
  wfTy_base (by have := length_pos_of_wf wf; unfold UNIT; omega) (arity_unit wf)

/-! ## 2. `OkStore` -/

def okBoundB (L : Lang) (b : Option Nat) : Bool := b.all (fun o => decide (o < L.length) && arityOf L o == 0)

def okVarB (L : Lang) (σ : Store) (i : VarInfo) : Bool :=
  i.bound.all (okTerm L σ) && okBoundB L i.lower && okBoundB L i.upper &&
  (match i.lower, i.upper with
   | some l, some u => opSub L l u
   | _, _ => true) &&
  (match i.bound with
   | some (.app o _) => !(i.lower.isSome || i.upper.isSome) || arityOf L o == 0
   | _ => true)

def okStoreB (L : Lang) (σ : Store) : Bool := σ.vars.all (okVarB L σ)

theorem okBoundB_sound {L : Lang} {b : Option Nat} (h : okBoundB L b = true) : okBound L b := by
  intro o ho
  subst ho
  unfold okBoundB at h
  simpa using h

theorem okVarB_default (L : Lang) (σ : Store) : okVarB L σ {} = true := by
  unfold okVarB okBoundB; rfl

theorem okStoreB_var {L : Lang} {σ : Store} (h : okStoreB L σ = true) (v : Nat) :
    okVarB L σ (getVar σ v) = true := by
  rcases getVar_mem_or_default σ v with ⟨_, hm⟩ | ⟨_, hd⟩
  · unfold okStoreB at h
    exact List.all_eq_true.mp h _ hm
  · rw [hd]; exact okVarB_default L σ

theorem okStoreB_sound {L : Lang} {σ : Store} (h : okStoreB L σ = true) : OkStore L σ := by
  have key := okStoreB_var h
  refine ⟨?_, ?_, ?_, ?_, ?_⟩
  · intro v t hb
    have := key v
    unfold okVarB at this
    rw [hb] at this
    simp only [Bool.and_eq_true, Option.all_some] at this
    exact this.1.1.1.1
  · intro v
    have := key v
    unfold okVarB at this
    simp only [Bool.and_eq_true] at this
    exact okBoundB_sound this.1.1.1.2
  · intro v
    have := key v
    unfold okVarB at this
    simp only [Bool.and_eq_true] at this
    exact okBoundB_sound this.1.1.2
  · intro v l u hl hu
    have := key v
    unfold okVarB at this
    rw [hl, hu] at this
    simp only [Bool.and_eq_true] at this
    exact this.1.2
  · intro v o args hb hx
    have := key v
    unfold okVarB at this
    rw [hb] at this
    simp only [Bool.and_eq_true, Bool.or_eq_true, Bool.not_eq_true', beq_iff_eq] at this
    rcases this.2 with h1 | h1
    · rw [← Bool.or_eq_true] at hx
      rw [hx] at h1; cases h1
    · exact h1

/-! ## 3. `NoConstraints` -/

def noConstraintsB (σ : Store) : Bool := σ.csets.all (fun cs => cs.isEmpty)

theorem noConstraintsB_sound {σ : Store} (h : noConstraintsB σ = true) : NoConstraints σ := by
  intro k
  unfold getCset
  rw [List.getD_eq_getElem?_getD]
  by_cases hk : k < σ.csets.length
  · rw [List.getElem?_eq_getElem hk]
    unfold noConstraintsB at h
    have := List.all_eq_true.mp h _ (List.getElem_mem hk)
    simpa using this
  · rw [List.getElem?_eq_none (by omega)]; rfl

/-! ## 4. `Sat` for a valuation given as a list (default `Unit`) -/

def valOf (vals : List Ty) : Val := fun v => vals.getD v (.app UNIT [])

def satVarB (L : Lang) (ρ : Val) (v : Nat) (i : VarInfo) : Bool :=
  match i.bound with
  | some t => eqM L (ρ v) (den ρ t)
  | none => i.lower.all (fun l => sub L (.app l []) (ρ v)) && i.upper.all (fun u => sub L (ρ v) (.app u []))

def satB (L : Lang) (vals : List Ty) (σ : Store) : Bool :=
  vals.all (wfTy L) &&
  (List.range σ.vars.length).all (fun v => satVarB L (valOf vals) v (getVar σ v))

theorem wf_valOf {L : Lang} (wf : WF L) {vals : List Ty} (h : vals.all (wfTy L) = true) (v : Nat) :
    wfTy L (valOf vals v) = true := by
  unfold valOf
  rw [List.getD_eq_getElem?_getD]
  by_cases hv : v < vals.length
  · rw [List.getElem?_eq_getElem hv]
    exact List.all_eq_true.mp h _ (List.getElem_mem hv)
  · rw [List.getElem?_eq_none (by omega)]
    exact wfTy_unit wf

theorem satB_sound {L : Lang} (wf : WF L) {vals : List Ty} {σ : Store} (ok : OkStore L σ)
    (h : satB L vals σ = true) : Sat L (valOf vals) σ := by
  unfold satB at h
  rw [Bool.and_eq_true] at h
  obtain ⟨h1, h2⟩ := h
  have hwf := wf_valOf wf h1
  have key : ∀ v, v < σ.vars.length → satVarB L (valOf vals) v (getVar σ v) = true := fun v hv =>
    List.all_eq_true.mp h2 v (List.mem_range.mpr hv)
  have inRange : ∀ v, (getVar σ v).bound.isSome = true ∨ (getVar σ v).lower.isSome = true ∨
      (getVar σ v).upper.isSome = true → v < σ.vars.length := by
    intro v hx
    rcases getVar_mem_or_default σ v with ⟨hv, _⟩ | ⟨_, hd⟩
    · exact hv
    · rw [hd] at hx; simp at hx
  refine ⟨hwf, ?_, ?_, ?_⟩
  · intro v t hb
    have := key v (inRange v (Or.inl (by rw [hb]; rfl)))
    unfold satVarB at this
    rw [hb] at this
    exact (matchC_false_iff true _ _ (hwf v) (wfTy_den hwf t (ok.bound v t hb))).mp this
  · intro v l hb hl
    have := key v (inRange v (Or.inr (Or.inl (by rw [hl]; rfl))))
    unfold satVarB at this
    rw [hb, hl] at this
    simp only [Bool.and_eq_true, Option.all_some] at this
    have h3 := matchC_true_iff wf true _ _ (wfTy_base (ok.lower v l hl).1 (ok.lower v l hl).2) (hwf v)
    simp only [if_true] at h3
    exact h3.mp this.1
  · intro v u hb hu
    have := key v (inRange v (Or.inr (Or.inr (by rw [hu]; rfl))))
    unfold satVarB at this
    rw [hb, hu] at this
    simp only [Bool.and_eq_true, Option.all_some] at this
    have h3 := matchC_true_iff wf true _ _ (hwf v) (wfTy_base (ok.upper v u hu).1 (ok.upper v u hu).2)
    simp only [if_true] at h3
    exact h3.mp this.2

/-- `Sub` on concrete well-formed types is decided by `sub` -/
theorem sub_iff_Sub {L : Lang} (wf : WF L) {s t : Ty} (hs : wfTy L s = true) (ht : wfTy L t = true) :
    sub L s t = true ↔ Sub L s t := by
  have h3 := matchC_true_iff wf true s t hs ht
  simp only [if_true] at h3
  exact h3

end Tfv.C03P
