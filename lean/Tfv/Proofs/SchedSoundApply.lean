import Tfv.Proofs.SchedSoundCheck
/-!
# C18 (soundness under every schedule): `applyTS`, chains, `instantiateS`

Port of `InferConstrApply.lean` to the scheduled engine (the lemmas about allocation, `regStore`,
`informStore` do not mention the engine and are reused).
-/
namespace Tfv.C18S
open Tfv Tfv.C03P Tfv.C03C

variable {ord : List Nat → List Nat}

theorem applyPre_soundCO {L : Lang} (wf : WF L) (hord : OrdSub ord) {n : Nat} {σ σ1 : Store} {f0 f1 : Term}
    (okc : OkStoreC L σ) (hf : okTerm L σ f0 = true)
    (h : applyPreS L ord n σ f0 = .ok (σ1, f1)) :
    StepC L σ σ1 ∧ okTerm L σ1 f1 = true ∧ ∀ ρ, Sat L ρ σ1 → den ρ f1 = den ρ f0 := by
  cases f0 with
  | app o args =>
    simp only [applyPreS] at h
    injection h with h
    injection h with h1 h2
    subst h1; subst h2
    exact ⟨StepC.refl okc, hf, fun _ _ => rfl⟩
  | var fv =>
    simp only [applyPreS] at h
    split at h
    · cases h
    · next σ3 hb =>
      injection h with h
      injection h with h1 h2
      subst h1; subst h2
      have sA := stepC_newVar (L := L) okc
      have sB := stepC_newVar (L := L) sA.ok
      have sAB := sA.trans sB
      have hfv := okTerm_var.mp (sAB.okTerm hf)
      have hterm : okTerm L (newVar (newVar σ).1).1 (.app FUN [.var (newVar σ).2, .var (newVar (newVar σ).1).2]) = true := by
        refine okTerm_app.mpr ⟨?_, ?_, ?_⟩
        · have := length_ge_five wf; unfold FUN; omega
        · rw [arity_fun wf]; rfl
        · refine okTermL_cons.mpr ⟨okTerm_var.mpr ?_, okTermL_cons.mpr ⟨okTerm_var.mpr ?_, okTermL_nil⟩⟩
          · simp only [snd_newVar, length_newVar]; omega
          · simp only [snd_newVar, length_newVar]; omega
      obtain ⟨s, hs⟩ := (all_soundCO wf hord n).2.2.1 _ fv _ σ3 sAB.ok hfv hterm
        (bindPre_compound (by rw [arity_fun wf]; decide)) hb
      have sT := sAB.trans s
      refine ⟨sT, okTerm_followT s.ok.ok _ (sT.okTerm hf), fun ρ hρ => ?_⟩
      rw [den_followT hρ]

theorem applyPost_soundCO {L : Lang} (wf : WF L) (hord : OrdSub ord) {n : Nat} {σ σ' : Store} {x0 f1 r : Term} {fixFlag : Bool}
    (okc : OkStoreC L σ) (hf : okTerm L σ f1 = true) (hx : okTerm L σ x0 = true)
    (h : applyPostS L ord n σ x0 f1 fixFlag = .ok (σ', r)) :
    StepC L σ σ' ∧ okTerm L σ' r = true ∧ ∀ ρ, Sat L ρ σ' →
      ((∃ p, den ρ f1 = .app FUN [p, den ρ r] ∧ Sub L (den ρ x0) p) ∨
       (den ρ f1 = .app TOP [] ∧ r = .app TOP [])) := by
  have htop : okTerm L σ (.app TOP []) = true :=
    okTerm_base (by have := length_ge_five wf; unfold TOP; omega) (arity_top wf)
  unfold applyPostS at h
  split at h
  · next o l r0 =>
    obtain ⟨ho, hlen, hargs⟩ := okTerm_app.mp hf
    split at h
    · next hfun =>
      have hfun : o = FUN := by simpa using hfun
      subst hfun
      obtain ⟨hl, hr0⟩ := okTermL_cons.mp hargs
      obtain ⟨hr0, _⟩ := okTermL_cons.mp hr0
      split at h
      · cases h
      · next σ1 hu =>
        obtain ⟨s1, hs1⟩ := (all_soundCO wf hord n).1 σ x0 l false false σ1 okc hx hl hu
        split at h
        · obtain ⟨s2, hr, hs2⟩ := (all_soundCO wf hord n).2.2.2.2.2.1 σ1 r0 true σ' r s1.ok (s1.okTerm hr0) h
          refine ⟨s1.trans s2, hr, fun ρ hρ => Or.inl ⟨den ρ l, ?_, hs1 rfl rfl ρ (s2.sat ρ hρ)⟩⟩
          rw [den_app, denL_cons, denL_cons, denL_nil, hs2 ρ hρ]
        · injection h with h
          injection h with h1 h2
          subst h1; subst h2
          refine ⟨s1, s1.okTerm hr0, fun ρ hρ => Or.inl ⟨den ρ l, ?_, hs1 rfl rfl ρ hρ⟩⟩
          rw [den_app, denL_cons, denL_cons, denL_nil]
    · split at h
      · next _ htop' =>
        have htop' : o = TOP := by simpa using htop'
        subst htop'
        rw [arity_top wf] at hlen
        simp at hlen
      · cases h
  · next o args _ =>
    obtain ⟨ho, hlen, hargs⟩ := okTerm_app.mp hf
    split at h
    · next htop' =>
      have htop' : o = TOP := by simpa using htop'
      subst htop'
      injection h with h
      injection h with h1 h2
      subst h1; subst h2
      rw [arity_top wf] at hlen
      refine ⟨StepC.refl okc, htop, fun ρ _ => Or.inr ⟨?_, rfl⟩⟩
      rw [den_app, List.eq_nil_of_length_eq_zero hlen, denL_nil]
    · cases h
  · cases h

theorem applyT_soundCO {L : Lang} (wf : WF L) (hord : OrdSub ord) {n : Nat} {σ σ' : Store} {f x r : Term} {fixFlag : Bool}
    (okc : OkStoreC L σ) (hf : okTerm L σ f = true) (hx : okTerm L σ x = true)
    (h : applyTS L ord n σ f x fixFlag = .ok (σ', r)) :
    StepC L σ σ' ∧ okTerm L σ' r = true ∧ ∀ ρ, Sat L ρ σ' →
      ((∃ p, den ρ f = .app FUN [p, den ρ r] ∧ Sub L (den ρ x) p) ∨
       (den ρ f = .app TOP [] ∧ r = .app TOP [])) := by
  rw [applyTS_eq] at h
  split at h
  · cases h
  · next σ1 f1 hpre =>
    obtain ⟨s1, hf1, hd1⟩ := applyPre_soundCO wf hord okc (okTerm_followT okc.ok f hf) hpre
    obtain ⟨s2, hr, hd2⟩ := applyPost_soundCO wf hord s1.ok hf1 (s1.okTerm (okTerm_followT okc.ok x hx)) h
    refine ⟨s1.trans s2, hr, fun ρ hρ => ?_⟩
    have hρ1 := s2.sat ρ hρ
    have hρ0 := s1.sat ρ hρ1
    have e1 : den ρ f1 = den ρ f := by rw [hd1 ρ hρ1, den_followT hρ0]
    have e2 : den ρ (followT σ x) = den ρ x := den_followT hρ0 x
    have := hd2 ρ hρ
    rw [e1, e2] at this
    exact this

theorem applyAll_soundCO {L : Lang} (wf : WF L) (hord : OrdSub ord) (n : Nat) (fixFlag : Bool) :
    ∀ (xs : List Term) (σ σ' : Store) (f r : Term),
    OkStoreC L σ → okTerm L σ f = true → okTermL L σ xs = true →
    applyAllS L ord n fixFlag σ f xs = .ok (σ', r) →
    StepC L σ σ' ∧ okTerm L σ' r = true ∧
      ∀ ρ, Sat L ρ σ' → Accepts L (den ρ f) (denL ρ xs) (den ρ r)
  | [], σ, σ', f, r, okc, hf, _, h => by
    unfold applyAllS at h
    injection h with h
    injection h with h1 h2
    subst h1; subst h2
    refine ⟨StepC.refl okc, hf, fun ρ _ => ?_⟩
    rw [denL_nil]; unfold Accepts; rfl
  | x :: xs, σ, σ', f, r, okc, hf, hxs, h => by
    unfold applyAllS at h
    obtain ⟨hx, hxs'⟩ := okTermL_cons.mp hxs
    split at h
    · cases h
    · next σ1 r1 h1 =>
      obtain ⟨s1, hr1, hd1⟩ := applyT_soundCO wf hord okc hf hx h1
      obtain ⟨s2, hr, hd2⟩ := applyAll_soundCO wf hord n fixFlag xs σ1 σ' r1 r s1.ok hr1 (s1.okTermL hxs') h
      refine ⟨s1.trans s2, hr, fun ρ hρ => ?_⟩
      rw [denL_cons]
      unfold Accepts
      rcases hd1 ρ (s2.sat ρ hρ) with ⟨p, e, hsub⟩ | ⟨e1, e2⟩
      · exact Or.inl ⟨p, den ρ r1, e, hsub, hd2 ρ hρ⟩
      · refine Or.inr ⟨e1, ?_⟩
        have := hd2 ρ hρ
        rw [e2, den_app, denL_nil] at this
        exact this

theorem addConstraint_soundCO {L : Lang} (wf : WF L) (hord : OrdSub ord) {n : Nat} {σ σ' : Store} {c : Constr}
    (okc : OkStoreC L σ) (hc : okTermL L σ (constrTerms c) = true) (hnf : ∀ r t s, c ≠ .sub r t s true)
    (h : addConstraintS L ord n σ c = .ok σ') : StepC L σ σ' := by
  rw [addConstraintS_eq] at h
  simp only [] at h
  split at h
  · cases h
  · split at h
    · cases h
    · next σ1 d h1 =>
      injection h with h; subst h
      have hnf' : ∀ r t s, normC σ c ≠ .sub r t s true := by
        intro r t s e
        cases c with
        | sub r' t' s' f' =>
          unfold normC at e
          injection e with _ _ e3 e4
          subst e3; subst e4
          exact hnf r' t' s' rfl
        | elim r' a' f' => unfold normC at e; cases e
      obtain ⟨s1, hl1⟩ := stepC_regStore okc (okTermL_normC okc.ok hc) hnf'
      have hid : σ.constrs.length < (regStore σ (normC σ c)).constrs.length := by rw [hl1]; omega
      obtain ⟨s2, hl2⟩ := stepC_informStore (L := L) σ.constrs.length
        (varsOfTerms (regStore σ (normC σ c)) (constrTerms (normC σ c))) _ s1.ok hid
      have s3 := (all_soundCO wf hord n).2.2.2.2.2.2.2.2.2.1 _ _ σ1 d s2.ok (by rw [hl2]; exact hid) h1
      exact s1.trans (s2.trans s3)

theorem addConstraints_soundCO {L : Lang} (wf : WF L) (hord : OrdSub ord) (n : Nat) (base k : Nat) :
    ∀ (cs : List CAst) (σ σ' : Store), OkStoreC L σ → base + k ≤ σ.vars.length →
    (∀ c, c ∈ cs → okCAstN L k c = true) →
    addConstraintsS L ord n base σ cs = .ok σ' → StepC L σ σ'
  | [], σ, σ', okc, _, _, h => by
    unfold addConstraintsS at h
    injection h with h; subst h; exact StepC.refl okc
  | c :: cs, σ, σ', okc, hb, hcs, h => by
    unfold addConstraintsS at h
    simp only [] at h
    split at h
    · cases h
    · next σ1 h1 =>
      have hc := hcs c List.mem_cons_self
      have tail : ∀ c', okTermL L σ (constrTerms c') = true → (∀ r t s, c' ≠ .sub r t s true) →
          addConstraintS L ord n σ c' = .ok σ1 → StepC L σ σ' := fun c' hterms hnf h1' => by
        have s1 := addConstraint_soundCO wf hord okc hterms hnf h1'
        exact s1.trans (addConstraints_soundCO wf hord n base k cs σ1 σ' s1.ok (Nat.le_trans hb s1.len)
          (fun c'' hc' => hcs c'' (List.mem_cons_of_mem _ hc')) h)
      cases c with
      | sub r t s =>
        unfold okCAstN at hc
        rw [Bool.and_eq_true] at hc
        refine tail _ ?_ (fun _ _ _ e => by injection e with _ _ _ e4; cases e4) h1
        rw [constrTerms_sub]
        exact okTermL_cons.mpr ⟨okTerm_shift hb r hc.1, okTermL_single (okTerm_shift hb t hc.2)⟩
      | elim r alts =>
        unfold okCAstN at hc
        rw [Bool.and_eq_true] at hc
        refine tail _ ?_ (fun _ _ _ e => by cases e) h1
        rw [constrTerms_elim]
        exact okTermL_cons.mpr ⟨okTerm_followT okc.ok _ (okTerm_shift hb r hc.1), okTermL_shift hb alts hc.2⟩

/-- `instantiate` = allocation of the schema variables (weak step: wildcards may appear), then a step of
the engine proper (constraints, `fix`) -/
theorem instantiate_stepsO {L : Lang} (wf : WF L) (hord : OrdSub ord) {n : Nat} {σ σ' : Store} {s : Schema} {f : Term}
    (okc : OkStoreC L σ)
    (hcs : ∀ c, c ∈ s.constraints → okCAstN L (s.nvars + s.nwild) c = true)
    (hbody : okTermN L (s.nvars + s.nwild) s.body = true)
    (h : instantiateS L ord n σ s = .ok (σ', f)) :
    StepA L σ (allocVars σ s.nvars s.nwild) ∧ StepC L (allocVars σ s.nvars s.nwild) σ' ∧
    σ.vars.length + s.nvars + s.nwild ≤ σ'.vars.length ∧ okTerm L σ' f = true ∧
    ∀ ρ, Sat L ρ σ' → den ρ f = den ρ (s.body.shift σ.vars.length) := by
  unfold instantiateS at h
  simp only [] at h
  split at h
  · cases h
  · next σ1 h1 =>
    obtain ⟨s0, hlen⟩ := stepA_allocVars (L := L) okc s.nvars s.nwild
    have hb : σ.vars.length + (s.nvars + s.nwild) ≤ (allocVars σ s.nvars s.nwild).vars.length := by
      rw [hlen]; omega
    have s1 := addConstraints_soundCO wf hord n σ.vars.length (s.nvars + s.nwild) s.constraints _ σ1 s0.ok hb hcs h1
    have hbody1 : okTerm L σ1 (s.body.shift σ.vars.length) = true :=
      okTerm_shift (Nat.le_trans hb s1.len) s.body hbody
    obtain ⟨s2, hf, hd⟩ := (all_soundCO wf hord n).2.2.2.2.2.1 σ1 _ true σ' f s1.ok
      (okTerm_spineFollow s1.ok.ok _ hbody1) h
    refine ⟨s0, s1.trans s2, ?_, hf, fun ρ hρ => ?_⟩
    · have := s1.len; have := s2.len; omega
    · exact (hd ρ hρ).trans (den_spineFollow (s2.sat ρ hρ) _)

theorem instantiate_soundCO {L : Lang} (wf : WF L) (hord : OrdSub ord) {n : Nat} {σ σ' : Store} {s : Schema} {f : Term}
    (okc : OkStoreC L σ)
    (hcs : ∀ c, c ∈ s.constraints → okCAstN L (s.nvars + s.nwild) c = true)
    (hbody : okTermN L (s.nvars + s.nwild) s.body = true)
    (h : instantiateS L ord n σ s = .ok (σ', f)) :
    StepA L σ σ' ∧ σ.vars.length + s.nvars + s.nwild ≤ σ'.vars.length ∧ okTerm L σ' f = true ∧
    ∀ ρ, Sat L ρ σ' → den ρ f = den ρ (s.body.shift σ.vars.length) := by
  obtain ⟨s0, s1, h3, h4, h5⟩ := instantiate_stepsO wf hord okc hcs hbody h
  exact ⟨s0.trans s1.toA, h3, h4, h5⟩

end Tfv.C18S
