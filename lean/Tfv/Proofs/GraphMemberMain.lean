import Tfv.Proofs.GraphMemberRead
/-!
# Membership triples: consequences of a log, and of the log of `addExpr`
-/
namespace Tfv

section generic
variable {G : GLang} {c : GCfg} {root : Node} {evs : List Ev} {g g' : GState}

theorem ext_self (m : List (Term × Node)) : ∃ l, m = m ++ l := ⟨[], by simp⟩

/-- reading a `containsType` triple of the result in the log -/
theorem LoggedBy.cT_iff (L : LoggedBy G c root evs g g') (a tn : Node) :
    (a, Node.tf "containsType", tn) ∈ g'.triples ↔ ((a, Node.tf "containsType", tn) ∈ g.triples ∨
      (a = root ∧ ∃ cur ty can, Ev.ann cur ty can ∈ evs ∧ AnnCT G c g'.typeNodes ty can tn)) := by
  rw [L.exact _ (ext_self _) _ (tracked_cT a tn)]
  constructor
  · rintro (h | ⟨ev, hev, h⟩)
    · exact .inl h
    · obtain ⟨cur, ty, can, rfl, ha, hx⟩ := evTriple_cT.1 h
      exact .inr ⟨ha, cur, ty, can, hev, hx⟩
  · rintro (h | ⟨ha, cur, ty, can, hev, hx⟩)
    · exact .inl h
    · exact .inr ⟨_, hev, evTriple_cT.2 ⟨cur, ty, can, rfl, ha, hx⟩⟩

theorem LoggedBy.type_iff (L : LoggedBy G c root evs g g') (a tn : Node) :
    (a, Node.tf "type", tn) ∈ g'.triples ↔ ((a, Node.tf "type", tn) ∈ g.triples ∨
      ∃ cur ty can, Ev.ann cur ty can ∈ evs ∧ a = .b cur ∧ lookupType g'.typeNodes ty = some tn) := by
  rw [L.exact _ (ext_self _) _ (tracked_type a tn)]
  constructor
  · rintro (h | ⟨ev, hev, h⟩)
    · exact .inl h
    · obtain ⟨cur, ty, can, rfl, ha, hx⟩ := evTriple_type.1 h
      exact .inr ⟨cur, ty, can, hev, ha, hx⟩
  · rintro (h | ⟨cur, ty, can, hev, ha, hx⟩)
    · exact .inl h
    · exact .inr ⟨_, hev, evTriple_type.2 ⟨cur, ty, can, rfl, ha, hx⟩⟩

theorem LoggedBy.subtypeOf_iff (L : LoggedBy G c root evs g g') (a tn : Node) :
    (a, Node.tf "subtypeOf", tn) ∈ g'.triples ↔ ((a, Node.tf "subtypeOf", tn) ∈ g.triples ∨
      ∃ cur ty can, Ev.ann cur ty can ∈ evs ∧ a = .b cur ∧ AnnSub G c g'.typeNodes ty can tn) := by
  rw [L.exact _ (ext_self _) _ (tracked_subtypeOf a tn)]
  constructor
  · rintro (h | ⟨ev, hev, h⟩)
    · exact .inl h
    · obtain ⟨cur, ty, can, rfl, ha, hx⟩ := evTriple_subtypeOf.1 h
      exact .inr ⟨cur, ty, can, hev, ha, hx⟩
  · rintro (h | ⟨cur, ty, can, hev, ha, hx⟩)
    · exact .inl h
    · exact .inr ⟨_, hev, evTriple_subtypeOf.2 ⟨cur, ty, can, rfl, ha, hx⟩⟩

theorem LoggedBy.cO_iff (L : LoggedBy G c root evs g g') (a o : Node) :
    (a, Node.tf "containsOperation", o) ∈ g'.triples ↔ ((a, Node.tf "containsOperation", o) ∈ g.triples ∨
      (a = root ∧ c.withOperators = true ∧ c.withMembership = true ∧
        ∃ cur name, Ev.op cur name ∈ evs ∧ o = .ns name)) := by
  rw [L.exact _ (ext_self _) _ (tracked_cO a o)]
  constructor
  · rintro (h | ⟨ev, hev, h⟩)
    · exact .inl h
    · obtain ⟨cur, name, rfl, h1, h2, ha, ho⟩ := evTriple_cO.1 h
      exact .inr ⟨ha, h1, h2, cur, name, hev, ho⟩
  · rintro (h | ⟨ha, h1, h2, cur, name, hev, ho⟩)
    · exact .inl h
    · exact .inr ⟨_, hev, evTriple_cO.2 ⟨cur, name, rfl, h1, h2, ha, ho⟩⟩

theorem LoggedBy.via_iff (L : LoggedBy G c root evs g g') (a o : Node) :
    (a, Node.tf "via", o) ∈ g'.triples ↔ ((a, Node.tf "via", o) ∈ g.triples ∨
      (c.withOperators = true ∧ ∃ cur name, Ev.op cur name ∈ evs ∧ a = .b cur ∧ o = .ns name)) := by
  rw [L.exact _ (ext_self _) _ (tracked_via a o)]
  constructor
  · rintro (h | ⟨ev, hev, h⟩)
    · exact .inl h
    · obtain ⟨cur, name, rfl, h1, ha, ho⟩ := evTriple_via.1 h
      exact .inr ⟨h1, cur, name, hev, ha, ho⟩
  · rintro (h | ⟨h1, cur, name, hev, ha, ho⟩)
    · exact .inl h
    · exact .inr ⟨_, hev, evTriple_via.2 ⟨cur, name, rfl, h1, ha, ho⟩⟩

/-! ### against the triples of the same result graph -/

/-- every added `type` triple comes with the `containsType` triple of its type node -/
theorem LoggedBy.type_sub_cT (L : LoggedBy G c root evs g g') (hM : c.withMembership = true) {a tn : Node}
    (h : (a, Node.tf "type", tn) ∈ g'.triples) :
    (a, Node.tf "type", tn) ∈ g.triples ∨ (root, Node.tf "containsType", tn) ∈ g'.triples := by
  rcases (L.type_iff a tn).1 h with h | ⟨cur, ty, can, hev, _, hl⟩
  · exact .inl h
  · exact .inr ((L.cT_iff root tn).2 (.inr ⟨rfl, cur, ty, can, hev, .inl ⟨hM, hl⟩⟩))

/-- every added `subtypeOf` triple comes with the `containsType` triple of its object -/
theorem LoggedBy.subtypeOf_sub_cT (L : LoggedBy G c root evs g g') (hM : c.withMembership = true)
    (hMS : c.withMembershipSupertypes = true) {a tn : Node} (h : (a, Node.tf "subtypeOf", tn) ∈ g'.triples) :
    (a, Node.tf "subtypeOf", tn) ∈ g.triples ∨ (root, Node.tf "containsType", tn) ∈ g'.triples := by
  rcases (L.subtypeOf_iff a tn).1 h with h | ⟨cur, ty, can, hev, _, _, hc, hl | ⟨ha, s, hs, hl⟩⟩
  · exact .inl h
  · exact .inr ((L.cT_iff root tn).2 (.inr ⟨rfl, cur, ty, can, hev, .inl ⟨hM, hl⟩⟩))
  · exact .inr ((L.cT_iff root tn).2 (.inr ⟨rfl, cur, ty, can, hev, .inr ⟨hMS, hc, ha, s, hs, hl⟩⟩))

/-- every added `containsType` triple has the root as subject and is justified: by the `type` triple of a node, or by
a reported supertype `s` of a type `ty` some node carries (with `withSupertypes`: by a `subtypeOf` triple of that node) -/
theorem LoggedBy.cT_justified (L : LoggedBy G c root evs g g') {a tn : Node}
    (h : (a, Node.tf "containsType", tn) ∈ g'.triples) :
    (a, Node.tf "containsType", tn) ∈ g.triples ∨ (a = root ∧ ∃ n,
      (c.withMembership = true ∧ (Node.b n, Node.tf "type", tn) ∈ g'.triples) ∨
      (c.withMembershipSupertypes = true ∧ ∃ ty tn0 s, lookupType g'.typeNodes ty = some tn0 ∧
        (Node.b n, Node.tf "type", tn0) ∈ g'.triples ∧ s ∈ supsOf G ty ∧
        lookupType g'.typeNodes s.toTerm = some tn ∧
        (c.withSupertypes = true → (Node.b n, Node.tf "subtypeOf", tn) ∈ g'.triples))) := by
  rcases (L.cT_iff a tn).1 h with h | ⟨ha, cur, ty, can, hev, ⟨hM, hl⟩ | ⟨hMS, hc, hap, s, hs, hl⟩⟩
  · exact .inl h
  · exact .inr ⟨ha, cur, .inl ⟨hM, (L.type_iff _ _).2 (.inr ⟨cur, ty, can, hev, rfl, hl⟩)⟩⟩
  · obtain ⟨⟨tn0, hl0⟩, _⟩ := L.reg _ hev
    refine .inr ⟨ha, cur, .inr ⟨hMS, ty, tn0, s, hl0, (L.type_iff _ _).2 (.inr ⟨cur, ty, can, hev, rfl, hl0⟩), hs, hl,
      fun hS => ?_⟩⟩
    exact (L.subtypeOf_iff _ _).2 (.inr ⟨cur, ty, can, hev, rfl, hS, hc, .inr ⟨hap, s, hs, hl⟩⟩)

/-- every added `via` triple comes with the `containsOperation` triple of its operator -/
theorem LoggedBy.via_sub_cO (L : LoggedBy G c root evs g g') (hM : c.withMembership = true) {a o : Node}
    (h : (a, Node.tf "via", o) ∈ g'.triples) :
    (a, Node.tf "via", o) ∈ g.triples ∨ (root, Node.tf "containsOperation", o) ∈ g'.triples := by
  rcases (L.via_iff a o).1 h with h | ⟨hO, cur, name, hev, _, ho⟩
  · exact .inl h
  · exact .inr ((L.cO_iff root o).2 (.inr ⟨rfl, hO, hM, cur, name, hev, ho⟩))

/-- every added `containsOperation` triple has the root as subject, needs both switches, and is justified by the
`via` triple of a node -/
theorem LoggedBy.cO_justified (L : LoggedBy G c root evs g g') {a o : Node}
    (h : (a, Node.tf "containsOperation", o) ∈ g'.triples) :
    (a, Node.tf "containsOperation", o) ∈ g.triples ∨ (a = root ∧ c.withOperators = true ∧
      c.withMembership = true ∧ ∃ n, (Node.b n, Node.tf "via", o) ∈ g'.triples) := by
  rcases (L.cO_iff a o).1 h with h | ⟨ha, hO, hM, cur, name, hev, ho⟩
  · exact .inl h
  · exact .inr ⟨ha, hO, hM, cur, (L.via_iff _ _).2 (.inr ⟨hO, cur, name, hev, rfl, ho⟩)⟩

/-! ### … with the concept nodes the events are about -/

/-- `cT_justified`, the justifying node satisfying any property all event nodes have -/
theorem LoggedBy.cT_justified_of (L : LoggedBy G c root evs g g') {N : Nat → Prop} (hN : ∀ ev ∈ evs, N ev.node)
    {a tn : Node} (h : (a, Node.tf "containsType", tn) ∈ g'.triples) :
    (a, Node.tf "containsType", tn) ∈ g.triples ∨ (a = root ∧ ∃ n, N n ∧
      ((c.withMembership = true ∧ (Node.b n, Node.tf "type", tn) ∈ g'.triples) ∨
      (c.withMembershipSupertypes = true ∧ ∃ ty tn0 s, lookupType g'.typeNodes ty = some tn0 ∧
        (Node.b n, Node.tf "type", tn0) ∈ g'.triples ∧ s ∈ supsOf G ty ∧
        lookupType g'.typeNodes s.toTerm = some tn ∧
        (c.withSupertypes = true → (Node.b n, Node.tf "subtypeOf", tn) ∈ g'.triples)))) := by
  rcases (L.cT_iff a tn).1 h with h | ⟨ha, cur, ty, can, hev, ⟨hM, hl⟩ | ⟨hMS, hc, hap, s, hs, hl⟩⟩
  · exact .inl h
  · exact .inr ⟨ha, cur, hN _ hev, .inl ⟨hM, (L.type_iff _ _).2 (.inr ⟨cur, ty, can, hev, rfl, hl⟩)⟩⟩
  · obtain ⟨⟨tn0, hl0⟩, _⟩ := L.reg _ hev
    refine .inr ⟨ha, cur, hN _ hev, .inr ⟨hMS, ty, tn0, s, hl0,
      (L.type_iff _ _).2 (.inr ⟨cur, ty, can, hev, rfl, hl0⟩), hs, hl, fun hS => ?_⟩⟩
    exact (L.subtypeOf_iff _ _).2 (.inr ⟨cur, ty, can, hev, rfl, hS, hc, .inr ⟨hap, s, hs, hl⟩⟩)

theorem LoggedBy.cO_justified_of (L : LoggedBy G c root evs g g') {N : Nat → Prop} (hN : ∀ ev ∈ evs, N ev.node)
    {a o : Node} (h : (a, Node.tf "containsOperation", o) ∈ g'.triples) :
    (a, Node.tf "containsOperation", o) ∈ g.triples ∨ (a = root ∧ c.withOperators = true ∧
      c.withMembership = true ∧ ∃ n, N n ∧ (Node.b n, Node.tf "via", o) ∈ g'.triples) := by
  rcases (L.cO_iff a o).1 h with h | ⟨ha, hO, hM, cur, name, hev, ho⟩
  · exact .inl h
  · exact .inr ⟨ha, hO, hM, cur, hN _ hev, (L.via_iff _ _).2 (.inr ⟨hO, cur, name, hev, rfl, ho⟩)⟩

/-- every added `type` / `subtypeOf` / `via` triple has one of the event nodes as subject -/
theorem LoggedBy.subject_of (L : LoggedBy G c root evs g g') {N : Nat → Prop} (hN : ∀ ev ∈ evs, N ev.node)
    {a p o : Node} (hp : p = Node.tf "type" ∨ p = Node.tf "subtypeOf" ∨ p = Node.tf "via")
    (h : (a, p, o) ∈ g'.triples) : (a, p, o) ∈ g.triples ∨ ∃ n, N n ∧ a = Node.b n := by
  rcases hp with rfl | rfl | rfl
  · rcases (L.type_iff a o).1 h with h | ⟨cur, ty, can, hev, ha, _⟩
    · exact .inl h
    · exact .inr ⟨cur, hN _ hev, ha⟩
  · rcases (L.subtypeOf_iff a o).1 h with h | ⟨cur, ty, can, hev, ha, _⟩
    · exact .inl h
    · exact .inr ⟨cur, hN _ hev, ha⟩
  · rcases (L.via_iff a o).1 h with h | ⟨_, cur, name, hev, ha, _⟩
    · exact .inl h
    · exact .inr ⟨cur, hN _ hev, ha⟩

/-! ### the switches -/

theorem LoggedBy.cT_off (L : LoggedBy G c root evs g g') (hM : c.withMembership = false)
    (hMS : c.withMembershipSupertypes = false) {a tn : Node} (h : (a, Node.tf "containsType", tn) ∈ g'.triples) :
    (a, Node.tf "containsType", tn) ∈ g.triples := by
  rcases (L.cT_iff a tn).1 h with h | ⟨_, _, _, _, _, ⟨h1, _⟩ | ⟨h1, _⟩⟩
  · exact h
  · rw [hM] at h1; cases h1
  · rw [hMS] at h1; cases h1

theorem LoggedBy.cO_off (L : LoggedBy G c root evs g g') (hoff : c.withMembership = false ∨ c.withOperators = false)
    {a o : Node} (h : (a, Node.tf "containsOperation", o) ∈ g'.triples) :
    (a, Node.tf "containsOperation", o) ∈ g.triples := by
  rcases L.cO_justified h with h | ⟨_, hO, hM, _⟩
  · exact h
  · rcases hoff with h' | h'
    · rw [h'] at hM; cases hM
    · rw [h'] at hO; cases hO

/-! ### a start graph without tracked triples: the membership sets are exactly the unions over the nodes -/

/-- all of `withMembership`, `withMembershipSupertypes`, `withSupertypes`: `containsType` = ⋃ `type` ∪ ⋃ `subtypeOf` -/
theorem LoggedBy.cT_union (L : LoggedBy G c root evs g g') (hg : ∀ t ∈ g.triples, ¬ Tracked t)
    (hM : c.withMembership = true) (hMS : c.withMembershipSupertypes = true) (hS : c.withSupertypes = true)
    (tn : Node) :
    (root, Node.tf "containsType", tn) ∈ g'.triples ↔
      ∃ n, (Node.b n, Node.tf "type", tn) ∈ g'.triples ∨ (Node.b n, Node.tf "subtypeOf", tn) ∈ g'.triples := by
  constructor
  · intro h
    rcases L.cT_justified h with h | ⟨_, n, ⟨_, h⟩ | ⟨_, _, _, _, _, _, _, _, h⟩⟩
    · exact absurd (tracked_cT _ _) (hg _ h)
    · exact ⟨n, .inl h⟩
    · exact ⟨n, .inr (h hS)⟩
  · rintro ⟨n, h | h⟩
    · rcases L.type_sub_cT hM h with h | h
      · exact absurd (tracked_type _ _) (hg _ h)
      · exact h
    · rcases L.subtypeOf_sub_cT hM hMS h with h | h
      · exact absurd (tracked_subtypeOf _ _) (hg _ h)
      · exact h

/-- `withMembership` without `withMembershipSupertypes`: `containsType` = ⋃ `type` -/
theorem LoggedBy.cT_union_types (L : LoggedBy G c root evs g g') (hg : ∀ t ∈ g.triples, ¬ Tracked t)
    (hM : c.withMembership = true) (hMS : c.withMembershipSupertypes = false) (tn : Node) :
    (root, Node.tf "containsType", tn) ∈ g'.triples ↔ ∃ n, (Node.b n, Node.tf "type", tn) ∈ g'.triples := by
  constructor
  · intro h
    rcases L.cT_justified h with h | ⟨_, n, ⟨_, h⟩ | ⟨h, _⟩⟩
    · exact absurd (tracked_cT _ _) (hg _ h)
    · exact ⟨n, h⟩
    · rw [hMS] at h; cases h
  · rintro ⟨n, h⟩
    rcases L.type_sub_cT hM h with h | h
    · exact absurd (tracked_type _ _) (hg _ h)
    · exact h

/-- `withMembership`: `containsOperation` = ⋃ `via` -/
theorem LoggedBy.cO_union (L : LoggedBy G c root evs g g') (hg : ∀ t ∈ g.triples, ¬ Tracked t)
    (hM : c.withMembership = true) (o : Node) :
    (root, Node.tf "containsOperation", o) ∈ g'.triples ↔ ∃ n, (Node.b n, Node.tf "via", o) ∈ g'.triples := by
  constructor
  · intro h
    rcases L.cO_justified h with h | ⟨_, _, _, n, h⟩
    · exact absurd (tracked_cO _ _) (hg _ h)
    · exact ⟨n, h⟩
  · rintro ⟨n, h⟩
    rcases L.via_sub_cO hM h with h | h
    · exact absurd (tracked_via _ _) (hg _ h)
    · exact h

end generic

/-! ## the log of `addExpr`, in terms of the leaves that are visited -/

section expr
variable {G : GLang} {c : GCfg} {root : Node} {g : GState} {e : TExpr} {cur : Option Nat} {inter : Bool} {g' : GState}

/-- the leaves `addExpr` visits when started in `g` -/
def visited (g : GState) (e : TExpr) (inter : Bool) : List VLeaf :=
  (visitLeaves (keysOf g.srcNodes) (keysOf g.sharedNodes) e inter).1

theorem log_ann_iff {evs : List Ev} {leaves : List VLeaf}
    (he : evs.map Ev.forget = leaves.flatMap (leafEvs G c)) (ty : Term) (can : Bool) :
    (∃ cur, Ev.ann cur ty can ∈ evs) ↔
      ∃ lf ∈ leaves, leafGate G c lf = true ∧ ty = leafType G lf ∧ can = inCanon G ty := by
  rw [← mem_forget_ann, he, List.mem_flatMap]
  constructor
  · rintro ⟨lf, hlf, h⟩; exact ⟨lf, hlf, mem_leafEvs_ann.1 h⟩
  · rintro ⟨lf, hlf, h⟩; exact ⟨lf, hlf, mem_leafEvs_ann.2 h⟩

theorem log_op_iff {evs : List Ev} {leaves : List VLeaf}
    (he : evs.map Ev.forget = leaves.flatMap (leafEvs G c)) (name : String) :
    (∃ cur, Ev.op cur name ∈ evs) ↔ ∃ ty i, VLeaf.op name ty i ∈ leaves := by
  rw [← mem_forget_op, he, List.mem_flatMap]
  constructor
  · rintro ⟨lf, hlf, h⟩
    obtain ⟨ty, i, rfl⟩ := mem_leafEvs_op.1 h
    exact ⟨ty, i, hlf⟩
  · rintro ⟨ty, i, h⟩; exact ⟨_, h, mem_leafEvs_op.2 ⟨ty, i, rfl⟩⟩

/-- **`containsOperation`, exactly**: the operators of the visited operator leaves -/
theorem AddExprSpec.cO_iff (S : AddExprSpec G c root g e cur inter g') (a o : Node) :
    (a, Node.tf "containsOperation", o) ∈ g'.triples ↔ ((a, Node.tf "containsOperation", o) ∈ g.triples ∨
      (a = root ∧ c.withOperators = true ∧ c.withMembership = true ∧
        ∃ name ty i, VLeaf.op name ty i ∈ visited g e inter ∧ o = .ns name)) := by
  obtain ⟨evs, he, L, hr⟩ := S.log
  rw [L.cO_iff]
  constructor
  · rintro (h | ⟨ha, h1, h2, cur, name, hev, ho⟩)
    · exact .inl h
    · obtain ⟨ty, i, hlf⟩ := (log_op_iff he name).1 ⟨cur, hev⟩
      exact .inr ⟨ha, h1, h2, name, ty, i, hlf, ho⟩
  · rintro (h | ⟨ha, h1, h2, name, ty, i, hlf, ho⟩)
    · exact .inl h
    · obtain ⟨cur, hev⟩ := (log_op_iff he name).2 ⟨ty, i, hlf⟩
      exact .inr ⟨ha, h1, h2, cur, name, hev, ho⟩

/-- **`containsType`, exactly**: the type nodes of the types of the visited leaves whose type is annotated
(`leafGate`), and of their reported supertypes -/
theorem AddExprSpec.cT_iff (S : AddExprSpec G c root g e cur inter g') (a tn : Node) :
    (a, Node.tf "containsType", tn) ∈ g'.triples ↔ ((a, Node.tf "containsType", tn) ∈ g.triples ∨
      (a = root ∧ ∃ lf ∈ visited g e inter, leafGate G c lf = true ∧
        AnnCT G c g'.typeNodes (leafType G lf) (inCanon G (leafType G lf)) tn)) := by
  obtain ⟨evs, he, L, hr⟩ := S.log
  rw [L.cT_iff]
  constructor
  · rintro (h | ⟨ha, cur, ty, can, hev, hx⟩)
    · exact .inl h
    · obtain ⟨lf, hlf, hg, rfl, rfl⟩ := (log_ann_iff he ty can).1 ⟨cur, hev⟩
      exact .inr ⟨ha, lf, hlf, hg, hx⟩
  · rintro (h | ⟨ha, lf, hlf, hg, hx⟩)
    · exact .inl h
    · obtain ⟨cur, hev⟩ := (log_ann_iff he _ _).2 ⟨lf, hlf, hg, rfl, rfl⟩
      exact .inr ⟨ha, cur, _, _, hev, hx⟩

/-- every visited leaf whose type is annotated: the type is registered, a node carries it, and with `withMembership`
the root contains it -/
theorem AddExprSpec.leaf_annotated (S : AddExprSpec G c root g e cur inter g') {lf : VLeaf}
    (hlf : lf ∈ visited g e inter) (hg : leafGate G c lf = true) :
    ∃ tn, lookupType g'.typeNodes (leafType G lf) = some tn ∧ (∃ n, (Node.b n, Node.tf "type", tn) ∈ g'.triples) ∧
      (c.withMembership = true → (root, Node.tf "containsType", tn) ∈ g'.triples) ∧
      (c.withMembershipSupertypes = true → inCanon G (leafType G lf) = true → (leafType G lf).isApp = true →
        ∀ s ∈ supsOf G (leafType G lf), ∃ sn, lookupType g'.typeNodes s.toTerm = some sn ∧
          (root, Node.tf "containsType", sn) ∈ g'.triples) := by
  obtain ⟨evs, he, L, hr⟩ := S.log
  obtain ⟨cur, hev⟩ := (log_ann_iff he _ _).2 ⟨lf, hlf, hg, rfl, rfl⟩
  obtain ⟨⟨tn, hl⟩, hsup⟩ := L.reg _ hev
  refine ⟨tn, hl, ⟨cur, (L.type_iff _ _).2 (.inr ⟨cur, _, _, hev, rfl, hl⟩)⟩, fun hM => ?_, fun hMS hc ha s hs => ?_⟩
  · exact (L.cT_iff _ _).2 (.inr ⟨rfl, cur, _, _, hev, .inl ⟨hM, hl⟩⟩)
  · obtain ⟨sn, hsn⟩ := hsup hc ha s hs
    exact ⟨sn, hsn, (L.cT_iff _ _).2 (.inr ⟨rfl, cur, _, _, hev, .inr ⟨hMS, hc, ha, s, hs, hsn⟩⟩)⟩

/-- every visited operator leaf: with `withOperators` and `withMembership` the root contains its operator -/
theorem AddExprSpec.leaf_operator (S : AddExprSpec G c root g e cur inter g') {name : String} {ty : Term} {i : Bool}
    (hlf : VLeaf.op name ty i ∈ visited g e inter) (hO : c.withOperators = true) (hM : c.withMembership = true) :
    (root, Node.tf "containsOperation", Node.ns name) ∈ g'.triples :=
  (S.cO_iff _ _).2 (.inr ⟨rfl, hO, hM, name, ty, i, hlf, rfl⟩)

/-- `withTypes` off: no leaf is annotated -/
theorem leafGate_withTypes_off (G : GLang) {c : GCfg} (h : c.withTypes = false) (lf : VLeaf) :
    leafGate G c lf = false := by
  cases lf <;> simp [leafGate, srcGate, opGate, h]

theorem AddExprSpec.cT_withTypes_off (S : AddExprSpec G c root g e cur inter g') (h : c.withTypes = false)
    {a tn : Node} (hm : (a, Node.tf "containsType", tn) ∈ g'.triples) :
    (a, Node.tf "containsType", tn) ∈ g.triples := by
  rcases (S.cT_iff a tn).1 hm with h' | ⟨_, lf, _, hg, _⟩
  · exact h'
  · rw [leafGate_withTypes_off G h] at hg; cases hg

theorem isApp_of_inCanon {G : GLang} {ty : Term} (h : inCanon G ty = true) : ty.isApp = true := by
  cases ty with
  | var v => rw [inCanon_var] at h; cases h
  | app o args => rfl

/-- **which visited leaves contribute a `containsType` triple at all**: an annotated leaf contributes some type node
iff `withMembership`, or `withMembershipSupertypes` and its type is canonical with at least one reported supertype -/
theorem AddExprSpec.leaf_contributes_iff (S : AddExprSpec G c root g e cur inter g') {lf : VLeaf}
    (hlf : lf ∈ visited g e inter) (hg : leafGate G c lf = true) :
    (∃ tn, AnnCT G c g'.typeNodes (leafType G lf) (inCanon G (leafType G lf)) tn) ↔
      (c.withMembership = true ∨ (c.withMembershipSupertypes = true ∧ inCanon G (leafType G lf) = true ∧
        supsOf G (leafType G lf) ≠ [])) := by
  obtain ⟨tn, hl, _, _, hsup⟩ := S.leaf_annotated hlf hg
  constructor
  · rintro ⟨tn', ⟨hM, _⟩ | ⟨hMS, hc, _, s, hs, _⟩⟩
    · exact .inl hM
    · exact .inr ⟨hMS, hc, fun hnil => by rw [hnil] at hs; cases hs⟩
  · rintro (hM | ⟨hMS, hc, hne⟩)
    · exact ⟨tn, .inl ⟨hM, hl⟩⟩
    · obtain ⟨s, hs⟩ := List.exists_mem_of_ne_nil _ hne
      obtain ⟨sn, hsn, _⟩ := hsup hMS hc (isApp_of_inCanon hc) s hs
      exact ⟨sn, .inr ⟨hMS, hc, isApp_of_inCanon hc, s, hs, hsn⟩⟩

/-! ### the nodes of the call -/

/-- every added `type` / `subtypeOf` / `via` triple is about a node of the call: the given one or one it created -/
theorem AddExprSpec.subject_inRange (S : AddExprSpec G c root g e cur inter g') {a p o : Node}
    (hp : p = Node.tf "type" ∨ p = Node.tf "subtypeOf" ∨ p = Node.tf "via") (h : (a, p, o) ∈ g'.triples) :
    (a, p, o) ∈ g.triples ∨ ∃ k, InRange g cur g' k ∧ a = Node.b k := by
  obtain ⟨evs, _, L, hr⟩ := S.log
  exact L.subject_of (N := InRange g cur g') hr hp h

theorem AddExprSpec.cT_justified_node (S : AddExprSpec G c root g e cur inter g') {a tn : Node}
    (h : (a, Node.tf "containsType", tn) ∈ g'.triples) :
    (a, Node.tf "containsType", tn) ∈ g.triples ∨ (a = root ∧ ∃ k, InRange g cur g' k ∧
      ((c.withMembership = true ∧ (Node.b k, Node.tf "type", tn) ∈ g'.triples) ∨
      (c.withMembershipSupertypes = true ∧ ∃ ty tn0 s, lookupType g'.typeNodes ty = some tn0 ∧
        (Node.b k, Node.tf "type", tn0) ∈ g'.triples ∧ s ∈ supsOf G ty ∧
        lookupType g'.typeNodes s.toTerm = some tn ∧
        (c.withSupertypes = true → (Node.b k, Node.tf "subtypeOf", tn) ∈ g'.triples)))) := by
  obtain ⟨evs, _, L, hr⟩ := S.log
  exact L.cT_justified_of (N := InRange g cur g') hr h

theorem AddExprSpec.cO_justified_node (S : AddExprSpec G c root g e cur inter g') {a o : Node}
    (h : (a, Node.tf "containsOperation", o) ∈ g'.triples) :
    (a, Node.tf "containsOperation", o) ∈ g.triples ∨ (a = root ∧ c.withOperators = true ∧
      c.withMembership = true ∧ ∃ k, InRange g cur g' k ∧ (Node.b k, Node.tf "via", o) ∈ g'.triples) := by
  obtain ⟨evs, _, L, hr⟩ := S.log
  exact L.cO_justified_of (N := InRange g cur g') hr h

/-- no triple of the graph is about a blank node that has not been created yet -/
def FreshAbove (g : GState) : Prop := ∀ t ∈ g.triples, ∀ k, t.1 = Node.b k → k < g.nextB

/-- a node created by a call without given node carries no triple in the start graph -/
theorem not_mem_of_inRange {g g' : GState} (hwf : FreshAbove g) {k : Nat} (hk : InRange g none g' k) (p o : Node) :
    (Node.b k, p, o) ∉ g.triples := by
  intro hm
  rcases hk with hk | ⟨hlo, _⟩
  · cases hk
  · exact absurd (hwf _ hm k rfl) (by omega)

/-- **every added `containsType` triple is justified by a NEW `type` triple** (start graph `FreshAbove`, no node given) -/
theorem AddExprSpec.cT_justified_new (S : AddExprSpec G c root g e none inter g') (hwf : FreshAbove g) {a tn : Node}
    (h : (a, Node.tf "containsType", tn) ∈ g'.triples) :
    (a, Node.tf "containsType", tn) ∈ g.triples ∨ (a = root ∧ ∃ k,
      ((c.withMembership = true ∧ (Node.b k, Node.tf "type", tn) ∈ g'.triples ∧
        (Node.b k, Node.tf "type", tn) ∉ g.triples) ∨
      (c.withMembershipSupertypes = true ∧ ∃ ty tn0 s, lookupType g'.typeNodes ty = some tn0 ∧
        (Node.b k, Node.tf "type", tn0) ∈ g'.triples ∧ (Node.b k, Node.tf "type", tn0) ∉ g.triples ∧
        s ∈ supsOf G ty ∧ lookupType g'.typeNodes s.toTerm = some tn ∧
        (c.withSupertypes = true → (Node.b k, Node.tf "subtypeOf", tn) ∈ g'.triples ∧
          (Node.b k, Node.tf "subtypeOf", tn) ∉ g.triples)))) := by
  rcases S.cT_justified_node h with h | ⟨ha, k, hk, ⟨hM, hm⟩ | ⟨hMS, ty, tn0, s, h1, h2, h3, h4, h5⟩⟩
  · exact .inl h
  · exact .inr ⟨ha, k, .inl ⟨hM, hm, not_mem_of_inRange hwf hk _ _⟩⟩
  · exact .inr ⟨ha, k, .inr ⟨hMS, ty, tn0, s, h1, h2, not_mem_of_inRange hwf hk _ _, h3, h4,
      fun hS => ⟨h5 hS, not_mem_of_inRange hwf hk _ _⟩⟩⟩

theorem AddExprSpec.cO_justified_new (S : AddExprSpec G c root g e none inter g') (hwf : FreshAbove g) {a o : Node}
    (h : (a, Node.tf "containsOperation", o) ∈ g'.triples) :
    (a, Node.tf "containsOperation", o) ∈ g.triples ∨ (a = root ∧ c.withOperators = true ∧
      c.withMembership = true ∧ ∃ k, (Node.b k, Node.tf "via", o) ∈ g'.triples ∧
        (Node.b k, Node.tf "via", o) ∉ g.triples) := by
  rcases S.cO_justified_node h with h | ⟨ha, hO, hM, k, hk, hm⟩
  · exact .inl h
  · exact .inr ⟨ha, hO, hM, k, hm, not_mem_of_inRange hwf hk _ _⟩

theorem initGraph_freshAbove (G : GLang) (c : GCfg) : FreshAbove (initGraph G c) := by
  intro t ht
  have : (initGraph G c).triples = [] := by unfold initGraph; split <;> rfl
  rw [this] at ht
  cases ht

end expr

end Tfv
