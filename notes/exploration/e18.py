import sys, hashlib, re, warnings
warnings.filterwarnings('ignore')
REPO=sys.argv[1]; sys.path.insert(0,REPO)
from transforge.type import *
from transforge.type import _
from transforge.expr import *
from transforge.lang import *
from transforge.graph import *
from transforge.workflow import *
from rdflib import BNode, Graph
from rdflib.compare import to_canonical_graph
A=TypeOperator('A'); B=TypeOperator('B',supertype=A); C=TypeOperator('C',supertype=B); D=TypeOperator('D',supertype=A)
F=TypeOperator('F',params=1); G=TypeOperator('G',params=2)
ops=dict(
 ab=Operator(type=A**B,name='ab'), g=Operator(type=lambda x: x**x,name='g'), h=Operator(type=lambda x: x**x**x,name='h'),
 w=Operator(type=lambda x: x**F(x),name='w'), k=Operator(type=lambda x,y: x**y**G(x,y) [x << [A, F(_)], y <= A],name='k'),
 m=Operator(type=(A**A)**A**A, name='m'),
)
lang=Language(dict(A=A,B=B,C=C,D=D,F=F,G=G,**ops), namespace=TEST, canon={Top,A,F(A),G(A,A)})
def h(g):
    lines=[]
    for s,p,o in to_canonical_graph(g):
        lines.append(re.sub(r'τ\d+','τ',f'{s.n3()} {p.n3()} {o.n3()}'))
    return hashlib.sha1('\n'.join(sorted(lines)).encode()).hexdigest()[:10], len(lines)
out=[]
v=TransformationGraph(lang, with_canonical_types=True); v.add_vocabulary(); out.append(('vocab',)+h(v))
g=TransformationGraph(lang); g.add_expr(lang.parse('k (h (-: B) (-: C)) (m g (h 1 (-: C)))', Source()), TEST.root); out.append(('expr',)+h(g))
g=TransformationGraph(lang)
g.add_workflow(WorkflowDict(TEST.root, {TEST.t1:('h (1: B) (g 2)',[TEST.s1,TEST.s2]), TEST.t2:('k 1 (ab (2: A))',[TEST.t1,TEST.s2]), TEST.t3:('h 1 (w 2)' if False else 'm g (h 1 2)',[TEST.t1, TEST.s1]), TEST.t4:('k (1) (2)',[TEST.t2 if False else TEST.t3, TEST.s2]) , TEST.t5:('h (w 1) (w 2)',[TEST.t4 if False else TEST.t3, TEST.t2 if False else TEST.t3])} if False else {TEST.t1:('h (1: B) (g 2)',[TEST.s1,TEST.s2]), TEST.t2:('k (m g 1) (ab (2: A))',[TEST.t1,TEST.s2])}, {TEST.s1,TEST.s2}))
out.append(('wf',)+h(g))
print(out)
