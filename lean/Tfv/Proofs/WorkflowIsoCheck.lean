import Tfv.Proofs.WorkflowIsoEquiv
import Tfv.Proofs.GraphExamples
/-!
# A sound checker for graph isomorphism under a given renaming; the two example workflows, kernel checked
-/
namespace Tfv

/-- all triples of a renamed state are the renamed triples (as lists) -/
theorem SRen.allTriples {ρ : Nat → Nat} (hρ : Function.Injective ρ) {g g' : GState} (h : SRen ρ g g') :
    g'.allTriples = g.allTriples.map (renT ρ) := by
  unfold GState.allTriples
  rw [h.triples, h.fd]
  simp only [renFD, eraseDups_map_inj' (renP_inj hρ), List.map_append, List.map_map]
  rfl

theorem SRen.giso {ρ : Nat → Nat} (hρ : Function.Injective ρ) {g g' : GState} (h : SRen ρ g g') :
    GIso ρ g.allTriples g'.allTriples :=
  GIso.of_injective hρ (fun t => by rw [h.allTriples hρ])

/-- the renaming given by a finite table (identity shifted out of the way elsewhere) -/
def ρOf (l : List (Nat × Nat)) (n : Nat) : Nat := ((l.find? (fun p => p.1 == n)).map (·.2)).getD (1000 + n)

/-- the blank nodes of a graph -/
def nodesOfG (a : List Triple) : List Nat := a.flatMap nodesOfT

/-- `ρ` is injective on the blank nodes of `a`, and `b` and the renamed `a` have the same triples -/
def isoB (ρ : Nat → Nat) (a b : List Triple) : Bool :=
  (nodesOfG a).all (fun k => (nodesOfG a).all (fun k' => ρ k != ρ k' || k == k')) &&
    b.all (fun t => (a.map (renT ρ)).contains t) && (a.map (renT ρ)).all (fun t => b.contains t)

theorem isoB_sound {ρ : Nat → Nat} {a b : List Triple} (h : isoB ρ a b = true) : GIso ρ a b := by
  simp only [isoB, Bool.and_eq_true, List.all_eq_true, Bool.or_eq_true, bne_iff_ne, beq_iff_eq,
    List.contains_iff_mem] at h
  obtain ⟨⟨h1, h2⟩, h3⟩ := h
  refine ⟨?_, fun t => ⟨h2 t, h3 t⟩⟩
  intro t ht t' ht' k hk k' hk' he
  have hm : k ∈ nodesOfG a := List.mem_flatMap.2 ⟨t, ht, hk⟩
  have hm' : k' ∈ nodesOfG a := List.mem_flatMap.2 ⟨t', ht', hk'⟩
  rcases h1 k hm k' hm' with hne | heq
  · exact (hne he).elim
  · exact heq

/-! ## searching the renaming: anchors (registered sources and tags) plus all injections of the remaining nodes -/

/-- all injections of `xs` into `ys`, as association lists -/
def injections : List Nat → List Nat → List (List (Nat × Nat))
  | [], _ => [[]]
  | x :: xs, ys => ys.flatMap (fun y => (injections xs (ys.erase y)).map (fun m => (x, y) :: m))

/-- the pairs (node in `gd`, node in `gw`) of the sources and tags registered in both states -/
def anchorsOf (gd gw : GState) : List (Nat × Nat) :=
  gd.sharedNodes.filterMap (fun p => (gw.sharedNodes.find? (fun q => q.1 == p.1)).map (fun q => (p.2, q.2))) ++
    gd.srcNodes.filterMap (fun p => (gw.srcNodes.find? (fun q => q.1 == p.1)).map (fun q => (p.2, q.2)))

/-- look for a renaming that extends `anchors` and passes the check `isoB` -/
def findIso (anchors : List (Nat × Nat)) (a b : List Triple) : Option (List (Nat × Nat)) :=
  let na := (nodesOfG a).eraseDups.filter (fun n => !(anchors.map (·.1)).contains n)
  let nb := (nodesOfG b).eraseDups.filter (fun n => !(anchors.map (·.2)).contains n)
  ((injections na nb).map (anchors ++ ·)).find? (fun m => isoB (ρOf m) a b)

theorem findIso_sound {anchors : List (Nat × Nat)} {a b : List Triple} {m : List (Nat × Nat)}
    (h : findIso anchors a b = some m) : GIso (ρOf m) a b :=
  isoB_sound (List.find?_some (p := fun m => isoB (ρOf m) a b) h)

namespace IsoEx
open Tfv.GraphEx

/-- the default configuration without `tf:origin` annotations (types, supertypes, membership, dependencies: on) -/
def c0 : GCfg := { withWorkflowOrigin := false }

def wfRoot' : Node := Node.res "workflow"

/-- the inlined expression of the target of `wf1` -/
def wf1inl' : TExpr :=
  .shared 2 (.app (.op "g" (tmFn tmB tmC)) (.shared 1 (.app (.op "f" (tmFn tmA tmB)) (.src 0 none tmA) tmB)) tmC)

/-- the workflow graph of `wf1` after the target stage -/
def wf1W : Except WErr (GState × Nat) := wfNode exG c0 wf1 wfRoot' wf1exprs 4 (initGraph exG c0) 2
/-- one `addExpr` call on the inlined expression of the target -/
def wf1D : Except GErr (GState × Nat) := addExpr exG c0 wfRoot' none (initGraph exG c0) wf1inl' none false

def ρ1 : Nat → Nat := ρOf [(0, 3), (1, 1), (2, 0)]

/-- both runs succeed, the workflow graph is the renamed graph of the single call, the output nodes correspond -/
def okIso (ρ : Nat → Nat) (d : Except GErr (GState × Nat)) (w : Except WErr (GState × Nat)) : Bool :=
  match d, w with
  | .ok d, .ok w => isoB ρ d.1.allTriples w.1.allTriples && ρ d.2 == w.2 && !(d.1.allTriples == w.1.allTriples)
      && d.1.allTriples.length > 8
  | _, _ => false

theorem okIso_spec {ρ : Nat → Nat} {d : Except GErr (GState × Nat)} {w : Except WErr (GState × Nat)}
    (h : okIso ρ d w = true) :
    ∃ gd nd gw nw, d = .ok (gd, nd) ∧ w = .ok (gw, nw) ∧ GIso ρ gd.allTriples gw.allTriples ∧ ρ nd = nw ∧
      gd.allTriples ≠ gw.allTriples := by
  unfold okIso at h
  split at h
  · rename_i d' w'
    simp only [Bool.and_eq_true, beq_iff_eq, Bool.not_eq_true', beq_eq_false_iff_ne, decide_eq_true_eq] at h
    exact ⟨d'.1, d'.2, w'.1, w'.2, rfl, rfl, isoB_sound h.1.1.1, h.1.1.2, h.1.2⟩
  · cases h

theorem wf1_okIso : okIso ρ1 wf1D wf1W = true := by
  unfold wf1D wf1W wf1inl'
  simp only [wfNode, wf1exprs, wf1, Wf.app?, List.find?, Option.map, Nat.reduceBEq, List.contains, List.elem,
    List.foldlM]
  graph_eval

/-! ### the diamond workflow `wf2` of `Tfv/Props/C12.lean`: `r1 = f r0`, `r2 = g r1`, `r3 = h r1 r2` -/

def wf2' : Wf := { sources := [0], apps := [
  { out := 1, toks := ["f", "1"], inputs := [0] },
  { out := 2, toks := ["g", "1"], inputs := [1] },
  { out := 3, toks := ["h", "1", "2"], inputs := [1, 2] }] }

def e2r1 : TExpr := .shared 1 (.app (.op "f" (tmFn tmA tmB)) (.src 4 none tmA) tmB)
def e2r2 : TExpr := .shared 2 (.app (.op "g" (tmFn tmB tmC)) e2r1 tmC)
def e2r3 : TExpr :=
  .shared 3 (.app (.app (.op "h" (tmFn tmB (tmFn tmC tmC))) e2r1 (tmFn tmC tmC)) e2r2 tmC)

/-- the final table of `wf2` (passthrough), as `add_workflow` computes it (compared by evaluation in `Props/C12Iso`);
every entry is its own inlined expression -/
def wf2exprs : List (Nat × TExpr) := [(0, .src 4 none tmA), (1, e2r1), (2, e2r2), (3, e2r3)]

def wf2W : Except WErr (GState × Nat) := wfNode exG c0 wf2' wfRoot' wf2exprs 5 (initGraph exG c0) 3
def wf2D : Except GErr (GState × Nat) := addExpr exG c0 wfRoot' none (initGraph exG c0) e2r3 none false

def ρ2 : Nat → Nat := ρOf [(0, 5), (1, 1), (2, 0), (3, 3)]

theorem wf2_okIso : okIso ρ2 wf2D wf2W = true := by
  unfold wf2D wf2W e2r3 e2r2 e2r1
  simp only [wfNode, wf2exprs, e2r3, e2r2, e2r1, wf2', Wf.app?, List.find?, Option.map, Nat.reduceBEq, List.contains,
    List.elem, List.foldlM]
  graph_eval

end IsoEx
end Tfv
