import Tfv.Proofs.FrameConstrEngine
import Tfv.Proofs.SchedSoundEq
import Tfv.Proofs.SchedOrd
/-!
# C18 — constraints over disjoint variables, part 1: definitions and store lemmas

A *region* `R` (Spec/HistoryConstr.lean) that is closed in a store and all of whose constraint sets hold
copies of ONE constraint `c0` only (`OnlyC c0 R σ`). Inside such a region every list a scheduled
`check_constraints` hands to the schedule is constant, so any schedule that leaves constant lists alone
(`OrdConst`: every schedule that permutes its argument, in particular every `priorityOrd perm`) is the
identity there. This file: the invariant and the store operations that keep it.
-/
namespace Tfv.C18D
open Tfv Tfv.C03P Tfv.C16P Tfv.C03C Tfv.C18P Tfv.C16C

/-- every member of the list is the constraint `c0` -/
def AllEq (c0 : Nat) (l : List Nat) : Prop := ∀ x, x ∈ l → x = c0

/-- the schedule leaves a list alone whenever all its members are the same constraint -/
def OrdConst (ord : List Nat → List Nat) : Prop := ∀ c0 l, AllEq c0 l → ord l = l

/-- every allocated variable points to an allocated constraint-set object (true of every store the engine builds:
a variable is created together with its set) -/
def KAlloc (σ : Store) : Prop := ∀ v, v < σ.vars.length → (getVar σ v).cset < σ.csets.length

/-- every constraint set of the region holds (copies of) the constraint `c0` only; and the store is `KAlloc` -/
structure OnlyC (c0 : Nat) (R : Region) (σ : Store) : Prop where
  only : ∀ k, R.K k → AllEq c0 (getCset σ k)
  kal : KAlloc σ

theorem allEq_nil (c0 : Nat) : AllEq c0 [] := fun _ h => nomatch h

theorem allEq_union {c0 : Nat} {a b : List Nat} (ha : AllEq c0 a) (hb : AllEq c0 b) :
    AllEq c0 (unionSorted a b) := fun x hx => by
  rcases mem_unionSorted _ _ hx with h | h
  · exact ha x h
  · exact hb x h

theorem allEq_filter {c0 : Nat} {a : List Nat} (p : Nat → Bool) (ha : AllEq c0 a) : AllEq c0 (a.filter p) :=
  fun x hx => ha x (List.mem_filter.mp hx).1

theorem allEq_insert {c0 : Nat} {a : List Nat} (ha : AllEq c0 a) : AllEq c0 (insertSorted c0 a) := fun x hx => by
  rcases mem_insertSorted hx with h | h
  · exact h
  · exact ha x h

/-- a rearrangement of a constant list is the list itself -/
theorem perm_allEq {c0 : Nat} {l l' : List Nat} (hp : l'.Perm l) (h : AllEq c0 l) : l' = l := by
  have e1 : l = List.replicate l.length c0 := List.eq_replicate_iff.mpr ⟨rfl, h⟩
  have e2 : l' = List.replicate l.length c0 :=
    List.eq_replicate_iff.mpr ⟨hp.length_eq, fun b hb => h b (hp.mem_iff.mp hb)⟩
  rw [e2]; exact e1.symm

/-- every schedule that only rearranges its argument leaves constant lists alone -/
theorem ordConst_of_perm {ord : List Nat → List Nat} (h : ∀ l, (ord l).Perm l) : OrdConst ord :=
  fun _ l hl => perm_allEq (h l) hl

theorem ordConst_priorityOrd (perm : List Nat) : OrdConst (priorityOrd perm) :=
  ordConst_of_perm (priorityOrd_perm perm)

/-! ## the store operations keep `OnlyC` -/

variable {c0 : Nat} {R : Region}

theorem kAlloc_setVar {σ : Store} (h : KAlloc σ) (v : Nat) (i : VarInfo)
    (hi : v < σ.vars.length → i.cset < σ.csets.length) : KAlloc (setVar σ v i) := by
  intro w hw
  rw [length_setVar] at hw
  rw [getVar_setVar]
  split
  · next e => exact hi e.2
  · exact h w hw

theorem kAlloc_newVar {σ : Store} (h : KAlloc σ) (wc : Bool) : KAlloc (newVar σ wc).1 := by
  intro w hw
  rw [length_newVar] at hw
  rw [length_csets_newVar]
  by_cases hlt : w < σ.vars.length
  · rw [getVar_newVar_lt hlt]; exact Nat.lt_succ_of_lt (h w hlt)
  · have e : w = σ.vars.length := by omega
    subst e
    rw [getVar_newVar_eq]
    exact Nat.lt_succ_self _

theorem onlyC_setVar {σ : Store} (h : OnlyC c0 R σ) (v : Nat) (i : VarInfo)
    (hi : v < σ.vars.length → i.cset < σ.csets.length) : OnlyC c0 R (setVar σ v i) :=
  ⟨fun k hk => h.only k hk, kAlloc_setVar h.kal v i hi⟩

theorem onlyC_setConstr {σ : Store} (h : OnlyC c0 R σ) (c : Nat) (x : Constr) : OnlyC c0 R (setConstr σ c x) :=
  ⟨fun k hk => h.only k hk, fun v hv => h.kal v hv⟩

theorem onlyC_setCset {σ : Store} (h : OnlyC c0 R σ) (k : Nat) {cs : List Nat} (hcs : AllEq c0 cs) :
    OnlyC c0 R (setCset σ k cs) := by
  refine ⟨fun j hj => ?_, fun v hv => ?_⟩
  · rw [getCset_setCset]
    split
    · exact hcs
    · exact h.only j hj
  · rw [length_csets_setCset]; exact h.kal v hv

theorem onlyC_newVar {σ : Store} (h : OnlyC c0 R σ) (wc : Bool) : OnlyC c0 R (newVar σ wc).1 :=
  ⟨fun j hj => by rw [getCset_newVar]; exact h.only j hj, kAlloc_newVar h.kal wc⟩

theorem onlyC_newVars : ∀ (n : Nat) {σ : Store}, OnlyC c0 R σ → OnlyC c0 R (newVars σ n).1
  | 0, _, h => h
  | n+1, σ, h => by
    unfold newVars
    exact onlyC_newVars n (onlyC_newVar h false)

theorem onlyC_foldl_setK (k0 : Nat) (vars : List Nat) : ∀ (σ : Store), k0 < σ.csets.length → OnlyC c0 R σ →
    OnlyC c0 R (vars.foldl (fun σ w => setVar σ w { (getVar σ w) with cset := k0 }) σ) := by
  induction vars with
  | nil => intro σ _ h; exact h
  | cons w ws ih => intro σ hk h; exact ih _ hk (onlyC_setVar h _ _ (fun _ => hk))

theorem onlyC_bindBaseStore {σ : Store} (h : OnlyC c0 R σ) (v : Nat) (t : Term) :
    OnlyC c0 R (bindBaseStore σ v t) := by
  have o1 : OnlyC c0 R (setVar σ v (clearW σ v)) := onlyC_setVar h v _ (fun hv => h.kal v hv)
  exact onlyC_setVar o1 v { (clearW σ v) with bound := some t }
    (fun hv => by rw [length_setVar] at hv; exact h.kal v hv)

theorem onlyC_bindVarStore {σ : Store} (hc : ClosedC σ R) (h : OnlyC c0 R σ) {v tv : Nat}
    (hv : InStore σ R.S v) (htv : InStore σ R.S tv) : OnlyC c0 R (bindVarStore σ v tv) := by
  have f0 := frC_bindBaseStore hc hv (termInR_var.mpr htv)
  have o2 : OnlyC c0 R (bindBaseStore σ v (.var tv)) := onlyC_bindBaseStore h v _
  have hki : R.K (clearW σ v).cset := hc.cs v hv.2 hv.1
  have hkt := f0.closed.cs tv (f0.ins htv).2 htv.1
  have hkl := o2.kal tv (f0.ins htv).2
  have o3 := onlyC_setCset o2 (getVar (bindBaseStore σ v (.var tv)) tv).cset
    (allEq_union (o2.only _ hkt) (o2.only _ hki))
  have o4 := onlyC_setVar o3 v { (getVar (setCset (bindBaseStore σ v (.var tv))
      (getVar (bindBaseStore σ v (.var tv)) tv).cset (unionSorted (getCset (bindBaseStore σ v (.var tv))
      (getVar (bindBaseStore σ v (.var tv)) tv).cset) (getCset (bindBaseStore σ v (.var tv)) (clearW σ v).cset))) v)
      with cset := (getVar (bindBaseStore σ v (.var tv)) tv).cset }
    (fun _ => by rw [length_csets_setCset]; exact hkl)
  exact onlyC_setVar o4 tv _ (fun h4 => o4.kal tv h4)

theorem allEq_merged {σ : Store} : ∀ (vars : List Nat),
    (∀ w, w ∈ vars → AllEq c0 (getCset σ (getVar σ w).cset)) →
    ∀ (init : List Nat), AllEq c0 init →
    AllEq c0 (vars.foldl (fun acc w => unionSorted acc (getCset σ (getVar σ w).cset)) init)
  | [], _, _, h => h
  | w :: ws, hv, init, h => by
    simp only [List.foldl_cons]
    exact allEq_merged ws (fun x hx => hv x (List.mem_cons_of_mem _ hx)) _
      (allEq_union h (hv w List.mem_cons_self))

theorem onlyC_bindAppStore {σ : Store} (hc : ClosedC σ R) (h : OnlyC c0 R σ) {v : Nat}
    (hv : InStore σ R.S v) {t : Term} (ht : TermInR σ R.S t) : OnlyC c0 R (bindAppStore σ v t) := by
  have f0 := frC_bindBaseStore hc hv ht
  have o0 : OnlyC c0 R (bindBaseStore σ v t) := onlyC_bindBaseStore h v t
  have hki : R.K (clearW σ v).cset := hc.cs v hv.2 hv.1
  have hvars : ∀ x, x ∈ directVars (bindBaseStore σ v t) (termFuel (bindBaseStore σ v t)) t [] →
      InStore (bindBaseStore σ v t) R.S x :=
    directVars_in f0.closed.closed _ _ _ (f0.tin ht) (fun x hx => nomatch hx)
  unfold bindAppStore
  simp only []
  apply onlyC_foldl_setK
  · rw [length_csets_setCset]; exact h.kal v hv.2
  refine onlyC_setCset o0 _ ?_
  refine allEq_merged _ (fun w hw => ?_) _ (o0.only _ hki)
  exact o0.only _ (f0.closed.cs w (hvars w hw).2 (hvars w hw).1)

/-! ## outcomes -/

/-- the scheduled call and the model call give the same result, and a successful result stays inside the
region and keeps `OnlyC` -/
def GoodE (c0 : Nat) (R : Region) (σ : Store) (r₁ r₂ : Except Err Store) : Prop :=
  r₁ = r₂ ∧ ∀ σ', r₂ = .ok σ' → FrC R σ σ' ∧ OnlyC c0 R σ'

/-- the same for calls that return a value, which satisfies `P` -/
def GoodEP {α : Type} (c0 : Nat) (R : Region) (σ : Store) (P : Store → α → Prop)
    (r₁ r₂ : Except Err (Store × α)) : Prop :=
  r₁ = r₂ ∧ ∀ σ' x, r₂ = .ok (σ', x) → FrC R σ σ' ∧ OnlyC c0 R σ' ∧ P σ' x

theorem goodE_error {σ : Store} (e : Err) : GoodE c0 R σ (.error e) (.error e) :=
  ⟨rfl, fun _ h => by cases h⟩

theorem goodE_ok {σ σ1 : Store} (f : FrC R σ σ1) (o : OnlyC c0 R σ1) : GoodE c0 R σ (.ok σ1) (.ok σ1) :=
  ⟨rfl, fun σ' e => by injection e with e; subst e; exact ⟨f, o⟩⟩

theorem goodE_from {σ σm : Store} {r₁ r₂ : Except Err Store} (f : FrC R σ σm) (h : GoodE c0 R σm r₁ r₂) :
    GoodE c0 R σ r₁ r₂ :=
  ⟨h.1, fun σ' e => ⟨f.trans (h.2 σ' e).1, (h.2 σ' e).2⟩⟩

theorem goodEP_error {α : Type} {σ : Store} {P : Store → α → Prop} (e : Err) :
    GoodEP c0 R σ P (.error e) (.error e) := ⟨rfl, fun _ _ h => by cases h⟩

theorem goodEP_ok {α : Type} {σ σ1 : Store} {P : Store → α → Prop} {x : α} (f : FrC R σ σ1)
    (o : OnlyC c0 R σ1) (p : P σ1 x) : GoodEP c0 R σ P (.ok (σ1, x)) (.ok (σ1, x)) :=
  ⟨rfl, fun σ' y e => by
    injection e with e; injection e with e1 e2; subst e1; subst e2; exact ⟨f, o, p⟩⟩

theorem goodEP_from {α : Type} {σ σm : Store} {P : Store → α → Prop} {r₁ r₂ : Except Err (Store × α)}
    (f : FrC R σ σm) (h : GoodEP c0 R σm P r₁ r₂) : GoodEP c0 R σ P r₁ r₂ :=
  ⟨h.1, fun σ' x e => ⟨f.trans (h.2 σ' x e).1, (h.2 σ' x e).2⟩⟩

theorem goodE_ite {σ : Store} {c : Prop} [Decidable c] {a₁ a₂ b₁ b₂ : Except Err Store}
    (ha : c → GoodE c0 R σ a₁ a₂) (hb : ¬ c → GoodE c0 R σ b₁ b₂) :
    GoodE c0 R σ (if c then a₁ else b₁) (if c then a₂ else b₂) := by
  by_cases h : c
  · rw [if_pos h, if_pos h]; exact ha h
  · rw [if_neg h, if_neg h]; exact hb h

theorem goodEP_ite {α : Type} {σ : Store} {P : Store → α → Prop} {c : Prop} [Decidable c]
    {a₁ a₂ b₁ b₂ : Except Err (Store × α)}
    (ha : c → GoodEP c0 R σ P a₁ a₂) (hb : ¬ c → GoodEP c0 R σ P b₁ b₂) :
    GoodEP c0 R σ P (if c then a₁ else b₁) (if c then a₂ else b₂) := by
  by_cases h : c
  · rw [if_pos h, if_pos h]; exact ha h
  · rw [if_neg h, if_neg h]; exact hb h

/-- sequencing two store operations -/
theorem goodE_seq {σ : Store} {r₁ r₂ : Except Err Store} {k₁ k₂ : Store → Except Err Store} :
    GoodE c0 R σ r₁ r₂ →
    (∀ σ1, FrC R σ σ1 → OnlyC c0 R σ1 → GoodE c0 R σ1 (k₁ σ1) (k₂ σ1)) →
    GoodE c0 R σ (match r₁ with | .error e => .error e | .ok σ => k₁ σ)
      (match r₂ with | .error e => .error e | .ok σ => k₂ σ) := by
  intro h hk
  rw [h.1]
  split
  · exact goodE_error _
  · next σ1 =>
    obtain ⟨f1, o1⟩ := h.2 σ1 rfl
    exact goodE_from f1 (hk σ1 f1 o1)

theorem goodEP_seq {α : Type} {σ : Store} {P : Store → α → Prop} {r₁ r₂ : Except Err Store}
    {k₁ k₂ : Store → Except Err (Store × α)} : GoodE c0 R σ r₁ r₂ →
    (∀ σ1, FrC R σ σ1 → OnlyC c0 R σ1 → GoodEP c0 R σ1 P (k₁ σ1) (k₂ σ1)) →
    GoodEP c0 R σ P (match r₁ with | .error e => .error e | .ok σ => k₁ σ)
      (match r₂ with | .error e => .error e | .ok σ => k₂ σ) := by
  intro h hk
  rw [h.1]
  split
  · exact goodEP_error _
  · next σ1 =>
    obtain ⟨f1, o1⟩ := h.2 σ1 rfl
    exact goodEP_from f1 (hk σ1 f1 o1)

end Tfv.C18D
