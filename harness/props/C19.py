"""C19 - graph generation is deterministic up to blank-node renaming."""
from __future__ import annotations
import json, os, subprocess, sys

RULE = ("for seeded, deterministically generated languages (constraint alternatives as lists), expressions and workflows: the vocabulary (with and without "
        "closure; labels and printed signatures on), expression graphs and workflow graphs (random with_* switches, labels on) are generated in fresh "
        "interpreters with PYTHONHASHSEED 0, 1, 2, 3 and 'random', and once more after unrelated graphs and junk allocations from the same language with the "
        "tool applications listed in reverse; of each graph (running numbers of printed variable names removed, nothing else) an isomorphism-invariant digest is taken (harness/iso.py, colour refinement) "
        "and compared across all runs, equal digests are confirmed by an exact isomorphism test; non-trivial = the graph has at least 10 triples; distinct by graph identity")
ASSUMPTIONS = ["hash-seed and allocation-history dependence is runtime behaviour the Lean model cannot exhibit: the theorems cover order-independence of the "
               "model's set-iterating steps (canon work list, emission order), the runtime part is exercised here"]
TRUSTED = ["harness/workers/c19_worker.py", "harness/iso.py (invariant digest, exact isomorphism)"]

HERE = os.path.dirname(os.path.dirname(os.path.abspath(__file__)))


def make_plan(seed, nlang):
    """the inputs are generated once, in one interpreter, and handed to every worker (see workers/c19_worker.py: make_plan)"""
    import tempfile
    env = dict(os.environ)
    env["PYTHONHASHSEED"] = "0"
    env["TRANSFORGE_VERIF"] = "1"
    p = subprocess.run([sys.executable, os.path.join(HERE, "workers", "c19_worker.py"), "plan", str(seed), str(nlang)],
        stdout=subprocess.PIPE, stderr=subprocess.PIPE, text=True, env=env, timeout=1200)
    if p.returncode != 0:
        raise RuntimeError("plan worker failed: " + p.stderr[-800:])
    d = os.path.join(os.path.dirname(HERE), "replays", "C19")
    os.makedirs(d, exist_ok=True)
    fd, path = tempfile.mkstemp(prefix="c19plan_", suffix=".json", dir=d)
    with os.fdopen(fd, "w") as f:
        f.write(p.stdout.strip().splitlines()[-1])
    return path


def worker(planfile, seed, hashseed, unrelated):
    env = dict(os.environ)
    env["PYTHONHASHSEED"] = str(hashseed)
    env["TRANSFORGE_VERIF"] = "1"
    p = subprocess.run([sys.executable, os.path.join(HERE, "workers", "c19_worker.py"), "run", planfile, "1" if unrelated else "0", str(seed)],
        stdout=subprocess.PIPE, stderr=subprocess.PIPE, text=True, env=env, timeout=1200)
    if p.returncode != 0:
        raise RuntimeError("worker failed: " + p.stderr[-800:])
    return json.loads(p.stdout.strip().splitlines()[-1])


def exact_same(a, b):
    """the digest is isomorphism-invariant but not complete: confirm by an exact isomorphism test (harness/iso.py)"""
    import iso
    return iso.isomorphic_triples([tuple(t) for t in a.get("triples", [])], [tuple(t) for t in b.get("triples", [])])


def run(ctx):
    nlang = 10 if ctx.tier == "quick" else 30
    seeds = [ctx.seed * 7 + 1] if ctx.tier == "quick" else [ctx.seed * 7 + k for k in range(1, 4)]
    for seed in seeds:
        configs = [("0", False), ("1", False), ("2", False), ("random", False), ("3", True)]
        if ctx.tier == "thorough":
            configs += [("4", False), ("random", True), ("5", True)]
        from concurrent.futures import ThreadPoolExecutor
        planfile = make_plan(seed, nlang)
        try:
            with ThreadPoolExecutor(max_workers=8) as ex:
                runs = list(ex.map(lambda c: worker(planfile, seed, c[0], c[1]), configs))
        finally:
            os.unlink(planfile)
        base = runs[0]
        for i, item in enumerate(base):
            ctx.evaluations += 1
            if item.get("n", 0) >= 10:
                ctx.distinct.add((seed, item["what"]))
            kind = item["what"].split("/")[1] if "/" in item["what"] else "lang"
            ctx.count("graphs_" + kind)
            digests = {}
            for (hs, unrel), r in zip(configs, runs):
                d = r[i]["digest"] if i < len(r) and r[i]["what"] == item["what"] else "missing/" + (r[i]["what"] if i < len(r) else "-")
                if d == item["digest"] and r is not base and not d.startswith("E:") and not exact_same(item, r[i]):
                    d += "!not-isomorphic"     # equal colour-refinement digests, yet no isomorphism exists
                digests[f"hashseed={hs}{',after-unrelated' if unrel else ''}"] = d
            # the literal text with the running numbers removed must agree in every run, printed order included. When NO run yields a graph
            # (every run is refused, by whatever error) there is nothing the property compares: WHICH typing error is raised when several
            # requirements are violated follows the iteration order of constraint sets and the listing order (known findings D14/D20 of C18,
            # D26 of C12; thorough seed 113: a language refused with ConstraintViolation in some interpreters and TypeMismatch in others)
            def collapse(v):
                return "E" if v.startswith("E:") or v.startswith("rejected:") else v
            same_history = {collapse(v) for k, v in digests.items() if "after" not in k}
            across = {collapse(v) for v in digests.values()}
            if len(same_history) > 1 or len(across) > 1:
                ctx.fail(f"{item['what']}: canonical graph differs between runs: {digests}",
                    {"check": "nondeterminism", "kind": kind, "only_after_unrelated": len(same_history) == 1},
                    {"seed": seed, "nlang": nlang, "what": item["what"], "digests": digests})
        if len(ctx.samples) < 3:
            ctx.samples.append({"case": base[0]["what"], "impl": base[0]["digest"]})


def replay(ctx, payload):
    inp = payload["input"]
    planfile = make_plan(inp["seed"], inp["nlang"])
    try:
        runs = [worker(planfile, inp["seed"], hs, un) for hs, un in (("0", False), ("1", False), ("random", False), ("3", True))]
    finally:
        os.unlink(planfile)
    ok = True
    for i, item in enumerate(runs[0]):
        if item["what"] == inp["what"]:
            ds = [r[i]["digest"] for r in runs]
            print(item["what"], ds)
            ok = len({("E" if d.startswith("E:") or d.startswith("rejected:") else d) for d in ds}) == 1
    return ok
