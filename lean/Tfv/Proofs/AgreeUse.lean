import Tfv.Proofs.Agree
import Tfv.Proofs.History
/-!
# The engine reads only what it can reach (C16), part 5: `applyT`, `instantiate`, whole uses

The set `S` is closed upwards (contains every index not yet allocated), so that freshly
allocated variables belong to it.
-/
namespace Tfv.C16P
open Tfv Tfv.C03P

theorem Agree.newVar {S : Nat → Prop} {τ τ' : Store} (a : Agree S τ τ') (wc : Bool) :
    Agree S (Tfv.newVar τ wc).1 (Tfv.newVar τ' wc).1 := by
  refine ⟨by rw [length_newVar, length_newVar, a.vlen], ?_, fun v hv => ?_, nc_newVar a.nc _,
    nc_newVar a.nc' _, closed_newVar a.closed _⟩
  · unfold Tfv.newVar; simp only [List.length_append, List.length_cons, List.length_nil, a.clen]
  · by_cases h : v < τ.vars.length
    · rw [getVar_newVar_lt (by rw [a.vlen]; exact h), getVar_newVar_lt h]; exact a.same v hv
    · by_cases h2 : v = τ.vars.length
      · subst h2
        unfold getVar Tfv.newVar
        simp only [List.getD_eq_getElem?_getD]
        rw [List.getElem?_append_right (by rw [a.vlen]; exact Nat.le_refl _),
          List.getElem?_append_right (Nat.le_refl _)]
        simp only [a.vlen, a.clen, Nat.sub_self]
      · rw [getVar_oor (by rw [length_newVar, a.vlen]; omega), getVar_oor (by rw [length_newVar]; omega)]

theorem Agree.snd_newVar {S : Nat → Prop} {τ τ' : Store} (a : Agree S τ τ') (wc : Bool) :
    (Tfv.newVar τ' wc).2 = (Tfv.newVar τ wc).2 := by
  rw [C03P.snd_newVar, C03P.snd_newVar, a.vlen]

/-! ## 1. `applyT` -/

theorem RelAP.bindP' {S : Nat → Prop} {r r' : Except Err (Store × Term)}
    {g g' : Store → Term → Except Err (Store × Term)} (h : RelAP S r r')
    (hg : ∀ τ1 τ1' t, r = .ok (τ1, t) → Agree S τ1 τ1' → TermIn S t → RelAP S (g τ1 t) (g' τ1' t)) :
    RelAP S (match (generalizing := false) r with | .error e => .error e | .ok (s, t) => g s t)
      (match (generalizing := false) r' with | .error e => .error e | .ok (s, t) => g' s t) := by
  cases r with
  | error e => simp only [RelAP] at h; subst h; exact RelAP.err S e
  | ok p =>
    obtain ⟨τ1, t⟩ := p
    obtain ⟨τ1', e, a, ht⟩ := h
    subst e
    exact hg τ1 τ1' t rfl a ht

theorem applyPre_agree {S : Nat → Prop} {τ τ' : Store} (a : Agree S τ τ') (L : Lang) (n : Nat) (f0 : Term)
    (hup : ∀ v, τ.vars.length ≤ v → S v) (hf : TermIn S f0) :
    RelAP S (applyPre L n τ f0) (applyPre L n τ' f0) := by
  cases f0 with
  | app o args => simp only [applyPre]; exact RelAP.ok a hf
  | var fv =>
    simp only [applyPre]
    have a1 := a.newVar false
    have a2 := a1.newVar false
    rw [a.snd_newVar false, a1.snd_newVar false]
    apply RelAP.bindR
    · refine (all_agree L n).2.2.1 S _ _ fv _ a2 (termIn_var.mp hf) ?_
      refine termIn_app.mpr (termsIn_cons.mpr ⟨termIn_var.mpr (hup _ ?_),
        termsIn_cons.mpr ⟨termIn_var.mpr (hup _ ?_), termsIn_nil⟩⟩)
      · rw [C03P.snd_newVar]; exact Nat.le_refl _
      · rw [C03P.snd_newVar, length_newVar]; omega
    · intro τ3 τ3' a3
      rw [a3.followT hf]
      exact RelAP.ok a3 (followT_in a3.closed hf)

theorem applyPost_agree {S : Nat → Prop} {τ τ' : Store} (a : Agree S τ τ') (L : Lang) (n : Nat)
    (x0 f1 : Term) (fixFlag : Bool) (hx : TermIn S x0) (hf : TermIn S f1) :
    RelAP S (applyPost L n τ x0 f1 fixFlag) (applyPost L n τ' x0 f1 fixFlag) := by
  have top : RelAP S (.ok (τ, .app TOP [])) (.ok (τ', .app TOP [])) := RelAP.ok a (termIn_base _)
  cases f1 with
  | var v => simp only [applyPost]; exact RelAP.err _ _
  | app o args =>
    have other : ∀ (_ : List Term), RelAP S (if o == TOP then .ok (τ, .app TOP []) else .error .functionApplication)
        (if o == TOP then .ok (τ', .app TOP []) else .error .functionApplication) := by
      intro _
      split
      · exact top
      · exact RelAP.err _ _
    match args, hf with
    | [], _ => simp only [applyPost]; exact other []
    | [_], _ => simp only [applyPost]; exact other []
    | _ :: _ :: _ :: _, _ => simp only [applyPost]; exact other []
    | [l, r], hf =>
      obtain ⟨hl, hr⟩ := termsIn_cons.mp (termIn_app.mp hf)
      obtain ⟨hr, _⟩ := termsIn_cons.mp hr
      simp only [applyPost]
      split
      · apply RelAP.bindR ((all_agree L n).1 S τ τ' x0 l a hx hl)
        intro τ1 τ1' a1
        split
        · exact (all_agree L n).2.2.2.2.2.1 S τ1 τ1' r true a1 hr
        · exact RelAP.ok a1 hr
      · exact other []

theorem applyT_agree {S : Nat → Prop} {τ τ' : Store} (a : Agree S τ τ') (L : Lang) (n : Nat) (f x : Term)
    (fixFlag : Bool) (hup : ∀ v, τ.vars.length ≤ v → S v) (hf : TermIn S f) (hx : TermIn S x) :
    RelAP S (applyT L n τ f x fixFlag) (applyT L n τ' f x fixFlag) := by
  rw [applyT_eq, applyT_eq, a.followT hf, a.followT hx]
  apply RelAP.bindP' (applyPre_agree a L n _ hup (followT_in a.closed hf))
  intro τ1 τ1' f1 _ a1 hf1
  exact applyPost_agree a1 L n _ f1 fixFlag (followT_in a.closed hx) hf1

/-! ## 2. chains of applications, `instantiate`, whole uses -/

theorem applyAll_agree {S : Nat → Prop} (L : Lang) (n : Nat) (fixFlag : Bool) :
    ∀ (xs : List Term) (τ τ' : Store) (f : Term), Agree S τ τ' → (∀ v, τ.vars.length ≤ v → S v) →
      TermIn S f → TermsIn S xs →
      RelAP S (applyAll L n fixFlag τ f xs) (applyAll L n fixFlag τ' f xs)
  | [], τ, τ', f, a, _, hf, _ => by rw [applyAll, applyAll]; exact RelAP.ok a hf
  | x :: xs, τ, τ', f, a, hup, hf, hxs => by
    obtain ⟨hx, hxs'⟩ := termsIn_cons.mp hxs
    rw [applyAll, applyAll]
    apply RelAP.bindP' (applyT_agree a L n f x fixFlag hup hf hx)
    intro τ1 τ1' r e a1 hr
    have hlen := (apply_frame a.nc e).1
    exact applyAll_agree L n fixFlag xs τ1 τ1' r a1 (fun v hv => hup v (by omega)) hr hxs'

theorem agree_foldl_newVar {S : Nat → Prop} {α : Type} (wc : Bool) : ∀ (l : List α) (τ τ' : Store),
    Agree S τ τ' →
    Agree S (l.foldl (fun σ _ => (newVar σ wc).1) τ) (l.foldl (fun σ _ => (newVar σ wc).1) τ')
  | [], _, _, a => a
  | _ :: l, _, _, a => by
    simp only [List.foldl_cons]
    exact agree_foldl_newVar wc l _ _ (a.newVar wc)

theorem agree_allocVars {S : Nat → Prop} {τ τ' : Store} (a : Agree S τ τ') (nvars nwild : Nat) :
    Agree S (allocVars τ nvars nwild) (allocVars τ' nvars nwild) := by
  unfold allocVars
  exact agree_foldl_newVar true _ _ _ (agree_foldl_newVar false _ _ _ a)

theorem instantiate_agree {S : Nat → Prop} {τ τ' : Store} (a : Agree S τ τ') (L : Lang) (n : Nat)
    (sc : Schema) (hup : ∀ v, τ.vars.length ≤ v → S v) (hc : sc.constraints = []) :
    RelAP S (instantiate L n τ sc) (instantiate L n τ' sc) := by
  rw [instantiate_eq hc, instantiate_eq hc, a.vlen]
  refine (all_agree L n).2.2.2.2.2.1 S _ _ _ true (agree_allocVars a _ _) ?_
  intro v hv
  obtain ⟨w, _, e⟩ := varIn_shift _ hv
  exact hup v (by omega)

theorem useSchema_agree {S : Nat → Prop} {τ τ' : Store} (a : Agree S τ τ') (L : Lang) (n : Nat)
    (fixFlag : Bool) (sc : Schema) (xs : List Term) (hup : ∀ v, τ.vars.length ≤ v → S v)
    (hc : sc.constraints = []) (hbody : okTermN L (sc.nvars + sc.nwild) sc.body = true)
    (hxs : TermsIn S xs) :
    RelAP S (useSchema L n fixFlag τ sc xs) (useSchema L n fixFlag τ' sc xs) := by
  unfold useSchema
  apply RelAP.bindP' (instantiate_agree a L n sc hup hc)
  intro τ1 τ1' f e a1 hf
  have hlen := (instantiate_fresh hc hbody e).2.2.1
  exact applyAll_agree L n fixFlag xs τ1 τ1' f a1 (fun v hv => hup v (by omega)) hf hxs

/-! ## 3. the statements in terms of `SameOn` -/

theorem agree_of_sameOn {S : Nat → Prop} {τ τ' : Store} (h : SameOn S τ τ') (nc : NoConstraints τ)
    (nc' : NoConstraints τ') (hc : Closed τ S) : Agree S τ τ' :=
  ⟨h.1, h.2.1, h.2.2, nc, nc', hc⟩

theorem Agree.sameOn {S : Nat → Prop} {τ τ' : Store} (a : Agree S τ τ') : SameOn S τ τ' :=
  ⟨a.vlen, a.clen, a.same⟩

theorem sameResult_of_relA {S : Nat → Prop} {r r' : R} (h : RelA S r r') : SameResult S r r' := by
  cases r with
  | error e => exact h
  | ok τ1 => obtain ⟨τ1', e, a⟩ := h; exact ⟨τ1', e, a.sameOn⟩

theorem sameOutcome_of_relAP {S : Nat → Prop} {r r' : Except Err (Store × Term)} (h : RelAP S r r') :
    SameOutcome S r r' := by
  cases r with
  | error e => exact h
  | ok p =>
    obtain ⟨τ1, t⟩ := p
    obtain ⟨τ1', e, a, _⟩ := h
    exact ⟨τ1', e, a.sameOn⟩

/-- unification reads only what is reachable from its arguments -/
theorem unify_unread {L : Lang} {n : Nat} {τ τ' : Store} {a b : Term} (nc : NoConstraints τ)
    (nc' : NoConstraints τ') (h : SameOn (fun v => Reach τ a v ∨ Reach τ b v) τ τ') :
    SameResult (fun v => Reach τ a v ∨ Reach τ b v) (unify L n τ a b true false false)
      (unify L n τ' a b true false false) :=
  sameResult_of_relA ((all_agree L n).1 _ τ τ' a b (agree_of_sameOn h nc nc' (closed_reach2 τ a b))
    (fun _ hv => Or.inl (Reach.here hv)) (fun _ hv => Or.inr (Reach.here hv)))

theorem fix_unread {L : Lang} {n : Nat} {τ τ' : Store} {t : Term} {pl : Bool} (nc : NoConstraints τ)
    (nc' : NoConstraints τ') (h : SameOn (Reach τ t) τ τ') :
    SameOutcome (Reach τ t) (fix L n τ t pl) (fix L n τ' t pl) :=
  sameOutcome_of_relAP ((all_agree L n).2.2.2.2.2.1 _ τ τ' t pl
    (agree_of_sameOn h nc nc' (closed_reach τ t)) (fun _ hv => Reach.here hv))

/-- application reads only what is reachable from the two types (and the not yet allocated
indices, which are empty in both stores) -/
theorem applyT_unread {L : Lang} {n : Nat} {τ τ' : Store} {f x : Term} {fixFlag : Bool}
    (nc : NoConstraints τ) (nc' : NoConstraints τ')
    (h : SameOn (fun v => Reach τ f v ∨ Reach τ x v) τ τ') :
    SameOutcome (fun v => (Reach τ f v ∨ Reach τ x v) ∨ τ.vars.length ≤ v)
      (applyT L n τ f x fixFlag) (applyT L n τ' f x fixFlag) := by
  have hcl : Closed τ (fun v => (Reach τ f v ∨ Reach τ x v) ∨ (τ.vars.length ≤ v ∧ True)) :=
    closed_or_fresh (closed_reach2 τ f x) (fun _ => True)
  have hcl' : Closed τ (fun v => (Reach τ f v ∨ Reach τ x v) ∨ τ.vars.length ≤ v) :=
    closed_congr (fun v => by simp) hcl
  have ag : Agree (fun v => (Reach τ f v ∨ Reach τ x v) ∨ τ.vars.length ≤ v) τ τ' := by
    refine ⟨h.1, h.2.1, fun v hv => ?_, nc, nc', hcl'⟩
    rcases hv with hv | hv
    · exact h.2.2 v hv
    · rw [getVar_oor (by rw [h.1]; omega), getVar_oor (by omega)]
  exact sameOutcome_of_relAP (applyT_agree ag L n f x fixFlag (fun v hv => Or.inr hv)
    (fun _ hv => Or.inl (Or.inl (Reach.here hv))) (fun _ hv => Or.inl (Or.inr (Reach.here hv))))

/-! ## 4. the content of the history is irrelevant -/

theorem closed_append_ge (σ₀ σ : Store) : Closed (σ₀.append σ) (fun v => σ₀.vars.length ≤ v) := by
  intro w b hw hb v hv
  have hw' : σ₀.vars.length ≤ w := hw
  have e : w = (w - σ₀.vars.length) + σ₀.vars.length := by omega
  rw [e, append_bound] at hb
  cases hb' : (getVar σ (w - σ₀.vars.length)).bound with
  | none => rw [hb'] at hb; cases hb
  | some b' =>
    rw [hb'] at hb
    simp only [Option.map_some] at hb
    injection hb with hb
    subst hb
    obtain ⟨u, _, eu⟩ := varIn_shift _ hv
    show σ₀.vars.length ≤ v
    omega

theorem sameOn_append {σ₀ σ₀' : Store} (σ : Store) (hv : σ₀'.vars.length = σ₀.vars.length)
    (hcs : σ₀'.csets.length = σ₀.csets.length) :
    SameOn (fun v => σ₀.vars.length ≤ v) (σ₀.append σ) (σ₀'.append σ) := by
  refine ⟨by rw [length_append, length_append, hv], by rw [clength_append, clength_append, hcs],
    fun v hge => ?_⟩
  have hge' : σ₀.vars.length ≤ v := hge
  obtain ⟨w, rfl⟩ : ∃ w, v = w + σ₀.vars.length := ⟨v - σ₀.vars.length, by omega⟩
  by_cases h : w < σ.vars.length
  · have e := getVar_append_ge (σ₀ := σ₀') h
    rw [hv, hcs] at e
    rw [e, getVar_append_ge h]
  · rw [getVar_oor (by rw [length_append]; omega), getVar_oor (by rw [length_append]; omega)]

theorem agree_append {σ₀ σ₀' σ : Store} (h0 : NoConstraints σ₀) (h0' : NoConstraints σ₀')
    (nc : NoConstraints σ) (hv : σ₀'.vars.length = σ₀.vars.length)
    (hcs : σ₀'.csets.length = σ₀.csets.length) :
    Agree (fun v => σ₀.vars.length ≤ v) (σ₀.append σ) (σ₀'.append σ) :=
  agree_of_sameOn (sameOn_append σ hv hcs) (nc_append h0 nc) (nc_append h0' nc) (closed_append_ge σ₀ σ)

theorem termIn_shift_ge (k : Nat) (t : Term) : TermIn (fun v => k ≤ v) (t.shift k) := by
  intro v hv
  obtain ⟨w, _, e⟩ := varIn_shift _ hv
  show k ≤ v
  omega

theorem termsIn_shiftL_ge (k : Nat) : ∀ ts : List Term, TermsIn (fun v => k ≤ v) (Term.shiftL k ts)
  | [] => by rw [shiftL_nil]; exact termsIn_nil
  | t :: ts => by
    rw [shiftL_cons]
    exact termsIn_cons.mpr ⟨termIn_shift_ge k t, termsIn_shiftL_ge k ts⟩

/-- unification behind two histories of the same size: the same outcome, whatever the
histories contain; and neither history is written to -/
theorem unify_content {L : Lang} {n : Nat} {σ₀ σ₀' σ : Store} {a b : Term} (h0 : NoConstraints σ₀)
    (h0' : NoConstraints σ₀') (nc : NoConstraints σ) (hv : σ₀'.vars.length = σ₀.vars.length)
    (hcs : σ₀'.csets.length = σ₀.csets.length) :
    SameResult (fun v => σ₀.vars.length ≤ v)
      (unify L n (σ₀.append σ) (a.shift σ₀.vars.length) (b.shift σ₀.vars.length) true false false)
      (unify L n (σ₀'.append σ) (a.shift σ₀.vars.length) (b.shift σ₀.vars.length) true false false) :=
  sameResult_of_relA ((all_agree L n).1 _ _ _ _ _ (agree_append h0 h0' nc hv hcs)
    (termIn_shift_ge _ a) (termIn_shift_ge _ b))

theorem unify_history_untouched {L : Lang} {n : Nat} {σ₀ σ τ1 : Store} {a b : Term} (h0 : NoConstraints σ₀)
    (nc : NoConstraints σ)
    (h : unify L n (σ₀.append σ) (a.shift σ₀.vars.length) (b.shift σ₀.vars.length) true false false = .ok τ1) :
    ∀ v, v < σ₀.vars.length → getVar τ1 v = getVar σ₀ v := by
  intro v hv
  have f := (all_frame L n).1 _ _ _ _ τ1 (nc_append h0 nc) (closed_append_ge σ₀ σ)
    (termIn_shift_ge _ a) (termIn_shift_ge _ b) h
  rw [f.frame v (by show ¬ σ₀.vars.length ≤ v; omega), getVar_append_lt hv]

/-- one whole use with ARBITRARY argument types behind two histories of the same size -/
theorem useSchema_content {L : Lang} {n : Nat} {fixFlag : Bool} {σ₀ σ₀' σ : Store} {sc : Schema}
    {xs : List Term} (h0 : NoConstraints σ₀) (h0' : NoConstraints σ₀') (nc : NoConstraints σ)
    (hv : σ₀'.vars.length = σ₀.vars.length) (hcs : σ₀'.csets.length = σ₀.csets.length)
    (hc : sc.constraints = []) (hbody : okTermN L (sc.nvars + sc.nwild) sc.body = true) :
    SameOutcome (fun v => σ₀.vars.length ≤ v)
      (useSchema L n fixFlag (σ₀.append σ) sc (Term.shiftL σ₀.vars.length xs))
      (useSchema L n fixFlag (σ₀'.append σ) sc (Term.shiftL σ₀.vars.length xs)) :=
  sameOutcome_of_relAP (useSchema_agree (agree_append h0 h0' nc hv hcs) L n fixFlag sc _
    (fun v hv => by rw [length_append] at hv; show σ₀.vars.length ≤ v; omega) hc hbody
    (termsIn_shiftL_ge _ xs))

/-! ## 5. a whole use does not write outside an upward closed set -/

theorem applyAll_frame {S : Nat → Prop} (L : Lang) (n : Nat) (fixFlag : Bool) :
    ∀ (xs : List Term) (τ τ1 : Store) (f r : Term), NoConstraints τ → Closed τ S →
      (∀ v, τ.vars.length ≤ v → S v) → TermIn S f → TermsIn S xs →
      applyAll L n fixFlag τ f xs = .ok (τ1, r) → ∀ v, ¬ S v → getVar τ1 v = getVar τ v
  | [], τ, τ1, f, r, _, _, _, _, _, h => by
    rw [applyAll] at h
    injection h with h
    injection h with h1 h2
    subst h1
    intro _ _; rfl
  | x :: xs, τ, τ1, f, r, nc, hc, hup, hf, hxs, h => by
    obtain ⟨hx, hxs'⟩ := termsIn_cons.mp hxs
    rw [applyAll] at h
    split at h
    · cases h
    · next τ2 r2 e =>
      obtain ⟨nc2, hlen, hc2, hr2, hfr⟩ := applyT_fr nc hc hf hx e
      have hS : ∀ v, (S v ∨ (τ.vars.length ≤ v ∧ v < τ2.vars.length)) ↔ S v :=
        fun v => ⟨fun h => h.elim id (fun h => hup v h.1), Or.inl⟩
      have hup2 : ∀ v, τ2.vars.length ≤ v → S v := fun v hv => hup v (by omega)
      intro v hv
      rw [applyAll_frame L n fixFlag xs τ2 τ1 r2 r nc2 (closed_congr hS hc2) hup2
        (fun w hw => (hS w).mp (hr2 w hw)) hxs' h v hv]
      exact hfr v (Classical.byContradiction (fun hn => hv (hup v (by omega)))) hv

theorem nc_foldl_newVar {α : Type} (wc : Bool) : ∀ (l : List α) (σ : Store), NoConstraints σ →
    NoConstraints (l.foldl (fun σ _ => (newVar σ wc).1) σ)
  | [], _, h => h
  | _ :: l, _, h => by
    simp only [List.foldl_cons]
    exact nc_foldl_newVar wc l _ (nc_newVar h wc)

theorem nc_allocVars {σ : Store} (h : NoConstraints σ) (nvars nwild : Nat) :
    NoConstraints (allocVars σ nvars nwild) := by
  unfold allocVars
  exact nc_foldl_newVar true _ _ (nc_foldl_newVar false _ _ h)

theorem useSchema_frame {S : Nat → Prop} {L : Lang} {n : Nat} {fixFlag : Bool} {τ τ1 : Store} {sc : Schema}
    {xs : List Term} {r : Term} (nc : NoConstraints τ) (hcl : Closed τ S)
    (hup : ∀ v, τ.vars.length ≤ v → S v) (hxs : TermsIn S xs) (hc : sc.constraints = [])
    (hbody : okTermN L (sc.nvars + sc.nwild) sc.body = true)
    (h : useSchema L n fixFlag τ sc xs = .ok (τ1, r)) : ∀ v, ¬ S v → getVar τ1 v = getVar τ v := by
  unfold useSchema at h
  split at h
  · cases h
  · next τ2 f e =>
    obtain ⟨e1, _, hlen, hvf, hold⟩ := instantiate_fresh hc hbody e
    have hup2 : ∀ v, τ2.vars.length ≤ v → S v := fun v hv => hup v (by omega)
    have hcl2 : Closed τ2 S := by
      obtain ⟨_, a2, a3⟩ := allocVars_spec τ sc.nvars sc.nwild
      intro w b hw hb
      rw [e1] at hb
      by_cases hlt : w < τ.vars.length
      · rw [a2 w hlt] at hb; exact hcl w b hw hb
      · rw [(a3 w (by omega)).1] at hb; cases hb
    have nc2 : NoConstraints τ2 := by rw [e1]; exact nc_allocVars nc _ _
    intro v hv
    rw [applyAll_frame L n fixFlag xs τ2 τ1 f r nc2 hcl2 hup2 (fun w hw => hup w (hvf w hw).1) hxs h v hv]
    exact hold v (Classical.byContradiction (fun hn => hv (hup v (by omega))))

theorem useSchema_history_untouched {L : Lang} {n : Nat} {fixFlag : Bool} {σ₀ σ τ1 : Store} {sc : Schema}
    {xs : List Term} {r : Term} (h0 : NoConstraints σ₀) (nc : NoConstraints σ) (hc : sc.constraints = [])
    (hbody : okTermN L (sc.nvars + sc.nwild) sc.body = true)
    (h : useSchema L n fixFlag (σ₀.append σ) sc (Term.shiftL σ₀.vars.length xs) = .ok (τ1, r)) :
    ∀ v, v < σ₀.vars.length → getVar τ1 v = getVar σ₀ v := by
  intro v hv
  rw [useSchema_frame (S := fun v => σ₀.vars.length ≤ v) (nc_append h0 nc) (closed_append_ge σ₀ σ)
    (fun w hw => by rw [length_append] at hw; show σ₀.vars.length ≤ w; omega)
    (termsIn_shiftL_ge _ xs) hc hbody h v (by show ¬ σ₀.vars.length ≤ v; omega), getVar_append_lt hv]

end Tfv.C16P
