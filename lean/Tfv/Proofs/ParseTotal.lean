import Tfv.Model.Parse
/-!
# Totality of the two stack-machine parsers (C17)

The model of `parse_type` / `parse_expr` returns `PErr.internal site` wherever the
Python code could raise something other than its declared errors.  This file proves
that none of those branches is reachable from the initial parser state, for any token
list, and that the fuel of `parseExprLoop` is an artefact.
-/
namespace Tfv

/-! ## stack items -/

def TItem.isMark : TItem → Bool
  | .mark => true
  | _ => false

/-- alias entries on the stack point into the alias table -/
def aliasOk (P : PLang) : TItem → Prop
  | .alias k => k < P.aliases.length
  | _ => True

def stackOk (P : PLang) (st : List TItem) : Prop := ∀ it ∈ st, aliasOk P it

/-- number of `None` marks on the stack -/
def countMark (st : List TItem) : Nat := st.countP TItem.isMark

/-- what can sit directly above the bottom mark while the in-line parser keeps going:
a mark, or an operator / alias that still wants parameters -/
def goodSecond (P : PLang) : TItem → Prop
  | .mark => True
  | .ty _ => False
  | .op o => arityOf P.types o ≠ 0
  | .alias k => ∃ a, P.aliases[k]? = some a ∧ a.arity ≠ 0

theorem stackOk_cons {P : PLang} {it : TItem} {st : List TItem} :
    stackOk P (it :: st) ↔ aliasOk P it ∧ stackOk P st := by
  simp [stackOk]

theorem countMark_cons_mark (st : List TItem) : countMark (.mark :: st) = countMark st + 1 := by
  simp [countMark, List.countP_cons, TItem.isMark]

theorem countMark_cons_of_not {it : TItem} (h : it.isMark = false) (st : List TItem) :
    countMark (it :: st) = countMark st := by
  simp [countMark, h]

theorem stackOk_nil {P : PLang} : stackOk P [] := by simp [stackOk]

/-! ## `applyItem` -/

theorem applyItem_no_internal (P : PLang) (it : TItem) (args : List Term) (site : String)
    (hok : aliasOk P it) (hop : it.isOp = true) :
    applyItem P it args ≠ .error (.internal site) := by
  cases it with
  | mark => simp [TItem.isOp] at hop
  | ty t => simp [TItem.isOp] at hop
  | op o =>
    simp only [applyItem]
    split <;> simp
  | alias k =>
    simp only [aliasOk] at hok
    simp only [applyItem, List.getElem?_eq_getElem hok]
    split <;> simp

/-! ## `backtrack` -/

theorem backtrack_ok (P : PLang) : ∀ (st : List TItem) (args : List Term) (st' : List TItem),
    backtrack P st args = .ok st' →
    ∃ pre rest a, st = pre ++ .mark :: rest ∧ (∀ it ∈ pre, it.isMark = false) ∧ st' = .ty a :: rest
  | [], args, st', h => by simp [backtrack] at h
  | .mark :: rest, args, st', h => by
    simp only [backtrack] at h
    split at h
    · rename_i a
      injection h with h
      exact ⟨[], rest, a, rfl, by simp, h.symm⟩
    · simp at h
  | .ty t :: rest, args, st', h => by
    simp only [backtrack] at h
    obtain ⟨pre, r, a, h1, h2, h3⟩ := backtrack_ok P rest _ st' h
    refine ⟨.ty t :: pre, r, a, by simp [h1], ?_, h3⟩
    intro it hit
    rcases List.mem_cons.1 hit with rfl | hit
    · rfl
    · exact h2 it hit
  | .op o :: rest, args, st', h => by
    simp only [backtrack] at h
    split at h
    · simp at h
    · obtain ⟨pre, r, a, h1, h2, h3⟩ := backtrack_ok P rest _ st' h
      refine ⟨.op o :: pre, r, a, by simp [h1], ?_, h3⟩
      intro it hit
      rcases List.mem_cons.1 hit with rfl | hit
      · rfl
      · exact h2 it hit
  | .alias k :: rest, args, st', h => by
    simp only [backtrack] at h
    split at h
    · simp at h
    · obtain ⟨pre, r, a, h1, h2, h3⟩ := backtrack_ok P rest _ st' h
      refine ⟨.alias k :: pre, r, a, by simp [h1], ?_, h3⟩
      intro it hit
      rcases List.mem_cons.1 hit with rfl | hit
      · rfl
      · exact h2 it hit

theorem backtrack_no_internal (P : PLang) (site : String) : ∀ (st : List TItem) (args : List Term),
    stackOk P st → backtrack P st args ≠ .error (.internal site)
  | [], args, _ => by simp [backtrack]
  | .mark :: rest, args, _ => by
    simp only [backtrack]
    split <;> simp
  | .ty t :: rest, args, hs => by
    simp only [backtrack]
    exact backtrack_no_internal P site rest _ (stackOk_cons.1 hs).2
  | .op o :: rest, args, hs => by
    simp only [backtrack]
    split
    · rename_i e he
      intro h
      injection h with h
      subst h
      exact applyItem_no_internal P (.op o) _ site trivial rfl he
    · exact backtrack_no_internal P site rest _ (stackOk_cons.1 hs).2
  | .alias k :: rest, args, hs => by
    simp only [backtrack]
    split
    · rename_i e he
      intro h
      injection h with h
      subst h
      exact applyItem_no_internal P (.alias k) _ site (stackOk_cons.1 hs).1 rfl he
    · exact backtrack_no_internal P site rest _ (stackOk_cons.1 hs).2

theorem backtrack_stackOk (P : PLang) {st st' : List TItem} {args : List Term}
    (h : backtrack P st args = .ok st') (hs : stackOk P st) : stackOk P st' := by
  obtain ⟨pre, rest, a, h1, _, h3⟩ := backtrack_ok P st args st' h
  subst h1 h3
  intro it hit
  rcases List.mem_cons.1 hit with rfl | hit
  · trivial
  · exact hs it (by simp [hit])

theorem backtrack_countMark (P : PLang) {st st' : List TItem} {args : List Term}
    (h : backtrack P st args = .ok st') : countMark st = countMark st' + 1 := by
  obtain ⟨pre, rest, a, h1, h2, h3⟩ := backtrack_ok P st args st' h
  subst h1 h3
  have : List.countP TItem.isMark pre = 0 := by
    rw [List.countP_eq_zero]
    intro it hit
    simp [h2 it hit]
  simp [countMark, List.countP_append, List.countP_cons, TItem.isMark, this]

/-! ## `applyOperator` -/

theorem applyOperator_ok (P : PLang) : ∀ (st : List TItem) (args : List Term) (st' : List TItem),
    applyOperator P st args = .ok st' →
    ∃ pre it rest t, st = pre ++ it :: rest ∧ (∀ x ∈ pre, x.isTy = true) ∧ it.isOp = true ∧
      st' = .ty t :: rest
  | [], args, st', h => by simp [applyOperator] at h
  | .ty t :: rest, args, st', h => by
    simp only [applyOperator] at h
    obtain ⟨pre, it, r, t', h1, h2, h3, h4⟩ := applyOperator_ok P rest _ st' h
    refine ⟨.ty t :: pre, it, r, t', by simp [h1], ?_, h3, h4⟩
    intro x hx
    rcases List.mem_cons.1 hx with rfl | hx
    · rfl
    · exact h2 x hx
  | .mark :: rest, args, st', h => by
    simp [applyOperator, TItem.isOp] at h
  | .op o :: rest, args, st', h => by
    simp only [applyOperator, TItem.isOp, if_true] at h
    split at h
    · simp at h
    · rename_i t _
      injection h with h
      exact ⟨[], .op o, rest, t, rfl, by simp, rfl, h.symm⟩
  | .alias k :: rest, args, st', h => by
    simp only [applyOperator, TItem.isOp, if_true] at h
    split at h
    · simp at h
    · rename_i t _
      injection h with h
      exact ⟨[], .alias k, rest, t, rfl, by simp, rfl, h.symm⟩

theorem applyOperator_no_internal (P : PLang) (site : String) : ∀ (st : List TItem) (args : List Term),
    stackOk P st → applyOperator P st args ≠ .error (.internal site)
  | [], args, _ => by simp [applyOperator]
  | .ty t :: rest, args, hs => by
    simp only [applyOperator]
    exact applyOperator_no_internal P site rest _ (stackOk_cons.1 hs).2
  | .mark :: rest, args, _ => by
    simp [applyOperator, TItem.isOp]
  | .op o :: rest, args, hs => by
    simp only [applyOperator, TItem.isOp, if_true]
    split
    · rename_i e he
      intro h
      injection h with h
      subst h
      exact applyItem_no_internal P (.op o) _ site trivial rfl he
    · simp
  | .alias k :: rest, args, hs => by
    simp only [applyOperator, TItem.isOp, if_true]
    split
    · rename_i e he
      intro h
      injection h with h
      subst h
      exact applyItem_no_internal P (.alias k) _ site (stackOk_cons.1 hs).1 rfl he
    · simp

theorem applyOperator_stackOk (P : PLang) {st st' : List TItem} {args : List Term}
    (h : applyOperator P st args = .ok st') (hs : stackOk P st) : stackOk P st' := by
  obtain ⟨pre, it, rest, t, h1, _, _, h4⟩ := applyOperator_ok P st args st' h
  subst h1 h4
  intro x hx
  rcases List.mem_cons.1 hx with rfl | hx
  · trivial
  · exact hs x (by simp [hx])

theorem isMark_false_of_isTy {x : TItem} (h : x.isTy = true) : x.isMark = false := by
  cases x <;> simp_all [TItem.isTy, TItem.isMark]

theorem isMark_false_of_isOp {x : TItem} (h : x.isOp = true) : x.isMark = false := by
  cases x <;> simp_all [TItem.isOp, TItem.isMark]

theorem applyOperator_countMark (P : PLang) {st st' : List TItem} {args : List Term}
    (h : applyOperator P st args = .ok st') : countMark st' = countMark st := by
  obtain ⟨pre, it, rest, t, h1, h2, h3, h4⟩ := applyOperator_ok P st args st' h
  subst h1 h4
  have : List.countP TItem.isMark pre = 0 := by
    rw [List.countP_eq_zero]
    intro x hx
    simp [isMark_false_of_isTy (h2 x hx)]
  have hm := isMark_false_of_isOp h3
  have ht : (TItem.ty t).isMark = false := rfl
  simp [countMark, List.countP_append, this, hm, ht]

/-! ## `resolveTypeToken` -/

theorem resolveTypeToken_no_internal (P : PLang) (tok site : String) :
    resolveTypeToken P tok ≠ .error (.internal site) := by
  unfold resolveTypeToken
  split
  · simp
  split
  · simp
  split
  · simp
  split
  · rename_i k hk
    have hlt : k < P.aliases.length := (List.findIdx?_eq_some_iff_getElem.1 hk).1
    simp [List.getElem?_eq_getElem hlt]
  · simp

/-- what `resolveTypeToken` can push: never a mark, aliases are in range, and whatever is
not a finished type still wants parameters -/
theorem resolveTypeToken_ok (P : PLang) (tok : String) (it : TItem)
    (h : resolveTypeToken P tok = .ok it) :
    it.isMark = false ∧ aliasOk P it ∧ (it.isTy = true ∨ goodSecond P it) := by
  unfold resolveTypeToken at h
  split at h
  · injection h with h; subst h; simp [TItem.isMark, aliasOk, TItem.isTy]
  split at h
  · injection h with h; subst h; simp [TItem.isMark, aliasOk, TItem.isTy]
  split at h
  · injection h with h; subst h
    split
    · simp [TItem.isMark, aliasOk, TItem.isTy]
    · rename_i hne
      simp only [TItem.isMark, aliasOk, TItem.isTy, goodSecond, true_and]
      right
      simpa using hne
  split at h
  · rename_i k hk
    have hlt : k < P.aliases.length := (List.findIdx?_eq_some_iff_getElem.1 hk).1
    rw [List.getElem?_eq_getElem hlt] at h
    simp only at h
    injection h with h; subst h
    split
    · simp [TItem.isMark, aliasOk, TItem.isTy]
    · rename_i hne
      simp only [TItem.isMark, aliasOk, TItem.isTy, goodSecond, true_and]
      refine ⟨hlt, Or.inr ⟨_, List.getElem?_eq_getElem hlt, ?_⟩⟩
      simpa using hne
  · simp at h

/-! ## one step of the type parser -/

theorem typeStep_no_internal (P : PLang) (vb : Nat) (s : TState) (tok site : String)
    (hne : s.stack ≠ []) (hs : stackOk P s.stack) :
    typeStep P vb s tok ≠ .error (.internal site) := by
  unfold typeStep
  split
  · split
    · simp
    · rename_i h; exact absurd h hne
  split
  · split
    · rename_i e he
      intro h; injection h with h; subst h
      exact backtrack_no_internal P site _ _ hs he
    · rename_i st hst
      have hst' := backtrack_stackOk P hst hs
      split
      · split
        · split
          · rename_i e he
            intro h; injection h with h; subst h
            exact applyOperator_no_internal P site _ _ hst' he
          · simp
        · simp
        · simp
      · simp
  split
  · simp
  split
  · split
    · simp
    · simp
    · rename_i h; exact absurd h hne
  · split
    · rename_i e he
      intro h; injection h with h; subst h
      exact resolveTypeToken_no_internal P tok site he
    · simp

/-- the possible effects of a successful step on stack and level -/
inductive StepShape (P : PLang) (s s' : TState) : Prop
  | openParen (top : TItem) (r : List TItem) (h : s.stack = top :: r)
      (h1 : s'.stack = .mark :: s.stack) (h2 : s'.level = s.level + 1)
  | close (st : List TItem) (hb : backtrack P s.stack [] = .ok st)
      (h1 : s'.stack = st) (h2 : s'.level = s.level - 1)
  | closeApply (st st' : List TItem) (hb : backtrack P s.stack [] = .ok st)
      (ha : applyOperator P st [] = .ok st') (h1 : s'.stack = st') (h2 : s'.level = s.level - 1)
  | comma (st : List TItem) (hb : backtrack P s.stack [] = .ok st)
      (h1 : s'.stack = .mark :: st) (h2 : s'.level = s.level)
  | push (it : TItem) (hm : it.isMark = false) (ha : aliasOk P it)
      (hg : it.isTy = true ∨ goodSecond P it)
      (h1 : s'.stack = it :: s.stack) (h2 : s'.level = s.level)
  | star (t1 : Term) (rest : List TItem) (h : s.stack = .ty t1 :: rest)
      (h1 : s'.stack = .ty t1 :: .op PROD :: rest) (h2 : s'.level = s.level)

theorem typeStep_shape (P : PLang) (vb : Nat) (s s' : TState) (tok : String)
    (h : typeStep P vb s tok = .ok s') : StepShape P s s' := by
  unfold typeStep at h
  split at h
  · split at h
    · rename_i top r hs
      injection h with h; subst h
      exact .openParen top r hs rfl rfl
    · simp at h
  split at h
  · split at h
    · simp at h
    · rename_i st hst
      split at h
      · split at h
        · split at h
          · simp at h
          · rename_i st' hst'
            injection h with h; subst h
            exact .closeApply st st' hst hst' rfl rfl
        · injection h with h; subst h
          exact .close st hst rfl rfl
        · injection h with h; subst h
          exact .close st hst rfl rfl
      · injection h with h; subst h
        exact .comma st hst rfl rfl
  split at h
  · injection h with h; subst h
    exact .push (.ty (.var (vb + s.fresh))) rfl trivial (Or.inl rfl) rfl rfl
  split at h
  · split at h
    · rename_i t1 rest hs
      injection h with h; subst h
      exact .star t1 rest hs rfl rfl
    · simp at h
    · simp at h
  · split at h
    · simp at h
    · rename_i it hit
      injection h with h; subst h
      obtain ⟨h1, h2, h3⟩ := resolveTypeToken_ok P tok it hit
      exact .push it h1 h2 h3 rfl rfl

theorem typeStep_stackOk (P : PLang) (vb : Nat) (s s' : TState) (tok : String)
    (h : typeStep P vb s tok = .ok s') (hs : stackOk P s.stack) :
    stackOk P s'.stack ∧ s'.stack ≠ [] := by
  cases typeStep_shape P vb s s' tok h with
  | openParen top r h0 h1 h2 =>
    rw [h1]; exact ⟨stackOk_cons.2 ⟨trivial, hs⟩, by simp⟩
  | close st hb h1 h2 =>
    rw [h1]
    refine ⟨backtrack_stackOk P hb hs, ?_⟩
    obtain ⟨_, _, _, _, _, h3⟩ := backtrack_ok P _ _ _ hb
    simp [h3]
  | closeApply st st' hb ha h1 h2 =>
    rw [h1]
    refine ⟨applyOperator_stackOk P ha (backtrack_stackOk P hb hs), ?_⟩
    obtain ⟨_, _, _, _, _, _, _, h3⟩ := applyOperator_ok P _ _ _ ha
    simp [h3]
  | comma st hb h1 h2 =>
    rw [h1]; exact ⟨stackOk_cons.2 ⟨trivial, backtrack_stackOk P hb hs⟩, by simp⟩
  | push it hm ha hg h1 h2 =>
    rw [h1]; exact ⟨stackOk_cons.2 ⟨ha, hs⟩, by simp⟩
  | star t1 rest h0 h1 h2 =>
    rw [h1]
    rw [h0] at hs
    exact ⟨stackOk_cons.2 ⟨trivial, stackOk_cons.2 ⟨trivial, (stackOk_cons.1 hs).2⟩⟩, by simp⟩

theorem typeStep_count (P : PLang) (vb : Nat) (s s' : TState) (tok : String)
    (h : typeStep P vb s tok = .ok s') :
    (countMark s'.stack : Int) - s'.level = (countMark s.stack : Int) - s.level := by
  cases typeStep_shape P vb s s' tok h with
  | openParen top r h0 h1 h2 =>
    rw [h1, h2]
    have := countMark_cons_mark s.stack
    omega
  | close st hb h1 h2 =>
    rw [h1, h2]
    have := backtrack_countMark P hb
    omega
  | closeApply st st' hb ha h1 h2 =>
    rw [h1, h2]
    have := backtrack_countMark P hb
    have := applyOperator_countMark P ha
    omega
  | comma st hb h1 h2 =>
    rw [h1, h2]
    have := backtrack_countMark P hb
    have := countMark_cons_mark st
    omega
  | push it hm ha hg h1 h2 =>
    rw [h1, h2]
    have := countMark_cons_of_not hm s.stack
    omega
  | star t1 rest h0 h1 h2 =>
    rw [h1, h2, h0]
    have : countMark (.ty t1 :: .op PROD :: rest) = countMark (.ty t1 :: rest) := by
      rw [countMark_cons_of_not rfl, countMark_cons_of_not rfl, countMark_cons_of_not rfl]
    omega

/-! ## the invariant of the in-line mode

In in-line mode (`consumeAll = false`) the loop leaves as soon as the entry above the
bottom of the stack is a finished type (or an operator with something on top of it at
level 0).  So while the loop is still running: the bottom is a mark, the entry above it is
a mark or an operator/alias that still wants parameters, and the number of marks is
`1 + level`.  This is what keeps `stack[1]` defined. -/

structure InvI (P : PLang) (s : TState) : Prop where
  cnt : (countMark s.stack : Int) = 1 + s.level
  shape : s.stack = [.mark] ∨ ∃ X, [X, .mark] <:+ s.stack ∧ goodSecond P X ∧
            (s.level = 0 → X.isOp = true → s.stack = [X, .mark])

/-- after a step: there is an entry above the bottom mark, and it is a type or still "good" -/
def Second (P : PLang) (st : List TItem) : Prop :=
  ∃ Y, [Y, .mark] <:+ st ∧ (Y.isTy = true ∨ goodSecond P Y)

theorem suffix_split (X : TItem) : ∀ (pre rest : List TItem),
    [X, .mark] <:+ pre ++ .mark :: rest → (∀ it ∈ pre, it.isMark = false) →
    (rest = [] ∧ X.isMark = false) ∨ rest = [.mark] ∨ [X, .mark] <:+ rest
  | [], rest, h, _ => by
    rw [List.nil_append, List.suffix_cons_iff] at h
    rcases h with h | h
    · injection h with h1 h2
      exact Or.inr (Or.inl h2.symm)
    · exact Or.inr (Or.inr h)
  | p :: pre, rest, h, hp => by
    rw [List.cons_append, List.suffix_cons_iff] at h
    rcases h with h | h
    · injection h with h1 h2
      left
      have h3 := congrArg List.length h2
      simp at h3
      subst h1
      have : rest = [] := List.eq_nil_of_length_eq_zero (by omega)
      exact ⟨this, hp X (by simp)⟩
    · exact suffix_split X pre rest h (fun it hit => hp it (by simp [hit]))

theorem goodSecond_isOp_of_not_mark {P : PLang} {X : TItem} (hg : goodSecond P X)
    (hm : X.isMark = false) : X.isOp = true := by
  cases X <;> simp_all [goodSecond, TItem.isMark, TItem.isOp]

theorem backtrack_two_error (P : PLang) (X : TItem) (hg : goodSecond P X) (hm : X.isMark = false)
    (st : List TItem) : backtrack P [X, .mark] [] ≠ .ok st := by
  cases X with
  | mark => simp [TItem.isMark] at hm
  | ty t => simp [goodSecond] at hg
  | op o =>
    simp only [goodSecond] at hg
    have : ¬ (0 = arityOf P.types o) := fun h => hg h.symm
    simp [backtrack, applyItem, this]
  | alias k =>
    obtain ⟨a, ha, hne⟩ := hg
    have : ¬ (0 = a.arity) := fun h => hne h.symm
    simp [backtrack, applyItem, ha, this]

theorem backtrack_inv (P : PLang) (s : TState) (st : List TItem) (hI : InvI P s)
    (hb : backtrack P s.stack [] = .ok st) :
    ∃ a rest, st = .ty a :: rest ∧ (rest = [.mark] ∨ ∃ X, [X, .mark] <:+ rest ∧ goodSecond P X) := by
  rcases hI.shape with h1 | ⟨X, hsuf, hg, hlev⟩
  · rw [h1] at hb
    simp [backtrack] at hb
  · obtain ⟨pre, rest, a, e1, e2, e3⟩ := backtrack_ok P _ _ _ hb
    refine ⟨a, rest, e3, ?_⟩
    rw [e1] at hsuf
    rcases suffix_split X pre rest hsuf e2 with ⟨hr, hm⟩ | hr | hr
    · exfalso
      have hc : countMark s.stack = 1 := by
        have : List.countP TItem.isMark pre = 0 := by
          rw [List.countP_eq_zero]
          intro it hit
          simp [e2 it hit]
        rw [e1, hr]
        simp [countMark, List.countP_append, this, TItem.isMark]
      have hl : s.level = 0 := by
        have := hI.cnt
        omega
      have h2 := hlev hl (goodSecond_isOp_of_not_mark hg hm)
      rw [h2] at hb
      exact backtrack_two_error P X hg hm st hb
    · exact Or.inl hr
    · exact Or.inr ⟨X, hr, hg⟩

theorem applyOperator_suffix (P : PLang) (X : TItem) : ∀ (st : List TItem) (args : List Term) (st' : List TItem),
    applyOperator P st args = .ok st' → [X, .mark] <:+ st →
    ∃ t rest, st' = .ty t :: rest ∧ (rest = [.mark] ∨ [X, .mark] <:+ rest)
  | [], args, st', h, _ => by simp [applyOperator] at h
  | .ty t :: rest, args, st', h, hs => by
    simp only [applyOperator] at h
    rw [List.suffix_cons_iff] at hs
    rcases hs with hs | hs
    · injection hs with _ h2
      rw [← h2] at h
      simp [applyOperator, TItem.isOp] at h
    · exact applyOperator_suffix P X rest _ st' h hs
  | .mark :: rest, args, st', h, _ => by
    simp [applyOperator, TItem.isOp] at h
  | .op o :: rest, args, st', h, hs => by
    simp only [applyOperator, TItem.isOp, if_true] at h
    split at h
    · simp at h
    · rename_i t _
      injection h with h
      refine ⟨t, rest, h.symm, ?_⟩
      rw [List.suffix_cons_iff] at hs
      rcases hs with hs | hs
      · injection hs with _ h2
        exact Or.inl h2.symm
      · exact Or.inr hs
  | .alias k :: rest, args, st', h, hs => by
    simp only [applyOperator, TItem.isOp, if_true] at h
    split at h
    · simp at h
    · rename_i t _
      injection h with h
      refine ⟨t, rest, h.symm, ?_⟩
      rw [List.suffix_cons_iff] at hs
      rcases hs with hs | hs
      · injection hs with _ h2
        exact Or.inl h2.symm
      · exact Or.inr hs

theorem suffix_cons_of {X : TItem} {st : List TItem} (it : TItem) (h : [X, .mark] <:+ st) :
    [X, .mark] <:+ it :: st := h.trans (List.suffix_cons it st)

theorem step_second (P : PLang) (vb : Nat) (s s' : TState) (tok : String) (hI : InvI P s)
    (h : typeStep P vb s tok = .ok s') : Second P s'.stack := by
  cases typeStep_shape P vb s s' tok h with
  | openParen top r h0 h1 h2 =>
    rw [h1]
    rcases hI.shape with e | ⟨X, hsuf, hg, _⟩
    · rw [e]; exact ⟨.mark, List.suffix_refl _, Or.inr trivial⟩
    · exact ⟨X, suffix_cons_of _ hsuf, Or.inr hg⟩
  | close st hb h1 h2 =>
    rw [h1]
    obtain ⟨a, rest, e, hr⟩ := backtrack_inv P s st hI hb
    rw [e]
    rcases hr with hr | ⟨X, hsuf, hg⟩
    · rw [hr]; exact ⟨.ty a, List.suffix_refl _, Or.inl rfl⟩
    · exact ⟨X, suffix_cons_of _ hsuf, Or.inr hg⟩
  | closeApply st st' hb ha h1 h2 =>
    rw [h1]
    obtain ⟨a, rest, e, hr⟩ := backtrack_inv P s st hI hb
    rw [e] at ha
    rcases hr with hr | ⟨X, hsuf, hg⟩
    · rw [hr] at ha
      simp [applyOperator, TItem.isOp] at ha
    · obtain ⟨t, rest', e', hr'⟩ := applyOperator_suffix P X _ _ _ ha (suffix_cons_of _ hsuf)
      rw [e']
      rcases hr' with hr' | hr'
      · rw [hr']; exact ⟨.ty t, List.suffix_refl _, Or.inl rfl⟩
      · exact ⟨X, suffix_cons_of _ hr', Or.inr hg⟩
  | comma st hb h1 h2 =>
    rw [h1]
    obtain ⟨a, rest, e, hr⟩ := backtrack_inv P s st hI hb
    rw [e]
    rcases hr with hr | ⟨X, hsuf, hg⟩
    · rw [hr]; exact ⟨.ty a, suffix_cons_of _ (List.suffix_refl _), Or.inl rfl⟩
    · exact ⟨X, suffix_cons_of _ (suffix_cons_of _ hsuf), Or.inr hg⟩
  | push it hm ha hg h1 h2 =>
    rw [h1]
    rcases hI.shape with e | ⟨X, hsuf, hgX, _⟩
    · rw [e]; exact ⟨it, List.suffix_refl _, hg⟩
    · exact ⟨X, suffix_cons_of _ hsuf, Or.inr hgX⟩
  | star t1 rest h0 h1 h2 =>
    rw [h1]
    rcases hI.shape with e | ⟨X, hsuf, hgX, _⟩
    · rw [e] at h0; simp at h0
    · rw [h0, List.suffix_cons_iff] at hsuf
      rcases hsuf with hsuf | hsuf
      · injection hsuf with e1 _
        rw [e1] at hgX
        simp [goodSecond] at hgX
      · exact ⟨X, suffix_cons_of _ (suffix_cons_of _ hsuf), Or.inr hgX⟩

theorem secondFromBottom_of_suffix {Y : TItem} {st : List TItem} (h : [Y, .mark] <:+ st) :
    secondFromBottom st = some Y := by
  obtain ⟨up, rfl⟩ := h
  simp [secondFromBottom]

theorem step_inv (P : PLang) (vb : Nat) (s s' : TState) (tok : String) (hI : InvI P s)
    (h : typeStep P vb s tok = .ok s') :
    (∃ b, inlineDone s' = .ok b) ∧ (inlineDone s' = .ok false → InvI P s') := by
  obtain ⟨Y, hsuf, hY⟩ := step_second P vb s s' tok hI h
  have hd : inlineDone s' = .ok (Y.isTy || (Y.isOp && s'.level == 0 && s'.stack.length > 2)) := by
    simp only [inlineDone, secondFromBottom_of_suffix hsuf]
  refine ⟨⟨_, hd⟩, ?_⟩
  intro hf
  rw [hd] at hf
  injection hf with hf
  simp only [Bool.or_eq_false_iff, Bool.and_eq_false_iff] at hf
  refine ⟨?_, Or.inr ⟨Y, hsuf, ?_, ?_⟩⟩
  · have := typeStep_count P vb s s' tok h
    have := hI.cnt
    omega
  · rcases hY with hY | hY
    · rw [hY] at hf; simp at hf
    · exact hY
  · intro hl hop
    obtain ⟨up, hup⟩ := hsuf
    have hlen : ¬ (s'.stack.length > 2) := by
      rcases hf.2 with (h1 | h1) | h1
      · rw [hop] at h1; simp at h1
      · rw [hl] at h1; simp at h1
      · simpa using h1
    rw [← hup] at hlen ⊢
    cases up with
    | nil => rfl
    | cons u up' => exact absurd (by simp) hlen

/-! ## the loop of the type parser -/

theorem typeFinish_no_internal (P : PLang) (s : TState) (site : String) (hs : stackOk P s.stack) :
    typeFinish P s ≠ .error (.internal site) := by
  unfold typeFinish
  split
  · rename_i e he
    intro h; injection h with h; subst h
    exact backtrack_no_internal P site _ _ hs he
  · simp
  · simp

/-- the loop invariant: always a non-empty stack with valid alias entries; in in-line mode `InvI` too -/
def InvT (P : PLang) (ca : Bool) (s : TState) : Prop :=
  s.stack ≠ [] ∧ stackOk P s.stack ∧ (ca = false → InvI P s)

theorem InvT_comment {P : PLang} {ca : Bool} {s : TState} (b : Bool) (h : InvT P ca s) :
    InvT P ca { s with comment := b } :=
  ⟨h.1, h.2.1, fun hc => ⟨(h.2.2 hc).cnt, (h.2.2 hc).shape⟩⟩

theorem InvT_init (P : PLang) (ca : Bool) : InvT P ca {} := by
  refine ⟨by simp, ?_, fun _ => ⟨?_, Or.inl rfl⟩⟩
  · intro it hit
    simp at hit
    subst hit
    trivial
  · simp [countMark, TItem.isMark]

theorem parseTypeLoop_no_internal (P : PLang) (ca : Bool) (vb : Nat) (site : String) :
    ∀ (toks : List String) (s : TState), InvT P ca s →
      parseTypeLoop P ca vb s toks ≠ .error (.internal site)
  | [], s, hI => by
    unfold parseTypeLoop
    split
    · rename_i e he
      intro h; injection h with h; subst h
      exact typeFinish_no_internal P s site hI.2.1 he
    · simp
  | tok :: rest, s, hI => by
    unfold parseTypeLoop
    split
    · exact parseTypeLoop_no_internal P ca vb site rest _ (InvT_comment _ hI)
    split
    · exact parseTypeLoop_no_internal P ca vb site rest _ hI
    split
    · exact parseTypeLoop_no_internal P ca vb site rest _ (InvT_comment _ hI)
    split
    · rename_i e he
      intro h; injection h with h; subst h
      exact typeStep_no_internal P vb s tok site hI.1 hI.2.1 he
    · rename_i s' hs'
      have hok := typeStep_stackOk P vb s s' tok hs' hI.2.1
      split
      · rename_i hca
        exact parseTypeLoop_no_internal P ca vb site rest s' ⟨hok.2, hok.1, fun h => by simp [hca] at h⟩
      · rename_i hca
        have hca' : ca = false := by simpa using hca
        obtain ⟨⟨b, hb⟩, hnext⟩ := step_inv P vb s s' tok (hI.2.2 hca') hs'
        split
        · rename_i e he
          rw [hb] at he
          simp at he
        · split
          · rename_i e he
            intro h; injection h with h; subst h
            exact typeFinish_no_internal P s' site hok.1 he
          · simp
        · rename_i hfalse
          exact parseTypeLoop_no_internal P ca vb site rest s' ⟨hok.2, hok.1, fun _ => hnext hfalse⟩

theorem parseTypeToks_no_internal (P : PLang) (toks : List String) (vb : Nat) (site : String) :
    parseTypeToks P toks vb ≠ .error (.internal site) := by
  unfold parseTypeToks
  split
  · rename_i e he
    intro h; injection h with h; subst h
    exact parseTypeLoop_no_internal P true vb site toks {} (InvT_init P true) he
  · simp

/-- what is left over is a suffix of what was given -/
theorem parseTypeLoop_suffix (P : PLang) (ca : Bool) (vb : Nat) :
    ∀ (toks : List String) (s : TState) (t : Term) (k : Nat) (rest : List String),
      parseTypeLoop P ca vb s toks = .ok (t, k, rest) → rest <:+ toks
  | [], s, t, k, rest, h => by
    unfold parseTypeLoop at h
    split at h
    · simp at h
    · injection h with h
      injection h with _ h
      injection h with _ h
      rw [← h]
      exact List.suffix_refl _
  | tok :: toks, s, t, k, rest, h => by
    unfold parseTypeLoop at h
    split at h
    · exact (parseTypeLoop_suffix P ca vb toks _ t k rest h).trans (List.suffix_cons _ _)
    split at h
    · exact (parseTypeLoop_suffix P ca vb toks _ t k rest h).trans (List.suffix_cons _ _)
    split at h
    · exact (parseTypeLoop_suffix P ca vb toks _ t k rest h).trans (List.suffix_cons _ _)
    split at h
    · simp at h
    · split at h
      · exact (parseTypeLoop_suffix P ca vb toks _ t k rest h).trans (List.suffix_cons _ _)
      · split at h
        · simp at h
        · split at h
          · simp at h
          · injection h with h
            injection h with _ h
            injection h with _ h
            rw [← h]
            exact List.suffix_cons _ _
        · exact (parseTypeLoop_suffix P ca vb toks _ t k rest h).trans (List.suffix_cons _ _)

theorem parseTypeLoop_length (P : PLang) (ca : Bool) (vb : Nat) (toks : List String) (s : TState)
    (t : Term) (k : Nat) (rest : List String)
    (h : parseTypeLoop P ca vb s toks = .ok (t, k, rest)) : rest.length ≤ toks.length :=
  (parseTypeLoop_suffix P ca vb toks s t k rest h).length_le

/-! ## the expression parser -/
/-- the builder's fallible operations never fail with an internal error (`mkSource` cannot fail at all) -/
structure BuilderTotal {S E : Type} (B : Builder S E) : Prop where
  mkOp : ∀ s name site, B.mkOp s name ≠ .error (.internal site)
  mkApp : ∀ s x y site, B.mkApp s x y ≠ .error (.internal site)
  annotate : ∀ s e t n b site, B.annotate s e t n b ≠ .error (.internal site)

theorem parseExprLoop_no_internal {S E : Type} (P : PLang) (B : Builder S E) (hB : BuilderTotal B)
    (inputs : List E) (defaults : Bool) (site : String) :
    ∀ (n : Nat) (s : EState S E) (toks : List String), toks.length < n →
      parseExprLoop P B inputs defaults n s toks ≠ .error (.internal site)
  | 0, s, toks, h => by omega
  | n+1, s, [], h => by simp [parseExprLoop]
  | n+1, s, tok :: rest, h => by
    have hlt : rest.length < n := by simp at h; omega
    have IH := parseExprLoop_no_internal P B hB inputs defaults site n
    rw [parseExprLoop]
    split
    · exact IH _ _ hlt
    split
    · exact IH _ _ hlt
    split
    · exact IH _ _ hlt
    split
    · dsimp only
      split
      · rename_i e he
        intro hc; injection hc with hc; subst hc
        split at he
        · split at he
          · simp at he
          · simp at he
          · split at he
            · simp at he
            · simp at he
            · split at he
              · rename_i e' he'
                injection he with he; subst he
                exact hB.mkApp _ _ _ _ he'
              · simp at he
        · simp at he
      · exact IH _ _ hlt
    split
    · split
      · split
        · rename_i e he
          intro hc; injection hc with hc; subst hc
          exact parseTypeLoop_no_internal P false _ site rest {} (InvT_init P false) he
        · rename_i t nfresh rest' hty
          split
          · rename_i e he
            intro hc; injection hc with hc; subst hc
            exact hB.annotate _ _ _ _ _ _ he
          · have := parseTypeLoop_length P false _ rest {} t nfresh rest' hty
            exact IH _ _ (by omega)
      · simp
      · simp
    split
    · exact IH _ _ hlt
    · dsimp only
      split
      · rename_i e he
        intro hc; injection hc with hc; subst hc
        split at he
        · simp at he
        · split at he
          · split at he
            · simp at he
            · split at he
              · simp at he
              · simp at he
          · exact hB.mkOp _ _ _ he
      · split
        · simp
        · exact IH _ _ hlt
        · split
          · rename_i e he
            intro hc; injection hc with hc; subst hc
            exact hB.mkApp _ _ _ _ he
          · exact IH _ _ hlt

theorem parseExprLoop_fuel {S E : Type} (P : PLang) (B : Builder S E)
    (inputs : List E) (defaults : Bool) :
    ∀ (n m : Nat) (s : EState S E) (toks : List String), toks.length < n → toks.length < m →
      parseExprLoop P B inputs defaults n s toks = parseExprLoop P B inputs defaults m s toks
  | 0, _, s, toks, h, _ => by omega
  | _+1, 0, s, toks, _, h => by omega
  | n+1, m+1, s, [], _, _ => by simp [parseExprLoop]
  | n+1, m+1, s, tok :: rest, h, h' => by
    have hn : rest.length < n := by simp at h; omega
    have hm : rest.length < m := by simp at h'; omega
    have IH := parseExprLoop_fuel P B inputs defaults n m
    rw [parseExprLoop, parseExprLoop]
    split
    · exact IH _ _ hn hm
    split
    · exact IH _ _ hn hm
    split
    · exact IH _ _ hn hm
    split
    · dsimp only
      split
      · rfl
      · exact IH _ _ hn hm
    split
    · split
      · split
        · rfl
        · rename_i t nfresh rest' hty
          split
          · rfl
          · have := parseTypeLoop_length P false _ rest {} t nfresh rest' hty
            exact IH _ _ (by omega) (by omega)
      · rfl
      · rfl
    split
    · exact IH _ _ hn hm
    · dsimp only
      split
      · rfl
      · split
        · rfl
        · exact IH _ _ hn hm
        · split
          · rfl
          · exact IH _ _ hn hm

theorem parseExprToks_no_internal {S E : Type} (P : PLang) (B : Builder S E) (hB : BuilderTotal B)
    (inputs : List E) (st0 : S) (toks : List String) (site : String) :
    parseExprToks P B inputs st0 toks ≠ .error (.internal site) := by
  unfold parseExprToks
  split
  · rename_i e he
    intro hc; injection hc with hc; subst hc
    exact parseExprLoop_no_internal P B hB inputs false site _ _ toks (Nat.lt_succ_self _) he
  · split <;> simp

theorem freeBuilder_total (opNames : List String) : BuilderTotal (freeBuilder opNames) where
  mkOp s name site := by
    simp only [freeBuilder]
    split <;> simp
  mkApp s x y site := by simp [freeBuilder]
  annotate s e t n b site := by simp [freeBuilder]

end Tfv
