import Tfv.Spec.LambdaTyped
import Tfv.Proofs.SubOrder
import Tfv.Proofs.LambdaMain
/-!
# subject reduction for the typed lambda model (`Tfv/Spec/LambdaTyped.lean`)

Weakening, the substitution lemma (over the single-pass `lsub`/`llift` of `LambdaSubst.lean`, transported to
the model's integer-shift `LTerm.beta`/`LTerm.subst`), generation (inversion) lemmas for the system with
subsumption, inversion of `Sub` on function types, and preservation of typing under `Red`, `Delta`,
`unfoldDefs`, `whnf`, `nf` and `primitiveL`.
-/
namespace Tfv.C15P
open Tfv Tfv.LamSpec Tfv.LamTyped

variable {L : Lang} {Sg : String → Option Ty} {S : Nat → Option Ty}

/-! ## 1. `Le` -/

theorem Le.refl (T : Ty) : Le L T T := Or.inl rfl

theorem Le.of_sub {s t : Ty} (h : Sub L s t) : Le L s t := Or.inr h

theorem Le.trans (wf : WF L) {s t u : Ty} (h₁ : Le L s t) (h₂ : Le L t u) : Le L s u := by
  rcases h₁ with rfl | h₁
  · exact h₂
  · rcases h₂ with rfl | h₂
    · exact Or.inr h₁
    · exact Or.inr (sub_trans wf _ _ _ h₁ h₂)

/-- on well-formed types `Le` is `Sub` -/
theorem Le.sub {s t : Ty} (hs : wfTy L s = true) (h : Le L s t) : Sub L s t := by
  rcases h with rfl | h
  · exact sub_refl _ hs
  · exact h

theorem _root_.Tfv.LamTyped.HasType.le {Γ : List Ty} {t : LTerm} {T T' : Ty} (h : HasType L Sg S Γ t T) (hle : Le L T T') :
    HasType L Sg S Γ t T' := by
  rcases hle with rfl | hle
  · exact h
  · exact HasType.sub h hle

/-! ## 2. `Sub` on function types -/

theorem variance_fun (wf : WF L) : varianceOf L FUN = [false, true] := by
  have h := wf_get wf (i := 4) (by omega)
  unfold varianceOf FUN
  rw [h]; rfl

theorem arity_fun (wf : WF L) : arityOf L FUN = 2 := by
  unfold arityOf; rw [variance_fun wf]; rfl

theorem sub_fn (wf : WF L) {A B A' B' : Ty} (ha : Sub L A' A) (hb : Sub L B B') :
    Sub L (fn A B) (fn A' B') := by
  unfold fn
  refine Sub.cong (by rw [arity_fun wf]; omega) ?_
  rw [variance_fun wf]
  exact SubArgs.contra ha (SubArgs.co hb SubArgs.nil)

theorem sub_fn_inv (wf : WF L) {A B A' B' : Ty} (h : Sub L (fn A B) (fn A' B')) :
    Sub L A' A ∧ Sub L B B' := by
  unfold fn at h
  rcases sub_inv h with ⟨h1, _⟩ | ⟨h1, _⟩ | ⟨h1, _⟩ | ⟨_, _, h3⟩
  · simp [FUN, BOT] at h1
  · simp [FUN, TOP] at h1
  · simp at h1
  · rw [variance_fun wf] at h3
    rw [subArgs_cons_false, subArgs_cons_true] at h3
    exact ⟨h3.1, h3.2.1⟩

theorem le_fn_inv (wf : WF L) {A B A' B' : Ty} (h : Le L (fn A B) (fn A' B')) :
    Le L A' A ∧ Le L B B' := by
  rcases h with h | h
  · unfold fn at h
    injection h with _ h2
    injection h2 with h3 h4
    injection h4 with h5 _
    exact ⟨Or.inl h3.symm, Or.inl h5⟩
  · exact ⟨Or.inr (sub_fn_inv wf h).1, Or.inr (sub_fn_inv wf h).2⟩

/-- what lies below a function type: `Bottom`, or a function type with a larger domain and a smaller codomain -/
theorem sub_fn_right_inv (wf : WF L) {T A B : Ty} (h : Sub L T (fn A B)) :
    T = .app BOT [] ∨ ∃ A' B', T = fn A' B' ∧ Sub L A A' ∧ Sub L B' B := by
  obtain ⟨a, as⟩ := T
  unfold fn at h
  rcases sub_inv h with ⟨h1, h2⟩ | ⟨h1, _⟩ | ⟨_, h1, _⟩ | ⟨h1, _, h3⟩
  · left; rw [h1, h2]
  · simp [FUN, TOP] at h1
  · simp at h1
  · right
    subst h1
    rw [variance_fun wf] at h3
    obtain ⟨v, vs', t, ts, e1, e2, _, h5⟩ := subArgs_cons_right h3
    injection e1 with e1a e1b
    subst e1a; subst e1b; subst e2
    obtain ⟨v, vs', t2, ts2, e1, e2, _, h7⟩ := subArgs_cons_right h5
    injection e1 with e1a e1b
    subst e1a; subst e1b; subst e2
    obtain ⟨_, e3⟩ := subArgs_nil_right h7
    subst e3
    rw [subArgs_cons_false, subArgs_cons_true] at h3
    exact ⟨t, t2, rfl, h3.1, h3.2.1⟩

/-! ## 3. weakening -/

theorem weaken_insert {Γ : List Ty} {t : LTerm} {T : Ty} (h : HasType L Sg S Γ t T) :
    ∀ (Γ1 Γ2 : List Ty) (U : Ty), Γ = Γ1 ++ Γ2 →
      HasType L Sg S (Γ1 ++ U :: Γ2) (llift t Γ1.length) T := by
  induction h with
  | @var Γ i T hi =>
    intro Γ1 Γ2 U e; subst e
    simp only [llift]
    split
    · rename_i hlt
      apply HasType.var
      rw [List.getElem?_append_left hlt] at hi
      rw [List.getElem?_append_left hlt]; exact hi
    · rename_i hlt
      apply HasType.var
      have hge : Γ1.length ≤ i := by omega
      rw [List.getElem?_append_right hge] at hi
      rw [List.getElem?_append_right (by omega)]
      have : i + 1 - Γ1.length = (i - Γ1.length) + 1 := by omega
      rw [this, List.getElem?_cons_succ]; exact hi
  | src hk => intro Γ1 Γ2 U _; exact HasType.src hk
  | op hk => intro Γ1 Γ2 U _; exact HasType.op hk
  | app _ _ ihf ihx =>
    intro Γ1 Γ2 U e
    exact HasType.app (ihf Γ1 Γ2 U e) (ihx Γ1 Γ2 U e)
  | @lam Γ b A B _ ih =>
    intro Γ1 Γ2 U e
    simp only [llift]
    exact HasType.lam (ih (A :: Γ1) Γ2 U (by rw [e]; rfl))
  | sub _ hs ih => intro Γ1 Γ2 U e; exact HasType.sub (ih Γ1 Γ2 U e) hs

/-- one more variable in front: every index moves up -/
theorem weaken_cons {Γ : List Ty} {t : LTerm} {T : Ty} (h : HasType L Sg S Γ t T) (U : Ty) :
    HasType L Sg S (U :: Γ) (llift t 0) T :=
  weaken_insert h [] Γ U rfl

/-- more variables at the far end: the term does not change -/
theorem weaken_append {Γ : List Ty} {t : LTerm} {T : Ty} (h : HasType L Sg S Γ t T) (Δ : List Ty) :
    HasType L Sg S (Γ ++ Δ) t T := by
  induction h with
  | @var Γ i T hi =>
    apply HasType.var
    have hlt : i < Γ.length := by
      rcases Nat.lt_or_ge i Γ.length with h | h
      · exact h
      · rw [List.getElem?_eq_none h] at hi; cases hi
    rw [List.getElem?_append_left hlt]; exact hi
  | src hk => exact HasType.src hk
  | op hk => exact HasType.op hk
  | app _ _ ihf ihx => exact HasType.app ihf ihx
  | lam _ ih => exact HasType.lam ih
  | sub _ hs ih => exact HasType.sub ih hs

/-- a closed typed term is typed in every context -/
theorem weaken_closed {t : LTerm} {T : Ty} (h : HasType L Sg S [] t T) (Γ : List Ty) :
    HasType L Sg S Γ t T := by
  have := weaken_append h Γ
  simpa using this

/-! ## 4. the substitution lemma -/

theorem lsub_typed {Γ : List Ty} {t : LTerm} {T : Ty} (h : HasType L Sg S Γ t T) :
    ∀ (Γ1 Γ2 : List Ty) (U : Ty) (s : LTerm), Γ = Γ1 ++ U :: Γ2 → HasType L Sg S (Γ1 ++ Γ2) s U →
      HasType L Sg S (Γ1 ++ Γ2) (lsub t s Γ1.length) T := by
  induction h with
  | @var Γ i T hi =>
    intro Γ1 Γ2 U s e hs; subst e
    simp only [lsub]
    split
    · rename_i hlt
      apply HasType.var
      rw [List.getElem?_append_right (by omega)] at hi
      rw [List.getElem?_append_right (by omega)]
      have : i - Γ1.length = (i - 1 - Γ1.length) + 1 := by omega
      rw [this, List.getElem?_cons_succ] at hi; exact hi
    · split
      · rename_i _ heq
        subst heq
        rw [List.getElem?_append_right (Nat.le_refl _), Nat.sub_self, List.getElem?_cons_zero] at hi
        injection hi with hi
        rw [← hi]; exact hs
      · rename_i h1 h2
        have hlt : i < Γ1.length := by omega
        apply HasType.var
        rw [List.getElem?_append_left hlt] at hi
        rw [List.getElem?_append_left hlt]; exact hi
  | src hk => intro Γ1 Γ2 U s _ _; exact HasType.src hk
  | op hk => intro Γ1 Γ2 U s _ _; exact HasType.op hk
  | app _ _ ihf ihx =>
    intro Γ1 Γ2 U s e hs
    exact HasType.app (ihf Γ1 Γ2 U s e hs) (ihx Γ1 Γ2 U s e hs)
  | @lam Γ b A B _ ih =>
    intro Γ1 Γ2 U s e hs
    simp only [lsub]
    exact HasType.lam (ih (A :: Γ1) Γ2 U (llift s 0) (by rw [e]; rfl) (weaken_cons hs A))
  | sub _ hsub ih => intro Γ1 Γ2 U s e hs; exact HasType.sub (ih Γ1 Γ2 U s e hs) hsub

/-- substitution lemma for the model's beta step -/
theorem beta_typed {Γ : List Ty} {b x : LTerm} {A B : Ty} (hb : HasType L Sg S (A :: Γ) b B)
    (hx : HasType L Sg S Γ x A) : HasType L Sg S Γ (LTerm.beta b x) B := by
  rw [beta_eq]
  exact lsub_typed hb [] Γ A x rfl hx

/-- substitution lemma for the model's own `LTerm.subst` (which keeps the substituted index in scope) -/
theorem subst_typed {Γ : List Ty} {t : LTerm} {T : Ty} (h : HasType L Sg S Γ t T) :
    ∀ (j : Nat) (U : Ty) (s : LTerm), Γ[j]? = some U → HasType L Sg S Γ s U →
      HasType L Sg S Γ (LTerm.subst j s t) T := by
  induction h with
  | @var Γ i T hi =>
    intro j U s hj hs
    simp only [LTerm.subst]
    split
    · rename_i heq
      have : i = j := by simpa using heq
      subst this
      rw [hi] at hj; injection hj with hj
      rw [hj]; exact hs
    · exact HasType.var hi
  | src hk => intro j U s _ _; exact HasType.src hk
  | op hk => intro j U s _ _; exact HasType.op hk
  | app _ _ ihf ihx =>
    intro j U s hj hs
    exact HasType.app (ihf j U s hj hs) (ihx j U s hj hs)
  | @lam Γ b A B _ ih =>
    intro j U s hj hs
    simp only [LTerm.subst]
    refine HasType.lam (ih (j + 1) U _ (by rw [List.getElem?_cons_succ]; exact hj) ?_)
    rw [shift_one]; exact weaken_cons hs A
  | sub _ hsub ih => intro j U s hj hs; exact HasType.sub (ih j U s hj hs) hsub

/-! ## 5. generation lemmas -/

theorem inv_var (wf : WF L) {Γ : List Ty} {i : Nat} {T : Ty} (h : HasType L Sg S Γ (.var i) T) :
    ∃ T₀, Γ[i]? = some T₀ ∧ Le L T₀ T := by
  generalize ht : LTerm.var i = t at h
  induction h with
  | var hi => injection ht with ht; subst ht; exact ⟨_, hi, Le.refl _⟩
  | src _ => cases ht
  | op _ => cases ht
  | app _ _ _ _ => cases ht
  | lam _ _ => cases ht
  | sub _ hs ih =>
    obtain ⟨T₀, h1, h2⟩ := ih ht
    exact ⟨T₀, h1, Le.trans wf h2 (Or.inr hs)⟩

theorem inv_src (wf : WF L) {Γ : List Ty} {k : Nat} {T : Ty} (h : HasType L Sg S Γ (.src k) T) :
    ∃ T₀, S k = some T₀ ∧ Le L T₀ T := by
  generalize ht : LTerm.src k = t at h
  induction h with
  | var _ => cases ht
  | src hk => injection ht with ht; subst ht; exact ⟨_, hk, Le.refl _⟩
  | op _ => cases ht
  | app _ _ _ _ => cases ht
  | lam _ _ => cases ht
  | sub _ hs ih =>
    obtain ⟨T₀, h1, h2⟩ := ih ht
    exact ⟨T₀, h1, Le.trans wf h2 (Or.inr hs)⟩

theorem inv_op (wf : WF L) {Γ : List Ty} {name : String} {T : Ty} (h : HasType L Sg S Γ (.op name) T) :
    ∃ T₀, Sg name = some T₀ ∧ Le L T₀ T := by
  generalize ht : LTerm.op name = t at h
  induction h with
  | var _ => cases ht
  | src _ => cases ht
  | op hk => injection ht with ht; subst ht; exact ⟨_, hk, Le.refl _⟩
  | app _ _ _ _ => cases ht
  | lam _ _ => cases ht
  | sub _ hs ih =>
    obtain ⟨T₀, h1, h2⟩ := ih ht
    exact ⟨T₀, h1, Le.trans wf h2 (Or.inr hs)⟩

theorem inv_app (wf : WF L) {Γ : List Ty} {f x : LTerm} {T : Ty} (h : HasType L Sg S Γ (.app f x) T) :
    ∃ A B, HasType L Sg S Γ f (fn A B) ∧ HasType L Sg S Γ x A ∧ Le L B T := by
  generalize ht : LTerm.app f x = t at h
  induction h with
  | var _ => cases ht
  | src _ => cases ht
  | op _ => cases ht
  | app hf hx _ _ =>
    injection ht with h1 h2; subst h1; subst h2
    exact ⟨_, _, hf, hx, Le.refl _⟩
  | lam _ _ => cases ht
  | sub _ hs ih =>
    obtain ⟨A, B, h1, h2, h3⟩ := ih ht
    exact ⟨A, B, h1, h2, Le.trans wf h3 (Or.inr hs)⟩

theorem inv_lam (wf : WF L) {Γ : List Ty} {b : LTerm} {T : Ty} (h : HasType L Sg S Γ (.lam b) T) :
    ∃ A B, HasType L Sg S (A :: Γ) b B ∧ Le L (fn A B) T := by
  generalize ht : LTerm.lam b = t at h
  induction h with
  | var _ => cases ht
  | src _ => cases ht
  | op _ => cases ht
  | app _ _ _ _ => cases ht
  | lam hb _ =>
    injection ht with h1; subst h1
    exact ⟨_, _, hb, Le.refl _⟩
  | sub _ hs ih =>
    obtain ⟨A, B, h1, h2⟩ := ih ht
    exact ⟨A, B, h1, Le.trans wf h2 (Or.inr hs)⟩

/-! ## 6. subject reduction -/

/-- contracting a redex at the root keeps the type -/
theorem beta_preserves (wf : WF L) {Γ : List Ty} {b x : LTerm} {T : Ty}
    (h : HasType L Sg S Γ (.app (.lam b) x) T) : HasType L Sg S Γ (LTerm.beta b x) T := by
  obtain ⟨A, B, hf, hx, hBT⟩ := inv_app wf h
  obtain ⟨A', B', hb, hle⟩ := inv_lam wf hf
  obtain ⟨hA, hB⟩ := le_fn_inv wf hle
  exact (beta_typed hb (hx.le hA)).le (Le.trans wf hB hBT)

/-- one beta step anywhere keeps the type -/
theorem red_preserves (wf : WF L) {t t' : LTerm} (h : Red t t') :
    ∀ {Γ : List Ty} {T : Ty}, HasType L Sg S Γ t T → HasType L Sg S Γ t' T := by
  induction h with
  | beta b x => intro Γ T ht; exact beta_preserves wf ht
  | appL x _ ih =>
    intro Γ T ht
    obtain ⟨A, B, hf, hx, hBT⟩ := inv_app wf ht
    exact (HasType.app (ih hf) hx).le hBT
  | appR f _ ih =>
    intro Γ T ht
    obtain ⟨A, B, hf, hx, hBT⟩ := inv_app wf ht
    exact (HasType.app hf (ih hx)).le hBT
  | lam _ ih =>
    intro Γ T ht
    obtain ⟨A, B, hb, hle⟩ := inv_lam wf ht
    exact (HasType.lam (ih hb)).le hle

theorem star_preserves {R : LTerm → LTerm → Prop} {Γ : List Ty} {T : Ty}
    (hR : ∀ {t t' : LTerm} {Γ : List Ty} {T : Ty}, R t t' → HasType L Sg S Γ t T → HasType L Sg S Γ t' T)
    {t t' : LTerm} (h : Star R t t') (ht : HasType L Sg S Γ t T) : HasType L Sg S Γ t' T := by
  induction h with
  | refl _ => exact ht
  | step h1 _ ih => exact ih (hR h1 ht)

theorem redStar_preserves (wf : WF L) {Γ : List Ty} {T : Ty} {t t' : LTerm} (h : RedStar t t')
    (ht : HasType L Sg S Γ t T) : HasType L Sg S Γ t' T :=
  star_preserves (fun h1 h2 => red_preserves wf h1 h2) h ht

/-- one delta step anywhere keeps the type -/
theorem delta_preserves (wf : WF L) {defs : List LDef} (hd : DefsTyped L Sg S defs) {t t' : LTerm}
    (h : Delta defs t t') :
    ∀ {Γ : List Ty} {T : Ty}, HasType L Sg S Γ t T → HasType L Sg S Γ t' T := by
  induction h with
  | @unfold name d hfind =>
    intro Γ T ht
    obtain ⟨T₀, h0, hle⟩ := inv_op wf ht
    obtain ⟨T₁, h1, hbody⟩ := hd name d hfind
    rw [h0] at h1; injection h1 with h1; subst h1
    exact (weaken_closed hbody Γ).le hle
  | appL x _ ih =>
    intro Γ T ht
    obtain ⟨A, B, hf, hx, hBT⟩ := inv_app wf ht
    exact (HasType.app (ih hf) hx).le hBT
  | appR f _ ih =>
    intro Γ T ht
    obtain ⟨A, B, hf, hx, hBT⟩ := inv_app wf ht
    exact (HasType.app hf (ih hx)).le hBT
  | lam _ ih =>
    intro Γ T ht
    obtain ⟨A, B, hb, hle⟩ := inv_lam wf ht
    exact (HasType.lam (ih hb)).le hle

theorem deltaStar_preserves (wf : WF L) {defs : List LDef} (hd : DefsTyped L Sg S defs) {Γ : List Ty} {T : Ty}
    {t t' : LTerm} (h : DeltaStar defs t t') (ht : HasType L Sg S Γ t T) : HasType L Sg S Γ t' T :=
  star_preserves (fun h1 h2 => delta_preserves wf hd h1 h2) h ht

theorem unfold_preserves (wf : WF L) {defs : List LDef} (hd : DefsTyped L Sg S defs) (n : Nat) {Γ : List Ty}
    {T : Ty} {t : LTerm} (ht : HasType L Sg S Γ t T) : HasType L Sg S Γ (unfoldDefs defs n t) T :=
  deltaStar_preserves wf hd (unfold_delta defs n t) ht

theorem whnf_preserves (wf : WF L) {n : Nat} {Γ : List Ty} {T : Ty} {t r : LTerm} (h : whnf n t = some r)
    (ht : HasType L Sg S Γ t T) : HasType L Sg S Γ r T :=
  redStar_preserves wf (whnf_sound n t r h) ht

theorem nf_preserves (wf : WF L) {n : Nat} {Γ : List Ty} {T : Ty} {t r : LTerm} (h : nf n t = some r)
    (ht : HasType L Sg S Γ t T) : HasType L Sg S Γ r T :=
  redStar_preserves wf (nf_sound n t r h) ht

theorem primitive_preserves (wf : WF L) {defs : List LDef} (hd : DefsTyped L Sg S defs) {fuel : Nat}
    {Γ : List Ty} {T : Ty} {t r : LTerm} (h : primitiveL defs fuel t = some r)
    (ht : HasType L Sg S Γ t T) : HasType L Sg S Γ r T := by
  unfold primitiveL at h
  exact nf_preserves wf h (unfold_preserves wf hd _ ht)

/-- the natural way to meet `DefsTyped`: every definition of the list is typed at its declared type -/
theorem defsTyped_of_forall {defs : List LDef}
    (h : ∀ d, d ∈ defs → ∃ T, Sg d.name = some T ∧ HasType L Sg S [] (lamN d.arity d.body) T) :
    DefsTyped L Sg S defs := by
  intro name d hfind
  have hmem := List.mem_of_find?_eq_some hfind
  have hname := List.find?_some hfind
  have : d.name = name := by simpa using hname
  rw [← this]; exact h d hmem

end Tfv.C15P
