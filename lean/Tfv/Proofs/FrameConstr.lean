import Tfv.Spec.HistoryConstr
import Tfv.Proofs.Frame
import Tfv.Proofs.SchedInv
import Tfv.Proofs.InferConstrStore
/-!
# Frame lemmas for the inference engine WITH pending constraints (C16), part 1: store operations

A region `R` (variables `S`, constraint-set ids `K`, constraint ids `C`) that is closed in a store
(`ClosedC`, Spec/HistoryConstr.lean) stays closed under the store operations the engine performs inside it,
and these operations change nothing outside it: `FrC R σ σ'`. No well-formedness of the store is needed.
-/
namespace Tfv.C16C
open Tfv Tfv.C03P Tfv.C16P Tfv.C03C Tfv.C18P

/-! ## 1. terms over the allocated part of a set -/

def TermsInR (σ : Store) (S : Nat → Prop) (ts : List Term) : Prop := ∀ t, t ∈ ts → TermInR σ S t

theorem inStore_mono {σ σ' : Store} {S : Nat → Prop} (h : σ.vars.length ≤ σ'.vars.length) {v : Nat}
    (hv : InStore σ S v) : InStore σ' S v := ⟨hv.1, Nat.lt_of_lt_of_le hv.2 h⟩

theorem termInR_mono {σ σ' : Store} {S : Nat → Prop} (h : σ.vars.length ≤ σ'.vars.length) {t : Term}
    (ht : TermInR σ S t) : TermInR σ' S t := fun v hv => inStore_mono h (ht v hv)

theorem termsInR_mono {σ σ' : Store} {S : Nat → Prop} (h : σ.vars.length ≤ σ'.vars.length) {ts : List Term}
    (ht : TermsInR σ S ts) : TermsInR σ' S ts := fun t hm => termInR_mono h (ht t hm)

theorem termInR_var {σ : Store} {S : Nat → Prop} {v : Nat} : TermInR σ S (.var v) ↔ InStore σ S v :=
  termIn_var (S := InStore σ S)

theorem termInR_app {σ : Store} {S : Nat → Prop} {o : Nat} {args : List Term} :
    TermInR σ S (.app o args) ↔ TermsInR σ S args := termIn_app (S := InStore σ S)

theorem termsInR_nil {σ : Store} {S : Nat → Prop} : TermsInR σ S [] := fun _ h => nomatch h

theorem termsInR_cons {σ : Store} {S : Nat → Prop} {t : Term} {ts : List Term} :
    TermsInR σ S (t :: ts) ↔ (TermInR σ S t ∧ TermsInR σ S ts) := termsIn_cons (S := InStore σ S)

theorem termInR_base {σ : Store} {S : Nat → Prop} (o : Nat) : TermInR σ S (.app o []) :=
  termInR_app.mpr termsInR_nil

theorem termsInR_append {σ : Store} {S : Nat → Prop} {xs ys : List Term} (h1 : TermsInR σ S xs)
    (h2 : TermsInR σ S ys) : TermsInR σ S (xs ++ ys) := fun t ht => by
  rcases List.mem_append.mp ht with h | h
  · exact h1 t h
  · exact h2 t h

theorem termsInR_single {σ : Store} {S : Nat → Prop} {t : Term} (h : TermInR σ S t) : TermsInR σ S [t] :=
  termsInR_cons.mpr ⟨h, termsInR_nil⟩

theorem termsInR_filter {σ : Store} {S : Nat → Prop} {ts : List Term} (p : Term → Bool)
    (h : TermsInR σ S ts) : TermsInR σ S (ts.filter p) := fun t ht => h t (List.mem_filter.mp ht).1

/-- the allocated members of the variable set of a closed region are closed under bindings -/
theorem _root_.Tfv.ClosedC.closed {σ : Store} {R : Region} (hc : ClosedC σ R) : Closed σ (InStore σ R.S) :=
  fun w b hw hb => hc.bnd w b hw.1 hb

theorem followT_inR {σ : Store} {R : Region} (hc : ClosedC σ R) {t : Term} (ht : TermInR σ R.S t) :
    TermInR σ R.S (followT σ t) := followT_in hc.closed ht

theorem termsInR_map_followT {σ : Store} {R : Region} (hc : ClosedC σ R) {ts : List Term}
    (h : TermsInR σ R.S ts) : TermsInR σ R.S (ts.map (followT σ)) := fun t ht => by
  obtain ⟨x, hx, e⟩ := List.mem_map.mp ht
  subst e
  exact followT_inR hc (h x hx)

/-! ## 2. the frame relation -/

theorem _root_.Tfv.FrC.refl {R : Region} {σ : Store} (hc : ClosedC σ R) : FrC R σ σ :=
  ⟨Nat.le_refl _, Nat.le_refl _, Nat.le_refl _, fun _ _ => rfl, fun _ _ => rfl, fun _ _ => rfl, hc⟩

theorem _root_.Tfv.FrC.trans {R : Region} {a b c : Store} (h1 : FrC R a b) (h2 : FrC R b c) : FrC R a c :=
  ⟨Nat.le_trans h1.len h2.len, Nat.le_trans h1.klen h2.klen, Nat.le_trans h1.clen h2.clen,
   fun v hv => (h2.vfr v hv).trans (h1.vfr v hv), fun k hk => (h2.kfr k hk).trans (h1.kfr k hk),
   fun c hc => (h2.cfr c hc).trans (h1.cfr c hc), h2.closed⟩

theorem _root_.Tfv.FrC.tin {R : Region} {σ σ' : Store} (f : FrC R σ σ') {t : Term} (h : TermInR σ R.S t) :
    TermInR σ' R.S t := termInR_mono f.len h

theorem _root_.Tfv.FrC.tins {R : Region} {σ σ' : Store} (f : FrC R σ σ') {ts : List Term} (h : TermsInR σ R.S ts) :
    TermsInR σ' R.S ts := termsInR_mono f.len h

theorem _root_.Tfv.FrC.ins {R : Region} {σ σ' : Store} (f : FrC R σ σ') {v : Nat} (h : InStore σ R.S v) :
    InStore σ' R.S v := inStore_mono f.len h

/-! ## 3. the store operations -/

theorem length_csets_setCset (σ : Store) (k : Nat) (cs : List Nat) :
    (setCset σ k cs).csets.length = σ.csets.length := by unfold setCset; simp

theorem frC_setVar {R : Region} {σ : Store} (hc : ClosedC σ R) {v : Nat} (hv : R.S v) (i : VarInfo)
    (hb : ∀ b, i.bound = some b → TermInR σ R.S b) (hk : R.K i.cset) : FrC R σ (setVar σ v i) := by
  have hl : σ.vars.length ≤ (setVar σ v i).vars.length := Nat.le_of_eq (length_setVar σ v i).symm
  refine ⟨hl, Nat.le_refl _, Nat.le_refl _, fun w hw => ?_, fun _ _ => rfl, fun _ _ => rfl,
    ⟨fun w b hw hb' => ?_, fun w hw hS => ?_, fun k c hk' hm => hc.mem k c hk' hm,
     fun c u hlt hC hu => termInR_mono hl (hc.ctm c u hlt hC hu), fun w hw => ?_, hc.kfr, hc.cfr⟩⟩
  · apply getVar_setVar_ne
    intro e; subst e; exact hw hv
  · rw [getVar_setVar] at hb'
    split at hb'
    · exact termInR_mono hl (hb b hb')
    · exact termInR_mono hl (hc.bnd w b hw hb')
  · rw [length_setVar] at hw
    rw [getVar_setVar]
    split
    · exact hk
    · exact hc.cs w hw hS
  · rw [length_setVar] at hw; exact hc.sfr w hw

theorem frC_setCset {R : Region} {σ : Store} (hc : ClosedC σ R) {k : Nat} (hk : R.K k) {cs : List Nat}
    (hcs : ∀ c, c ∈ cs → R.C c ∧ c < σ.constrs.length) : FrC R σ (setCset σ k cs) := by
  refine ⟨Nat.le_refl _, Nat.le_of_eq (length_csets_setCset σ k cs).symm, Nat.le_refl _, fun _ _ => rfl,
    fun j hj => ?_, fun _ _ => rfl,
    ⟨hc.bnd, hc.cs, fun j c hj hm => ?_, hc.ctm, hc.sfr, fun j hj => ?_, hc.cfr⟩⟩
  · rw [getCset_setCset]
    split
    · next e => exact absurd (e.1 ▸ hk) hj
    · rfl
  · rw [getCset_setCset] at hm
    split at hm
    · exact hcs c hm
    · exact hc.mem j c hj hm
  · rw [length_csets_setCset] at hj; exact hc.kfr j hj

theorem frC_setConstr {R : Region} {σ : Store} (hc : ClosedC σ R) {c : Nat} (hC : R.C c) (x : Constr)
    (hx : TermsInR σ R.S (constrTerms x)) : FrC R σ (setConstr σ c x) := by
  refine ⟨Nat.le_refl _, Nat.le_refl _, Nat.le_of_eq (length_setConstr σ c x).symm, fun _ _ => rfl,
    fun _ _ => rfl, fun d hd => ?_,
    ⟨hc.bnd, hc.cs, fun k d hk hm => ?_, fun d u hlt hD hu => ?_, hc.sfr, hc.kfr, fun d hd => ?_⟩⟩
  · apply getConstr_setConstr_ne
    intro e; subst e; exact hd hC
  · rw [length_setConstr]; exact hc.mem k d hk hm
  · rw [length_setConstr] at hlt
    by_cases e : c = d
    · subst e
      rw [getConstr_setConstr_eq x hlt] at hu
      exact hx u hu
    · rw [getConstr_setConstr_ne x e] at hu
      exact hc.ctm d u hlt hD hu
  · rw [length_setConstr] at hd; exact hc.cfr d hd

theorem getVar_newVar_eq (σ : Store) (wc : Bool) :
    getVar (newVar σ wc).1 σ.vars.length = { wildcard := wc, cset := σ.csets.length } := by
  unfold getVar newVar
  simp

theorem length_csets_newVar (σ : Store) (wc : Bool) : (newVar σ wc).1.csets.length = σ.csets.length + 1 := by
  unfold newVar; simp

theorem frC_newVar {R : Region} {σ : Store} (hc : ClosedC σ R) (wc : Bool) : FrC R σ (newVar σ wc).1 := by
  have hl : σ.vars.length ≤ (newVar σ wc).1.vars.length := by rw [length_newVar]; omega
  refine ⟨hl, by rw [length_csets_newVar]; omega, Nat.le_refl _, fun w hw => ?_,
    fun k _ => getCset_newVar σ wc k, fun _ _ => rfl,
    ⟨fun w b hw hb => ?_, fun w hw hS => ?_, fun k c hk hm => ?_,
     fun c u hlt hC hu => termInR_mono hl (hc.ctm c u hlt hC hu), fun w hw => ?_, fun k hk => ?_, hc.cfr⟩⟩
  · apply getVar_newVar_lt
    apply Nat.lt_of_not_le
    intro h; exact hw (hc.sfr w h)
  · rw [(getVar_newVar_core σ wc w).1] at hb
    exact termInR_mono hl (hc.bnd w b hw hb)
  · rw [length_newVar] at hw
    by_cases h : w < σ.vars.length
    · rw [getVar_newVar_lt h]; exact hc.cs w h hS
    · have e : w = σ.vars.length := by omega
      subst e
      rw [getVar_newVar_eq]
      exact hc.kfr _ (Nat.le_refl _)
  · rw [getCset_newVar] at hm
    exact hc.mem k c hk hm
  · rw [length_newVar] at hw; exact hc.sfr w (by omega)
  · rw [length_csets_newVar] at hk; exact hc.kfr k (by omega)

theorem frC_newVars {R : Region} : ∀ (n : Nat) {σ : Store}, ClosedC σ R →
    FrC R σ (newVars σ n).1 ∧ TermsInR (newVars σ n).1 R.S (newVars σ n).2
  | 0, σ, hc => by
    unfold newVars
    exact ⟨FrC.refl hc, termsInR_nil⟩
  | n+1, σ, hc => by
    have f1 := frC_newVar hc false
    obtain ⟨f2, h2⟩ := frC_newVars n f1.closed
    unfold newVars
    simp only []
    refine ⟨f1.trans f2, termsInR_cons.mpr ⟨termInR_var.mpr ⟨hc.sfr _ ?_, ?_⟩, h2⟩⟩
    · rw [snd_newVar]; exact Nat.le_refl _
    · have := f2.len
      rw [length_newVar] at this
      rw [snd_newVar]; omega

/-! ## 4. chains of updates inside the region -/

theorem _root_.Tfv.FrC.put {R : Region} {σ σ1 : Store} (f : FrC R σ σ1) {v : Nat} (hv : R.S v) (i : VarInfo)
    (hb : ∀ b, i.bound = some b → TermInR σ1 R.S b) (hk : R.K i.cset) : FrC R σ (setVar σ1 v i) :=
  f.trans (frC_setVar f.closed hv i hb hk)

/-- updating fields other than `bound` and `cset` of an allocated member -/
theorem _root_.Tfv.FrC.put_same {R : Region} {σ σ1 : Store} (f : FrC R σ σ1) {v : Nat} (hv : InStore σ1 R.S v)
    (i : VarInfo) (hb : i.bound = (getVar σ1 v).bound) (hk : i.cset = (getVar σ1 v).cset) :
    FrC R σ (setVar σ1 v i) :=
  f.put hv.1 i (fun b e => f.closed.bnd v b hv.1 (hb ▸ e)) (hk ▸ f.closed.cs v hv.2 hv.1)

/-- pointing an allocated member to another constraint set of the region -/
theorem _root_.Tfv.FrC.put_cs {R : Region} {σ σ1 : Store} (f : FrC R σ σ1) {v : Nat} (hv : R.S v) {k : Nat}
    (hk : R.K k) : FrC R σ (setVar σ1 v { (getVar σ1 v) with cset := k }) :=
  f.put hv _ (fun b e => f.closed.bnd v b hv e) hk

theorem _root_.Tfv.FrC.set_cs {R : Region} {σ σ1 : Store} (f : FrC R σ σ1) {k : Nat} (hk : R.K k) {cs : List Nat}
    (hcs : ∀ c, c ∈ cs → R.C c ∧ c < σ1.constrs.length) : FrC R σ (setCset σ1 k cs) :=
  f.trans (frC_setCset f.closed hk hcs)

theorem _root_.Tfv.FrC.fold_cs {R : Region} {σ : Store} {k : Nat} (hk : R.K k) : ∀ (vars : List Nat) (σ1 : Store),
    FrC R σ σ1 → (∀ x, x ∈ vars → R.S x) →
    FrC R σ (vars.foldl (fun σ w => setVar σ w { (getVar σ w) with cset := k }) σ1)
  | [], _, f, _ => f
  | w :: ws, σ1, f, h => by
    simp only [List.foldl_cons]
    exact FrC.fold_cs hk ws _ (f.put_cs (h w List.mem_cons_self) hk)
      (fun x hx => h x (List.mem_cons_of_mem _ hx))

/-! ## 5. the stores `bind` builds -/

theorem frC_bindBaseStore {R : Region} {σ : Store} (hc : ClosedC σ R) {v : Nat} (hv : InStore σ R.S v)
    {t : Term} (ht : TermInR σ R.S t) : FrC R σ (bindBaseStore σ v t) := by
  unfold bindBaseStore
  simp only []
  have f1 : FrC R σ (setVar σ v (clearW σ v)) := (FrC.refl hc).put_same hv _ rfl rfl
  refine f1.put hv.1 _ (fun b hb => ?_) (hc.cs v hv.2 hv.1)
  injection hb with hb; subst hb; exact f1.tin ht

theorem frC_bindVarStore {R : Region} {σ : Store} (hc : ClosedC σ R) {v tv : Nat} (hv : InStore σ R.S v)
    (htv : InStore σ R.S tv) : FrC R σ (bindVarStore σ v tv) := by
  have f0 := frC_bindBaseStore hc hv (termInR_var.mpr htv)
  unfold bindBaseStore at f0
  simp only [] at f0
  unfold bindVarStore
  simp only []
  have hki : R.K (clearW σ v).cset := hc.cs v hv.2 hv.1
  have hkt := f0.closed.cs tv (f0.ins htv).2 htv.1
  refine FrC.put_same ?_ ?_ _ rfl rfl
  · refine FrC.put_cs ?_ hv.1 hkt
    refine f0.set_cs hkt (fun c hm => ?_)
    rcases mem_unionSorted _ _ hm with h1 | h1
    · exact f0.closed.mem _ c hkt h1
    · exact f0.closed.mem _ c hki h1
  · refine ⟨htv.1, ?_⟩
    simp only [length_setVar, length_setCset]
    exact htv.2

theorem merged_in {σ : Store} (P : Nat → Prop) : ∀ (vars : List Nat),
    (∀ w, w ∈ vars → ∀ c, c ∈ getCset σ (getVar σ w).cset → P c) →
    ∀ (init : List Nat), (∀ c, c ∈ init → P c) →
    ∀ c, c ∈ vars.foldl (fun acc w => unionSorted acc (getCset σ (getVar σ w).cset)) init → P c
  | [], _, _, h, c, hc => h c hc
  | w :: ws, hv, init, h, c, hc => by
    simp only [List.foldl_cons] at hc
    refine merged_in P ws (fun x hx => hv x (List.mem_cons_of_mem _ hx)) _ ?_ c hc
    intro d hd
    rcases mem_unionSorted _ _ hd with h1 | h1
    · exact h d h1
    · exact hv w List.mem_cons_self d h1

theorem frC_bindAppStore {R : Region} {σ : Store} (hc : ClosedC σ R) {v : Nat} (hv : InStore σ R.S v)
    {t : Term} (ht : TermInR σ R.S t) : FrC R σ (bindAppStore σ v t) := by
  have f0 := frC_bindBaseStore hc hv ht
  have hki : R.K (clearW σ v).cset := hc.cs v hv.2 hv.1
  have hvars : ∀ x, x ∈ directVars (bindBaseStore σ v t) (termFuel (bindBaseStore σ v t)) t [] →
      InStore (bindBaseStore σ v t) R.S x :=
    directVars_in f0.closed.closed _ _ _ (f0.tin ht) (fun x hx => nomatch hx)
  unfold bindAppStore
  simp only []
  refine FrC.fold_cs hki _ _ ?_ (fun x hx => (hvars x hx).1)
  refine f0.set_cs hki ?_
  refine merged_in (fun c => R.C c ∧ c < (bindBaseStore σ v t).constrs.length) _ (fun w hw c hm => ?_) _
    (fun c hm => f0.closed.mem _ c hki hm)
  exact f0.closed.mem _ c (f0.closed.cs w (hvars w hw).2 (hvars w hw).1) hm

end Tfv.C16C
