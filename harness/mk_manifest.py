"""Writes MANIFEST.json from the table below (kept valid at all times)."""
import json, os
HERE = os.path.dirname(os.path.dirname(os.path.abspath(__file__)))

NOTE = ("Trusted base: Lean 4.33 kernel; axioms per theorem audited on every run with #print axioms (subset of propext, "
        "Classical.choice, Quot.sound; no native_decide/bv_decide/sorry); gen_constants.py translator; correspondence harness "
        "(generators, adapters, canonicalisation) tying the hand-written model to /repo's current source; independent Python oracle per property.")

CLAIMED = {
 "C01": dict(text="Full: Lean theorems C01_decides/refl/trans/antisymm/strict/opSub prove for every well-formed language and all concrete types "
        "(no bound) that the model of is_subtype is exactly the declared order; the model is tied to type.py by differential testing on generated "
        "languages and related type pairs, plus an independent oracle of the declared order and order axioms on the implementation.",
        technique="Lean 4 proof (mutual structural induction over the nested type) + model/implementation correspondence check",
        ref="6/C01"),
 "C02": dict(text="Full: C02_apply_accepts/rejects/top/nonfunction and C02_unify_iff_sub prove for all well-formed languages and concrete (a, b, x) that the "
        "model of Type.apply accepts exactly the declared subtypes of the input and fails only with a type mismatch; tied to type.py by "
        "differential testing on generated triples incl. function-typed arguments, Top/Bottom, non-functions; independent oracle.",
        technique="Lean 4 proof (mutual structural induction, reuse of the C01 order theorems) + model/implementation correspondence check",
        ref="6/C02"),
 "C03": dict(text="Constraint-free engine full on the model: C03_unify_sound_partial (subtype mode, the only one Type.apply uses: solutions only shrink and the requested relation holds "
        "under every remaining solution), C03_fix_sound, C03_instantiate_sound, C03_apply_sound, C03_apply_chain (every argument a subtype of its parameter, result = instantiated result), "
        "C03_base_bound_never_compound, C03_witness_exists / C03_choice_exists / C03_acyclicB_sound (a witnessing instantiation exists for every choice within the reported bounds, for acyclic stores), "
        "C03_concrete_link (the engine on variable-free types is the concrete model of C02). WITH deferred constraints (Props/C03Constr.lean, one simultaneous induction over all twelve functions of the unifier with the invariant OkStoreC): "
        "C03c_unify_sound / C03c_unify_flags_sound (counterexamples show the subtype conclusion needs skip_basic = skip_wildcard = False), C03c_check_constraints_sound, C03c_fulfill_sound, C03c_fix_sound, "
        "C03c_instantiate_sound (schemas with constraints and wildcards), C03c_apply_sound, C03c_apply_chain, C03c_apply_chain_instantiation, C03c_base_bound_never_compound. "
        "The last clause ('every constraint whose variables were all resolved holds') as an ATTACHMENT invariant kept by the whole engine (Props/C03Resolved.lean, C03r_*, 20; invariant Ready = OkStoreC + Chains + NoWild + Inv): "
        "an unfulfilled constraint sits in the constraint set of every variable reachable from its terms, an unfulfilled subtype constraint never has both sides resolved, hence C03r_resolved_sub_holds_partial - after instantiate + applyAll "
        "EVERY subtype record, marked fulfilled or not, whose sides resolve satisfies the relation; elimination: unfulfilled records keep >= 2 alternatives and the resolved reference lies below each, fulfilled single-alternative records hold, "
        "schemas with closed alternatives (x << {A, B}) hold in full (C03r_resolved_elim_closed_holds_partial), remaining alternatives always derive from the schema's (across minimize's stale write-back). Partial: wildcard-free schemas (nwild = 0; "
        "C03c_match3_wildcards_unsound shows why marking needs it), resolution depth < 64 (C03r_deep_constraint_unchecked: beyond its match fuel 4*vars+64 the MODEL accepts F^70(x) <= F^70(A) on Unit where the Python code - replayed - raises "
        "ConstraintViolation: model and code are claimed, and compared by a depth family, only below that depth), and fulfilled elimination records left with >= 2 non-closed alternatives by a re-entrant fulfill (neither proved nor refuted: "
        "0 violations in 3.9 million such records found by search; Props/C03ResolvedElim.lean, C03e_*, 9: reduction to one clause, stability lemmas, and a verified monitor elimHoldsB - exact on resolved elimination records - that the tfv-inv executable evaluates on the model's final store of every compared run, a rejection being a C03 failure; Props/C03Wild.lean, C03w_*, 19: match3 on variable pairs characterised exactly, the variable/variable case of fulfil sound without any wildcard hypothesis, a decidable certificate subsStrictB replacing NoWild in the partial theorems, 588 wildcard runs certified in the kernel - that every reachable store passes the certificate is proved end to end for runs with at most one wildcard in schema and arguments together (Props/C03WildReach.lean, C03x_*, 22) and reduced to one explicit hypothesis otherwise; Props/C03WildMany.lean, C03y_*, 12: for any number of wildcards the marking case of fulfil is strict in every branch of unify except the right-skeleton one, which stays an explicit hypothesis); that rest is decided by correspondence (re-check order fixed by the hook) and the oracle (corner instantiations of the implementation's own final signature); unify(subtype=False) has proved counterexamples "
        "(C03_unify_plain_unsound_*), it is not reachable from Type.apply.",
        technique="Lean 4 proof (simultaneous induction on fuel over the mutual unifier, store invariants, valuation semantics) + model/implementation correspondence check",
        ref="6/C03"),
 "C04": dict(text="Full on the model: C04_stack_machine (generic invariant lemma for parse_expr over any builder), "
        "C04_nodes / C04_parseTyped_nodes / C04_every_node (every application node of the parsed tree: function part has a function type whose input is a supertype of the argument's type and whose "
        "output is the node's type, under every solution of the final store), C04_fix_nodes (preserved by Expr.fix), C04_call_nodes (programmatic construction), C04_annotation (e : T gives type(e) <= T), "
        "C04_leaf_instance (an operator leaf is an instance of its declared signature). The same sixteen theorems hold for operator tables whose signatures carry constraints (Props/C04Constr.lean, C04c_*, built on the C03c soundness theorems). "
        "Oracle: tree re-checked at the corners of the residual bounds, accept/reject families with an independent subtype reference, two unrelated lineages.",
        technique="Lean 4 proof (stack-machine invariant over an abstract builder, reuse of the C03 soundness theorems) + model/implementation correspondence check",
        ref="6/C04"),
 "C05": dict(text="Full on the model (constraint-free): C05_above_chain / C05_below_chain (closed form: lower bound = greatest, upper bound = least argument of the chain), C05_above_perm / C05_supply_perm "
        "(order independence, also for interleaved covariant and contravariant supplies), C05_crossing_fails, Top/Bottom cases, C05_mono / C05_apply_mono (specialising an argument keeps success and "
        "never generalises the result), C05_apply_identity_chain (x ** ... ** x applied to a chain returns the least upper bound), C05_fix_least / C05_fix_extremal (fixing a single-polarity type yields "
        "the least instantiation within the bounds; counterexamples show single polarity and independence are needed). With one subtype constraint on x ** ... ** x (Props/C05Constr.lean): same closed form, least result, order independence, rejection above the bound; several / elimination constraints and the "
        "fix_least family with constraints are decided by correspondence only. Tie: chain tuples in every permutation and specialisation, closed-form oracle.",
        technique="Lean 4 proof (state machine on (lower, upper, bound), permutation invariance from a closed form) + model/implementation correspondence check",
        ref="6/C05"),
 "C06": dict(text="Full on the model for linear alternatives: C06_fits_iff (the decidable 'fits' is exactly: some instance of the alternative is a supertype of the argument), C06_match3_eliminates "
        "(the three-valued matcher answers 'definitely not' exactly when the argument does not fit), C06_filter_keeps_fitting / C06_accept_iff_fits_filter / C06_violation_iff_no_fit (the elimination "
        "constraint is violated iff no alternative fits), C06_bounded_var* (the base-type case through the variable's bounds, repaired D3/D22), C06_fits_iff_needs_linear (counterexample for non-linear "
        "alternatives). The unique-fit result and the 'between' clause are decided by correspondence + oracle on all concrete arguments of depth <= 2. Beyond linear alternatives (Props/C06Gen.lean, C06g_*, 26): exact characterisation of what fulfill keeps, acceptance iff fit for unipolar alternatives (nested, several variables, repeated variables of one polarity), uniqueness / between clauses for one fulfill call; bipolar alternatives (a variable in both polarities, outside the property's quantifier) are accepted without a fit: proved on the model, replayed on the implementation, recorded in DESIGN.md. Through a whole application (Props/C06Apply.lean, C06a_*, 17): for x ** r(x) [x << ts] with concrete pairwise incomparable alternatives and a compound argument a, instantiate + apply succeeds iff some alternative fits a (C06a_accept_iff_fit), fails with exactly ConstraintViolation otherwise (C06a_reject_is_violation), the whole run is one equation (C06a_run_eq); unique fit: x is bound to the ARGUMENT (not the alternative), the record a << [t] is fulfilled and the result is r[x:=a] (C06a_unique_fit); several fits: the constraint stays attached and pending with exactly the fitting alternatives (C06a_several_fit). Nullary arguments and alternatives with their own variables (Props/C06ApplyBase.lean, C06b_*, 41): base-type argument accepted iff some alternative is Top or a base type above it (at most one in an antichain), refusal exactly ConstraintViolation, final store described; Bottom accepted with the constraint pending, Top refused; x << {F(b), G(c,d)} accepted iff the head matches, for every well-formed concrete argument; repeated variable G(b,b): accepted iff the components are comparable (no joins; G(A,C) refused with SubtypeMismatch although it fits with b := Top - proved, replayed on the code). Outside the property's quantifier, proved and replayed on the code: with two arguments meeting the constrained variable acceptance depends on their order (x ** x ** x [x << {F(A), F(C)}]: [F(A), F(B)] accepted, [F(B), F(A)] SubtypeMismatch - the same without the constraint: a bare variable is bound to a compound argument exactly) and no join is taken (C06a_two_args_order_matters, C06a_two_base_args_no_join).",
        technique="Lean 4 proof (polarity-indexed fits relation, fuel induction over the matcher) + model/implementation correspondence check",
        ref="6/C06"),
 "C07": dict(text="On the graph model: C07_queried_are_emitted / C07_membership_in_vocabulary (predicate names re-extracted from graph.py, query.py and the vocabulary on every run), C07_op_node, "
        "C07_annotate_subtypeOf, C07_canonical_type_node, C07_subtypeOf_exact_plain (for a canon without Top/Bottom the subtypeOf set of a node with canonical type t is exactly the canonical supertypes "
        "of t, via C10), C07_type_memo / C07_type_once (one node per distinct type), C07_triples_mono. C07_src_stale (a source's type is read through the final store: repaired defect D30). Partial: with Top/Bottom canonical the transitive supertypes inherit known finding D6 (D6b), excused only "
        "where the model - which has the same look-through - agrees with the implementation; "
        "the membership unions and non-canonical types are decided by correspondence (graph isomorphism with the model over random with_* switches) and the oracle. Membership (Props/C07Member.lean, 32): containsType = union of type and subtypeOf objects over the nodes added, containsOperation = union of via, exact gates per switch, lifted to add_workflow.",
        technique="Lean 4 proof (step-sequence invariants of the graph generator, reuse of C10/C14) + generated constants + model/implementation correspondence check (graph isomorphism)",
        ref="6/C07"),
 "C08": dict(text="On the graph model (types off, other switches arbitrary): C08_spine_one_node, C08_first_order (the from-edges equal those of an independently written spine layout flowFO), "
        "C08_first_order_tree (one node per operator application, one per source, out-degree = number of arguments, nothing else), C08_hof_one_level_partial, C08_hof_nested, C08_hof_general / C08_hofS_general "
        "(higher-order expressions of any nesting depth, also with function-typed sources passed, repeatedly: internal nodes and edges equal the declarative layout flowHO; C08_hofS_repeated states when an "
        "internal node receives its own argument's node), C08_hof_wiring (the local rule for any expression and state), C08_edges_config_independent; abstractions (expanded composite operators, "
        "Model/GraphAbs.lean): C08a_embed (the abstraction-aware generator agrees with add_expr's model on abstraction-free expressions), C08a_params, C08a_lam_wiring, C08a_lam_identity, C08a_arg_wiring. "
        "Not covered by a theorem: shared objects and source-headed spines in the any-depth theorem, abstractions at any depth - decided by correspondence (the model builds the graph of every expansion "
        "with the minimal switches) and by the independent Python data-flow construction under the minimal and a random switch combination. Any depth WITH abstractions (Props/C08AbsDeep.lean): class HofA, layout flowHA, C08a_hofA_general (edges of addExprA = layout), agreement with flowHO on abstraction-free expressions.",
        technique="Lean 4 proof (simulation of add_expr by a pure edge function, incremental-to-whole-spine invariant) + model/implementation correspondence check (graph isomorphism)",
        ref="6/C08"),
 "C10": dict(text="On the canon model: C10_succ_sound_* / C10_links_sound / C10_reach_sound (every reported link is a strict sub/supertype, all configurations), C10_succ_complete_step, "
        "C10_reach_complete_tbfree_universe, C10_expandCanon_closed / C10_mkCanon_contains_subtypes / C10_canon_plain_iff (the canon is exactly the subtypes of the listed types), "
        "C10_canon_no_bottom / C10_canon_no_top, C10_expandCanon_order_irrelevant, C10_complete_tbfree, C10_reach_iff_plain and C10_mirror_plain (reachability = strict order and mirroring when "
        "neither Top nor Bottom is canonical). Partial: with Top/Bottom canonical completeness/mirroring fail (C10_counterexample_reach; known finding D6); the vocabulary triples are decided by "
        "correspondence + oracle (known finding D24). Vocabulary (Model/Vocab.lean, compared with add_vocabulary through the driver command gvocab; Props/C10Vocab.lean, 33): subClassOf triples = direct links resp. their reflexive-transitive closure, described types = canon + parameters reached (D24 as it is), invariance under the canon's iteration order up to blank-node renaming.",
        technique="Lean 4 proof (covering-step completeness with a gap measure, work-list invariant, least closed set) + model/implementation correspondence check",
        ref="6/C10"),
 "C15": dict(text="On the model (the pure calculus: composite operators unfolded to anonymous functions, leftmost-outermost beta reduction on de Bruijn terms): C15_unfold_complete, "
        "C15_no_redex / C15_normal_partial (the result has no composite operator and no reducible application, for definitions in dependency order; counterexample for a recursive definition), "
        "C15_idempotent (expanding again changes nothing), C15_sound / C15_primitive_is_reduction (only unfolding and beta steps), C15_confluent + C15_normal_form_unique + C15_equals_normal_form "
        "(Church-Rosser: the result IS the normal form, however computed), C15_complete / C15_none_iff_no_normal_form, C15_standard_agrees (an independent applicative-order evaluator agrees), "
        "C15_fuel_monotone. The model is tied to primitive() on all generated expressions, including definitions that duplicate a parameter (these crashed the implementation until defect D8 was repaired by "
        "copy-on-substitution). Partial: type preservation and 'expands without type error in a language that validates' are decided by the oracle. Typed (Props/C15Typed.lean, 26): a simple type system with subsumption over the declared order; substitution lemma, subject reduction for beta and for unfolding typed definitions, C15t_primitive_preserves, minimal types go down along the expansion (monomorphic instances). Termination (Props/C15Terminates.lean, 14): strong normalisation of beta reduction on every typed term (Tait's method over the arrow skeleton, subsumption with Top and Bottom included; the self-application lambda x. x x is typable at Bottom -> T, omega is proved untypable), hence C15n_primitive_terminates / C15n_primitive_total: for typed definitions and a typed expression the expansion terminates for some fuel and every larger one, its result is normal, unique and has every type of the expression - no longer conditional on the fuelled normaliser returning.",
        technique="Lean 4 proof (substitution lemmas, parallel reduction / Church-Rosser, standardisation) + model/implementation correspondence check + independent normaliser oracle",
        ref="6/C15"),
 "C16": dict(text="On the model (definitions are immutable data; the inference store is the only thing threaded between uses): C16_instantiate_fresh / C16_instantiate_twice_disjoint, C16_unify_frame / "
        "C16_fix_frame / C16_apply_frame / C16_definitions_untouched (only variables reachable from the current terms or freshly allocated change), C16_history_independent (instantiating a schema and "
        "applying it to concrete arguments after ANY history gives the shifted result of the same run from the empty store), C16_history_content_irrelevant. With pending constraints (Props/C16Constr.lean, C16c_*, 30 theorems): freshness of instantiation without any store hypothesis, frame and reads-only-its-region theorems for all twelve engine "
        "functions and arbitrary flags, instantiation independent of the content of the history. Shift form with constraints (Props/C16Shift.lean, C16s_*, 26 theorems): behind ANY history a whole use, and every engine function, is the fresh run renamed and "
        "computed with the model's four store-size fuels offset by the history's sizes (C16s_history_shift) - the history is never read or written, only its size leaks, through fuels; the plain statement holds "
        "exactly when the fresh run is insensitive to those offsets (C16s_history_independent_iff; usable direction C16s_history_independent_partial) and is false of the model on terms nested deeper than 4*vars+64 "
        "(kernel-checked C16s_history_independent_fails*; an artefact of the model's fuels - Python recurses without fuel - as is C16_history_independent_unify_fails). Fuel safety (Props/C16Depth.lean, C16d_*, 23): helpers and engine are offset-independent whenever the decidable check useSafe of the fresh run holds (resolved depth of every term walked at most 63, chains end, closure stabilised), hence C16d_history_independent_partial - the fresh outcome shifted behind every history with no further hypothesis; a bound on input depth alone does not suffice (kernel-checked counterexample at schema depth 9 with 26 chained variables; replayed: the code resolves where the model gives up - the model is claimed faithful for resolved depth < 64 only); tfv-inv evaluates useSafe on every compared run with concrete arguments. Python-level aliasing is decided by "
        "histories of parse/validate/graph/query calls on one Language followed by a probe compared with a fresh language and the model, a polymorphic-data-constant family, plain wildcard signatures, and "
        "the verdict of Language.validate() after histories that close the language.",
        technique="Lean 4 proof (frame and equivariance lemmas by induction over the mutual unifier) + model/implementation correspondence over histories",
        ref="6/C16"),
 "C18": dict(text="The general statement is false of the code (known findings D14, D20, D21) and of the model (kernel-checked C18_counterexample_error_kind, C18_counterexample_result, "
        "C18_counterexample_result_type, C18_general_false). Proved: sched_id / C18_model_is_creation_order (the engine with the re-check order as a parameter, instantiated at creation order, IS the "
        "model all other theorems are about), C18_csets_stay_sorted, C18_partial / C18_partial_block (two schedules that agree on every reachable pending set give the same run), C18_no_constraints, "
        "C18_single_constraint(_run) (schemas with at most one constraint are order-independent under every priority order), C18_fulfilled_noop / _swap. Tie: the scheduled engine is compared with "
        "the implementation under EVERY priority order (all permutations for <= 4 constraints) through the TRANSFORGE_VERIF hook; oracle: equal outcomes across all priority orders and sampled "
        "per-point random orders; an internal error under any order is reported (this found and fixed D22, D23, D25). Every schedule is sound and assertion-free (Props/C18Sound.lean, 47). New order-independent fragment (Props/C18Disjoint.lean, 19): pairwise variable-disjoint constraints + concrete arguments run identically under every permuting schedule; counterexamples outside it.",
        technique="Lean 4 proof (schedule-parameterised copy of the unifier proved equal to the model at the identity schedule, invariant-based agreement of schedules, kernel-evaluated counterexamples) + model/implementation correspondence under imposed schedules",
        ref="6/C18"),
 "C19": dict(text="On the model: C19_worklist / C19_worklist_mkCanon (the canon does not depend on the order the work list is processed), C19_foldl_add_perm / C19_emission_perm(_canonical) (the triple "
        "set does not depend on the order in which set-valued collections are emitted), C19_model_deterministic. Partial by nature: hash-seed and allocation-history dependence is runtime behaviour "
        "no model exhibits; it is exercised by generating every graph in fresh interpreters (PYTHONHASHSEED 0-3, random; after unrelated graphs; reversed listing) and comparing isomorphism-invariant digests (harness/iso.py; equal digests confirmed by an exact isomorphism test) of the graphs with only the running numbers of printed variables removed, printed order included (this found and fixed D28). Vocabulary: isomorphic graphs for any two iteration orders of the canon (Props/C19Vocab.lean).",
        technique="Lean 4 proof (permutation invariance of set-emitting folds) + cross-interpreter determinism check",
        ref="6/C19"),
 "C09": dict(text="Full for the repaired add_from: C09_step proves that one add_from call (plain and recursive branch, cycles allowed) keeps "
        "depends = transitive closure of from, C09_all lifts it to every call sequence in every order, C09_transitiveObjects proves the modelled "
        "rdflib transitive_objects (fuelled BFS) correct; C09_expression_graph / C09_workflow_graph lift it to every graph the modelled add_expr / add_workflow produce. Tie: recorded add_from call sequences of the real graph (random sequences and the calls made "
        "by add_expr/add_workflow) are replayed on the model and the depends sets compared; oracle recomputes the closure of the real from-triples. Also for the abstraction-aware generator (Props/C09Abs.lean): C09a_addExprA_closed, C09a_expression_graph.",
        technique="Lean 4 proof (invariant by induction over the operation sequence; path-splitting lemma) + model/implementation correspondence check",
        ref="6/C09"),
 "C14": dict(text="Full on the model: URI half - C14_uri_roundtrip_toks (decode . encode = id on every well-formed type), C14_uri_injective, C14_decode_sound, "
        "C14_resolve; text half - C14_text_roundtrip (parse_type's stack machine applied to the printed tokens of any printable concrete non-function type "
        "returns the type, via the generalised invariant C14_text_invariant), C14_text_injective, C14_alias_plain / C14_alias_param (an alias in type text "
        "denotes its definition), for every language, arity and nesting depth. Tie: uri / parse_type_uri / str(t) / parse_type / aliases of the implementation "
        "against the model on generated languages; the printed string is tied to the token list by tokenizing it on both sides; names that clash after the stripping of trailing underscores must be refused.",
        technique="Lean 4 proof (generalised work-list and stack-machine invariants, mutual structural induction) + model/implementation correspondence check",
        ref="6/C14"),
 "C11": dict(text="On the query model: C11_eval_iff / C11_solve_sound / C11_solve_complete (the evaluator is a correct basic-graph-pattern semantics), C11_assign_reachable, C11_query "
        "(for every task whose query can be generated - DAGs, several outputs, all flag combinations without unfold_tree - the generated query matches a workflow graph iff the task's steps can be "
        "assigned to concept nodes as the property states: output / penultimate output, operator, canonical supertype, depends-links with the `:depends?` rule, inputs, membership pre-filter via C20), "
        "C11_generates(_only) (generation fails exactly on cyclic tasks or types without URI), C11_drop_step / C11_subtask, C11_generalise, C11_absent_operator / C11_absent_type, C11_self, "
        "C11_predicates (every predicate of the query is one the graph generator emits; names re-extracted from source). Partial: unfold_tree is covered by correspondence only; the up-closedness "
        "of subtypeOf/containsType sets needed by C11_generalise is C07's theorem for plain canons and an assumption otherwise. Tie: SPARQL parsed back into clauses vs genQuery; verdicts of "
        "rdflib, a plain matcher, the brute-force statement and the model's evaluator. unfold_tree=True (Props/C11Unfold.lean, C11UnfoldCor.lean, 80): one variable per path, generated query iff MatchesUnfolded iff Matches of the unfolded task, relation between the two modes (implication, refuted converse, coincidence on tree-shaped tasks), and the Part-C consequences (sub-task, dropped step, generalisation, absent operator/type, self-match, monotonicity in the flags) for that mode.",
        technique="Lean 4 proof (soundness/completeness of the BGP evaluator, characterisation of assign_variables, clause-by-clause meaning) + model/implementation correspondence check",
        ref="6/C11"),
 "C12": dict(text="On the workflow model: C12_app_perm / C12_target_perm / C12_wfExpr_perm / C12_wfNode_perm and C12_order_partial (the listing order can only enter through source_types: given equal "
        "recorded source types the whole graph is equal), C12_record_order (source_types is order-independent when the recorded types are totally ordered), counterexamples "
        "C12_sourceTypes_order_visible / _semantic (known finding D26), C12_nodemap_functional / _total, C12_shared_once / _first (one node per resource, shared when consumed more than once), "
        "C12_output_marked / C12_inputs_marked / C12_class, C12_inline_structure + C12_addExpr_shared_transparent (a tool's inputs denote the producers' whole expressions; the workflow graph is the "
        "graph of the inlined expression with sharing), C12_no_passthrough_link / _flat, C09_workflow_graph. C12_final_exprs / C12_expr_once(_passthrough) (the memo table under re-fixing without passthrough). Partial: typing inside the tools is inherited from the inference model through "
        "correspondence; 'each source gets the most general type acceptable to all its uses' is decided by an oracle (acceptable to every tool, not below an independently computed valid typing, no bound lost); "
        "End to end (Props/C12Inline.lean, 9): C12_inline_trace_partial - a successful add_workflow IS a trace of one add_expr call per resource the target depends on, inputs before tools, each on the resource's tagged inlined expression (at that moment every inner tag has a node, so every consumption is a memo hit), followed by the links, one tf:input per source, tf:output and the class (C12_inline_marks: exactly those and nothing else); C12_tag_hides_body (add_expr cannot see below a tag that has a node: the quotient statement); the literal form 'one add_expr call on the inlined expression' is false of the model and the code - numbering, per-resource origins, intermediate types, unused inputs - (kernel-checked C12_inline_on_the_nose_fails; the general renaming between the two builds is evaluated on examples, not proved). Props/C12Iso.lean (18): add_expr and the per-resource step of add_workflow are equivariant under injective renamings of blank nodes in every configuration, sound isomorphism checker and search with kernel-checked isomorphisms on the examples, and three kernel-checked non-isomorphisms - intermediate types off, an unused input, and a function-valued resource applied by a later tool (known finding D32, replayed on the code, exhibited by a fixed workflow on every run). "
        "workflows whose sources have function types are not generated (aliasing of type objects is not modelled); the RDF (WorkflowGraph) front end is decided by the oracle (isomorphic to the in-memory form). Props/C12Order.lean: add_workflow depends on source_types only up to an explicit equivalence, hence C12_order_unannotated (every listing of a workflow without annotations gives the same graph, no hypothesis on source_types) and C12_order_checked (any pair of listings passing an evaluable test).",
        technique="Lean 4 proof (permutation invariance, memo-table invariants, step-sequence invariants of add_workflow) + model/implementation correspondence check (graph isomorphism)",
        ref="6/C12"),
 "C13": dict(text="Structure full on the model (annotation-free renderings): C13_parse_spine (the stack machine started on any stack consumes the rendering of a "
        "spine and leaves its denotation), C13_parse_render, C13_redundant_parens, C13_paren_prefix, C13_call_atoms, C13_render_tree / C13_call_eq_juxtaposition "
        "(f x y = (f x) y = f(x, y) = ((f)(x))(y)), C13_inputs, C13_source(_fresh), C13_tokens (tokenizer on any layout), C13_comments, C13_trivia, C13_text(_trivia). "
        "Partial: annotations `e : T`, the typed half (same types as programmatic construction) and Expr.match are covered by correspondence (typed builder model vs "
        "implementation on every notation and on Python construction) and by the oracle (incl. defaults=True with fewer inputs supplied, and re-parsing the same text: `-` is fresh), not by a theorem. Annotations and typed half (Props/C13Ann.lean, 27): renderings with `e : T` at every placement for any builder, trivia neutral everywhere (C13a_trivia_ann; this proof found defect D31), typed parse = curried programmatic construction, = the n-ary call when all arguments are supplied inputs, counterexample otherwise (equal only up to variable numbering).",
        technique="Lean 4 proof (stack-machine invariant generalised over the stack, induction over nested spines) + model/implementation correspondence check",
        ref="6/C13"),
 "C17": dict(text="Parsers full on the model: C17_parseType_no_internal / C17_parseExpr_no_internal (for every token list neither stack machine reaches an "
        "assertion/index/value error site, for any total expression builder), C17_parseType_consumes, C17_parseExpr_fuel_irrelevant (termination: the model's fuel "
        "never runs out, one token at least is consumed per step). Engine partial: instantiate/apply/unify/fix with constraints are tied by correspondence on "
        "constraint-heavy schemas and checked by the oracle (exception class in the declared families, 5 s bound per case); the interpreter recursion limit is outside "
        "the model (known finding D11). Two assertion failures found on the unchanged tree (D25 under a re-check order, D29 with a bare-variable alternative) were repaired. Engine (Props/C17Engine.lean, C17e_*, 37): from every store with finite binding chains (all reachable stores) no function of the unifier, instantiate or apply returns an internal error, for any language, schema, arguments and fuel; the hypothesis is exact (on a cyclic store every assertion fires). Expression layer (Props/C17Expr.lean, 28): typed builder, parseTyped, fixExpr and calls never return an internal error from the empty state. Fuel (Props/C17Terminates.lean, C17t_*, 37): all twelve engine functions, instantiate and apply are monotone in the fuel without any hypothesis (a result other than out-of-fuel is the result for every larger fuel: nothing reported depends on engineFuel); termination with explicit fuel for variable-free types and for the constraint-free bound machine; unconditional termination is false of the model beyond its fuel depth (C17t_use_loops: the occurs check gives up at depth vars+64; the code raises RecursiveTypeError there - outside the model's claimed domain).",
        technique="Lean 4 proof (loop invariants on the parser stacks, suffix/fuel argument) + model/implementation correspondence check + declared-error oracle",
        ref="6/C17"),
 "C20": dict(text="Full for the repaired Bag.add: over any decidable partial order C20_union_specific/general (kept = minimal/maximal elements), "
        "C20_union_perm, C20_union_nodup, C20_bag (reduced bag satisfied by an up-closed set iff every requirement is) and C20_bag_perm, for all "
        "insertion sequences of any length. Tie: TypeUnion/Bag of bag.py run on all permutations of generated sequences against the model; "
        "oracle evaluates both sides of the bag equivalence on up-sets generated by <=3 present types.",
        technique="Lean 4 proof (invariants by induction over insertions, abstract partial order) + model/implementation correspondence check",
        ref="6/C20"),
}

NOT_YET = {
}

ALL = [f"C{i:02d}" for i in range(1, 21)]


def main():
    checks = []
    for pid in ALL:
        if pid not in CLAIMED:
            continue
        c = CLAIMED[pid]
        checks.append({
            "property_id": pid,
            "quick_cmd": f"./vcheck {pid} --tier quick",
            "thorough_cmd": f"./vcheck {pid} --tier thorough",
            "evidence_file": f"evidence/{pid}.json",
            "replay_cmd_template": f"./vcheck {pid} --replay {{path}}",
            "engine": "tfv",
            "level_claimed": {"category": "proof", "text": c["text"], "design_ref": "DESIGN.md section " + c["ref"]},
            "level_note": c.get("note", NOTE),
            "technique": c["technique"],
        })
    na = [{"property_id": pid, "reason": NOT_YET.get(pid, "check not built yet in this snapshot; the technique applies (see DESIGN.md section 6) and the property will be claimed once its model, theorems and correspondence are registered")}
          for pid in ALL if pid not in CLAIMED]
    m = {
        "version": 1,
        "setup_cmd": "./setup.sh",
        "hooks": {
            "guard": "TRANSFORGE_VERIF",
            "enable": "environment variable TRANSFORGE_VERIF=1 (set by ./vcheck); pure Python, no build step",
            "baseline_off_cmd": "cd /repo && env -u TRANSFORGE_VERIF /venv/bin/python -m pytest -ra -q -p no:cacheprovider --timeout=900 --continue-on-collection-errors",
            "source_commits": HOOK_COMMITS,
            "add_only": True,
        },
        "engines": [{"name": "tfv", "path": "lean/ + harness/", "serves_properties": sorted(CLAIMED),
            "kind_free_text": "Lean 4 model + theorems (lean/Tfv), compiled line-protocol driver (tfv-driver), Python correspondence harness and oracles (harness/)"}],
        "checks": checks,
        "not_applicable": na,
        "notes": "All checks: ./vcheck <id> --tier quick|thorough; honours VERIF_SEED, VERIF_TIER, VERIF_REPO. known_findings.json lists fixed/known defects.",
    }
    with open(os.path.join(HERE, "MANIFEST.json"), "w") as f:
        json.dump(m, f, indent=1)


HOOK_COMMITS: list = ["2255141"]

if __name__ == "__main__":
    main()
