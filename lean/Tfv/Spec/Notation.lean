import Tfv.Model.Parse
/-!
# Specification of the surface notations of expressions (property C13)

The annotation-free fragment of the expression language, as an abstract syntax
of *spines* (juxtapositions of items) whose items are operators, `-`, input
numbers and parenthesised, comma-separated groups of spines; its rendering into
tokens; and its meaning as the fold the property describes.
-/
namespace Tfv.Notation
open Tfv

/-- an item of a juxtaposition: an operator name, the anonymous source `-`, the
`k`-th supplied input, or a group `( s₁ , s₂ , … )` of juxtapositions -/
inductive Item where
  | op (name : String)
  | src
  | input (k : Nat)
  | group (spines : List (List Item))

/-- a juxtaposition `i₁ i₂ … iₙ` -/
abbrev Spine := List Item

/-! ## rendering into tokens -/

mutual
/-- tokens of one item -/
def toksItem : Item → List String
  | .op name => [name]
  | .src => ["-"]
  | .input k => [toString k]
  | .group ss => "(" :: toksGroup ss
/-- tokens of a juxtaposition -/
def toks : List Item → List String
  | [] => []
  | i :: is => toksItem i ++ toks is
/-- `s₁ , s₂ , … )` -/
def toksGroup : List (List Item) → List String
  | [] => [")"]
  | s :: ss => toks s ++ toksSeps ss
/-- `, s₂ , s₃ … )` -/
def toksSeps : List (List Item) → List String
  | [] => [")"]
  | s :: ss => "," :: (toks s ++ toksSeps ss)
end

/-! ## meaning: the fold over an optional accumulator -/

/-- `None · x = x`, `some f · x = f x` -/
def papp : Option PExpr → PExpr → PExpr
  | none, x => x
  | some f, x => .app f x

/-- folding an optional result into the accumulator (an empty sub-spine contributes nothing) -/
def pappO : Option PExpr → Option PExpr → Option PExpr
  | k, none => k
  | k, some x => some (papp k x)

mutual
/-- process one item with accumulator `k` in builder state `st` -/
def denItem (opNames : List String) (inputs : List PExpr) : FreeState → Option PExpr → Item → Except PErr (FreeState × Option PExpr)
  | st, k, .op name =>
    if opNames.contains name then .ok (st, some (papp k (.op name))) else .error (.undefinedToken name)
  | st, k, .src => .ok ({ st with nsrc := st.nsrc + 1 }, some (papp k (.src st.nsrc)))
  | st, k, .input n =>
    match lookupInput inputs n with
    | some e => .ok (st, some (papp k e))
    | none => .error (.missingInput n)
  | st, k, .group ss => denGroup opNames inputs st k ss
/-- process the items of a juxtaposition from left to right -/
def den (opNames : List String) (inputs : List PExpr) : FreeState → Option PExpr → List Item → Except PErr (FreeState × Option PExpr)
  | st, k, [] => .ok (st, k)
  | st, k, i :: is =>
    match denItem opNames inputs st k i with
    | .error e => .error e
    | .ok (st', k') => den opNames inputs st' k' is
/-- process a group: every sub-spine is evaluated on a fresh accumulator and its value is applied to `k` -/
def denGroup (opNames : List String) (inputs : List PExpr) : FreeState → Option PExpr → List (List Item) → Except PErr (FreeState × Option PExpr)
  | st, k, [] => .ok (st, k)
  | st, k, s :: ss =>
    match den opNames inputs st none s with
    | .error e => .error e
    | .ok (st', v) => denGroup opNames inputs st' (pappO k v) ss
end


/-- a token that reaches the operator branch of the parser: not one of the
tokens the expression parser gives a meaning of its own, and not a decimal number -/
def isNameToken (t : String) : Bool :=
  t != "#" && t != "\n" && t != "(" && t != "," && t != ")" && t != ":" && t != ";" && t != "-" &&
  (parseDecimal t).isNone

/-- the value of a whole expression: the accumulator after the spine, which must not be empty -/
def denote (opNames : List String) (inputs : List PExpr) (st : FreeState) (sp : List Item) :
    Except PErr (FreeState × PExpr) :=
  match den opNames inputs st none sp with
  | .error e => .error e
  | .ok (st', some e) => .ok (st', e)
  | .ok (_, none) => .error .emptyParse

/-- an item that is not a group -/
def isAtom : Item → Bool
  | .group _ => false
  | _ => true

mutual
/-- number of `-` tokens -/
def countSrc : Item → Nat
  | .src => 1
  | .group ss => countSrcG ss
  | _ => 0
def countSrcS : List Item → Nat
  | [] => 0
  | i :: is => countSrc i + countSrcS is
def countSrcG : List (List Item) → Nat
  | [] => 0
  | s :: ss => countSrcS s + countSrcG ss
end

/-! ## application trees and their renderings in several styles -/

/-- an expression as a tree of binary applications -/
inductive Tree where
  | op (name : String)
  | src
  | input (k : Nat)
  | app (f x : Tree)

/-- the expression a tree stands for; leaves are visited from left to right -/
def evalTree (opNames : List String) (inputs : List PExpr) : FreeState → Tree → Except PErr (FreeState × PExpr)
  | st, .op name => if opNames.contains name then .ok (st, .op name) else .error (.undefinedToken name)
  | st, .src => .ok ({ st with nsrc := st.nsrc + 1 }, .src st.nsrc)
  | st, .input n =>
    match lookupInput inputs n with
    | some e => .ok (st, e)
    | none => .error (.missingInput n)
  | st, .app f x =>
    match evalTree opNames inputs st f with
    | .error e => .error e
    | .ok (st1, ef) =>
      match evalTree opNames inputs st1 x with
      | .error e => .error e
      | .ok (st2, ex) => .ok (st2, .app ef ex)

def namesOkT : Tree → Bool
  | .op name => isNameToken name
  | .app f x => namesOkT f && namesOkT x
  | _ => true

/-- a sub-tree in operand position: a leaf stands for itself, an application is parenthesised -/
def argItem (t : Tree) (s : List Item) : Item :=
  match t with
  | .op name => .op name
  | .src => .src
  | .input k => .input k
  | .app _ _ => .group [s]

/-- juxtaposition with the necessary parentheses only: `f x (g y)` -/
def juxta : Tree → List Item
  | .op name => [.op name]
  | .src => [.src]
  | .input k => [.input k]
  | .app f x => juxta f ++ [argItem x (juxta x)]

/-- every application parenthesised on both sides where they are applications: `(f x) (g y)` -/
def binary : Tree → List Item
  | .op name => [.op name]
  | .src => [.src]
  | .input k => [.input k]
  | .app f x => [argItem f (binary f), argItem x (binary x)]

/-- everything parenthesised: `((f)(x))((g)(y))` -/
def paren : Tree → List Item
  | .op name => [.op name]
  | .src => [.src]
  | .input k => [.input k]
  | .app f x => [.group [paren f], .group [paren x]]

/-- a head followed by its argument list, if any -/
def headWith (h : Item) : List (List Item) → List Item
  | [] => [h]
  | a :: as => [h, .group (a :: as)]

/-- call notation, arguments collected: `f(x, g(y))` -/
def callAux : Tree → List (List Item) → List Item
  | .op name, args => headWith (.op name) args
  | .src, args => headWith .src args
  | .input k, args => headWith (.input k) args
  | .app f x, args => callAux f (callAux x [] :: args)

inductive Style where
  | juxta | binary | paren | call
  deriving DecidableEq, Repr

def render : Style → Tree → List Item
  | .juxta, t => juxta t
  | .binary, t => binary t
  | .paren, t => paren t
  | .call, t => callAux t []

/-! ## well-formedness -/

mutual
/-- operator names are name tokens (the rendering of a spine with other names denotes something else) -/
def namesOk : Item → Bool
  | .op name => isNameToken name
  | .group ss => namesOkG ss
  | _ => true
def namesOkS : List Item → Bool
  | [] => true
  | i :: is => namesOk i && namesOkS is
def namesOkG : List (List Item) → Bool
  | [] => true
  | s :: ss => namesOkS s && namesOkG ss
end

mutual
/-- all operators are declared, all input numbers are supplied, no group and no sub-spine is empty -/
def wfItem (opNames : List String) (ninputs : Nat) : Item → Bool
  | .op name => opNames.contains name
  | .src => true
  | .input k => 1 ≤ k && k ≤ ninputs
  | .group ss => !ss.isEmpty && wfGroup opNames ninputs ss
def wfItems (opNames : List String) (ninputs : Nat) : List Item → Bool
  | [] => true
  | i :: is => wfItem opNames ninputs i && wfItems opNames ninputs is
def wfGroup (opNames : List String) (ninputs : Nat) : List (List Item) → Bool
  | [] => true
  | s :: ss => !s.isEmpty && wfItems opNames ninputs s && wfGroup opNames ninputs ss
end

/-- a well-formed spine: non-empty, names are name tokens, and `wfItems` -/
def WF (opNames : List String) (ninputs : Nat) (sp : Spine) : Prop :=
  sp ≠ [] ∧ namesOkS sp = true ∧ wfItems opNames ninputs sp = true

instance (opNames : List String) (ninputs : Nat) (sp : Spine) : Decidable (WF opNames ninputs sp) := by
  unfold WF; infer_instance

/-- the last token seen: `p` if there was none -/
def lastTok (p : String) (ts : List String) : String := ts.getLast?.getD p

/-! ## comments and line breaks -/

/-- the tokens the expression parser acts on: without comments (`#` to the end of the line) and line breaks;
the flag says whether the list starts inside a comment -/
def stripTrivia : Bool → List String → List String
  | _, [] => []
  | c, tok :: rest =>
    if tok == "#" then stripTrivia true rest
    else if tok == "\n" then stripTrivia false rest
    else if c then stripTrivia true rest
    else tok :: stripTrivia false rest

/-! ## layouts of a token list -/

/-- a token as the tokenizer produces them: one special character, or a
non-empty run of characters that are neither special nor blank -/
def IsToken (specials blanks : List Char) (t : String) : Prop :=
  (∃ c, c ∈ specials ∧ c ∉ blanks ∧ t = String.singleton c) ∨
  (t.toList ≠ [] ∧ ∀ c ∈ t.toList, c ∉ specials ∧ c ∉ blanks)

/-- an ordinary token: a non-empty run of ordinary characters -/
def IsWord (specials blanks : List Char) (t : String) : Prop :=
  t.toList ≠ [] ∧ ∀ c ∈ t.toList, c ∉ specials ∧ c ∉ blanks

/-- tokens with the separator that follows each: `t₁ sep₁ t₂ sep₂ … tₙ sepₙ` -/
def layoutChars : List (String × List Char) → List Char
  | [] => []
  | (t, sep) :: rest => t.toList ++ sep ++ layoutChars rest

/-- every token is a token, every separator is blank, and two adjacent ordinary tokens have a non-empty separator between them -/
def LayoutOk (specials blanks : List Char) : List (String × List Char) → Prop
  | [] => True
  | (t, sep) :: rest =>
    IsToken specials blanks t ∧ (∀ c ∈ sep, c ∈ blanks) ∧
    (match rest with
     | [] => True
     | (t', _) :: _ => IsWord specials blanks t → IsWord specials blanks t' → sep ≠ []) ∧
    LayoutOk specials blanks rest

/-- the string `lead t₁ sep₁ t₂ sep₂ … tₙ sepₙ` -/
def layout (lead : List Char) (items : List (String × List Char)) : String :=
  String.ofList (lead ++ layoutChars items)

end Tfv.Notation

