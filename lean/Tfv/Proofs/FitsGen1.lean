import Tfv.Model
import Tfv.Spec.Sub
import Tfv.Spec.Fits
import Tfv.Proofs.SubOrder
import Tfv.Proofs.Fits
/-!
# C06 beyond linear alternatives, part 1: what "fits" means for a non-linear pattern

`Fits L x p` (Spec/Fits.lean) asks for ONE instantiation `θ` of the pattern's variables with
`x ≤ p[θ]`; for a pattern that repeats a variable both occurrences are instantiated by the same type.
`fitsB` (the relation the matcher decides) looks at every occurrence on its own.

* `reqs L pol x p`: the requirements `x` puts on the variables of `p`, one per variable occurrence
  that the comparison reaches: `(v, true, t)` reads `t ≤ θ v`, `(v, false, t)` reads `θ v ≤ t`.
* `match_of_reqs` / `reqs_of_match`: `x ≤ p[θ]` iff `fitsB` and `θ` meets every requirement.
* `fitsX`: `fitsB` and every lower requirement on a variable is below every upper requirement on it.
  `Fits → fitsX` always; `fitsX → Fits` for *semi-linear* patterns (every variable has at most one
  covariant or at most one contravariant occurrence: `F(G(b, _))`, `G(b, c)`, `G(b, b)`, `b ** b`, …).
* for *unipolar* patterns (no variable occurs in both polarities) `fitsX` is `fitsB`.
-/
namespace Tfv

/-- a requirement on the value of a variable: `(v, true, t)` is `t ≤ θ v`, `(v, false, t)` is `θ v ≤ t` -/
abbrev Req := Nat × Bool × Ty

mutual
/-- the requirements the comparison of `x` against `p` puts on the variables of `p`
(same recursion as `fitsB`; nothing is required below a position that is decided at once) -/
def reqs (L : Lang) : Bool → Ty → Term → List Req
  | pol, x, .var v => [(v, pol, x)]
  | pol, .app xo xs, .app po ps =>
    let lo := if pol then xo else po
    let hi := if pol then po else xo
    if lo == BOT || hi == TOP then []
    else if arityOf L lo == 0 then []
    else if lo != hi then []
    else reqsL L pol (varianceOf L lo) xs ps
def reqsL (L : Lang) : Bool → List Bool → List Ty → List Term → List Req
  | pol, v :: vs, x :: xs, p :: ps => reqs L (pol == v) x p ++ reqsL L pol vs xs ps
  | _, _, _, _ => []
end

/-- `θ` meets the requirement -/
def Req.holds (L : Lang) (θ : Nat → Ty) (r : Req) : Prop := matchC L true r.2.1 r.2.2 (θ r.1) = true

theorem reqs_var (L : Lang) (pol : Bool) (x : Ty) (v : Nat) : reqs L pol x (.var v) = [(v, pol, x)] := by
  cases x; rw [reqs]

theorem reqs_app (L : Lang) (pol : Bool) (xo : Nat) (xs : List Ty) (po : Nat) (ps : List Term) :
    reqs L pol (.app xo xs) (.app po ps) =
      if ((if pol then xo else po) == BOT || (if pol then po else xo) == TOP) = true then []
      else if (arityOf L (if pol then xo else po) == 0) = true then []
      else if ((if pol then xo else po) != (if pol then po else xo)) = true then []
      else reqsL L pol (varianceOf L (if pol then xo else po)) xs ps := by
  rw [reqs]

theorem reqsL_cons (L : Lang) (pol v : Bool) (vs : List Bool) (x : Ty) (xs : List Ty)
    (p : Term) (ps : List Term) :
    reqsL L pol (v :: vs) (x :: xs) (p :: ps) = reqs L (pol == v) x p ++ reqsL L pol vs xs ps := by
  rw [reqsL]

theorem reqsL_nil_v (L : Lang) (pol : Bool) (xs : List Ty) (ps : List Term) :
    reqsL L pol [] xs ps = [] := by
  simp [reqsL]

theorem reqsL_nil_x (L : Lang) (pol : Bool) (vs : List Bool) (ps : List Term) :
    reqsL L pol vs [] ps = [] := by
  cases vs <;> simp [reqsL]

theorem reqsL_nil_p (L : Lang) (pol : Bool) (vs : List Bool) (xs : List Ty) :
    reqsL L pol vs xs [] = [] := by
  cases vs <;> cases xs <;> simp [reqsL]

theorem fitsB_var (L : Lang) (pol : Bool) (x : Ty) (v : Nat) : fitsB L pol x (.var v) = true := by
  cases x; rw [fitsB]

theorem inst_var (θ : Nat → Ty) (v : Nat) : (Term.var v).inst θ = θ v := by rw [Term.inst]

/-! ## 1. `x ≤ p[θ]` iff `fitsB` and `θ` meets the requirements -/

mutual
theorem match_of_reqs (L : Lang) (θ : Nat → Ty) : ∀ (pol : Bool) (x : Ty) (p : Term),
    fitsB L pol x p = true → (∀ r ∈ reqs L pol x p, Req.holds L θ r) →
    matchC L true pol x (p.inst θ) = true
  | pol, x, .var v, _, h => by
    rw [inst_var]
    exact h (v, pol, x) (by rw [reqs_var]; exact List.mem_singleton.mpr rfl)
  | pol, .app xo xs, .app po ps, hf, h => by
    rw [fitsB_app] at hf
    rw [reqs_app] at h
    rw [inst_app, matchC_app]
    by_cases c1 : ((if pol then xo else po) == BOT || (if pol then po else xo) == TOP) = true
    · simp only [c1, if_true]
    · by_cases c2 : (arityOf L (if pol then xo else po) == 0) = true
      · simp only [c1, c2, if_true, Bool.false_eq_true, if_false] at hf ⊢
        exact hf
      · by_cases c3 : ((if pol then xo else po) != (if pol then po else xo)) = true
        · simp only [c1, c2, c3, if_true, Bool.false_eq_true, if_false] at hf
        · simp only [c1, c2, c3, Bool.false_eq_true, if_false] at hf h ⊢
          exact matchs_of_reqs L θ pol _ xs ps hf h
theorem matchs_of_reqs (L : Lang) (θ : Nat → Ty) : ∀ (pol : Bool) (vs : List Bool) (xs : List Ty)
    (ps : List Term), fitsBs L pol vs xs ps = true → (∀ r ∈ reqsL L pol vs xs ps, Req.holds L θ r) →
    matchCs L true pol vs xs (Term.instL θ ps) = true
  | pol, [], xs, ps, _, _ => matchCs_nil_v L true pol _ _
  | pol, _ :: _, [], ps, _, _ => matchCs_nil_s L true pol _ _
  | pol, _ :: _, _ :: _, [], _, _ => by rw [Term.instL]; exact matchCs_nil_t L true pol _ _
  | pol, v :: vs, x :: xs, p :: ps, hf, h => by
    rw [fitsBs_cons, Bool.and_eq_true] at hf
    rw [reqsL_cons] at h
    rw [instL_cons, matchCs_cons, Bool.and_eq_true]
    exact ⟨match_of_reqs L θ (pol == v) x p hf.1 (fun r hr => h r (List.mem_append_left _ hr)),
      matchs_of_reqs L θ pol vs xs ps hf.2 (fun r hr => h r (List.mem_append_right _ hr))⟩
end

mutual
theorem reqs_of_match (L : Lang) (θ : Nat → Ty) : ∀ (pol : Bool) (x : Ty) (p : Term),
    matchC L true pol x (p.inst θ) = true → ∀ r ∈ reqs L pol x p, Req.holds L θ r
  | pol, x, .var v, h, r, hr => by
    rw [reqs_var] at hr
    rw [List.mem_singleton.mp hr]
    rw [inst_var] at h
    exact h
  | pol, .app xo xs, .app po ps, h, r, hr => by
    rw [inst_app, matchC_app] at h
    rw [reqs_app] at hr
    by_cases c1 : ((if pol then xo else po) == BOT || (if pol then po else xo) == TOP) = true
    · simp only [c1, if_true] at hr; cases hr
    · by_cases c2 : (arityOf L (if pol then xo else po) == 0) = true
      · simp only [c1, c2, if_true, Bool.false_eq_true, if_false] at hr; cases hr
      · by_cases c3 : ((if pol then xo else po) != (if pol then po else xo)) = true
        · simp only [c1, c2, c3, if_true, Bool.false_eq_true, if_false] at hr; cases hr
        · simp only [c1, c2, c3, Bool.false_eq_true, if_false] at h hr
          exact reqsL_of_match L θ pol _ xs ps h r hr
theorem reqsL_of_match (L : Lang) (θ : Nat → Ty) : ∀ (pol : Bool) (vs : List Bool) (xs : List Ty)
    (ps : List Term), matchCs L true pol vs xs (Term.instL θ ps) = true →
    ∀ r ∈ reqsL L pol vs xs ps, Req.holds L θ r
  | pol, [], xs, ps, _, r, hr => by rw [reqsL_nil_v] at hr; cases hr
  | pol, _ :: _, [], ps, _, r, hr => by rw [reqsL_nil_x] at hr; cases hr
  | pol, _ :: _, _ :: _, [], _, r, hr => by rw [reqsL_nil_p] at hr; cases hr
  | pol, v :: vs, x :: xs, p :: ps, h, r, hr => by
    rw [instL_cons, matchCs_cons, Bool.and_eq_true] at h
    rw [reqsL_cons] at hr
    rcases List.mem_append.mp hr with hr1 | hr2
    · exact reqs_of_match L θ (pol == v) x p h.1 r hr1
    · exact reqsL_of_match L θ pol vs xs ps h.2 r hr2
end

/-! the types mentioned by the requirements are components of `x` -/
mutual
theorem reqs_wf (L : Lang) : ∀ (pol : Bool) (x : Ty) (p : Term), wfTy L x = true →
    ∀ r ∈ reqs L pol x p, wfTy L r.2.2 = true
  | pol, x, .var v, hx, r, hr => by
    rw [reqs_var] at hr
    rw [List.mem_singleton.mp hr]
    exact hx
  | pol, .app xo xs, .app po ps, hx, r, hr => by
    rw [reqs_app] at hr
    by_cases c1 : ((if pol then xo else po) == BOT || (if pol then po else xo) == TOP) = true
    · simp only [c1, if_true] at hr; cases hr
    · by_cases c2 : (arityOf L (if pol then xo else po) == 0) = true
      · simp only [c1, c2, if_true, Bool.false_eq_true, if_false] at hr; cases hr
      · by_cases c3 : ((if pol then xo else po) != (if pol then po else xo)) = true
        · simp only [c1, c2, c3, if_true, Bool.false_eq_true, if_false] at hr; cases hr
        · simp only [c1, c2, c3, Bool.false_eq_true, if_false] at hr
          exact reqsL_wf L pol _ xs ps (wfTy_app hx).2 r hr
theorem reqsL_wf (L : Lang) : ∀ (pol : Bool) (vs : List Bool) (xs : List Ty) (ps : List Term),
    wfTyL L xs = true → ∀ r ∈ reqsL L pol vs xs ps, wfTy L r.2.2 = true
  | pol, [], xs, ps, _, r, hr => by rw [reqsL_nil_v] at hr; cases hr
  | pol, _ :: _, [], ps, _, r, hr => by rw [reqsL_nil_x] at hr; cases hr
  | pol, _ :: _, _ :: _, [], _, r, hr => by rw [reqsL_nil_p] at hr; cases hr
  | pol, v :: vs, x :: xs, p :: ps, hx, r, hr => by
    rw [reqsL_cons] at hr
    rcases List.mem_append.mp hr with hr1 | hr2
    · exact reqs_wf L (pol == v) x p (wfTyL_cons hx).1 r hr1
    · exact reqsL_wf L pol vs xs ps (wfTyL_cons hx).2 r hr2
end

/-! ## 2. the exact test `fitsX` -/

/-- every lower requirement on a variable is a subtype of every upper requirement on the same variable -/
def compat (L : Lang) (rs : List Req) : Bool :=
  rs.all fun r => rs.all fun s => !(r.1 == s.1 && r.2.1 && !s.2.1) || matchC L true true r.2.2 s.2.2

/-- `x` fits the pattern `p`, repeated variables taken seriously -/
def fitsX (L : Lang) (x : Ty) (p : Term) : Bool := fitsB L true x p && compat L (reqs L true x p)

theorem compat_iff (L : Lang) (rs : List Req) :
    compat L rs = true ↔ ∀ v l u, (v, true, l) ∈ rs → (v, false, u) ∈ rs → matchC L true true l u = true := by
  unfold compat
  simp only [List.all_eq_true]
  constructor
  · intro h v l u hl hu
    have := h _ hl _ hu
    simpa using this
  · rintro h ⟨v, b, l⟩ hr ⟨w, c, u⟩ hs
    cases b <;> cases c <;> simp
    by_cases e : v = w
    · subst e
      exact Or.inr (h v l u hr hs)
    · exact Or.inl e

theorem fitsX_fitsB {L : Lang} {x : Ty} {p : Term} (h : fitsX L x p = true) : fitsB L true x p = true := by
  unfold fitsX at h
  exact (Bool.and_eq_true _ _ ▸ h).1

/-- **soundness of `fitsX` for every pattern**: a real fit passes the exact test -/
theorem fitsX_of_fits {L : Lang} (wf : WF L) (x : Ty) (p : Term)
    (hx : wfTy L x = true) (hp : wfTm L p = true) (h : Fits L x p) : fitsX L x p = true := by
  have hb := fits_of_instance wf x p hx hp h
  obtain ⟨θ, hθ, hs⟩ := h
  have hm : matchC L true true x (p.inst θ) = true :=
    (matchC_true_iff wf true x (p.inst θ) hx (inst_wf L θ hθ p hp)).mpr (by simpa using hs)
  have hr := reqs_of_match L θ true x p hm
  have hw := reqs_wf L true x p hx
  unfold fitsX
  rw [hb, Bool.true_and, compat_iff]
  intro v l u hl hu
  have h1 := hr _ hl
  have h2 := hr _ hu
  have w1 := hw _ hl
  have w2 := hw _ hu
  unfold Req.holds at h1 h2
  simp only at h1 h2 w1 w2
  have s1 := (matchC_true_iff wf true l (θ v) w1 (hθ v)).mp h1
  have s2 := (matchC_true_iff wf false u (θ v) w2 (hθ v)).mp h2
  simp only [if_true, Bool.false_eq_true, if_false] at s1 s2
  exact (matchC_true_iff wf true l u w1 w2).mpr (by simpa using sub_trans wf (θ v) l u s1 s2)

/-! ## 3. choosing the instantiation -/

def lowers (rs : List Req) (v : Nat) : List Ty := (rs.filter fun r => r.1 == v && r.2.1).map (·.2.2)
def uppers (rs : List Req) (v : Nat) : List Ty := (rs.filter fun r => r.1 == v && !r.2.1).map (·.2.2)

theorem mem_lowers {rs : List Req} {v : Nat} {t : Ty} : t ∈ lowers rs v ↔ (v, true, t) ∈ rs := by
  unfold lowers
  simp only [List.mem_map, List.mem_filter, Bool.and_eq_true, beq_iff_eq]
  constructor
  · rintro ⟨⟨w, b, s⟩, ⟨hm, h1, h2⟩, h3⟩
    simp only at h1 h2 h3
    subst h1; subst h2; subst h3
    exact hm
  · intro h
    exact ⟨(v, true, t), ⟨h, rfl, rfl⟩, rfl⟩

theorem mem_uppers {rs : List Req} {v : Nat} {t : Ty} : t ∈ uppers rs v ↔ (v, false, t) ∈ rs := by
  unfold uppers
  simp only [List.mem_map, List.mem_filter, Bool.and_eq_true, beq_iff_eq, Bool.not_eq_true']
  constructor
  · rintro ⟨⟨w, b, s⟩, ⟨hm, h1, h2⟩, h3⟩
    simp only at h1 h2 h3
    subst h1; subst h2; subst h3
    exact hm
  · intro h
    exact ⟨(v, false, t), ⟨h, rfl, rfl⟩, rfl⟩

/-- the value given to a variable: `Bottom` without lower requirements, `Top` without upper ones,
the single lower requirement if there is just one, else the first upper requirement -/
def pick (rs : List Req) (v : Nat) : Ty :=
  match lowers rs v, uppers rs v with
  | [], _ => .app BOT []
  | _ :: _, [] => .app TOP []
  | [l], _ :: _ => l
  | _ :: _ :: _, u :: _ => u

theorem matchC_top (L : Lang) (t : Ty) : matchC L true true t (.app TOP []) = true := by
  cases t with
  | app a as =>
    rw [matchC_app]
    simp

theorem matchC_bot (L : Lang) (t : Ty) : matchC L true false t (.app BOT []) = true := by
  cases t with
  | app a as =>
    rw [matchC_app]
    simp

theorem wfTy_top {L : Lang} (wf : WF L) : wfTy L (.app TOP []) = true := by
  have hl : 5 ≤ L.length := by
    have := congrArg List.length wf.builtins
    simp [builtinDecls] at this
    omega
  rw [wfTy, wfTyL, arity_top wf]
  have : TOP < L.length := by unfold TOP; omega
  simp [this]

theorem wfTy_bot {L : Lang} (wf : WF L) : wfTy L (.app BOT []) = true := by
  have hl : 5 ≤ L.length := by
    have := congrArg List.length wf.builtins
    simp [builtinDecls] at this
    omega
  rw [wfTy, wfTyL, arity_bot wf]
  have : BOT < L.length := by unfold BOT; omega
  simp [this]

/-- every variable has at most one lower or at most one upper requirement -/
def SemiReqs (rs : List Req) : Prop := ∀ v, (lowers rs v).length ≤ 1 ∨ (uppers rs v).length ≤ 1

theorem pick_wf {L : Lang} (wf : WF L) (rs : List Req) (hw : ∀ r ∈ rs, wfTy L r.2.2 = true) (v : Nat) :
    wfTy L (pick rs v) = true := by
  unfold pick
  split
  · exact wfTy_bot wf
  · exact wfTy_top wf
  · next l _ _ h _ =>
    have : l ∈ lowers rs v := by rw [h]; exact List.mem_singleton.mpr rfl
    exact hw _ (mem_lowers.mp this)
  · next u _ _ h =>
    have : u ∈ uppers rs v := by rw [h]; exact List.mem_cons_self
    exact hw _ (mem_uppers.mp this)

theorem pick_holds {L : Lang} (wf : WF L) (rs : List Req) (hw : ∀ r ∈ rs, wfTy L r.2.2 = true)
    (hs : SemiReqs rs) (hc : compat L rs = true) : ∀ r ∈ rs, Req.holds L (pick rs) r := by
  rw [compat_iff] at hc
  rintro ⟨v, b, t⟩ hr
  unfold Req.holds
  simp only
  have hwt : wfTy L t = true := hw _ hr
  cases b with
  | true =>
    have hm : t ∈ lowers rs v := mem_lowers.mpr hr
    unfold pick
    split
    · next h => rw [h] at hm; cases hm
    · exact matchC_top L t
    · next l _ _ h _ =>
      rw [h] at hm
      rw [List.mem_singleton.mp hm]
      exact matchC_refl L true l
    · next l1 l2 ls u us h h' =>
      have hu : u ∈ uppers rs v := by rw [h']; exact List.mem_cons_self
      exact hc v t u hr (mem_uppers.mp hu)
  | false =>
    have hm : t ∈ uppers rs v := mem_uppers.mpr hr
    unfold pick
    split
    · exact matchC_bot L t
    · next h => rw [h] at hm; cases hm
    · next l _ _ h _ =>
      have hl : l ∈ lowers rs v := by rw [h]; exact List.mem_singleton.mpr rfl
      have hwl : wfTy L l = true := hw _ (mem_lowers.mp hl)
      have := hc v l t (mem_lowers.mp hl) hr
      have s := (matchC_true_iff wf true l t hwl hwt).mp this
      exact (matchC_true_iff wf false t l hwt hwl).mpr (by simpa using s)
    · next l1 l2 ls u us h h' =>
      rcases hs v with h1 | h1
      · rw [h] at h1; simp at h1
      · rw [h'] at h1
        have : us = [] := by
          cases us with
          | nil => rfl
          | cons _ _ => simp at h1
        subst this
        rw [h'] at hm
        rw [List.mem_singleton.mp hm]
        exact matchC_refl L false u

/-- `fitsX` with semi-linear requirements has a witnessing instantiation -/
theorem fits_of_fitsX_reqs {L : Lang} (wf : WF L) (x : Ty) (p : Term)
    (hx : wfTy L x = true) (hp : wfTm L p = true) (hs : SemiReqs (reqs L true x p))
    (h : fitsX L x p = true) : Fits L x p := by
  unfold fitsX at h
  rw [Bool.and_eq_true] at h
  have hw := reqs_wf L true x p hx
  have hθ := pick_wf wf _ hw
  refine ⟨pick (reqs L true x p), hθ, ?_⟩
  have hm := match_of_reqs L (pick (reqs L true x p)) true x p h.1 (pick_holds wf _ hw hs h.2)
  have := (matchC_true_iff wf true x _ hx (inst_wf L _ hθ p hp)).mp hm
  simpa using this

end Tfv
