import Tfv.Proofs.ResolvedConstrMain
import Tfv.Proofs.SchedKernel
import Tfv.Proofs.SchedId
import Tfv.Proofs.InferConstrExamples
/-!
# Concrete runs for the "resolved constraints hold" theorems (kernel evaluation)

`match3` / `occurs` do not reduce in the kernel; `Tfv/Proofs/SchedKernel.lean` has a structurally recursive copy of the
engine, equal to the engine when the re-check order is the identity. Runs are evaluated through that copy by
`decide +kernel` and transported back.
-/
namespace Tfv.C03R
open Tfv Tfv.C03P Tfv.C03C Tfv.C16P Tfv.C17E Tfv.C18P

def instK (L : Lang) (n : Nat) (σ : Store) (s : Schema) : Except Err (Store × Term) :=
  instantiateP L (fun cs => cs) (match3K L) (occursK L) n σ s

def appK (L : Lang) (n : Nat) (σ : Store) (f x : Term) (fixFlag : Bool) : Except Err (Store × Term) :=
  applyTP L (fun cs => cs) (match3K L) (occursK L) n σ f x fixFlag

theorem instantiate_eq_K (L : Lang) (n : Nat) (σ : Store) (s : Schema) : instantiate L n σ s = instK L n σ s := by
  unfold instK
  rw [← instantiateS_id (ord := fun cs => cs) (fun _ => rfl), ← instantiateP_eq, match3K_funext, occursK_funext]

theorem applyT_eq_K (L : Lang) (n : Nat) (σ : Store) (f x : Term) (fixFlag : Bool) :
    applyT L n σ f x fixFlag = appK L n σ f x fixFlag := by
  unfold appK
  rw [← applyTS_id (ord := fun cs => cs) (fun _ => rfl), ← applyTP_eq, match3K_funext, occursK_funext]

def applyAllK (L : Lang) (n : Nat) (fixFlag : Bool) : Store → Term → List Term → Except Err (Store × Term)
  | σ, f, [] => .ok (σ, f)
  | σ, f, x :: xs =>
    match appK L n σ f x fixFlag with
    | .error e => .error e
    | .ok (σ1, r) => applyAllK L n fixFlag σ1 r xs

theorem applyAll_eq_K (L : Lang) (n : Nat) (fixFlag : Bool) : ∀ (xs : List Term) (σ : Store) (f : Term),
    applyAll L n fixFlag σ f xs = applyAllK L n fixFlag σ f xs
  | [], σ, f => by unfold applyAll applyAllK; rfl
  | x :: xs, σ, f => by
    unfold applyAll applyAllK
    rw [applyT_eq_K]
    cases appK L n σ f x fixFlag with
    | error e => rfl
    | ok p => exact applyAll_eq_K L n fixFlag xs p.1 p.2

/-- instantiate the schema in the empty store, apply the instance to the arguments, test the final store -/
def runChk (L : Lang) (n : Nat) (s : Schema) (xs : List Term) (chk : Store → Bool) : Bool :=
  match instK L n {} s with
  | .ok (σ1, f) =>
    okTermL L σ1 xs && (match applyAllK L n true σ1 f xs with
      | .ok (σ', _) => chk σ'
      | .error _ => false)
  | .error _ => false

theorem runChk_elim {L : Lang} {n : Nat} {s : Schema} {xs : List Term} {chk : Store → Bool}
    (h : runChk L n s xs chk = true) :
    ∃ σ1 f σ' r, instantiate L n {} s = .ok (σ1, f) ∧ okTermL L σ1 xs = true ∧
      applyAll L n true σ1 f xs = .ok (σ', r) ∧ chk σ' = true := by
  unfold runChk at h
  split at h
  · next σ1 f e1 =>
    rw [Bool.and_eq_true] at h
    obtain ⟨h1, h2⟩ := h
    split at h2
    · next σ' r e2 =>
      exact ⟨σ1, f, σ', r, by rw [instantiate_eq_K]; exact e1, h1, by rw [applyAll_eq_K]; exact e2, h2⟩
    · cases h2
  · cases h

/-- the same with a test of the store right after `instantiate` as well -/
def runChk2 (L : Lang) (n : Nat) (s : Schema) (xs : List Term) (chk1 chk : Store → Bool) : Bool :=
  match instK L n {} s with
  | .ok (σ1, f) =>
    chk1 σ1 && okTermL L σ1 xs && (match applyAllK L n true σ1 f xs with
      | .ok (σ', _) => chk σ'
      | .error _ => false)
  | .error _ => false

theorem runChk2_elim {L : Lang} {n : Nat} {s : Schema} {xs : List Term} {chk1 chk : Store → Bool}
    (h : runChk2 L n s xs chk1 chk = true) :
    ∃ σ1 f σ' r, instantiate L n {} s = .ok (σ1, f) ∧ chk1 σ1 = true ∧ okTermL L σ1 xs = true ∧
      applyAll L n true σ1 f xs = .ok (σ', r) ∧ chk σ' = true := by
  unfold runChk2 at h
  split at h
  · next σ1 f e1 =>
    simp only [Bool.and_eq_true] at h
    obtain ⟨⟨h0, h1⟩, h2⟩ := h
    split at h2
    · next σ' r e2 =>
      exact ⟨σ1, f, σ', r, by rw [instantiate_eq_K]; exact e1, h0, h1, by rw [applyAll_eq_K]; exact e2, h2⟩
    · cases h2
  · cases h

/-- the run fails with the given error -/
def runErr (L : Lang) (n : Nat) (s : Schema) (xs : List Term) : Option Err :=
  match instK L n {} s with
  | .ok (σ1, f) => (match applyAllK L n true σ1 f xs with
      | .ok _ => none
      | .error e => some e)
  | .error e => some e

/-- constraint `c` of the store is a subtype constraint whose sides resolve to the given types -/
def subChk (c : Nat) (τr τt : Ty) (σ : Store) : Bool :=
  decide (c < σ.constrs.length) && (match getConstr σ c with
    | .sub r t _ _ => resB σ r τr && resB σ t τt
    | .elim _ _ _ => false)

theorem subChk_elim {c : Nat} {τr τt : Ty} {σ : Store} (h : subChk c τr τt σ = true) :
    c < σ.constrs.length ∧ ∃ ref tgt st ful, getConstr σ c = .sub ref tgt st ful ∧ Res σ ref τr ∧ Res σ tgt τt := by
  unfold subChk at h
  rw [Bool.and_eq_true] at h
  obtain ⟨h1, h2⟩ := h
  refine ⟨by simpa using h1, ?_⟩
  split at h2
  · next r t s f e =>
    rw [Bool.and_eq_true] at h2
    exact ⟨r, t, s, f, e, resB_sound _ _ h2.1, resB_sound _ _ h2.2⟩
  · cases h2

/-! ## the runs -/

/-- `(x ** y ** x)[x ≤ y]` -/
def sXY : Schema :=
  { nvars := 2, nwild := 0, body := .app FUN [.var 0, .app FUN [.var 1, .var 0]],
    constraints := [.sub (.var 0) (.var 1) false] }

/-- `(x ** x)[x ≤ A]` -/
def sXA : Schema :=
  { nvars := 1, nwild := 0, body := .app FUN [.var 0, .var 0], constraints := [.sub (.var 0) (.app 5 []) false] }

/-- `(x ** y ** F(x))[F(x) ≤ F(y)]`: a constraint over compound terms -/
def sFF : Schema :=
  { nvars := 2, nwild := 0, body := .app FUN [.var 0, .app FUN [.var 1, .app 7 [.var 0]]],
    constraints := [.sub (.app 7 [.var 0]) (.app 7 [.var 1]) false] }

theorem run_sXY : runChk exL 200 sXY [.app 6 [], .app 5 []] (subChk 0 (.app 5 []) (.app 5 [])) = true := by
  decide +kernel

theorem run_sXA : runChk exL 200 sXA [.app 6 []] (subChk 0 (.app 6 []) (.app 5 [])) = true := by
  decide +kernel

theorem run_sXA_bad : runErr exL 200 sXA [.app 0 []] = some .constraintViolation := by
  decide +kernel

theorem run_sFF : runChk exL 200 sFF [.app 6 [], .app 5 []]
    (subChk 0 (.app 7 [.app 5 []]) (.app 7 [.app 5 []])) = true := by
  decide +kernel

/-! ## elimination constraints -/

/-- constraint `c` is an elimination constraint with the given flag whose reference / alternatives resolve as given -/
def elimChk (c : Nat) (ful : Bool) (τr : Ty) (τs : List Ty) (σ : Store) : Bool :=
  decide (c < σ.constrs.length) && (match getConstr σ c with
    | .elim r as f => (f == ful) && resB σ r τr && resBL σ as τs
    | .sub _ _ _ _ => false)

theorem elimChk_elim {c : Nat} {ful : Bool} {τr : Ty} {τs : List Ty} {σ : Store} (h : elimChk c ful τr τs σ = true) :
    c < σ.constrs.length ∧ ∃ ref alts, getConstr σ c = .elim ref alts ful ∧ Res σ ref τr ∧ ResL σ alts τs := by
  unfold elimChk at h
  rw [Bool.and_eq_true] at h
  obtain ⟨h1, h2⟩ := h
  refine ⟨by simpa using h1, ?_⟩
  split at h2
  · next r as f e =>
    simp only [Bool.and_eq_true, beq_iff_eq] at h2
    obtain ⟨⟨h3, h4⟩, h5⟩ := h2
    subst h3
    exact ⟨r, as, e, resB_sound _ _ h4, resBL_sound _ _ h5⟩
  · cases h2

/-- `(x ** x)[x << {F(A), F(Unit)}]` -/
def sEl : Schema :=
  { nvars := 1, nwild := 0, body := .app FUN [.var 0, .var 0],
    constraints := [.elim (.var 0) [.app 7 [.app 5 []], .app 7 [.app 0 []]]] }

/-- applied to `F(Bottom)` both alternatives survive: the constraint stays unfulfilled -/
theorem run_sEl_two : runChk exL 200 sEl [.app 7 [.app BOT []]]
    (elimChk 0 false (.app 7 [.app BOT []]) [.app 7 [.app 5 []], .app 7 [.app 0 []]]) = true := by
  decide +kernel

/-- applied to `F(B)` it is narrowed to `F(A)` and marked fulfilled -/
theorem run_sEl_one : runChk exL 200 sEl [.app 7 [.app 6 []]]
    (elimChk 0 true (.app 7 [.app 6 []]) [.app 7 [.app 5 []]]) = true := by
  decide +kernel

/-- the record before and after the application -/
theorem run_sEl_der : runChk2 exL 200 sEl [.app 7 [.app 6 []]]
    (fun σ => decide (0 < σ.constrs.length) && (match getConstr σ 0 with
      | .elim _ alts f => !f && alts.length == 2
      | _ => false))
    (elimChk 0 true (.app 7 [.app 6 []]) [.app 7 [.app 5 []]]) = true := by
  decide +kernel

/-- … and the final store is acyclic -/
theorem run_sEl_one_acyclic : runChk exL 200 sEl [.app 7 [.app 6 []]]
    (fun σ => elimChk 0 true (.app 7 [.app 6 []]) [.app 7 [.app 5 []]] σ && acyclicB σ) = true := by
  decide +kernel

/-- `(x ** x)[x << {A, F(A)}]`: closed alternatives -/
def sElAB : Schema :=
  { nvars := 1, nwild := 0, body := .app FUN [.var 0, .var 0],
    constraints := [.elim (.var 0) [.app 5 [], .app 7 [.app 5 []]]] }

/-- applied to `B` it is narrowed to `A` -/
theorem run_sElAB : runChk exL 200 sElAB [.app 6 []]
    (fun σ => elimChk 0 true (.app 6 []) [.app 5 []] σ && acyclicB σ) = true := by
  decide +kernel

/-- applied to `A` no alternative is left -/
theorem run_sEl_bad : runErr exL 200 sEl [.app 5 []] = some .constraintViolation := by
  decide +kernel

/-! ## a deep constraint is never decided (fuel of `match3` / `directVars`) -/

def deepT : Nat → Term → Term
  | 0, t => t
  | n+1, t => .app 7 [deepT n t]

def deepTy : Nat → Ty → Ty
  | 0, t => t
  | n+1, t => .app 7 [deepTy n t]

/-- `(x ** x)[F^70(x) ≤ F^70(A)]` -/
def sDeep : Schema :=
  { nvars := 1, nwild := 0, body := .app FUN [.var 0, .var 0],
    constraints := [.sub (deepT 70 (.var 0)) (deepT 70 (.app 5 [])) false] }

theorem run_deep :
    runChk exL 400 sDeep [.app 0 []] (subChk 0 (deepTy 70 (.app 0 [])) (deepTy 70 (.app 5 []))) = true := by
  decide +kernel

theorem deep_not_sub : sub exL (deepTy 70 (.app 0 [])) (deepTy 70 (.app 5 [])) = false := by decide +kernel

theorem deep_wf : wfTy exL (deepTy 70 (.app 0 [])) = true ∧ wfTy exL (deepTy 70 (.app 5 [])) = true := by
  decide +kernel

end Tfv.C03R
