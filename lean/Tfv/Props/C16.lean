import Tfv.Model
import Tfv.Spec.History
import Tfv.Proofs.FrameMain
import Tfv.Proofs.HistoryUse
import Tfv.Proofs.HistoryExamples
import Tfv.Proofs.AgreeUse
/-!
# C16 — using an operator or type never changes what it means later

"The type inferred for an expression depends only on its text, the supplied inputs and
the language definition, not on which expressions were parsed or which types were
applied before: every use of an operator, schema, alias or wildcard gets fresh variables
and no inference step writes into a definition."

In the model definitions (schemas, operator declarations, the language) are immutable
data; the only thing threaded between two uses is the inference store. What is proved:

1. **Freshness** (`C16_instantiate_fresh`): instantiating a schema allocates new variables
   only, leaves every existing variable untouched and returns a term over the new variables.
2. **Frame** (`C16_unify_frame`, `C16_fix_frame`, `C16_apply_frame`, `C16_definitions_untouched*`):
   unification, fixing and application write only to variables reachable from their
   arguments (`Reach`, Spec/History.lean) or freshly allocated; everything else in the
   store — the variables of every earlier, unrelated expression — is exactly as before.
3. **History independence** (`C16_history_independent`): one whole use of a definition
   (instantiate a schema, apply it to concrete arguments) started behind ANY history gives
   the same error, or the same store and result type up to the shift of variable indices by
   the size of the history, as started from the empty store.
   For unification of *arbitrary* terms the statement is false of the model
   (`C16_history_independent_unify_fails`: the occurs check has fuel `σ.vars.length + 64`,
   so behind a history it looks deeper); the variants that hold are named `_partial`.

Scope: the constraint-free engine (`NoConstraints`, schemas with `constraints = []`,
`skip_basic = skip_wildcard = False`), as in C03. No well-formedness of the store is needed.
Statements only; the proofs are in `Tfv/Proofs/Frame*.lean`, `Tfv/Proofs/History*.lean`
(namespace `Tfv.C16P`).
-/
namespace Tfv.C16
open Tfv Tfv.C03P Tfv.C16P

/-! ## 1. freshness -/

/-- Instantiating a constraint-free schema only appends `nvars + nwild` new variables to the
store: (a) every variable of the returned type is new (index at least the old size, below
the new size), (b) every old variable is exactly as before, and the new size is the old size
plus `nvars + nwild` — so two instantiations of the same schema never share a variable.
The returned type is the schema body over the new variables. -/
theorem C16_instantiate_fresh (L : Lang) (n : Nat) (σ σ' : Store) (s : Schema) (t : Term)
    (hc : s.constraints = []) (hbody : okTermN L (s.nvars + s.nwild) s.body = true)
    (h : instantiate L n σ s = .ok (σ', t)) :
    (∀ v, VarIn v t → σ.vars.length ≤ v ∧ v < σ'.vars.length) ∧
    (∀ v, v < σ.vars.length → getVar σ' v = getVar σ v) ∧
    σ'.vars.length = σ.vars.length + s.nvars + s.nwild ∧
    t = s.body.shift σ.vars.length :=
  have r := instantiate_fresh hc hbody h
  ⟨r.2.2.2.1, r.2.2.2.2, r.2.2.1, r.2.1⟩

example : exSch.constraints = [] ∧ okTermN exL (exSch.nvars + exSch.nwild) exSch.body = true ∧
    instantiate exL 10 hist3 exSch =
      .ok (hist3.append { vars := [{}], csets := [[]] }, .app FUN [.var 3, .app 7 [.var 3]]) :=
  ⟨rfl, by decide, exSch_run3⟩

/-- Two instantiations (of the same or of different schemas), the second in any store at
least as large as the result of the first, never share a variable. -/
theorem C16_instantiate_twice_disjoint (L : Lang) (n m : Nat) (σ σ1 σ2 σ3 : Store) (s s' : Schema)
    (t1 t2 : Term) (hc : s.constraints = []) (hbody : okTermN L (s.nvars + s.nwild) s.body = true)
    (hc' : s'.constraints = []) (hbody' : okTermN L (s'.nvars + s'.nwild) s'.body = true)
    (h1 : instantiate L n σ s = .ok (σ1, t1)) (hlater : σ1.vars.length ≤ σ2.vars.length)
    (h2 : instantiate L m σ2 s' = .ok (σ3, t2)) : ∀ v, VarIn v t1 → ¬ VarIn v t2 :=
  instantiate_disjoint hc hbody hc' hbody' h1 hlater h2

example : instantiate exL 10 {} exSch = .ok ({ vars := [{}], csets := [[]] }, .app FUN [.var 0, .app 7 [.var 0]]) ∧
    ({ vars := [{}], csets := [[]] } : Store).vars.length ≤ hist3.vars.length ∧
    instantiate exL 10 hist3 exSch =
      .ok (hist3.append { vars := [{}], csets := [[]] }, .app FUN [.var 3, .app 7 [.var 3]]) :=
  ⟨exSch_run0, by decide, exSch_run3⟩

/-! ## 2. frame -/

/-- Subtype unification allocates nothing and changes only variables reachable from its two
arguments: every other variable of the store is exactly as before. -/
theorem C16_unify_frame (L : Lang) (n : Nat) (σ σ' : Store) (a b : Term) (nc : NoConstraints σ)
    (h : unify L n σ a b true false false = .ok σ') :
    σ'.vars.length = σ.vars.length ∧ NoConstraints σ' ∧
    ∀ v, ¬ Reach σ a v → ¬ Reach σ b v → getVar σ' v = getVar σ v :=
  unify_frame nc h

example : NoConstraints σU ∧ unify exL 10 σU (.var 0) (.var 1) true false false = .ok σU' :=
  ⟨σU_nc, exU_run⟩

/-- `fix` allocates nothing, changes only variables reachable from its argument, and the
type it returns mentions reachable variables only. -/
theorem C16_fix_frame (L : Lang) (n : Nat) (σ σ' : Store) (t t' : Term) (pl : Bool) (nc : NoConstraints σ)
    (h : fix L n σ t pl = .ok (σ', t')) :
    σ'.vars.length = σ.vars.length ∧ NoConstraints σ' ∧
    (∀ v, ¬ Reach σ t v → getVar σ' v = getVar σ v) ∧ ∀ v, VarIn v t' → Reach σ t v :=
  fix_frame nc h

example : NoConstraints σS1 ∧ fix exL 10 σS1 (.var 0) true = .ok (σS1fix, .app 6 []) :=
  ⟨σS1_nc, exFix_run⟩

/-- Applying a function type to an argument changes only variables reachable from the two
types; the store may grow (an unresolved function variable becomes `a ** b` with fresh
`a`, `b`), and the returned type mentions reachable or freshly allocated variables only. -/
theorem C16_apply_frame (L : Lang) (n : Nat) (σ σ' : Store) (f x r : Term) (fixFlag : Bool)
    (nc : NoConstraints σ) (h : applyT L n σ f x fixFlag = .ok (σ', r)) :
    σ.vars.length ≤ σ'.vars.length ∧ NoConstraints σ' ∧
    (∀ v, v < σ.vars.length → ¬ Reach σ f v → ¬ Reach σ x v → getVar σ' v = getVar σ v) ∧
    ∀ v, VarIn v r → (Reach σ f v ∨ Reach σ x v) ∨ (σ.vars.length ≤ v ∧ v < σ'.vars.length) :=
  apply_frame nc h

example : NoConstraints σS ∧
    applyT exL 10 σS exF (.app 7 [.app 6 []]) true = .ok (σS1, .app FUN [.var 0, .var 0]) :=
  ⟨σS_nc, exB_step1⟩

/-- An earlier expression `e` that shares no variable with the terms being unified means
after the unification exactly what it meant before: its variables carry the same records,
the same variables are reachable from it, and following it gives the same type. -/
theorem C16_definitions_untouched (L : Lang) (n : Nat) (σ σ' : Store) (a b e : Term) (nc : NoConstraints σ)
    (h : unify L n σ a b true false false = .ok σ')
    (hdis : ∀ v, Reach σ e v → ¬ Reach σ a v ∧ ¬ Reach σ b v) :
    (∀ v, Reach σ e v → getVar σ' v = getVar σ v) ∧ (∀ v, Reach σ' e v ↔ Reach σ e v) ∧
    ∀ m, follow σ' m e = follow σ m e :=
  have hg : ∀ v, Reach σ e v → getVar σ' v = getVar σ v :=
    fun v hv => (unify_frame nc h).2.2 v (hdis v hv).1 (hdis v hv).2
  ⟨hg, untouched hg⟩

example : NoConstraints σ3 ∧ unify exL 10 σ3 (.var 0) (.var 1) true false false = .ok σ3' ∧
    (∀ v, Reach σ3 (.var 2) v → ¬ Reach σ3 (.var 0) v ∧ ¬ Reach σ3 (.var 1) v) :=
  ⟨σ3_nc, ex3_run, ex3_disjoint⟩

/-- The same for an application: an earlier expression over allocated variables that shares
no variable with the function and argument types is untouched. -/
theorem C16_definitions_untouched_apply (L : Lang) (n : Nat) (σ σ' : Store) (f x r e : Term)
    (fixFlag : Bool) (nc : NoConstraints σ) (h : applyT L n σ f x fixFlag = .ok (σ', r))
    (hdis : ∀ v, Reach σ e v → v < σ.vars.length ∧ ¬ Reach σ f v ∧ ¬ Reach σ x v) :
    (∀ v, Reach σ e v → getVar σ' v = getVar σ v) ∧ (∀ v, Reach σ' e v ↔ Reach σ e v) ∧
    ∀ m, follow σ' m e = follow σ m e :=
  have hg : ∀ v, Reach σ e v → getVar σ' v = getVar σ v :=
    fun v hv => (apply_frame nc h).2.2.1 v (hdis v hv).1 (hdis v hv).2.1 (hdis v hv).2.2
  ⟨hg, untouched hg⟩

example : NoConstraints σ4 ∧
    applyT exL 10 σ4 (.app FUN [.var 0, .var 0]) (.app 6 []) true = .ok (σ4b, .app 6 []) ∧
    (∀ v, Reach σ4 (.var 1) v →
      v < σ4.vars.length ∧ ¬ Reach σ4 (.app FUN [.var 0, .var 0]) v ∧ ¬ Reach σ4 (.app 6 []) v) :=
  ⟨σ4_nc, ex4_run, ex4_disjoint⟩

/-! ## 3. history independence -/

/-- THE MAIN STATEMENT. One use of a definition — instantiate the schema `s`, apply the
result to the concrete argument types `xs` in turn — started in ANY history store `σ₀`
gives the same outcome as started in the empty store: the same error, or the history
followed by the store of the fresh run (all its variable indices shifted by the size `k`
of the history) and the same result type shifted by `k`. The history is never read and
never written. -/
theorem C16_history_independent (L : Lang) (n : Nat) (fixFlag : Bool) (σ₀ : Store) (s : Schema)
    (xs : List Term) (h0 : NoConstraints σ₀) (hc : s.constraints = [])
    (hbody : okTermN L (s.nvars + s.nwild) s.body = true) (hxs : Term.closedL xs = true) :
    useSchema L n fixFlag σ₀ s xs = afterHistory σ₀ (useSchema L n fixFlag {} s xs) :=
  useSchema_history_empty h0 hc hbody hxs

example : NoConstraints hist3 ∧ exSch.constraints = [] ∧
    okTermN exL (exSch.nvars + exSch.nwild) exSch.body = true ∧
    Term.closedL [.app 6 [], .app 7 [.app 5 []]] = true :=
  ⟨hist3_nc, rfl, by decide, by decide⟩

/-- a successful run: `(x => x ** F(x))` applied to `B` gives `F(x)` with `x := B`; behind the
history of three variables the same, shifted by three -/
example : useSchema exL 10 true {} exSch [.app 6 []] = .ok (σS1fix, .app 7 [.var 0]) ∧
    useSchema exL 10 true hist3 exSch [.app 6 []] = .ok (hist3.append σS1fix, .app 7 [.var 3]) :=
  ⟨exUse_run0, exUse_run3⟩

/-- The same behind a history, for a use that starts in any scoped store without
variable-to-variable bindings (not only the empty one): `σ₀.append σ` behaves as `σ`. -/
theorem C16_history_independent_general (L : Lang) (n : Nat) (fixFlag : Bool) (σ₀ σ : Store) (s : Schema)
    (xs : List Term) (h0 : NoConstraints σ₀) (nc : NoConstraints σ) (nvv : NoVarVar σ) (hs : Scoped σ)
    (hc : s.constraints = []) (hbody : okTermN L (s.nvars + s.nwild) s.body = true)
    (hxs : Term.closedL xs = true) :
    useSchema L n fixFlag (σ₀.append σ) s xs = afterHistory σ₀ (useSchema L n fixFlag σ s xs) :=
  useSchema_history h0 nc nvv hs hc hbody hxs

example : NoConstraints hist3 ∧ NoConstraints σ1 ∧ NoVarVar σ1 ∧ Scoped σ1 :=
  ⟨hist3_nc, σ1_nc, σ1_nvv, σ1_scoped⟩

/-- Instantiating a schema behind a history gives the shifted result of instantiating it
without. PARTIAL: stated for stores without variable-to-variable bindings (`NoVarVar`). -/
theorem C16_history_independent_instantiate_partial (L : Lang) (n : Nat) (σ₀ σ : Store) (s : Schema)
    (h0 : NoConstraints σ₀) (nc : NoConstraints σ) (nvv : NoVarVar σ) (hc : s.constraints = []) :
    instantiate L n (σ₀.append σ) s = afterHistory σ₀ (instantiate L n σ s) :=
  instantiate_history h0 nc nvv hc

/-- by evaluation: after a history of three unrelated variables (one of them bound) the
schema `x ** F(x)` instantiates to the shifted result of instantiating it in `{}` -/
example : instantiate exL 10 hist3 exSch = afterHistory hist3 (instantiate exL 10 {} exSch) :=
  exSch_history

/-- `fix` behind a history is the shifted `fix`. PARTIAL: needs `NoVarVar σ`. -/
theorem C16_history_independent_fix_partial (L : Lang) (n : Nat) (σ₀ σ : Store) (t : Term) (pl : Bool)
    (h0 : NoConstraints σ₀) (nc : NoConstraints σ) (nvv : NoVarVar σ) :
    fix L n (σ₀.append σ) (t.shift σ₀.vars.length) pl = afterHistory σ₀ (fix L n σ t pl) :=
  fix_history h0 nc nvv

example : NoConstraints hist3 ∧ NoConstraints σS1 ∧ NoVarVar σS1 ∧
    fix exL 10 σS1 (.var 0) true = .ok (σS1fix, .app 6 []) :=
  ⟨hist3_nc, σS1_nc, σS1_nvv, exFix_run⟩

/-- Subtype unification behind a history is the shifted unification: the same error, or the
history followed by the shifted resulting store. PARTIAL: one of the two types is concrete
(what `Type.apply` on a concrete argument does) and the store has no variable-to-variable
bindings; without these hypotheses the statement is false, see
`C16_history_independent_unify_fails`. -/
theorem C16_history_independent_unify_partial (L : Lang) (n : Nat) (σ₀ σ : Store) (a b : Term)
    (h0 : NoConstraints σ₀) (nc : NoConstraints σ) (nvv : NoVarVar σ)
    (hcl : a.closed = true ∨ b.closed = true) :
    unify L n (σ₀.append σ) (a.shift σ₀.vars.length) (b.shift σ₀.vars.length) true false false =
      (unify L n σ a b true false false).map (σ₀.append ·) :=
  unify_history h0 nc nvv hcl

example : NoConstraints hist3 ∧ NoConstraints σS ∧ NoVarVar σS ∧
    ((Term.app 7 [.app 6 []]).closed = true ∨ (Term.app 7 [.var 0]).closed = true) :=
  ⟨hist3_nc, σS_nc, σS_nvv, Or.inl (by decide)⟩

/-- Applying a type over allocated variables to a concrete argument behind a history is the
shifted application. PARTIAL: concrete argument, scoped store without variable-to-variable
bindings. -/
theorem C16_history_independent_apply_partial (L : Lang) (n : Nat) (σ₀ σ : Store) (f x : Term)
    (fixFlag : Bool) (h0 : NoConstraints σ₀) (nc : NoConstraints σ) (nvv : NoVarVar σ) (hs : Scoped σ)
    (hf : ∀ v, VarIn v f → v < σ.vars.length) (hx : x.closed = true) :
    applyT L n (σ₀.append σ) (f.shift σ₀.vars.length) x fixFlag =
      afterHistory σ₀ (applyT L n σ f x fixFlag) :=
  applyT_history h0 nc nvv hs hf hx

example : NoConstraints hist3 ∧ NoConstraints σS ∧ NoVarVar σS ∧ Scoped σS ∧
    (∀ v, VarIn v exF → v < σS.vars.length) ∧ (Term.app 7 [.app 6 []]).closed = true :=
  ⟨hist3_nc, σS_nc, σS_nvv, σS_scoped, exF_scoped, by decide⟩

/-- FINDING: for arbitrary terms unification is NOT history independent in the model, even on
well-formed input. The occurs check recurses with fuel `σ.vars.length + 64`; on `x0` against
`F(F(…F(x0)…))` (65 levels) in a store with one variable it runs out of fuel and the cyclic
binding is accepted, while behind a history of one variable it has one more unit of fuel,
finds `x0` and reports `recursiveType`. -/
theorem C16_history_independent_unify_fails :
    ¬ (∀ (L : Lang) (n : Nat) (σ₀ σ : Store) (a b : Term), WF L → NoConstraints σ₀ → NoConstraints σ →
        NoVarVar σ → OkStore L σ → okTerm L σ a = true → okTerm L σ b = true →
        unify L n (σ₀.append σ) (a.shift σ₀.vars.length) (b.shift σ₀.vars.length) true false false =
          (unify L n σ a b true false false).map (σ₀.append ·)) :=
  unify_history_counterexample

/-- Following a term behind a history gives the shifted result. PARTIAL: the fuel of
`followT` (`σ.vars.length + 1`) must suffice in `σ` itself (`FuelOk`, true unless the store
has a cycle of variable-to-variable bindings, which the engine never creates). -/
theorem C16_followT_history_partial (σ₀ σ : Store) (t : Term) (hf : FuelOk σ) :
    followT (σ₀.append σ) (t.shift σ₀.vars.length) = (followT σ t).shift σ₀.vars.length :=
  followT_append hf t

example : FuelOk σ1 := σ1_fuelOk

/-- FINDING: on a store with a cycle `x0 := x1`, `x1 := x0` the result of `followT` depends on
its fuel and therefore on the size of the history. -/
theorem C16_followT_history_fails :
    followT (σ1.append σcyc) ((Term.var 0).shift σ1.vars.length) ≠
      (followT σcyc (.var 0)).shift σ1.vars.length ∧ ¬ FuelOk σcyc :=
  ⟨followT_history_counterexample, σcyc_not_fuelOk⟩

/-- Reading a variable behind a history: the history's own variables are as in the history,
the others are the shifted records of `σ`; `σ₀.append {} = σ₀`. -/
theorem C16_getVar_append (σ₀ σ : Store) :
    (∀ v, v < σ₀.vars.length → getVar (σ₀.append σ) v = getVar σ₀ v) ∧
    (∀ v, v < σ.vars.length →
      getVar (σ₀.append σ) (v + σ₀.vars.length) = (getVar σ v).shift σ₀.vars.length σ₀.csets.length) ∧
    (σ₀.append σ).vars.length = σ₀.vars.length + σ.vars.length ∧
    (NoConstraints σ₀ → σ₀.append {} = σ₀) :=
  ⟨fun _ h => getVar_append_lt h, fun _ h => getVar_append_ge h, length_append σ₀ σ, append_empty⟩

/-! ## 4. the engine reads only what it can reach; the content of the history is irrelevant -/

/-- Unification READS only variables reachable from its arguments: run in two stores of the
same size that agree on the reachable variables — and differ arbitrarily elsewhere — it gives
the same error, or stores that again agree on these variables. (With `C16_unify_frame`: what
is not reachable is neither read nor written.) No hypothesis on the terms. -/
theorem C16_unify_reads_only_reachable (L : Lang) (n : Nat) (τ τ' : Store) (a b : Term)
    (nc : NoConstraints τ) (nc' : NoConstraints τ')
    (h : SameOn (fun v => Reach τ a v ∨ Reach τ b v) τ τ') :
    SameResult (fun v => Reach τ a v ∨ Reach τ b v) (unify L n τ a b true false false)
      (unify L n τ' a b true false false) :=
  unify_unread nc nc' h

example : NoConstraints σ3 ∧ NoConstraints σ3alt ∧
    SameOn (fun v => Reach σ3 (.var 0) v ∨ Reach σ3 (.var 1) v) σ3 σ3alt :=
  ⟨σ3_nc, σ3alt_nc, σ3alt_same⟩

/-- `fix` reads only variables reachable from its argument. -/
theorem C16_fix_reads_only_reachable (L : Lang) (n : Nat) (τ τ' : Store) (t : Term) (pl : Bool)
    (nc : NoConstraints τ) (nc' : NoConstraints τ') (h : SameOn (Reach τ t) τ τ') :
    SameOutcome (Reach τ t) (fix L n τ t pl) (fix L n τ' t pl) :=
  fix_unread nc nc' h

example : NoConstraints σ3 ∧ NoConstraints σ3alt ∧ SameOn (Reach σ3 (.var 0)) σ3 σ3alt :=
  ⟨σ3_nc, σ3alt_nc, σ3alt_same0⟩

/-- Application reads only variables reachable from the function and argument types: in two
stores that agree on them it gives the same error, or the same result type and stores that
agree on them and on everything allocated since. -/
theorem C16_apply_reads_only_reachable (L : Lang) (n : Nat) (τ τ' : Store) (f x : Term) (fixFlag : Bool)
    (nc : NoConstraints τ) (nc' : NoConstraints τ')
    (h : SameOn (fun v => Reach τ f v ∨ Reach τ x v) τ τ') :
    SameOutcome (fun v => (Reach τ f v ∨ Reach τ x v) ∨ τ.vars.length ≤ v)
      (applyT L n τ f x fixFlag) (applyT L n τ' f x fixFlag) :=
  applyT_unread nc nc' h

example : NoConstraints σ3 ∧ NoConstraints σ3alt ∧
    SameOn (fun v => Reach σ3 (.var 0) v ∨ Reach σ3 (.var 1) v) σ3 σ3alt :=
  ⟨σ3_nc, σ3alt_nc, σ3alt_same⟩

/-- History independence for ARBITRARY terms, up to the size of the history: unification
behind two histories `σ₀`, `σ₀'` with the same number of variables gives the same error, or
stores that coincide beyond the history, and leaves each history exactly as it was. What the
earlier expressions were is irrelevant; only how many variables they allocated enters (as a
renaming of the new variables and, through the fuel, see `C16_history_independent_unify_fails`). -/
theorem C16_history_content_irrelevant_unify (L : Lang) (n : Nat) (σ₀ σ₀' σ : Store) (a b : Term)
    (h0 : NoConstraints σ₀) (h0' : NoConstraints σ₀') (nc : NoConstraints σ)
    (hv : σ₀'.vars.length = σ₀.vars.length) (hcs : σ₀'.csets.length = σ₀.csets.length) :
    SameResult (fun v => σ₀.vars.length ≤ v)
      (unify L n (σ₀.append σ) (a.shift σ₀.vars.length) (b.shift σ₀.vars.length) true false false)
      (unify L n (σ₀'.append σ) (a.shift σ₀.vars.length) (b.shift σ₀.vars.length) true false false) ∧
    (∀ τ1, unify L n (σ₀.append σ) (a.shift σ₀.vars.length) (b.shift σ₀.vars.length) true false false
        = .ok τ1 → ∀ v, v < σ₀.vars.length → getVar τ1 v = getVar σ₀ v) :=
  ⟨unify_content h0 h0' nc hv hcs, fun _ h => unify_history_untouched h0 nc h⟩

example : NoConstraints hist3 ∧ NoConstraints hist3' ∧ NoConstraints σU ∧
    hist3'.vars.length = hist3.vars.length ∧ hist3'.csets.length = hist3.csets.length :=
  ⟨hist3_nc, hist3'_nc, σU_nc, rfl, rfl⟩

/-- History independence of one whole use with ARBITRARY (also schematic) argument types, up
to the size of the history: behind two histories with the same number of variables the use
gives the same error, or the same result type and stores that coincide beyond the history;
the history itself is left exactly as it was. -/
theorem C16_history_content_irrelevant (L : Lang) (n : Nat) (fixFlag : Bool) (σ₀ σ₀' σ : Store)
    (s : Schema) (xs : List Term) (h0 : NoConstraints σ₀) (h0' : NoConstraints σ₀') (nc : NoConstraints σ)
    (hv : σ₀'.vars.length = σ₀.vars.length) (hcs : σ₀'.csets.length = σ₀.csets.length)
    (hc : s.constraints = []) (hbody : okTermN L (s.nvars + s.nwild) s.body = true) :
    SameOutcome (fun v => σ₀.vars.length ≤ v)
      (useSchema L n fixFlag (σ₀.append σ) s (Term.shiftL σ₀.vars.length xs))
      (useSchema L n fixFlag (σ₀'.append σ) s (Term.shiftL σ₀.vars.length xs)) ∧
    (∀ τ1 r, useSchema L n fixFlag (σ₀.append σ) s (Term.shiftL σ₀.vars.length xs) = .ok (τ1, r) →
      ∀ v, v < σ₀.vars.length → getVar τ1 v = getVar σ₀ v) :=
  ⟨useSchema_content h0 h0' nc hv hcs hc hbody, fun _ _ h => useSchema_history_untouched h0 nc hc hbody h⟩

example : NoConstraints hist3 ∧ NoConstraints hist3' ∧ NoConstraints σU ∧
    hist3'.vars.length = hist3.vars.length ∧ hist3'.csets.length = hist3.csets.length ∧
    exSch.constraints = [] ∧ okTermN exL (exSch.nvars + exSch.nwild) exSch.body = true :=
  ⟨hist3_nc, hist3'_nc, σU_nc, rfl, rfl, rfl, by decide⟩

end Tfv.C16
