import Tfv.Model
import Tfv.Spec.Sub
import Tfv.Spec.Taxonomy
import Tfv.Proofs.SubOrder
/-!
# Helper lemmas for C10, part 1: direct successors are strict sub/supertypes; reported links are sound
-/
namespace Tfv.Tax
open Tfv

/-! ## 0. structural equality, membership -/

mutual
theorem ty_beq_iff : ∀ (s t : Ty), Ty.beq s t = true ↔ s = t
  | .app a as, .app b bs => by
    unfold Ty.beq
    simp only [Bool.and_eq_true, beq_iff_eq, Ty.app.injEq, ty_beqL_iff as bs]
theorem ty_beqL_iff : ∀ (ss ts : List Ty), Ty.beqL ss ts = true ↔ ss = ts
  | [], [] => by unfold Ty.beqL; simp
  | [], _ :: _ => by unfold Ty.beqL; simp
  | _ :: _, [] => by unfold Ty.beqL; simp
  | s :: ss, t :: ts => by
    unfold Ty.beqL
    simp only [Bool.and_eq_true, ty_beq_iff s t, ty_beqL_iff ss ts, List.cons.injEq]
end

theorem memTy_iff (t : Ty) (ts : List Ty) : memTy t ts = true ↔ t ∈ ts := by
  unfold memTy
  simp only [List.any_eq_true, ty_beq_iff]
  constructor
  · rintro ⟨x, hx, rfl⟩; exact hx
  · intro h; exact ⟨t, h, rfl⟩

theorem mem_insertTy (s t : Ty) (ts : List Ty) : s ∈ insertTy t ts ↔ (s = t ∨ s ∈ ts) := by
  unfold insertTy
  by_cases h : memTy t ts = true
  · rw [if_pos h]
    constructor
    · exact Or.inr
    · rintro (rfl | h')
      · exact (memTy_iff _ _).mp h
      · exact h'
  · rw [if_neg h]
    simp only [List.mem_append, List.mem_singleton]
    exact Or.comm

/-! ## 1. basic facts about well-formed languages -/

theorem wf_len {L : Lang} (wf : WF L) : 5 ≤ L.length := by
  have h := congrArg List.length wf.builtins
  simp only [List.length_take, builtinDecls, List.length_cons, List.length_nil] at h
  omega

theorem wfTy_base {L : Lang} {a : Nat} (h : a < L.length) (h0 : arityOf L a = 0) :
    wfTy L (.app a []) = true := by
  unfold wfTy wfTyL
  simp only [h0, List.length_nil, beq_self_eq_true, Bool.and_true, decide_eq_true_eq]
  exact h

theorem wfTy_top {L : Lang} (wf : WF L) : wfTy L (.app TOP []) = true :=
  wfTy_base (by have := wf_len wf; unfold TOP; omega) (arity_top wf)

theorem wfTy_bot {L : Lang} (wf : WF L) : wfTy L (.app BOT []) = true :=
  wfTy_base (by have := wf_len wf; unfold BOT; omega) (arity_bot wf)

theorem wfTy_lt {L : Lang} {o : Nat} {args : List Ty} (h : wfTy L (.app o args) = true) :
    o < L.length := by
  unfold wfTy at h
  simp only [Bool.and_eq_true, decide_eq_true_eq] at h
  exact h.1.1

theorem wfTy_mk {L : Lang} {o : Nat} {args : List Ty} (h1 : o < L.length)
    (h2 : args.length = arityOf L o) (h3 : wfTyL L args = true) : wfTy L (.app o args) = true := by
  unfold wfTy
  simp only [Bool.and_eq_true, decide_eq_true_eq, beq_iff_eq]
  exact ⟨⟨h1, h2⟩, h3⟩

theorem wfTyL_mk {L : Lang} {t : Ty} {ts : List Ty} (h1 : wfTy L t = true) (h2 : wfTyL L ts = true) :
    wfTyL L (t :: ts) = true := by
  unfold wfTyL
  simp only [Bool.and_eq_true]
  exact ⟨h1, h2⟩

theorem mem_childrenOf {L : Lang} {p c : Nat} : c ∈ childrenOf L p ↔ parentOf L c = some p := by
  unfold childrenOf
  simp only [List.mem_filter, List.mem_range, beq_iff_eq]
  constructor
  · exact fun h => h.2
  · exact fun h => ⟨parentOf_lt_length h, h⟩

theorem wfTyL_map {L : Lang} (f : Bool → Ty) (hf : ∀ v, wfTy L (f v) = true) : ∀ (vs : List Bool),
    wfTyL L (vs.map f) = true
  | [] => by simp [wfTyL]
  | v :: vs => by
    rw [List.map_cons]
    exact wfTyL_mk (hf v) (wfTyL_map f hf vs)

/-! ## 2. `floor` / `ceiling` -/

theorem ceilingOp_sound {L : Lang} (wf : WF L) : ∀ (n u : Nat) (s : Ty), u < L.length → u ≠ TOP →
    s ∈ ceilingOp L n u → s ≠ .app TOP [] ∧ wfTy L s = true
  | 0, _, _, _, _, h => by simp [ceilingOp] at h
  | n+1, u, s, hu, hne, h => by
    unfold ceilingOp at h
    by_cases h0 : arityOf L u = 0
    · simp only [h0, beq_self_eq_true, if_true] at h
      cases hp : parentOf L u with
      | none =>
        rw [hp] at h
        simp only [List.mem_singleton] at h
        subst h
        exact ⟨fun e => hne (by injection e), wfTy_base hu h0⟩
      | some p =>
        rw [hp] at h
        have := wf.parent_lt _ _ hp
        exact ceilingOp_sound wf n p s (by omega) (wf.parent_not_top _ _ hp) h
    · have hb : (arityOf L u == 0) = false := by simpa using h0
      simp only [hb, Bool.false_eq_true, if_false, List.mem_singleton] at h
      subst h
      refine ⟨fun e => hne (by injection e), wfTy_mk hu (by simp [arityOf]) ?_⟩
      apply wfTyL_map
      intro v; cases v
      · exact wfTy_bot wf
      · exact wfTy_top wf

theorem floorOp_sound {L : Lang} (wf : WF L) : ∀ (n u : Nat) (s : Ty), u < L.length → u ≠ BOT →
    s ∈ floorOp L n u → s ≠ .app BOT [] ∧ wfTy L s = true
  | 0, _, _, _, _, h => by simp [floorOp] at h
  | n+1, u, s, hu, hne, h => by
    unfold floorOp at h
    by_cases h0 : arityOf L u = 0
    · simp only [h0, beq_self_eq_true, if_true] at h
      by_cases hc : (childrenOf L u).isEmpty = true
      · simp only [hc, if_true, List.mem_singleton] at h
        subst h
        exact ⟨fun e => hne (by injection e), wfTy_base hu h0⟩
      · simp only [hc, Bool.false_eq_true, if_false, List.mem_flatMap] at h
        obtain ⟨c, hc1, hc2⟩ := h
        have hp := mem_childrenOf.mp hc1
        have h5 := wf.builtin_orphan _ _ hp
        exact floorOp_sound wf n c s (parentOf_lt_length hp) (by unfold BOT; omega) hc2
    · have hb : (arityOf L u == 0) = false := by simpa using h0
      simp only [hb, Bool.false_eq_true, if_false, List.mem_singleton] at h
      subst h
      refine ⟨fun e => hne (by injection e), wfTy_mk hu (by simp [arityOf]) ?_⟩
      apply wfTyL_map
      intro v; cases v
      · exact wfTy_top wf
      · exact wfTy_bot wf

/-! ## 3. direct successors are strict sub/supertypes -/

theorem le_up {L : Lang} {x y : Ty} : Le L true x y ↔ Sub L x y := by simp [Le]
theorem le_down {L : Lang} {x y : Ty} : Le L false x y ↔ Sub L y x := by simp [Le]
theorem leArgs_up {L : Lang} {vs : List Bool} {xs ys : List Ty} :
    LeArgs L true vs xs ys ↔ SubArgs L vs xs ys := by simp [LeArgs]
theorem leArgs_down {L : Lang} {vs : List Bool} {xs ys : List Ty} :
    LeArgs L false vs xs ys ↔ SubArgs L vs ys xs := by simp [LeArgs]

theorem le_refl {L : Lang} (up : Bool) {x : Ty} (h : wfTy L x = true) : Le L up x x := by
  cases up
  · exact le_down.mpr (sub_refl x h)
  · exact le_up.mpr (sub_refl x h)

theorem le_trans {L : Lang} (wf : WF L) {up : Bool} {x y z : Ty} (h1 : Le L up x y) (h2 : Le L up y z) :
    Le L up x z := by
  cases up
  · exact le_down.mpr (sub_trans wf y z x (le_down.mp h2) (le_down.mp h1))
  · exact le_up.mpr (sub_trans wf y x z (le_up.mp h1) (le_up.mp h2))

theorem le_antisymm {L : Lang} (wf : WF L) {up : Bool} {x y : Ty} (h1 : Le L up x y) (h2 : Le L up y x) :
    x = y := by
  cases up
  · exact sub_antisymm wf x y (le_down.mp h2) (le_down.mp h1)
  · exact sub_antisymm wf x y (le_up.mp h1) (le_up.mp h2)

/-- a chain of steps in one direction, one of them strict, is strict -/
theorem le_strict_trans {L : Lang} (wf : WF L) {up : Bool} {x y z : Ty} (h1 : Le L up x y) (hne : y ≠ x)
    (h2 : Le L up y z) : z ≠ x := by
  intro e
  subst e
  exact hne (le_antisymm wf h2 h1)

theorem baseSucc_sound {L : Lang} (wf : WF L) {o : SOpts} (ok : UnivOK L o) (up : Bool) (op : Nat)
    (hop : op < L.length) (h0 : arityOf L op = 0) (s : Ty) (hs : s ∈ baseSucc L o up op) :
    Le L up (.app op []) s ∧ s ≠ .app op [] ∧ wfTy L s = true := by
  unfold baseSucc at hs
  cases up
  · simp only [Bool.not_false, if_true] at hs
    rw [le_down]
    by_cases hT : op = TOP
    · subst hT
      simp only [beq_self_eq_true, if_true] at hs
      by_cases hu : o.univ.isEmpty = true
      · simp only [hu, Bool.not_true, Bool.false_eq_true, if_false] at hs
        by_cases hb : o.bottom = true
        · simp only [hb, if_true, List.mem_singleton] at hs
          subst hs
          exact ⟨Sub.top _, fun e => by injection e with e; simp [TOP, BOT] at e, wfTy_bot wf⟩
        · simp [hb] at hs
      · simp only [hu, Bool.not_false, if_true, List.mem_flatMap] at hs
        obtain ⟨u, hu1, hu2⟩ := hs
        obtain ⟨k1, _, k3⟩ := ok u hu1
        obtain ⟨r1, r2⟩ := ceilingOp_sound wf _ u s k3 k1 hu2
        exact ⟨Sub.top _, r1, r2⟩
    · have hTb : (op == TOP) = false := by simpa using hT
      simp only [hTb, Bool.false_eq_true, if_false] at hs
      by_cases hc : (o.custom && !(childrenOf L op).isEmpty) = true
      · simp only [hc, if_true, List.mem_map] at hs
        obtain ⟨c, hc1, rfl⟩ := hs
        have hp := mem_childrenOf.mp hc1
        have hlt := wf.parent_lt _ _ hp
        refine ⟨Sub.base (wf.child_nullary _ _ hp) h0 (Anc.step hp (Anc.refl _)), ?_,
          wfTy_base (parentOf_lt_length hp) (wf.child_nullary _ _ hp)⟩
        intro e; injection e with e; omega
      · simp only [hc, Bool.false_eq_true, if_false] at hs
        by_cases hb : (o.bottom && op != BOT) = true
        · simp only [hb, if_true, List.mem_singleton] at hs
          subst hs
          simp only [Bool.and_eq_true, bne_iff_ne, ne_eq] at hb
          exact ⟨Sub.bot _, fun e => by injection e with e; exact hb.2 e.symm, wfTy_bot wf⟩
        · simp [hb] at hs
  · simp only [Bool.not_true, Bool.false_eq_true, if_false] at hs
    rw [le_up]
    by_cases hB : op = BOT
    · subst hB
      simp only [beq_self_eq_true, if_true] at hs
      by_cases hu : o.univ.isEmpty = true
      · simp only [hu, Bool.not_true, Bool.false_eq_true, if_false] at hs
        by_cases hb : o.top = true
        · simp only [hb, if_true, List.mem_singleton] at hs
          subst hs
          exact ⟨Sub.bot _, fun e => by injection e with e; simp [TOP, BOT] at e, wfTy_top wf⟩
        · simp [hb] at hs
      · simp only [hu, Bool.not_false, if_true, List.mem_flatMap] at hs
        obtain ⟨u, hu1, hu2⟩ := hs
        obtain ⟨_, k2, k3⟩ := ok u hu1
        obtain ⟨r1, r2⟩ := floorOp_sound wf _ u s k3 k2 hu2
        exact ⟨Sub.bot _, r1, r2⟩
    · have hBb : (op == BOT) = false := by simpa using hB
      simp only [hBb, Bool.false_eq_true, if_false] at hs
      cases hp : parentOf L op with
      | some p =>
        by_cases hc : o.custom = true
        · simp only [hc, hp, Option.isSome_some, Bool.and_self, if_true, List.mem_singleton] at hs
          subst hs
          have hlt := wf.parent_lt _ _ hp
          refine ⟨Sub.base h0 (wf.parent_nullary _ _ hp) (Anc.step hp (Anc.refl _)), ?_,
            wfTy_base (by omega) (wf.parent_nullary _ _ hp)⟩
          intro e; injection e with e; omega
        · simp only [hc, Bool.false_and, Bool.false_eq_true, if_false] at hs
          by_cases hb : (o.top && op != TOP) = true
          · simp only [hb, if_true, List.mem_singleton] at hs
            subst hs
            simp only [Bool.and_eq_true, bne_iff_ne, ne_eq] at hb
            exact ⟨Sub.top _, fun e => by injection e with e; exact hb.2 e.symm, wfTy_top wf⟩
          · simp [hb] at hs
      | none =>
        simp only [hp, Option.isSome_none, Bool.and_false, Bool.false_eq_true, if_false] at hs
        by_cases hb : (o.top && op != TOP) = true
        · simp only [hb, if_true, List.mem_singleton] at hs
          subst hs
          simp only [Bool.and_eq_true, bne_iff_ne, ne_eq] at hb
          exact ⟨Sub.top _, fun e => by injection e with e; exact hb.2 e.symm, wfTy_top wf⟩
        · simp [hb] at hs

theorem le_app {L : Lang} {up : Bool} {op : Nat} {xs ys : List Ty} (h0 : arityOf L op ≠ 0)
    (h : LeArgs L up (varianceOf L op) xs ys) : Le L up (.app op xs) (.app op ys) := by
  cases up
  · exact le_down.mpr (Sub.cong h0 (leArgs_down.mp h))
  · exact le_up.mpr (Sub.cong h0 (leArgs_up.mp h))

theorem leArgs_cons {L : Lang} {up v : Bool} {vs : List Bool} {x y : Ty} {xs ys : List Ty}
    (h1 : Le L (up == v) x y) (h2 : LeArgs L up vs xs ys) : LeArgs L up (v :: vs) (x :: xs) (y :: ys) := by
  cases up <;> cases v
  · exact leArgs_down.mpr (SubArgs.contra (le_up.mp h1) (leArgs_down.mp h2))
  · exact leArgs_down.mpr (SubArgs.co (le_down.mp h1) (leArgs_down.mp h2))
  · exact leArgs_up.mpr (SubArgs.contra (le_down.mp h1) (leArgs_up.mp h2))
  · exact leArgs_up.mpr (SubArgs.co (le_up.mp h1) (leArgs_up.mp h2))

theorem leArgs_refl {L : Lang} (up : Bool) {vs : List Bool} {xs : List Ty} (h : wfTyL L xs = true)
    (hl : xs.length = vs.length) : LeArgs L up vs xs xs := by
  cases up
  · exact leArgs_down.mpr (subArgs_refl xs vs h hl)
  · exact leArgs_up.mpr (subArgs_refl xs vs h hl)

mutual
theorem succT_sound {L : Lang} (wf : WF L) {o : SOpts} (ok : UnivOK L o) : ∀ (up : Bool) (t s : Ty),
    wfTy L t = true → s ∈ succT L o up t → Le L up t s ∧ s ≠ t ∧ wfTy L s = true
  | up, .app op args, s, ht, hs => by
    by_cases h0 : arityOf L op = 0
    · simp only [succT, h0, beq_self_eq_true, if_true] at hs
      have hnil := wfTy_nullary ht h0
      subst hnil
      exact baseSucc_sound wf ok up op (wfTy_lt ht) h0 s hs
    · have hb : (arityOf L op == 0) = false := by simpa using h0
      simp only [succT, hb, Bool.false_eq_true, if_false] at hs
      by_cases he : (succArgs L o up (varianceOf L op) args).isEmpty = true
      · simp only [he, if_true] at hs
        cases up
        · by_cases hbot : o.bottom = true
          · simp only [hbot, Bool.not_false, Bool.and_self, if_true, List.mem_singleton] at hs
            subst hs
            refine ⟨le_down.mpr (Sub.bot _), ?_, wfTy_bot wf⟩
            intro e; injection e with e1 _; rw [← e1] at h0; exact h0 (arity_bot wf)
          · simp [hbot] at hs
        · by_cases htop : o.top = true
          · simp only [htop, Bool.not_true, Bool.and_false, Bool.false_eq_true, if_false, Bool.and_self,
              if_true, List.mem_singleton] at hs
            subst hs
            refine ⟨le_up.mpr (Sub.top _), ?_, wfTy_top wf⟩
            intro e; injection e with e1 _; rw [← e1] at h0; exact h0 (arity_top wf)
          · simp [htop] at hs
      · simp only [he, Bool.false_eq_true, if_false, List.mem_map] at hs
        obtain ⟨as, has, rfl⟩ := hs
        obtain ⟨r1, r2, r3, r4⟩ := succArgs_sound wf ok up (varianceOf L op) args as (wfTy_app ht).2
          (wfTy_app ht).1 has
        refine ⟨le_app h0 r1, ?_, wfTy_mk (wfTy_lt ht) (r4.trans (wfTy_app ht).1) r3⟩
        intro e; injection e with _ e2; exact r2 e2
theorem succArgs_sound {L : Lang} (wf : WF L) {o : SOpts} (ok : UnivOK L o) : ∀ (up : Bool) (vs : List Bool)
    (args as : List Ty), wfTyL L args = true → args.length = vs.length → as ∈ succArgs L o up vs args →
    LeArgs L up vs args as ∧ as ≠ args ∧ wfTyL L as = true ∧ as.length = args.length
  | _, [], _, _, _, _, h => by simp [succArgs] at h
  | _, _ :: _, [], _, _, _, h => by simp [succArgs] at h
  | up, v :: vs, p :: ps, as, hw, hl, h => by
    simp only [succArgs, List.mem_append, List.mem_map] at h
    have hl' : ps.length = vs.length := by simpa using hl
    rcases h with ⟨q, hq, rfl⟩ | ⟨qs, hqs, rfl⟩
    · obtain ⟨r1, r2, r3⟩ := succT_sound wf ok (up == v) p q (wfTyL_cons hw).1 hq
      refine ⟨leArgs_cons r1 (leArgs_refl up (wfTyL_cons hw).2 hl'), ?_, wfTyL_mk r3 (wfTyL_cons hw).2, by simp⟩
      intro e; injection e with e1 _; exact r2 e1
    · obtain ⟨r1, r2, r3, r4⟩ := succArgs_sound wf ok up vs ps qs (wfTyL_cons hw).2 hl' hqs
      refine ⟨leArgs_cons (le_refl _ (wfTyL_cons hw).1) r1, ?_, wfTyL_mk (wfTyL_cons hw).1 r3, by simp [r4]⟩
      intro e; injection e with _ e2; exact r2 e2
end

/-! ## 4. reported links are sound -/

theorem univOK_of_ge5 {L : Lang} {o : SOpts} (h : ∀ u ∈ o.univ, 5 ≤ u ∧ u < L.length) : UnivOK L o := by
  intro u hu
  obtain ⟨h1, h2⟩ := h u hu
  refine ⟨?_, ?_, h2⟩
  · unfold TOP; omega
  · unfold BOT; omega

theorem univOK_langOpts (L : Lang) (c : CanonCfg) : UnivOK L (langOpts L c) := by
  apply univOK_of_ge5
  intro u hu
  simp only [langOpts, typeUniverse, List.mem_filter, List.mem_range, decide_eq_true_eq] at hu
  exact ⟨hu.2, hu.1⟩

theorem univOK_nil {L : Lang} {o : SOpts} (h : o.univ = []) : UnivOK L o := by
  intro u hu; rw [h] at hu; cases hu

theorem langSucc_sound {L : Lang} (wf : WF L) (c : CanonCfg) (canon : List Ty) : ∀ (n : Nat) (up : Bool)
    (t : Ty) (tr : Bool) (r : Ty), wfTy L t = true → r ∈ langSucc L c canon n up t tr →
    Le L up t r ∧ r ≠ t ∧ wfTy L r = true ∧ r ∈ canon
  | 0, _, _, _, _, _, h => by simp [langSucc] at h
  | n+1, up, t, tr, r, ht, h => by
    simp only [langSucc, List.mem_flatMap] at h
    obtain ⟨s, hs, h⟩ := h
    obtain ⟨s1, s2, s3⟩ := succT_sound wf (univOK_langOpts L c) up t s ht hs
    by_cases hm : memTy s canon = true
    · simp only [hm, if_true, List.mem_cons] at h
      rcases h with rfl | h
      · exact ⟨s1, s2, s3, (memTy_iff _ _).mp hm⟩
      · cases tr
        · simp at h
        · simp only [if_true] at h
          obtain ⟨q1, q2, q3, q4⟩ := langSucc_sound wf c canon n up s true r s3 h
          exact ⟨le_trans wf s1 q1, le_strict_trans wf s1 s2 q1, q3, q4⟩
    · simp only [hm, Bool.false_eq_true, if_false, List.mem_flatMap] at h
      obtain ⟨u, hu, h⟩ := h
      obtain ⟨u1, u2, u3⟩ := succT_sound wf (univOK_langOpts L c) up s u s3 hu
      have tu1 := le_trans wf s1 u1
      have tu2 := le_strict_trans wf s1 s2 u1
      by_cases hm2 : memTy u canon = true
      · simp only [hm2, if_true, List.mem_cons] at h
        rcases h with rfl | h
        · exact ⟨tu1, tu2, u3, (memTy_iff _ _).mp hm2⟩
        · cases tr
          · simp at h
          · simp only [if_true] at h
            obtain ⟨q1, q2, q3, q4⟩ := langSucc_sound wf c canon n up u true r u3 h
            exact ⟨le_trans wf tu1 q1, le_strict_trans wf tu1 tu2 q1, q3, q4⟩
      · simp [hm2] at h

theorem reach_trans {R : Ty → Ty → Prop} {a b c : Ty} (h1 : Reach R a b) (h2 : Reach R b c) : Reach R a c := by
  induction h1 with
  | refl _ => exact h2
  | step hr _ ih => exact Reach.step hr (ih h2)

theorem reach_one {R : Ty → Ty → Prop} {a b : Ty} (h : R a b) : Reach R a b := Reach.step h (Reach.refl _)

theorem reach_mono {R S : Ty → Ty → Prop} (hRS : ∀ a b, R a b → S a b) {a b : Ty} (h : Reach R a b) :
    Reach S a b := by
  induction h with
  | refl _ => exact Reach.refl _
  | step hr _ ih => exact Reach.step (hRS _ _ hr) ih

/-- everything reachable through reported links lies in the direction of the links -/
theorem reach_link_sound {L : Lang} (wf : WF L) (c : CanonCfg) (canon : List Ty) (n : Nat) (up : Bool)
    {t s : Ty} (h : Reach (Link L c canon n up) t s) (ht : wfTy L t = true) :
    Le L up t s ∧ wfTy L s = true ∧ (s = t ∨ (s ≠ t ∧ s ∈ canon)) := by
  induction h with
  | refl x => exact ⟨le_refl up ht, ht, Or.inl rfl⟩
  | @step x y z hr _ ih =>
    obtain ⟨q1, q2, q3, q4⟩ := langSucc_sound wf c canon n up x false y ht hr
    obtain ⟨i1, i2, i3⟩ := ih q3
    refine ⟨le_trans wf q1 i1, i2, Or.inr ⟨le_strict_trans wf q1 q2 i1, ?_⟩⟩
    rcases i3 with rfl | ⟨_, i4⟩
    · exact q4
    · exact i4

/-- with at least one step the result is strict -/
theorem reach_link_strict {L : Lang} (wf : WF L) (c : CanonCfg) (canon : List Ty) (n : Nat) (up : Bool)
    {t u s : Ty} (h1 : Link L c canon n up t u) (h : Reach (Link L c canon n up) u s) (ht : wfTy L t = true) :
    Le L up t s ∧ s ≠ t ∧ wfTy L s = true ∧ s ∈ canon := by
  obtain ⟨q1, q2, q3⟩ := reach_link_sound wf c canon n up (Reach.step h1 h) ht
  rcases q3 with rfl | ⟨q4, q5⟩
  · obtain ⟨a1, a2, a3, _⟩ := langSucc_sound wf c canon n up _ false u ht h1
    obtain ⟨b1, _, _⟩ := reach_link_sound wf c canon n up h a3
    exact absurd (le_antisymm wf b1 a1) a2
  · exact ⟨q1, q4, q2, q5⟩

end Tfv.Tax
