import Tfv.Proofs.EngineTermMono2
/-!
# Fuel monotonicity: the induction and the `fuel ≤ fuel'` form
-/
namespace Tfv.C17T
open Tfv

theorem monoAt_zero (L : Lang) : MonoAt L 0 where
  unify := fun _ _ _ _ _ _ => Or.inl (by rw [unify])
  unifyList := fun _ _ _ _ _ _ _ => Or.inl (by rw [unifyList])
  bind := fun _ _ _ => Or.inl (by rw [bind])
  above := fun _ _ _ => Or.inl (by rw [above])
  below := fun _ _ _ => Or.inl (by rw [below])
  checkConstraints := fun _ _ => Or.inl (by rw [checkConstraints])
  checkList := fun _ _ _ => Or.inl (by rw [checkList])
  fulfill := fun _ _ => Or.inl (by rw [fulfill])
  minimize := fun _ _ => Or.inl (by rw [minimize])
  minLoop := fun _ _ _ => Or.inl (by rw [minLoop])
  fix := fun _ _ _ => Or.inl (by rw [fix])
  fixList := fun _ _ _ _ => Or.inl (by rw [fixList])

theorem monoAt_succ {L : Lang} {n : Nat} (ih : MonoAt L n) : MonoAt L (n+1) where
  unify := unify_step ih
  unifyList := unifyList_step ih
  bind := bind_step ih
  above := above_step ih
  below := below_step ih
  checkConstraints := checkConstraints_step ih
  checkList := checkList_step ih
  fulfill := fulfill_step ih
  minimize := minimize_step ih
  minLoop := minLoop_step ih
  fix := fix_step ih
  fixList := fixList_step ih

theorem monoAt (L : Lang) : ∀ n, MonoAt L n
  | 0 => monoAt_zero L
  | n+1 => monoAt_succ (monoAt L n)

/-- a family monotone step by step is monotone: a run that did not run out of fuel is not changed by more fuel -/
theorem mono_of_step {α : Type} (f : Nat → Except Err α) (h : ∀ n, Le (f n) (f (n+1))) :
    ∀ {n m : Nat}, n ≤ m → f n ≠ .error .outOfFuel → f m = f n := by
  intro n m hnm hne
  induction hnm with
  | refl => rfl
  | @step k _ ih =>
    rcases h k with hk | hk
    · rw [ih] at hk; exact absurd hk hne
    · rw [← hk, ih]



theorem addConstraint_le (L : Lang) (n : Nat) (σ : Store) (c : Constr) :
    Le (addConstraint L n σ c) (addConstraint L (n+1) σ c) := by
  have key : ∀ S id, Le (match fulfill L n S id with | .error e => .error e | .ok (σ1, _) => (.ok σ1 : R))
      (match fulfill L (n+1) S id with | .error e => .error e | .ok (σ1, _) => (.ok σ1 : R)) := by
    intro S id
    rcases (monoAt L n).fulfill S id with h | h
    · left; rw [h]
    · rw [h]; exact Le.rfl' _
  unfold addConstraint
  simp only []
  refine le_ite ?_
  exact key _ _

theorem addConstraints_le (L : Lang) (n base : Nat) : ∀ (cs : List CAst) (σ : Store),
    Le (addConstraints L n base σ cs) (addConstraints L (n+1) base σ cs)
  | [], σ => by simp only [addConstraints]; exact Le.rfl' _
  | c :: cs, σ => by
    have key : ∀ c', Le (match addConstraint L n σ c' with
          | .error e => .error e | .ok σ1 => addConstraints L n base σ1 cs)
        (match addConstraint L (n+1) σ c' with
          | .error e => .error e | .ok σ1 => addConstraints L (n+1) base σ1 cs) := by
      intro c'
      rcases addConstraint_le L n σ c' with h | h
      · left; rw [h]
      · rw [h]
        cases addConstraint L (n+1) σ c' with
        | error e => exact Le.rfl' _
        | ok σ1 => exact addConstraints_le L n base cs σ1
    simp only [addConstraints]
    exact key _

theorem instantiate_le (L : Lang) (n : Nat) (σ : Store) (s : Schema) :
    Le (instantiate L n σ s) (instantiate L (n+1) σ s) := by
  unfold instantiate
  simp only []
  rcases addConstraints_le L n σ.vars.length s.constraints (allocVars σ s.nvars s.nwild) with h | h
  · left; rw [h]
  · rw [h]
    cases addConstraints L (n+1) σ.vars.length (allocVars σ s.nvars s.nwild) s.constraints with
    | error e => exact Le.rfl' _
    | ok σ1 => exact (monoAt L n).fix _ _ _

def applyPre (L : Lang) (n : Nat) (σ : Store) (f : Term) : Except Err (Store × Term) :=
  match followT σ f with
  | .var fv =>
    let (σ1, a) := newVar σ
    let (σ2, b) := newVar σ1
    match bind L n σ2 fv (.app FUN [.var a, .var b]) with
    | .error e => .error e
    | .ok σ3 => .ok (σ3, followT σ3 (.var fv))
  | t => .ok (σ, t)

def applyTail (L : Lang) (n : Nat) (x0 : Term) (fixFlag : Bool) (p : Store × Term) : Except Err (Store × Term) :=
  match p.2 with
  | .app o [l, r] =>
    if o == FUN then
      match unify L n p.1 x0 l true false false with
      | .error e => .error e
      | .ok σ1 =>
        let isFun := match r with
          | .app o' _ => o' == FUN
          | _ => false
        if fixFlag && !isFun then fix L n σ1 r true else .ok (σ1, r)
    else if o == TOP then .ok (p.1, .app TOP []) else .error .functionApplication
  | .app o _ => if o == TOP then .ok (p.1, .app TOP []) else .error .functionApplication
  | .var _ => .error .functionApplication

theorem applyT_eq (L : Lang) (n : Nat) (σ : Store) (f x : Term) (fixFlag : Bool) :
    applyT L n σ f x fixFlag = seq (applyPre L n σ f) (applyTail L n (followT σ x) fixFlag) := by
  unfold applyT applyPre seq
  simp only []
  cases hf : followT σ f with
  | app o args => rfl
  | var fv =>
    simp only []
    cases bind L n (newVar (newVar σ).1).1 fv (.app FUN [.var (newVar σ).2, .var (newVar (newVar σ).1).2]) with
    | error e => rfl
    | ok σ3 => rfl

theorem applyPre_le (L : Lang) (n : Nat) (σ : Store) (f : Term) :
    Le (applyPre L n σ f) (applyPre L (n+1) σ f) := by
  unfold applyPre
  cases followT σ f with
  | app o args => exact Le.rfl' _
  | var fv =>
    simp only []
    rcases (monoAt L n).bind (newVar (newVar σ).1).1 fv (.app FUN [.var (newVar σ).2, .var (newVar (newVar σ).1).2]) with h | h
    · left; rw [h]
    · rw [h]; exact Le.rfl' _

theorem applyTail_le (L : Lang) (n : Nat) (x0 : Term) (fixFlag : Bool) (p : Store × Term) :
    Le (applyTail L n x0 fixFlag p) (applyTail L (n+1) x0 fixFlag p) := by
  unfold applyTail
  split
  · rename_i o l r _
    refine le_ite' ?_
    rcases (monoAt L n).unify p.1 x0 l true false false with h | h
    · left; rw [h]
    · rw [h]
      cases unify L (n+1) p.1 x0 l true false false with
      | error e => exact Le.rfl' _
      | ok σ1 =>
        simp only []
        exact le_ite' ((monoAt L n).fix _ _ _)
  · exact Le.rfl' _
  · exact Le.rfl' _

theorem applyT_le (L : Lang) (n : Nat) (σ : Store) (f x : Term) (fixFlag : Bool) :
    Le (applyT L n σ f x fixFlag) (applyT L (n+1) σ f x fixFlag) := by
  rw [applyT_eq, applyT_eq]
  exact le_seq (applyPre_le L n σ f) (applyTail_le L n _ fixFlag)



theorem unify_fuel_mono (L : Lang) {n m : Nat} (h : n ≤ m) (σ : Store) (a b : Term) (st sb sw : Bool)
    (hne : unify L n σ a b st sb sw ≠ .error .outOfFuel) : unify L m σ a b st sb sw = unify L n σ a b st sb sw :=
  mono_of_step (fun k => unify L k σ a b st sb sw) (fun k => (monoAt L k).unify _ _ _ _ _ _) h hne

theorem unifyList_fuel_mono (L : Lang) {n m : Nat} (h : n ≤ m) (σ : Store) (vs : List Bool) (xs ys : List Term) (st sb sw : Bool)
    (hne : unifyList L n σ vs xs ys st sb sw ≠ .error .outOfFuel) : unifyList L m σ vs xs ys st sb sw = unifyList L n σ vs xs ys st sb sw :=
  mono_of_step (fun k => unifyList L k σ vs xs ys st sb sw) (fun k => (monoAt L k).unifyList _ _ _ _ _ _ _) h hne

theorem bind_fuel_mono (L : Lang) {n m : Nat} (h : n ≤ m) (σ : Store) (v : Nat) (t : Term)
    (hne : bind L n σ v t ≠ .error .outOfFuel) : bind L m σ v t = bind L n σ v t :=
  mono_of_step (fun k => bind L k σ v t) (fun k => (monoAt L k).bind _ _ _) h hne

theorem above_fuel_mono (L : Lang) {n m : Nat} (h : n ≤ m) (σ : Store) (v new : Nat)
    (hne : above L n σ v new ≠ .error .outOfFuel) : above L m σ v new = above L n σ v new :=
  mono_of_step (fun k => above L k σ v new) (fun k => (monoAt L k).above _ _ _) h hne

theorem below_fuel_mono (L : Lang) {n m : Nat} (h : n ≤ m) (σ : Store) (v new : Nat)
    (hne : below L n σ v new ≠ .error .outOfFuel) : below L m σ v new = below L n σ v new :=
  mono_of_step (fun k => below L k σ v new) (fun k => (monoAt L k).below _ _ _) h hne

theorem checkConstraints_fuel_mono (L : Lang) {n m : Nat} (h : n ≤ m) (σ : Store) (v : Nat)
    (hne : checkConstraints L n σ v ≠ .error .outOfFuel) : checkConstraints L m σ v = checkConstraints L n σ v :=
  mono_of_step (fun k => checkConstraints L k σ v) (fun k => (monoAt L k).checkConstraints _ _) h hne

theorem checkList_fuel_mono (L : Lang) {n m : Nat} (h : n ≤ m) (σ : Store) (v : Nat) (cs : List Nat)
    (hne : checkList L n σ v cs ≠ .error .outOfFuel) : checkList L m σ v cs = checkList L n σ v cs :=
  mono_of_step (fun k => checkList L k σ v cs) (fun k => (monoAt L k).checkList _ _ _) h hne

theorem fulfill_fuel_mono (L : Lang) {n m : Nat} (h : n ≤ m) (σ : Store) (c : Nat)
    (hne : fulfill L n σ c ≠ .error .outOfFuel) : fulfill L m σ c = fulfill L n σ c :=
  mono_of_step (fun k => fulfill L k σ c) (fun k => (monoAt L k).fulfill _ _) h hne

theorem minimize_fuel_mono (L : Lang) {n m : Nat} (h : n ≤ m) (σ : Store) (c : Nat)
    (hne : minimize L n σ c ≠ .error .outOfFuel) : minimize L m σ c = minimize L n σ c :=
  mono_of_step (fun k => minimize L k σ c) (fun k => (monoAt L k).minimize _ _) h hne

theorem minLoop_fuel_mono (L : Lang) {n m : Nat} (h : n ≤ m) (σ : Store) (alts mi : List Term)
    (hne : minLoop L n σ alts mi ≠ .error .outOfFuel) : minLoop L m σ alts mi = minLoop L n σ alts mi :=
  mono_of_step (fun k => minLoop L k σ alts mi) (fun k => (monoAt L k).minLoop _ _ _) h hne

theorem fix_fuel_mono (L : Lang) {n m : Nat} (h : n ≤ m) (σ : Store) (t : Term) (pl : Bool)
    (hne : fix L n σ t pl ≠ .error .outOfFuel) : fix L m σ t pl = fix L n σ t pl :=
  mono_of_step (fun k => fix L k σ t pl) (fun k => (monoAt L k).fix _ _ _) h hne

theorem fixList_fuel_mono (L : Lang) {n m : Nat} (h : n ≤ m) (σ : Store) (vs : List Bool) (ps : List Term) (pl : Bool)
    (hne : fixList L n σ vs ps pl ≠ .error .outOfFuel) : fixList L m σ vs ps pl = fixList L n σ vs ps pl :=
  mono_of_step (fun k => fixList L k σ vs ps pl) (fun k => (monoAt L k).fixList _ _ _ _) h hne

theorem addConstraint_fuel_mono (L : Lang) {n m : Nat} (h : n ≤ m) (σ : Store) (c : Constr)
    (hne : addConstraint L n σ c ≠ .error .outOfFuel) : addConstraint L m σ c = addConstraint L n σ c :=
  mono_of_step (fun k => addConstraint L k σ c) (fun k => addConstraint_le L k σ c) h hne

theorem addConstraints_fuel_mono (L : Lang) {n m : Nat} (h : n ≤ m) (base : Nat) (σ : Store) (cs : List CAst)
    (hne : addConstraints L n base σ cs ≠ .error .outOfFuel) :
    addConstraints L m base σ cs = addConstraints L n base σ cs :=
  mono_of_step (fun k => addConstraints L k base σ cs) (fun k => addConstraints_le L k base cs σ) h hne

theorem instantiate_fuel_mono (L : Lang) {n m : Nat} (h : n ≤ m) (σ : Store) (s : Schema)
    (hne : instantiate L n σ s ≠ .error .outOfFuel) : instantiate L m σ s = instantiate L n σ s :=
  mono_of_step (fun k => instantiate L k σ s) (fun k => instantiate_le L k σ s) h hne

theorem applyT_fuel_mono (L : Lang) {n m : Nat} (h : n ≤ m) (σ : Store) (f x : Term) (fixFlag : Bool)
    (hne : applyT L n σ f x fixFlag ≠ .error .outOfFuel) : applyT L m σ f x fixFlag = applyT L n σ f x fixFlag :=
  mono_of_step (fun k => applyT L k σ f x fixFlag) (fun k => applyT_le L k σ f x fixFlag) h hne

/-- one successful fuel is as good as termination: from it on, the result is fixed and is not `outOfFuel` -/
theorem stable_of_run {α : Type} (f : Nat → Except Err α) (h : ∀ n, Le (f n) (f (n+1))) {n : Nat}
    (hne : f n ≠ .error .outOfFuel) : ∃ N, ∀ fuel, N ≤ fuel → f fuel = f N ∧ f fuel ≠ .error .outOfFuel :=
  ⟨n, fun fuel hf => ⟨mono_of_step f h hf hne, by rw [mono_of_step f h hf hne]; exact hne⟩⟩

/-- a run that is out of fuel was out of fuel with every smaller fuel -/
theorem oof_of_le {α : Type} (f : Nat → Except Err α) (h : ∀ n, Le (f n) (f (n+1))) {n m : Nat} (hnm : n ≤ m)
    (ho : f m = .error .outOfFuel) : f n = .error .outOfFuel := by
  apply Classical.byContradiction
  intro hne
  exact hne ((mono_of_step f h hnm hne).symm.trans ho)

/-- the fuel behaviour of a monotone run is a threshold: out of fuel for ever, or out of fuel exactly below some `N`
and one fixed result from `N` on -/
theorem threshold {α : Type} (f : Nat → Except Err α) (h : ∀ n, Le (f n) (f (n+1))) :
    (∀ n, f n = .error .outOfFuel) ∨
    ∃ N r, r ≠ .error .outOfFuel ∧ ∀ fuel, (fuel < N → f fuel = .error .outOfFuel) ∧ (N ≤ fuel → f fuel = r) := by
  by_cases hex : ∃ n, f n ≠ .error .outOfFuel
  · right
    -- a least such `n`, by strong induction
    have least : ∀ k, (∃ n, n ≤ k ∧ f n ≠ .error .outOfFuel) →
        ∃ N, f N ≠ .error .outOfFuel ∧ ∀ m, m < N → f m = .error .outOfFuel := by
      intro k
      induction k with
      | zero =>
        rintro ⟨n, hn, hne⟩
        have : n = 0 := by omega
        subst this
        exact ⟨0, hne, fun m hm => by omega⟩
      | succ k ih =>
        rintro ⟨n, hn, hne⟩
        by_cases hk : ∃ n', n' ≤ k ∧ f n' ≠ .error .outOfFuel
        · exact ih hk
        · refine ⟨n, hne, fun m hm => ?_⟩
          apply Classical.byContradiction
          intro hm'
          exact hk ⟨m, by omega, hm'⟩
    obtain ⟨n, hn⟩ := hex
    obtain ⟨N, hN, hlt⟩ := least n ⟨n, Nat.le_refl n, hn⟩
    exact ⟨N, f N, hN, fun fuel => ⟨hlt fuel, fun hf => mono_of_step f h hf hN⟩⟩
  · left
    intro n
    apply Classical.byContradiction
    intro hn
    exact hex ⟨n, hn⟩

end Tfv.C17T
