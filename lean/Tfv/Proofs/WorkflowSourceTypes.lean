import Tfv.Proofs.WorkflowSourceTypesGraph
import Tfv.Proofs.WorkflowPerm
/-!
# `add_workflow` depends on the result of `source_types` only up to an equivalence (C12)

`sourceTypes` threads the inference store through the tool applications in listing order; the store it returns
differs between two listings of the same applications even when no source is annotated at all (the variables of
the applications are listed in another order). Everything `addWorkflow` does afterwards works on variables
allocated later and on the recorded types. So when the recorded types are closed, `addWorkflow` depends on the
result of `sourceTypes` only through: the error, or the source counter, the three sizes of the store and the
recorded types (`StEquiv`).
-/
namespace Tfv.C12P
open Tfv Tfv.C03P Tfv.C16P Tfv.C03C Tfv.C16C Tfv.C04P Tfv.C04C

/-! ## `addWorkflow`, from the result of `sourceTypes` on -/

/-- the resource ↦ node map, as `add_workflow` computes it -/
def nodeMapRaw (exprs : List (Nat × TExpr)) (g5 : GState) : List (Nat × Nat) :=
  exprs.filterMap (fun p =>
    match p.2 with
    | .shared k _ => (g5.sharedNodes.find? (fun q => q.1 == k)).map (fun q => (p.1, q.2))
    | .src id _ _ => (g5.srcNodes.find? (fun q => q.1 == id)).map (fun q => (p.1, q.2))
    | _ => none)

/-- the graph part of `add_workflow`: nodes of the target, links of the stand-in sources, marks, node map -/
def wfGraphStage (G : GLang) (c : GCfg) (w : Wf) (σf : Store) (exprs : List (Nat × TExpr)) (ind : List (Nat × Nat))
    (tgt : Nat) : Except WErr (GState × Nat × List (Nat × Nat)) :=
  match wfNode (wfGLang G σf) c w wfRoot exprs (w.apps.length + 2) (initGraph (wfGLang G σf) c) tgt with
  | .error e => .error e
  | .ok (g1, out) =>
    match w.sources.foldlM (wfMarkStep (wfGLang G σf) c w exprs (w.apps.length + 2)) (ind.foldl (wfLinkStep c) g1) with
    | .error e => .error e
    | .ok g3 => .ok (wfFinish c g3 out, out, nodeMapRaw exprs (wfFinish c g3 out))

/-- `add_workflow` after `source_types` -/
def addWorkflowFrom (P : PLang) (G : GLang) (ops : List OperatorDecl) (c : GCfg) (pt : Bool) (w : Wf) :
    Except WErr (XState × List (Nat × Term)) → Except WErr (GState × Nat × List (Nat × Nat))
  | .error e => .error e
  | .ok (xs0, stypes) =>
    match w.target with
    | .error e => .error e
    | .ok tgt =>
      match wfExpr P ops w pt (w.apps.length + 2)
          { xs := (wfSrcTable w xs0 stypes).1, exprs := (wfSrcTable w xs0 stypes).2 } tgt with
      | .error e => .error e
      | .ok (ws, te) =>
        match fixExpr P.types ws.xs.store te with
        | .error err => .error (.typing err)
        | .ok (σf, te') => wfGraphStage G c w σf (wfFinalExprs ws te') ws.indirection tgt

theorem addWorkflow_eq_from (P : PLang) (G : GLang) (ops : List OperatorDecl) (c : GCfg) (pt : Bool) (w : Wf) :
    addWorkflow P G ops c pt w = addWorkflowFrom P G ops c pt w (sourceTypes P ops w {} w.apps []) := by
  unfold addWorkflow
  cases sourceTypes P ops w {} w.apps [] with
  | error e => rfl
  | ok p =>
    obtain ⟨xs0, stypes⟩ := p
    rfl

/-- the rest of `add_workflow` reads the workflow through `app?`, the sources, the names, the target and the number
of applications only -/
theorem addWorkflowFrom_congr (P : PLang) (G : GLang) (ops : List OperatorDecl) (c : GCfg) (pt : Bool) (w₁ w₂ : Wf)
    (hs : w₁.sources = w₂.sources) (hnm : w₁.names = w₂.names) (ha : ∀ r, w₁.app? r = w₂.app? r)
    (hl : w₁.apps.length = w₂.apps.length) (ht : w₁.target = w₂.target)
    (r : Except WErr (XState × List (Nat × Term))) :
    addWorkflowFrom P G ops c pt w₁ r = addWorkflowFrom P G ops c pt w₂ r := by
  have hN : ∀ (G' : GLang) (exprs : List (Nat × TExpr)) (n : Nat),
      wfNode G' c w₁ wfRoot exprs n = wfNode G' c w₂ wfRoot exprs n :=
    fun G' exprs n => wfNode_congr G' c w₁ w₂ _ exprs hs hnm ha n
  have hM : ∀ (G' : GLang) (exprs : List (Nat × TExpr)) (n : Nat),
      wfMarkStep G' c w₁ exprs n = wfMarkStep G' c w₂ exprs n := by
    intro G' exprs n
    funext g r
    unfold wfMarkStep
    rw [hN]
  have hG : ∀ σf exprs ind tgt, wfGraphStage G c w₁ σf exprs ind tgt = wfGraphStage G c w₂ σf exprs ind tgt := by
    intro σf exprs ind tgt
    unfold wfGraphStage
    rw [hN, hM, hl, hs]
  have hT : ∀ xs0 stypes, wfSrcTable w₁ xs0 stypes = wfSrcTable w₂ xs0 stypes := by
    intro xs0 stypes
    unfold wfSrcTable
    rw [hs]
  cases r with
  | error e => rfl
  | ok p =>
    obtain ⟨xs0, stypes⟩ := p
    unfold addWorkflowFrom
    simp only [ht, hl, hT, hG, wfExpr_congr P ops w₁ w₂ pt hs ha]

/-! ## the graph part reads the store only through `normalize()` -/

theorem wfGraphStage_store (G : GLang) (c : GCfg) (w : Wf) {R : Region} {σ σ' : Store} (a : AgreeC R σ σ')
    (exprs : List (Nat × TExpr)) (hin : ∀ p, p ∈ exprs → ExprIn σ R.S p.2) (ind : List (Nat × Nat)) (tgt : Nat) :
    wfGraphStage G c w σ' exprs ind tgt = wfGraphStage G c w σ exprs ind tgt := by
  have hN : ∀ n, wfNode (wfGLang G σ') c w wfRoot exprs n = wfNode (wfGLang G σ) c w wfRoot exprs n := by
    intro n
    funext g r
    exact wfNode_store G c w wfRoot a exprs hin n g r
  have hM : ∀ n, wfMarkStep (wfGLang G σ') c w exprs n = wfMarkStep (wfGLang G σ) c w exprs n := by
    intro n
    funext g r
    unfold wfMarkStep
    rw [hN]
  have hI : initGraph (wfGLang G σ') c = initGraph (wfGLang G σ) c := rfl
  unfold wfGraphStage
  rw [hN, hM, hI]

theorem wfFinalExprs_in {R : Region} {ws : WState} {σf : Store} {te' : TExpr} (hw : WIn R ws)
    (hl : ws.xs.store.vars.length ≤ σf.vars.length) (he : ExprIn σf R.S te') :
    ∀ p, p ∈ wfFinalExprs ws te' → ExprIn σf R.S p.2 := by
  intro p hp
  unfold wfFinalExprs at hp
  obtain ⟨p0, hp0, e⟩ := List.mem_map.mp hp
  subst e
  show ExprIn σf R.S (setSrcTypes (srcTypesOf te' ws.srcTypes) ((alook (sharedOf te' []) p0.1).getD p0.2))
  apply setSrcTypes_in (srcTypesOf_in te' _ he (fun q hq => termInR_mono hl (hw.srcTypes q hq)))
  unfold alook
  cases hf : (sharedOf te' []).find? (fun q => q.1 == p0.1) with
  | none => exact exprIn_mono hl (hw.exprs p0 hp0)
  | some q => exact sharedOf_in te' [] he (fun _ h => nomatch h) q (List.mem_of_find?_eq_some hf)

/-! ## the equivalence -/

/-- what `add_workflow` needs to know of the result of `source_types`: the error; or the source counter, the sizes
of the store (numbers of variables, constraint sets, constraints) and the recorded types, which are closed -/
def StEquiv (r₁ r₂ : Except WErr (XState × List (Nat × Term))) : Prop :=
  match r₁, r₂ with
  | .error e₁, .error e₂ => e₁ = e₂
  | .ok (s₁, t₁), .ok (s₂, t₂) =>
    s₂.nsrc = s₁.nsrc ∧ s₂.store.vars.length = s₁.store.vars.length ∧
    s₂.store.csets.length = s₁.store.csets.length ∧ s₂.store.constrs.length = s₁.store.constrs.length ∧
    t₂ = t₁ ∧ ∀ q, q ∈ t₁ → q.2.closed = true
  | _, _ => False

/-- **`add_workflow` depends on the result of `source_types` only up to `StEquiv`.** -/
theorem addWorkflowFrom_equiv {P : PLang} (ha : AliasesOk P) {ops : List OperatorDecl} (hops : OpsOkC P.types ops)
    (G : GLang) (c : GCfg) (pt : Bool) (w : Wf) {r₁ r₂ : Except WErr (XState × List (Nat × Term))}
    (h : StEquiv r₁ r₂) : addWorkflowFrom P G ops c pt w r₁ = addWorkflowFrom P G ops c pt w r₂ := by
  cases r₁ with
  | error e₁ =>
    cases r₂ with
    | error e₂ =>
      have h : e₁ = e₂ := h
      rw [h]
    | ok p => exact h.elim
  | ok p₁ =>
    cases r₂ with
    | error e₂ => exact h.elim
    | ok p₂ =>
      obtain ⟨xs0, stypes⟩ := p₁
      obtain ⟨xs0', stypes'⟩ := p₂
      obtain ⟨hn, hv, hk, hcn, ht, hcl⟩ := h
      subst ht
      let R := freshRegion xs0.store
      have a0 : XAgree R xs0 xs0' := ⟨hn, agreeC_fresh hv hk hcn⟩
      obtain ⟨aT, eT, inT⟩ := wfSrcTable_agree hcl w a0
      unfold addWorkflowFrom
      cases w.target with
      | error e => rfl
      | ok tgt =>
        simp only []
        have hws : WAgree R { xs := (wfSrcTable w xs0 stypes').1, exprs := (wfSrcTable w xs0 stypes').2 }
            { xs := (wfSrcTable w xs0' stypes').1, exprs := (wfSrcTable w xs0' stypes').2 } :=
          ⟨aT, eT, rfl, rfl⟩
        have hwin : WIn R { xs := (wfSrcTable w xs0 stypes').1, exprs := (wfSrcTable w xs0 stypes').2 } :=
          ⟨inT, fun _ h => nomatch h⟩
        have hx := wfExpr_agree ha hops w pt R (w.apps.length + 2) _ _ tgt hws hwin
        cases h1 : wfExpr P ops w pt (w.apps.length + 2)
            { xs := (wfSrcTable w xs0 stypes').1, exprs := (wfSrcTable w xs0 stypes').2 } tgt with
        | error e => rw [h1] at hx; rw [hx]
        | ok q =>
          obtain ⟨ws, te⟩ := q
          rw [h1] at hx
          obtain ⟨ws', h2, w1, win1, he1, _⟩ := hx
          rw [h2]
          simp only []
          rcases RelP.cases (fixExpr_agree (L := P.types) te w1.xs.store he1) with
            ⟨e, h3, h4⟩ | ⟨σf, σf', te', h3, h4, af⟩
          · rw [h3, h4]
          · rw [h3, h4]
            simp only []
            obtain ⟨ff, hte'⟩ := fixExpr_frC te w1.xs.store.closed he1 h3
            have hfe : wfFinalExprs ws' te' = wfFinalExprs ws te' := by
              unfold wfFinalExprs
              rw [w1.exprs, w1.srcTypes]
            rw [hfe, w1.indirection]
            exact (wfGraphStage_store G c w af _ (wfFinalExprs_in win1 ff.len hte') _ _).symm

/-! ## the listing order -/

/-- **The graph of a workflow does not depend on the listing order of the tool applications, when `source_types`
gives equivalent results for the two listings.** -/
theorem addWorkflow_perm_equiv {P : PLang} (ha : AliasesOk P) {ops : List OperatorDecl} (hops : OpsOkC P.types ops)
    (G : GLang) (c : GCfg) (pt : Bool) (w₁ w₂ : Wf) (hp : w₁.apps.Perm w₂.apps) (hn : (w₁.apps.map (·.out)).Nodup)
    (hs : w₁.sources = w₂.sources) (hnm : w₁.names = w₂.names)
    (hst : StEquiv (sourceTypes P ops w₁ {} w₁.apps []) (sourceTypes P ops w₂ {} w₂.apps [])) :
    addWorkflow P G ops c pt w₁ = addWorkflow P G ops c pt w₂ := by
  rw [addWorkflow_eq_from, addWorkflow_eq_from, addWorkflowFrom_equiv ha hops G c pt w₁ hst]
  exact addWorkflowFrom_congr P G ops c pt w₁ w₂ hs hnm (app?_perm w₁ w₂ hp hn) hp.length_eq (target_perm w₁ w₂ hp) _

/-! ## the executable check -/

def recBeq : List (Nat × Term) → List (Nat × Term) → Bool
  | [], [] => true
  | a :: as, b :: bs => a.1 == b.1 && Term.beq a.2 b.2 && recBeq as bs
  | _, _ => false

theorem recBeq_sound : ∀ (l₁ l₂ : List (Nat × Term)), recBeq l₁ l₂ = true → l₁ = l₂
  | [], [], _ => rfl
  | [], _ :: _, h => by simp [recBeq] at h
  | _ :: _, [], h => by simp [recBeq] at h
  | a :: as, b :: bs, h => by
    rw [recBeq, Bool.and_eq_true, Bool.and_eq_true, beq_iff_eq] at h
    have h2 := (term_beq_iff _ _).1 h.1.2
    rw [recBeq_sound as bs h.2]
    obtain ⟨a1, a2⟩ := a
    obtain ⟨b1, b2⟩ := b
    simp only at h h2
    rw [h.1.1, h2]

/-- both runs of `source_types` succeed, with the same source counter, stores of the same sizes and the same recorded
types, all closed -/
def stEquivB (r₁ r₂ : Except WErr (XState × List (Nat × Term))) : Bool :=
  match r₁, r₂ with
  | .ok (s₁, t₁), .ok (s₂, t₂) =>
    s₂.nsrc == s₁.nsrc && s₂.store.vars.length == s₁.store.vars.length &&
    s₂.store.csets.length == s₁.store.csets.length && s₂.store.constrs.length == s₁.store.constrs.length &&
    recBeq t₂ t₁ && t₁.all (fun q => q.2.closed)
  | _, _ => false

theorem stEquivB_sound {r₁ r₂ : Except WErr (XState × List (Nat × Term))} (h : stEquivB r₁ r₂ = true) :
    StEquiv r₁ r₂ := by
  unfold stEquivB at h
  split at h
  · rename_i s₁ t₁ s₂ t₂
    simp only [Bool.and_eq_true, beq_iff_eq, List.all_eq_true] at h
    obtain ⟨⟨⟨⟨⟨h1, h2⟩, h3⟩, h4⟩, h5⟩, h6⟩ := h
    exact ⟨h1, h2, h3, h4, recBeq_sound _ _ h5, h6⟩
  · cases h

end Tfv.C12P
