import Tfv.Proofs.LambdaSubst
/-!
# Church–Rosser for beta reduction on the model's terms (parallel reduction, complete developments)
and uniqueness of normal forms
-/
namespace Tfv.C15P
open Tfv Tfv.LamSpec

/-- parallel beta reduction -/
inductive Par : LTerm → LTerm → Prop where
  | op (s : String) : Par (.op s) (.op s)
  | src (k : Nat) : Par (.src k) (.src k)
  | var (i : Nat) : Par (.var i) (.var i)
  | lam {b b' : LTerm} : Par b b' → Par (.lam b) (.lam b')
  | app {f f' x x' : LTerm} : Par f f' → Par x x' → Par (.app f x) (.app f' x')
  | beta {b b' x x' : LTerm} : Par b b' → Par x x' → Par (.app (.lam b) x) (lsub b' x' 0)

theorem Par.refl : ∀ t : LTerm, Par t t
  | .op s => .op s
  | .src k => .src k
  | .var i => .var i
  | .lam b => .lam (Par.refl b)
  | .app f x => .app (Par.refl f) (Par.refl x)

theorem red_par {t t' : LTerm} (h : Red t t') : Par t t' := by
  induction h with
  | beta b x => rw [beta_eq]; exact .beta (Par.refl b) (Par.refl x)
  | appL x _ ih => exact .app ih (Par.refl x)
  | appR f _ ih => exact .app (Par.refl f) ih
  | lam _ ih => exact .lam ih

theorem par_redStar {t t' : LTerm} (h : Par t t') : RedStar t t' := by
  induction h with
  | op s => exact .refl _
  | src k => exact .refl _
  | var i => exact .refl _
  | lam _ ih => exact RedStar.lam ih
  | app _ _ ihf ihx => exact RedStar.app ihf ihx
  | @beta b b' x x' _ _ ihb ihx =>
    refine Star.trans (RedStar.app (RedStar.lam ihb) ihx) ?_
    rw [← beta_eq]
    exact Star.single (Red.beta b' x')

theorem par_lift {t t' : LTerm} (h : Par t t') : ∀ n, Par (llift t n) (llift t' n) := by
  induction h with
  | op s => intro n; exact Par.refl _
  | src k => intro n; exact Par.refl _
  | var i => intro n; exact Par.refl _
  | lam _ ih => intro n; simp only [llift]; exact .lam (ih (n+1))
  | app _ _ ihf ihx => intro n; simp only [llift]; exact .app (ihf n) (ihx n)
  | @beta b b' x x' _ _ ihb ihx =>
    intro n
    rw [lift_sub b' x' n 0 (by omega)]
    simp only [llift]
    exact .beta (ihb (n+1)) (ihx n)

theorem par_sub {t t' : LTerm} (h : Par t t') : ∀ (s s' : LTerm) (n : Nat), Par s s' →
    Par (lsub t s n) (lsub t' s' n) := by
  induction h with
  | op s => intro _ _ n _; exact Par.refl _
  | src k => intro _ _ n _; exact Par.refl _
  | var i =>
    intro s s' n hs
    simp only [lsub]
    split
    · exact Par.refl _
    · split
      · exact hs
      · exact Par.refl _
  | lam _ ih => intro s s' n hs; simp only [lsub]; exact .lam (ih _ _ (n+1) (par_lift hs 0))
  | app _ _ ihf ihx => intro s s' n hs; simp only [lsub]; exact .app (ihf s s' n hs) (ihx s s' n hs)
  | @beta b b' x x' _ _ ihb ihx =>
    intro s s' n hs
    rw [← sub_sub b' x' s' 0 n (by omega)]
    simp only [lsub]
    exact .beta (ihb _ _ (n+1) (par_lift hs 0)) (ihx s s' n hs)

/-- complete development: contract every redex present in the term, simultaneously -/
def cd : LTerm → LTerm
  | .app (.lam u) t => lsub (cd u) (cd t) 0
  | .app (.op s) t => .app (.op s) (cd t)
  | .app (.src s) t => .app (.src s) (cd t)
  | .app (.var s) t => .app (.var s) (cd t)
  | .app (.app f x) t => .app (cd (.app f x)) (cd t)
  | .lam b => .lam (cd b)
  | .op s => .op s
  | .src s => .src s
  | .var s => .var s

theorem cd_app_not_lam {f : LTerm} (x : LTerm) (h : f.isLam = false) :
    cd (.app f x) = .app (cd f) (cd x) := by
  cases f with
  | lam b => cases h
  | op s => simp only [cd]
  | src s => simp only [cd]
  | var s => simp only [cd]
  | app g y => rw [cd]

theorem par_lam_inv {b t : LTerm} (h : Par (.lam b) t) : ∃ b', t = .lam b' ∧ Par b b' := by
  cases h with
  | lam hb => exact ⟨_, rfl, hb⟩

/-- Takahashi's triangle: every parallel reduct of `s` parallel-reduces to the complete development of `s` -/
theorem par_cd {s t : LTerm} (h : Par s t) : Par t (cd s) := by
  induction h with
  | op s => exact Par.refl _
  | src k => exact Par.refl _
  | var i => exact Par.refl _
  | lam _ ih => simp only [cd]; exact .lam ih
  | @app f f' x x' hf hx ihf ihx =>
    rcases isLam_false_or f with hl | ⟨u, rfl⟩
    · rw [cd_app_not_lam x hl]; exact .app ihf ihx
    · obtain ⟨u', rfl, _⟩ := par_lam_inv hf
      simp only [cd] at ihf ⊢
      obtain ⟨_, hc, hu⟩ := par_lam_inv ihf
      cases hc
      exact .beta hu ihx
  | @beta b b' x x' _ _ ihb ihx =>
    simp only [cd]
    exact par_sub ihb _ _ 0 ihx

theorem par_diamond {s t₁ t₂ : LTerm} (h₁ : Par s t₁) (h₂ : Par s t₂) : ∃ u, Par t₁ u ∧ Par t₂ u :=
  ⟨cd s, par_cd h₁, par_cd h₂⟩

/-! ## from the diamond property to confluence -/

theorem star_mono {R S : LTerm → LTerm → Prop} (hRS : ∀ a b, R a b → Star S a b) {a b : LTerm}
    (h : Star R a b) : Star S a b := by
  induction h with
  | refl => exact .refl _
  | step hab _ ih => exact Star.trans (hRS _ _ hab) ih

theorem strip {R : LTerm → LTerm → Prop} (hd : ∀ s t₁ t₂, R s t₁ → R s t₂ → ∃ u, R t₁ u ∧ R t₂ u)
    {a b c : LTerm} (hab : R a b) (hac : Star R a c) : ∃ d, Star R b d ∧ R c d := by
  induction hac generalizing b with
  | refl => exact ⟨b, .refl _, hab⟩
  | step hax _ ih =>
    obtain ⟨u, hbu, hxu⟩ := hd _ _ _ hab hax
    obtain ⟨d, hud, hcd⟩ := ih hxu
    exact ⟨d, .step hbu hud, hcd⟩

theorem diamond_confluent {R : LTerm → LTerm → Prop}
    (hd : ∀ s t₁ t₂, R s t₁ → R s t₂ → ∃ u, R t₁ u ∧ R t₂ u)
    {a b c : LTerm} (hab : Star R a b) (hac : Star R a c) : ∃ d, Star R b d ∧ Star R c d := by
  induction hab generalizing c with
  | refl => exact ⟨c, hac, .refl _⟩
  | step hax _ ih =>
    obtain ⟨u, hxu, hcu⟩ := strip hd hax hac
    obtain ⟨d, hbd, hud⟩ := ih hxu
    exact ⟨d, hbd, .step hcu hud⟩

/-- Church–Rosser: beta reduction is confluent -/
theorem red_confluent {a b c : LTerm} (hab : RedStar a b) (hac : RedStar a c) :
    ∃ d, RedStar b d ∧ RedStar c d := by
  have h₁ : Star Par a b := star_mono (fun _ _ h => Star.single (red_par h)) hab
  have h₂ : Star Par a c := star_mono (fun _ _ h => Star.single (red_par h)) hac
  obtain ⟨d, hbd, hcd⟩ := diamond_confluent (fun _ _ _ => par_diamond) h₁ h₂
  exact ⟨d, star_mono (fun _ _ h => par_redStar h) hbd, star_mono (fun _ _ h => par_redStar h) hcd⟩

/-! ## normal forms -/

theorem noRedex_normal {t : LTerm} (h : noRedex t = true) : Normal t := by
  intro t' hr
  induction hr with
  | beta b x => simp [noRedex, LTerm.isLam] at h
  | appL x _ ih => simp only [noRedex, Bool.and_eq_true] at h; exact ih h.1.2
  | appR f _ ih => simp only [noRedex, Bool.and_eq_true] at h; exact ih h.2
  | lam _ ih => simp only [noRedex] at h; exact ih h

theorem normal_noRedex : ∀ {t : LTerm}, Normal t → noRedex t = true
  | .op _, _ => rfl
  | .src _, _ => rfl
  | .var _, _ => rfl
  | .lam b, h => by
    simp only [noRedex]
    exact normal_noRedex (fun b' hb => h _ (Red.lam hb))
  | .app f x, h => by
    simp only [noRedex, Bool.and_eq_true, Bool.not_eq_true']
    refine ⟨⟨?_, normal_noRedex (fun f' hf => h _ (Red.appL x hf))⟩,
      normal_noRedex (fun x' hx => h _ (Red.appR f hx))⟩
    rcases isLam_false_or f with hl | ⟨b, rfl⟩
    · exact hl
    · exact absurd (Red.beta b x) (h _)

theorem normal_star {t t' : LTerm} (hn : Normal t) (h : RedStar t t') : t' = t := by
  cases h with
  | refl => rfl
  | step hab _ => exact absurd hab (hn _)

/-- a term has at most one normal form -/
theorem normal_form_unique {t r₁ r₂ : LTerm} (h₁ : RedStar t r₁) (h₂ : RedStar t r₂)
    (n₁ : noRedex r₁ = true) (n₂ : noRedex r₂ = true) : r₁ = r₂ := by
  obtain ⟨d, hd₁, hd₂⟩ := red_confluent h₁ h₂
  rw [← normal_star (noRedex_normal n₁) hd₁, normal_star (noRedex_normal n₂) hd₂]

/-! ## an independent applicative-order (innermost) evaluator -/

/-- normalise function part and argument first, then contract -/
def nfInner : Nat → LTerm → Option LTerm
  | 0, _ => none
  | n+1, .app f x =>
    match nfInner n f, nfInner n x with
    | some (.lam b), some x' => nfInner n (LTerm.beta b x')
    | some f', some x' => some (.app f' x')
    | _, _ => none
  | n+1, .lam b => (nfInner n b).map .lam
  | _+1, t => some t

theorem nfInner_spec : ∀ (n : Nat) (t r : LTerm), nfInner n t = some r → RedStar t r ∧ noRedex r = true
  | 0, t, r, h => by rw [nfInner] at h; cases h
  | n+1, .op s, r, h => by
    rw [nfInner] at h
    · cases h; exact ⟨.refl _, rfl⟩
    all_goals (intros; rename_i hh; cases hh)
  | n+1, .src s, r, h => by
    rw [nfInner] at h
    · cases h; exact ⟨.refl _, rfl⟩
    all_goals (intros; rename_i hh; cases hh)
  | n+1, .var s, r, h => by
    rw [nfInner] at h
    · cases h; exact ⟨.refl _, rfl⟩
    all_goals (intros; rename_i hh; cases hh)
  | n+1, .lam b, r, h => by
    rw [nfInner] at h
    cases hb : nfInner n b with
    | none => rw [hb] at h; cases h
    | some b' =>
      rw [hb] at h; cases h
      have := nfInner_spec n b b' hb
      exact ⟨RedStar.lam this.1, this.2⟩
  | n+1, .app f x, r, h => by
    rw [nfInner] at h
    cases hf : nfInner n f with
    | none => rw [hf] at h; cases h
    | some f' =>
      cases hx : nfInner n x with
      | none => rw [hf, hx] at h; cases f' <;> cases h
      | some x' =>
        rw [hf, hx] at h
        have ihf := nfInner_spec n f f' hf
        have ihx := nfInner_spec n x x' hx
        rcases isLam_false_or f' with hl | ⟨b, rfl⟩
        · have : r = .app f' x' := by cases f' <;> first | exact (Option.some.inj h).symm | cases hl
          subst this
          refine ⟨RedStar.app ihf.1 ihx.1, ?_⟩
          simp only [noRedex, hl, ihf.2, ihx.2, Bool.not_false, Bool.and_self]
        · have ihb := nfInner_spec n _ r h
          exact ⟨Star.trans (RedStar.app ihf.1 ihx.1) (.step (Red.beta b x') ihb.1), ihb.2⟩

end Tfv.C15P
