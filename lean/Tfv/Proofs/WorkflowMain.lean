import Tfv.Proofs.WorkflowVisit
/-!
# The node map and the marks of the graph of a workflow (C12, parts 2 and 3)
-/
namespace Tfv

theorem initGraph_sharedNodes (G : GLang) (c : GCfg) : (initGraph G c).sharedNodes = [] := by
  unfold initGraph; split <;> rfl

theorem initGraph_ginv (G : GLang) (c : GCfg) (w : Wf) (T : List (Nat × TExpr)) : GInv w T (initGraph G c) := by
  constructor <;> (intro x hx; rw [initGraph_sharedNodes] at hx; cases hx)

theorem mem_wfNodeMap {T : List (Nat × TExpr)} {g : GState} {r k : Nat} :
    (r, k) ∈ wfNodeMap T g ↔ ∃ e, (r, e) ∈ T ∧ nodeOf g e = some k := by
  unfold wfNodeMap
  rw [List.mem_filterMap]
  constructor
  · rintro ⟨p, hp, h⟩
    cases hn : nodeOf g p.2 with
    | none => rw [hn] at h; cases h
    | some k' =>
      rw [hn] at h
      simp only [Option.map_some, Option.some.injEq, Prod.mk.injEq] at h
      exact ⟨p.2, by rw [← h.1]; exact hp, by rw [← h.2]; exact hn⟩
  · rintro ⟨e, he, hk⟩
    exact ⟨(r, e), he, by simp only [hk, Option.map_some]⟩

theorem wfNodeMap_keys_sublist (T : List (Nat × TExpr)) (g : GState) :
    ((wfNodeMap T g).map (·.1)).Sublist (T.map (·.1)) := by
  unfold wfNodeMap
  induction T with
  | nil => exact List.Sublist.refl _
  | cons p T ih =>
    rw [List.filterMap_cons]
    cases hn : nodeOf g p.2 with
    | none => simp only [Option.map_none, List.map_cons]; exact ih.cons _
    | some k => simp only [Option.map_some, List.map_cons]; exact ih.cons_cons _

theorem wfFinish_step (c : GCfg) (g3 : GState) (out : Nat) : GStep c NotFD AnyQ g3 (wfFinish c g3 out) := by
  unfold wfFinish
  split
  · exact .trans (.add _ _ (by simp [NotFD])) (.add _ _ (by simp [NotFD]))
  · exact .add _ _ (by simp [NotFD])

theorem wfLink_step (c : GCfg) (l : List (Nat × Nat)) (g : GState) : GStep c NotFD AnyQ g (l.foldl (wfLinkStep c) g) := by
  refine GStep.foldl _ _ (fun ga p => ?_) g
  unfold wfLinkStep
  split
  · exact .addFrom _ _ _ true
  · exact .refl _

section
variable {P : PLang} {G : GLang} {ops : List OperatorDecl} {c : GCfg} {pt : Bool} {w : Wf}
  {g : GState} {out : Nat} {m : List (Nat × Nat)} {xs0 : XState} {stypes : List (Nat × Term)} {tgt : Nat}
  {ws : WState} {te : TExpr} {σf : Store} {te' : TExpr} {g1 g3 : GState}

/-- a source of the workflow has a node and is marked as an input -/
def MarkPost (T : List (Nat × TExpr)) (r : Nat) (g : GState) : Prop :=
  ∃ e k, alook T r = some e ∧ nodeOf g e = some k ∧ (wfRoot, Node.tf "input", Node.b k) ∈ g.triples

theorem WfRun.marks_post (run : WfRun P G ops c pt w g out m xs0 stypes tgt ws te σf te' g1 g3)
    (hT : RunTable w tgt (wfFinalExprs ws te')) :
    GStep c NotFD AnyQ (ws.indirection.foldl (wfLinkStep c) g1) g3 ∧
      ∀ r ∈ w.sources, MarkPost (wfFinalExprs ws te') r g3 := by
  refine Wfl.foldlM_post (GStep c NotFD AnyQ) .refl (fun _ _ _ => .trans) _ (MarkPost (wfFinalExprs ws te')) ?_ _ ?_ _ _ run.marks
  · rintro r ga gb s ⟨e, k, he, hk, ht⟩
    exact ⟨e, k, he, s.nodeOf_stable hk, s.triples_mono _ ht⟩
  · intro ga r gb _ hr
    unfold wfMarkStep at hr
    split at hr
    · cases hr
    · rename_i gc k hc
      simp only [Except.ok.injEq] at hr
      subst hr
      obtain ⟨s1, ⟨e, he, hk⟩, _⟩ := wfNode_visit (wfGLang G σf) c w tgt _ hT _ _ _ _ _ hc
      have s2 : GStep c NotFD AnyQ gc (gc.add (wfRoot, .tf "input", .b k)) := .add _ _ (by simp [NotFD])
      exact ⟨.trans s1 s2, e, k, he, s2.nodeOf_stable hk, mem_add.2 (.inr rfl)⟩

/-- from the graph after the target's node has been made to the final graph -/
theorem WfRun.tail_step (run : WfRun P G ops c pt w g out m xs0 stypes tgt ws te σf te' g1 g3)
    (hT : RunTable w tgt (wfFinalExprs ws te')) : GStep c NotFD AnyQ g1 g ∧ GStep c NotFD AnyQ g3 g := by
  rw [run.graph]
  exact ⟨.trans (wfLink_step c _ g1) (.trans (run.marks_post hT).1 (wfFinish_step c g3 out)), wfFinish_step c g3 out⟩

/-- everything reachable from the target has a node once the target's node has been made -/
theorem WfRun.reach_hasNode (run : WfRun P G ops c pt w g out m xs0 stypes tgt ws te σf te' g1 g3)
    (hT : RunTable w tgt (wfFinalExprs ws te')) :
    (∃ e, alook (wfFinalExprs ws te') tgt = some e ∧ nodeOf g1 e = some out) ∧
      ∀ r, SReach w tgt r → HasNode (wfFinalExprs ws te') g1 r := by
  obtain ⟨_, ⟨e, he, hk⟩, hinv⟩ := wfNode_visit (wfGLang G σf) c w tgt _ hT _ _ _ _ _ run.node
  have hg1 := hinv (initGraph_ginv (wfGLang G σf) c w _)
  refine ⟨⟨e, he, hk⟩, ?_⟩
  have key : ∀ x z, SReach w x z → HasNode (wfFinalExprs ws te') g1 x → HasNode (wfFinalExprs ws te') g1 z := by
    intro x z hr
    induction hr with
    | refl x => exact fun h => h
    | @step x y z hxy _ ih =>
      intro hx
      apply ih
      obtain ⟨ex, kx, hex, hkx⟩ := hx
      obtain ⟨hns, a, ha, hy⟩ := hxy
      rcases hT.entry_shape hex with hs | ⟨e0, rfl⟩
      · exact absurd (hT.onlySrcs (x, ex) (alook_some_mem hex) hs) hns
      · exact hg1.inputs x (alook_some_key hkx) hns a ha y hy
  exact fun r hr => key tgt r hr ⟨e, out, he, hk⟩

/-! ## part 3: marks -/

theorem WfRun.output_marked (run : WfRun P G ops c pt w g out m xs0 stypes tgt ws te σf te' g1 g3)
    (hT : RunTable w tgt (wfFinalExprs ws te')) :
    (wfRoot, Node.tf "output", Node.b out) ∈ g.triples ∧ (tgt, out) ∈ m := by
  constructor
  · rw [run.graph]; unfold wfFinish
    split
    · exact mem_add.2 (.inl (mem_add.2 (.inr rfl)))
    · exact mem_add.2 (.inr rfl)
  · obtain ⟨⟨e, he, hk⟩, _⟩ := run.reach_hasNode hT
    rw [run.map, mem_wfNodeMap]
    exact ⟨e, alook_some_mem he, (run.tail_step hT).1.nodeOf_stable hk⟩

theorem WfRun.inputs_marked (run : WfRun P G ops c pt w g out m xs0 stypes tgt ws te σf te' g1 g3)
    (hT : RunTable w tgt (wfFinalExprs ws te')) :
    ∀ r ∈ w.sources, ∃ k, (r, k) ∈ m ∧ (wfRoot, Node.tf "input", Node.b k) ∈ g.triples := by
  intro r hr
  obtain ⟨e, k, he, hk, ht⟩ := (run.marks_post hT).2 r hr
  have s := (run.tail_step hT).2
  refine ⟨k, ?_, s.triples_mono _ ht⟩
  rw [run.map, mem_wfNodeMap]
  exact ⟨e, alook_some_mem he, s.nodeOf_stable hk⟩

theorem WfRun.class_marked (run : WfRun P G ops c pt w g out m xs0 stypes tgt ws te σf te' g1 g3)
    (hc : c.withClasses = true) : (wfRoot, Node.rdf "type", Node.tf "Transformation") ∈ g.triples := by
  rw [run.graph]; unfold wfFinish
  rw [if_pos hc]
  exact mem_add.2 (.inr rfl)

/-! ## part 2: the node map -/

theorem WfRun.nodemap_nodup (run : WfRun P G ops c pt w g out m xs0 stypes tgt ws te σf te' g1 g3)
    (hT : RunTable w tgt (wfFinalExprs ws te')) : (m.map (·.1)).Nodup := by
  rw [run.map]
  exact (wfNodeMap_keys_sublist _ _).nodup hT.inv.nodup

theorem WfRun.nodemap_origin (run : WfRun P G ops c pt w g out m xs0 stypes tgt ws te σf te' g1 g3)
    (hT : RunTable w tgt (wfFinalExprs ws te')) (r k : Nat) (h : (r, k) ∈ m) :
    (r ∉ w.sources ∧ SReach w tgt r ∧ (r, k) ∈ g.sharedNodes) ∨ (r ∈ w.sources ∧ ∃ id, (id, k) ∈ g.srcNodes) := by
  rw [run.map, mem_wfNodeMap] at h
  obtain ⟨e, he, hk⟩ := h
  have hal := alook_of_mem_nodup hT.inv.nodup he
  rcases hT.entry_shape hal with hs | ⟨e0, rfl⟩
  · obtain ⟨id, l, t, rfl⟩ := hs
    exact .inr ⟨hT.onlySrcs _ he ⟨_, _, _, rfl⟩, id, alook_some_mem hk⟩
  · have hns := hT.shared_not_source hal
    refine .inl ⟨hns, ?_, alook_some_mem hk⟩
    rcases hT.reach _ he with h | h
    · exact absurd h hns
    · exact h

theorem WfRun.nodemap_total (run : WfRun P G ops c pt w g out m xs0 stypes tgt ws te σf te' g1 g3)
    (hT : RunTable w tgt (wfFinalExprs ws te')) (r : Nat) (h : r ∈ w.sources ∨ SReach w tgt r) : ∃ k, (r, k) ∈ m := by
  rcases h with h | h
  · obtain ⟨k, hk, _⟩ := run.inputs_marked hT r h
    exact ⟨k, hk⟩
  · obtain ⟨e, k, he, hk⟩ := (run.reach_hasNode hT).2 r h
    refine ⟨k, ?_⟩
    rw [run.map, mem_wfNodeMap]
    exact ⟨e, alook_some_mem he, (run.tail_step hT).1.nodeOf_stable hk⟩

/-- the resources with an entry in the memo table are the sources and what the target reaches -/
theorem WfRun.table_keys (run : WfRun P G ops c pt w g out m xs0 stypes tgt ws te σf te' g1 g3)
    (hT : RunTable w tgt (wfFinalExprs ws te')) (r : Nat) :
    r ∈ (wfFinalExprs ws te').map (·.1) ↔ (r ∈ w.sources ∨ SReach w tgt r) := by
  constructor
  · intro h
    obtain ⟨p, hp, rfl⟩ := List.mem_map.1 h
    exact hT.reach p hp
  · rintro (h | h)
    · obtain ⟨e, he, _⟩ := hT.srcs r h
      exact alook_some_key he
    · obtain ⟨e, k, he, _⟩ := (run.reach_hasNode hT).2 r h
      exact alook_some_key he

end

/-! ## the same, from the equation `addWorkflow … = .ok (g, out, m)` -/

theorem addWorkflow_nodemap_functional (P : PLang) (G : GLang) (ops : List OperatorDecl) (c : GCfg) (pt : Bool) (w : Wf)
    (g : GState) (out : Nat) (m : List (Nat × Nat)) (hn : w.sources.Nodup)
    (h : addWorkflow P G ops c pt w = .ok (g, out, m)) :
    (m.map (·.1)).Nodup ∧ ∀ r k, (r, k) ∈ m →
      (r ∉ w.sources ∧ (r, k) ∈ g.sharedNodes) ∨ (r ∈ w.sources ∧ ∃ id, (id, k) ∈ g.srcNodes) := by
  obtain ⟨xs0, stypes, tgt, ws, te, σf, te', g1, g3, run⟩ := addWorkflow_run P G ops c pt w g out m h
  have hT := run.table hn
  refine ⟨run.nodemap_nodup hT, fun r k hrk => ?_⟩
  rcases run.nodemap_origin hT r k hrk with ⟨h1, _, h3⟩ | h2
  · exact .inl ⟨h1, h3⟩
  · exact .inr h2

theorem addWorkflow_nodemap_total (P : PLang) (G : GLang) (ops : List OperatorDecl) (c : GCfg) (pt : Bool) (w : Wf)
    (g : GState) (out : Nat) (m : List (Nat × Nat)) (hn : w.sources.Nodup)
    (h : addWorkflow P G ops c pt w = .ok (g, out, m)) :
    ∃ tgt, w.target = .ok tgt ∧ ∀ r, (∃ k, (r, k) ∈ m) ↔ (r ∈ w.sources ∨ SReach w tgt r) := by
  obtain ⟨xs0, stypes, tgt, ws, te, σf, te', g1, g3, run⟩ := addWorkflow_run P G ops c pt w g out m h
  have hT := run.table hn
  refine ⟨tgt, run.target, fun r => ⟨?_, run.nodemap_total hT r⟩⟩
  rintro ⟨k, hk⟩
  rcases run.nodemap_origin hT r k hk with ⟨_, h2, _⟩ | ⟨h1, _⟩
  · exact .inr h2
  · exact .inl h1

theorem addWorkflow_output_marked (P : PLang) (G : GLang) (ops : List OperatorDecl) (c : GCfg) (pt : Bool) (w : Wf)
    (g : GState) (out : Nat) (m : List (Nat × Nat)) (hn : w.sources.Nodup)
    (h : addWorkflow P G ops c pt w = .ok (g, out, m)) :
    (wfRoot, Node.tf "output", Node.b out) ∈ g.triples ∧ ∃ tgt, w.target = .ok tgt ∧ (tgt, out) ∈ m := by
  obtain ⟨xs0, stypes, tgt, ws, te, σf, te', g1, g3, run⟩ := addWorkflow_run P G ops c pt w g out m h
  have hT := run.table hn
  exact ⟨(run.output_marked hT).1, tgt, run.target, (run.output_marked hT).2⟩

theorem addWorkflow_inputs_marked (P : PLang) (G : GLang) (ops : List OperatorDecl) (c : GCfg) (pt : Bool) (w : Wf)
    (g : GState) (out : Nat) (m : List (Nat × Nat)) (hn : w.sources.Nodup)
    (h : addWorkflow P G ops c pt w = .ok (g, out, m)) :
    ∀ r ∈ w.sources, ∃ k, (r, k) ∈ m ∧ (wfRoot, Node.tf "input", Node.b k) ∈ g.triples := by
  obtain ⟨xs0, stypes, tgt, ws, te, σf, te', g1, g3, run⟩ := addWorkflow_run P G ops c pt w g out m h
  exact run.inputs_marked (run.table hn)

theorem addWorkflow_class (P : PLang) (G : GLang) (ops : List OperatorDecl) (c : GCfg) (pt : Bool) (w : Wf)
    (g : GState) (out : Nat) (m : List (Nat × Nat)) (hc : c.withClasses = true)
    (h : addWorkflow P G ops c pt w = .ok (g, out, m)) :
    (wfRoot, Node.rdf "type", Node.tf "Transformation") ∈ g.triples := by
  obtain ⟨xs0, stypes, tgt, ws, te, σf, te', g1, g3, run⟩ := addWorkflow_run P G ops c pt w g out m h
  exact run.class_marked hc

end Tfv
