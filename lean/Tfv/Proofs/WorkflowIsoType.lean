import Tfv.Proofs.WorkflowIsoExpr
/-!
# The type part of the graph (`addType`, `addSupertypesRec`, `annotateType`) under a renaming of the blank-node supply
-/
namespace Tfv

/-- two results: the same error, or two values related by `Q` -/
def IsoRelX {ε α β : Type} (Q : α → β → Prop) : Except ε α → Except ε β → Prop
  | .ok x, r' => ∃ x', r' = .ok x' ∧ Q x x'
  | .error e, r' => r' = .error e

theorem foldlM_relX {ε α β γ : Type} {f : β → α → Except ε β} {f' : γ → α → Except ε γ} {Q : β → γ → Prop} :
    ∀ (l : List α) (b : β) (b' : γ), (∀ x, x ∈ l → ∀ c c', Q c c' → IsoRelX Q (f c x) (f' c' x)) → Q b b' →
      IsoRelX Q (l.foldlM f b) (l.foldlM f' b')
  | [], b, b', _, hq => ⟨b', rfl, hq⟩
  | x :: l, b, b', h, hq => by
    rw [List.foldlM_cons, List.foldlM_cons]
    have h1 := h x List.mem_cons_self b b' hq
    cases hx : f b x with
    | error e =>
      rw [hx] at h1
      have h1' : f' b' x = .error e := h1
      rw [h1']
      exact rfl
    | ok c =>
      rw [hx] at h1
      obtain ⟨c', hc', hq'⟩ := h1
      rw [hc']
      exact foldlM_relX l c c' (fun y hy => h y (List.mem_cons_of_mem _ hy)) hq'

variable {ρ : Nat → Nat}

theorem typeUri_fixed (G : GLang) (t : Term) (n : Node) (h : typeUri G t = .ok n) : renN ρ n = n := by
  unfold typeUri at h
  simp only at h
  split at h
  split at h
  · simp only [Except.ok.injEq] at h
    subst h
    split <;> rfl
  · split at h
    · simp only [Except.ok.injEq] at h
      subst h
      rfl
    · cases h

theorem opUri_fixed (G : GLang) (o : Nat) : renN ρ (opUri G o) = opUri G o := by
  unfold opUri
  split <;> rfl

theorem lookupType_ren (ρ : Nat → Nat) (m : List (Term × Node)) (t : Term) :
    lookupType (m.map (fun p => (p.1, renN ρ p.2))) t = (lookupType m t).map (renN ρ) := by
  unfold lookupType
  induction m with
  | nil => rfl
  | cons x xs ih =>
    rw [List.map_cons, List.find?_cons, List.find?_cons]
    show Option.map _ (match Term.beq x.1 t with | true => some (x.1, renN ρ x.2) | false => _) = _
    cases Term.beq x.1 t with
    | true => rfl
    | false => exact ih

/-! ## `addSupertypesRec` -/

def isoSupStep (G : GLang) (n : Nat) (ref : Node) (g : GState) (s : Ty) : Except GErr GState :=
  match typeUri G s.toTerm with
  | .error e => Except.error e
  | .ok sn => addSupertypesRec G n (g.add (ref, .rdfs "subClassOf", sn)) s

theorem addSupertypesRec_succ (G : GLang) (n : Nat) (g : GState) (t : Ty) :
    addSupertypesRec G (n + 1) g t =
      if memTy t g.supertyped then .ok g else
      match typeUri G t.toTerm with
      | .error e => .error e
      | .ok ref =>
        match (dedupTy (langSucc G.types G.cfg G.canon (G.canon.length + 2) true t false)).foldlM (isoSupStep G n ref) g with
        | .error e => .error e
        | .ok g' => .ok { g' with supertyped := g'.supertyped ++ [t] } := by
  rw [addSupertypesRec]; rfl

theorem addSupertypesRec_ren (hρ : Function.Injective ρ) (G : GLang) :
    ∀ (n : Nat) (g g' : GState) (t : Ty), SRen ρ g g' →
      IsoRelX (SRen ρ) (addSupertypesRec G n g t) (addSupertypesRec G n g' t) := by
  intro n
  induction n with
  | zero =>
    intro g g' t h
    rw [addSupertypesRec, addSupertypesRec]
    exact ⟨g', rfl, h⟩
  | succ n ih =>
    intro g g' t h
    rw [addSupertypesRec_succ, addSupertypesRec_succ, h.supertyped]
    split
    · exact ⟨g', rfl, h⟩
    · cases hu : typeUri G t.toTerm with
      | error e => exact rfl
      | ok ref =>
        simp only
        have hfold := foldlM_relX (Q := SRen ρ) (f := isoSupStep G n ref) (f' := isoSupStep G n ref)
          (dedupTy (langSucc G.types G.cfg G.canon (G.canon.length + 2) true t false)) g g'
          (fun s _ ga ga' hga => by
            unfold isoSupStep
            cases hs : typeUri G s.toTerm with
            | error e => exact rfl
            | ok sn =>
              simp only
              have ha := hga.stepAdd hρ (ref, .rdfs "subClassOf", sn)
              have e : renT ρ (ref, Node.rdfs "subClassOf", sn) = (ref, Node.rdfs "subClassOf", sn) := by
                show (renN ρ ref, renN ρ (.rdfs "subClassOf"), renN ρ sn) = _
                rw [typeUri_fixed G _ _ hu, typeUri_fixed G _ _ hs]; rfl
              rw [e] at ha
              exact ih _ _ s ha) h
        cases hr : (dedupTy (langSucc G.types G.cfg G.canon (G.canon.length + 2) true t false)).foldlM (isoSupStep G n ref) g with
        | error e =>
          rw [hr] at hfold
          have hfold' : (dedupTy (langSucc G.types G.cfg G.canon (G.canon.length + 2) true t false)).foldlM
            (isoSupStep G n ref) g' = .error e := hfold
          rw [hfold']
          exact rfl
        | ok g1 =>
          rw [hr] at hfold
          obtain ⟨g1', hg1', h1⟩ := hfold
          rw [hg1']
          exact ⟨_, rfl, ⟨h1.triples, h1.srcNodes, h1.sharedNodes, h1.internals, h1.fd, h1.supply, h1.typeNodes,
            by simp [h1.supertyped]⟩⟩

/-! ## `addType` -/

/-- the node of a type that is not registered yet -/
def tyNode (G : GLang) (c : GCfg) (g : GState) (t : Term) : Except GErr (GState × Node) :=
  match typeUri G t with
  | .ok node => .ok (g, node)
  | .error .nonCanonical =>
    if c.withNoncanonicalTypes then
      let (g1, k) := g.fresh
      .ok (g1, .b k)
    else .error .nonCanonical
  | .error e => .error e

def tyParams (G : GLang) (c : GCfg) (n : Nat) (g : GState) (node : Node) (t : Term) : Except GErr GState :=
  match t with
  | .app o args =>
    if arityOf G.types o > 0 && c.withTypeParameters then
      let g := g.add (node, .rdfs "subClassOf", opUri G o)
      addTypeParams G c n g node 1 args
    else .ok g
  | .var _ => .ok g

def tySup (G : GLang) (c : GCfg) (g : GState) (t : Term) : Except GErr GState :=
  if c.withSupertypeClasses && inCanon G t then addSupertypesRec G (G.canon.length + 2) g t.generalize else .ok g

theorem addType_succ (G : GLang) (c : GCfg) (n : Nat) (g : GState) (t : Term) :
    addType G c (n + 1) g t =
      match lookupType g.typeNodes t with
      | some node => .ok (g, node)
      | none =>
        match tyNode G c g t with
        | .error e => .error e
        | .ok (g1, node) =>
          match tyParams G c n (if c.withClasses then g1.add (node, .rdf "type", .tf "Type") else g1) node t with
          | .error e => .error e
          | .ok g2 =>
            match tySup G c g2 t with
            | .error e => .error e
            | .ok g3 => .ok ({ g3 with typeNodes := g3.typeNodes ++ [(t, node)] }, node) := by
  rw [addType]; rfl

theorem addTypeParams_cons (G : GLang) (c : GCfg) (n : Nat) (g : GState) (node : Node) (i : Nat) (p : Term)
    (ps : List Term) :
    addTypeParams G c (n + 1) g node i (p :: ps) =
      match addType G c n g p with
      | .error e => .error e
      | .ok (g1, pn) => addTypeParams G c n (g1.add (node, .rdf ("_" ++ toString i), pn)) node (i + 1) ps := by
  rw [addTypeParams]; rfl

/-- a state and a node, renamed -/
def SRenN (ρ : Nat → Nat) (p p' : GState × Node) : Prop := SRen ρ p.1 p'.1 ∧ p'.2 = renN ρ p.2

theorem tyNode_ren (G : GLang) (c : GCfg) {g g' : GState} (h : SRen ρ g g') (t : Term) :
    IsoRelX (SRenN ρ) (tyNode G c g t) (tyNode G c g' t) := by
  unfold tyNode
  cases hu : typeUri G t with
  | ok node => exact ⟨_, rfl, h, (typeUri_fixed G t node hu).symm⟩
  | error e =>
    cases e with
    | nonCanonical =>
      simp only
      split
      · obtain ⟨hf, hn⟩ := h.stepFresh
        exact ⟨_, rfl, hf, by show Node.b g'.fresh.2 = renN ρ (.b g.fresh.2); rw [hn]; rfl⟩
      · exact rfl
    | unexpectedVariable => exact rfl
    | internal s => exact rfl

theorem addType_ren (hρ : Function.Injective ρ) (G : GLang) (c : GCfg) : ∀ (n : Nat),
    (∀ (g g' : GState) (t : Term), SRen ρ g g' → IsoRelX (SRenN ρ) (addType G c n g t) (addType G c n g' t)) ∧
    (∀ (g g' : GState) (node : Node) (i : Nat) (ps : List Term), SRen ρ g g' →
      IsoRelX (SRen ρ) (addTypeParams G c n g node i ps) (addTypeParams G c n g' (renN ρ node) i ps)) := by
  intro n
  induction n with
  | zero =>
    constructor
    · intro g g' t _; rw [addType, addType]; exact rfl
    · intro g g' node i ps _; rw [addTypeParams, addTypeParams]; exact rfl
  | succ n ih =>
    obtain ⟨ihT, ihP⟩ := ih
    constructor
    · intro g g' t h
      rw [addType_succ, addType_succ, h.typeNodes, lookupType_ren]
      cases hl : lookupType g.typeNodes t with
      | some node => exact ⟨_, rfl, h, rfl⟩
      | none =>
        simp only [Option.map_none]
        have h1 := tyNode_ren G c h t
        cases hn : tyNode G c g t with
        | error e =>
          rw [hn] at h1
          have h1' : tyNode G c g' t = .error e := h1
          rw [h1']; exact rfl
        | ok p1 =>
          obtain ⟨g1, node⟩ := p1
          rw [hn] at h1
          obtain ⟨⟨g1', node'⟩, hp', hg1, hnode⟩ := h1
          simp only at hg1 hnode
          subst hnode
          rw [hp']
          simp only
          have hcl : SRen ρ (if c.withClasses then g1.add (node, .rdf "type", .tf "Type") else g1)
              (if c.withClasses then g1'.add (renN ρ node, .rdf "type", .tf "Type") else g1') := by
            split
            · exact hg1.stepAdd hρ (node, .rdf "type", .tf "Type")
            · exact hg1
          have h2 : IsoRelX (SRen ρ)
              (tyParams G c n (if c.withClasses then g1.add (node, .rdf "type", .tf "Type") else g1) node t)
              (tyParams G c n (if c.withClasses then g1'.add (renN ρ node, .rdf "type", .tf "Type") else g1')
                (renN ρ node) t) := by
            unfold tyParams
            cases t with
            | var v => exact ⟨_, rfl, hcl⟩
            | app o args =>
              simp only
              split
              · have ha := hcl.stepAdd hρ (node, .rdfs "subClassOf", opUri G o)
                have e : renT ρ (node, Node.rdfs "subClassOf", opUri G o)
                    = (renN ρ node, Node.rdfs "subClassOf", opUri G o) := by
                  show (renN ρ node, renN ρ (.rdfs "subClassOf"), renN ρ (opUri G o)) = _
                  rw [opUri_fixed]; rfl
                rw [e] at ha
                exact ihP _ _ node 1 args ha
              · exact ⟨_, rfl, hcl⟩
          cases hp2 : tyParams G c n (if c.withClasses then g1.add (node, .rdf "type", .tf "Type") else g1) node t with
          | error e =>
            rw [hp2] at h2
            have h2' : tyParams G c n (if c.withClasses then g1'.add (renN ρ node, .rdf "type", .tf "Type") else g1')
                (renN ρ node) t = .error e := h2
            rw [h2']; exact rfl
          | ok g2 =>
            rw [hp2] at h2
            obtain ⟨g2', hg2', hg2⟩ := h2
            rw [hg2']
            simp only
            have h3 : IsoRelX (SRen ρ) (tySup G c g2 t) (tySup G c g2' t) := by
              unfold tySup
              split
              · exact addSupertypesRec_ren hρ G _ _ _ _ hg2
              · exact ⟨_, rfl, hg2⟩
            cases hp3 : tySup G c g2 t with
            | error e =>
              rw [hp3] at h3
              have h3' : tySup G c g2' t = .error e := h3
              rw [h3']; exact rfl
            | ok g3 =>
              rw [hp3] at h3
              obtain ⟨g3', hg3', hg3⟩ := h3
              rw [hg3']
              exact ⟨_, rfl, ⟨hg3.triples, hg3.srcNodes, hg3.sharedNodes, hg3.internals, hg3.fd, hg3.supply,
                by simp [hg3.typeNodes], hg3.supertyped⟩, rfl⟩
    · intro g g' node i ps h
      cases ps with
      | nil => rw [addTypeParams, addTypeParams]; exact ⟨_, rfl, h⟩
      | cons p ps =>
        rw [addTypeParams_cons, addTypeParams_cons]
        have h1 := ihT g g' p h
        cases hp : addType G c n g p with
        | error e =>
          rw [hp] at h1
          have h1' : addType G c n g' p = .error e := h1
          rw [h1']; exact rfl
        | ok p1 =>
          obtain ⟨g1, pn⟩ := p1
          rw [hp] at h1
          obtain ⟨⟨g1', pn'⟩, hp', hg1, hpn⟩ := h1
          simp only at hg1 hpn
          subst hpn
          rw [hp']
          simp only
          have ha := hg1.stepAdd hρ (node, .rdf ("_" ++ toString i), pn)
          exact ihP _ _ node (i + 1) ps ha

end Tfv
