import Tfv.Model.Infer
import Tfv.Model.InferSched
import Tfv.Model.Sexp
/-!
Canonical rendering of inference results for the line protocol: the followed
term with variables numbered by first occurrence, then bounds per variable,
then the (sorted) set of constraints attached to the variables reachable from
the term. Nothing here is part of a theorem; both sides of the correspondence
check print the same form.
-/
namespace Tfv

def optNat (o : Option Nat) : String := match o with | some n => toString n | none => "-"

/-- first-occurrence numbering of the unbound variables of a term -/
partial def collectVars (σ : Store) (t : Term) (acc : List Nat) : List Nat :=
  match followT σ t with
  | .var v => if acc.contains v then acc else acc ++ [v]
  | .app _ args => args.foldl (fun acc t => collectVars σ t acc) acc

partial def renderTerm (σ : Store) (names : List Nat) (t : Term) : String :=
  match followT σ t with
  | .var v =>
    match names.idxOf? v with
    | some k => s!"(v {k})"
    | none =>
      let i := getVar σ v
      s!"(u {optNat i.lower} {optNat i.upper} {if i.wildcard then "W" else "-"})"
  | .app o [] => s!"({o})"
  | .app o args => "(" ++ toString o ++ " " ++ " ".intercalate (args.map (renderTerm σ names)) ++ ")"

def renderConstr (σ : Store) (names : List Nat) : Constr → String
  | .sub r t s f => s!"(sub {renderTerm σ names r} {renderTerm σ names t} {if s then "S" else "N"} {if f then "F" else "P"})"
  | .elim r alts f => "(elim " ++ renderTerm σ names r ++ " [" ++ " ".intercalate (alts.map (renderTerm σ names)) ++ "] " ++ (if f then "F" else "P") ++ ")"

def renderResult (σ : Store) (t : Term) : String :=
  let names := collectVars σ t []
  let body := renderTerm σ names t
  let bounds := names.map (fun v =>
    let i := getVar σ v
    s!"[{optNat i.lower} {optNat i.upper} {if i.wildcard then "W" else "-"}]")
  let vars := varsOfTerms σ [t]
  let cids := vars.foldl (fun acc v => unionSorted acc (getCset σ (getVar σ v).cset)) []
  let cs := (cids.map (fun c => renderConstr σ names (getConstr σ c))).mergeSort (fun a b => a ≤ b)
  body ++ " " ++ "".intercalate bounds ++ " {" ++ " ".intercalate cs ++ "}"

def showErr : Err → String
  | .typeMismatch => "TypeMismatch"
  | .subtypeMismatch => "SubtypeMismatch"
  | .functionApplication => "FunctionApplicationError"
  | .recursiveType => "RecursiveTypeError"
  | .constraintViolation => "ConstraintViolation"
  | .internal site => "Internal(" ++ site ++ ")"
  | .outOfFuel => "OutOfFuel"

namespace Sexp
partial def term? : Sexp → Option Term
  | .list [.atom "v", n] => (nat? n).map Term.var
  | .list (.atom o :: args) => do
      let o ← o.toNat?
      let as ← args.mapM term?
      pure (.app o as)
  | _ => none

def cast? : Sexp → Option CAst
  | .list [.atom "sub", r, t, .atom s] => do pure (.sub (← term? r) (← term? t) (s == "S"))
  | .list (.atom "elim" :: r :: alts) => do pure (.elim (← term? r) (← alts.mapM term?))
  | _ => none

def schema? : Sexp → Option Schema
  | .list [.atom "schema", nv, nw, body, .list cs] => do
      pure ⟨← nat? nv, ← nat? nw, ← term? body, ← cs.mapM cast?⟩
  | _ => none

def arg? : Sexp → Option (Nat × Term)
  | .list [.atom "arg", nw, t] => do pure (← nat? nw, ← term? t)
  | _ => none
end Sexp

def engineFuel : Nat := 4000

/-- instantiate a schema and apply it to the arguments in turn; one rendering per step -/
def runInfer (L : Lang) (s : Schema) (args : List (Nat × Term)) : String :=
  match instantiate L engineFuel {} s with
  | .error e => s!"E@0:{showErr e}"
  | .ok (σ, f) =>
    let rec go (σ : Store) (f : Term) (k : Nat) (outs : List String) : List (Nat × Term) → String
      | [] => " | ".intercalate outs
      | (nw, a) :: rest =>
        let base := σ.vars.length
        let σ1 := allocVars σ 0 nw
        match applyT L engineFuel σ1 f (a.shift base) with
        | .error e => " | ".intercalate (outs ++ [s!"E@{k}:{showErr e}"])
        | .ok (σ2, r) => go σ2 r (k + 1) (outs ++ [renderResult σ2 r]) rest
    go σ f 1 [renderResult σ f] args

/-- the same run with a re-check order imposed (C18) -/
def runInferS (L : Lang) (ord : List Nat → List Nat) (s : Schema) (args : List (Nat × Term)) : String :=
  match instantiateS L ord engineFuel {} s with
  | .error e => s!"E@0:{showErr e}"
  | .ok (σ, f) =>
    let rec go (σ : Store) (f : Term) (k : Nat) (outs : List String) : List (Nat × Term) → String
      | [] => " | ".intercalate outs
      | (nw, a) :: rest =>
        let base := σ.vars.length
        let σ1 := allocVars σ 0 nw
        match applyTS L ord engineFuel σ1 f (a.shift base) with
        | .error e => " | ".intercalate (outs ++ [s!"E@{k}:{showErr e}"])
        | .ok (σ2, r) => go σ2 r (k + 1) (outs ++ [renderResult σ2 r]) rest
    go σ f 1 [renderResult σ f] args

end Tfv
