import Tfv.Model.Expr
import Tfv.Spec.Sat
import Tfv.Spec.SatChain
/-!
# Specification: a typed expression is well typed at every application node

`WellTyped L ρ e`: under the valuation `ρ` of the type variables, every application node
`f x : t` of the tree `e` has a function part whose type is `p ** t` with the argument's type
a subtype of `p` (or the function part has type `Top`, and so has the node).
`TypedIn L σ e`: the types written in the tree are well-formed terms of the store `σ`, and the
tree is well typed under *every* solution of `σ`.
-/
namespace Tfv

/-- every application node is well typed under `ρ`; leaves carry no obligation, a shared
expression object is transparent -/
def WellTyped (L : Lang) (ρ : Val) : TExpr → Prop
  | .src _ _ _ => True
  | .op _ _ => True
  | .app f x t => WellTyped L ρ f ∧ WellTyped L ρ x ∧
      ((∃ p, den ρ f.ty = .app FUN [p, den ρ t] ∧ Sub L (den ρ x.ty) p) ∨
       (den ρ f.ty = .app TOP [] ∧ den ρ t = .app TOP []))
  | .shared _ e => WellTyped L ρ e

/-- `SubExpr a e`: `a` is a node of the tree `e` -/
inductive SubExpr : TExpr → TExpr → Prop
  | refl (e : TExpr) : SubExpr e e
  | fn {a f x : TExpr} {t : Term} : SubExpr a f → SubExpr a (.app f x t)
  | arg {a f x : TExpr} {t : Term} : SubExpr a x → SubExpr a (.app f x t)
  | shared {a e : TExpr} {k : Nat} : SubExpr a e → SubExpr a (.shared k e)

/-- the type of every node is a well-formed term of the store -/
def okExpr (L : Lang) (σ : Store) : TExpr → Bool
  | .src _ _ t => okTerm L σ t
  | .op _ t => okTerm L σ t
  | .app f x t => okExpr L σ f && okExpr L σ x && okTerm L σ t
  | .shared _ e => okExpr L σ e

/-- the tree lives in the store `σ` and is well typed under every solution of `σ` -/
structure TypedIn (L : Lang) (σ : Store) (e : TExpr) : Prop where
  ok : okExpr L σ e = true
  wt : ∀ ρ, Sat L ρ σ → WellTyped L ρ e

/-- the store invariant of the constraint-free engine -/
def GoodStore (L : Lang) (σ : Store) : Prop := OkStore L σ ∧ NoConstraints σ

/-- operator declarations in scope: no constraints, bodies well formed over the schema's variables -/
def OpsOk (L : Lang) (ops : List OperatorDecl) : Prop :=
  ∀ d ∈ ops, d.schema.constraints = [] ∧ okTermN L (d.schema.nvars + d.schema.nwild) d.schema.body = true

/-- type aliases in scope: bodies well formed over the alias' parameters -/
def AliasesOk (P : PLang) : Prop :=
  ∀ a ∈ P.aliases, okTermN P.types a.arity a.body = true

end Tfv
