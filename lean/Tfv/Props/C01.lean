import Tfv.Model
namespace Tfv.C01
theorem placeholder : True := trivial
end Tfv.C01
