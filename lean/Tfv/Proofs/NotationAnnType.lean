import Tfv.Proofs.TypeText
/-!
# The in-line mode of the type parser on printed types (for C13, annotations `e : T`)

After a `:` the expression parser hands the token stream to `parseTypeLoop` with `consumeAll = false`:
the type parser stops as soon as `inlineDone` holds (the entry above the bottom mark is a finished type).
This file proves that, started on the printed form `typeToks T` of a printable type followed by anything,
the in-line parser stops exactly at the end of the printed form and returns `T`:

  `inline_typeToks : parseTypeLoop P false vb {} (typeToks P.types T ++ rest) = .ok (T.toTerm, 0, rest)`

The proof mirrors `TypeText.parsesTy_of_printable` (consume-all mode) with the extra obligation that
`inlineDone` is false after every token but the last; this is the invariant `Guard`: the entry above the
bottom mark is not a type, and the bracket level is at least one.
-/
namespace Tfv.NotationAnn
open Tfv Tfv.TypeText

/-! ## single steps in in-line mode -/

theorem istep (P : PLang) (vb : Nat) (s s' : TState) (tok : String) (rest : List String)
    (hc : s.comment = false) (h1 : tok ≠ "\n") (h2 : tok ≠ "#")
    (hs : typeStep P vb s tok = .ok s') (hd : inlineDone s' = .ok false) :
    parseTypeLoop P false vb s (tok :: rest) = parseTypeLoop P false vb s' rest := by
  rw [parseTypeLoop]
  simp [hc, h1, h2, hs, hd]

theorem istep_done (P : PLang) (vb : Nat) (s s' : TState) (tok : String) (rest : List String) (t : Term) (k : Nat)
    (hc : s.comment = false) (h1 : tok ≠ "\n") (h2 : tok ≠ "#")
    (hs : typeStep P vb s tok = .ok s') (hd : inlineDone s' = .ok true) (hf : typeFinish P s' = .ok (t, k)) :
    parseTypeLoop P false vb s (tok :: rest) = .ok (t, k, rest) := by
  rw [parseTypeLoop]
  simp [hc, h1, h2, hs, hd, hf]

/-! ## the guard: the in-line parser keeps going -/

/-- the entry above the bottom mark is not a finished type -/
def Guard (S : List TItem) : Prop := ∃ X b, S = X ++ [b, .mark] ∧ b.isTy = false

theorem Guard.cons {S : List TItem} (it : TItem) (h : Guard S) : Guard (it :: S) := by
  obtain ⟨X, b, rfl, hb⟩ := h
  exact ⟨it :: X, b, rfl, hb⟩

theorem guard_mark : Guard [.mark, .mark] := ⟨[], .mark, rfl, rfl⟩

theorem guard_op (it : TItem) (h : it.isOp = true) : Guard [it, .mark] :=
  ⟨[], it, rfl, by cases it <;> simp [TItem.isOp] at h <;> rfl⟩

theorem inlineDone_guard (S : List TItem) (lvl : Int) (cs : List Bool) (fr : Nat) (c : Bool)
    (hg : Guard S) (hl : 1 ≤ lvl) : inlineDone ⟨S, lvl, cs, fr, c⟩ = .ok false := by
  obtain ⟨X, b, rfl, hb⟩ := hg
  have h0 : (lvl == 0) = false := by simp; omega
  simp [inlineDone, secondFromBottom, hb, h0]

/-! ## the invariant in in-line mode -/

/-- `TypeText.ParsesTy` in in-line mode, under the guard -/
def ParsesTyI (P : PLang) (vb : Nat) (t : Ty) : Prop :=
  ∀ (top : TItem) (R : List TItem) (lvl : Int) (cs : List Bool) (fr : Nat) (rest : List String),
    top.isOp = false → Guard (top :: R) → 1 ≤ lvl →
    parseTypeLoop P false vb ⟨top :: R, lvl, cs, fr, false⟩ (typeToks P.types t ++ rest)
      = parseTypeLoop P false vb ⟨.ty t.toTerm :: top :: R, lvl, cs, fr, false⟩ rest

/-- `TypeText.ParsesArgs` in in-line mode, under the guard -/
def ParsesArgsI (P : PLang) (vb : Nat) (ts : List Ty) : Prop :=
  ∀ (R : List TItem) (lvl : Int) (cs : List Bool) (fr : Nat) (rest : List String),
    Guard R → 1 ≤ lvl →
    ∃ St : List TItem,
      parseTypeLoop P false vb ⟨.mark :: R, lvl, cs, fr, false⟩ (typeToksArgs P.types ts ++ rest)
        = parseTypeLoop P false vb ⟨St, lvl, cs, fr, false⟩ rest
      ∧ backtrack P St [] = .ok (tyItems ts ++ R)

theorem backtrack_prod (P : PLang) (hN : TextNames P.types) (a b : Ty) (S : List TItem) :
    backtrack P (.ty b.toTerm :: .ty a.toTerm :: .op PROD :: .mark :: S) []
      = .ok (.ty (Ty.app PROD [a, b]).toTerm :: S) := by
  have hf := lang_builtin_facts hN.builtins
  simp [backtrack, applyItem, hf, Ty.toTerm, Ty.toTermL]

theorem parsesTyI_prod (P : PLang) (vb : Nat) (hN : TextNames P.types) (a b : Ty)
    (ha : ParsesTyI P vb a) (hb : ParsesTyI P vb b) : ParsesTyI P vb (.app PROD [a, b]) := by
  intro top R lvl cs fr rest htop hg hl
  have hl1 : (1 : Int) ≤ lvl + 1 := by omega
  have hbt := backtrack_prod P hN a b (top :: R)
  simp only [typeToks, beq_self_eq_true, if_true, List.append_assoc, List.cons_append, List.nil_append]
  rw [istep P vb _ _ "(" _ rfl (by decide) (by decide) (typeStep_open ..)
    (inlineDone_guard _ _ _ _ _ (hg.cons _) hl1), htop]
  rw [ha .mark _ _ _ _ _ rfl (hg.cons _) hl1]
  rw [istep P vb _ _ "*" _ rfl (by decide) (by decide) (typeStep_star ..)
    (inlineDone_guard _ _ _ _ _ (((hg.cons _).cons _).cons _) hl1)]
  rw [hb _ _ _ _ _ _ rfl (((hg.cons _).cons _).cons _) hl1]
  rw [istep P vb _ _ ")" _ rfl (by decide) (by decide) (typeStep_close_group _ _ _ _ _ _ _ _ hbt)
    (inlineDone_guard _ _ _ _ _ (hg.cons _) (by omega))]
  rw [Int.add_sub_cancel]

theorem iloop_name (P : PLang) (vb : Nat) (S : List TItem) (lvl : Int) (cs : List Bool) (fr : Nat)
    (tok : String) (it : TItem) (rest : List String)
    (h : tok ∉ specialToks) (hr : resolveTypeToken P tok = .ok it) (hg : Guard S) (hl : 1 ≤ lvl) :
    parseTypeLoop P false vb ⟨S, lvl, cs, fr, false⟩ (tok :: rest)
      = parseTypeLoop P false vb ⟨it :: S, lvl, cs, fr, false⟩ rest :=
  istep P vb _ _ tok rest rfl (not_special_ne h).1 (not_special_ne h).2 (typeStep_name P vb _ tok it h hr)
    (inlineDone_guard _ _ _ _ _ (hg.cons _) hl)

theorem typeStep_top (P : PLang) (vb : Nat) (s : TState) :
    typeStep P vb s "Top" = .ok { s with stack := .ty (.app TOP []) :: s.stack } := by
  simp [typeStep, resolve_top]

theorem typeStep_bot (P : PLang) (vb : Nat) (s : TState) :
    typeStep P vb s "Bottom" = .ok { s with stack := .ty (.app BOT []) :: s.stack } := by
  simp [typeStep, resolve_bot]

theorem iloop_call (P : PLang) (vb : Nat) (ts : List Ty) (hargs : ParsesArgsI P vb ts)
    (S : List TItem) (lvl : Int) (cs : List Bool) (fr : Nat) (tok : String) (it : TItem) (res : Term)
    (rest : List String)
    (h : tok ∉ specialToks) (hr : resolveTypeToken P tok = .ok it) (hop : it.isOp = true)
    (happ : applyItem P it (Ty.toTermL ts) = .ok res) (hg : Guard S) (hl : 1 ≤ lvl) :
    parseTypeLoop P false vb ⟨S, lvl, cs, fr, false⟩ ([tok, "("] ++ typeToksArgs P.types ts ++ [")"] ++ rest)
      = parseTypeLoop P false vb ⟨.ty res :: S, lvl, cs, fr, false⟩ rest := by
  have hl1 : (1 : Int) ≤ lvl + 1 := by omega
  simp only [List.append_assoc, List.cons_append, List.nil_append]
  rw [iloop_name P vb _ _ _ _ tok it _ h hr hg hl]
  rw [istep P vb _ _ "(" _ rfl (by decide) (by decide) (typeStep_open ..)
    (inlineDone_guard _ _ _ _ _ ((hg.cons _).cons _) hl1), hop]
  obtain ⟨St, h1, h2⟩ := hargs (it :: S) (lvl + 1) (true :: cs) fr (")" :: rest) (hg.cons _) hl1
  rw [h1]
  have h3 : applyOperator P (tyItems ts ++ it :: S) [] = .ok (.ty res :: S) := by
    rw [applyOperator_tyItems P ts it S hop, happ]
  rw [istep P vb _ _ ")" _ rfl (by decide) (by decide) (typeStep_close_call _ _ _ _ _ _ _ _ _ h2 h3)
    (inlineDone_guard _ _ _ _ _ (hg.cons _) (by omega))]
  rw [Int.add_sub_cancel]

theorem parsesArgsI_one (P : PLang) (vb : Nat) (t : Ty) (ht : ParsesTyI P vb t) : ParsesArgsI P vb [t] := by
  intro R lvl cs fr rest hg hl
  refine ⟨.ty t.toTerm :: .mark :: R, ?_, ?_⟩
  · simp only [typeToksArgs]
    exact ht .mark R lvl cs fr rest rfl (hg.cons _) hl
  · simp [backtrack, tyItems, Ty.toTermL]

theorem parsesArgsI_cons (P : PLang) (vb : Nat) (t : Ty) (ts : List Ty) (hne : ts ≠ [])
    (ht : ParsesTyI P vb t) (hts : ParsesArgsI P vb ts) : ParsesArgsI P vb (t :: ts) := by
  intro R lvl cs fr rest hg hl
  obtain ⟨St, h1, h2⟩ := hts (.ty t.toTerm :: R) lvl cs fr rest (hg.cons _) hl
  refine ⟨St, ?_, ?_⟩
  · have hb : backtrack P (.ty t.toTerm :: .mark :: R) [] = .ok (.ty t.toTerm :: R) := by
      simp [backtrack]
    rw [typeToksArgs]
    · simp only [List.append_assoc, List.cons_append, List.nil_append]
      rw [ht .mark R lvl cs fr _ rfl (hg.cons _) hl]
      rw [istep P vb _ _ "," _ rfl (by decide) (by decide) (typeStep_comma _ _ _ _ _ _ _ _ hb)
        (inlineDone_guard _ _ _ _ _ ((hg.cons _).cons _) hl)]
      exact h1
    · exact hne
  · rw [h2, tyItems_cons]; simp

/-! ## mutual induction over printable types -/

/-- the shapes of a printable type -/
theorem printable_cases (L : Lang) (hN : TextNames L) (o : Nat) (args : List Ty)
    (hp : printable L (.app o args) = true) :
    (o = PROD ∧ ∃ a b, args = [a, b]) ∨
    (o ≠ PROD ∧ args = [] ∧ (o = TOP ∨ o = BOT ∨ (5 ≤ o ∧ o < L.length ∧ arityOf L o = 0))) ∨
    (o ≠ PROD ∧ args ≠ [] ∧ 5 ≤ o ∧ o < L.length ∧ arityOf L o ≠ 0 ∧ args.length = arityOf L o) := by
  simp only [printable, Bool.and_eq_true, Bool.or_eq_true, beq_iff_eq, decide_eq_true_eq] at hp
  obtain ⟨⟨⟨hcase, holt⟩, hlen⟩, _⟩ := hp
  have hf := lang_builtin_facts hN.builtins
  by_cases hprod : o = PROD
  · subst hprod
    rw [hf.2.2.2.2] at hlen
    left
    refine ⟨rfl, ?_⟩
    match args, hlen with
    | [a, b], _ => exact ⟨a, b, rfl⟩
  · right
    by_cases hnil : args = []
    · subst hnil
      left
      refine ⟨hprod, rfl, ?_⟩
      rcases hcase with ((h | h) | h) | h
      · exact Or.inl h
      · exact Or.inr (Or.inl h)
      · exact absurd h hprod
      · exact Or.inr (Or.inr ⟨h, holt, by simpa using hlen.symm⟩)
    · right
      have hpos : arityOf L o ≠ 0 := by
        intro h0; rw [h0] at hlen; exact hnil (List.eq_nil_of_length_eq_zero hlen)
      have h5 : 5 ≤ o := by
        rcases hcase with ((h | h) | h) | h
        · subst h; exact absurd hf.2.2.1 hpos
        · subst h; exact absurd hf.2.2.2.1 hpos
        · exact absurd h hprod
        · exact h
      exact ⟨hprod, hnil, h5, holt, hpos, hlen⟩

theorem printable_args (L : Lang) (o : Nat) (args : List Ty) (hp : printable L (.app o args) = true) :
    printableL L args = true := by
  simp only [printable, Bool.and_eq_true] at hp
  exact hp.2

theorem typeToks_nullary (L : Lang) (o : Nat) (ho : o ≠ PROD) : typeToks L (.app o []) = [nameOf L o] := by
  have h1 : (o == PROD) = false := by simp [ho]
  unfold typeToks
  simp [h1]

mutual
theorem parsesTyI_of_printable (P : PLang) (vb : Nat) (hN : TextNames P.types) :
    ∀ t : Ty, printable P.types t = true → ParsesTyI P vb t
  | .app o args, hp => by
    have hall := parsesAllI_of_printable P vb hN args (printable_args _ o args hp)
    have hf := lang_builtin_facts hN.builtins
    rcases printable_cases P.types hN o args hp with ⟨rfl, a, b, rfl⟩ | ⟨hprod, rfl, hc⟩ | ⟨hprod, hnil, h5, holt, hpos, hlen⟩
    · exact parsesTyI_prod P vb hN a b (hall a (by simp)) (hall b (by simp))
    · intro top R lvl cs fr rest htop hg hl
      rw [typeToks_nullary _ o hprod]
      simp only [List.cons_append, List.nil_append]
      rcases hc with h | h | ⟨h5, holt, ha⟩
      · subst h; rw [hf.1]
        exact istep P vb _ _ "Top" rest rfl (by decide) (by decide) (typeStep_top ..)
          (inlineDone_guard _ _ _ _ _ (hg.cons _) hl)
      · subst h; rw [hf.2.1]
        exact istep P vb _ _ "Bottom" rest rfl (by decide) (by decide) (typeStep_bot ..)
          (inlineDone_guard _ _ _ _ _ (hg.cons _) hl)
      · have hres := resolve_op hN o h5 holt
        rw [ha] at hres
        exact iloop_name P vb _ _ _ _ _ _ _ (nameOf_not_special hN o h5 holt) hres hg hl
    · have hpa := parsesArgsI_of_printable P vb hN args (printable_args _ o args hp) hnil
      intro top R lvl cs fr rest htop hg hl
      rw [typeToks_call _ o args hprod hnil]
      have hres := resolve_op hN o h5 holt
      have hb : (arityOf P.types o == 0) = false := by simpa using hpos
      rw [hb] at hres
      exact iloop_call P vb args hpa _ lvl cs fr _ (.op o) _ rest (nameOf_not_special hN o h5 holt) hres rfl
        (by simp [applyItem, toTermL_eq_map, hlen, Ty.toTerm]) hg hl
theorem parsesAllI_of_printable (P : PLang) (vb : Nat) (hN : TextNames P.types) :
    ∀ ts : List Ty, printableL P.types ts = true → ∀ t ∈ ts, ParsesTyI P vb t
  | [], _, t, ht => by simp at ht
  | t' :: ts, hp, t, ht => by
    simp only [printableL, Bool.and_eq_true] at hp
    rcases List.mem_cons.mp ht with heq | ht'
    · exact heq ▸ parsesTyI_of_printable P vb hN t' hp.1
    · exact parsesAllI_of_printable P vb hN ts hp.2 t ht'
theorem parsesArgsI_of_printable (P : PLang) (vb : Nat) (hN : TextNames P.types) :
    ∀ ts : List Ty, printableL P.types ts = true → ts ≠ [] → ParsesArgsI P vb ts
  | [], _, h => absurd rfl h
  | t :: ts, hp, _ => by
    simp only [printableL, Bool.and_eq_true] at hp
    have ht := parsesTyI_of_printable P vb hN t hp.1
    by_cases hne : ts = []
    · subst hne; exact parsesArgsI_one P vb t ht
    · exact parsesArgsI_cons P vb t ts hne ht (parsesArgsI_of_printable P vb hN ts hp.2 hne)
end

/-! ## the outermost type: the in-line parser stops at the end of the printed form -/

theorem finish_single (P : PLang) (t : Term) (lvl : Int) (cs : List Bool) (fr : Nat) :
    inlineDone ⟨[.ty t, .mark], lvl, cs, fr, false⟩ = .ok true ∧
    typeFinish P ⟨[.ty t, .mark], lvl, cs, fr, false⟩ = .ok (t, fr) := by
  constructor
  · simp [inlineDone, secondFromBottom, TItem.isTy]
  · simp [typeFinish, backtrack]

/-- in-line mode, from the initial state: the printed form of a printable type is consumed exactly,
the type is returned, no variables are created, and what follows is handed back untouched -/
theorem inline_typeToks (P : PLang) (vb : Nat) (hN : TextNames P.types) :
    ∀ (t : Ty), printable P.types t = true → ∀ (rest : List String),
    parseTypeLoop P false vb {} (typeToks P.types t ++ rest) = .ok (t.toTerm, 0, rest)
  | .app o args, hp, rest => by
    have h0 : ({} : TState) = ⟨[.mark], 0, [], 0, false⟩ := rfl
    have hf := lang_builtin_facts hN.builtins
    have hargs := printable_args _ o args hp
    rw [h0]
    rcases printable_cases P.types hN o args hp with ⟨rfl, a, b, rfl⟩ | ⟨hprod, rfl, hc⟩ | ⟨hprod, hnil, h5, holt, hpos, hlen⟩
    · -- `( a * b )`
      simp only [printableL, Bool.and_eq_true] at hargs
      have ha := parsesTyI_of_printable P vb hN a hargs.1
      have hb := parsesTyI_of_printable P vb hN b hargs.2.1
      have hbt := backtrack_prod P hN a b [.mark]
      have hg : Guard [.mark, .mark] := guard_mark
      simp only [typeToks, beq_self_eq_true, if_true, List.append_assoc, List.cons_append, List.nil_append]
      rw [istep P vb _ _ "(" _ rfl (by decide) (by decide) (typeStep_open ..)
        (inlineDone_guard _ _ _ _ _ hg (by decide))]
      rw [ha .mark _ _ _ _ _ rfl hg (by decide)]
      rw [istep P vb _ _ "*" _ rfl (by decide) (by decide) (typeStep_star ..)
        (inlineDone_guard _ _ _ _ _ ((hg.cons _).cons _) (by decide))]
      rw [hb _ _ _ _ _ _ rfl ((hg.cons _).cons _) (by decide)]
      exact istep_done P vb _ _ ")" _ _ _ rfl (by decide) (by decide)
        (typeStep_close_group _ _ _ _ _ _ _ _ hbt) (finish_single P _ _ _ _).1 (finish_single P _ _ _ _).2
    · -- a single name
      rw [typeToks_nullary _ o hprod]
      simp only [List.cons_append, List.nil_append]
      rcases hc with h | h | ⟨h5, holt, ha⟩
      · subst h; rw [hf.1]
        exact istep_done P vb _ _ "Top" _ _ _ rfl (by decide) (by decide) (typeStep_top ..)
          (finish_single P _ _ _ _).1 (finish_single P _ _ _ _).2
      · subst h; rw [hf.2.1]
        exact istep_done P vb _ _ "Bottom" _ _ _ rfl (by decide) (by decide) (typeStep_bot ..)
          (finish_single P _ _ _ _).1 (finish_single P _ _ _ _).2
      · have hres := resolve_op hN o h5 holt
        rw [ha] at hres
        have hns := nameOf_not_special hN o h5 holt
        exact istep_done P vb _ _ _ _ _ _ rfl (not_special_ne hns).1 (not_special_ne hns).2
          (typeStep_name P vb _ _ _ hns hres) (finish_single P _ _ _ _).1 (finish_single P _ _ _ _).2
    · -- `Name ( args )`
      have hpa := parsesArgsI_of_printable P vb hN args hargs hnil
      rw [typeToks_call _ o args hprod hnil]
      have hres := resolve_op hN o h5 holt
      have hb : (arityOf P.types o == 0) = false := by simpa using hpos
      rw [hb] at hres
      simp only [Bool.false_eq_true, if_false] at hres
      have hns := nameOf_not_special hN o h5 holt
      have hg : Guard [.op o, .mark] := guard_op _ rfl
      have happ : applyItem P (.op o) (Ty.toTermL args) = .ok (.app o (Ty.toTermL args)) := by
        simp [applyItem, toTermL_eq_map, hlen]
      have hd0 : inlineDone ⟨[.op o, .mark], 0, [], 0, false⟩ = .ok false := by
        simp [inlineDone, secondFromBottom, TItem.isTy]
      simp only [List.append_assoc, List.cons_append, List.nil_append]
      rw [istep P vb ⟨[.mark], 0, [], 0, false⟩ ⟨[.op o, .mark], 0, [], 0, false⟩ _ _ rfl
        (not_special_ne hns).1 (not_special_ne hns).2 (typeStep_name P vb _ _ _ hns hres) hd0]
      rw [istep P vb _ _ "(" _ rfl (by decide) (by decide) (typeStep_open ..)
        (inlineDone_guard _ _ _ _ _ (hg.cons _) (by decide))]
      obtain ⟨St, h1, h2⟩ := hpa [.op o, .mark] (0 + 1) (true :: []) 0 (")" :: rest) hg (by decide)
      simp only [TItem.isOp]
      rw [h1]
      have h3 : applyOperator P (tyItems args ++ [.op o, .mark]) [] = .ok [.ty (.app o (Ty.toTermL args)), .mark] := by
        rw [applyOperator_tyItems P args (.op o) [.mark] rfl, happ]
      rw [istep_done P vb ⟨St, 0 + 1, [true], 0, false⟩ ⟨[.ty (.app o (Ty.toTermL args)), .mark], 0 + 1 - 1, [], 0, false⟩
        ")" rest _ _ rfl (by decide) (by decide)
        (typeStep_close_call _ _ _ _ _ _ _ _ _ h2 h3) (finish_single P _ _ _ _).1 (finish_single P _ _ _ _).2]
      simp [Ty.toTerm]

end Tfv.NotationAnn
