import Tfv.Proofs.InferCheck
import Tfv.Proofs.InferSound
import Tfv.Spec.SatWitness
/-!
# Existence of solutions (C03, phase 2)

An acyclic well-formed store has a solution extending every admissible choice
for its unresolved variables; an admissible choice exists; `acyclicB` is an
executable sufficient test for acyclicity.
-/
namespace Tfv.C03P

/-! ## 1. denotation only depends on the variables that occur -/

mutual
theorem den_congr {ρ ρ' : Val} : ∀ (t : Term), (∀ w, occursIn w t = true → ρ w = ρ' w) → den ρ t = den ρ' t
  | .var v, h => by
    rw [den_var, den_var]
    exact h v (by unfold occursIn; simp)
  | .app o args, h => by
    rw [den_app, den_app, denL_congr args (fun w hw => h w (by unfold occursIn; exact hw))]
theorem denL_congr {ρ ρ' : Val} : ∀ (ts : List Term), (∀ w, occursInL w ts = true → ρ w = ρ' w) →
    denL ρ ts = denL ρ' ts
  | [], _ => by rw [denL_nil, denL_nil]
  | t :: ts, h => by
    rw [denL_cons, denL_cons,
      den_congr t (fun w hw => h w (by rw [occursInL, hw]; rfl)),
      denL_congr ts (fun w hw => h w (by rw [occursInL, hw]; simp))]
end

/-! ## 2. iterated substitution -/

/-- substitute the bindings `k` times, starting from the choice `θ` -/
def iterVal (σ : Store) (θ : Val) : Nat → Val
  | 0 => θ
  | k+1 => fun v =>
    match (getVar σ v).bound with
    | some t => den (iterVal σ θ k) t
    | none => θ v

theorem iterVal_unbound {σ : Store} {θ : Val} {v : Nat} (h : (getVar σ v).bound = none) :
    ∀ k, iterVal σ θ k v = θ v
  | 0 => rfl
  | k+1 => by unfold iterVal; simp only [h]

theorem iterVal_bound {σ : Store} {θ : Val} {v : Nat} {t : Term} (h : (getVar σ v).bound = some t) (k : Nat) :
    iterVal σ θ (k+1) v = den (iterVal σ θ k) t := by
  rw [iterVal]; simp only [h]

theorem iterVal_wf {L : Lang} {σ : Store} {θ : Val} (ok : OkStore L σ) (hθ : ∀ v, wfTy L (θ v) = true) :
    ∀ k v, wfTy L (iterVal σ θ k v) = true
  | 0, v => hθ v
  | k+1, v => by
    cases hb : (getVar σ v).bound with
    | none => rw [iterVal_unbound hb]; exact hθ v
    | some t =>
      rw [iterVal_bound hb]
      exact wfTy_den (iterVal_wf ok hθ k) t (ok.bound v t hb)

theorem iterVal_stable {σ : Store} {θ : Val} {rank : Nat → Nat}
    (hr : ∀ v t, (getVar σ v).bound = some t → ∀ w, occursIn w t = true → rank w < rank v) :
    ∀ k v, rank v < k → iterVal σ θ (k+1) v = iterVal σ θ k v
  | 0, v, h => by omega
  | k+1, v, h => by
    cases hb : (getVar σ v).bound with
    | none => rw [iterVal_unbound hb, iterVal_unbound hb]
    | some t =>
      rw [iterVal_bound hb, iterVal_bound hb]
      apply den_congr
      intro w hw
      have := hr v t hb w hw
      exact iterVal_stable hr k w (by omega)

theorem iterVal_stable' {σ : Store} {θ : Val} {rank : Nat → Nat}
    (hr : ∀ v t, (getVar σ v).bound = some t → ∀ w, occursIn w t = true → rank w < rank v)
    (k v : Nat) (h : rank v < k) : ∀ j, iterVal σ θ (k + j) v = iterVal σ θ k v
  | 0 => rfl
  | j+1 => by
    rw [← Nat.add_assoc, iterVal_stable hr (k + j) v (by omega)]
    exact iterVal_stable' hr k v h j

/-- an acyclic well-formed store has a solution that extends the given choice -/
theorem witness_exists {L : Lang} {σ : Store} (ok : OkStore L σ) (hac : Acyclic σ)
    (θ : Val) (hθ : Choice L θ σ) :
    ∃ ρ, Sat L ρ σ ∧ ∀ v, (getVar σ v).bound = none → ρ v = θ v := by
  obtain ⟨rank, hr⟩ := hac
  refine ⟨fun v => iterVal σ θ (rank v + 1) v, ⟨?_, ?_, ?_, ?_⟩, ?_⟩
  · intro v; exact iterVal_wf ok hθ.wf _ v
  · intro v t hb
    show iterVal σ θ (rank v + 1) v = _
    rw [iterVal_bound hb]
    apply den_congr
    intro w hw
    have hlt := hr v t hb w hw
    obtain ⟨j, hj⟩ : ∃ j, rank v = (rank w + 1) + j := ⟨rank v - (rank w + 1), by omega⟩
    rw [hj]
    exact iterVal_stable' hr (rank w + 1) w (by omega) j
  · intro v l hb hl
    show Sub L _ (iterVal σ θ (rank v + 1) v)
    rw [iterVal_unbound hb]; exact hθ.lower v l hb hl
  · intro v u hb hu
    show Sub L (iterVal σ θ (rank v + 1) v) _
    rw [iterVal_unbound hb]; exact hθ.upper v u hb hu
  · intro v hb
    exact iterVal_unbound hb _

/-! ## 3. an admissible choice exists -/

/-- the lower bound if there is one, else the upper bound, else `Unit` -/
def defaultChoice (σ : Store) : Val := fun v =>
  match (getVar σ v).lower, (getVar σ v).upper with
  | some l, _ => .app l []
  | none, some u => .app u []
  | none, none => .app UNIT []

theorem choice_exists {L : Lang} (wf : WF L) {σ : Store} (ok : OkStore L σ) :
    Choice L (defaultChoice σ) σ := by
  refine ⟨?_, ?_, ?_⟩
  · intro v
    unfold defaultChoice
    cases hl : (getVar σ v).lower with
    | some l => exact wfTy_base (ok.lower v l hl).1 (ok.lower v l hl).2
    | none =>
      cases hu : (getVar σ v).upper with
      | some u => exact wfTy_base (ok.upper v u hu).1 (ok.upper v u hu).2
      | none => exact wfTy_unit wf
  · intro v l _ hl
    unfold defaultChoice
    simp only [hl]
    exact sub_refl _ (wfTy_base (ok.lower v l hl).1 (ok.lower v l hl).2)
  · intro v u _ hu
    unfold defaultChoice
    simp only [hu]
    cases hl : (getVar σ v).lower with
    | some l =>
      exact sub_base_of_opSub wf (ok.lower v l hl).2 (ok.upper v u hu).2 (ok.ordered v l u hl hu)
    | none => exact sub_refl _ (wfTy_base (ok.upper v u hu).1 (ok.upper v u hu).2)

theorem solution_exists {L : Lang} (wf : WF L) {σ : Store} (ok : OkStore L σ) (hac : Acyclic σ) :
    ∃ ρ, Sat L ρ σ := by
  obtain ⟨ρ, h, _⟩ := witness_exists ok hac _ (choice_exists wf ok)
  exact ⟨ρ, h⟩

/-! ## 4. an executable test for acyclicity -/

/-- the expansion of `t` through the bindings ends within `n` steps -/
def finB (σ : Store) : Nat → Term → Bool
  | 0, _ => false
  | n+1, .var v =>
    match (getVar σ v).bound with
    | none => true
    | some t => finB σ n t
  | n+1, .app _ args => args.all (finB σ n)

mutual
def Term.nodes : Term → Nat
  | .var _ => 1
  | .app _ args => 1 + Term.nodesL args
def Term.nodesL : List Term → Nat
  | [] => 0
  | t :: ts => Term.nodes t + Term.nodesL ts
end

/-- enough steps for every acyclic store: all nodes of all bindings, plus one per variable -/
def storeFuel (σ : Store) : Nat :=
  σ.vars.foldl (fun acc i => acc + 1 + (match i.bound with | some t => Term.nodes t | none => 0)) 1

def acyclicB (σ : Store) : Bool :=
  (List.range σ.vars.length).all (fun v => finB σ (storeFuel σ) (.var v))

theorem finB_mono {σ : Store} : ∀ (n : Nat) (t : Term), finB σ n t = true → finB σ (n+1) t = true
  | 0, t, h => by unfold finB at h; cases h
  | n+1, .var v, h => by
    rw [finB] at h ⊢
    cases hb : (getVar σ v).bound with
    | none => rfl
    | some t =>
      rw [hb] at h
      exact finB_mono n t h
  | n+1, .app o args, h => by
    rw [finB] at h ⊢
    rw [List.all_eq_true] at h ⊢
    intro a ha
    exact finB_mono n a (h a ha)

theorem occursInL_exists {w : Nat} : ∀ (ts : List Term), occursInL w ts = true →
    ∃ a, a ∈ ts ∧ occursIn w a = true
  | [], h => by unfold occursInL at h; cases h
  | t :: ts, h => by
    rw [occursInL, Bool.or_eq_true] at h
    rcases h with h | h
    · exact ⟨t, List.mem_cons_self, h⟩
    · obtain ⟨a, ha, hw⟩ := occursInL_exists ts h
      exact ⟨a, List.mem_cons_of_mem _ ha, hw⟩

theorem finB_occurs {σ : Store} {w : Nat} : ∀ (n : Nat) (t : Term), finB σ n t = true →
    occursIn w t = true → finB σ n (.var w) = true
  | 0, t, h, _ => by unfold finB at h; cases h
  | n+1, .var v, h, hw => by
    unfold occursIn at hw
    have : v = w := by simpa using hw
    subst this; exact h
  | n+1, .app o args, h, hw => by
    rw [finB, List.all_eq_true] at h
    unfold occursIn at hw
    obtain ⟨a, ha, hwa⟩ := occursInL_exists args hw
    exact finB_mono n _ (finB_occurs n a (h a ha) hwa)

theorem exists_least (p : Nat → Prop) (h : ∃ n, p n) : ∃ m, p m ∧ ∀ j, j < m → ¬ p j := by
  obtain ⟨n, hn⟩ := h
  induction n using Nat.strongRecOn with
  | _ n ih =>
    by_cases h' : ∃ j, j < n ∧ p j
    · obtain ⟨j, hj, hpj⟩ := h'
      exact ih j hj hpj
    · exact ⟨n, hn, fun j hj hpj => h' ⟨j, hj, hpj⟩⟩

theorem acyclicB_sound {σ : Store} (h : acyclicB σ = true) : Acyclic σ := by
  classical
  -- every bound variable expands finitely
  have hfin : ∀ v t, (getVar σ v).bound = some t → ∃ n, finB σ n (.var v) = true := by
    intro v t hb
    rcases getVar_mem_or_default σ v with ⟨hv, _⟩ | ⟨_, hd⟩
    · unfold acyclicB at h
      exact ⟨_, List.all_eq_true.mp h v (List.mem_range.mpr hv)⟩
    · rw [hd] at hb; cases hb
  let rank : Nat → Nat := fun v =>
    if hx : ∃ n, finB σ n (.var v) = true then Classical.choose (exists_least _ hx) else 0
  have rank_spec : ∀ v (hx : ∃ n, finB σ n (.var v) = true),
      finB σ (rank v) (.var v) = true ∧ ∀ j, j < rank v → ¬ finB σ j (.var v) = true := by
    intro v hx
    have := Classical.choose_spec (exists_least _ hx)
    simp only [rank, dif_pos hx]
    exact this
  refine ⟨rank, fun v t hb w hw => ?_⟩
  obtain ⟨hv1, _⟩ := rank_spec v (hfin v t hb)
  cases hm : rank v with
  | zero => rw [hm] at hv1; unfold finB at hv1; cases hv1
  | succ m =>
    rw [hm, finB, hb] at hv1
    have hw1 : finB σ m (.var w) = true := finB_occurs m t hv1 hw
    obtain ⟨_, hw3⟩ := rank_spec w ⟨m, hw1⟩
    have : ¬ m < rank w := fun hlt => hw3 m hlt hw1
    omega

end Tfv.C03P
