import Tfv.Proofs.SubOrder
/-!
# Helper lemmas for C02: `unifyC` on concrete types agrees with `matchC … true`,
fails only with a (sub)type mismatch, and `applyC` accepts exactly the subtypes
of the input type.
-/
namespace Tfv

/-! ## 1. `unifyC` succeeds exactly when `matchC L true` does -/

theorem opSub_self (L : Lang) (a : Nat) : opSub L a a = true := by
  unfold opSub
  simp

theorem except_unit_ne {e : CErr} : (Except.error e : Except CErr Unit) ≠ .ok () := by
  intro h; cases h

mutual
theorem unifyC_ok_iff (L : Lang) : ∀ (pol : Bool) (s t : Ty),
    unifyC L pol s t = .ok () ↔ matchC L true pol s t = true
  | pol, .app a as, .app b bs => by
    have IH := fun (vs : List Bool) => unifyCs_ok_iff L pol vs as bs
    unfold unifyC matchC
    simp only [Bool.true_and]
    generalize (if pol = true then a else b) = lo
    generalize (if pol = true then b else a) = hi
    by_cases hbt : (lo == BOT || hi == TOP) = true
    · simp [hbt]
    · by_cases n1 : arityOf L lo = 0
      · by_cases e1 : lo = hi
        · subst e1
          simp [hbt, n1, opSub_self]
        · cases hop : opSub L lo hi <;> simp [hbt, n1, e1]
      · by_cases e1 : lo = hi
        · subst e1
          simp [hbt, n1, IH]
        · simp [hbt, n1, e1]
theorem unifyCs_ok_iff (L : Lang) : ∀ (pol : Bool) (vs : List Bool) (ss ts : List Ty),
    unifyCs L pol vs ss ts = .ok () ↔ matchCs L true pol vs ss ts = true
  | _, [], _, _ => by simp [unifyCs, matchCs]
  | _, _ :: _, [], _ => by simp [unifyCs, matchCs]
  | _, _ :: _, _ :: _, [] => by simp [unifyCs, matchCs]
  | pol, v :: vs, s :: ss, t :: ts => by
    have IH1 := unifyC_ok_iff L (pol == v) s t
    have IH2 := unifyCs_ok_iff L pol vs ss ts
    unfold unifyCs matchCs
    rw [Bool.and_eq_true, ← IH1, ← IH2]
    cases h : unifyC L (pol == v) s t with
    | ok u => cases u; simp
    | error e => simp
end

/-! ## 2. `unifyC` fails only with `typeMismatch` or `subtypeMismatch` -/

mutual
theorem unifyC_error (L : Lang) : ∀ (pol : Bool) (s t : Ty) (e : CErr),
    unifyC L pol s t = .error e → e = .typeMismatch ∨ e = .subtypeMismatch
  | pol, .app a as, .app b bs, e => by
    have IH := fun (vs : List Bool) => unifyCs_error L pol vs as bs e
    unfold unifyC
    simp only []
    generalize (if pol = true then a else b) = lo
    generalize (if pol = true then b else a) = hi
    intro h
    split at h
    · cases h
    · split at h
      · split at h
        · cases h
        · injection h with h; exact Or.inr h.symm
      · split at h
        · exact IH _ h
        · injection h with h; exact Or.inl h.symm
theorem unifyCs_error (L : Lang) : ∀ (pol : Bool) (vs : List Bool) (ss ts : List Ty) (e : CErr),
    unifyCs L pol vs ss ts = .error e → e = .typeMismatch ∨ e = .subtypeMismatch
  | _, [], _, _, _ => by simp [unifyCs]
  | _, _ :: _, [], _, _ => by simp [unifyCs]
  | _, _ :: _, _ :: _, [], _ => by simp [unifyCs]
  | pol, v :: vs, s :: ss, t :: ts, e => by
    have IH1 := unifyC_error L (pol == v) s t
    have IH2 := unifyCs_error L pol vs ss ts e
    unfold unifyCs
    cases h : unifyC L (pol == v) s t with
    | ok u => cases u; exact IH2
    | error e' =>
      intro h2
      injection h2 with h2
      subst h2
      exact IH1 e' h
end

/-! ## 3. `applyC` -/

theorem unify_iff_sub (L : Lang) (x a : Ty) :
    unifyC L true x a = .ok () ↔ sub L x a = true :=
  unifyC_ok_iff L true x a

theorem unify_ok_iff_Sub {L : Lang} (wf : WF L) (a x : Ty)
    (ha : wfTy L a = true) (hx : wfTy L x = true) :
    unifyC L true x a = .ok () ↔ Sub L x a := by
  have h := matchC_true_iff wf true x a hx ha
  simp only [if_true] at h
  exact (unifyC_ok_iff L true x a).trans h

theorem applyC_fun (L : Lang) (a b x : Ty) :
    applyC L (.app FUN [a, b]) x =
      (match unifyC L true x a with
       | .ok () => .ok b
       | .error e => .error e) := by
  simp only [applyC, beq_self_eq_true, if_true]
  rfl

theorem apply_accepts {L : Lang} (wf : WF L) (a b x : Ty)
    (ha : wfTy L a = true) (hx : wfTy L x = true) :
    applyC L (.app FUN [a, b]) x = .ok b ↔ Sub L x a := by
  rw [applyC_fun, ← unify_ok_iff_Sub wf a x ha hx]
  cases h : unifyC L true x a with
  | ok u => cases u; simp
  | error e => simp

theorem apply_rejects {L : Lang} (wf : WF L) (a b x : Ty)
    (ha : wfTy L a = true) (hx : wfTy L x = true) (h : ¬ Sub L x a) :
    applyC L (.app FUN [a, b]) x = .error .typeMismatch ∨
    applyC L (.app FUN [a, b]) x = .error .subtypeMismatch := by
  rw [applyC_fun]
  cases hu : unifyC L true x a with
  | ok u =>
    cases u
    exact absurd ((unify_ok_iff_Sub wf a x ha hx).mp hu) h
  | error e =>
    rcases unifyC_error L true x a e hu with he | he
    · subst he; exact Or.inl rfl
    · subst he; exact Or.inr rfl

theorem apply_top (L : Lang) (x : Ty) : applyC L (.app TOP []) x = .ok (.app TOP []) := by
  simp [applyC]

theorem apply_nonfunction (L : Lang) (o : Nat) (args : List Ty) (x : Ty)
    (h1 : o ≠ FUN) (h2 : o ≠ TOP) :
    applyC L (.app o args) x = .error .functionApplication := by
  unfold applyC
  split
  · next o' a b heq =>
    injection heq with ho _
    subst ho
    simp [h1, h2]
  · next o' args' _ heq =>
    injection heq with ho _
    subst ho
    simp [h2]

end Tfv
