import Tfv.Model
namespace Tfv.C13
theorem placeholder : True := trivial
end Tfv.C13
