import Tfv.Proofs.FrameConstrMain
import Tfv.Proofs.Agree
/-!
# The engine WITH pending constraints reads only its region (C16), part 1: store operations

Two stores of the same sizes that agree on a closed region `R` (variables, constraint sets, constraints) and differ
arbitrarily elsewhere give, for terms over `R`, the same outcome of every engine function, and the resulting stores
agree on `R` again: whatever else the stores contain (the *history*) is never read. The two runs have the same fuel
everywhere, so no hypothesis on the terms is needed.
-/
namespace Tfv.C16C
open Tfv Tfv.C03P Tfv.C16P Tfv.C03C Tfv.C18P

/-- the stores agree on the region, which is closed in the first (hence in both) -/
structure AgreeC (R : Region) (τ τ' : Store) : Prop where
  same : SameOnC R τ τ'
  closed : ClosedC τ R

/-! ## 1. outcomes -/

/-- the same error, or related results -/
def RelX {ρ : Type} (P : ρ → ρ → Prop) : Except Err ρ → Except Err ρ → Prop
  | .error e, r' => r' = .error e
  | .ok x, r' => ∃ x', r' = .ok x' ∧ P x x'

/-- results that carry a value besides the store: the same value, stores that agree -/
def PairC {α : Type} (R : Region) (p p' : Store × α) : Prop := p'.2 = p.2 ∧ AgreeC R p.1 p'.1

abbrev RelS (R : Region) := RelX (AgreeC R)
abbrev RelP {α : Type} (R : Region) := RelX (PairC (α := α) R)

theorem RelX.err {ρ : Type} (P : ρ → ρ → Prop) (e : Err) : RelX P (.error e) (.error e) := rfl
theorem RelX.ok {ρ : Type} {P : ρ → ρ → Prop} {x x' : ρ} (h : P x x') : RelX P (.ok x) (.ok x') := ⟨x', rfl, h⟩
theorem RelP.ok {α : Type} {R : Region} {τ τ' : Store} (a : AgreeC R τ τ') (x : α) :
    RelP R (.ok (τ, x)) (.ok (τ', x)) := RelX.ok ⟨rfl, a⟩

theorem RelX.bindS {ρ2 : Type} {R : Region} {Q : ρ2 → ρ2 → Prop} {r r' : Except Err Store}
    {g g' : Store → Except Err ρ2} (h : RelS R r r')
    (hg : ∀ τ1 τ1', r = .ok τ1 → AgreeC R τ1 τ1' → RelX Q (g τ1) (g' τ1')) :
    RelX Q (match (generalizing := false) r with | .error e => .error e | .ok s => g s)
      (match (generalizing := false) r' with | .error e => .error e | .ok s => g' s) := by
  cases r with
  | error e => simp only [RelX] at h; subst h; exact RelX.err Q e
  | ok τ1 =>
    obtain ⟨τ1', e, a⟩ := h
    subst e
    exact hg τ1 τ1' rfl a

theorem RelX.bindP {α ρ2 : Type} {R : Region} {Q : ρ2 → ρ2 → Prop} {r r' : Except Err (Store × α)}
    {g g' : Store → α → Except Err ρ2} (h : RelP R r r')
    (hg : ∀ τ1 τ1' x, r = .ok (τ1, x) → AgreeC R τ1 τ1' → RelX Q (g τ1 x) (g' τ1' x)) :
    RelX Q (match (generalizing := false) r with | .error e => .error e | .ok (s, t) => g s t)
      (match (generalizing := false) r' with | .error e => .error e | .ok (s, t) => g' s t) := by
  cases r with
  | error e => simp only [RelX] at h; subst h; exact RelX.err Q e
  | ok p =>
    obtain ⟨τ1, x⟩ := p
    obtain ⟨⟨τ1', x'⟩, e, ex, a⟩ := h
    subst e
    have ex : x' = x := ex
    subst x'
    exact hg τ1 τ1' x rfl a

theorem RelP.cases {α : Type} {R : Region} {r r' : Except Err (Store × α)} (h : RelP R r r') :
    (∃ e, r = .error e ∧ r' = .error e) ∨
    (∃ τ1 τ1' x, r = .ok (τ1, x) ∧ r' = .ok (τ1', x) ∧ AgreeC R τ1 τ1') := by
  cases r with
  | error e => simp only [RelX] at h; exact Or.inl ⟨e, rfl, h⟩
  | ok p =>
    obtain ⟨τ1, x⟩ := p
    obtain ⟨⟨τ1', x'⟩, e, ex, a⟩ := h
    have ex : x' = x := ex
    subst x'
    exact Or.inr ⟨τ1, τ1', x, rfl, e, a⟩

theorem RelS.cases {R : Region} {r r' : Except Err Store} (h : RelS R r r') :
    (∃ e, r = .error e ∧ r' = .error e) ∨
    (∃ τ1 τ1', r = .ok τ1 ∧ r' = .ok τ1' ∧ AgreeC R τ1 τ1') := by
  cases r with
  | error e => simp only [RelX] at h; exact Or.inl ⟨e, rfl, h⟩
  | ok τ1 =>
    obtain ⟨τ1', e, a⟩ := h
    exact Or.inr ⟨τ1, τ1', rfl, e, a⟩

/-! ## 2. reading -/

theorem AgreeC.vs {R : Region} {τ τ' : Store} (a : AgreeC R τ τ') :
    ∀ v, InStore τ R.S v → getVar τ' v = getVar τ v := fun v hv => a.same.vsame v hv.1

theorem AgreeC.followT {R : Region} {τ τ' : Store} (a : AgreeC R τ τ') {t : Term} (ht : TermInR τ R.S t) :
    Tfv.followT τ' t = Tfv.followT τ t := followT_congr a.closed.closed a.vs a.same.vlen ht

theorem AgreeC.matchFuel {R : Region} {τ τ' : Store} (a : AgreeC R τ τ') : matchFuel τ' = matchFuel τ := by
  unfold Tfv.matchFuel; rw [a.same.vlen]

theorem AgreeC.termFuel {R : Region} {τ τ' : Store} (a : AgreeC R τ τ') : termFuel τ' = termFuel τ := by
  unfold Tfv.termFuel; rw [a.same.vlen]

theorem AgreeC.match3 {R : Region} {τ τ' : Store} (a : AgreeC R τ τ') (L : Lang) (n : Nat) (st aw : Bool)
    {x y : Term} (hx : TermInR τ R.S x) (hy : TermInR τ R.S y) :
    Tfv.match3 L τ' n st aw x y = Tfv.match3 L τ n st aw x y :=
  match3_congr a.closed.closed a.vs a.same.vlen n st aw x y hx hy

theorem AgreeC.occurs {R : Region} {τ τ' : Store} (a : AgreeC R τ τ') (L : Lang) (n : Nat)
    {x y : Term} (hx : TermInR τ R.S x) (hy : TermInR τ R.S y) :
    Tfv.occurs L τ' n x y = Tfv.occurs L τ n x y :=
  occurs_congr a.closed.closed a.vs a.same.vlen n x y hx hy

theorem AgreeC.directVars {R : Region} {τ τ' : Store} (a : AgreeC R τ τ') (n : Nat) {t : Term}
    (acc : List Nat) (ht : TermInR τ R.S t) : Tfv.directVars τ' n t acc = Tfv.directVars τ n t acc :=
  directVars_congr a.closed.closed a.vs a.same.vlen n t acc ht

/-- the constraint set of an allocated member -/
theorem AgreeC.csetOf {R : Region} {τ τ' : Store} (a : AgreeC R τ τ') {v : Nat} (hv : InStore τ R.S v) :
    getCset τ' (getVar τ' v).cset = getCset τ (getVar τ v).cset := by
  rw [a.vs v hv, a.same.ksame _ (a.closed.cs v hv.2 hv.1)]

theorem AgreeC.ins {R : Region} {τ τ' : Store} (a : AgreeC R τ τ') {v : Nat} (hv : InStore τ R.S v) :
    InStore τ' R.S v := ⟨hv.1, by rw [a.same.vlen]; exact hv.2⟩

/-! ## 3. writing -/

theorem getConstr_setConstr (σ : Store) (c d : Nat) (x : Constr) :
    getConstr (setConstr σ c x) d = if c = d ∧ c < σ.constrs.length then x else getConstr σ d := by
  unfold getConstr setConstr
  simp only [List.getD_eq_getElem?_getD, List.getElem?_set]
  by_cases h : c = d
  · subst h
    by_cases h2 : c < σ.constrs.length
    · simp [h2]
    · simp [h2]
  · simp [h]

theorem getVar_newVar_full (σ : Store) (wc : Bool) (v : Nat) :
    getVar (newVar σ wc).1 v =
      if v < σ.vars.length then getVar σ v
      else if v = σ.vars.length then { wildcard := wc, cset := σ.csets.length } else {} := by
  split
  · next h => exact getVar_newVar_lt h
  · split
    · next h => subst h; exact getVar_newVar_eq σ wc
    · apply getVar_oor
      rw [length_newVar]; omega

theorem AgreeC.put {R : Region} {τ τ' : Store} (a : AgreeC R τ τ') {v : Nat} (hv : R.S v) (i : VarInfo)
    (hb : ∀ b, i.bound = some b → TermInR τ R.S b) (hk : R.K i.cset) :
    AgreeC R (setVar τ v i) (setVar τ' v i) := by
  refine ⟨⟨by rw [length_setVar, length_setVar]; exact a.same.vlen, a.same.klen, a.same.clen,
    fun w hw => ?_, a.same.ksame, a.same.csame⟩, (frC_setVar a.closed hv i hb hk).closed⟩
  rw [getVar_setVar, getVar_setVar, a.same.vlen, a.same.vsame w hw]

theorem AgreeC.put_same {R : Region} {τ τ' : Store} (a : AgreeC R τ τ') {v : Nat} (hv : InStore τ R.S v)
    (i : VarInfo) (hb : i.bound = (getVar τ v).bound) (hk : i.cset = (getVar τ v).cset) :
    AgreeC R (setVar τ v i) (setVar τ' v i) :=
  a.put hv.1 i (fun b e => a.closed.bnd v b hv.1 (hb ▸ e)) (hk ▸ a.closed.cs v hv.2 hv.1)

theorem AgreeC.set_cs {R : Region} {τ τ' : Store} (a : AgreeC R τ τ') {k : Nat} (hk : R.K k) {cs : List Nat}
    (hcs : ∀ c, c ∈ cs → R.C c ∧ c < τ.constrs.length) : AgreeC R (setCset τ k cs) (setCset τ' k cs) := by
  refine ⟨⟨a.same.vlen, by rw [length_csets_setCset, length_csets_setCset]; exact a.same.klen, a.same.clen,
    a.same.vsame, fun j hj => ?_, a.same.csame⟩, (frC_setCset a.closed hk hcs).closed⟩
  rw [getCset_setCset, getCset_setCset, a.same.klen, a.same.ksame j hj]

theorem AgreeC.set_constr {R : Region} {τ τ' : Store} (a : AgreeC R τ τ') {c : Nat} (hC : R.C c) (x : Constr)
    (hx : TermsInR τ R.S (constrTerms x)) : AgreeC R (setConstr τ c x) (setConstr τ' c x) := by
  refine ⟨⟨a.same.vlen, a.same.klen, by rw [length_setConstr, length_setConstr]; exact a.same.clen,
    a.same.vsame, a.same.ksame, fun d hd => ?_⟩, (frC_setConstr a.closed hC x hx).closed⟩
  rw [getConstr_setConstr, getConstr_setConstr, a.same.clen, a.same.csame d hd]

theorem AgreeC.newVar {R : Region} {τ τ' : Store} (a : AgreeC R τ τ') (wc : Bool) :
    AgreeC R (newVar τ wc).1 (newVar τ' wc).1 := by
  refine ⟨⟨by rw [length_newVar, length_newVar, a.same.vlen],
    by rw [length_csets_newVar, length_csets_newVar, a.same.klen], a.same.clen,
    fun w hw => ?_, fun k hk => ?_, a.same.csame⟩, (frC_newVar a.closed wc).closed⟩
  · rw [getVar_newVar_full, getVar_newVar_full, a.same.vlen, a.same.klen, a.same.vsame w hw]
  · rw [getCset_newVar, getCset_newVar, a.same.ksame k hk]

theorem AgreeC.newVars {R : Region} : ∀ (n : Nat) {τ τ' : Store}, AgreeC R τ τ' →
    AgreeC R (newVars τ n).1 (newVars τ' n).1 ∧ (newVars τ' n).2 = (newVars τ n).2
  | 0, _, _, a => by
    unfold Tfv.newVars
    exact ⟨a, rfl⟩
  | n+1, τ, τ', a => by
    obtain ⟨a2, e2⟩ := AgreeC.newVars n (a.newVar false)
    unfold Tfv.newVars
    simp only []
    refine ⟨a2, ?_⟩
    rw [e2, snd_newVar, snd_newVar, a.same.vlen]

theorem AgreeC.fold_cs {R : Region} {k : Nat} (hk : R.K k) : ∀ (vars : List Nat) (τ τ' : Store),
    AgreeC R τ τ' → (∀ x, x ∈ vars → R.S x) →
    AgreeC R (vars.foldl (fun σ w => setVar σ w { (getVar σ w) with cset := k }) τ)
      (vars.foldl (fun σ w => setVar σ w { (getVar σ w) with cset := k }) τ')
  | [], _, _, a, _ => a
  | w :: ws, τ, τ', a, h => by
    simp only [List.foldl_cons]
    have hw := h w List.mem_cons_self
    rw [a.same.vsame w hw]
    exact AgreeC.fold_cs hk ws _ _ (a.put hw _ (fun b e => a.closed.bnd w b hw e) hk)
      (fun x hx => h x (List.mem_cons_of_mem _ hx))

/-! ## 4. the stores `bind` builds -/

theorem agreeC_bindBaseStore {R : Region} {τ τ' : Store} (a : AgreeC R τ τ') {v : Nat} (hv : InStore τ R.S v)
    {t : Term} (ht : TermInR τ R.S t) : AgreeC R (bindBaseStore τ v t) (bindBaseStore τ' v t) := by
  unfold bindBaseStore
  simp only [clearW_congr (a.vs v hv)]
  have a1 : AgreeC R (setVar τ v (clearW τ v)) (setVar τ' v (clearW τ v)) := a.put_same hv _ rfl rfl
  refine a1.put hv.1 _ (fun b hb => ?_) (a.closed.cs v hv.2 hv.1)
  injection hb with hb; subst hb
  exact termInR_mono (Nat.le_of_eq (length_setVar _ _ _).symm) ht

theorem merged_congr {R : Region} {τ τ' : Store} (a : AgreeC R τ τ') : ∀ (vars : List Nat),
    (∀ x, x ∈ vars → InStore τ R.S x) → ∀ (init : List Nat),
    vars.foldl (fun acc w => unionSorted acc (getCset τ' (getVar τ' w).cset)) init =
      vars.foldl (fun acc w => unionSorted acc (getCset τ (getVar τ w).cset)) init
  | [], _, _ => rfl
  | w :: ws, h, init => by
    simp only [List.foldl_cons]
    rw [a.csetOf (h w List.mem_cons_self)]
    exact merged_congr a ws (fun x hx => h x (List.mem_cons_of_mem _ hx)) _

theorem agreeC_bindAppStore {R : Region} {τ τ' : Store} (a : AgreeC R τ τ') {v : Nat} (hv : InStore τ R.S v)
    {t : Term} (ht : TermInR τ R.S t) : AgreeC R (bindAppStore τ v t) (bindAppStore τ' v t) := by
  have aB := agreeC_bindBaseStore a hv ht
  have f0 := frC_bindBaseStore a.closed hv ht
  have ht0 := f0.tin ht
  have hki : R.K (clearW τ v).cset := a.closed.cs v hv.2 hv.1
  have hvars : ∀ x, x ∈ directVars (bindBaseStore τ v t) (termFuel (bindBaseStore τ v t)) t [] →
      InStore (bindBaseStore τ v t) R.S x :=
    directVars_in f0.closed.closed _ _ _ ht0 (fun x hx => nomatch hx)
  have hd : directVars (bindBaseStore τ' v t) (termFuel (bindBaseStore τ' v t)) t [] =
      directVars (bindBaseStore τ v t) (termFuel (bindBaseStore τ v t)) t [] := by
    rw [aB.termFuel]
    exact aB.directVars _ [] ht0
  unfold bindAppStore
  simp only [hd, clearW_congr (a.vs v hv), merged_congr aB _ hvars, aB.same.ksame _ hki]
  refine AgreeC.fold_cs hki _ _ _ (aB.set_cs hki ?_) (fun x hx => (hvars x hx).1)
  refine merged_in (fun c => R.C c ∧ c < (bindBaseStore τ v t).constrs.length) _ (fun w hw c hm => ?_) _
    (fun c hm => f0.closed.mem _ c hki hm)
  exact f0.closed.mem _ c (f0.closed.cs w (hvars w hw).2 (hvars w hw).1) hm

/-- what `bindVarStore` does after the binding itself: merge the constraint sets, re-point `v`, clear the flag of `tv` -/
def bindVarRest (σb : Store) (v tv ki : Nat) : Store :=
  let k := (getVar σb tv).cset
  let σc := setCset σb k (unionSorted (getCset σb k) (getCset σb ki))
  let σd := setVar σc v { (getVar σc v) with cset := k }
  setVar σd tv { (getVar σd tv) with wildcard := false }

theorem bindVarStore_eq (σ : Store) (v tv : Nat) :
    bindVarStore σ v tv = bindVarRest (bindBaseStore σ v (.var tv)) v tv (clearW σ v).cset := rfl

theorem agreeC_bindVarRest {R : Region} {τ τ' : Store} (a : AgreeC R τ τ') {v tv ki : Nat}
    (hv : InStore τ R.S v) (htv : InStore τ R.S tv) (hki : R.K ki) :
    AgreeC R (bindVarRest τ v tv ki) (bindVarRest τ' v tv ki) := by
  have hkt := a.closed.cs tv htv.2 htv.1
  unfold bindVarRest
  simp only []
  rw [a.vs tv htv, a.same.ksame _ hkt, a.same.ksame _ hki]
  have a1 := a.set_cs hkt (cs := unionSorted (getCset τ (getVar τ tv).cset) (getCset τ ki)) (fun c hm => by
    rcases mem_unionSorted _ _ hm with h1 | h1
    · exact a.closed.mem _ c hkt h1
    · exact a.closed.mem _ c hki h1)
  have hv1 : InStore (setCset τ (getVar τ tv).cset (unionSorted (getCset τ (getVar τ tv).cset) (getCset τ ki))) R.S v := hv
  rw [a1.vs v hv1]
  have a2 := a1.put hv.1 { (getVar (setCset τ (getVar τ tv).cset
      (unionSorted (getCset τ (getVar τ tv).cset) (getCset τ ki))) v) with cset := (getVar τ tv).cset }
    (fun b e => a1.closed.bnd v b hv.1 e) hkt
  have htv2 : InStore (setVar (setCset τ (getVar τ tv).cset
      (unionSorted (getCset τ (getVar τ tv).cset) (getCset τ ki))) v
      { (getVar (setCset τ (getVar τ tv).cset
        (unionSorted (getCset τ (getVar τ tv).cset) (getCset τ ki))) v) with cset := (getVar τ tv).cset }) R.S tv :=
    ⟨htv.1, by rw [length_setVar]; exact htv.2⟩
  rw [a2.vs tv htv2]
  exact a2.put_same htv2 _ rfl rfl

theorem agreeC_bindVarStore {R : Region} {τ τ' : Store} (a : AgreeC R τ τ') {v tv : Nat}
    (hv : InStore τ R.S v) (htv : InStore τ R.S tv) : AgreeC R (bindVarStore τ v tv) (bindVarStore τ' v tv) := by
  have aB := agreeC_bindBaseStore a hv (termInR_var.mpr htv)
  have f0 := frC_bindBaseStore a.closed hv (termInR_var.mpr htv)
  rw [bindVarStore_eq, bindVarStore_eq, clearW_congr (a.vs v hv)]
  exact agreeC_bindVarRest aB (f0.ins hv) (f0.ins htv) (a.closed.cs v hv.2 hv.1)

end Tfv.C16C
