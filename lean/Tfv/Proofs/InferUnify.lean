import Tfv.Proofs.InferSound
/-!
# Soundness of the constraint-free inference engine (C03), part 2

`unify`, `unifyList`, `fix`, `fixList` at fuel `n+1` from the callees at fuel `n`,
the induction on the fuel, and `applyT`.
-/
namespace Tfv.C03P

def UnifyListS (L : Lang) (n : Nat) : Prop :=
  ∀ σ vs xs ys σ', OkStore L σ → NoConstraints σ → okTermL L σ xs = true → okTermL L σ ys = true →
    xs.length = vs.length → ys.length = vs.length →
    unifyList L n σ vs xs ys true false false = .ok σ' →
    Step L σ σ' ∧ ∀ ρ, Sat L ρ σ' → SubArgs L vs (denL ρ xs) (denL ρ ys)

def FixS (L : Lang) (n : Nat) : Prop :=
  ∀ σ t pl σ' t', OkStore L σ → NoConstraints σ → okTerm L σ t = true →
    fix L n σ t pl = .ok (σ', t') →
    Step L σ σ' ∧ okTerm L σ' t' = true ∧ ∀ ρ, Sat L ρ σ' → den ρ t' = den ρ t

def FixListS (L : Lang) (n : Nat) : Prop :=
  ∀ σ vs ps pl σ', OkStore L σ → NoConstraints σ → okTermL L σ ps = true →
    fixList L n σ vs ps pl = .ok σ' → Step L σ σ'

/-! ## 1. small facts -/

theorem sub_of_eq {L : Lang} {s t : Ty} (hs : wfTy L s = true) (e : s = t) : Sub L s t := by
  subst e; exact sub_refl s hs

/-- nullary operators in the declared order, with whatever (well-sized) argument list on the right -/
theorem sub_of_opSub_nullary {L : Lang} (wf : WF L) {ao bo : Nat} {ts : List Ty}
    (h0 : arityOf L ao = 0) (hts : ts.length = arityOf L bo) (h : opSub L ao bo = true) :
    Sub L (.app ao []) (.app bo ts) := by
  rcases (opSub_iff wf ao bo).mp h with e | e | e
  · subst e; exact Sub.bot _
  · subst e
    rw [arity_top wf] at hts
    rw [List.eq_nil_of_length_eq_zero hts]; exact Sub.top _
  · have hb0 : arityOf L bo = 0 := by
      rcases anc_nullary wf e with e1 | ⟨_, e1⟩
      · rw [← e1]; exact h0
      · exact e1
    rw [hb0] at hts
    rw [List.eq_nil_of_length_eq_zero hts]
    exact Sub.base h0 hb0 e

theorem unifyList_cons (L : Lang) (n : Nat) (σ : Store) (v : Bool) (vs : List Bool) (x y : Term)
    (xs ys : List Term) (st sb sw : Bool) :
    unifyList L (n+1) σ (v :: vs) (x :: xs) (y :: ys) st sb sw =
      match (if v then unify L n σ x y st sb sw else unify L n σ y x st sb sw) with
      | .error e => .error e
      | .ok σ1 => unifyList L n σ1 vs xs ys st sb sw := by
  rw [unifyList]; rfl

theorem unifyList_nil (L : Lang) (n : Nat) (σ : Store) (st sb sw : Bool) :
    unifyList L (n+1) σ [] [] [] st sb sw = .ok σ := by
  rw [unifyList]
  intro _ _ _ _ _ _ h; cases h

theorem fixList_cons (L : Lang) (n : Nat) (σ : Store) (v : Bool) (vs : List Bool) (p : Term)
    (ps : List Term) (pl : Bool) :
    fixList L (n+1) σ (v :: vs) (p :: ps) pl =
      match fix L n σ p (if v then pl else !pl) with
      | .error e => .error e
      | .ok (σ1, _) => fixList L n σ1 vs ps pl := by
  rw [fixList]; rfl

theorem fixList_nil_left (L : Lang) (n : Nat) (σ : Store) (ps : List Term) (pl : Bool) :
    fixList L (n+1) σ [] ps pl = .ok σ := by
  rw [fixList]
  intro _ _ _ _ h; cases h

theorem fixList_nil_right (L : Lang) (n : Nat) (σ : Store) (vs : List Bool) (pl : Bool) :
    fixList L (n+1) σ vs [] pl = .ok σ := by
  cases vs <;> rw [fixList] <;> intro _ _ _ _ _ h <;> cases h

/-! ## 2. `unify` -/

theorem unify_step {L : Lang} (wf : WF L) {n : Nat} (hlist : UnifyListS L n) (hbind : BindS L n)
    (habove : AboveS L n) (hbelow : BelowS L n) : UnifyS L (n+1) := by
  intro σ a b σ' ok nc ha hb h
  have ha' := okTerm_followT ok a ha
  have hb' := okTerm_followT ok b hb
  -- it suffices to relate the followed terms
  suffices hh : Step L σ σ' ∧ ∀ ρ, Sat L ρ σ' → Sub L (den ρ (followT σ a)) (den ρ (followT σ b)) by
    refine ⟨hh.1, fun ρ hρ => ?_⟩
    have := hh.2 ρ hρ
    rw [den_followT (hh.1.sat ρ hρ), den_followT (hh.1.sat ρ hρ)] at this
    exact this
  unfold unify at h
  split at h
  · next av bv e1 e2 =>
    simp only [Bool.not_false, Bool.true_or, if_true] at h
    rw [e1] at ha'; rw [e2] at hb'
    rw [e1, e2]
    obtain ⟨s, hs⟩ := hbind σ av _ σ' ok nc (okTerm_var.mp ha') hb' (bindPre_var L σ av bv) h
    refine ⟨s, fun ρ hρ => ?_⟩
    rw [den_var]
    exact sub_of_eq (hρ.wf av) (hs ρ hρ)
  · next ao as bo bs e1 e2 =>
    simp only [Bool.true_and, Bool.false_eq_true, if_false, Bool.not_true, Bool.false_and] at h
    rw [e1] at ha'; rw [e2] at hb'
    rw [e1, e2]
    obtain ⟨hao, hasl, has⟩ := okTerm_app.mp ha'
    obtain ⟨hbo, hbsl, hbs⟩ := okTerm_app.mp hb'
    split at h
    · next hbt =>
      injection h with h; subst h
      refine ⟨Step.refl ok nc, fun ρ _ => ?_⟩
      simp only [Bool.or_eq_true, beq_iff_eq] at hbt
      rw [den_app, den_app]
      rcases hbt with e | e
      · subst e
        rw [arity_bot wf] at hasl
        rw [List.eq_nil_of_length_eq_zero hasl, denL_nil]; exact Sub.bot _
      · subst e
        rw [arity_top wf] at hbsl
        rw [List.eq_nil_of_length_eq_zero hbsl, denL_nil]; exact Sub.top _
    · split at h
      · next h0 =>
        have h0 : arityOf L ao = 0 := by simpa using h0
        split at h
        · cases h
        · next hop =>
          injection h with h; subst h
          have hop : opSub L ao bo = true := by simpa using hop
          refine ⟨Step.refl ok nc, fun ρ _ => ?_⟩
          rw [den_app, den_app]
          rw [h0] at hasl
          rw [List.eq_nil_of_length_eq_zero hasl, denL_nil]
          exact sub_of_opSub_nullary wf h0 (by rw [length_denL]; exact hbsl) hop
      · next h0 =>
        have h0 : arityOf L ao ≠ 0 := by simpa using h0
        split at h
        · next heq =>
          have heq : ao = bo := by simpa using heq
          subst heq
          obtain ⟨s, hs⟩ := hlist σ _ as bs σ' ok nc has hbs hasl hbsl h
          refine ⟨s, fun ρ hρ => ?_⟩
          rw [den_app, den_app]
          exact Sub.cong h0 (hs ρ hρ)
        · cases h
  · next av bo bs e1 e2 =>
    simp only [Bool.false_or, Bool.false_and, Bool.false_eq_true, if_false, if_true] at h
    rw [e1] at ha'; rw [e2] at hb'
    rw [e1, e2]
    obtain ⟨hbo, hbsl, hbs⟩ := okTerm_app.mp hb'
    have hav := okTerm_var.mp ha'
    split at h
    · next htop =>
      have htop : bo = TOP := by simpa using htop
      subst htop
      injection h with h; subst h
      refine ⟨Step.refl ok nc, fun ρ _ => ?_⟩
      rw [arity_top wf] at hbsl
      rw [den_app, List.eq_nil_of_length_eq_zero hbsl, denL_nil]; exact Sub.top _
    · split at h
      · cases h
      · split at h
        · next h0 =>
          have h0 : arityOf L bo = 0 := by simpa using h0
          obtain ⟨s, hs⟩ := hbelow σ av bo σ' ok nc hav hbo h0 h
          refine ⟨s, fun ρ hρ => ?_⟩
          rw [h0] at hbsl
          rw [den_var, den_app, List.eq_nil_of_length_eq_zero hbsl, denL_nil]
          exact hs ρ hρ
        · next h0 =>
          have h0 : arityOf L bo ≠ 0 := by simpa using h0
          obtain ⟨s, hs⟩ := hbind σ av _ σ' ok nc hav hb' (bindPre_compound h0) h
          refine ⟨s, fun ρ hρ => ?_⟩
          rw [den_var]
          exact sub_of_eq (hρ.wf av) (hs ρ hρ)
  · next ao as bv e1 e2 =>
    simp only [Bool.false_or, Bool.false_and, Bool.false_eq_true, if_false, if_true] at h
    rw [e1] at ha'; rw [e2] at hb'
    rw [e1, e2]
    obtain ⟨hao, hasl, has⟩ := okTerm_app.mp ha'
    have hbv := okTerm_var.mp hb'
    split at h
    · next hbot =>
      have hbot : ao = BOT := by simpa using hbot
      subst hbot
      injection h with h; subst h
      refine ⟨Step.refl ok nc, fun ρ _ => ?_⟩
      rw [arity_bot wf] at hasl
      rw [den_app, List.eq_nil_of_length_eq_zero hasl, denL_nil]; exact Sub.bot _
    · split at h
      · cases h
      · split at h
        · next h0 =>
          have h0 : arityOf L ao = 0 := by simpa using h0
          obtain ⟨s, hs⟩ := habove σ bv ao σ' ok nc hbv hao h0 h
          refine ⟨s, fun ρ hρ => ?_⟩
          rw [h0] at hasl
          rw [den_var, den_app, List.eq_nil_of_length_eq_zero hasl, denL_nil]
          exact hs ρ hρ
        · next h0 =>
          have h0 : arityOf L ao ≠ 0 := by simpa using h0
          obtain ⟨s, hs⟩ := hbind σ bv _ σ' ok nc hbv ha' (bindPre_compound h0) h
          refine ⟨s, fun ρ hρ => ?_⟩
          rw [den_var]
          exact sub_of_eq (wfTy_den hρ.wf _ (s.okTerm ha')) (hs ρ hρ).symm

/-! ## 3. `unifyList` -/

theorem unifyList_step {L : Lang} {n : Nat} (hunify : UnifyS L n) (hlist : UnifyListS L n) :
    UnifyListS L (n+1) := by
  intro σ vs xs ys σ' ok nc hxs hys hlx hly h
  match vs, xs, ys, hlx, hly with
  | [], [], [], _, _ =>
    rw [unifyList_nil] at h
    injection h with h; subst h
    refine ⟨Step.refl ok nc, fun ρ _ => ?_⟩
    rw [denL_nil]; exact SubArgs.nil
  | [], _ :: _, _, hlx, _ => simp at hlx
  | [], [], _ :: _, _, hly => simp at hly
  | _ :: _, [], _, hlx, _ => simp at hlx
  | _ :: _, _ :: _, [], _, hly => simp at hly
  | v :: vs, x :: xs, y :: ys, hlx, hly =>
    rw [unifyList_cons] at h
    obtain ⟨hx, hxs'⟩ := okTermL_cons.mp hxs
    obtain ⟨hy, hys'⟩ := okTermL_cons.mp hys
    split at h
    · cases h
    · next σ1 h1 =>
      have k1 : Step L σ σ1 ∧ ∀ ρ, Sat L ρ σ1 →
          (if v then Sub L (den ρ x) (den ρ y) else Sub L (den ρ y) (den ρ x)) := by
        cases v with
        | true => simpa using hunify σ x y σ1 ok nc hx hy (by simpa using h1)
        | false => simpa using hunify σ y x σ1 ok nc hy hx (by simpa using h1)
      obtain ⟨s1, hs1⟩ := k1
      obtain ⟨s2, hs2⟩ := hlist σ1 vs xs ys σ' s1.ok s1.nc (s1.okTermL hxs') (s1.okTermL hys')
        (by simpa using hlx) (by simpa using hly) h
      refine ⟨s1.trans s2, fun ρ hρ => ?_⟩
      rw [denL_cons, denL_cons]
      have := hs1 ρ (s2.sat ρ hρ)
      cases v with
      | true => exact SubArgs.co (by simpa using this) (hs2 ρ hρ)
      | false => exact SubArgs.contra (by simpa using this) (hs2 ρ hρ)

/-! ## 4. `fix`, `fixList` -/

theorem fix_step {L : Lang} {n : Nat} (hbind : BindS L n) (hlist : FixListS L n) : FixS L (n+1) := by
  intro σ t pl σ' t' ok nc ht h
  have ht' := okTerm_followT ok t ht
  unfold fix at h
  split at h
  · next o args e1 =>
    rw [e1] at ht'
    split at h
    · cases h
    · next σ1 h1 =>
      injection h with h
      injection h with h2 h3
      subst h2; subst h3
      have s := hlist σ _ args pl σ1 ok nc (okTerm_app.mp ht').2.2 h1
      refine ⟨s, s.okTerm ht', fun ρ hρ => ?_⟩
      rw [← e1, den_followT (s.sat ρ hρ)]
  · next v e1 =>
    rw [e1] at ht'
    have hv := okTerm_var.mp ht'
    simp only [] at h
    split at h
    · cases h
    · next σ1 h1 =>
      injection h with h
      injection h with h2 h3
      subst h2; subst h3
      -- binding to the own lower (upper) bound
      have bind_own : ∀ o, ((getVar σ v).lower = some o ∨ (getVar σ v).upper = some o) →
          bind L n σ v (.app o []) = .ok σ1 → Step L σ σ1 := by
        intro o ho hb
        have ho0 : o < L.length ∧ arityOf L o = 0 := by
          rcases ho with ho | ho
          · exact ok.lower v o ho
          · exact ok.upper v o ho
        refine (hbind σ v _ σ1 ok nc hv (okTerm_base ho0.1 ho0.2) ?_ hb).1
        intro o' args' e _
        injection e with e _
        subst e
        rcases ho with ho | ho
        · refine ⟨fun l hl => Or.inl ?_, fun u hu => Or.inl (ok.ordered v _ u ho hu)⟩
          rw [ho] at hl; injection hl with hl; subst hl; exact opSub_self L _
        · refine ⟨fun l hl => Or.inl (ok.ordered v l _ hl ho), fun u hu => Or.inl ?_⟩
          rw [ho] at hu; injection hu with hu; subst hu; exact opSub_self L _
      have s : Step L σ σ1 := by
        split at h1
        · split at h1
          · next l hl => exact bind_own l (Or.inl hl) h1
          · injection h1 with h1; subst h1; exact Step.refl ok nc
        · split at h1
          · split at h1
            · next u hu => exact bind_own u (Or.inr hu) h1
            · injection h1 with h1; subst h1; exact Step.refl ok nc
          · injection h1 with h1; subst h1; exact Step.refl ok nc
      refine ⟨s, okTerm_followT s.ok _ (s.okTerm ht'), fun ρ hρ => ?_⟩
      rw [den_followT hρ, ← e1, den_followT (s.sat ρ hρ)]

theorem fixList_step {L : Lang} {n : Nat} (hfix : FixS L n) (hlist : FixListS L n) :
    FixListS L (n+1) := by
  intro σ vs ps pl σ' ok nc hps h
  match vs, ps with
  | [], ps =>
    rw [fixList_nil_left] at h
    injection h with h; subst h; exact Step.refl ok nc
  | vs, [] =>
    rw [fixList_nil_right] at h
    injection h with h; subst h; exact Step.refl ok nc
  | v :: vs, p :: ps =>
    rw [fixList_cons] at h
    obtain ⟨hp, hps'⟩ := okTermL_cons.mp hps
    split at h
    · cases h
    · next σ1 t1 h1 =>
      obtain ⟨s1, _, _⟩ := hfix σ p _ σ1 t1 ok nc hp h1
      exact s1.trans (hlist σ1 vs ps pl σ' s1.ok s1.nc (s1.okTermL hps') h)

/-! ## 5. the induction on the fuel -/

theorem all_sound {L : Lang} (wf : WF L) : ∀ n,
    UnifyS L n ∧ UnifyListS L n ∧ BindS L n ∧ AboveS L n ∧ BelowS L n ∧ FixS L n ∧ FixListS L n
  | 0 => by
    refine ⟨?_, ?_, ?_, ?_, ?_, ?_, ?_⟩
    · intro σ a b σ' _ _ _ _ h; unfold unify at h; cases h
    · intro σ vs xs ys σ' _ _ _ _ _ _ h; unfold unifyList at h; cases h
    · intro σ v t σ' _ _ _ _ _ h; unfold bind at h; cases h
    · intro σ v new σ' _ _ _ _ _ h; unfold above at h; cases h
    · intro σ v new σ' _ _ _ _ _ h; unfold below at h; cases h
    · intro σ t pl σ' t' _ _ _ h; unfold fix at h; cases h
    · intro σ vs ps pl σ' _ _ _ h; unfold fixList at h; cases h
  | n+1 => by
    obtain ⟨h1, h2, h3, h4, h5, h6, h7⟩ := all_sound wf n
    exact ⟨unify_step wf h2 h3 h4 h5, unifyList_step h1 h2, bind_step wf h1,
      above_step wf h3, below_step wf h3, fix_step h3 h7, fixList_step h6 h7⟩

end Tfv.C03P
