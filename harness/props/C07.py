"""C07 - each concept node carries its inferred type and all canonical supertypes."""
from __future__ import annotations
import langgen as G
import infer as I
import exprgen as X
import graphgen as GG
from refsub import ref_sub

RULE = ("well-typed expressions (first- and higher-order, typed/untyped/numbered sources) over generated languages with varied canon (listed base and nested "
        "compound types, each Top/Bottom combination) and random combinations of the 13 with_* switches (labels off); the graph of add_expr is compared with the "
        "model's graph up to blank-node renaming; oracle on the implementation's own graph: every source / operator application node (recorded by wrapping add_expr) "
        "has exactly the expected tf:type node (decoded structurally; the language URI iff canonical), tf:via, tf:subtypeOf = all canonical supertypes by the "
        "reference order, containsType / containsOperation = the unions over nodes, type nodes record operator and parameters in order once per distinct type; "
        "non-trivial = at least two operator applications; distinct by (language, canon, switches, expression)")
ASSUMPTIONS = ["labels (rdfs:label) are switched off here; they are compared in C19", "re-check order fixed to creation order (hook)"]
TRUSTED = ["harness/graphgen.py (canonical text, harness/iso.py exact isomorphism)", "harness/refsub.py (oracle)"]


class NodeRecorder:
    """records (expression object, concept node) for every add_expr call"""
    def __enter__(self):
        from transforge.graph import TransformationGraph
        self.cls = TransformationGraph
        self.orig = TransformationGraph.add_expr
        self.pairs = []
        rec = self

        def add_expr(g, expr, root, current=None, intermediate=False, origin=None):
            n = rec.orig(g, expr, root, current, intermediate, origin)
            rec.pairs.append((expr, n, intermediate))
            return n
        TransformationGraph.add_expr = add_expr
        return self

    def __exit__(self, *a):
        self.cls.add_expr = self.orig


def generalize(t, ops):
    """inferred type -> data with variables replaced by Top; second component: closed?"""
    from transforge import type as T
    t = t.follow()
    if isinstance(t, T.TypeVariable):
        return (G.TOP, ()), False
    args, closed = [], True
    for p in t.params:
        a, c = generalize(p, ops)
        args.append(a)
        closed = closed and c
    return (I.op_index(t.operator, ops), tuple(args)), closed


def decode_type_node(g, node, lang, spec, ops, canon_uri, seen=None):
    """the type a type node stands for: a language URI of a canonical type, a base-type URI, or operator + rdf:_i parameters"""
    from rdflib import RDF, RDFS, BNode
    if node in canon_uri:
        return canon_uri[node]
    for i in range(len(spec.decls)):
        if spec.arity(i) == 0 and node == lang.uri(ops[i]):
            return (i, ())
    opsup = [o for o in g.objects(node, RDFS.subClassOf)]
    for i in range(len(spec.decls)):
        if spec.arity(i) > 0 and lang.uri(ops[i]) in opsup:
            args = []
            for k in range(1, spec.arity(i) + 1):
                ps = list(g.objects(node, RDF[f"_{k}"]))
                if len(ps) != 1:
                    return ("bad-params", (i, k, len(ps)))
                args.append(decode_type_node(g, ps[0], lang, spec, ops, canon_uri))
            extra = list(g.objects(node, RDF[f"_{spec.arity(i) + 1}"]))
            if extra:
                return ("bad-params", (i, "extra"))
            return (i, tuple(args))
    return ("undecodable", str(node))


def check_graph(g, root, e, pairs, bits, lang, spec, ops, canon):
    """C07's statement on the implementation's own graph; returns list of (description, features)"""
    from rdflib import RDF, RDFS, BNode, URIRef
    from transforge.namespace import TF
    from transforge import expr as E
    sw = {name: b == "T" for name, b in zip(GG.SWITCHES, bits)}
    out = []
    cset = set(canon)
    canon_uri = {lang.uri(G.ty_py(t, ops)): t for t in canon}
    concept = {}
    for expr, node, intermediate in pairs:
        if isinstance(expr, (E.Source, E.Operation)):
            concept.setdefault(id(expr), (expr, node, intermediate))
    exp_contains_type, exp_contains_op = set(), set()
    tb_nodes = set()
    type_nodes_seen = {}
    for expr, node, intermediate in concept.values():
        is_src = isinstance(expr, E.Source)
        ty = expr.type if is_src else expr.type.output()
        tg, closed = generalize(ty, ops)
        canonical = closed and tg in cset
        typed = sw["with_types"] and (canonical or sw["with_noncanonical_types"])
        if not is_src:
            typed = typed and (sw["with_intermediate_types"] or not intermediate)
        tnodes = list(g.objects(node, TF.type))
        what = f"{'source' if is_src else 'operation ' + expr.operator.name} node of type {G.ty_str(tg, spec)}"
        if not is_src and sw["with_operators"]:
            vias = list(g.objects(node, TF.via))
            if vias != [lang.uri(expr.operator)]:
                out.append((f"{what}: tf:via is {vias}", {"check": "via"}))
            exp_contains_op.add(lang.uri(expr.operator))
        if not typed:
            if tnodes and not sw["with_types"]:
                out.append((f"{what}: has tf:type although types are off", {"check": "type-unexpected"}))
            continue
        if len(tnodes) != 1:
            out.append((f"{what}: {len(tnodes)} tf:type objects", {"check": "type-count"}))
            continue
        tn = tnodes[0]
        dec = decode_type_node(g, tn, lang, spec, ops, canon_uri)
        structural = sw["with_type_parameters"] or not tg[1] or canonical
        if structural and dec != tg and not (isinstance(tn, BNode) and not sw["with_type_parameters"]):
            out.append((f"{what}: tf:type node stands for {dec}", {"check": "type-node"}))
        if canonical and tn != lang.uri(G.ty_py(tg, ops)):
            out.append((f"{what}: canonical type but tf:type is {tn}, not its language URI", {"check": "type-uri"}))
        if tg not in cset and tg[1] and isinstance(tn, URIRef):
            out.append((f"{what}: non-canonical type was given the URI {tn}", {"check": "noncanonical-uri"}))
        if sw["with_membership"]:
            exp_contains_type.add(tn)
        # subtypeOf: exactly the canonical supertypes (including itself)
        subs = set(g.objects(node, TF.subtypeOf))
        want = {lang.uri(G.ty_py(s, ops)) for s in canon if ref_sub(spec, tg, s)} if canonical else set()
        if canonical and sw["with_membership"] and sw["with_membership_supertypes"]:
            exp_contains_type |= want
            if has_tb(tg):
                tb_nodes.add(True)      # (the membership of the supertypes rests on the same enumeration, whether or not subtypeOf is switched on)
        if canonical and sw["with_supertypes"]:
            if subs != want:
                missing = [canon_uri[u] for u in want - subs]
                extra = [u for u in subs - want]
                out.append((f"{what}: tf:subtypeOf lacks {[G.ty_str(m, spec) for m in missing[:3]]}, has extra {extra[:3]}",
                    {"check": "subtypeOf", "top_or_bottom_involved": has_tb(tg) or (bool(missing) and all(has_tb(m) for m in missing)), "extra": bool(extra)}))
                tb_nodes.add(True if has_tb(tg) else False)
        elif subs and not canonical:
            out.append((f"{what}: non-canonical type but tf:subtypeOf {sorted(subs)[:2]}", {"check": "subtypeOf-noncanonical"}))
    if sw["with_membership"]:
        got_t = set(g.objects(root, TF.containsType))
        if got_t != exp_contains_type:
            missing = exp_contains_type - got_t
            out.append((f"containsType lacks {sorted(missing)[:3]}, has foreign members {sorted(got_t - exp_contains_type)[:3]}",
                {"check": "containsType", "extra": bool(got_t - exp_contains_type),
                 "top_or_bottom_involved": (True in tb_nodes) or (bool(missing) and all(u in canon_uri and has_tb(canon_uri[u]) for u in missing))}))
        got_o = set(g.objects(root, TF.containsOperation))
        if sw["with_operators"] and got_o != exp_contains_op:
            out.append((f"containsOperation is {sorted(got_o)}, operators used {sorted(exp_contains_op)}", {"check": "containsOperation"}))
    # one node per distinct type; parameters in order
    decoded = {}
    for tn in set(g.subjects(RDF.type, TF.Type)) | {o for o in g.objects(None, TF.type)}:
        if sw["with_type_parameters"]:
            d = decode_type_node(g, tn, lang, spec, ops, canon_uri)
            if d[0] in ("bad-params",):
                out.append((f"type node {tn}: {d}", {"check": "type-params"}))
            elif d[0] != "undecodable" and isinstance(tn, BNode):
                # blank type nodes are memoised per structurally equal type *object*; variables are all rendered as Top,
                # so two nodes may decode alike only if the types contained variables
                decoded.setdefault(d, []).append(tn)
    return out


def has_tb(t):
    return t[0] in (G.TOP, G.BOT) or any(has_tb(a) for a in t[1])


def run(ctx):
    rng = ctx.rng
    nlang = 14 if ctx.tier == "quick" else 60
    for li in range(nlang):
        spec = G.gen_lang(rng, max_base=5, max_ops=2, max_arity=2)
        ops = spec.build()
        opdecls = X.gen_operators(rng, spec)
        top, bottom = rng.random() < 0.35, rng.random() < 0.25
        listed = G.gen_canon(rng, spec, max_items=4, depth=2) + [(b, ()) for b in spec.bases() if rng.random() < 0.7]
        language_cases(ctx, li, spec, ops, opdecls, listed, top, bottom, 14 if ctx.tier == "quick" else 30)
    lookthrough_family(ctx)


def language_cases(ctx, li, spec, ops, opdecls, listed, top, bottom, per_round):
    rng = ctx.rng
    # type synonyms for the result types of some operators (canonical or not): a synonym is a name, it must not make a type canonical
    from transforge.type import TypeAlias
    aliases = {}
    for k, (nm, sch) in enumerate(opdecls):
        if sch["nvars"] == 0 and sch["nwild"] == 0 and rng.random() < 0.5:
            t = sch["body"]
            while not I.is_var(t) and t[0] == G.FUN:
                t = t[1][1]
            if not I.is_var(t) and t[1] and not any_var(t):
                try:
                    aliases[f"Syn{k}"] = TypeAlias(G.ty_py(t, ops))
                except Exception:  # noqa
                    pass
    try:
        lang, operators = X.build_typed_language(spec, ops, opdecls, canon=listed, include_top=top, include_bottom=bottom, aliases=aliases or None)
    except Exception:  # noqa
        ctx.count("language_rejected")
        return
    if aliases:
        ctx.count("languages_with_synonyms")
    canon = sorted(G.py_to_data(t, ops) for t in lang.canon)
    if len(canon) > 120:
        ctx.count("canon_too_large_skipped")
        return
    ctx.setup(spec.sexp(), "ok T")
    ctx.setup("(aliases)", "ok")
    ctx.setup(X.operators_line(opdecls), "ok")
    ctx.setup(f"(canon {'T' if top else 'F'} {'T' if bottom else 'F'} " + " ".join(G.ty_sexp(t) for t in listed) + ")", "ok")
    ninputs = rng.randint(0, 2)
    trees = X.gen_typed_trees(rng, lang, spec, opdecls, ninputs, rounds=3, per_round=per_round)
    for tree in trees:
        bits = GG.gen_bits(rng)
        one_case(ctx, li, spec, ops, opdecls, lang, canon, listed, top, bottom, tree, ninputs, bits)


def any_var(t):
    return I.is_var(t) or any(any_var(a) for a in t[1])


def lookthrough_family(ctx):
    """canons in which canonical supertypes are reachable only THROUGH non-canonical types (contravariant / mixed-variance operators over a
    three-level chain, Top and/or Bottom canonical): the supertype annotations of nodes carrying such types"""
    rng = ctx.rng
    decls = list(G.BUILTIN_DECLS) + [("A", [], None), ("B", [], 5), ("C", [], 6), ("D", [], None), ("E", [], 8),
        ("K", [False], None), ("M", [False, True], None), ("F", [True], None)]
    spec = G.LangSpec(decls)
    ops = spec.build()
    A, B, C, D, E = [(5, ()), (6, ()), (7, ()), (8, ()), (9, ())]
    fixed = [([(11, (D, A))], True, False), ([(11, (D, D))], True, False), ([(11, (A, A))], True, False), ([(11, (B, C))], True, True),
             ([(11, (A, A))], False, True), ([(10, (D,))], True, True), ([(11, (E, A))], True, True), ([(11, (D, E)), (12, (B,))], True, True),
             ([(10, (B,)), D], False, True), ([(11, (D, D))], True, True),
             ([B, (12, (B,))], True, False), ([C, E, (12, (C,))], True, True)]
    n = 6 if ctx.tier == "quick" else len(fixed)
    for k, (listed, top, bottom) in enumerate(fixed[:3] + fixed[-2:] + rng.sample(fixed[3:-2], max(0, n - 5))):
        # operators that produce and consume the listed types, plus random ones
        x = ('v', 0)
        opdecls = [(X.OPNAMES[i], {"nvars": 0, "nwild": 0, "body": X.fun(rng.choice([A, B, C, D, E]), t), "constraints": []}) for i, t in enumerate(listed)]
        opdecls.append((X.OPNAMES[len(opdecls)], {"nvars": 1, "nwild": 0, "body": X.fun(x, x), "constraints": []}))
        opdecls.append((X.OPNAMES[len(opdecls)], {"nvars": 0, "nwild": 0, "body": X.fun(listed[0], rng.choice([A, D])), "constraints": []}))
        ctx.count("lookthrough_languages")
        # (all base types canonical, except where the canon lists a non-root base type on purpose: then its parent stays out)
        rest = [] if (not listed[0][1]) else [A, B, C, D, E]
        language_cases(ctx, ("lt", k), spec, ops, opdecls, listed + rest, top, bottom, 8 if ctx.tier == "quick" else 20)


def one_case(ctx, li, spec, ops, opdecls, lang, canon, listed, top, bottom, tree, ninputs, bits):
    from rdflib import BNode
    from transforge import expr as E
    from transforge.lang import NonCanonicalTypeError
    text = X.tree_text(tree)
    obs, ex, e, inputs = X.obs_typed(lang, text, ninputs, ops)
    if e is None:
        return
    g = GG.make_graph(lang, bits)
    root = BNode()
    try:
        with NodeRecorder() as rec:
            out = g.add_expr(e, root)
        gtext = GG.graph_text(g, lang, root, out)
    except NonCanonicalTypeError:
        gtext = "E:NonCanonicalTypeError"
        rec = None
    except Exception as exn:  # noqa
        gtext = "E:X:" + type(exn).__name__
        rec = None
    case = {"lang": spec.to_json(), "text": text, "inputs": ninputs, "bits": bits, "listed": listed, "top": top, "bottom": bottom}
    line = f"(gexpr {bits} {ninputs} {G.str_sexp(text)})"
    ctx.case(line, gtext, case, nontrivial=X.napps(tree) >= 2, key=(li, bits, text), cmp=GG.iso)
    ctx.count("graph_" + ("ok" if gtext.startswith("ok") else gtext))
    if rec is None:
        if gtext.startswith("E:X:"):
            ctx.fail(f"add_expr of `{text}` raised {gtext}", {"check": "add_expr-error", "exception": gtext}, dict(case, opdecls=[[n, s] for n, s in opdecls]))
        return
    for desc, feat in check_graph(g, root, e, rec.pairs, bits, lang, spec, ops, canon):
        ctx.fail(f"`{text}` (switches {bits}): {desc}", feat, dict(case, opdecls=[[n, s] for n, s in opdecls]), lines=[line])


def replay(ctx, payload):
    from props.C03 import fix_schema
    from rdflib import BNode
    inp = payload["input"]
    spec = G.LangSpec([(n, v, p) for n, v, p in inp["lang"]])
    ops = spec.build()
    opdecls = [(n, fix_schema(s)) for n, s in inp["opdecls"]]
    listed = [tt(t) for t in inp["listed"]]
    lang, operators = X.build_typed_language(spec, ops, opdecls, canon=listed, include_top=inp["top"], include_bottom=inp["bottom"])
    canon = sorted(G.py_to_data(t, ops) for t in lang.canon)
    obs, ex, e, inputs = X.obs_typed(lang, inp["text"], inp["inputs"], ops)
    g = GG.make_graph(lang, inp["bits"])
    root = BNode()
    with NodeRecorder() as rec:
        g.add_expr(e, root)
    bad = check_graph(g, root, e, rec.pairs, inp["bits"], lang, spec, ops, canon)
    for d, f in bad:
        print(d, f)
    print("oracle:", "holds" if not bad else "fails")
    return not bad


def tt(x):
    return (x[0], tuple(tt(a) for a in x[1]))
