import Tfv.Model
import Tfv.Spec.Sat
import Tfv.Spec.SatChain
import Tfv.Spec.SatWitness
import Tfv.Spec.History
import Tfv.Proofs.SchedSoundMain
import Tfv.Proofs.SchedSoundNoIntTop
import Tfv.Proofs.SchedSoundRun
import Tfv.Proofs.SchedSoundExamples
import Tfv.Proofs.InferNoInternalFuel
/-!
# C18 (with C03 and C17): under EVERY re-check order the engine is sound and never asserts

`Tfv/Props/C18.lean` shows that the outcome of an application DOES depend on the order in which the pending
constraints of a variable are re-examined (`C18_counterexample_*`). This file states what does NOT depend on
it. The scheduled engine (`Tfv/Model/InferSched.lean`: the model's mutual block with `check_constraints`
walking `ord (pending ids)`) satisfies, for every schedule `ord` that only reorders or drops what it is given
(`∀ l x, x ∈ ord l → x ∈ l`: every permutation, every `priorityOrd perm`, every filter),

* the soundness theorems of `Tfv/Props/C03Constr.lean` (`C18s_*_sound`, `C18s_apply_chain`): the store
  invariant `OkStoreC` is kept, solutions only shrink, `unify` makes `a ≤ b` under every remaining solution,
  an accepted application has every argument a subtype of its parameter under every solution of the final
  store;
* the no-internal-error theorems of `Tfv/Props/C17Engine.lean` (`C18s_*_no_internal`, `C18s_*_keeps`) — these
  need NO hypothesis on `ord` at all, not even that it returns allocated constraint ids.

So schedules can only differ in WHICH sound answer or WHICH declared error they give (`C18s_every_order`,
`C18s_two_orders_both_sound`).

Statements only; the proofs (`Tfv/Proofs/SchedSound*.lean`, namespace `Tfv.C18S`) are the two whole-block
inductions `all_soundC` / `all_noInternal` ported to the scheduled block (`all_soundCO`, `all_noInternalO`):
the only place the schedule matters is the list `checkListS` walks, and the soundness induction needs of that
list only that its members are allocated constraint ids, the no-internal induction nothing.

Non-vacuity: the store `σTwo` (instance of `x ** x [x << [A, B], x <= A]`) has ONE variable with TWO pending
constraints, which `priorityOrd [0, 1]` and `priorityOrd [1, 0]` walk in different orders.
-/
namespace Tfv.C18
open Tfv Tfv.C03P Tfv.C03C Tfv.C17E Tfv.C18S
open Tfv.C18P (runS langAB langABC schemaTwo schemaType argsType isOk errOf resultIs)

/-! ## 0. the schedules covered -/

/-- Every schedule that returns a permutation of its argument only reorders what it is given. -/
theorem C18s_ordSub_of_perm (ord : List Nat → List Nat) (h : ∀ l, (ord l).Perm l) :
    ∀ l x, x ∈ ord l → x ∈ l := ordSub_of_perm h

example : ∀ l : List Nat, (l.reverse).Perm l := fun l => List.reverse_perm l

/-- Every priority schedule only reorders what it is given. -/
theorem C18s_ordSub_priority (perm : List Nat) : ∀ l x, x ∈ priorityOrd perm l → x ∈ l :=
  ordSub_priorityOrd perm

/-- the two schedules of the examples walk the two pending constraints of `σTwo` in different orders -/
example : getCset σTwo (getVar σTwo 0).cset = [0, 1] ∧
    priorityOrd [0, 1] [0, 1] = [0, 1] ∧ priorityOrd [1, 0] [0, 1] = [1, 0] :=
  ⟨σTwo_pending, two_orders.1, two_orders.2⟩

/-- A schedule may also drop pending constraints (re-examine only some of them). -/
theorem C18s_ordSub_filter (p : Nat → Bool) : ∀ l x, x ∈ (fun cs : List Nat => cs.filter p) l → x ∈ l :=
  ordSub_filter p

example : (fun cs : List Nat => cs.filter (· != 0)) [0, 1] = [1] := by decide

/-! ## 1. soundness under every schedule (as `C03c_*`) -/

/-- Subtype unification on a store with pending constraints is sound under every schedule: the invariant is
kept, no variable is lost, every solution of the resulting store is a solution of the original one and makes
`a` a subtype of `b`. -/
theorem C18s_unify_sound (L : Lang) (wf : WF L) (ord : List Nat → List Nat)
    (hord : ∀ l x, x ∈ ord l → x ∈ l) (n : Nat) (σ σ' : Store) (a b : Term)
    (ok : OkStoreC L σ) (ha : okTerm L σ a = true) (hb : okTerm L σ b = true)
    (h : unifyS L ord n σ a b true false false = .ok σ') :
    OkStoreC L σ' ∧ σ.vars.length ≤ σ'.vars.length ∧
    (∀ t, okTerm L σ t = true → okTerm L σ' t = true) ∧
    ∀ ρ, Sat L ρ σ' → Sat L ρ σ ∧ Sub L (den ρ a) (den ρ b) :=
  unify_soundCO wf hord ok ha hb h

/-- non-vacuity: `A.unify(x0)` on the store with the two pending constraints `x0 << [A, B]`, `x0 <= A`,
accepted under both orders -/
example : OkStoreC langAB σTwo ∧ getCset σTwo (getVar σTwo 0).cset = [0, 1] ∧
    okTerm langAB σTwo (.app 5 []) = true ∧ okTerm langAB σTwo (.var 0) = true ∧
    (∃ σ', unifyS langAB (priorityOrd [0, 1]) 4000 σTwo (.app 5 []) (.var 0) true false false = .ok σ') ∧
    (∃ σ', unifyS langAB (priorityOrd [1, 0]) 4000 σTwo (.app 5 []) (.var 0) true false false = .ok σ') :=
  ⟨σTwo_okc, rfl, by decide, by decide, ok_of_isOk exTwo_unify_01, ok_of_isOk exTwo_unify_10⟩

/-- Subtype unification with arbitrary `skip_basic` / `skip_wildcard`, under every schedule: the invariant is
kept and solutions only shrink; the subtype relation is established when nothing is skipped. -/
theorem C18s_unify_flags_sound (L : Lang) (wf : WF L) (ord : List Nat → List Nat)
    (hord : ∀ l x, x ∈ ord l → x ∈ l) (n : Nat) (σ σ' : Store) (a b : Term) (sb sw : Bool)
    (ok : OkStoreC L σ) (ha : okTerm L σ a = true) (hb : okTerm L σ b = true)
    (h : unifyS L ord n σ a b true sb sw = .ok σ') :
    OkStoreC L σ' ∧ σ.vars.length ≤ σ'.vars.length ∧
    (∀ t, okTerm L σ t = true → okTerm L σ' t = true) ∧
    ∀ ρ, Sat L ρ σ' → Sat L ρ σ ∧ (sb = false → sw = false → Sub L (den ρ a) (den ρ b)) :=
  unify_flags_soundCO wf hord ok ha hb h

example : OkStoreC langAB σTwo ∧
    (∃ σ', unifyS langAB (priorityOrd [1, 0]) 4000 σTwo (.app 5 []) (.var 0) true false false = .ok σ') :=
  ⟨σTwo_okc, ok_of_isOk exTwo_unify_10⟩

/-- Re-checking the constraints of a variable in ANY order keeps the invariant and only shrinks the set of
solutions. -/
theorem C18s_check_constraints_sound (L : Lang) (wf : WF L) (ord : List Nat → List Nat)
    (hord : ∀ l x, x ∈ ord l → x ∈ l) (n : Nat) (σ σ' : Store) (v : Nat)
    (ok : OkStoreC L σ) (h : checkConstraintsS L ord n σ v = .ok σ') :
    OkStoreC L σ' ∧ σ.vars.length ≤ σ'.vars.length ∧ ∀ ρ, Sat L ρ σ' → Sat L ρ σ :=
  checkConstraints_soundCO wf hord ok h

/-- non-vacuity: re-checking the two pending constraints of `x0` (lower bound `A`), in either order -/
example : OkStoreC langAB σTwoL ∧ getCset σTwoL (getVar σTwoL 0).cset = [0, 1] ∧
    (∃ σ', checkConstraintsS langAB (priorityOrd [0, 1]) 4000 σTwoL 0 = .ok σ') ∧
    (∃ σ', checkConstraintsS langAB (priorityOrd [1, 0]) 4000 σTwoL 0 = .ok σ') :=
  ⟨σTwoL_okc, rfl, ok_of_isOk exTwo_check_01, ok_of_isOk exTwo_check_10⟩

/-- `Constraint.fulfill()` of a registered constraint under every schedule (the schedule acts in the nested
re-checks). -/
theorem C18s_fulfill_sound (L : Lang) (wf : WF L) (ord : List Nat → List Nat)
    (hord : ∀ l x, x ∈ ord l → x ∈ l) (n : Nat) (σ σ' : Store) (c : Nat) (d : Bool)
    (ok : OkStoreC L σ) (hc : c < σ.constrs.length) (h : fulfillS L ord n σ c = .ok (σ', d)) :
    OkStoreC L σ' ∧ σ.vars.length ≤ σ'.vars.length ∧ ∀ ρ, Sat L ρ σ' → Sat L ρ σ :=
  fulfill_soundCO wf hord ok hc h

example : OkStoreC langAB σTwo ∧ 1 < σTwo.constrs.length := ⟨σTwo_okc, by decide⟩

/-- `fix` on a store with pending constraints is sound under every schedule: solutions only shrink and the
returned term means the same as the given one. -/
theorem C18s_fix_sound (L : Lang) (wf : WF L) (ord : List Nat → List Nat)
    (hord : ∀ l x, x ∈ ord l → x ∈ l) (n : Nat) (σ σ' : Store) (t t' : Term) (pl : Bool)
    (ok : OkStoreC L σ) (ht : okTerm L σ t = true)
    (h : fixS L ord n σ t pl = .ok (σ', t')) :
    OkStoreC L σ' ∧ σ.vars.length ≤ σ'.vars.length ∧
    (∀ t, okTerm L σ t = true → okTerm L σ' t = true) ∧ okTerm L σ' t' = true ∧
    ∀ ρ, Sat L ρ σ' → Sat L ρ σ ∧ den ρ t' = den ρ t := fix_soundCO wf hord ok ht h

/-- non-vacuity: fixing `x0` (lower bound `A`, the two pending constraints) binds it and re-checks both
constraints, in either order -/
example : OkStoreC langAB σTwoL ∧ getCset σTwoL (getVar σTwoL 0).cset = [0, 1] ∧
    okTerm langAB σTwoL (.var 0) = true ∧
    (∃ p, fixS langAB (priorityOrd [0, 1]) 4000 σTwoL (.var 0) true = .ok p) ∧
    (∃ p, fixS langAB (priorityOrd [1, 0]) 4000 σTwoL (.var 0) true = .ok p) :=
  ⟨σTwoL_okc, rfl, by decide, ok_of_isOk exTwo_fix_01, ok_of_isOk exTwo_fix_10⟩

/-- Instantiating a schema WITH constraints is sound under every schedule: the store grows by the schema's
variables, solutions only shrink, and the returned term means the same as the body over the fresh variables. -/
theorem C18s_instantiate_sound (L : Lang) (wf : WF L) (ord : List Nat → List Nat)
    (hord : ∀ l x, x ∈ ord l → x ∈ l) (n : Nat) (σ σ' : Store) (s : Schema) (f : Term)
    (ok : OkStoreC L σ)
    (hcs : ∀ c, c ∈ s.constraints → okCAstN L (s.nvars + s.nwild) c = true)
    (hbody : okTermN L (s.nvars + s.nwild) s.body = true)
    (h : instantiateS L ord n σ s = .ok (σ', f)) :
    OkStoreC L σ' ∧ σ.vars.length + s.nvars + s.nwild ≤ σ'.vars.length ∧
    (∀ t, okTerm L σ t = true → okTerm L σ' t = true) ∧ okTerm L σ' f = true ∧
    ∀ ρ, Sat L ρ σ' → Sat L ρ σ ∧ den ρ f = den ρ (s.body.shift σ.vars.length) :=
  instantiate_sound_CO wf hord ok hcs hbody h

/-- non-vacuity: the schema with two constraints, instantiated under either order; both constraints stay
pending on `x0` -/
example : OkStoreC langAB {} ∧
    (∀ c, c ∈ schemaTwo.constraints → okCAstN langAB (schemaTwo.nvars + schemaTwo.nwild) c = true) ∧
    okTermN langAB (schemaTwo.nvars + schemaTwo.nwild) schemaTwo.body = true ∧
    (∃ σ f, instantiateS langAB (priorityOrd [0, 1]) 4000 {} schemaTwo = .ok (σ, f) ∧
      getCset σ (getVar σ 0).cset = [0, 1]) ∧
    (∃ σ f, instantiateS langAB (priorityOrd [1, 0]) 4000 {} schemaTwo = .ok (σ, f) ∧
      getCset σ (getVar σ 0).cset = [0, 1]) := by
  refine ⟨okStoreC_empty _, schemaTwo_ok.1, schemaTwo_ok.2, ?_, ?_⟩
  · obtain ⟨σ, f, h1, h2⟩ := okAnd_elim exTwo_inst_01
    exact ⟨σ, f, h1, of_decide_eq_true h2⟩
  · obtain ⟨σ, f, h1, h2⟩ := okAnd_elim exTwo_inst_10
    exact ⟨σ, f, h1, of_decide_eq_true h2⟩

/-- `Type.apply` on a store with pending constraints is sound under every schedule: under every solution of
the resulting store the function type is `p ** r'` with the argument a subtype of `p` and `r'` the meaning of
the returned term (or the function type is `Top` and so is the result). -/
theorem C18s_apply_sound (L : Lang) (wf : WF L) (ord : List Nat → List Nat)
    (hord : ∀ l x, x ∈ ord l → x ∈ l) (n : Nat) (σ σ' : Store) (f x r : Term) (fixFlag : Bool)
    (ok : OkStoreC L σ) (hf : okTerm L σ f = true) (hx : okTerm L σ x = true)
    (h : applyTS L ord n σ f x fixFlag = .ok (σ', r)) :
    OkStoreC L σ' ∧ σ.vars.length ≤ σ'.vars.length ∧
    (∀ t, okTerm L σ t = true → okTerm L σ' t = true) ∧ okTerm L σ' r = true ∧
    ∀ ρ, Sat L ρ σ' → Sat L ρ σ ∧
      ((∃ p, den ρ f = .app FUN [p, den ρ r] ∧ Sub L (den ρ x) p) ∨
       (den ρ f = .app TOP [] ∧ r = .app TOP [])) := apply_soundCO wf hord ok hf hx h

/-- non-vacuity: `(x0 ** x0)[x0 << [A, B], x0 <= A]` applied to `A`, accepted under either order -/
example : OkStoreC langAB σTwo ∧ okTerm langAB σTwo (.app FUN [.var 0, .var 0]) = true ∧
    okTerm langAB σTwo (.app 5 []) = true ∧
    (∃ p, applyTS langAB (priorityOrd [0, 1]) 4000 σTwo (.app 4 [.var 0, .var 0]) (.app 5 []) true = .ok p) ∧
    (∃ p, applyTS langAB (priorityOrd [1, 0]) 4000 σTwo (.app 4 [.var 0, .var 0]) (.app 5 []) true = .ok p) :=
  ⟨σTwo_okc, by decide, by decide, ok_of_isOk exTwo_apply_01, ok_of_isOk exTwo_apply_10⟩

/-- A chain of applications on a store with pending constraints is sound under every schedule: under every
solution of the final store, `f` means `p₁ ** p₂ ** … ** r'` with every argument a subtype of the
corresponding parameter and `r'` the meaning of the returned term. (`applyAllS` is the left-to-right fold of
`applyTS`, `Tfv/Proofs/SchedSoundEq.lean`.) -/
theorem C18s_apply_chain (L : Lang) (wf : WF L) (ord : List Nat → List Nat)
    (hord : ∀ l x, x ∈ ord l → x ∈ l) (n : Nat) (fixFlag : Bool) (σ σ' : Store) (f r : Term)
    (xs : List Term) (ok : OkStoreC L σ)
    (hf : okTerm L σ f = true) (hxs : okTermL L σ xs = true)
    (h : applyAllS L ord n fixFlag σ f xs = .ok (σ', r)) :
    OkStoreC L σ' ∧ σ.vars.length ≤ σ'.vars.length ∧
    (∀ t, okTerm L σ t = true → okTerm L σ' t = true) ∧ okTerm L σ' r = true ∧
    ∀ ρ, Sat L ρ σ' → Sat L ρ σ ∧ Accepts L (den ρ f) (denL ρ xs) (den ρ r) :=
  apply_chainCO wf hord ok hf hxs h

example : OkStoreC langAB σTwo ∧ okTermL langAB σTwo [.app 5 []] = true ∧
    (∃ p, applyAllS langAB (priorityOrd [0, 1]) 4000 true σTwo (.app 4 [.var 0, .var 0]) [.app 5 []] = .ok p) ∧
    (∃ p, applyAllS langAB (priorityOrd [1, 0]) 4000 true σTwo (.app 4 [.var 0, .var 0]) [.app 5 []] = .ok p) :=
  ⟨σTwo_okc, by decide, ok_of_isOk exTwo_chain_01, ok_of_isOk exTwo_chain_10⟩

/-- The same with a witness: after a successful chain of applications whose final store is acyclic, every
admissible choice for the unresolved variables extends to an instantiation of all variables under which every
argument is a subtype of the corresponding parameter — whatever the schedule was. -/
theorem C18s_apply_chain_instantiation (L : Lang) (wf : WF L) (ord : List Nat → List Nat)
    (hord : ∀ l x, x ∈ ord l → x ∈ l) (n : Nat) (fixFlag : Bool) (σ σ' : Store)
    (f r : Term) (xs : List Term) (ok : OkStoreC L σ)
    (hf : okTerm L σ f = true) (hxs : okTermL L σ xs = true)
    (h : applyAllS L ord n fixFlag σ f xs = .ok (σ', r)) (hac : Acyclic σ')
    (θ : Val) (hθ : Choice L θ σ') :
    ∃ ρ, Sat L ρ σ' ∧ (∀ v, (getVar σ' v).bound = none → ρ v = θ v) ∧ Sat L ρ σ ∧
      Accepts L (den ρ f) (denL ρ xs) (den ρ r) :=
  apply_chain_instantiationCO wf hord ok hf hxs h hac θ hθ

example : OkStoreC langAB σTwo ∧
    (∃ p, applyAllS langAB (priorityOrd [1, 0]) 4000 true σTwo (.app 4 [.var 0, .var 0]) [.app 5 []] = .ok p) :=
  ⟨σTwo_okc, ok_of_isOk exTwo_chain_10⟩

/-- The whole scheduled block in one statement (the induction on the fuel, soundness part). -/
theorem C18s_engine_block_sound (L : Lang) (wf : WF L) (ord : List Nat → List Nat)
    (hord : ∀ l x, x ∈ ord l → x ∈ l) (n : Nat) :
    UnifyCO L ord n ∧ UnifyListCO L ord n ∧ BindCO L ord n ∧ AboveCO L ord n ∧ BelowCO L ord n ∧
    FixCO L ord n ∧ FixListCO L ord n ∧ CheckCO L ord n ∧ CheckListCO L ord n ∧ FulfillCO L ord n ∧
    MinimizeCO L ord n ∧ MinLoopCO L ord n := all_soundCO wf hord n

example : WF langAB ∧ ∀ l x, x ∈ priorityOrd [1, 0] l → x ∈ l := ⟨langAB_wf, ordSub_priorityOrd _⟩

/-! ## 2. no internal error under ANY schedule (as `C17e_*`)

`FuelOk σ` (`Tfv/Spec/History.lean`): `follow()` always arrives at an unresolved variable or a compound type.
No hypothesis on `ord` whatsoever. -/

/-- `unifyS` (any mode, any flags, any schedule) never fails with an internal error on a store satisfying
the invariant. -/
theorem C18s_unify_no_internal (L : Lang) (ord : List Nat → List Nat) (n : Nat) (σ : Store) (a b : Term)
    (st sb sw : Bool) (h : FuelOk σ) (site : String) : unifyS L ord n σ a b st sb sw ≠ .error (.internal site) :=
  ((all_noInternalO L ord n).1 σ a b st sb sw (chains_of_fuelOk h)).not_internal site

/-- …and the store it returns satisfies the invariant again. -/
theorem C18s_unify_keeps (L : Lang) (ord : List Nat → List Nat) (n : Nat) (σ σ' : Store) (a b : Term)
    (st sb sw : Bool) (h : FuelOk σ) (hr : unifyS L ord n σ a b st sb sw = .ok σ') : FuelOk σ' :=
  Chains.fuelOk ((((all_noInternalO L ord n).1 σ a b st sb sw (chains_of_fuelOk h)).step hr).ch)

example : FuelOk σTwo ∧
    (∃ σ', unifyS langAB (priorityOrd [1, 0]) 4000 σTwo (.app 5 []) (.var 0) true false false = .ok σ') :=
  ⟨σTwo_fuelOk, ok_of_isOk exTwo_unify_10⟩

/-- `unifyListS` never fails with an internal error. -/
theorem C18s_unifyList_no_internal (L : Lang) (ord : List Nat → List Nat) (n : Nat) (σ : Store) (vs : List Bool)
    (xs ys : List Term) (st sb sw : Bool) (h : FuelOk σ) (site : String) :
    unifyListS L ord n σ vs xs ys st sb sw ≠ .error (.internal site) :=
  ((all_noInternalO L ord n).2.1 σ vs xs ys st sb sw (chains_of_fuelOk h)).not_internal site

example : FuelOk σTwo := σTwo_fuelOk

/-- `bindS v t` never fails with an internal error when `v` is unresolved and `t` is final (what every caller
passes: both come out of `followT`). -/
theorem C18s_bind_no_internal (L : Lang) (ord : List Nat → List Nat) (n : Nat) (σ : Store) (v : Nat) (t : Term)
    (h : FuelOk σ) (hv : (getVar σ v).bound = none) (ht : Final σ t) (site : String) :
    bindS L ord n σ v t ≠ .error (.internal site) :=
  ((all_noInternalO L ord n).2.2.1 σ v t (chains_of_fuelOk h) hv ht).not_internal site

/-- …and the store `bindS` returns satisfies the invariant again. -/
theorem C18s_bind_keeps (L : Lang) (ord : List Nat → List Nat) (n : Nat) (σ σ' : Store) (v : Nat) (t : Term)
    (h : FuelOk σ) (hv : (getVar σ v).bound = none) (ht : Final σ t) (hr : bindS L ord n σ v t = .ok σ') :
    FuelOk σ' :=
  Chains.fuelOk ((((all_noInternalO L ord n).2.2.1 σ v t (chains_of_fuelOk h) hv ht).step hr).ch)

example : FuelOk σTwo ∧ (getVar σTwo 0).bound = none ∧ Final σTwo (.app 5 []) := ⟨σTwo_fuelOk, rfl, trivial⟩

/-- `aboveS v new` never fails with an internal error when `v` is unresolved (also after the re-entrant
re-check of the constraints in whatever order, which may resolve `v`). -/
theorem C18s_above_no_internal (L : Lang) (ord : List Nat → List Nat) (n : Nat) (σ : Store) (v new : Nat)
    (h : FuelOk σ) (hv : (getVar σ v).bound = none) (site : String) :
    aboveS L ord n σ v new ≠ .error (.internal site) :=
  ((all_noInternalO L ord n).2.2.2.1 σ v new (chains_of_fuelOk h) hv).not_internal site

/-- the same for `belowS` -/
theorem C18s_below_no_internal (L : Lang) (ord : List Nat → List Nat) (n : Nat) (σ : Store) (v new : Nat)
    (h : FuelOk σ) (hv : (getVar σ v).bound = none) (site : String) :
    belowS L ord n σ v new ≠ .error (.internal site) :=
  ((all_noInternalO L ord n).2.2.2.2.1 σ v new (chains_of_fuelOk h) hv).not_internal site

example : FuelOk σTwo ∧ (getVar σTwo 0).bound = none := ⟨σTwo_fuelOk, rfl⟩

/-- `fixS` never fails with an internal error. -/
theorem C18s_fix_no_internal (L : Lang) (ord : List Nat → List Nat) (n : Nat) (σ : Store) (t : Term) (pl : Bool)
    (h : FuelOk σ) (site : String) : fixS L ord n σ t pl ≠ .error (.internal site) :=
  ((all_noInternalO L ord n).2.2.2.2.2.1 σ t pl (chains_of_fuelOk h)).not_internal site

/-- …and the store `fixS` returns satisfies the invariant again. -/
theorem C18s_fix_keeps (L : Lang) (ord : List Nat → List Nat) (n : Nat) (σ σ' : Store) (t t' : Term) (pl : Bool)
    (h : FuelOk σ) (hr : fixS L ord n σ t pl = .ok (σ', t')) : FuelOk σ' :=
  Chains.fuelOk ((((all_noInternalO L ord n).2.2.2.2.2.1 σ t pl (chains_of_fuelOk h)).step hr).ch)

example : FuelOk σTwoL ∧ (∃ p, fixS langAB (priorityOrd [1, 0]) 4000 σTwoL (.var 0) true = .ok p) :=
  ⟨σTwoL_fuelOk, ok_of_isOk exTwo_fix_10⟩

/-- `check_constraints` in ANY order never fails with an internal error. -/
theorem C18s_check_no_internal (L : Lang) (ord : List Nat → List Nat) (n : Nat) (σ : Store) (v : Nat)
    (h : FuelOk σ) (site : String) : checkConstraintsS L ord n σ v ≠ .error (.internal site) :=
  ((all_noInternalO L ord n).2.2.2.2.2.2.2.1 σ v (chains_of_fuelOk h)).not_internal site

/-- …and the store it returns satisfies the invariant again. -/
theorem C18s_check_keeps (L : Lang) (ord : List Nat → List Nat) (n : Nat) (σ σ' : Store) (v : Nat)
    (h : FuelOk σ) (hr : checkConstraintsS L ord n σ v = .ok σ') : FuelOk σ' :=
  Chains.fuelOk ((((all_noInternalO L ord n).2.2.2.2.2.2.2.1 σ v (chains_of_fuelOk h)).step hr).ch)

example : FuelOk σTwoL ∧ (∃ σ', checkConstraintsS langAB (priorityOrd [1, 0]) 4000 σTwoL 0 = .ok σ') :=
  ⟨σTwoL_fuelOk, ok_of_isOk exTwo_check_10⟩

/-- Walking ANY list of constraint ids (allocated or not, with repetitions or not) never fails with an
internal error: this is why the schedule needs no hypothesis. -/
theorem C18s_checkList_no_internal (L : Lang) (ord : List Nat → List Nat) (n : Nat) (σ : Store) (v : Nat)
    (cs : List Nat) (h : FuelOk σ) (site : String) : checkListS L ord n σ v cs ≠ .error (.internal site) :=
  ((all_noInternalO L ord n).2.2.2.2.2.2.2.2.1 σ v cs (chains_of_fuelOk h)).not_internal site

example : FuelOk σTwo ∧ getCset σTwo (getVar σTwo 0).cset = [0, 1] := ⟨σTwo_fuelOk, rfl⟩

/-- `Constraint.fulfill()` (both kinds; any constraint id; any schedule in the nested re-checks) never fails
with an internal error. -/
theorem C18s_fulfill_no_internal (L : Lang) (ord : List Nat → List Nat) (n : Nat) (σ : Store) (c : Nat)
    (h : FuelOk σ) (site : String) : fulfillS L ord n σ c ≠ .error (.internal site) :=
  ((all_noInternalO L ord n).2.2.2.2.2.2.2.2.2.1 σ c (chains_of_fuelOk h)).not_internal site

/-- …and the store `fulfillS` returns satisfies the invariant again. -/
theorem C18s_fulfill_keeps (L : Lang) (ord : List Nat → List Nat) (n : Nat) (σ σ' : Store) (c : Nat) (d : Bool)
    (h : FuelOk σ) (hr : fulfillS L ord n σ c = .ok (σ', d)) : FuelOk σ' :=
  Chains.fuelOk ((((all_noInternalO L ord n).2.2.2.2.2.2.2.2.2.1 σ c (chains_of_fuelOk h)).step hr).ch)

example : FuelOk σTwo ∧ getConstr σTwo 0 = .elim (.var 0) [.app 5 [], .app 6 []] false := ⟨σTwo_fuelOk, rfl⟩

/-- `minimizeS` never fails with an internal error. -/
theorem C18s_minimize_no_internal (L : Lang) (ord : List Nat → List Nat) (n : Nat) (σ : Store) (c : Nat)
    (h : FuelOk σ) (site : String) : minimizeS L ord n σ c ≠ .error (.internal site) :=
  ((all_noInternalO L ord n).2.2.2.2.2.2.2.2.2.2.1 σ c (chains_of_fuelOk h)).1.not_internal site

/-- After a successful `minimizeS` an elimination constraint is still an elimination constraint, and its
reference and all its alternatives are final: exactly what `fulfillS` asserts next. -/
theorem C18s_minimize_normalizes (L : Lang) (ord : List Nat → List Nat) (n : Nat) (σ σ' : Store) (c : Nat)
    (r0 : Term) (a0 : List Term) (f0 : Bool) (h : FuelOk σ) (hc : getConstr σ c = .elim r0 a0 f0)
    (hr : minimizeS L ord n σ c = .ok σ') :
    ∃ ref alts f, getConstr σ' c = .elim ref alts f ∧ Final σ' ref ∧ ∀ t, t ∈ alts → Final σ' t :=
  ((all_noInternalO L ord n).2.2.2.2.2.2.2.2.2.2.1 σ c (chains_of_fuelOk h)).2 σ' hr (by rw [hc]; rfl)

example : FuelOk σTwo ∧ getConstr σTwo 0 = .elim (.var 0) [.app 5 [], .app 6 []] false := ⟨σTwo_fuelOk, rfl⟩

/-- The whole scheduled block in one statement (the induction on the fuel, no-internal-error part). -/
theorem C18s_engine_block_no_internal (L : Lang) (ord : List Nat → List Nat) (n : Nat) :
    UnifyNO L ord n ∧ UnifyListNO L ord n ∧ BindNO L ord n ∧ AboveNO L ord n ∧ BelowNO L ord n ∧
    FixNO L ord n ∧ FixListNO L ord n ∧ CheckNO L ord n ∧ CheckListNO L ord n ∧ FulfillNO L ord n ∧
    MinimizeNO L ord n ∧ MinLoopNO L ord n := all_noInternalO L ord n

example : FuelOk σTwo ∧ FuelOk σTwoL := ⟨σTwo_fuelOk, σTwoL_fuelOk⟩

/-- Registering a constraint never fails with an internal error, under any schedule. -/
theorem C18s_addConstraint_no_internal (L : Lang) (ord : List Nat → List Nat) (fuel : Nat) (σ : Store)
    (c : Constr) (h : FuelOk σ) (site : String) : addConstraintS L ord fuel σ c ≠ .error (.internal site) :=
  (addConstraint_goodO L ord fuel c (chains_of_fuelOk h)).not_internal site

/-- …and the store it returns satisfies the invariant again. -/
theorem C18s_addConstraint_keeps (L : Lang) (ord : List Nat → List Nat) (fuel : Nat) (σ σ' : Store) (c : Constr)
    (h : FuelOk σ) (hr : addConstraintS L ord fuel σ c = .ok σ') : FuelOk σ' :=
  Chains.fuelOk ((addConstraint_goodO L ord fuel c (chains_of_fuelOk h)).chains hr)

example : FuelOk σTwo := σTwo_fuelOk

/-- `TypeSchema.instance()` never fails with an internal error — every schema, every schedule. -/
theorem C18s_instantiate_no_internal (L : Lang) (ord : List Nat → List Nat) (fuel : Nat) (σ : Store) (s : Schema)
    (h : FuelOk σ) (site : String) : instantiateS L ord fuel σ s ≠ .error (.internal site) :=
  (instantiate_goodO L ord fuel s (chains_of_fuelOk h)).not_internal site

/-- …and the store `instantiateS` returns satisfies the invariant again. -/
theorem C18s_instantiate_keeps (L : Lang) (ord : List Nat → List Nat) (fuel : Nat) (σ σ' : Store) (s : Schema)
    (f : Term) (h : FuelOk σ) (hr : instantiateS L ord fuel σ s = .ok (σ', f)) : FuelOk σ' :=
  Chains.fuelOk ((instantiate_goodO L ord fuel s (chains_of_fuelOk h)).chains hr)

example : FuelOk {} ∧ (∃ p, instantiateS langAB (priorityOrd [1, 0]) 4000 {} schemaTwo = .ok p) := by
  obtain ⟨σ, f, h1, _⟩ := okAnd_elim exTwo_inst_10
  exact ⟨fuelOk_empty, (σ, f), h1⟩

/-- `Type.apply` never fails with an internal error, under any schedule. -/
theorem C18s_apply_no_internal (L : Lang) (ord : List Nat → List Nat) (fuel : Nat) (σ : Store) (f x : Term)
    (fixFlag : Bool) (h : FuelOk σ) (site : String) : applyTS L ord fuel σ f x fixFlag ≠ .error (.internal site) :=
  (applyT_goodO L ord fuel f x fixFlag (chains_of_fuelOk h)).not_internal site

/-- …and the store `applyTS` returns satisfies the invariant again. -/
theorem C18s_apply_keeps (L : Lang) (ord : List Nat → List Nat) (fuel : Nat) (σ σ' : Store) (f x r : Term)
    (fixFlag : Bool) (h : FuelOk σ) (hr : applyTS L ord fuel σ f x fixFlag = .ok (σ', r)) : FuelOk σ' :=
  Chains.fuelOk (((applyT_goodO L ord fuel f x fixFlag (chains_of_fuelOk h)).step hr).ch)

example : FuelOk σTwo ∧
    (∃ p, applyTS langAB (priorityOrd [1, 0]) 4000 σTwo (.app 4 [.var 0, .var 0]) (.app 5 []) true = .ok p) :=
  ⟨σTwo_fuelOk, ok_of_isOk exTwo_apply_10⟩

/-- A chain of applications never fails with an internal error, under any schedule. -/
theorem C18s_applyAll_no_internal (L : Lang) (ord : List Nat → List Nat) (fuel : Nat) (fixFlag : Bool)
    (σ : Store) (f : Term) (xs : List Term) (h : FuelOk σ) (site : String) :
    applyAllS L ord fuel fixFlag σ f xs ≠ .error (.internal site) :=
  (applyAll_goodO L ord fuel fixFlag xs σ f (chains_of_fuelOk h)).not_internal site

/-- …and the final store of the chain satisfies the invariant again. -/
theorem C18s_applyAll_keeps (L : Lang) (ord : List Nat → List Nat) (fuel : Nat) (fixFlag : Bool) (σ σ' : Store)
    (f r : Term) (xs : List Term) (h : FuelOk σ) (hr : applyAllS L ord fuel fixFlag σ f xs = .ok (σ', r)) :
    FuelOk σ' :=
  Chains.fuelOk (((applyAll_goodO L ord fuel fixFlag xs σ f (chains_of_fuelOk h)).step hr).ch)

example : FuelOk σTwo ∧
    (∃ p, applyAllS langAB (priorityOrd [0, 1]) 4000 true σTwo (.app 4 [.var 0, .var 0]) [.app 5 []] = .ok p) :=
  ⟨σTwo_fuelOk, ok_of_isOk exTwo_chain_01⟩

/-- One use of a definition (instantiate the schema, apply the instance to the arguments in turn;
`useSchemaS`, `Tfv/Proofs/SchedSoundEq.lean`) from any store satisfying the invariant never fails with an
internal error, under any schedule … -/
theorem C18s_use_no_internal (L : Lang) (ord : List Nat → List Nat) (fuel : Nat) (fixFlag : Bool) (σ : Store)
    (s : Schema) (xs : List Term) (h : FuelOk σ) (site : String) :
    useSchemaS L ord fuel fixFlag σ s xs ≠ .error (.internal site) :=
  (useSchema_goodO L ord fuel fixFlag s xs (chains_of_fuelOk h)).not_internal site

/-- … and its final store satisfies the invariant again, so uses can be chained (each under its own schedule). -/
theorem C18s_use_keeps (L : Lang) (ord : List Nat → List Nat) (fuel : Nat) (fixFlag : Bool) (σ σ' : Store)
    (s : Schema) (xs : List Term) (r : Term) (h : FuelOk σ)
    (hr : useSchemaS L ord fuel fixFlag σ s xs = .ok (σ', r)) : FuelOk σ' :=
  Chains.fuelOk ((useSchema_goodO L ord fuel fixFlag s xs (chains_of_fuelOk h)).chains hr)

example : FuelOk {} ∧ (∃ p, useSchemaS langAB (priorityOrd [1, 0]) 4000 true {} schemaTwo [.app 5 []] = .ok p) := by
  refine ⟨fuelOk_empty, ?_⟩
  rw [← runS_eq_useSchemaS]
  exact ok_of_isOk exTwo_run_10

/-! ## 3. what this means for C18: whole runs

`Tfv.C18P.runS L ord fuel s args` is the run of the differential harness: instantiate `s` in the empty store,
apply the instance to the closed arguments `args` in turn. -/

/-- The run of the harness is the use of the schema from the empty store. -/
theorem C18s_run_is_use (L : Lang) (ord : List Nat → List Nat) (fuel : Nat) (s : Schema) (args : List Term) :
    runS L ord fuel s args = useSchemaS L ord fuel true {} s args := runS_eq_useSchemaS L ord fuel s args

example : ∃ p, useSchemaS langAB (priorityOrd [0, 1]) 4000 true {} schemaTwo [.app 5 []] = .ok p := by
  rw [← runS_eq_useSchemaS]; exact ok_of_isOk exTwo_run_01

/-- NO SCHEDULE CAN MAKE THE ENGINE ASSERT: whatever function `ord` is used to pick the order (and the
selection) of the constraints to re-examine, whatever the language description, the fuel, the schema and the
arguments are, a run never fails with an internal error. -/
theorem C18s_run_no_internal (L : Lang) (ord : List Nat → List Nat) (fuel : Nat) (s : Schema) (args : List Term)
    (site : String) : runS L ord fuel s args ≠ .error (.internal site) :=
  (runS_good L ord fuel s args).not_internal site

/-- non-vacuity: the runs of `C18_counterexample_error_kind` fail with different DECLARED errors -/
example : errOf (runS langAB (priorityOrd [0, 1]) 4000 schemaTwo [.app 7 [.app 6 []]]) = some .constraintViolation ∧
    errOf (runS langAB (priorityOrd [1, 0]) 4000 schemaTwo [.app 7 [.app 6 []]]) = some .typeMismatch :=
  ⟨Tfv.C18P.cex_two_01, Tfv.C18P.cex_two_10⟩

/-- AN ACCEPTED RUN IS SOUND WHATEVER THE ORDER: if the run succeeds under a schedule that only reorders or
drops what it is given, the final store satisfies the invariant and, under every solution of the final store,
the schema body means `p₁ ** … ** pₙ ** r'` with every argument a subtype of its parameter and `r'` the
meaning of the returned type. (`hcs`, `hbody`: the schema mentions its own variables only and respects
arities; `hargs`: the arguments are closed and respect arities.) -/
theorem C18s_run_sound (L : Lang) (wf : WF L) (ord : List Nat → List Nat)
    (hord : ∀ l x, x ∈ ord l → x ∈ l) (fuel : Nat) (s : Schema) (args : List Term) (σ' : Store) (r : Term)
    (hcs : ∀ c, c ∈ s.constraints → okCAstN L (s.nvars + s.nwild) c = true)
    (hbody : okTermN L (s.nvars + s.nwild) s.body = true)
    (hargs : okTermL L {} args = true)
    (h : runS L ord fuel s args = .ok (σ', r)) :
    OkStoreC L σ' ∧ okTerm L σ' r = true ∧
    ∀ ρ, Sat L ρ σ' → Accepts L (den ρ s.body) (denL ρ args) (den ρ r) :=
  runS_sound wf hord hcs hbody hargs h

/-- non-vacuity: the schema with two constraints applied to `A`, accepted under both orders -/
example : WF langAB ∧ (∀ l x, x ∈ priorityOrd [0, 1] l → x ∈ l) ∧ (∀ l x, x ∈ priorityOrd [1, 0] l → x ∈ l) ∧
    schemaTwo.constraints.length = 2 ∧
    (∀ c, c ∈ schemaTwo.constraints → okCAstN langAB (schemaTwo.nvars + schemaTwo.nwild) c = true) ∧
    okTermN langAB (schemaTwo.nvars + schemaTwo.nwild) schemaTwo.body = true ∧
    okTermL langAB {} [.app 5 []] = true ∧
    (∃ p, runS langAB (priorityOrd [0, 1]) 4000 schemaTwo [.app 5 []] = .ok p) ∧
    (∃ p, runS langAB (priorityOrd [1, 0]) 4000 schemaTwo [.app 5 []] = .ok p) :=
  ⟨langAB_wf, ordSub_priorityOrd _, ordSub_priorityOrd _, rfl, schemaTwo_ok.1, schemaTwo_ok.2, by decide,
    ok_of_isOk exTwo_run_01, ok_of_isOk exTwo_run_10⟩

/-- **C18, what holds for every order, in one statement.** For every schedule that only reorders or drops the
pending constraints it is given: the run never fails with an internal error, and if it is accepted then every
argument is a subtype of its parameter under every solution of the final store. Schedules can therefore only
differ in WHICH sound answer or WHICH declared error they give. -/
theorem C18s_every_order (L : Lang) (wf : WF L) (ord : List Nat → List Nat)
    (hord : ∀ l x, x ∈ ord l → x ∈ l) (fuel : Nat) (s : Schema) (args : List Term)
    (hcs : ∀ c, c ∈ s.constraints → okCAstN L (s.nvars + s.nwild) c = true)
    (hbody : okTermN L (s.nvars + s.nwild) s.body = true)
    (hargs : okTermL L {} args = true) :
    (∀ site, runS L ord fuel s args ≠ .error (.internal site)) ∧
    (∀ σ' r, runS L ord fuel s args = .ok (σ', r) →
      OkStoreC L σ' ∧ FuelOk σ' ∧ ∀ ρ, Sat L ρ σ' → Accepts L (den ρ s.body) (denL ρ args) (den ρ r)) := by
  refine ⟨fun site => (runS_good L ord fuel s args).not_internal site, fun σ' r h => ?_⟩
  obtain ⟨h1, _, h3⟩ := runS_sound wf hord hcs hbody hargs h
  exact ⟨h1, Chains.fuelOk ((runS_good L ord fuel s args).chains h), h3⟩

/-- non-vacuity: the schema of `C18_counterexample_result_type` (three constraints): orders (0,1,2) and (1,0,2)
both accept, with DIFFERENT results `G(A, C)` and `G(C, C)` — both covered by the theorem -/
example : WF langABC ∧ (∀ l x, x ∈ priorityOrd [0, 1, 2] l → x ∈ l) ∧ (∀ l x, x ∈ priorityOrd [1, 0, 2] l → x ∈ l) ∧
    (∀ c, c ∈ schemaType.constraints → okCAstN langABC (schemaType.nvars + schemaType.nwild) c = true) ∧
    okTermN langABC (schemaType.nvars + schemaType.nwild) schemaType.body = true ∧
    okTermL langABC {} argsType = true ∧
    (∃ σ' r, runS langABC (priorityOrd [0, 1, 2]) 4000 schemaType argsType = .ok (σ', r)) ∧
    (∃ σ' r, runS langABC (priorityOrd [1, 0, 2]) 4000 schemaType argsType = .ok (σ', r)) ∧
    resultIs (runS langABC (priorityOrd [0, 1, 2]) 4000 schemaType argsType) (.app 9 [.app 5 [], .app 7 []]) = true ∧
    resultIs (runS langABC (priorityOrd [1, 0, 2]) 4000 schemaType argsType) (.app 9 [.app 7 [], .app 7 []]) = true :=
  ⟨langABC_wf, ordSub_priorityOrd _, ordSub_priorityOrd _, schemaType_ok.1, schemaType_ok.2, argsType_ok,
    ok_of_resultIs Tfv.C18P.cex_type_012, ok_of_resultIs Tfv.C18P.cex_type_102,
    Tfv.C18P.cex_type_012, Tfv.C18P.cex_type_102⟩

/-- Two schedules, two accepted runs (possibly with different stores and different result types, as in
`C18_counterexample_result_type`): BOTH answers are sound. -/
theorem C18s_two_orders_both_sound (L : Lang) (wf : WF L) (ord₁ ord₂ : List Nat → List Nat)
    (h₁ : ∀ l x, x ∈ ord₁ l → x ∈ l) (h₂ : ∀ l x, x ∈ ord₂ l → x ∈ l) (fuel : Nat) (s : Schema)
    (args : List Term) (σ₁ σ₂ : Store) (r₁ r₂ : Term)
    (hcs : ∀ c, c ∈ s.constraints → okCAstN L (s.nvars + s.nwild) c = true)
    (hbody : okTermN L (s.nvars + s.nwild) s.body = true)
    (hargs : okTermL L {} args = true)
    (e₁ : runS L ord₁ fuel s args = .ok (σ₁, r₁)) (e₂ : runS L ord₂ fuel s args = .ok (σ₂, r₂)) :
    (∀ ρ, Sat L ρ σ₁ → Accepts L (den ρ s.body) (denL ρ args) (den ρ r₁)) ∧
    (∀ ρ, Sat L ρ σ₂ → Accepts L (den ρ s.body) (denL ρ args) (den ρ r₂)) :=
  ⟨(runS_sound wf h₁ hcs hbody hargs e₁).2.2, (runS_sound wf h₂ hcs hbody hargs e₂).2.2⟩

example : (∃ σ₁ r₁, runS langABC (priorityOrd [0, 1, 2]) 4000 schemaType argsType = .ok (σ₁, r₁)) ∧
    (∃ σ₂ r₂, runS langABC (priorityOrd [1, 0, 2]) 4000 schemaType argsType = .ok (σ₂, r₂)) :=
  ⟨ok_of_resultIs Tfv.C18P.cex_type_012, ok_of_resultIs Tfv.C18P.cex_type_102⟩

/-- With a witness: if the final store of an accepted run is acyclic, every admissible choice for the
unresolved variables extends to an instantiation of all variables under which every argument is a subtype of
its parameter — whatever the schedule was. -/
theorem C18s_run_instantiation (L : Lang) (wf : WF L) (ord : List Nat → List Nat)
    (hord : ∀ l x, x ∈ ord l → x ∈ l) (fuel : Nat) (s : Schema) (args : List Term) (σ' : Store) (r : Term)
    (hcs : ∀ c, c ∈ s.constraints → okCAstN L (s.nvars + s.nwild) c = true)
    (hbody : okTermN L (s.nvars + s.nwild) s.body = true)
    (hargs : okTermL L {} args = true)
    (h : runS L ord fuel s args = .ok (σ', r)) (hac : Acyclic σ') (θ : Val) (hθ : Choice L θ σ') :
    ∃ ρ, Sat L ρ σ' ∧ (∀ v, (getVar σ' v).bound = none → ρ v = θ v) ∧
      Accepts L (den ρ s.body) (denL ρ args) (den ρ r) :=
  runS_instantiation wf hord hcs hbody hargs h hac θ hθ

example : ∃ p, runS langAB (priorityOrd [1, 0]) 4000 schemaTwo [.app 5 []] = .ok p := ok_of_isOk exTwo_run_10

/-- The soundness theorems need the schedule to return allocated constraint ids; the hypothesis used is that
it returns members of its argument. The identity schedule (the model, `sched_id`) satisfies it, so the
theorems of `C03Constr.lean` are the instance `ord = id` of the theorems above. -/
theorem C18s_model_instance (L : Lang) (wf : WF L) (n : Nat) (σ σ' : Store) (a b : Term)
    (ok : OkStoreC L σ) (ha : okTerm L σ a = true) (hb : okTerm L σ b = true)
    (h : unify L n σ a b true false false = .ok σ') :
    ∀ ρ, Sat L ρ σ' → Sat L ρ σ ∧ Sub L (den ρ a) (den ρ b) := by
  have h' : unifyS L id n σ a b true false false = .ok σ' := by
    rw [(Tfv.C18P.blockEq (ord := id) (fun _ => rfl) n).unify]; exact h
  exact (unify_soundCO wf (ord := id) (fun _ _ hx => hx) ok ha hb h').2.2.2

example : OkStoreC langAB σTwo ∧ okTerm langAB σTwo (.app 5 []) = true := ⟨σTwo_okc, by decide⟩

end Tfv.C18
