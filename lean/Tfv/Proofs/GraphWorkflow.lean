import Tfv.Model.Workflow
import Tfv.Proofs.GraphExpr
/-!
# `wfNode` and `addWorkflow` are sequences of graph steps starting from `initGraph`
-/
namespace Tfv

theorem wfNode_step (G : GLang) (c : GCfg) (w : Wf) (root : Node) (exprs : List (Nat × TExpr)) :
    ∀ (n : Nat) (g : GState) (r : Nat) (g' : GState) (k : Nat),
      wfNode G c w root exprs n g r = .ok (g', k) → GStep c NotFD AnyQ g g' := by
  intro n
  induction n with
  | zero => intro g r g' k h; rw [wfNode] at h; cases h
  | succ n ih =>
    intro g r g' k h
    rw [wfNode] at h
    split at h
    · cases h
    · rename_i e he
      simp only [] at h
      split at h
      · simp only [Except.ok.injEq, Prod.mk.injEq] at h
        rw [← h.1]; exact .refl g
      · split at h
        · cases h
        · rename_i g1 hr1
          have s1 : GStep c NotFD AnyQ g g1 := by
            split at hr1
            · simp only [Except.ok.injEq] at hr1; rw [← hr1]; exact .refl g
            · split at hr1
              · simp only [Except.ok.injEq] at hr1; rw [← hr1]; exact .refl g
              · refine foldlM_rel (R := GStep c NotFD AnyQ) .refl (fun _ _ _ => .trans) _ _ ?_ _ _ hr1
                intro ga i gb _ hi
                split at hi
                · cases hi
                · rename_i gc kc hc
                  simp only [Except.ok.injEq] at hi
                  rw [← hi]; exact ih _ _ _ _ hc
          split at h
          · cases h
          · rename_i g2 node hx
            simp only [Except.ok.injEq, Prod.mk.injEq] at h
            rw [← h.1]
            exact .trans s1 (addExpr_step G c root _ e g1 none false g2 node hx)

/-- the store is not looked at when the initial graph is made -/
theorem initGraph_store (G : GLang) (σ : Store) (c : GCfg) : initGraph { G with store := σ } c = initGraph G c := rfl

/-- the graph of a workflow is built over `{ G with store := σf }` (the store after the final `fixExpr`): the
`from`/`depends` part never looks at types, so the steps are the same -/
theorem addWorkflow_step (P : PLang) (G : GLang) (ops : List OperatorDecl) (c : GCfg) (passthrough : Bool)
    (w : Wf) (g : GState) (out : Nat) (m : List (Nat × Nat))
    (h : addWorkflow P G ops c passthrough w = .ok (g, out, m)) :
    GStep c NotFD AnyQ (initGraph G c) g := by
  unfold addWorkflow at h
  simp only [] at h
  split at h
  · cases h
  · split at h
    · cases h
    · split at h
      · cases h
      · split at h
        · cases h
        · split at h
          · cases h
          · rename_i g1 outNode h1
            split at h
            · cases h
            · rename_i g3 h3
              simp only [Except.ok.injEq, Prod.mk.injEq] at h
              rw [← h.1]
              have s3 := foldlM_rel (R := GStep c NotFD AnyQ) GStep.refl (fun _ _ _ => GStep.trans) _ _ (by
                intro ga r gb _ hr
                split at hr
                · cases hr
                · rename_i gc kc hc
                  simp only [Except.ok.injEq] at hr
                  rw [← hr]
                  exact .trans (wfNode_step _ c w _ _ _ _ _ _ _ hc) (.add _ _ (by simp [NotFD]))) _ _ h3
              rw [initGraph_store] at h1
              refine .trans (wfNode_step _ c w _ _ _ _ _ _ _ h1) (.trans ?_ (.trans s3 (.trans (.add _ _ (by simp [NotFD]))
                (.ty (.iteAdd _ _ _ (by simp [NotFD]))))))
              refine GStep.foldl _ _ (fun ga p => ?_) g1
              split
              · exact .addFrom _ _ _ true
              · exact .refl _

end Tfv
