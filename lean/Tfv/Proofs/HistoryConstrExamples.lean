import Tfv.Proofs.HistoryConstrTop
import Tfv.Proofs.HistoryExamples
import Tfv.Proofs.FrameConstrExamples
import Tfv.Proofs.GraphMemo
/-!
# History independence in the shift form WITH constraints (C16): concrete runs, evaluated by the kernel

The engine with fuel offsets is structurally recursive, so `decide +kernel` evaluates it; runs of the model itself go
through `useSchemaE_zero` / `useSchema_shift`. Every evaluation compares a computed value with a literal (or applies a
Boolean test to it): comparing two computed values makes the kernel compare the two computations step by step.

1. Non-vacuity: schemas with an elimination constraint and with a subtype constraint used behind histories that
   themselves carry pending constraints: both sides of the main statement evaluated, equal up to the shift.
2. Counterexamples: with constraints the main statement is FALSE of the model. `fulfill` / `minimize` compare the
   terms of a constraint with `match3`, whose fuel is `4 * vars.length + 64`; on terms nested deeper than that the
   comparison gives up ("not enough information") in the short store and succeeds behind a history.
   * a schema whose constraint has two alternatives nested 70 deep (`sDeep`): already `instantiate` differs behind a
     history of ONE variable; applied to `B` the two runs even fail with different errors;
   * a shallow schema `x ** y ** z [z << {x, y}]` applied to two arguments nested 77 deep (`sXYZ`).
-/
namespace Tfv.C16H
open Tfv Tfv.C03P Tfv.C16P Tfv.C03C Tfv.C16C

instance : DecidableEq Term := fun a b => decidable_of_iff _ (term_beq_iff a b)
deriving instance DecidableEq for VarInfo, Constr, Store
deriving instance DecidableEq for Except

/-- a successful result satisfying a test -/
def okTest (r : Except Err (Store × Term)) (f : Store → Term → Bool) : Bool :=
  match r with
  | .ok (σ, t) => f σ t
  | .error _ => false

theorem okTest_elim {r : Except Err (Store × Term)} {f : Store → Term → Bool} (h : okTest r f = true) :
    ∃ σ t, r = .ok (σ, t) ∧ f σ t = true := by
  unfold okTest at h
  split at h
  · next σ t => exact ⟨σ, t, rfl, h⟩
  · cases h

/-! ## 1. non-vacuity -/

/-- `x ** x [x << {A, B}]` -/
def sElim : Schema := ⟨1, 0, .app FUN [.var 0, .var 0], [.elim (.var 0) [.app 5 [], .app 6 []]]⟩

/-- `x ** y ** x [x ≤ F(y)]` -/
def sSubF : Schema :=
  ⟨2, 0, .app FUN [.var 0, .app FUN [.var 1, .var 0]], [.sub (.var 0) (.app 7 [.var 1]) false]⟩

theorem sElim_ok : (∀ c, c ∈ sElim.constraints → okCAstN exL (sElim.nvars + sElim.nwild) c = true) ∧
    okTermN exL (sElim.nvars + sElim.nwild) sElim.body = true := ⟨by decide, by decide⟩

theorem exSC_ok : (∀ c, c ∈ exSC.constraints → okCAstN exL (exSC.nvars + exSC.nwild) c = true) ∧
    okTermN exL (exSC.nvars + exSC.nwild) exSC.body = true := ⟨by decide, by decide⟩

theorem sSubF_ok : (∀ c, c ∈ sSubF.constraints → okCAstN exL (sSubF.nvars + sSubF.nwild) c = true) ∧
    okTermN exL (sSubF.nvars + sSubF.nwild) sSubF.body = true := ⟨by decide, by decide⟩

/-- the result of `x ** x [x << {A, B}]` on `B` from the empty store: the constraint is narrowed to `A`, fulfilled -/
def σElim : Store :=
  { vars := [{ bound := some (.app 5 []), upper := some 5 }], csets := [[]], constrs := [.elim (.var 0) [.app 5 []] true] }

theorem exElim_fresh : useSchema exL 40 true {} sElim [.app 6 []] = .ok (σElim, .app 5 []) := by
  rw [← useSchemaE_zero]; decide +kernel

/-- the fresh run does not depend on the fuel offsets of the history `σC` (hypothesis of the `_partial` theorem) -/
theorem exElim_stable : useSchemaE exL σC.vars.length σC.constrs.length 40 true {} sElim [.app 6 []] =
    useSchema exL 40 true {} sElim [.app 6 []] := by
  rw [exElim_fresh]; decide +kernel

/-- … behind the history `σC` (one variable with the pending constraint `x0 ≤ A`): everything shifted by one variable,
one constraint set, one constraint -/
theorem exElim_behind : useSchema exL 40 true σC sElim [.app 6 []] =
    .ok ({ vars := [{}, { bound := some (.app 5 []), upper := some 5, cset := 1 }], csets := [[0], []],
           constrs := [.sub (.var 0) (.app 5 []) false false, .elim (.var 1) [.app 5 []] true] }, .app 5 []) := by
  rw [← useSchemaE_zero]; decide +kernel

/-- both sides of the main statement, evaluated independently of the theorem -/
theorem exElim_shift : useSchema exL 40 true σC sElim [.app 6 []] =
    afterHistoryC σC (useSchema exL 40 true {} sElim [.app 6 []]) := by
  rw [exElim_behind, exElim_fresh]; decide +kernel

/-- the same use behind the blank history of the sizes of `σC`, evaluated: the hypothesis of the transfer theorem -/
theorem exElim_blank : useSchema exL 40 true (blankHistory σC.vars.length σC.constrs.length) sElim [.app 6 []] =
    afterHistoryC (blankHistory σC.vars.length σC.constrs.length) (useSchema exL 40 true {} sElim [.app 6 []]) := by
  have h : useSchemaE exL 0 0 40 true (blankHistory σC.vars.length σC.constrs.length) sElim [.app 6 []] =
      .ok ({ vars := [{}, { bound := some (.app 5 []), upper := some 5 }], csets := [[]],
             constrs := [.sub (.var 0) (.var 0) false true, .elim (.var 1) [.app 5 []] true] }, .app 5 []) := by
    decide +kernel
  rw [← useSchemaE_zero, h, exElim_fresh]; decide +kernel

/-- a schema with a SUBTYPE constraint, from the empty store … -/
def σSub : Store :=
  { vars := [{ bound := some (.app 6 []), lower := some 6 }], csets := [[]],
    constrs := [.sub (.var 0) (.app 5 []) false true] }

theorem exSub_fresh : useSchema exL 40 true {} exSC [.app 6 []] = .ok (σSub, .app 6 []) := by
  rw [← useSchemaE_zero]; decide +kernel

/-- … and behind the history `σCC` (two pending constraints): the new constraint `x2 ≤ A` gets the id 2, the new
constraint set the id 2 -/
theorem exSub_behind : useSchema exL 40 true σCC exSC [.app 6 []] =
    .ok ({ vars := [{}, { cset := 1 }, { bound := some (.app 6 []), lower := some 6, cset := 2 }],
           csets := [[0], [1], []],
           constrs := [.sub (.var 0) (.app 5 []) false false, .sub (.var 1) (.app 5 []) false false,
             .sub (.var 2) (.app 5 []) false true] }, .app 6 []) := by
  rw [← useSchemaE_zero]; decide +kernel

theorem exSub_shift : useSchema exL 40 true σCC exSC [.app 6 []] =
    afterHistoryC σCC (useSchema exL 40 true {} exSC [.app 6 []]) := by
  rw [exSub_behind, exSub_fresh]; decide +kernel

theorem exSub_stable : useSchemaE exL σCC.vars.length σCC.constrs.length 40 true {} exSC [.app 6 []] =
    useSchema exL 40 true {} exSC [.app 6 []] := by
  rw [exSub_fresh]; decide +kernel

/-- a subtype constraint against a compound type (`skip_basic` allocates a fresh skeleton variable `x2`), two
arguments: `x0 := F(x2)`, `x2 := x1`, `x1 := A` -/
def σSubF : Store :=
  { vars := [{ bound := some (.app 7 [.var 2]) }, { bound := some (.app 5 []), lower := some 5, cset := 1 },
      { bound := some (.var 1), cset := 1 }],
    csets := [[], [], []], constrs := [.sub (.var 0) (.app 7 [.var 1]) false true] }

theorem exSubF_fresh : useSchema exL 60 true {} sSubF [.app 7 [.app 6 []], .app 5 []] =
    .ok (σSubF, .app 7 [.var 2]) := by
  rw [← useSchemaE_zero]; decide +kernel

theorem exSubF_behind : useSchema exL 60 true σCC sSubF [.app 7 [.app 6 []], .app 5 []] =
    .ok ({ vars := [{}, { cset := 1 }, { bound := some (.app 7 [.var 4]), cset := 2 },
             { bound := some (.app 5 []), lower := some 5, cset := 3 }, { bound := some (.var 3), cset := 3 }],
           csets := [[0], [1], [], [], []],
           constrs := [.sub (.var 0) (.app 5 []) false false, .sub (.var 1) (.app 5 []) false false,
             .sub (.var 2) (.app 7 [.var 3]) false true] }, .app 7 [.var 4]) := by
  rw [← useSchemaE_zero]; decide +kernel

theorem exSubF_shift : useSchema exL 60 true σCC sSubF [.app 7 [.app 6 []], .app 5 []] =
    afterHistoryC σCC (useSchema exL 60 true {} sSubF [.app 7 [.app 6 []], .app 5 []]) := by
  rw [exSubF_behind, exSubF_fresh]; decide +kernel

theorem σCC_scoped : ScopedC σCC := scopedC_of_okStoreC σCC_okc

/-! ## 2. the main statement fails on deep terms -/

def dA (d : Nat) : Term := nest 7 d (.app 5 [])
def dB (d : Nat) : Term := nest 7 d (.app 6 [])

/-- `x ** x [x << {F⁷⁰(A), F⁷⁰(B)}]` -/
def sDeep : Schema := ⟨1, 0, .app FUN [.var 0, .var 0], [.elim (.var 0) [dA 70, dB 70]]⟩

theorem sDeep_ok : (∀ c, c ∈ sDeep.constraints → okCAstN exL (sDeep.nvars + sDeep.nwild) c = true) ∧
    okTermN exL (sDeep.nvars + sDeep.nwild) sDeep.body = true := ⟨by decide, by decide⟩

/-- from the empty store `minimize` cannot compare the two alternatives (fuel 68 < 71): the constraint stays pending
with both and `x` is unresolved … -/
theorem exDeep_fresh : okTest (useSchemaE exL 0 0 200 true {} sDeep [])
    (fun σ _ => (getVar σ 0).bound.isNone && decide (getCset σ 0 = [0])) = true := by decide +kernel

/-- … with the fuels of a history of one variable (fuel 72) it sees `F⁷⁰(B) ≤ F⁷⁰(A)`, keeps `F⁷⁰(A)` only, binds `x` -/
theorem exDeep_offset : okTest (useSchemaE exL 1 0 200 true {} sDeep [])
    (fun σ _ => (getVar σ 0).bound.isSome && decide (getCset σ 0 = [])) = true := by decide +kernel

theorem exDeep_differs :
    useSchemaE exL 1 0 200 true {} sDeep [] ≠ useSchemaE exL 0 0 200 true {} sDeep [] := by
  intro h
  obtain ⟨σ, t, e, hf⟩ := okTest_elim exDeep_offset
  obtain ⟨σ', t', e', hf'⟩ := okTest_elim exDeep_fresh
  rw [h, e'] at e
  injection e with e
  injection e with e1 e2
  subst e1
  simp only [Bool.and_eq_true] at hf hf'
  have h1 := hf.1
  have h2 := hf'.1
  cases hb : (getVar σ' 0).bound with
  | none => rw [hb] at h1; cases h1
  | some b => rw [hb] at h2; cases h2

theorem exDeep_fresh_pending : ∃ σ t, useSchema exL 200 true {} sDeep [] = .ok (σ, t) ∧
    (getVar σ 0).bound = none ∧ getCset σ 0 = [0] := by
  rw [← useSchemaE_zero]
  obtain ⟨σ, t, e, hf⟩ := okTest_elim exDeep_fresh
  simp only [Bool.and_eq_true, decide_eq_true_eq, Option.isNone_iff_eq_none] at hf
  exact ⟨σ, t, e, hf⟩

theorem exDeep_behind_bound : ∃ σ t, useSchema exL 200 true σ1 sDeep [] = .ok (σ, t) ∧
    (getVar σ 1).bound.isSome = true ∧ getCset σ 1 = [] := by
  rw [useSchema_shift σ1 sDeep_ok.1 sDeep_ok.2 rfl]
  obtain ⟨σ, t, e, hf⟩ := okTest_elim exDeep_offset
  have e' : useSchemaE exL σ1.vars.length σ1.constrs.length 200 true {} sDeep [] = .ok (σ, t) := e
  simp only [Bool.and_eq_true, decide_eq_true_eq] at hf
  refine ⟨σ1.appendC σ, t.shift σ1.vars.length, by rw [e']; rfl, ?_, ?_⟩
  · have := (getVar_appendC_core σ1 σ 0).1
    rw [show (0 : Nat) + σ1.vars.length = 1 from rfl] at this
    rw [this, Option.isSome_map]; exact hf.1
  · have := getCset_appendC σ1 σ 0
    rw [show (0 : Nat) + σ1.csets.length = 1 from rfl] at this
    rw [this, hf.2]; rfl

/-- applied to `B` the two runs fail with DIFFERENT errors -/
theorem exDeep_errors :
    useSchema exL 200 true {} sDeep [.app 6 []] = .error .constraintViolation ∧
    useSchema exL 200 true σ1 sDeep [.app 6 []] = .error .subtypeMismatch := by
  constructor
  · rw [← useSchemaE_zero]; decide +kernel
  · rw [useSchema_shift σ1 sDeep_ok.1 sDeep_ok.2 (by decide)]
    have h : useSchemaE exL σ1.vars.length σ1.constrs.length 200 true {} sDeep [.app 6 []] =
        .error .subtypeMismatch := by decide +kernel
    rw [h]; rfl

theorem σ1_okc : OkStoreC exL σ1 := okStoreCB_sound (by decide)

/-- THE MAIN STATEMENT IS FALSE of the model once schemas carry constraints, even for a well-formed language, a history
satisfying the invariant `OkStoreC` and no arguments at all -/
theorem history_shift_counterexample :
    ¬ (∀ (L : Lang) (n : Nat) (fixFlag : Bool) (σ₀ : Store) (s : Schema) (xs : List Term), WF L → OkStoreC L σ₀ →
        (∀ c, c ∈ s.constraints → okCAstN L (s.nvars + s.nwild) c = true) →
        okTermN L (s.nvars + s.nwild) s.body = true → Term.closedL xs = true →
        useSchema L n fixFlag σ₀ s xs = afterHistoryC σ₀ (useSchema L n fixFlag {} s xs)) := by
  intro h
  have h1 := h exL 200 true σ1 sDeep [] exL_wf σ1_okc sDeep_ok.1 sDeep_ok.2 rfl
  have h2 := (useSchema_shift_iff σ1 sDeep_ok.1 sDeep_ok.2 rfl).mp h1
  rw [← useSchemaE_zero] at h2
  exact exDeep_differs h2

/-- `x ** y ** z [z << {x, y}]`: a shallow schema -/
def sXYZ : Schema := ⟨3, 0, .app FUN [.var 0, .app FUN [.var 1, .var 2]], [.elim (.var 2) [.var 0, .var 1]]⟩

theorem sXYZ_ok : (∀ c, c ∈ sXYZ.constraints → okCAstN exL (sXYZ.nvars + sXYZ.nwild) c = true) ∧
    okTermN exL (sXYZ.nvars + sXYZ.nwild) sXYZ.body = true := ⟨by decide, by decide⟩

/-- … applied to `F⁷⁷(A)` and `F⁷⁷(B)`: from the empty store (fuel 76) the two alternatives stay incomparable and
the result is the unresolved `z` … -/
theorem exXYZ_fresh : okTest (useSchemaE exL 0 0 300 true {} sXYZ [dA 77, dB 77])
    (fun _ t => Term.beq t (.var 2)) = true := by decide +kernel

/-- … with the fuels of a history of one variable (fuel 80) `z` is resolved to `F⁷⁷(A)` -/
theorem exXYZ_offset : okTest (useSchemaE exL 1 0 300 true {} sXYZ [dA 77, dB 77])
    (fun _ t => Term.beq t (dA 77)) = true := by decide +kernel

theorem exXYZ_results :
    (∃ σ, useSchema exL 300 true {} sXYZ [dA 77, dB 77] = .ok (σ, .var 2)) ∧
    (∃ σ, useSchema exL 300 true σ1 sXYZ [dA 77, dB 77] = .ok (σ, dA 77)) := by
  constructor
  · rw [← useSchemaE_zero]
    obtain ⟨σ, t, e, hf⟩ := okTest_elim exXYZ_fresh
    exact ⟨σ, by rw [e, (term_beq_iff _ _).mp hf]⟩
  · rw [useSchema_shift σ1 sXYZ_ok.1 sXYZ_ok.2 (by decide)]
    obtain ⟨σ, t, e, hf⟩ := okTest_elim exXYZ_offset
    have e' : useSchemaE exL σ1.vars.length σ1.constrs.length 300 true {} sXYZ [dA 77, dB 77] = .ok (σ, t) := e
    refine ⟨σ1.appendC σ, ?_⟩
    rw [e', (term_beq_iff _ _).mp hf]
    simp only [shP_ok]
    rw [shift_closed _ _ (by decide)]

end Tfv.C16H
