import Tfv.Proofs.ExprTyped
import Tfv.Proofs.InferExamples
/-!
# Concrete runs of the typed expression parser (non-vacuity of the C04 theorems)

The occurs check of `unify` does not reduce by `rfl` (see `InferExamples.lean`); the two
applications of the example are evaluated through the rewriting lemmas of that file, the parser
loop is unrolled by `simp` with the results of the builder operations as rewrite rules.
-/
namespace Tfv.C04P
open Tfv Tfv.C03P

/-- an unresolved variable against a base type: the occurs check is trivially negative -/
theorem unify_unbound_base {L : Lang} {σ : Store} {o w : Nat} (hw : (getVar σ w).bound = none) (n : Nat) :
    unify L (n+1) σ (.var w) (.app o []) true false false =
      if o == TOP then .ok σ
      else if arityOf L o == 0 then below L n σ w o else bind L n σ w (.app o []) := by
  have e : termFuel σ = (σ.vars.length + 63) + 1 := rfl
  rw [unify, followT_unbound hw, followT_app]
  simp only [e, occurs_base_unbound hw, Bool.false_or, Bool.false_and, Bool.false_eq_true, if_false, if_true]

/-! ## the language: `A`, `B ≤ A`, `f : A ** B`, `g : x ** x` -/

def c4L : Lang := builtinDecls ++ [⟨"A", [], none⟩, ⟨"B", [], some 5⟩]
def c4P : PLang := { types := c4L }
def c4ops : List OperatorDecl :=
  [ ⟨"f", ⟨0, 0, .app FUN [.app 5 [], .app 6 []], []⟩⟩,
    ⟨"g", ⟨1, 0, .app FUN [.var 0, .var 0], []⟩⟩ ]

theorem c4L_wf : WF c4L := wf_of_wfLangB c4L (by decide)
theorem c4P_aliases : AliasesOk c4P := fun _ h => by cases h
theorem c4ops_ok : OpsOk c4L c4ops := by
  intro d hd
  simp only [c4ops, List.mem_cons, List.not_mem_nil, or_false] at hd
  rcases hd with rfl | rfl
  · exact ⟨rfl, by decide⟩
  · exact ⟨rfl, by decide⟩

/-! ## `g(f -)` -/

def eG : TExpr := .op "g" (.app FUN [.var 0, .var 0])
def eF : TExpr := .op "f" (.app FUN [.app 5 [], .app 6 []])
def eS : TExpr := .src 0 none (.var 1)
/-- after `g`: the variable `x` of `g` -/
def s1 : XState := { store := { vars := [{ cset := 0 }], csets := [[]] }, nsrc := 0 }
/-- after `-`: the source's wildcard variable -/
def s2 : XState :=
  { store := { vars := [{ cset := 0 }, { wildcard := true, cset := 1 }], csets := [[], []] }, nsrc := 1 }
/-- after `f -`: the source is bounded by `A` -/
def s3 : XState :=
  { store := { vars := [{ cset := 0 }, { upper := some 5, cset := 1 }], csets := [[], []] }, nsrc := 1 }
def eFS : TExpr := .app eF eS (.app 6 [])
/-- after `g(f -)`: `x := B` -/
def s4 : XState :=
  { store := { vars := [{ bound := some (.app 6 []), lower := some 6, cset := 0 }, { upper := some 5, cset := 1 }],
               csets := [[], []] }, nsrc := 1 }
def eGFS : TExpr := .app eG eFS (.app 6 [])
/-- after `Expr.fix()`: the source is fixed to its most general type `A` -/
def s5 : XState :=
  { store := { vars := [{ bound := some (.app 6 []), lower := some 6, cset := 0 },
                        { bound := some (.app 5 []), upper := some 5, cset := 1 }],
               csets := [[], []] }, nsrc := 1 }
def eFixed : TExpr :=
  .app (.op "g" (.app FUN [.app 6 [], .app 6 []]))
    (.app eF (.src 0 none (.app 5 [])) (.app 6 [])) (.app 6 [])

theorem ex_g : mkOpT c4L c4ops {} "g" = .ok (s1, eG) := by with_unfolding_all rfl
theorem ex_f : mkOpT c4L c4ops s1 "f" = .ok (s1, eF) := by with_unfolding_all rfl
theorem ex_s : mkSourceT s1 = (s2, eS) := rfl

theorem ex_app1 : mkAppT c4L true s2 eF eS = .ok (s3, eFS) := by
  unfold mkAppT eF eS
  simp only [TExpr.ty]
  rw [applyT_fun]
  have hw : (getVar s2.store 1).bound = none := rfl
  have e1 : followT s2.store (.var 1) = .var 1 := followT_unbound hw
  have e2 : exprFuel = 3999 + 1 := rfl
  rw [e1, e2, unify_unbound_base hw]
  with_unfolding_all rfl

theorem ex_app2 : mkAppT c4L true s3 eG eFS = .ok (s4, eGFS) := by
  unfold mkAppT eG eFS
  simp only [TExpr.ty]
  rw [applyT_fun]
  have hw : (getVar s3.store 0).bound = none := rfl
  have e1 : followT s3.store (.app 6 []) = .app 6 [] := followT_app _ _ _
  have e2 : exprFuel = 3999 + 1 := rfl
  rw [e1, e2, unify_base_unbound hw]
  with_unfolding_all rfl

theorem pd_g : parseDecimal "g" = none := by decide
theorem pd_f : parseDecimal "f" = none := by decide
theorem pd_1 : parseDecimal "1" = some 1 := by decide
theorem dash_1 : ("1" == "-") = false := by decide

theorem ex_parse :
    parseExprToks c4P (typedBuilder c4L c4ops true) [] {} ["g", "(", "f", "-", ")"] = .ok (s4, eGFS) := by
  unfold parseExprToks
  simp only [List.length, Nat.reduceAdd]
  simp (config := {decide := true}) only [parseExprLoop, typedBuilder, ex_g, ex_f, ex_s, ex_app1, ex_app2,
    pd_g, pd_f, ↓reduceIte]

/-- the tree after the fixing pass `fixExprCore` alone (no normalisation): `g` still has the type `x ** x` -/
def eCore : TExpr :=
  .app eG (.app eF (.src 0 none (.app 5 [])) (.app 6 [])) (.app 6 [])

theorem ex_fixCore : fixExprCore c4L s4.store eGFS = .ok (s5.store, eCore) := by with_unfolding_all rfl

/-- `normalize()` is compiled by well-founded recursion: evaluated by rewriting -/
theorem ex_norm1 : normT s5.store (.app FUN [.var 0, .var 0]) = .app FUN [.app 6 [], .app 6 []] := by
  have h0 : followT s5.store (.var 0) = .app 6 [] := rfl
  have hl : s5.store.vars.length + 64 = 66 := rfl
  simp only [normT, hl, normTerm, normTermL, followT_app, h0]
theorem ex_norm2 : normT s5.store (.app FUN [.app 5 [], .app 6 []]) = .app FUN [.app 5 [], .app 6 []] := by
  have hl : s5.store.vars.length + 64 = 66 := rfl
  simp only [normT, hl, normTerm, normTermL, followT_app]
theorem ex_norm3 (o : Nat) : normT s5.store (.app o []) = .app o [] := by
  have hl : s5.store.vars.length + 64 = 66 := rfl
  simp only [normT, hl, normTerm, normTermL, followT_app]

/-- the same in the store before fixing (`x := B` is already bound there) -/
theorem ex_norm1' : normT s4.store (.app FUN [.var 0, .var 0]) = .app FUN [.app 6 [], .app 6 []] := by
  have h0 : followT s4.store (.var 0) = .app 6 [] := rfl
  have hl : s4.store.vars.length + 64 = 66 := rfl
  simp only [normT, hl, normTerm, normTermL, followT_app, h0]
theorem ex_norm2' : normT s4.store (.app FUN [.app 5 [], .app 6 []]) = .app FUN [.app 5 [], .app 6 []] := by
  have hl : s4.store.vars.length + 64 = 66 := rfl
  simp only [normT, hl, normTerm, normTermL, followT_app]

/-- the two `fix` steps of the run: the source's variable is bound to its upper bound `A` (and `fix` returns `A`);
a base type is left alone -/
theorem ex_fix_src : fix c4L exprFuel s4.store (.var 1) false = .ok (s5.store, .app 5 []) := by with_unfolding_all rfl
theorem ex_fix_base : fix c4L exprFuel s5.store (.app 6 []) true = .ok (s5.store, .app 6 []) := by
  with_unfolding_all rfl

/-- `Expr.fix()` node by node: `g` is normalised in the store before fixing (where `x := B` already holds), the
source is fixed to `A` and normalised in the store after that step -/
theorem ex_fix : fixExpr c4L s4.store eGFS = .ok (s5.store, eFixed) := by
  simp only [eGFS, eFS, eG, eF, eS, fixExpr, ex_norm1', ex_norm2', ex_fix_src, ex_fix_base, ex_norm3, eFixed]

/-! ### a stale type: `g -` with the source's variable only bounded by `A` when `g` is normalised

`g : x ** x` was applied to a source whose variable `x` (shared with `g`) is unbound with upper bound `A`.
`Expr.fix()` normalises `g` first (nothing to follow), then fixes the source, which binds `x := A`: the
stored type of `g` keeps the variable, while normalising against the final store gives `A ** A`. Both trees
are typed in the final store (`fixExpr_typed`, `normExpr_typed`). -/

def u0 : Store := { vars := [{ upper := some 5, cset := 0 }], csets := [[]] }
def u1 : Store := { vars := [{ bound := some (.app 5 []), upper := some 5, cset := 0 }], csets := [[]] }
def eU : TExpr := .app eG (.src 0 none (.var 0)) (.var 0)
/-- the result of `Expr.fix()`: the type of `g` still mentions the variable -/
def eUfixed : TExpr := .app eG (.src 0 none (.app 5 [])) (.app 5 [])
/-- the fixing pass followed by normalisation against the final store -/
def eUnorm : TExpr := .app (.op "g" (.app FUN [.app 5 [], .app 5 []])) (.src 0 none (.app 5 [])) (.app 5 [])

theorem u0_good : GoodStore c4L u0 := ⟨okStoreB_sound (by decide), noConstraintsB_sound (by decide)⟩

theorem eU_typed : TypedIn c4L u0 eU :=
  ⟨by decide, fun ρ hρ => by
    unfold eU eG WellTyped
    refine ⟨by unfold WellTyped; trivial, by unfold WellTyped; trivial, Or.inl ⟨ρ 0, ?_, ?_⟩⟩
    · simp only [TExpr.ty, den_app, denL_cons, denL_nil, den_var]
    · simp only [TExpr.ty, den_var]
      exact sub_refl _ (hρ.wf 0)⟩

theorem exU_norm0 : normT u0 (.app FUN [.var 0, .var 0]) = .app FUN [.var 0, .var 0] := by
  have h0 : followT u0 (.var 0) = .var 0 := rfl
  have hl : u0.vars.length + 64 = 65 := rfl
  simp only [normT, hl, normTerm, normTermL, followT_app, h0]
theorem exU_norm1 : normT u1 (.app FUN [.var 0, .var 0]) = .app FUN [.app 5 [], .app 5 []] := by
  have h0 : followT u1 (.var 0) = .app 5 [] := rfl
  have hl : u1.vars.length + 64 = 65 := rfl
  simp only [normT, hl, normTerm, normTermL, followT_app, h0]
theorem exU_norm2 : normT u1 (.app 5 []) = .app 5 [] := by
  have hl : u1.vars.length + 64 = 65 := rfl
  simp only [normT, hl, normTerm, normTermL, followT_app]
theorem exU_fix_src : fix c4L exprFuel u0 (.var 0) false = .ok (u1, .app 5 []) := by with_unfolding_all rfl
theorem exU_fix_app : fix c4L exprFuel u1 (.var 0) true = .ok (u1, .app 5 []) := by with_unfolding_all rfl

theorem exU_fix : fixExpr c4L u0 eU = .ok (u1, eUfixed) := by
  simp only [eU, eG, fixExpr, exU_norm0, exU_fix_src, exU_fix_app, exU_norm2, eUfixed]

theorem exU_fixCore : fixExprCore c4L u0 eU = .ok (u1, eUfixed) := by with_unfolding_all rfl

theorem exU_normExpr : normExpr u1 eUfixed = eUnorm := by
  simp only [eUfixed, eG, normExpr, exU_norm1, exU_norm2, eUnorm]

/-- the stored type of `g` after `Expr.fix()` is not the normalised one -/
theorem exU_stale : eUfixed ≠ eUnorm := by
  unfold eUfixed eUnorm eG
  intro h
  injection h with h1 _ _
  injection h1 with _ h2
  injection h2 with _ h3
  injection h3 with h4 _
  cases h4

theorem exU_sat : Sat c4L (valOf [.app 5 []]) u1 :=
  satB_sound c4L_wf (okStoreB_sound (by decide)) (by decide)

theorem ex_parseTyped_nofix : parseTyped c4P c4ops 0 ["g", "(", "f", "-", ")"] false = .ok (s4, eGFS) := by
  unfold parseTyped
  have e : mkInputs 0 {} = ({}, []) := rfl
  have e' : c4P.types = c4L := rfl
  simp only [e, e', ex_parse]
  rfl

theorem ex_parseTyped : parseTyped c4P c4ops 0 ["g", "(", "f", "-", ")"] true = .ok (s5, eFixed) := by
  unfold parseTyped
  have e : mkInputs 0 {} = ({}, []) := rfl
  have e' : c4P.types = c4L := rfl
  simp only [e, e', ex_parse, ex_fix]
  rfl

/-- a solution of the final store: `x := B`, the source has type `A` -/
theorem ex_sat : Sat c4L (valOf [.app 6 [], .app 5 []]) s5.store :=
  satB_sound c4L_wf (okStoreB_sound (by decide)) (by decide)

/-- a solution of the store before fixing in which the source has type `B` -/
theorem ex_sat4 : Sat c4L (valOf [.app 6 [], .app 6 []]) s4.store :=
  satB_sound c4L_wf (okStoreB_sound (by decide)) (by decide)

theorem s2_good : GoodStore c4L s2.store := ⟨okStoreB_sound (by decide), noConstraintsB_sound (by decide)⟩
theorem s1_good : GoodStore c4L s1.store := ⟨okStoreB_sound (by decide), noConstraintsB_sound (by decide)⟩
theorem s3_good : GoodStore c4L s3.store := ⟨okStoreB_sound (by decide), noConstraintsB_sound (by decide)⟩
theorem eF_typed (σ : Store) : TypedIn c4L σ eF :=
  typedIn_op (okTerm_of_okTermN (k := 0) (Nat.zero_le _) _ (by decide))
theorem eS_typed : TypedIn c4L s2.store eS := typedIn_src (by decide)

theorem eGFS_typed : TypedIn c4L s4.store eGFS :=
  (parse_nodes (P := c4P) c4L_wf c4P_aliases c4ops_ok (empty_good _) (fun _ h => by cases h) ex_parse).2.2

/-- the argument `f -` of `g(f -)` is typed in the final store -/
theorem eFS_typed : TypedIn c4L s4.store eFS :=
  ⟨by have := eGFS_typed.ok; unfold eGFS okExpr at this; simp only [Bool.and_eq_true] at this; exact this.1.2,
   fun ρ hρ => by have := eGFS_typed.wt ρ hρ; unfold eGFS WellTyped at this; exact this.2.1⟩

/-! ## `f(1 : B)` with one input -/

/-- the state after creating the input -/
def t0 : XState := { store := { vars := [{ wildcard := true, cset := 0 }], csets := [[]] }, nsrc := 1 }
def eI : TExpr := .src 0 none (.var 0)
/-- after `1 : B`: the input is bounded by `B` -/
def t1 : XState := { store := { vars := [{ upper := some 6, cset := 0 }], csets := [[]] }, nsrc := 1 }
def eFI : TExpr := .app eF eI (.app 6 [])

theorem ex2_inputs : mkInputs 1 {} = (t0, [eI]) := rfl
theorem ex2_f : mkOpT c4L c4ops t0 "f" = .ok (t0, eF) := by with_unfolding_all rfl
theorem ex2_type : parseTypeLoop c4P false t0.store.vars.length {} ["B", ")"] = .ok (.app 6 [], 0, [")"]) := by rfl
theorem ex2_lookup : lookupInput [eI] 1 = some eI := rfl

theorem ex2_annot : annotateT c4L t0 eI (.app 6 []) 0 false = .ok (t1, eI) := by
  rw [annotateT_eq]
  have e0 : allocVars t0.store 0 0 = t0.store := rfl
  have e1 : (annotated eI (.app 6 []) false).ty = .var 0 := rfl
  have hw : (getVar t0.store 0).bound = none := rfl
  have e2 : exprFuel = 3999 + 1 := rfl
  rw [e0, e1, e2, unify_unbound_base hw]
  with_unfolding_all rfl

theorem ex2_app : mkAppT c4L true t1 eF eI = .ok (t1, eFI) := by
  unfold mkAppT eF eI
  simp only [TExpr.ty]
  rw [applyT_fun]
  have hw : (getVar t1.store 0).bound = none := rfl
  have e1 : followT t1.store (.var 0) = .var 0 := followT_unbound hw
  have e2 : exprFuel = 3999 + 1 := rfl
  rw [e1, e2, unify_unbound_base hw]
  with_unfolding_all rfl

theorem ex2_parse :
    parseExprToks c4P (typedBuilder c4L c4ops true) [eI] t0 ["f", "(", "1", ":", "B", ")"] = .ok (t1, eFI) := by
  unfold parseExprToks
  simp only [List.length, Nat.reduceAdd]
  simp (config := {decide := true}) only [parseExprLoop, typedBuilder, ex2_f, ex2_type, ex2_lookup, dash_1, ex2_annot,
    ex2_app, pd_f, pd_1, ↓reduceIte]

theorem t0_good : GoodStore c4L t0.store := ⟨okStoreB_sound (by decide), noConstraintsB_sound (by decide)⟩
theorem t1_good : GoodStore c4L t1.store := ⟨okStoreB_sound (by decide), noConstraintsB_sound (by decide)⟩
theorem eI_typed : TypedIn c4L t0.store eI := typedIn_src (by decide)

/-- a solution of the final store: the input has type `B` -/
theorem ex2_sat : Sat c4L (valOf [.app 6 []]) t1.store :=
  satB_sound c4L_wf (okStoreB_sound (by decide)) (by decide)

/-- programmatic construction `g(f(-))` nested: `f.__call__(src)` -/
theorem ex_call : callT c4L s2 eF [eS] = .ok (s3, eFS) := by
  unfold callT
  simp only [ex_app1]
  unfold callT
  rfl

end Tfv.C04P
