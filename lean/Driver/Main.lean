import Tfv.Model
/-!
Line-protocol driver: one s-expression per line in, one canonical line out.
It evaluates the same definitions the theorems in `Tfv/Props` are about.
-/
open Tfv

structure DState where
  lang : Lang := builtinDecls
  deriving Inhabited

def parseLangDecl : Sexp → Option OpDecl
  | .list [.atom name, .list vs, p] => do
      let vs ← vs.mapM (fun v => match v with
        | .atom "+" => some true | .atom "-" => some false | _ => none)
      let parent ← match p with
        | .atom "-" => some none
        | .atom n => n.toNat?.map some
        | _ => none
      pure ⟨name, vs, parent⟩
  | _ => none

def boolOf : Sexp → Option Bool
  | .atom "T" => some true
  | .atom "F" => some false
  | _ => none

def sortStrs (xs : List String) : List String := xs.mergeSort (fun a b => a ≤ b)

def showCErr : CErr → String
  | .typeMismatch => "TypeMismatch"
  | .subtypeMismatch => "SubtypeMismatch"
  | .functionApplication => "FunctionApplicationError"

def showUErr : UErr → String
  | .keyError => "KeyError"
  | .assertion => "AssertionError"

def leTy (L : Lang) (s t : Ty) : Bool := isSubtype L s t false

def parseEdge : Sexp → Option (Nat × Nat × Bool)
  | .list [a, b, r] => do pure ((← Sexp.nat? a), (← Sexp.nat? b), (← boolOf r))
  | _ => none

def showPairs (r : Rel) : String :=
  let strs := (r.map (fun p => s!"({p.1} {p.2})")).eraseDups
  " ".intercalate (sortStrs strs)

def stepBasic (st : DState) (e : Sexp) : Option (DState × String) :=
  let L := st.lang
  match e with
  | .list (.atom "lang" :: ds) =>
    match ds.mapM parseLangDecl with
    | some L' => some ({ st with lang := L' }, s!"ok {showBool (wfLangB L')}")
    | none => none
  | .list [.atom "sub", s, t] => do
    let s ← Sexp.ty? s; let t ← Sexp.ty? t
    pure (st, showBool (sub L s t))
  | .list [.atom "eq", s, t] => do
    let s ← Sexp.ty? s; let t ← Sexp.ty? t
    pure (st, showBool (eqM L s t))
  | .list [.atom "issub", s, t, b] => do
    let s ← Sexp.ty? s; let t ← Sexp.ty? t; let b ← boolOf b
    pure (st, showBool (isSubtype L s t b))
  | .list [.atom "opsub", a, b, c] => do
    let a ← Sexp.nat? a; let b ← Sexp.nat? b; let c ← boolOf c
    pure (st, showBool (opSub L a b c))
  | .list [.atom "wfty", t] => do
    let t ← Sexp.ty? t
    pure (st, showBool (wfTy L t))
  | .list [.atom "apply", f, x] => do
    let f ← Sexp.ty? f; let x ← Sexp.ty? x
    pure (st, match applyC L f x with
      | .ok t => "ok " ++ t.show
      | .error e => "E:" ++ showCErr e)
  | .list (.atom "union" :: spec :: ts) => do
    let spec ← boolOf spec
    let ts ← ts.mapM Sexp.ty?
    pure (st, " ".intercalate (sortStrs ((unionOf (leTy L) spec ts).map Ty.show)))
  | .list (.atom "bag" :: reqs) => do
    let reqs ← reqs.mapM (fun r => match r with
      | .list ts => ts.mapM Sexp.ty?
      | _ => none)
    let content := bagOf (leTy L) reqs
    let clauses := content.map (fun c => "[" ++ " ".intercalate (sortStrs (c.map Ty.show)) ++ "]")
    pure (st, " ".intercalate (sortStrs clauses))
  | .list (.atom "addfrom" :: es) => do
    let es ← es.mapM parseEdge
    let g := es.foldl (fun g (e : Nat × Nat × Bool) => addFrom g e.1 e.2.1 e.2.2) ({} : FD)
    pure (st, "dep " ++ showPairs g.dep)
  | .list [.atom "uri", t] => do
    let t ← Sexp.ty? t
    pure (st, uriLocal L t)
  | .list [.atom "deuri", s] => do
    let s ← Sexp.str? s
    pure (st, match decodeUri L s with
      | .ok t => "ok " ++ t.show
      | .error e => "E:" ++ showUErr e)
  | _ => none

def stepInfer (st : DState) (e : Sexp) : Option (DState × String) :=
  let L := st.lang
  match e with
  | .list (.atom "infer" :: s :: args) => do
    let s ← Sexp.schema? s
    let args ← args.mapM Sexp.arg?
    pure (st, runInfer L s args)
  | _ => none

def step (st : DState) (e : Sexp) : DState × String :=
  match stepBasic st e with
  | some r => r
  | none =>
    match stepInfer st e with
    | some r => r
    | none => (st, "bad-op")

partial def loop (h : IO.FS.Stream) (out : IO.FS.Stream) (st : DState) : IO Unit := do
  let line ← h.getLine
  if line.isEmpty then return ()
  match Sexp.parse line with
  | some [e] =>
    let (st', o) := step st e
    out.putStrLn o
    loop h out st'
  | _ =>
    out.putStrLn "bad-line"
    loop h out st

def main : IO Unit := do
  let out ← IO.getStdout
  loop (← IO.getStdin) out {}
  out.flush
