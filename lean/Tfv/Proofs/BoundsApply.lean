import Tfv.Proofs.BoundsChain
/-!
# C05, part 3: `applyT` on `x ** x ** … ** r` with base-type arguments goes through `above`
-/
namespace Tfv.C05P

/-- `x ** x ** … ** r` with `k` arrows -/
def funN (v : Nat) : Nat → Term → Term
  | 0, r => r
  | k+1, r => .app FUN [.var v, funN v k r]

/-- apply to the base-type arguments one after the other (`fix` left at its default `true`) -/
def applyArgs (L : Lang) (n : Nat) : Store → Term → List Nat → Except Err (Store × Term)
  | σ, f, [] => .ok (σ, f)
  | σ, f, a :: as =>
    match applyT L n σ f (.app a []) with
    | .error e => .error e
    | .ok (σ1, f1) => applyArgs L n σ1 f1 as

/-- one application whose result type is again a function type: one covariant supply, result un-fixed -/
theorem applyT_fun_fun (L : Lang) (n : Nat) (σ : Store) (v a : Nat) (rs : List Term) (ff : Bool) :
    applyT L n σ (.app FUN [.var v, .app FUN rs]) (.app a []) ff =
      match supply L n v σ (true, a) with
      | .error e => .error e
      | .ok σ1 => .ok (σ1, .app FUN rs) := by
  unfold applyT supply
  simp only [followT_app, beq_self_eq_true, if_true, Bool.not_true, Bool.and_false, Bool.false_eq_true,
    if_false]
  cases unify L n σ (Term.app a []) (Term.var v) true false false <;> rfl

/-- the last application: one covariant supply, then the result type is fixed -/
theorem applyT_fun_var (L : Lang) (n : Nat) (σ : Store) (v a r : Nat) :
    applyT L n σ (.app FUN [.var v, .var r]) (.app a []) =
      match supply L n v σ (true, a) with
      | .error e => .error e
      | .ok σ1 => fix L n σ1 (.var r) true := by
  unfold applyT supply
  simp only [followT_app, beq_self_eq_true, if_true, Bool.not_false, Bool.and_true]
  cases unify L n σ (Term.app a []) (Term.var v) true false false <;> rfl

theorem runSupply_cons (L : Lang) (n : Nat) (σ : Store) (v : Nat) (op : Op) (ops : List Op) :
    runSupply L n σ v (op :: ops) =
      match supply L n v σ op with
      | .error e => .error e
      | .ok σ1 => runSupply L n σ1 v ops := by
  have := runSupply_append L n σ v [op] ops
  simp only [List.singleton_append] at this
  rw [this]
  simp only [runSupply, List.foldl_cons, List.foldl_nil, stepE]
  cases supply L n v σ op <;> rfl

theorem funN_fun (v k : Nat) (rs : List Term) : ∃ rs', funN v k (.app FUN rs) = .app FUN rs' := by
  cases k with
  | zero => exact ⟨rs, rfl⟩
  | succ k => exact ⟨_, rfl⟩

/-- applying `x ** … ** x ** (function type)` to base-type arguments supplies each argument,
in covariant position, to `x`, and returns the remaining function type -/
theorem applyArgs_chain (L : Lang) (n v : Nat) (rs : List Term) :
    ∀ (as : List Nat) (σ : Store),
      applyArgs L n σ (funN v as.length (.app FUN rs)) as =
        match runSupply L n σ v (coOps as) with
        | .error e => .error e
        | .ok σ' => .ok (σ', .app FUN rs)
  | [], σ => rfl
  | a :: as, σ => by
    obtain ⟨rs', hrs⟩ := funN_fun v as.length rs
    simp only [List.length_cons, funN, applyArgs, hrs, applyT_fun_fun]
    rw [show coOps (a :: as) = (true, a) :: coOps as from rfl, runSupply_cons]
    cases supply L n v σ (true, a) with
    | error e => rfl
    | ok σ1 =>
      simp only
      rw [← hrs]
      exact applyArgs_chain L n v rs as σ1

theorem funN_succ_fun (v k : Nat) (r : Term) : ∃ rs', funN v (k+1) r = .app FUN rs' := ⟨_, rfl⟩

/-- … and when the final result type is the variable `r`, the last application fixes it -/
theorem applyArgs_chain_fix (L : Lang) (n v r : Nat) :
    ∀ (as : List Nat) (σ : Store), as ≠ [] →
      applyArgs L n σ (funN v as.length (.var r)) as =
        match runSupply L n σ v (coOps as) with
        | .error e => .error e
        | .ok σ' => fix L n σ' (.var r) true
  | [], _, h => absurd rfl h
  | [a], σ, _ => by
    simp only [List.length_cons, List.length_nil, funN, applyArgs, applyT_fun_var]
    rw [show coOps [a] = [(true, a)] from rfl, runSupply_cons]
    cases supply L n v σ (true, a) with
    | error e => rfl
    | ok σ1 =>
      simp only [runSupply, List.foldl_nil]
      cases fix L n σ1 (.var r) true with
      | error e => rfl
      | ok p => cases p; rfl
  | a :: a2 :: as, σ, _ => by
    obtain ⟨rs', hrs⟩ := funN_succ_fun v as.length (.var r)
    rw [show (a :: a2 :: as).length = (a2 :: as).length + 1 from rfl]
    rw [show funN v ((a2 :: as).length + 1) (.var r) = .app FUN [.var v, funN v (a2 :: as).length (.var r)] from rfl]
    rw [show (a2 :: as).length = as.length + 1 from rfl, hrs]
    simp only [applyArgs, applyT_fun_fun]
    rw [show coOps (a :: a2 :: as) = (true, a) :: coOps (a2 :: as) from rfl, runSupply_cons]
    cases supply L n v σ (true, a) with
    | error e => rfl
    | ok σ1 =>
      simp only
      have ih := applyArgs_chain_fix L n v r (a2 :: as) σ1 (by simp)
      rw [show (a2 :: as).length = as.length + 1 from rfl, hrs] at ih
      simp only [applyArgs] at ih
      exact ih

/-- `fix` on an unbound variable: bind it to the preferred bound, if there is one -/
theorem fix_var_unbound (L : Lang) {σ : Store} (nc : NoConstraints σ) (n v : Nat) (pl : Bool)
    (hb : (getVar σ v).bound = none)
    (h0 : ∀ b, (if pl then (getVar σ v).lower else (getVar σ v).upper) = some b → arityOf L b = 0) :
    fix L (n+4) σ (.var v) pl =
      match (if pl then (getVar σ v).lower else (getVar σ v).upper) with
      | none => .ok (σ, .var v)
      | some b =>
        match liftI σ v (bindBaseI L (getVar σ v) b) with
        | .error e => .error e
        | .ok σ1 => .ok (σ1, followT σ1 (.var v)) := by
  unfold fix
  rw [followT_var_unbound hb]
  simp only
  cases pl with
  | true =>
    simp only [Bool.true_and, if_true] at h0 ⊢
    cases hl : (getVar σ v).lower with
    | none => simp [followT_var_unbound hb]
    | some l =>
      rw [hl] at h0
      simp only [Option.isSome_some, if_true]
      rw [bind_base L nc n v l (h0 l rfl)]
      cases liftI σ v (bindBaseI L (getVar σ v) l) <;> rfl
  | false =>
    simp only [Bool.false_and, Bool.false_eq_true, if_false, Bool.not_false, Bool.true_and] at h0 ⊢
    cases hl : (getVar σ v).upper with
    | none => simp [followT_var_unbound hb]
    | some l =>
      rw [hl] at h0
      simp only [Option.isSome_some, if_true]
      rw [bind_base L nc n v l (h0 l rfl)]
      cases liftI σ v (bindBaseI L (getVar σ v) l) <;> rfl

/-- **end to end**: `(x ** x ** … ** x).apply(a₁).apply(a₂)…` with the `aᵢ` on one chain returns
their least upper bound, in whatever order they come -/
theorem apply_identity_chain (L : Lang) (wf : WF L) {σ : Store} (nc : NoConstraints σ) (n v : Nat)
    (hv : v < σ.vars.length) (hf : FreshI (getVar σ v)) (as : List Nat) (hne : as ≠ [])
    (ch : ChainOn L (fun x => x ∈ as)) :
    ∃ m, m ∈ as ∧ (∀ a ∈ as, Anc L a m) ∧
      applyArgs L (n+5) σ (funN v as.length (.var v)) as =
        .ok (setVar σ v { getVar σ v with wildcard := false, lower := some m, bound := some (.app m []) },
             .app m []) := by
  have hcompat : Compat L (coOps as) := by
    intro a b _ hb
    have := (mem_coOps.mp hb).1; cases this
  obtain ⟨lo, up, h1, h2, h3⟩ := supply_chain_ok L wf nc n v hv hf (coOps as) (chain_coOps ch) hcompat
  have h1' : IsGreatest L as lo := isGreatest_congr (fun a => by rw [mem_coArgs, mem_coOps]; simp) h1
  have hup : up = none := isLeast_nil (fun b hb => by
    have := (mem_coOps.mp (mem_contraArgs.mp hb)).1; cases this) h2
  obtain ⟨m, rfl⟩ := isGreatest_some hne h1'
  subst hup
  refine ⟨m, h1'.1, h1'.2, ?_⟩
  rw [applyArgs_chain_fix L (n+5) v v as σ hne, h3]
  simp only
  have hm : m ≠ TOP ∧ m ≠ BOT ∧ arityOf L m = 0 := ⟨ch.not_top m h1'.1, ch.not_bot m h1'.1, ch.nullary m h1'.1⟩
  have hres : resultI (getVar σ v) (some m) none (coOps as).isEmpty =
      { getVar σ v with wildcard := false, lower := some m } := by
    obtain ⟨hb, _, hu⟩ := hf
    rw [coOps_isEmpty hne]
    generalize getVar σ v = i at *
    obtain ⟨bd, lo, up, w, c⟩ := i
    simp only at hb hu
    subst hb hu
    simp [resultI, sealI]
  rw [hres]
  have hv' : v < (setVar σ v { getVar σ v with wildcard := false, lower := some m }).vars.length := by
    rw [setVar_length]; exact hv
  rw [fix_var_unbound L (noConstraints_setVar nc _ _) (n+1) v true
    (by rw [getVar_setVar_same hv]; exact hf.1)
    (by rw [getVar_setVar_same hv]; intro b hb; simp only [if_true, Option.some.injEq] at hb; subst hb; exact hm.2.2)]
  simp only [getVar_setVar_same hv, if_true]
  have hself : opSub L m m true = false := by
    cases h : opSub L m m true with
    | false => rfl
    | true =>
      rcases (opSub_strict_iff wf m m).mp h with h | h | ⟨_, h⟩
      · exact absurd h hm.2.1
      · exact absurd h hm.1
      · exact absurd rfl h
  simp only [bindBaseI, hf.1, hf.2.2, Option.isSome_none, Bool.false_eq_true, if_false, Option.any_some,
    hself, Option.any_none, liftI, setVar_setVar]
  rw [followT_var_app (m := m) (ms := []) (by rw [getVar_setVar_same hv])]

/-- **end to end, monotone**: replacing one argument by a subtype from the same chain keeps success
and the returned type is a subtype of the old one -/
theorem apply_identity_mono (L : Lang) (wf : WF L) {σ : Store} (nc : NoConstraints σ) (n v : Nat)
    (hv : v < σ.vars.length) (hf : FreshI (getVar σ v)) (pre post : List Nat) (a a' : Nat)
    (ch : ChainOn L (fun x => x ∈ a' :: (pre ++ a :: post))) (haa : Anc L a' a) :
    ∃ σ1 σ2 m m',
      applyArgs L (n+5) σ (funN v (pre ++ a :: post).length (.var v)) (pre ++ a :: post) = .ok (σ1, .app m []) ∧
      applyArgs L (n+5) σ (funN v (pre ++ a' :: post).length (.var v)) (pre ++ a' :: post) = .ok (σ2, .app m' []) ∧
      Anc L m' m := by
  have ch1 : ChainOn L (fun x => x ∈ pre ++ a :: post) :=
    chainOn_congr (fun x hx => List.mem_cons_of_mem _ hx) ch
  have ch2 : ChainOn L (fun x => x ∈ pre ++ a' :: post) := by
    refine chainOn_congr (fun x hx => ?_) ch
    simp only [List.mem_append, List.mem_cons] at hx ⊢
    rcases hx with hx | hx | hx
    · exact Or.inr (Or.inl hx)
    · exact Or.inl hx
    · exact Or.inr (Or.inr (Or.inr hx))
  obtain ⟨m, _, hm2, hm3⟩ := apply_identity_chain L wf nc n v hv hf _ (by simp) ch1
  obtain ⟨m', hm1', _, hm3'⟩ := apply_identity_chain L wf nc n v hv hf _ (by simp) ch2
  refine ⟨_, _, m, m', hm3, hm3', ?_⟩
  simp only [List.mem_append, List.mem_cons] at hm1'
  rcases hm1' with h | h | h
  · exact hm2 m' (by simp [h])
  · rw [h]; exact anc_trans haa (hm2 a (by simp))
  · exact hm2 m' (by simp [h])

end Tfv.C05P
