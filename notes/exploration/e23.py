import sys, itertools
sys.path.insert(0,'/repo')
from transforge.type import *
from transforge.lang import *
def report(lang,label):
    canon=sorted(lang.canon,key=str)
    direct={t:set(lang.subtypes(t)) for t in canon}; sup={t:set(lang.supertypes(t)) for t in canon}
    mir=[(str(s),'<|',str(t)) for t in canon for s in direct[t] if t not in sup[s]]+[(str(s),'|>',str(t)) for s in canon for t in sup[s] if s not in direct[t]]
    bad=[]
    for t in canon:
        seen=set(); st=[t]
        while st:
            c=st.pop()
            for s in direct[c]:
                if s not in seen: seen.add(s); st.append(s)
        for s in canon:
            if bool(s.is_subtype(t,strict=True))!=(s in seen): bad.append((str(s),str(t), s in seen))
    print(label,'canon',[str(c) for c in canon],'\n   mirror',mir[:6],'\n   reach',bad[:6])
A=TypeOperator('A'); B=TypeOperator('B',supertype=A)
F=TypeOperator('F',params=1); K=TypeOperator('K',params=[Variance.CONTRA]); G=TypeOperator('G',params=2)
report(Language(dict(A=A,B=B,F=F),canon={Top,B}),'Top,B')
report(Language(dict(A=A,B=B,F=F),canon={Top,A,F(B)}),'Top,A,F(B)')
report(Language(dict(A=A,B=B,F=F),canon={Bottom,A}),'Bottom,A')
report(Language(dict(A=A,B=B,F=F),canon={Bottom,A,F(A)}),'Bottom,A,F(A)')
report(Language(dict(A=A,B=B,K=K),canon={Top,A,K(A)}),'Top,A,K(A)')
report(Language(dict(A=A,B=B,K=K),canon={Bottom,A,K(A)}),'Bottom,A,K(A)')
report(Language(dict(A=A,B=B,F=F,G=G),canon={Top,A,F(A)}),'Top,A,F(A) with unused G')
