import Tfv.Proofs.FlowGen
/-!
# C08: concrete expressions (non-vacuity, and what the graphs look like)
-/
namespace Tfv.C08P
open Tfv

/-- a language with one base type `A` (index 5) -/
def exG : GLang := { types := builtinDecls ++ [⟨"A", [], none⟩] }
def tA : Term := .app 5 []
/-- `A ** A` -/
def tAA : Term := .app FUN [tA, tA]
/-- `A ** A ** A` -/
def tAAA : Term := .app FUN [tA, tAA]
/-- `(A ** A) ** A ** A` -/
def tFAA : Term := .app FUN [tAA, tAA]

/-- only the concept nodes and their edges -/
def exCfg : GCfg := { withTypes := false, withOperators := false }
/-- same, with the operator triples -/
def exCfgOps : GCfg := { withTypes := false, withOperators := true, withDependencies := false }

def exX : TExpr := .src 0 none tA
/-- `f (g x) x` — the source `x` is used twice -/
def exShared : TExpr := .app (.app (.op "f" tAAA) (.app (.op "g" tAA) exX tA) tAA) exX tA
/-- `h u x` with `u : A ** A` passed as an argument -/
def exHof : TExpr := .app (.app (.op "h" tFAA) (.op "u" tAA) tAA) exX tA

/-- (`from` edges, internal-node pairs, source nodes, next blank node, result node) -/
def summary (r : Except GErr (GState × Nat)) : Option (List (Nat × Nat) × List (Nat × Nat) × List (Nat × Nat) × Nat × Nat) :=
  match r with
  | .ok (g, n) => some (g.fd.frm, g.internals, g.srcNodes, g.nextB, n)
  | .error _ => none

theorem exShared_run :
    summary (addExpr exG exCfg (.res "w") none {} exShared none false) =
      some ([(0, 2), (0, 1), (1, 2)], [], [(0, 2)], 4, 0) := by
  rfl

theorem exShared_run_ops :
    summary (addExpr exG exCfgOps (.res "w") none {} exShared none false) =
      some ([(0, 2), (0, 1), (1, 2)], [], [(0, 2)], 4, 0) := by
  rfl

theorem exHof_run :
    summary (addExpr exG exCfg (.res "w") none {} exHof none false) =
      some ([(2, 3), (0, 3), (0, 1), (1, 2)], [(0, 2)], [(0, 3)], 4, 0) := by
  rfl

theorem exShared_fo : FirstOrder exShared := firstOrder_sound _ (by decide)

/-- the application tree of `f (g x) x`: nodes 0 (`f …`) and 1 (`g x`), source node 2 (id 3 is reserved
for the second `x` and not used) -/
theorem exShared_flow : flowFO 0 [] exShared none =
    { node := 0, next := 4, memo := [(0, 2)], edges := [(0, 2), (0, 1), (1, 2)],
      ops := [(0, exShared), (1, .app (.op "g" tAA) exX tA)] } := by
  rw [flowFO_spine 0 [] exShared none "f" tAAA rfl]
  simp only [exShared, argsOf, List.nil_append, List.cons_append, List.foldl_cons, List.foldl_nil, flowStep, allocNode]
  rw [flowFO_spine _ _ _ _ "g" tAA rfl]
  simp only [exX, argsOf, List.nil_append, List.cons_append, List.foldl_cons, List.foldl_nil, flowStep, allocNode,
    flowFO_src, flowArg]
  rfl

theorem gfresh_empty : GFresh {} :=
  ⟨fun _ h => (by cases h), fun _ h => (by cases h), fun _ h => (by cases h)⟩

theorem exHof_args : ∀ a ∈ argsOf exHof, HofArg a := by
  intro a ha
  simp only [exHof, argsOf, List.nil_append, List.cons_append, List.mem_cons, List.not_mem_nil, or_false] at ha
  rcases ha with rfl | rfl
  · exact ⟨firstOrder_sound _ (by decide), fun _ => ⟨"u", tAA, rfl⟩⟩
  · exact ⟨firstOrder_sound _ (by decide), fun h => by cases h⟩

/-- `h u x`: node 0 for `h u x`, node 1 for `u` with internal node 2, source node 3 -/
theorem exHof_flow : flowHO1 0 [] exHof none =
    { node := 0, next := 4, memo := [(0, 3)], args := [⟨1, some 2⟩, ⟨3, none⟩], inner := [] } := by
  simp only [flowHO1, exHof, argsOf, List.nil_append, List.cons_append, List.foldl_cons, List.foldl_nil, allocNode]
  have h1 : hofStep { node := 0, next := 1, memo := [], args := [], inner := [] } (.op "u" tAA) =
      { node := 0, next := 3, memo := [], args := [⟨1, some 2⟩], inner := [] } := by
    unfold hofStep
    have : (TExpr.op "u" tAA).ty.isFunction = true := rfl
    simp only [this, if_true]
    rw [flowFO_spine _ _ _ _ "u" tAA rfl]
    rfl
  rw [h1]
  unfold hofStep
  simp only [exX, flowFO_src]
  rfl

/-- `h (u v) x` where `u v : A ** A` is passed to `h` and `v : A ** A` is passed to `u`:
nested internal nodes -/
def exNested : TExpr :=
  .app (.app (.op "h" tFAA) (.app (.op "u" tFAA) (.op "v" tAA) tAA) tAA) exX tA

/-- nodes: 0 = `h …`, 1 = `u v` with internal node 2 (of `h`), 3 = `v` with internal node 4 (of `u`),
5 = `x`. The edge `(4, 2)` is the nested rule: the internal node of `u` is fed by the internal node of `h`. -/
theorem exNested_run :
    summary (addExpr exG exCfg (.res "w") none {} exNested none false) =
      some ([(2, 5), (0, 5), (4, 2), (0, 1), (1, 2), (1, 3), (3, 4)], [(0, 2), (1, 4)], [(0, 5)], 6, 0) := by
  rfl

/-- what the one-level layout makes of `h (u v) x`: it knows nothing of the internal node of `u` -/
theorem exNested_flow : flowHO1 0 [] exNested none =
    { node := 0, next := 5, memo := [(0, 4)], args := [⟨1, some 2⟩, ⟨4, none⟩], inner := [(1, 3)] } := by
  simp only [flowHO1, exNested, argsOf, List.nil_append, List.cons_append, List.foldl_cons, List.foldl_nil, allocNode]
  have h1 : hofStep { node := 0, next := 1, memo := [], args := [], inner := [] }
      (.app (.op "u" tFAA) (.op "v" tAA) tAA) =
      { node := 0, next := 4, memo := [], args := [⟨1, some 2⟩], inner := [(1, 3)] } := by
    unfold hofStep
    have : (TExpr.app (.op "u" tFAA) (.op "v" tAA) tAA).ty.isFunction = true := rfl
    simp only [this, if_true]
    rw [flowFO_spine _ _ _ _ "u" tFAA rfl]
    simp only [argsOf, List.nil_append, List.foldl_cons, List.foldl_nil, flowStep, allocNode]
    rw [flowFO_spine _ _ _ _ "v" tAA rfl]
    rfl
  rw [h1]
  unfold hofStep
  simp only [exX, flowFO_src]
  rfl

/-- the one-level description is false for nested internal nodes: the graph has the internal pair
`(1, 4)`, one more blank node and the edge `(4, 2)` that the description does not have -/
theorem exNested_not_one_level (g' : GState) (n : Nat)
    (h : addExpr exG exCfg (.res "w") none {} exNested none false = .ok (g', n)) :
    g'.internals ≠ ({} : GState).internals ++ lamsOf n (flowHO1 0 [] exNested none).args ∧
    g'.nextB ≠ (flowHO1 0 [] exNested none).next ∧
    (4, 2) ∈ g'.fd.frm ∧ (4, 2) ∉ (flowHO1 0 [] exNested none).inner ∧
    ¬ hofEdges n (flowHO1 0 [] exNested none).args (4, 2) := by
  have hr := exNested_run
  rw [h] at hr
  simp only [summary, Option.some.injEq, Prod.mk.injEq] at hr
  obtain ⟨h1, h2, _, h4, h5⟩ := hr
  rw [exNested_flow, h1, h2, h4, h5]
  refine ⟨by decide, by decide, by decide, by decide, ?_⟩
  unfold hofEdges
  rintro (⟨a, ha, h'⟩ | ⟨a, ha, l, hl, h'⟩ | ⟨i, j, hi, hj, _, l, hl, h'⟩)
  · simp at ha; rcases ha with rfl | rfl <;> simp at h'
  · simp at ha; rcases ha with rfl | rfl <;> simp at hl h'
  · simp only [List.length_cons, List.length_nil] at hi
    have : i = 0 ∨ i = 1 := by omega
    rcases this with rfl | rfl
    · simp at hl; subst hl; simp at h'
    · simp at hl

theorem exNested_hof : Hof exNested := hof_sound _ (by decide)

theorem isFun_uv : (TExpr.app (.op "u" tFAA) (.op "v" tAA) tAA).ty.isFunction = true := rfl
theorem isFun_v : (TExpr.op "v" tAA).ty.isFunction = true := rfl
theorem isFun_x : exX.ty.isFunction = false := rfl

/-- the general layout of `h (u v) x`, evaluated from its definition: node 0, internal pairs
`(0, 2)` (for `u v`, attached to `h …`) and `(1, 4)` (for `v`, attached to `u v`), source node 5 -/
theorem exNested_layout :
    (flowHOTop 0 [] exNested none).node = 0 ∧ (flowHOTop 0 [] exNested none).next = 6 ∧
    (flowHOTop 0 [] exNested none).memo = [(0, 5)] ∧ (flowHOTop 0 [] exNested none).ints = [(0, 2), (1, 4)] := by
  have hv : flowHO 5 [] (.op "v" tAA) 3 = { node := 3, next := 5, memo := [], ints := [], edges := spineEdges 3 [] } := by
    rw [flowHO_spine _ _ _ _ "v" tAA rfl]; rfl
  have huv : (flowHO 3 [] (.app (.op "u" tFAA) (.op "v" tAA) tAA) 1).next = 5 ∧
      (flowHO 3 [] (.app (.op "u" tFAA) (.op "v" tAA) tAA) 1).memo = [] ∧
      (flowHO 3 [] (.app (.op "u" tFAA) (.op "v" tAA) tAA) 1).ints = [(1, 4)] ∧
      (flowHO 3 [] (.app (.op "u" tFAA) (.op "v" tAA) tAA) 1).node = 1 := by
    rw [flowHO_spine _ _ _ _ "u" tFAA rfl]
    simp only [argsOf, List.nil_append, List.foldl_cons, List.foldl_nil, hoArgStep, isFun_v, if_true, hv]
    simp [spineInts]
  have hx : flowHO 6 [] exX 5 = { node := 5, next := 6, memo := [(0, 5)], ints := [], edges := fun _ => False } := by
    simp only [exX, flowHO_src]; rfl
  obtain ⟨u1, u2, u3, _⟩ := huv
  simp only [flowHOTop, allocNode]
  rw [flowHO_spine _ _ _ _ "h" tFAA rfl]
  simp only [exNested, argsOf, List.nil_append, List.cons_append, List.foldl_cons, List.foldl_nil, hoArgStep, isFun_uv,
    isFun_x, if_true, Bool.false_eq_true, if_false, u1, u2, hx]
  simp [spineInts, u3]

/-- the edge set of the general layout of `h (u v) x` (obtained through the theorem from the run of
the graph code): the one-level edges, plus the nested edge `(4, 2)` -/
theorem exNested_edges (p : Nat × Nat) :
    (flowHOTop 0 [] exNested none).edges p ↔
      p ∈ [(2, 5), (0, 5), (4, 2), (0, 1), (1, 2), (1, 3), (3, 4)] := by
  obtain ⟨g', n, h⟩ := addExpr_total (G := exG) (c := exCfg) (root := .res "w") (origin := none) rfl {} exNested none false
  have hr := exNested_run
  rw [h] at hr
  simp only [summary, Option.some.injEq, Prod.mk.injEq] at hr
  have := (addExpr_hof_general rfl exNested_hof (name := "h") (ty := tFAA) rfl gfresh_empty
    (by intro m hm; cases hm) h).2.2.2.2.2.2.1 p
  rw [hr.1] at this
  rw [this]
  simp

/-- a state in which source 1 (of function type) already has node 7 -/
def exOddG : GState := { nextB := 8, srcNodes := [(1, 7)] }
/-- `s x y` with the source `s` at the head of the spine -/
def exOdd : TExpr := .app (.app (.src 1 none tAAA) exX tAA) (.src 2 none tA) tA

/-- model oddity: when the head of a spine is a source that already has a node (7), the first
argument is attached to that node but the second to the node reserved for the spine (8), which is
also the node returned -/
theorem exOdd_run :
    summary (addExpr exG exCfg (.res "w") none exOddG exOdd none false) =
      some ([(8, 10), (7, 9)], [], [(1, 7), (0, 9), (2, 10)], 11, 8) := by
  rfl

/-! ## the same source of function type passed twice (model change 4) -/

/-- `(A ** A) ** A` -/
def tFA : Term := .app FUN [tAA, tA]
/-- `(A ** A) ** (A ** A) ** A` -/
def tFFA : Term := .app FUN [tAA, tFA]
/-- a source of function type -/
def exS : TExpr := .src 3 none tAA
/-- `k s s`: the source `s : A ** A` is passed to `k` as an operation, twice -/
def exRep : TExpr := .app (.app (.op "k" tFFA) exS tFA) exS tA

/-- nodes: 0 = `k s s`, 1 = `s` (once), internal nodes 2 (first argument) and 4 (second argument; 3 was
reserved for the second `s` and not used). Edges: `1 → 2`, `0 → 1`, `1 → 4`, `0 → 1` again, `2 → 1` (the
first internal node receives the second argument), and `4 → 1`: the second internal node receives
the first argument, which is its own argument's node — the edge that the `repeated` rule adds. -/
theorem exRep_run :
    summary (addExpr exG exCfg (.res "w") none {} exRep none false) =
      some ([(4, 1), (2, 1), (0, 1), (1, 4), (0, 1), (1, 2)], [(0, 2), (0, 4)], [(3, 1)], 5, 0) := by
  rfl

theorem exRep_args : ∀ a ∈ argsOf exRep, FirstOrder a := by
  intro a ha
  simp only [exRep, argsOf, List.nil_append, List.cons_append, List.mem_cons, List.not_mem_nil, or_false] at ha
  rcases ha with rfl | rfl <;> exact firstOrder_sound _ (by decide)

/-- `k s s` is outside the class of `addExpr_hof_one_level`: a passed operation is a source -/
theorem exRep_not_hofArg : ¬ ∀ a ∈ argsOf exRep, HofArg a := by
  intro h
  obtain ⟨name, ty, hh⟩ := (h exS (by simp [exRep, argsOf])).head_op rfl
  cases hh

theorem srcNoInt_empty : SrcNoInt {} := fun _ h => (by cases h)

theorem exRep_flow : flowHO1 0 [] exRep none =
    { node := 0, next := 5, memo := [(3, 1)], args := [⟨1, some 2⟩, ⟨1, some 4⟩], inner := [] } := by
  simp only [flowHO1, exRep, argsOf, List.nil_append, List.cons_append, List.foldl_cons, List.foldl_nil, allocNode]
  have hfun : exS.ty.isFunction = true := rfl
  have h1 : hofStep { node := 0, next := 1, memo := [], args := [], inner := [] } exS =
      { node := 0, next := 3, memo := [(3, 1)], args := [⟨1, some 2⟩], inner := [] } := by
    unfold hofStep
    simp only [hfun, if_true]
    simp only [exS, flowFO_src]
    rfl
  rw [h1]
  unfold hofStep
  simp only [hfun, if_true]
  simp only [exS, flowFO_src]
  rfl

/-- the edge `4 → 1` is an edge of the one-level description (`i = 1`, `j = 0`: two positions, one node) -/
theorem exRep_edge : hofEdges 0 [⟨1, some 2⟩, ⟨1, some 4⟩] (4, 1) :=
  Or.inr (Or.inr ⟨1, 0, by simp, by simp, by omega, 4, rfl, rfl⟩)

end Tfv.C08P
