import Tfv.Proofs.WorkflowRun
/-!
# The memo table of a successful `addWorkflow` run
-/
namespace Tfv

/-! ## the initial table: one source expression per source -/

theorem wfSrcStep_snd (stypes : List (Nat × Term)) (acc : XState × List (Nat × TExpr)) (r : Nat) :
    ∃ ty, (wfSrcStep stypes acc r).2 = acc.2 ++ [(r, TExpr.src acc.1.nsrc none ty)] := by
  unfold wfSrcStep
  exact ⟨_, rfl⟩

theorem wfSrcFold (stypes : List (Nat × Term)) : ∀ (l : List Nat) (acc : XState × List (Nat × TExpr)),
    ((l.foldl (wfSrcStep stypes) acc).2.map (·.1) = acc.2.map (·.1) ++ l) ∧
    ((∀ p ∈ acc.2, p.2.IsSrc) → ∀ p ∈ (l.foldl (wfSrcStep stypes) acc).2, p.2.IsSrc) := by
  intro l
  induction l with
  | nil => intro acc; exact ⟨by simp, fun h => h⟩
  | cons r l ih =>
    intro acc
    obtain ⟨ty, hty⟩ := wfSrcStep_snd stypes acc r
    obtain ⟨h1, h2⟩ := ih (wfSrcStep stypes acc r)
    rw [List.foldl_cons]
    refine ⟨by rw [h1, hty]; simp, fun hacc => h2 ?_⟩
    intro p hp
    rw [hty] at hp
    rcases List.mem_append.1 hp with hp | hp
    · exact hacc p hp
    · rw [List.mem_singleton] at hp; subst hp; exact ⟨_, _, _, rfl⟩

theorem wfSrcTable_keys (w : Wf) (xs0 : XState) (stypes : List (Nat × Term)) :
    (wfSrcTable w xs0 stypes).2.map (·.1) = w.sources := by
  have := (wfSrcFold stypes w.sources (xs0, [])).1
  simpa [wfSrcTable] using this

theorem wfSrcTable_isSrc (w : Wf) (xs0 : XState) (stypes : List (Nat × Term)) :
    ∀ p ∈ (wfSrcTable w xs0 stypes).2, p.2.IsSrc :=
  (wfSrcFold stypes w.sources (xs0, [])).2 (by simp)

theorem IsSrc.not_shared {e : TExpr} (h : e.IsSrc) (k : Nat) (e0 : TExpr) : e ≠ TExpr.shared k e0 := by
  obtain ⟨id, l, t, rfl⟩ := h
  intro h; cases h

theorem wfSrcTable_inv (w : Wf) (hn : w.sources.Nodup) (xs0 : XState) (stypes : List (Nat × Term)) :
    TableInv w (wfSrcTable w xs0 stypes).2 where
  shape := fun p hp => .inl (wfSrcTable_isSrc w xs0 stypes p hp)
  nodup := by rw [wfSrcTable_keys]; exact hn
  closed := fun p hp j hj => by
    rw [IsSrc.sharedKeys (wfSrcTable_isSrc w xs0 stypes p hp)] at hj; cases hj
  noself := fun r e0 hp => absurd rfl (IsSrc.not_shared (wfSrcTable_isSrc w xs0 stypes _ hp) r e0)
  struct := fun r e0 hp => absurd rfl (IsSrc.not_shared (wfSrcTable_isSrc w xs0 stypes _ hp) r e0)

theorem wfSrcTable_coh (w : Wf) (xs0 : XState) (stypes : List (Nat × Term)) : TableCoh (wfSrcTable w xs0 stypes).2 :=
  fun p hp x hx => by rw [IsSrc.subs (wfSrcTable_isSrc w xs0 stypes p hp)] at hx; cases hx

/-! ## the final `fix()` does not change the structure -/

theorem setSrcTypes_sig (tbl : List (Nat × Term)) : ∀ e : TExpr, (setSrcTypes tbl e).sig = e.sig := by
  intro e
  induction e with
  | src i l t => rfl
  | op n t => rfl
  | app f x t ihf ihx =>
    have h1 : (setSrcTypes tbl f).subs = f.subs := congrArg Prod.snd ihf
    have h2 : (setSrcTypes tbl x).subs = x.subs := congrArg Prod.snd ihx
    simp only [setSrcTypes, TExpr.sig, TExpr.head, TExpr.subs, h1, h2]
  | shared k e ih =>
    have h1 : (setSrcTypes tbl e).subs = e.subs := congrArg Prod.snd ih
    simp only [setSrcTypes, TExpr.sig, TExpr.head, TExpr.subs, h1, sig_sharedKeys ih]

/-- an expression object recorded by `sharedOf` is a tagged sub-expression of the tree -/
theorem sharedOf_mem : ∀ (t : TExpr) (acc : List (Nat × TExpr)) (k : Nat) (u : TExpr), (k, u) ∈ sharedOf t acc →
    (k, u) ∈ acc ∨ ∃ e, u = TExpr.shared k e ∧ (k, e.sharedKeys) ∈ t.subs := by
  intro t
  induction t with
  | src i l ty => intro acc k u h; exact .inl h
  | op n ty => intro acc k u h; exact .inl h
  | app f x ty ihf ihx =>
    intro acc k u h
    simp only [sharedOf] at h
    rcases ihx _ k u h with h | ⟨e, he, hm⟩
    · rcases ihf _ k u h with h | ⟨e, he, hm⟩
      · exact .inl h
      · exact .inr ⟨e, he, List.mem_append_left _ hm⟩
    · exact .inr ⟨e, he, List.mem_append_right _ hm⟩
  | shared key e ih =>
    intro acc k u h
    simp only [sharedOf, List.mem_append, List.mem_filter, List.mem_singleton, Prod.mk.injEq] at h
    rcases h with ⟨h, _⟩ | ⟨rfl, rfl⟩
    · rcases ih _ k u h with h | ⟨e', he, hm⟩
      · exact .inl h
      · exact .inr ⟨e', he, List.mem_cons_of_mem _ hm⟩
    · exact .inr ⟨e, rfl, List.mem_cons_self⟩

theorem alook_map_key {β γ : Type} (f : Nat → β → γ) (l : List (Nat × β)) (r : Nat) :
    alook (l.map (fun p => (p.1, f p.1 p.2))) r = (alook l r).map (f r) := by
  induction l with
  | nil => rfl
  | cons p l ih =>
    rw [List.map_cons, alook_cons, alook_cons]
    by_cases h : p.1 = r
    · simp [h]
    · simp only [h, if_false]; exact ih

/-- the final memo table agrees with the one `wfExpr` left, up to types -/
theorem wfFinalExprs_ksim {w : Wf} {L : Lang} {ws : WState} {tgt : Nat} {te te' : TExpr} {σ σf : Store}
    (hT : TableOk w ws.exprs) (htgt : ws.expr? tgt = some te) (hfix : fixExpr L σ te = .ok (σf, te')) :
    KSim ws.exprs (wfFinalExprs ws te') := by
  have hsubs : te'.subs = te.subs := congrArg Prod.snd (fixExpr_sig L _ _ _ _ hfix)
  refine ⟨by unfold wfFinalExprs; rw [List.map_map]; rfl, ?_⟩
  intro k v hv
  refine ⟨setSrcTypes (srcTypesOf te' ws.srcTypes) ((alook (sharedOf te' []) k).getD v), ?_, ?_⟩
  · unfold wfFinalExprs
    rw [alook_map_key (fun k e => setSrcTypes (srcTypesOf te' ws.srcTypes) ((alook (sharedOf te' []) k).getD e)), hv]
    rfl
  · have hs := setSrcTypes_sig (srcTypesOf te' ws.srcTypes) ((alook (sharedOf te' []) k).getD v)
    have hh : (setSrcTypes (srcTypesOf te' ws.srcTypes) ((alook (sharedOf te' []) k).getD v)).head
        = ((alook (sharedOf te' []) k).getD v).head := congrArg Prod.fst hs
    rw [hh, sig_sharedKeys hs]
    cases hu : alook (sharedOf te' []) k with
    | none => exact ⟨rfl, rfl⟩
    | some u =>
      rw [Option.getD_some]
      rcases sharedOf_mem te' [] k u (alook_some_mem hu) with h | ⟨e, rfl, hm⟩
      · cases h
      · rw [hsubs] at hm
        obtain ⟨e0, he0, hk0⟩ := hT.2 (tgt, te) (alook_some_mem (by rw [← expr?_eq]; exact htgt)) _ hm
        simp only at he0 hk0
        rw [hv] at he0
        cases he0
        exact ⟨rfl, by simp only [TExpr.sharedKeys, hk0]⟩

/-! ## reachability in the workflow: along tool inputs, not through sources -/

def SEdge (w : Wf) (x y : Nat) : Prop := x ∉ w.sources ∧ ∃ a, w.app? x = some a ∧ y ∈ a.inputs

inductive SReach (w : Wf) : Nat → Nat → Prop
  | refl (x : Nat) : SReach w x x
  | step {x y z : Nat} : SEdge w x y → SReach w y z → SReach w x z

theorem sreach_of_wreach {w : Wf} {s : WState} (hs : s.exprs.map (·.1) = w.sources) {x y : Nat}
    (h : WReach w s x y) : SReach w x y := by
  induction h with
  | refl x => exact .refl x
  | step he _ ih =>
    refine .step ⟨?_, he.2⟩ ih
    have := he.1
    rw [expr?_eq, alook_none_iff, hs] at this
    exact this

/-- what the graph construction needs to know about the final memo table -/
structure RunTable (w : Wf) (tgt : Nat) (T : List (Nat × TExpr)) : Prop where
  inv : TableInv w T
  srcs : ∀ r ∈ w.sources, ∃ e, alook T r = some e ∧ e.IsSrc
  onlySrcs : ∀ p ∈ T, p.2.IsSrc → p.1 ∈ w.sources
  reach : ∀ p ∈ T, p.1 ∈ w.sources ∨ SReach w tgt p.1
  target : ∃ e, alook T tgt = some e

theorem WfRun.table {P : PLang} {G : GLang} {ops : List OperatorDecl} {c : GCfg} {pt : Bool} {w : Wf}
    {g : GState} {out : Nat} {m : List (Nat × Nat)} {xs0 : XState} {stypes : List (Nat × Term)} {tgt : Nat}
    {ws : WState} {te : TExpr} {σf : Store} {te' : TExpr} {g1 g3 : GState}
    (run : WfRun P G ops c pt w g out m xs0 stypes tgt ws te σf te' g1 g3) (hn : w.sources.Nodup) :
    RunTable w tgt (wfFinalExprs ws te') := by
  have hkeys0 := wfSrcTable_keys w xs0 stypes
  obtain ⟨⟨l, hext⟩, hres⟩ := wfExpr_main P ops w pt _ _ _ _ _ run.expr
  obtain ⟨ks, hks, hreach⟩ := wfExpr_reach P ops w pt _ _ _ _ _ run.expr
  have hT : TableOk w ws.exprs :=
    wfExpr_table P ops w pt _ _ _ _ _ run.expr ⟨wfSrcTable_inv w hn xs0 stypes, wfSrcTable_coh w xs0 stypes⟩
  have hK : KSim ws.exprs (wfFinalExprs ws te') := wfFinalExprs_ksim hT hres run.fix
  refine ⟨tableInv_ksim hT.1 hK, ?_, ?_, ?_, ?_⟩
  · intro r hr
    have : r ∈ (wfSrcTable w xs0 stypes).2.map (·.1) := by rw [hkeys0]; exact hr
    obtain ⟨v, hv⟩ := alook_isSome_of_key this
    have hvsrc := wfSrcTable_isSrc w xs0 stypes _ (alook_some_mem hv)
    obtain ⟨v1, hv1, hs1⟩ := hext.sim r v hv
    obtain ⟨v2, hv2, hh2, _⟩ := hK.2 r v1 hv1
    exact ⟨v2, hv2, head_isSrc hh2 (sig_isSrc hs1 hvsrc)⟩
  · intro p hp hsrc
    obtain ⟨v, hv, hh, _⟩ := hK.back hT.1.nodup hp
    have hvs : v.IsSrc := head_isSrc hh.symm hsrc
    have hl : ws.expr? p.1 = some v := alook_of_mem_nodup hT.1.nodup hv
    cases h0 : alook (wfSrcTable w xs0 stypes).2 p.1 with
    | some v0 => rw [← hkeys0]; exact alook_some_key h0
    | none =>
      obtain ⟨e0, he0⟩ := hext.own_of_fresh hl h0
      exact absurd he0 (IsSrc.not_shared hvs _ _)
  · intro p hp
    have hk : p.1 ∈ ws.exprs.map (·.1) := by rw [← hK.1]; exact List.mem_map_of_mem (f := (·.1)) hp
    rw [hks] at hk
    rcases List.mem_append.1 hk with hk | hk
    · exact .inl (by rw [← hkeys0]; exact hk)
    · exact .inr (sreach_of_wreach hkeys0 (hreach _ hk))
  · obtain ⟨v', hv', _⟩ := hK.2 tgt te hres
    exact ⟨v', hv'⟩

/-- the final memo table has the keys of the table `wfExpr` left, and under every key an expression with the same
identity (source id / tag) and the same tags inside -/
theorem WfRun.final_ksim {P : PLang} {G : GLang} {ops : List OperatorDecl} {c : GCfg} {pt : Bool} {w : Wf}
    {g : GState} {out : Nat} {m : List (Nat × Nat)} {xs0 : XState} {stypes : List (Nat × Term)} {tgt : Nat}
    {ws : WState} {te : TExpr} {σf : Store} {te' : TExpr} {g1 g3 : GState}
    (run : WfRun P G ops c pt w g out m xs0 stypes tgt ws te σf te' g1 g3) (hn : w.sources.Nodup) :
    KSim ws.exprs (wfFinalExprs ws te') :=
  wfFinalExprs_ksim
    (wfExpr_table P ops w pt _ _ _ _ _ run.expr ⟨wfSrcTable_inv w hn xs0 stypes, wfSrcTable_coh w xs0 stypes⟩)
    (wfExpr_main P ops w pt _ _ _ _ _ run.expr).2 run.fix

end Tfv
