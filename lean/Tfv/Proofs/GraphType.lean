import Tfv.Proofs.GraphStep
/-!
# `addType`, `addTypeParams`, `addSupertypesRec`, `annotateType` are sequences of type steps
-/
namespace Tfv

/-- the predicates of the triples `addType` emits: never one of the `tf:` vocabulary -/
def TypePred (t : Triple) : Prop := ∀ s, t.2.1 ≠ Node.tf s

theorem addSupertypesRec_step (G : GLang) : ∀ (n : Nat) (g : GState) (t : Ty) (g' : GState),
    addSupertypesRec G n g t = .ok g' → TStep TypePred (fun _ => False) g g' := by
  intro n
  induction n with
  | zero =>
    intro g t g' h
    simp only [addSupertypesRec, Except.ok.injEq] at h
    subst h; exact .refl g
  | succ n ih =>
    intro g t g' h
    rw [addSupertypesRec] at h
    split at h
    · simp only [Except.ok.injEq] at h; subst h; exact .refl g
    · split at h
      · cases h
      · rename_i ref href
        simp only [] at h
        split at h
        · cases h
        · rename_i g1 hfold
          simp only [Except.ok.injEq] at h
          subst h
          refine .trans ?_ (.pushSup g1 t)
          refine foldlM_rel (R := TStep TypePred (fun _ => False)) .refl (fun _ _ _ => .trans) _ _ ?_ g g1 hfold
          intro ga s gb _ hs
          split at hs
          · cases hs
          · rename_i sn hsn
            exact .trans (.add ga _ (by intro s; simp)) (ih _ _ _ hs)


/-- what `addType` returns: either a registered node (nothing changes) or a new node, registered last,
after type steps that register proper subterms only -/
def AddTypeShape (g : GState) (t : Term) (g' : GState) (node : Node) : Prop :=
  (lookupType g.typeNodes t = some node ∧ g' = g) ∨
  (lookupType g.typeNodes t = none ∧ ∃ gX, TStep TypePred (fun x => sizeOf x.1 < sizeOf t) g gX ∧
    g' = { gX with typeNodes := gX.typeNodes ++ [(t, node)] })

theorem AddTypeShape.step {g : GState} {t : Term} {g' : GState} {node : Node}
    (h : AddTypeShape g t g' node) : TStep TypePred (fun x => sizeOf x.1 ≤ sizeOf t) g g' := by
  rcases h with ⟨_, rfl⟩ | ⟨_, gX, hs, rfl⟩
  · exact .refl _
  · exact .trans (hs.mono (fun _ h => h) (fun _ h => Nat.le_of_lt h)) (.pushType gX _ (Nat.le_refl _))

theorem addType_shape (G : GLang) (c : GCfg) : ∀ (n : Nat),
    (∀ (g : GState) (t : Term) (g' : GState) (node : Node),
      addType G c n g t = .ok (g', node) → AddTypeShape g t g' node) ∧
    (∀ (g : GState) (node : Node) (i : Nat) (ps : List Term) (g' : GState),
      addTypeParams G c n g node i ps = .ok g' →
        TStep TypePred (fun x => ∃ p ∈ ps, sizeOf x.1 ≤ sizeOf p) g g') := by
  intro n
  induction n with
  | zero =>
    constructor
    · intro g t g' node h; rw [addType] at h; cases h
    · intro g node i ps g' h; rw [addTypeParams] at h; cases h
  | succ n ih =>
    obtain ⟨ihT, ihP⟩ := ih
    constructor
    · intro g t g' node h
      rw [addType] at h
      split at h
      · rename_i nd hl
        simp only [Except.ok.injEq, Prod.mk.injEq] at h
        obtain ⟨rfl, rfl⟩ := h
        exact Or.inl ⟨hl, rfl⟩
      · rename_i hl
        refine Or.inr ⟨hl, ?_⟩
        simp only [] at h
        split at h
        · cases h
        · rename_i r ga na hr
          have h1 : TStep TypePred (fun x => sizeOf x.1 < sizeOf t) g ga := by
            split at hr
            · simp only [Except.ok.injEq, Prod.mk.injEq] at hr
              rw [← hr.1]; exact .refl g
            · split at hr
              · simp only [Except.ok.injEq, Prod.mk.injEq] at hr
                rw [← hr.1]; exact .fresh g
              · cases hr
            · cases hr
          have h2 : TStep TypePred (fun x => sizeOf x.1 < sizeOf t) ga
              (if c.withClasses = true then ga.add (na, Node.rdf "type", Node.tf "Type") else ga) := by
            split
            · exact .add _ _ (by intro s; simp)
            · exact .refl _
          split at h
          · cases h
          · rename_i r2 gb hr2
            have h3 : TStep TypePred (fun x => sizeOf x.1 < sizeOf t)
                (if c.withClasses = true then ga.add (na, Node.rdf "type", Node.tf "Type") else ga) gb := by
              split at hr2
              · rename_i o args
                split at hr2
                · refine .trans (.add _ _ (by intro s; simp)) ((ihP _ _ _ _ _ hr2).mono (fun _ h => h) ?_)
                  rintro x ⟨p, hp, hx⟩
                  have := List.sizeOf_lt_of_mem hp
                  simp only [Term.app.sizeOf_spec]
                  omega
                · simp only [Except.ok.injEq] at hr2
                  rw [← hr2]; exact .refl _
              · simp only [Except.ok.injEq] at hr2
                rw [← hr2]; exact .refl _
            split at h
            · cases h
            · rename_i r3 gc hr3
              have h4 : TStep TypePred (fun x => sizeOf x.1 < sizeOf t) gb gc := by
                split at hr3
                · exact (addSupertypesRec_step G _ _ _ _ hr3).mono (fun _ h => h) (fun _ h => h.elim)
                · simp only [Except.ok.injEq] at hr3
                  rw [← hr3]; exact .refl _
              simp only [Except.ok.injEq, Prod.mk.injEq] at h
              obtain ⟨rfl, rfl⟩ := h
              exact ⟨gc, .trans h1 (.trans h2 (.trans h3 h4)), rfl⟩
    · intro g node i ps g' h
      cases ps with
      | nil =>
        rw [addTypeParams] at h
        simp only [Except.ok.injEq] at h
        subst h; exact .refl g
      | cons p ps =>
        rw [addTypeParams] at h
        split at h
        · cases h
        · rename_i g1 pn hp
          refine .trans (((ihT _ _ _ _ hp).step).mono (fun _ h => h) ?_) (.trans (.add _ _ (by intro s; simp))
            ((ihP _ _ _ _ _ h).mono (fun _ h => h) ?_))
          · intro x hx; exact ⟨p, List.mem_cons_self, hx⟩
          · rintro x ⟨q, hq, hx⟩; exact ⟨q, List.mem_cons_of_mem _ hq, hx⟩

theorem addType_step (G : GLang) (c : GCfg) (n : Nat) (g : GState) (t : Term) (g' : GState) (node : Node)
    (h : addType G c n g t = .ok (g', node)) : TStep TypePred (fun x => sizeOf x.1 ≤ sizeOf t) g g' :=
  ((addType_shape G c n).1 g t g' node h).step

/-- the triples `annotateType` may emit -/
def AnnPred (root : Node) (cur : Nat) (t : Triple) : Prop :=
  TypePred t ∨ (t.1 = .b cur ∧ (t.2.1 = .tf "type" ∨ t.2.1 = .tf "subtypeOf")) ∨
    (t.1 = root ∧ t.2.1 = .tf "containsType")

/-- `annotateType` is a sequence of type steps, whatever decides `canonical` (the type itself or the caller) -/
theorem annotateType_step_ov (G : GLang) (c : GCfg) (g : GState) (root : Node) (cur : Nat) (ty : Term)
    (mf : Bool) (ov : Option Bool) (g' : GState) (h : annotateType G c g root cur ty mf ov = .ok g') :
    TStep (AnnPred root cur) (fun _ => True) g g' := by
  unfold annotateType at h
  split at h
  · cases h
  · rename_i g1 tn h1
    have s1 : TStep (AnnPred root cur) (fun _ => True) g g1 :=
      (addType_step G c _ _ _ _ _ h1).mono (fun _ h => .inl h) (fun _ _ => trivial)
    simp only [] at h
    have s2 : TStep (AnnPred root cur) (fun _ => True) g1 (g1.add (.b cur, .tf "type", tn)) :=
      .add _ _ (.inr (.inl ⟨rfl, .inl rfl⟩))
    have s3 : ∀ ga : GState, TStep (AnnPred root cur) (fun _ => True) ga
        (if (c.withSupertypes && ov.getD (inCanon G ty)) = true then ga.add (.b cur, .tf "subtypeOf", tn) else ga) := by
      intro ga; split
      · exact .add _ _ (.inr (.inl ⟨rfl, .inr rfl⟩))
      · exact .refl _
    have s4 : ∀ ga : GState, TStep (AnnPred root cur) (fun _ => True) ga
        (if c.withMembership = true then ga.add (root, .tf "containsType", tn) else ga) := by
      intro ga; split
      · exact .add _ _ (.inr (.inr ⟨rfl, rfl⟩))
      · exact .refl _
    have s234 := TStep.trans s2 (.trans (s3 _) (s4 _))
    split at h
    · simp only [Except.ok.injEq] at h; subst h
      exact .trans s1 s234
    · split at h
      · refine .trans s1 (.trans s234 ?_)
        refine foldlM_rel (R := TStep (AnnPred root cur) (fun _ => True)) .refl (fun _ _ _ => .trans) _ _ ?_ _ _ h
        intro ga s gb _ hs
        split at hs
        · cases hs
        · rename_i gc sn hsn
          simp only [Except.ok.injEq] at hs
          subst hs
          refine .trans ((addType_step G c _ _ _ _ _ hsn).mono (fun _ h => .inl h) (fun _ _ => trivial)) ?_
          refine .trans (g2 := if c.withMembershipSupertypes = true then gc.add (root, .tf "containsType", sn) else gc) ?_ ?_
          · exact .iteAdd _ _ _ (.inr (.inr ⟨rfl, rfl⟩))
          · exact .iteAdd _ _ _ (.inr (.inl ⟨rfl, .inr rfl⟩))
      · simp only [Except.ok.injEq] at h; subst h
        exact .trans s1 s234

theorem annotateType_step (G : GLang) (c : GCfg) (g : GState) (root : Node) (cur : Nat) (ty : Term)
    (mf : Bool) (g' : GState) (h : annotateType G c g root cur ty mf = .ok g') :
    TStep (AnnPred root cur) (fun _ => True) g g' :=
  annotateType_step_ov G c g root cur ty mf none g' h

end Tfv
