import Tfv.Model.Parse
/-!
# Printed form of concrete types (`TypeInstance.text` with default arguments, type.py:326-358)

`typeToks` is the token list of the printed form, `typeText` the string
(`sep=", "`, `prod=" * "`, `arrow=" ** "`).
-/
namespace Tfv

mutual
/-- tokens of `t.text()` for types without functions -/
def typeToks (L : Lang) : Ty → List String
  | .app o args =>
    if o == PROD then
      match args with
      | [a, b] => ["("] ++ typeToks L a ++ ["*"] ++ typeToks L b ++ [")"]
      | _ => [nameOf L o]
    else if args.isEmpty then [nameOf L o]
    else [nameOf L o, "("] ++ typeToksArgs L args ++ [")"]
def typeToksArgs (L : Lang) : List Ty → List String
  | [] => []
  | [t] => typeToks L t
  | t :: ts => typeToks L t ++ [","] ++ typeToksArgs L ts
end

mutual
def typeText (L : Lang) : Ty → String
  | .app o args =>
    if o == FUN then
      match args with
      | [i, r] =>
        (match i with
         | .app io _ => if io == FUN then "(" ++ typeText L i ++ ")" else typeText L i) ++ " ** " ++ typeText L r
      | _ => nameOf L o
    else if o == PROD then
      match args with
      | [a, b] => "(" ++ typeText L a ++ " * " ++ typeText L b ++ ")"
      | _ => nameOf L o
    else if args.isEmpty then nameOf L o
    else nameOf L o ++ "(" ++ typeTextArgs L args ++ ")"
def typeTextArgs (L : Lang) : List Ty → String
  | [] => ""
  | [t] => typeText L t
  | t :: ts => typeText L t ++ ", " ++ typeTextArgs L ts
end

mutual
/-- a concrete type as a term -/
def Ty.toTerm : Ty → Term
  | .app o args => .app o (Ty.toTermL args)
def Ty.toTermL : List Ty → List Term
  | [] => []
  | t :: ts => Ty.toTerm t :: Ty.toTermL ts
end

mutual
/-- types that can be written in type text: language operators (index ≥ 5), Top, Bottom and products -/
def printable (L : Lang) : Ty → Bool
  | .app o args =>
    (o == TOP || o == BOT || o == PROD || 5 ≤ o) && o < L.length && args.length == arityOf L o && printableL L args
def printableL (L : Lang) : List Ty → Bool
  | [] => true
  | t :: ts => printable L t && printableL L ts
end

end Tfv
