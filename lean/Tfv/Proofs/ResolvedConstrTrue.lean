import Tfv.Proofs.ResolvedConstrInv
/-!
# `match3 … subtype=True accept_wildcard=False = some true` on a wildcard-free store, read on resolutions

If `match3` answers `some true` then in every later store in which both terms resolve, the resolutions are in the
subtype relation (`FulOK`).
-/
namespace Tfv.C03R
open Tfv Tfv.C03P Tfv.C03C Tfv.C16P Tfv.C17E

/-! ## 1. following in a later store -/

theorem res_congr {σ : Store} {a a' : Term} (e : followT σ a = followT σ a') : ∀ {τ : Ty}, Res σ a τ → Res σ a' τ
  | .app o τs, h => by
    rw [res_app] at h ⊢
    rw [← e]; exact h

mutual
theorem res_wf {L : Lang} {σ : Store} (ok : OkStore L σ) : ∀ (τ : Ty) (t : Term), okTerm L σ t = true →
    Res σ t τ → wfTy L τ = true
  | .app o τs, t, ht, h => by
    rw [res_app] at h
    obtain ⟨args, e, hl⟩ := h
    have ht' := okTerm_followT ok t ht
    rw [e] at ht'
    obtain ⟨ho, hlen, hargs⟩ := okTerm_app.mp ht'
    rw [wfTy]
    simp only [Bool.and_eq_true, decide_eq_true_eq, beq_iff_eq]
    exact ⟨⟨ho, by rw [← resL_length hl]; exact hlen⟩, resL_wf ok τs args hargs hl⟩
theorem resL_wf {L : Lang} {σ : Store} (ok : OkStore L σ) : ∀ (τs : List Ty) (ts : List Term),
    okTermL L σ ts = true → ResL σ ts τs → wfTyL L τs = true
  | [], _, _, _ => by rw [wfTyL]
  | τ :: τs, [], _, h => by rw [resL_nil_left] at h; cases h
  | τ :: τs, t :: ts, ht, h => by
    rw [resL_cons] at h
    obtain ⟨h1, h2⟩ := okTermL_cons.mp ht
    rw [wfTyL, res_wf ok τ t h1 h.1, resL_wf ok τs ts h2 h.2]
    rfl
end

/-! ## 2. the argument loop -/

theorem loop_true_res {L : Lang} {σ : Store} {n : Nat}
    (ih : ∀ a b, okTerm L σ a = true → okTerm L σ b = true → match3 L σ n true false a b = some true →
      FulOK L σ a b) :
    ∀ (vs : List Bool) (ss ts : List Term) (acc : Option Bool), okTermL L σ ss = true → okTermL L σ ts = true →
      ss.length = vs.length → ts.length = vs.length →
      match3.loop L σ n true false vs ss ts acc = some true →
      ∀ σ', Ext σ σ' → Chains σ' → OkStore L σ' → ∀ τss τts, ResL σ' ss τss → ResL σ' ts τts →
        SubArgs L vs τss τts := by
  intro vs
  induction vs with
  | nil =>
    intro ss ts acc _ _ h1 h2 _ σ' _ _ _ τss τts hs ht
    rw [List.eq_nil_of_length_eq_zero h1, resL_nil_left] at hs
    rw [List.eq_nil_of_length_eq_zero h2, resL_nil_left] at ht
    subst hs; subst ht
    exact SubArgs.nil
  | cons v vs ihv =>
    intro ss ts acc hss hts h1 h2 h σ' ex hc' ok' τss τts hs ht
    cases ss with
    | nil => simp at h1
    | cons s ss =>
      cases ts with
      | nil => simp at h2
      | cons t ts =>
        obtain ⟨hs1, hss'⟩ := okTermL_cons.mp hss
        obtain ⟨ht1, hts'⟩ := okTermL_cons.mp hts
        cases τss with
        | nil => rw [resL_nil_right] at hs; cases hs
        | cons τs τss =>
          cases τts with
          | nil => rw [resL_nil_right] at ht; cases ht
          | cons τt τts =>
            rw [resL_cons] at hs ht
            rw [match3.loop.eq_1] at h
            split at h
            · cases h
            · exact absurd h (loop_none_ne_true L σ n true false vs ss ts)
            · next hm =>
              have rest := ihv ss ts acc hss' hts' (by simpa using h1) (by simpa using h2) h σ' ex hc' ok'
                τss τts hs.2 ht.2
              cases v with
              | true => exact SubArgs.co (ih s t hs1 ht1 (by simpa using hm) σ' ex hc' ok' τs τt hs.1 ht.1) rest
              | false => exact SubArgs.contra (ih t s ht1 hs1 (by simpa using hm) σ' ex hc' ok' τt τs ht.1 hs.1) rest

/-! ## 3. `match3` -/

theorem res_of_followT_app {σ : Store} {t : Term} {o : Nat} {args : List Term} {τ : Ty}
    (e : followT σ t = .app o args) (h : Res σ t τ) : ∃ τs, τ = .app o τs ∧ ResL σ args τs := by
  cases τ with
  | app o' τs =>
    rw [res_app] at h
    obtain ⟨args', e', hl⟩ := h
    rw [e] at e'
    injection e' with e1 e2
    subst e1; subst e2
    exact ⟨τs, rfl, hl⟩

theorem match3_true_res {L : Lang} (wf : WF L) {σ : Store} (ok : OkStore L σ) (nw : NoWild σ) :
    ∀ (n : Nat) (a b : Term), okTerm L σ a = true → okTerm L σ b = true →
      match3 L σ n true false a b = some true → FulOK L σ a b
  | 0, a, b, _, _, h => by rw [match3_zero] at h; cases h
  | n+1, a, b, ha, hb, h => by
    intro σ' ex hc' ok' τa τb ra rb
    have ha' := okTerm_followT ok a ha
    have hb' := okTerm_followT ok b hb
    rw [match3.eq_2] at h
    cases ea : followT σ a with
    | var av =>
      rw [ea] at ha'
      cases eb : followT σ b with
      | var bv =>
        rw [ea, eb] at h
        simp only [nw av, nw bv, Bool.and_self, Bool.or_false, Bool.false_eq_true, if_false] at h
        split at h
        · next e =>
          have e : av = bv := by simpa using e
          subst e
          have e1 : followT σ' a = followT σ' b := by
            rw [ex.followT_comp hc' a, ex.followT_comp hc' b, ea, eb]
          have rb' := res_congr e1.symm rb
          rw [res_unique _ _ _ rb' ra]
          exact sub_refl _ (res_wf ok' τa a (okTerm_mono ex.len a ha) ra)
        · split at h
          · split at h <;> cases h
          · cases h
      | app bo bs =>
        rw [eb] at hb'
        obtain ⟨hbo, hbsl, hbs⟩ := okTerm_app.mp hb'
        rw [ea, eb] at h
        simp only [Bool.true_and, Bool.false_and, Bool.false_eq_true, if_false, Bool.not_true] at h
        split at h
        · next e =>
          have e : bo = TOP := by simpa using e
          subst e
          rw [arity_top wf] at hbsl
          obtain ⟨τs, e1, hl⟩ := res_of_followT_app (ex.followT_app eb) rb
          rw [List.eq_nil_of_length_eq_zero hbsl, resL_nil_left] at hl
          subst hl; subst e1
          exact Sub.top _
        · split at h
          · cases h
          · split at h
            · cases h
            · cases h
    | app ao as =>
      rw [ea] at ha'
      obtain ⟨hao, hasl, has⟩ := okTerm_app.mp ha'
      obtain ⟨τas, e1, hla⟩ := res_of_followT_app (ex.followT_app ea) ra
      subst e1
      cases eb : followT σ b with
      | var bv =>
        rw [ea, eb] at h
        simp only [Bool.true_and, Bool.false_and, Bool.false_eq_true, if_false, Bool.not_true] at h
        split at h
        · next e =>
          have e : ao = BOT := by simpa using e
          subst e
          rw [arity_bot wf] at hasl
          rw [List.eq_nil_of_length_eq_zero hasl, resL_nil_left] at hla
          subst hla
          exact Sub.bot _
        · split at h
          · cases h
          · split at h
            · cases h
            · cases h
      | app bo bs =>
        rw [eb] at hb'
        obtain ⟨hbo, hbsl, hbs⟩ := okTerm_app.mp hb'
        obtain ⟨τbs, e2, hlb⟩ := res_of_followT_app (ex.followT_app eb) rb
        subst e2
        rw [ea, eb] at h
        simp only [Bool.true_and] at h
        split at h
        · next hbt =>
          simp only [Bool.or_eq_true, beq_iff_eq] at hbt
          rcases hbt with e | e
          · subst e
            rw [arity_bot wf] at hasl
            rw [List.eq_nil_of_length_eq_zero hasl, resL_nil_left] at hla
            subst hla
            exact Sub.bot _
          · subst e
            rw [arity_top wf] at hbsl
            rw [List.eq_nil_of_length_eq_zero hbsl, resL_nil_left] at hlb
            subst hlb
            exact Sub.top _
        · split at h
          · next h0 =>
            have h0 : arityOf L ao = 0 := by simpa using h0
            injection h with h
            rw [h0] at hasl
            rw [List.eq_nil_of_length_eq_zero hasl, resL_nil_left] at hla
            subst hla
            simp only [Bool.or_eq_true, beq_iff_eq] at h
            refine sub_of_opSub_nullary wf h0 (by rw [← resL_length hlb]; exact hbsl) ?_
            rcases h with e | e
            · subst e; exact opSub_self L _
            · exact e
          · next h0 =>
            have h0 : arityOf L ao ≠ 0 := by simpa using h0
            split at h
            · cases h
            · next hne =>
              have heq : ao = bo := by simpa using hne
              subst heq
              exact Sub.cong h0 (loop_true_res (match3_true_res wf ok nw n) _ as bs _ has hbs hasl hbsl h
                σ' ex hc' ok' τas τbs hla hlb)

end Tfv.C03R
