import Tfv.Model.Parse
/-!
# A generic invariant lemma for the expression stack machine (`parse_expr`)

For any builder, a state invariant `I`, an expression predicate `Q` that is monotone along a
relation `step` on builder states: if each builder operation preserves `I`, is a `step`, and
produces a `Q`-expression from `Q`-arguments, then the parser started in a state with `I`, with
`Q`-inputs and a `Q`-stack, ends (when it succeeds) in a state with `I`, `Q`-inputs and a `Q`-stack.
-/
namespace Tfv.ParseInv
open Tfv

/-- every expression on the stack satisfies `Q` in the builder state `st` -/
def StackQ {S E : Type} (Q : S → E → Prop) (st : S) (stack : List (Option E)) : Prop :=
  ∀ e, some e ∈ stack → Q st e

/-- every input expression satisfies `Q` in the builder state `st` -/
def InputsQ {S E : Type} (Q : S → E → Prop) (st : S) (inputs : List E) : Prop :=
  ∀ e, e ∈ inputs → Q st e

/-- the premises of the invariant lemma: what the four builder operations have to guarantee.
The annotation premise may use that the annotation term was produced by the in-line type
parser from the builder's variable base. -/
structure BuilderInv {S E : Type} (P : PLang) (B : Builder S E) (I : S → Prop) (Q : S → E → Prop)
    (step : S → S → Prop) : Prop where
  mono : ∀ s s' e, step s s' → Q s e → Q s' e
  mkSource : ∀ s, I s → I (B.mkSource s).1 ∧ step s (B.mkSource s).1 ∧ Q (B.mkSource s).1 (B.mkSource s).2
  mkOp : ∀ s name s' e, I s → B.mkOp s name = .ok (s', e) → I s' ∧ step s s' ∧ Q s' e
  mkApp : ∀ s f x s' e, I s → Q s f → Q s x → B.mkApp s f x = .ok (s', e) → I s' ∧ step s s' ∧ Q s' e
  annotate : ∀ s prev t nfresh dash s' e toks toks', I s → Q s prev →
    parseTypeLoop P false (B.varBase s) {} toks = .ok (t, nfresh, toks') →
    B.annotate s prev t nfresh dash = .ok (s', e) → I s' ∧ step s s' ∧ Q s' e

/-- the invariant of the loop -/
structure LoopInv {S E : Type} (I : S → Prop) (Q : S → E → Prop) (inputs : List E) (s : EState S E) : Prop where
  inv : I s.st
  inputs : InputsQ Q s.st inputs
  stack : StackQ Q s.st s.stack

theorem StackQ.mono {S E : Type} {Q : S → E → Prop} {step : S → S → Prop}
    (hm : ∀ s s' e, step s s' → Q s e → Q s' e) {s s' : S} (hs : step s s') {stack : List (Option E)}
    (h : StackQ Q s stack) : StackQ Q s' stack := fun e he => hm s s' e hs (h e he)

theorem InputsQ.mono {S E : Type} {Q : S → E → Prop} {step : S → S → Prop}
    (hm : ∀ s s' e, step s s' → Q s e → Q s' e) {s s' : S} (hs : step s s') {inputs : List E}
    (h : InputsQ Q s inputs) : InputsQ Q s' inputs := fun e he => hm s s' e hs (h e he)

theorem StackQ.tail {S E : Type} {Q : S → E → Prop} {st : S} {x : Option E} {stack : List (Option E)}
    (h : StackQ Q st (x :: stack)) : StackQ Q st stack := fun e he => h e (List.mem_cons_of_mem _ he)

theorem StackQ.head {S E : Type} {Q : S → E → Prop} {st : S} {x : E} {stack : List (Option E)}
    (h : StackQ Q st (some x :: stack)) : Q st x := h x (List.mem_cons_self)

theorem StackQ.cons_some {S E : Type} {Q : S → E → Prop} {st : S} {x : E} {stack : List (Option E)}
    (hx : Q st x) (h : StackQ Q st stack) : StackQ Q st (some x :: stack) := by
  intro e he
  rcases List.mem_cons.mp he with h1 | h1
  · cases h1; exact hx
  · exact h e h1

theorem StackQ.cons_none {S E : Type} {Q : S → E → Prop} {st : S} {stack : List (Option E)}
    (h : StackQ Q st stack) : StackQ Q st (none :: stack) := by
  intro e he
  rcases List.mem_cons.mp he with h1 | h1
  · cases h1
  · exact h e h1

theorem StackQ.single_none {S E : Type} {Q : S → E → Prop} {st : S} : StackQ Q st ([none] : List (Option E)) := by
  intro e he
  rcases List.mem_cons.mp he with h1 | h1
  · cases h1
  · cases h1

theorem lookupInput_mem {E : Type} {inputs : List E} {k : Nat} {e : E} (h : lookupInput inputs k = some e) :
    e ∈ inputs := by
  unfold lookupInput at h
  split at h
  · exact List.mem_of_getLast? h
  · exact List.mem_of_getElem? h


/-- what one builder operation achieves for the loop: the invariant, and transport of inputs and stacks -/
structure Moved {S E : Type} (I : S → Prop) (Q : S → E → Prop) (inputs : List E) (st st' : S) : Prop where
  inv : I st'
  inputs : InputsQ Q st' inputs
  stack : ∀ stack, StackQ Q st stack → StackQ Q st' stack

theorem Moved.refl {S E : Type} {I : S → Prop} {Q : S → E → Prop} {inputs : List E} {st : S}
    (h1 : I st) (h2 : InputsQ Q st inputs) : Moved I Q inputs st st := ⟨h1, h2, fun _ h => h⟩

theorem Moved.of_step {S E : Type} {I : S → Prop} {Q : S → E → Prop} {step : S → S → Prop} {inputs : List E}
    {st st' : S} (hm : ∀ s s' e, step s s' → Q s e → Q s' e) (h1 : I st') (hs : step st st')
    (h2 : InputsQ Q st inputs) : Moved I Q inputs st st' :=
  ⟨h1, h2.mono hm hs, fun _ h => h.mono hm hs⟩

theorem Moved.trans {S E : Type} {I : S → Prop} {Q : S → E → Prop} {inputs : List E} {a b c : S}
    (h1 : Moved I Q inputs a b) (h2 : Moved I Q inputs b c) : Moved I Q inputs a c :=
  ⟨h2.inv, h2.inputs, fun st h => h2.stack st (h1.stack st h)⟩

theorem current_inv {S E : Type} {P : PLang} {B : Builder S E} {I : S → Prop} {Q : S → E → Prop}
    {step : S → S → Prop} (H : BuilderInv P B I Q step) {inputs : List E} {defaults : Bool} {st st' : S}
    {tok : String} {e : E} (hI : I st) (hin : InputsQ Q st inputs)
    (h : (if tok == "-" then Except.ok (B.mkSource st)
        else match parseDecimal tok with
          | some k =>
            (match lookupInput inputs k with
             | some e => .ok (st, e)
             | none => if defaults then .ok (B.mkSource st) else .error (.missingInput k))
          | none => B.mkOp st tok) = Except.ok (st', e)) :
    Moved I Q inputs st st' ∧ Q st' e := by
  have src : ∀ st' e, Except.ok (ε := PErr) (B.mkSource st) = Except.ok (st', e) → Moved I Q inputs st st' ∧ Q st' e := by
    intro st' e h
    obtain ⟨h1, h2, h3⟩ := H.mkSource st hI
    injection h with h
    rw [h] at h1 h2 h3
    exact ⟨Moved.of_step H.mono h1 h2 hin, h3⟩
  split at h
  · exact src _ _ h
  · split at h
    · split at h
      · rename_i e' hl
        cases h
        exact ⟨Moved.refl hI hin, hin _ (lookupInput_mem hl)⟩
      · split at h
        · exact src _ _ h
        · cases h
    · obtain ⟨h1, h2, h3⟩ := H.mkOp _ _ _ _ hI h
      exact ⟨Moved.of_step H.mono h1 h2 hin, h3⟩

theorem parseExprLoop_inv {S E : Type} {P : PLang} {B : Builder S E} {I : S → Prop} {Q : S → E → Prop}
    {step : S → S → Prop} (H : BuilderInv P B I Q step) (inputs : List E) (defaults : Bool) :
    ∀ (n : Nat) (s : EState S E) (toks : List String) (s' : EState S E),
      LoopInv I Q inputs s → parseExprLoop P B inputs defaults n s toks = .ok s' → LoopInv I Q inputs s' := by
  intro n s toks
  fun_induction parseExprLoop P B inputs defaults n s toks
  case case1 => intro s' _ h; cases h
  case case2 => intro s' hi h; cases h; exact hi
  case case3 ih => intro s' hi h; exact ih s' ⟨hi.inv, hi.inputs, hi.stack⟩ h
  case case4 ih => intro s' hi h; exact ih s' ⟨hi.inv, hi.inputs, hi.stack⟩ h
  case case5 ih => intro s' hi h; exact ih s' ⟨hi.inv, hi.inputs, hi.stack⟩ h
  case case6 => intro s' _ h; cases h
  case case7 n s tok rest _ _ _ _ r st' stack' hr stack'' ih =>
    intro s' hi h
    refine ih s' ?_ h
    have key : Moved I Q inputs s.st st' ∧ StackQ Q st' stack' := by
      simp only [r] at hr
      split at hr
      · split at hr
        · cases hr
        · rename_i rest' hst
          cases hr
          exact ⟨Moved.refl hi.inv hi.inputs, (hst ▸ hi.stack).tail⟩
        · rename_i y rest' hst
          have hst' : StackQ Q s.st (some y :: rest') := hst ▸ hi.stack
          split at hr
          · cases hr
          · cases hr
            exact ⟨Moved.refl hi.inv hi.inputs, StackQ.cons_some hst'.head hst'.tail.tail⟩
          · rename_i x rest''
            split at hr
            · cases hr
            · rename_i st1 e1 happ
              cases hr
              obtain ⟨h1, h2, h3⟩ := H.mkApp _ _ _ _ _ hi.inv hst'.tail.head hst'.head happ
              have mv := Moved.of_step (I := I) H.mono h1 h2 hi.inputs
              exact ⟨mv, StackQ.cons_some h3 (mv.stack _ hst'.tail.tail)⟩
      · cases hr
        exact ⟨Moved.refl hi.inv hi.inputs, hi.stack⟩
    refine ⟨key.1.inv, key.1.inputs, ?_⟩
    show StackQ Q st' stack''
    simp only [stack'']
    split
    · exact key.2.cons_none
    · exact key.2
  case case8 => intro s' _ h; cases h
  case case9 => intro s' _ h; cases h
  case case10 n s tok rest _ _ _ _ _ previous below hst t k rest' hty st' e hann ih =>
    intro s' hi h
    refine ih s' ?_ h
    have hst' : StackQ Q s.st (some previous :: below) := hst ▸ hi.stack
    obtain ⟨h1, h2, h3⟩ := H.annotate _ _ _ _ _ _ _ _ _ hi.inv hst'.head hty hann
    have mv := Moved.of_step (I := I) H.mono h1 h2 hi.inputs
    exact ⟨mv.inv, mv.inputs, StackQ.cons_some h3 (mv.stack _ hst'.tail)⟩
  case case11 => intro s' _ h; cases h
  case case12 => intro s' _ h; cases h
  case case13 ih => intro s' hi h; exact ih s' ⟨hi.inv, hi.inputs, StackQ.single_none⟩ h
  case case14 => intro s' _ h; cases h
  case case15 => intro s' _ h; cases h
  case case16 n s tok rest _ _ _ _ _ _ cur st' e hcur below hst ih =>
    intro s' hi h
    refine ih s' ?_ h
    obtain ⟨mv, hq⟩ := current_inv H hi.inv hi.inputs hcur
    have hst' : StackQ Q s.st (none :: below) := hst ▸ hi.stack
    exact ⟨mv.inv, mv.inputs, StackQ.cons_some hq (mv.stack _ hst'.tail)⟩
  case case17 => intro s' _ h; cases h
  case case18 n s tok rest _ _ _ _ _ _ cur st' e hcur previous below hst st'' e' happ ih =>
    intro s' hi h
    refine ih s' ?_ h
    obtain ⟨mv, hq⟩ := current_inv H hi.inv hi.inputs hcur
    have hst' : StackQ Q s.st (some previous :: below) := hst ▸ hi.stack
    have hst'' := mv.stack _ hst'
    obtain ⟨h1, h2, h3⟩ := H.mkApp _ _ _ _ _ mv.inv hst''.head hq happ
    have mv2 := Moved.of_step (I := I) H.mono h1 h2 mv.inputs
    exact ⟨mv2.inv, mv2.inputs, StackQ.cons_some h3 (mv2.stack _ hst''.tail)⟩

/-- the invariant lemma for `parse_expr`: the returned state satisfies `I` and the returned expression `Q` -/
theorem parseExprToks_inv {S E : Type} {P : PLang} {B : Builder S E} {I : S → Prop} {Q : S → E → Prop}
    {step : S → S → Prop} (H : BuilderInv P B I Q step) {inputs : List E} {st0 st : S} {toks : List String}
    {e : E} (hI : I st0) (hin : InputsQ Q st0 inputs) (h : parseExprToks P B inputs st0 toks = .ok (st, e)) :
    I st ∧ InputsQ Q st inputs ∧ Q st e := by
  unfold parseExprToks at h
  split at h
  · cases h
  · rename_i s hs
    have hl := parseExprLoop_inv H inputs false _ _ _ _ ⟨hI, hin, StackQ.single_none⟩ hs
    split at h
    · rename_i e' hst
      cases h
      exact ⟨hl.inv, hl.inputs, (hst ▸ hl.stack).head⟩
    · cases h
    · cases h
end Tfv.ParseInv
