import Tfv.Proofs.ResolvedConstrTop
import Tfv.Proofs.InferConstrExamples
open Tfv Tfv.C03P Tfv.C03C Tfv.C03R

example : (match instantiate exL 11 ({} : Store) exSC with | .ok (σ, _) => σ.vars.length | _ => 0) = 1 := by decide +kernel

example : (match instantiate exL 20 ({} : Store) exSC with
  | .ok (σ, f) => (match applyAll exL 20 true σ f [.app 6 []] with | .ok (σ', _) => σ'.constrs.length | _ => 7)
  | _ => 0) = 1 := by decide +kernel
