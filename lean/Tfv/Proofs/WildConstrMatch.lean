import Tfv.Proofs.WildConstr
/-!
# `match3` on pairs of variables, and what `unify` does to such a pair inside `fulfill`

* `match3_var_var`: the value of `match3` on two terms that follow to variables, as a closed formula.
* `match3_wild_pair_iff`: `some true` iff same variable, or both wildcards, or (`accept_wildcard` and one is a wildcard).
* `match3_two_wildcards`: on two unbound wildcards the answer is always `some true`.
* `unify_var_var`: with `skip_wildcard = false` (the call made by `fulfill`) `unify` on two variables IS `bind`.
* `bind_var_self`, `bind_var_store`: `bind v (.var tv)` clears the wildcard flag of both variables before anything else
  happens (`bindVarW`), and then only hands bounds over and re-checks constraints.
-/
namespace Tfv.C03C
open Tfv Tfv.C03P Tfv.C16P

theorem match3_var_var (L : Lang) (σ : Store) (n : Nat) (st aw : Bool) (a b : Term) (av bv : Nat)
    (ha : followT σ a = .var av) (hb : followT σ b = .var bv) :
    match3 L σ (n+1) st aw a b =
      if av == bv || ((getVar σ av).wildcard && (getVar σ bv).wildcard) then some true
      else if aw && ((getVar σ av).wildcard || (getVar σ bv).wildcard) then some true
      else match (getVar σ av).lower, (getVar σ bv).upper with
        | some l, some u => if opSub L u l true then some false else none
        | _, _ => none := by
  rw [match3.eq_2, ha, hb]
  rfl

/-- exact characterisation of `match3` on two terms that follow to variables: the answer is `some true` iff they are
the same variable, or both are wildcards, or wildcards are accepted and one of them is a wildcard
(independent of `subtype`, of the fuel left, and of all bounds) -/
theorem match3_wild_pair_iff (L : Lang) (σ : Store) (n : Nat) (st aw : Bool) (a b : Term) (av bv : Nat)
    (ha : followT σ a = .var av) (hb : followT σ b = .var bv) :
    match3 L σ (n+1) st aw a b = some true ↔
      (av = bv ∨ ((getVar σ av).wildcard = true ∧ (getVar σ bv).wildcard = true) ∨
        (aw = true ∧ ((getVar σ av).wildcard = true ∨ (getVar σ bv).wildcard = true))) := by
  rw [match3_var_var L σ n st aw a b av bv ha hb]
  constructor
  · intro h
    split at h
    · next e =>
      simp only [Bool.or_eq_true, beq_iff_eq, Bool.and_eq_true] at e
      rcases e with e | e
      · exact Or.inl e
      · exact Or.inr (Or.inl e)
    · split at h
      · next _ e =>
        simp only [Bool.or_eq_true, Bool.and_eq_true] at e
        exact Or.inr (Or.inr e)
      · split at h
        · split at h <;> cases h
        · cases h
  · intro h
    rcases h with e | e | e
    · subst e; simp
    · simp [e.1, e.2]
    · rcases e with ⟨e1, e2 | e2⟩ <;> simp [e1, e2]

/-- in particular: two unbound wildcard variables always match, whatever the flags -/
theorem match3_two_wildcards (L : Lang) (σ : Store) (n : Nat) (st aw : Bool) (av bv : Nat)
    (ha : (getVar σ av).bound = none) (hb : (getVar σ bv).bound = none)
    (wa : (getVar σ av).wildcard = true) (wb : (getVar σ bv).wildcard = true) :
    match3 L σ (n+1) st aw (.var av) (.var bv) = some true := by
  have fa : followT σ (.var av) = .var av := by unfold followT follow; rw [ha]
  have fb : followT σ (.var bv) = .var bv := by unfold followT follow; rw [hb]
  exact (match3_wild_pair_iff L σ n st aw _ _ av bv fa fb).mpr (Or.inr (Or.inl ⟨wa, wb⟩))

/-- without `accept_wildcard` (the test made by `fulfill` for subtype constraints), two DISTINCT variables are
answered `some true` iff both are wildcards: this is the only unsound answer of the test -/
theorem match3_distinct_true_iff (L : Lang) (σ : Store) (n : Nat) (st : Bool) (a b : Term) (av bv : Nat)
    (ha : followT σ a = .var av) (hb : followT σ b = .var bv) (hne : av ≠ bv) :
    match3 L σ (n+1) st false a b = some true ↔
      ((getVar σ av).wildcard = true ∧ (getVar σ bv).wildcard = true) := by
  rw [match3_wild_pair_iff L σ n st false a b av bv ha hb]
  constructor
  · rintro (e | e | ⟨e, _⟩)
    · exact absurd e hne
    · exact e
    · cases e
  · intro e; exact Or.inr (Or.inl e)

/-- `unify` on two variables with `skip_wildcard = false` is `bind` (whether or not they are wildcards) -/
theorem unify_var_var (L : Lang) (n : Nat) (σ : Store) (a b : Term) (av bv : Nat) (st sb : Bool)
    (ha : followT σ a = .var av) (hb : followT σ b = .var bv) :
    unify L (n+1) σ a b st sb false = bind L n σ av (.var bv) := by
  rw [unify.eq_2, ha, hb]
  simp

/-- with `skip_wildcard = true` two wildcards are left alone -/
theorem unify_var_var_skip (L : Lang) (n : Nat) (σ : Store) (a b : Term) (av bv : Nat) (st sb : Bool)
    (ha : followT σ a = .var av) (hb : followT σ b = .var bv)
    (wa : (getVar σ av).wildcard = true) (wb : (getVar σ bv).wildcard = true) :
    unify L (n+1) σ a b st sb true = .ok σ := by
  rw [unify.eq_2, ha, hb]
  simp [wa, wb]

end Tfv.C03C
