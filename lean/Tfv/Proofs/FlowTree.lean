import Tfv.Proofs.FlowFO
/-!
# C08 proofs, part 4: the layout `flowFO` is a tree over fresh nodes

What `flowFO` produces for a first-order expression: the source map is extended monotonically
by new, distinct nodes; there is exactly one new node per operator application (spine), all
distinct and different from every source node; every edge goes from the node of an operator
application to an operator or source node; the node of a spine has exactly one outgoing edge
per argument.
-/
namespace Tfv.C08P
open Tfv

/-! ## small list facts -/

theorem snoc_induction {α : Type} {P : List α → Prop} (nil : P []) (snoc : ∀ l a, P l → P (l ++ [a])) :
    ∀ l, P l := by
  intro l
  rw [← List.reverse_reverse l]
  induction l.reverse with
  | nil => exact nil
  | cons a t ih => rw [List.reverse_cons]; exact snoc _ _ ih

theorem objectsOf_append (r s : Rel) (b : Nat) : objectsOf (r ++ s) b = objectsOf r b ++ objectsOf s b := by
  simp [objectsOf]

theorem objectsOf_cons (p : Nat × Nat) (r : Rel) (b : Nat) :
    objectsOf (p :: r) b = if p.1 == b then p.2 :: objectsOf r b else objectsOf r b := by
  simp only [objectsOf, List.filter_cons]
  split <;> simp

theorem objectsOf_eq_nil {r : Rel} {b : Nat} (h : ∀ p ∈ r, p.1 ≠ b) : objectsOf r b = [] := by
  unfold objectsOf
  rw [List.map_eq_nil_iff, List.filter_eq_nil_iff]
  intro p hp
  simpa using h p hp

theorem find_none_iff (memo : List (Nat × Nat)) (id : Nat) :
    memo.find? (fun q => q.1 == id) = none ↔ id ∉ memo.map Prod.fst := by
  rw [List.find?_eq_none]
  simp only [List.mem_map, not_exists, not_and, beq_iff_eq]

theorem flatMap_attach_val {α β : Type} (l : List α) (f : α → List β) :
    l.attach.flatMap (fun a => f a.1) = l.flatMap f := by
  rw [List.flatMap_def, List.flatMap_def]
  congr 1
  exact List.attach_map_val (l := l) (f := f) |>.symm ▸ rfl

theorem subSpines_src (id : Nat) (l : Option String) (ty : Term) : subSpines (.src id l ty) = [] := by
  rw [subSpines]; rfl

theorem subSpines_spine {e : TExpr} {name : String} {ty : Term} (h : headOf e = .op name ty) :
    subSpines e = e :: (argsOf e).flatMap subSpines := by
  rw [subSpines, h]
  simp only []
  rw [flatMap_attach_val]

/-! ## what a good layout is -/

/-- `m` is a node handed out during the layout: the reserved one, or one from `next` up to `hi` -/
def NewNode (next : Nat) (cur : Option Nat) (hi m : Nat) : Prop := (cur = some m ∨ next ≤ m) ∧ m < hi

/-- the layout starts from a consistent state: all existing source nodes, and the reserved node,
are below the counter, and the reserved node is not a source node -/
structure FlowPre (next : Nat) (memo : List (Nat × Nat)) (cur : Option Nat) : Prop where
  memo_lt : ∀ p ∈ memo, p.2 < next
  cur_lt : ∀ c, cur = some c → c < next
  cur_notin : ∀ c, cur = some c → ∀ p ∈ memo, p.2 ≠ c

structure FlowGood (next : Nat) (memo : List (Nat × Nat)) (e : TExpr) (cur : Option Nat) (r : FlowRes) : Prop where
  le : next ≤ r.next
  memo_ext : ∃ new, r.memo = memo ++ new ∧
    (∀ p ∈ new, NewNode next cur r.next p.2 ∧ memo.find? (fun q => q.1 == p.1) = none) ∧
    (new.map Prod.fst).Nodup ∧ (new.map Prod.snd).Nodup
  ops_new : ∀ q ∈ r.ops, NewNode next cur r.next q.1
  ops_nodup : (r.ops.map Prod.fst).Nodup
  ops_not_src : ∀ q ∈ r.ops, ∀ p ∈ r.memo, p.2 ≠ q.1
  ops_spines : r.ops.map Prod.snd = subSpines e
  edges_ends : ∀ p ∈ r.edges, (∃ q ∈ r.ops, q.1 = p.1) ∧ ((∃ q ∈ r.ops, q.1 = p.2) ∨ (∃ s ∈ r.memo, s.2 = p.2))
  deg : ∀ q ∈ r.ops, (objectsOf r.edges q.1).length = (argsOf q.2).length
  node_is : (∃ q ∈ r.ops, q.1 = r.node) ∨ (∃ s ∈ r.memo, s.2 = r.node)
  node_spine : ∀ name ty, headOf e = .op name ty → (r.node, e) ∈ r.ops ∧ r.node = (allocNode next cur).1
  node_src : ∀ id l ty, e = .src id l ty → ∃ p, r.memo.find? (fun q => q.1 == id) = some p ∧ p.2 = r.node
  edges_len : r.edges.length = numArgs e

theorem alloc_facts {next : Nat} {memo : List (Nat × Nat)} {cur : Option Nat} (hp : FlowPre next memo cur) :
    (allocNode next cur).1 < (allocNode next cur).2 ∧ next ≤ (allocNode next cur).2 ∧
    (cur = some (allocNode next cur).1 ∨ next ≤ (allocNode next cur).1) ∧
    (∀ p ∈ memo, p.2 < (allocNode next cur).2 ∧ p.2 ≠ (allocNode next cur).1) := by
  cases cur with
  | none =>
    simp only [allocNode]
    refine ⟨by omega, by omega, Or.inr (Nat.le_refl _), ?_⟩
    intro p hp'
    have := hp.memo_lt p hp'
    omega
  | some c =>
    simp only [allocNode]
    refine ⟨hp.cur_lt c rfl, Nat.le_refl _, Or.inl trivial, ?_⟩
    intro p hp'
    exact ⟨hp.memo_lt p hp', hp.cur_notin c rfl p hp'⟩

theorem flowGood_src {next : Nat} {memo : List (Nat × Nat)} {cur : Option Nat} (hp : FlowPre next memo cur)
    (id : Nat) (l : Option String) (ty : Term) :
    FlowGood next memo (.src id l ty) cur (flowFO next memo (.src id l ty) cur) := by
  rw [flowFO_src]
  obtain ⟨f1, f2, f3, f4⟩ := alloc_facts hp
  cases hfind : List.find? (fun p => p.fst == id) memo with
  | some p =>
    simp only []
    refine ⟨Nat.le_refl _, ⟨[], by simp, by simp, by simp, by simp⟩, by simp, by simp, by simp, ?_, by simp, by simp,
      Or.inr ⟨p, List.mem_of_find?_eq_some hfind, rfl⟩, ?_, ?_, ?_⟩
    · simp [subSpines_src]
    · intro name ty' h; cases h
    · intro id' l' ty' h
      cases h
      exact ⟨p, hfind, rfl⟩
    · simp [numArgs, subSpines_src]
  | none =>
    simp only []
    have hfs : List.find? (fun q => q.fst == id) (memo ++ [(id, (allocNode next cur).fst)]) =
        some (id, (allocNode next cur).fst) := by
      rw [List.find?_append, hfind]; simp
    refine ⟨f2, ⟨[(id, (allocNode next cur).1)], rfl, ?_, by simp, by simp⟩, by simp, by simp, by simp, ?_, by simp,
      by simp, Or.inr ⟨(id, (allocNode next cur).1), by simp, rfl⟩, ?_, ?_, ?_⟩
    · intro p hp'
      simp only [List.mem_singleton] at hp'
      subst hp'
      exact ⟨⟨f3, f1⟩, hfind⟩
    · simp [subSpines_src]
    · intro name ty' h; cases h
    · intro id' l' ty' h
      cases h
      exact ⟨_, hfs, rfl⟩
    · simp [numArgs, subSpines_src]

/-! ## the fold over the arguments -/

structure FoldInv (n lo : Nat) (memo0 : List (Nat × Nat)) (e : TExpr) (l : List TExpr) (st : FlowRes) : Prop where
  le : lo ≤ st.next
  memo_ext : ∃ new, st.memo = memo0 ++ new ∧
    (∀ p ∈ new, (lo ≤ p.2 ∧ p.2 < st.next) ∧ memo0.find? (fun q => q.1 == p.1) = none) ∧
    (new.map Prod.fst).Nodup ∧ (new.map Prod.snd).Nodup
  top_mem : (n, e) ∈ st.ops
  ops_rng : ∀ q ∈ st.ops, q = (n, e) ∨ (lo ≤ q.1 ∧ q.1 < st.next)
  ops_nodup : (st.ops.map Prod.fst).Nodup
  ops_not_src : ∀ q ∈ st.ops, ∀ p ∈ st.memo, p.2 ≠ q.1
  ops_spines : st.ops.map Prod.snd = e :: l.flatMap subSpines
  edges_ends : ∀ p ∈ st.edges, (∃ q ∈ st.ops, q.1 = p.1) ∧ ((∃ q ∈ st.ops, q.1 = p.2) ∨ (∃ s ∈ st.memo, s.2 = p.2))
  deg_top : (objectsOf st.edges n).length = l.length
  deg : ∀ q ∈ st.ops, q.1 ≠ n → (objectsOf st.edges q.1).length = (argsOf q.2).length
  edges_len : st.edges.length = l.length + ((l.flatMap subSpines).map (fun s => (argsOf s).length)).sum

theorem foldInv_init (n lo : Nat) (memo0 : List (Nat × Nat)) (e : TExpr)
    (hm0 : ∀ p ∈ memo0, p.2 < lo ∧ p.2 ≠ n) :
    FoldInv n lo memo0 e [] { node := n, next := lo, memo := memo0, edges := [], ops := [(n, e)] } := by
  refine ⟨Nat.le_refl _, ⟨[], by simp, by simp, by simp, by simp⟩, by simp, by simp, by simp, ?_, by simp, by simp,
    by simp [objectsOf], by simp, by simp⟩
  intro q hq p hp
  simp only [List.mem_singleton] at hq
  subst hq
  exact (hm0 p hp).2

theorem foldInv_pre {n lo : Nat} {memo0 : List (Nat × Nat)} {e : TExpr} {l : List TExpr} {st : FlowRes}
    (hm0 : ∀ p ∈ memo0, p.2 < lo ∧ p.2 ≠ n) (inv : FoldInv n lo memo0 e l st) :
    FlowPre (st.next + 1) st.memo (some st.next) := by
  obtain ⟨new, hnew, hn1, _, _⟩ := inv.memo_ext
  have hlt : ∀ p ∈ st.memo, p.2 < st.next := by
    intro p hp
    rw [hnew, List.mem_append] at hp
    rcases hp with hp | hp
    · have := (hm0 p hp).1
      have := inv.le
      omega
    · exact (hn1 p hp).1.2
  refine ⟨?_, ?_, ?_⟩
  · intro p hp
    have := hlt p hp
    omega
  · intro c hc; cases hc; omega
  · intro c hc p hp
    cases hc
    have := hlt p hp
    omega

theorem foldInv_step {n lo : Nat} {memo0 : List (Nat × Nat)} {e : TExpr} {l : List TExpr} {st : FlowRes}
    (hn : n < lo) (inv : FoldInv n lo memo0 e l st)
    (a : TExpr) (r : FlowRes) (hg : FlowGood (st.next + 1) st.memo a (some st.next) r) :
    FoldInv n lo memo0 e (l ++ [a]) (flowArg n st r) := by
  obtain ⟨new, hnew, hn1, hn2, hn3⟩ := inv.memo_ext
  obtain ⟨newr, hnewr, hr1, hr2, hr3⟩ := hg.memo_ext
  have hle := inv.le
  have hgle := hg.le
  -- nodes of the argument are at least `st.next`
  have rng_r : ∀ m, NewNode (st.next + 1) (some st.next) r.next m → st.next ≤ m ∧ m < r.next := by
    intro m hm
    rcases hm with ⟨h1 | h1, h2⟩
    · cases h1; exact ⟨Nat.le_refl _, h2⟩
    · exact ⟨by omega, h2⟩
  have ops_r : ∀ q ∈ r.ops, st.next ≤ q.1 ∧ q.1 < r.next := fun q hq => rng_r _ (hg.ops_new q hq)
  have ops_st : ∀ q ∈ st.ops, q.1 < st.next := by
    intro q hq
    rcases inv.ops_rng q hq with h | h
    · rw [h]; show n < st.next; omega
    · exact h.2
  have src_r : ∀ q ∈ r.edges, st.next ≤ q.1 := by
    intro q hq
    obtain ⟨⟨o, ho, ho2⟩, _⟩ := hg.edges_ends q hq
    rw [← ho2]; exact (ops_r o ho).1
  have src_st : ∀ q ∈ st.edges, q.1 < st.next := by
    intro q hq
    obtain ⟨⟨o, ho, ho2⟩, _⟩ := inv.edges_ends q hq
    rw [← ho2]; exact ops_st o ho
  refine ⟨?_, ⟨new ++ newr, ?_, ?_, ?_, ?_⟩, ?_, ?_, ?_, ?_, ?_, ?_, ?_, ?_, ?_⟩
  · show lo ≤ r.next
    omega
  · show r.memo = memo0 ++ (new ++ newr)
    rw [hnewr, hnew, List.append_assoc]
  · intro p hp
    show (lo ≤ p.2 ∧ p.2 < r.next) ∧ _
    rw [List.mem_append] at hp
    rcases hp with hp | hp
    · have := hn1 p hp
      exact ⟨⟨this.1.1, by omega⟩, this.2⟩
    · have h1 := rng_r _ (hr1 p hp).1
      have h2 := (hr1 p hp).2
      rw [hnew, List.find?_append] at h2
      refine ⟨⟨by omega, h1.2⟩, ?_⟩
      cases hf : List.find? (fun q => q.fst == p.fst) memo0 with
      | none => rfl
      | some x => rw [hf] at h2; cases h2
  · rw [List.map_append, List.nodup_append]
    refine ⟨hn2, hr2, ?_⟩
    intro x hx y hy hxy
    subst hxy
    obtain ⟨p, hp, rfl⟩ := List.mem_map.1 hy
    have h2 := (hr1 p hp).2
    rw [find_none_iff, hnew, List.map_append, List.mem_append] at h2
    exact h2 (Or.inr hx)
  · rw [List.map_append, List.nodup_append]
    refine ⟨hn3, hr3, ?_⟩
    intro x hx y hy hxy
    subst hxy
    obtain ⟨p, hp, rfl⟩ := List.mem_map.1 hy
    obtain ⟨p', hp', hpp⟩ := List.mem_map.1 hx
    have h1 := rng_r _ (hr1 p hp).1
    have h2 := (hn1 p' hp').1
    omega
  · show (n, e) ∈ st.ops ++ r.ops
    exact List.mem_append_left _ inv.top_mem
  · intro q hq
    show q = (n, e) ∨ (lo ≤ q.1 ∧ q.1 < r.next)
    have hq' : q ∈ st.ops ++ r.ops := hq
    rw [List.mem_append] at hq'
    rcases hq' with hq' | hq'
    · rcases inv.ops_rng q hq' with h | h
      · exact Or.inl h
      · exact Or.inr ⟨h.1, by omega⟩
    · have := ops_r q hq'
      exact Or.inr ⟨by omega, this.2⟩
  · show ((st.ops ++ r.ops).map Prod.fst).Nodup
    rw [List.map_append, List.nodup_append]
    refine ⟨inv.ops_nodup, hg.ops_nodup, ?_⟩
    intro x hx y hy hxy
    subst hxy
    obtain ⟨q, hq, rfl⟩ := List.mem_map.1 hy
    obtain ⟨q', hq', hqq⟩ := List.mem_map.1 hx
    have h1 := ops_r q hq
    have h2 := ops_st q' hq'
    omega
  · intro q hq p hp
    have hq' : q ∈ st.ops ++ r.ops := hq
    have hp' : p ∈ r.memo := hp
    rw [List.mem_append] at hq'
    rcases hq' with hq' | hq'
    · rw [hnewr, List.mem_append] at hp'
      rcases hp' with hp' | hp'
      · exact inv.ops_not_src q hq' p hp'
      · have h1 := rng_r _ (hr1 p hp').1
        have h2 := ops_st q hq'
        omega
    · exact hg.ops_not_src q hq' p hp'
  · show (st.ops ++ r.ops).map Prod.snd = e :: (l ++ [a]).flatMap subSpines
    rw [List.map_append, inv.ops_spines, hg.ops_spines]
    simp
  · intro p hp
    have hp' : p ∈ (n, r.node) :: r.edges ++ st.edges := hp
    show (∃ q ∈ st.ops ++ r.ops, q.1 = p.1) ∧ ((∃ q ∈ st.ops ++ r.ops, q.1 = p.2) ∨ (∃ s ∈ r.memo, s.2 = p.2))
    simp only [List.cons_append, List.mem_cons, List.mem_append] at hp'
    rcases hp' with rfl | hp' | hp'
    · refine ⟨⟨(n, e), List.mem_append_left _ inv.top_mem, rfl⟩, ?_⟩
      rcases hg.node_is with ⟨q, hq, h⟩ | ⟨s', hs, h⟩
      · exact Or.inl ⟨q, List.mem_append_right _ hq, h⟩
      · exact Or.inr ⟨s', hs, h⟩
    · obtain ⟨⟨q, hq, h⟩, h2⟩ := hg.edges_ends p hp'
      refine ⟨⟨q, List.mem_append_right _ hq, h⟩, ?_⟩
      rcases h2 with ⟨q, hq, h⟩ | h
      · exact Or.inl ⟨q, List.mem_append_right _ hq, h⟩
      · exact Or.inr h
    · obtain ⟨⟨q, hq, h⟩, h2⟩ := inv.edges_ends p hp'
      refine ⟨⟨q, List.mem_append_left _ hq, h⟩, ?_⟩
      rcases h2 with ⟨q, hq, h⟩ | ⟨s', hs, h⟩
      · exact Or.inl ⟨q, List.mem_append_left _ hq, h⟩
      · exact Or.inr ⟨s', by rw [hnewr]; exact List.mem_append_left _ hs, h⟩
  · show (objectsOf ((n, r.node) :: r.edges ++ st.edges) n).length = (l ++ [a]).length
    rw [List.cons_append, objectsOf_cons, objectsOf_append]
    have : objectsOf r.edges n = [] := objectsOf_eq_nil (fun p hp => by have := src_r p hp; omega)
    simp [this, inv.deg_top]
  · intro q hq hqn
    have hq' : q ∈ st.ops ++ r.ops := hq
    show (objectsOf ((n, r.node) :: r.edges ++ st.edges) q.1).length = _
    rw [List.cons_append, objectsOf_cons, objectsOf_append]
    have hne : ((n, r.node).1 == q.1) = false := by simpa using fun h => hqn h.symm
    rw [hne]
    simp only [Bool.false_eq_true, if_false]
    rw [List.mem_append] at hq'
    rcases hq' with hq' | hq'
    · have : objectsOf r.edges q.1 = [] :=
        objectsOf_eq_nil (fun p hp => by have := src_r p hp; have := ops_st q hq'; omega)
      rw [this, List.nil_append]
      exact inv.deg q hq' hqn
    · have : objectsOf st.edges q.1 = [] :=
        objectsOf_eq_nil (fun p hp => by have := src_st p hp; have := ops_r q hq'; omega)
      rw [this, List.append_nil]
      exact hg.deg q hq'
  · show ((n, r.node) :: r.edges ++ st.edges).length = _
    have h1 := hg.edges_len
    have h2 := inv.edges_len
    simp only [numArgs] at h1
    simp only [List.cons_append, List.length_cons, List.length_append, h1, h2, List.flatMap_append,
      List.map_append, List.sum_append, List.flatMap_cons, List.flatMap_nil, List.append_nil, List.length_nil]
    omega

theorem foldInv_all {n lo : Nat} {memo0 : List (Nat × Nat)} {e : TExpr}
    (hn : n < lo) (hm0 : ∀ p ∈ memo0, p.2 < lo ∧ p.2 ≠ n) :
    ∀ (l : List TExpr),
      (∀ a ∈ l, ∀ (next : Nat) (memo : List (Nat × Nat)) (cur : Option Nat), FlowPre next memo cur →
        FlowGood next memo a cur (flowFO next memo a cur)) →
      FoldInv n lo memo0 e l
        (l.foldl (flowStep n) { node := n, next := lo, memo := memo0, edges := [], ops := [(n, e)] }) := by
  intro l
  induction l using snoc_induction with
  | nil => intro _; exact foldInv_init n lo memo0 e hm0
  | snoc l a ih =>
    intro h
    have inv := ih (fun b hb => h b (List.mem_append_left _ hb))
    rw [List.foldl_append]
    simp only [List.foldl_cons, List.foldl_nil]
    exact foldInv_step hn inv a _ (h a (by simp) _ _ _ (foldInv_pre hm0 inv))

theorem flowFO_good {e : TExpr} (hfo : FirstOrder e) :
    ∀ (next : Nat) (memo : List (Nat × Nat)) (cur : Option Nat), FlowPre next memo cur →
      FlowGood next memo e cur (flowFO next memo e cur) := by
  induction hfo with
  | src id l ty => intro next memo cur hp; exact flowGood_src hp id l ty
  | spine e name ty hh _ _ ih =>
    intro next memo cur hp
    obtain ⟨f1, f2, f3, f4⟩ := alloc_facts hp
    have inv := foldInv_all (e := e) f1 f4 (argsOf e) ih
    rw [flowFO_spine _ _ e cur name ty hh]
    have hnode := foldl_flowStep_node (allocNode next cur).1 (argsOf e)
      { node := (allocNode next cur).1, next := (allocNode next cur).2, memo := memo, edges := [],
        ops := [((allocNode next cur).1, e)] } rfl
    generalize List.foldl (flowStep (allocNode next cur).1)
      { node := (allocNode next cur).1, next := (allocNode next cur).2, memo := memo, edges := [],
        ops := [((allocNode next cur).1, e)] } (argsOf e) = st at inv hnode
    obtain ⟨new, hnew, hn1, hn2, hn3⟩ := inv.memo_ext
    have hle := inv.le
    have htop : ∀ q ∈ st.ops, q.1 = (allocNode next cur).1 → q = ((allocNode next cur).1, e) := by
      intro q hq h
      rcases inv.ops_rng q hq with h' | h'
      · exact h'
      · omega
    refine ⟨by omega, ⟨new, hnew, ?_, hn2, hn3⟩, ?_, inv.ops_nodup, inv.ops_not_src, ?_, inv.edges_ends, ?_, ?_, ?_, ?_, ?_⟩
    · intro p hp'
      have := hn1 p hp'
      exact ⟨⟨Or.inr (by omega), this.1.2⟩, this.2⟩
    · intro q hq
      rcases inv.ops_rng q hq with h | h
      · rw [h]; exact ⟨f3, by omega⟩
      · exact ⟨Or.inr (by omega), h.2⟩
    · rw [inv.ops_spines, subSpines_spine hh]
    · intro q hq
      by_cases h : q.1 = (allocNode next cur).1
      · rw [htop q hq h]
        exact inv.deg_top
      · exact inv.deg q hq h
    · exact Or.inl ⟨_, inv.top_mem, hnode.symm⟩
    · intro _ _ _
      rw [hnode]
      exact ⟨inv.top_mem, rfl⟩
    · intro id l ty' h
      rw [h] at hh; cases hh
    · rw [inv.edges_len, numArgs, subSpines_spine hh]
      simp

end Tfv.C08P
