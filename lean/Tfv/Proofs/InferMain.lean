import Tfv.Proofs.InferApply
import Tfv.Proofs.InferWitness
/-!
# The C03 statements in their final form (proved from the step lemmas)
-/
namespace Tfv.C03P

/-- the part of a `Step` that is stated in the property files -/
theorem step_unpack {L : Lang} {σ σ' : Store} (s : Step L σ σ') :
    OkStore L σ' ∧ NoConstraints σ' ∧ σ.vars.length ≤ σ'.vars.length ∧
    (∀ t, okTerm L σ t = true → okTerm L σ' t = true) :=
  ⟨s.ok, s.nc, s.len, fun _ h => s.okTerm h⟩

theorem unify_sound_partial {L : Lang} (wf : WF L) {n : Nat} {σ σ' : Store} {a b : Term} {st : Bool}
    (hst : st = true) (ok : OkStore L σ) (nc : NoConstraints σ)
    (ha : okTerm L σ a = true) (hb : okTerm L σ b = true)
    (h : unify L n σ a b st false false = .ok σ') :
    OkStore L σ' ∧ NoConstraints σ' ∧ σ.vars.length ≤ σ'.vars.length ∧
    (∀ t, okTerm L σ t = true → okTerm L σ' t = true) ∧
    ∀ ρ, Sat L ρ σ' → Sat L ρ σ ∧ (if st then Sub L (den ρ a) (den ρ b) else den ρ a = den ρ b) := by
  subst hst
  obtain ⟨s, hs⟩ := (all_sound wf n).1 σ a b σ' ok nc ha hb h
  obtain ⟨h1, h2, h3, h4⟩ := step_unpack s
  exact ⟨h1, h2, h3, h4, fun ρ hρ => ⟨s.sat ρ hρ, by simpa using hs ρ hρ⟩⟩

theorem fix_sound {L : Lang} (wf : WF L) {n : Nat} {σ σ' : Store} {t t' : Term} {pl : Bool}
    (ok : OkStore L σ) (nc : NoConstraints σ) (ht : okTerm L σ t = true)
    (h : fix L n σ t pl = .ok (σ', t')) :
    OkStore L σ' ∧ NoConstraints σ' ∧ σ.vars.length ≤ σ'.vars.length ∧
    (∀ t, okTerm L σ t = true → okTerm L σ' t = true) ∧ okTerm L σ' t' = true ∧
    ∀ ρ, Sat L ρ σ' → Sat L ρ σ ∧ den ρ t' = den ρ t := by
  obtain ⟨s, ht', hs⟩ := (all_sound wf n).2.2.2.2.2.1 σ t pl σ' t' ok nc ht h
  obtain ⟨h1, h2, h3, h4⟩ := step_unpack s
  exact ⟨h1, h2, h3, h4, ht', fun ρ hρ => ⟨s.sat ρ hρ, hs ρ hρ⟩⟩

theorem bind_sound {L : Lang} (wf : WF L) {n : Nat} {σ σ' : Store} {v : Nat} {t : Term}
    (ok : OkStore L σ) (nc : NoConstraints σ) (hv : v < σ.vars.length) (ht : okTerm L σ t = true)
    (hpre : BindPre L σ v t) (h : bind L n σ v t = .ok σ') :
    OkStore L σ' ∧ NoConstraints σ' ∧ σ.vars.length ≤ σ'.vars.length ∧
    ∀ ρ, Sat L ρ σ' → Sat L ρ σ ∧ ρ v = den ρ t := by
  obtain ⟨s, hs⟩ := (all_sound wf n).2.2.1 σ v t σ' ok nc hv ht hpre h
  exact ⟨s.ok, s.nc, s.len, fun ρ hρ => ⟨s.sat ρ hρ, hs ρ hρ⟩⟩

theorem above_sound {L : Lang} (wf : WF L) {n : Nat} {σ σ' : Store} {v new : Nat}
    (ok : OkStore L σ) (nc : NoConstraints σ) (hv : v < σ.vars.length)
    (hnew : new < L.length) (hnew0 : arityOf L new = 0) (h : above L n σ v new = .ok σ') :
    OkStore L σ' ∧ NoConstraints σ' ∧ σ.vars.length ≤ σ'.vars.length ∧
    ∀ ρ, Sat L ρ σ' → Sat L ρ σ ∧ Sub L (.app new []) (ρ v) := by
  obtain ⟨s, hs⟩ := (all_sound wf n).2.2.2.1 σ v new σ' ok nc hv hnew hnew0 h
  exact ⟨s.ok, s.nc, s.len, fun ρ hρ => ⟨s.sat ρ hρ, hs ρ hρ⟩⟩

theorem below_sound {L : Lang} (wf : WF L) {n : Nat} {σ σ' : Store} {v new : Nat}
    (ok : OkStore L σ) (nc : NoConstraints σ) (hv : v < σ.vars.length)
    (hnew : new < L.length) (hnew0 : arityOf L new = 0) (h : below L n σ v new = .ok σ') :
    OkStore L σ' ∧ NoConstraints σ' ∧ σ.vars.length ≤ σ'.vars.length ∧
    ∀ ρ, Sat L ρ σ' → Sat L ρ σ ∧ Sub L (ρ v) (.app new []) := by
  obtain ⟨s, hs⟩ := (all_sound wf n).2.2.2.2.1 σ v new σ' ok nc hv hnew hnew0 h
  exact ⟨s.ok, s.nc, s.len, fun ρ hρ => ⟨s.sat ρ hρ, hs ρ hρ⟩⟩

theorem apply_sound {L : Lang} (wf : WF L) {n : Nat} {σ σ' : Store} {f x r : Term} {fixFlag : Bool}
    (ok : OkStore L σ) (nc : NoConstraints σ) (hf : okTerm L σ f = true) (hx : okTerm L σ x = true)
    (h : applyT L n σ f x fixFlag = .ok (σ', r)) :
    OkStore L σ' ∧ NoConstraints σ' ∧ σ.vars.length ≤ σ'.vars.length ∧
    (∀ t, okTerm L σ t = true → okTerm L σ' t = true) ∧ okTerm L σ' r = true ∧
    ∀ ρ, Sat L ρ σ' → Sat L ρ σ ∧
      ((∃ p, den ρ f = .app FUN [p, den ρ r] ∧ Sub L (den ρ x) p) ∨
       (den ρ f = .app TOP [] ∧ r = .app TOP [])) := by
  obtain ⟨s, hr, hs⟩ := applyT_sound wf ok nc hf hx h
  obtain ⟨h1, h2, h3, h4⟩ := step_unpack s
  exact ⟨h1, h2, h3, h4, hr, fun ρ hρ => ⟨s.sat ρ hρ, hs ρ hρ⟩⟩

theorem apply_chain {L : Lang} (wf : WF L) {n : Nat} {fixFlag : Bool} {σ σ' : Store} {f r : Term}
    {xs : List Term} (ok : OkStore L σ) (nc : NoConstraints σ)
    (hf : okTerm L σ f = true) (hxs : okTermL L σ xs = true)
    (h : applyAll L n fixFlag σ f xs = .ok (σ', r)) :
    OkStore L σ' ∧ NoConstraints σ' ∧ σ.vars.length ≤ σ'.vars.length ∧
    (∀ t, okTerm L σ t = true → okTerm L σ' t = true) ∧ okTerm L σ' r = true ∧
    ∀ ρ, Sat L ρ σ' → Sat L ρ σ ∧ Accepts L (den ρ f) (denL ρ xs) (den ρ r) := by
  obtain ⟨s, hr, hs⟩ := applyAll_sound wf n fixFlag xs σ σ' f r ok nc hf hxs h
  obtain ⟨h1, h2, h3, h4⟩ := step_unpack s
  exact ⟨h1, h2, h3, h4, hr, fun ρ hρ => ⟨s.sat ρ hρ, hs ρ hρ⟩⟩

theorem base_bound_never_compound {L : Lang} (wf : WF L) {n : Nat} {fixFlag : Bool} {σ σ' : Store}
    {f r : Term} {xs : List Term} (ok : OkStore L σ) (nc : NoConstraints σ)
    (hf : okTerm L σ f = true) (hxs : okTermL L σ xs = true)
    (h : applyAll L n fixFlag σ f xs = .ok (σ', r)) :
    ∀ v o args, (getVar σ' v).bound = some (.app o args) →
      ((getVar σ' v).lower.isSome = true ∨ (getVar σ' v).upper.isSome = true) → arityOf L o = 0 :=
  (apply_chain wf ok nc hf hxs h).1.basic

theorem base_bound_never_compound_unify {L : Lang} (wf : WF L) {n : Nat} {σ σ' : Store} {a b : Term}
    (ok : OkStore L σ) (nc : NoConstraints σ) (ha : okTerm L σ a = true) (hb : okTerm L σ b = true)
    (h : unify L n σ a b true false false = .ok σ') :
    ∀ v o args, (getVar σ' v).bound = some (.app o args) →
      ((getVar σ' v).lower.isSome = true ∨ (getVar σ' v).upper.isSome = true) → arityOf L o = 0 :=
  (unify_sound_partial wf rfl ok nc ha hb h).1.basic

/-- the property in one statement: after a successful chain of applications on an acyclic final
store, every admissible choice for the unresolved variables extends to an instantiation of all
variables under which the arguments are accepted and the result is the returned type -/
theorem apply_chain_instantiation {L : Lang} (wf : WF L) {n : Nat} {fixFlag : Bool} {σ σ' : Store}
    {f r : Term} {xs : List Term} (ok : OkStore L σ) (nc : NoConstraints σ)
    (hf : okTerm L σ f = true) (hxs : okTermL L σ xs = true)
    (h : applyAll L n fixFlag σ f xs = .ok (σ', r)) (hac : Acyclic σ')
    (θ : Val) (hθ : Choice L θ σ') :
    ∃ ρ, Sat L ρ σ' ∧ (∀ v, (getVar σ' v).bound = none → ρ v = θ v) ∧ Sat L ρ σ ∧
      Accepts L (den ρ f) (denL ρ xs) (den ρ r) := by
  obtain ⟨ok', _, _, _, _, hs⟩ := apply_chain wf ok nc hf hxs h
  obtain ⟨ρ, hρ, hθ'⟩ := witness_exists ok' hac θ hθ
  exact ⟨ρ, hρ, hθ', (hs ρ hρ).1, (hs ρ hρ).2⟩

end Tfv.C03P
